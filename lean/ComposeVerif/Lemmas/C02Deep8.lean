import ComposeVerif.Lemmas.C02Deep7
namespace CV.Deep
open CV CV.Merge
open CV.Val (lookup insert keys KVs)

theorem loggingStep_wf (mk : KVs → KVs → TPath → Out KVs) (p : TPath) (hmk : MkWF mk p)
    {e o z : Val} (we : WF e) (wo : WF o) (h : loggingStep mk e o p = .ok z) : WF z := by
  cases we with
  | map a1 a2 =>
    cases wo with
    | map b1 b2 =>
      simp only [loggingStep] at h
      split at h
      · cases h
      · split at h
        · obtain ⟨m, hm, rfl⟩ := okMap_wf h
          exact WF.map_iff.mpr (hmk _ _ m ⟨a1, a2⟩ ⟨b1, b2⟩ hm)
        · simp only [Out.ok.injEq] at h; subst h; exact .map b1 b2
    | null => simp [loggingStep] at h
    | bool b => simp [loggingStep] at h
    | int i => simp [loggingStep] at h
    | float s => simp [loggingStep] at h
    | str s => simp [loggingStep] at h
    | seqNil => simp [loggingStep] at h
    | seqCons _ _ => simp [loggingStep] at h
  | null => simp [loggingStep] at h
  | bool b => simp [loggingStep] at h
  | int i => simp [loggingStep] at h
  | float s => simp [loggingStep] at h
  | str s => simp [loggingStep] at h
  | seqNil => simp [loggingStep] at h
  | seqCons _ _ => simp [loggingStep] at h

theorem bind_ok {α β : Type} {x : Out α} {f : α → Out β} {z : β} (h : x.bind f = .ok z) : ∃ a, x = .ok a ∧ f a = .ok z := by
  cases x with
  | ok a => exact ⟨a, rfl, h⟩
  | err e => simp [Out.bind] at h
  | panic s => simp [Out.bind] at h

theorem specialStep_wf (mk : KVs → KVs → TPath → Out KVs) (p : TPath) (hmk : MkWF mk p) (r : Rule) (hr : r ≠ .ipam)
    {e o z : Val} (we : WF e) (wo : WF o) (h : specialStep mk r e o p = .ok z) : WF z := by
  cases r with
  | ipam => exact absurd rfl hr
  | toSeq =>
    simp only [specialStep, Out.ok.injEq] at h; subst h
    exact WF.seq_append (seqOf_wf we) (seqOf_wf wo)
  | override => simp only [specialStep, Out.ok.injEq] at h; subst h; exact wo
  | ulimit =>
    cases wo with
    | map b1 b2 =>
      simp only [specialStep] at h
      obtain ⟨m, hm, rfl⟩ := okMap_wf h
      exact WF.map_iff.mpr (hmk _ _ m ⟨b1, b2⟩ ⟨b1, b2⟩ hm)
    | null => simp only [specialStep, Out.ok.injEq] at h; subst h; exact .null
    | bool b => simp only [specialStep, Out.ok.injEq] at h; subst h; exact .bool b
    | int i => simp only [specialStep, Out.ok.injEq] at h; subst h; exact .int i
    | float s => simp only [specialStep, Out.ok.injEq] at h; subst h; exact .float s
    | str s => simp only [specialStep, Out.ok.injEq] at h; subst h; exact .str s
    | seqNil => simp only [specialStep, Out.ok.injEq] at h; subst h; exact .seqNil
    | seqCons h1 h2 => simp only [specialStep, Out.ok.injEq] at h; subst h; exact .seqCons h1 h2
  | extraHosts =>
    simp only [specialStep] at h
    cases hk : keepNew (seqOf e) (seqOf o) with
    | none => simp [hk] at h
    | some l =>
      simp only [hk, Out.ok.injEq] at h; subst h
      apply WF.seq_append (seqOf_wf we)
      exact WF.seq_of_forall (fun x hx => (seqOf_wf wo).seq_mem x (keepNew_sub hk x hx))
  | dependsOn =>
    simp only [specialStep] at h
    obtain ⟨r, hr1, h⟩ := bind_ok h
    obtain ⟨l, hl1, h⟩ := bind_ok h
    exact mergeOptMapsWith_wf mk p hmk (fun m hm => intoMap_wf _ wf_dependsOnDefault we (hm ▸ hr1))
      (fun m hm => intoMap_wf _ wf_dependsOnDefault wo (hm ▸ hl1)) h
  | networks =>
    simp only [specialStep] at h
    obtain ⟨r, hr1, h⟩ := bind_ok h
    obtain ⟨l, hl1, h⟩ := bind_ok h
    exact mergeOptMapsWith_wf mk p hmk (fun m hm => intoMap_wf _ .null we (hm ▸ hr1))
      (fun m hm => intoMap_wf _ .null wo (hm ▸ hl1)) h
  | build =>
    simp only [specialStep] at h
    exact mergeOptMapsWith_wf mk p hmk (fun m hm => toBuild_wf we hm) (fun m hm => toBuild_wf wo hm) h
  | logging => exact loggingStep_wf mk p hmk we wo h
  | unknown => simp [specialStep] at h

end CV.Deep
