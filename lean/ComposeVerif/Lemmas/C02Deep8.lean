import ComposeVerif.Lemmas.C02Deep7
namespace CV.Deep
open CV CV.Merge
open CV.Val (lookup insert keys KVs)

theorem loggingStep_wf (mk : KVs → KVs → TPath → Out KVs) (p : TPath) (hmk : MkWF mk p)
    {e o z : Val} (we : WF e) (wo : WF o) (h : loggingStep mk e o p = .ok z) : WF z := by
  cases we with
  | null => simp only [loggingStep, Out.ok.injEq] at h; subst h; exact wo
  | map a1 a2 =>
    cases wo with
    | null => simp only [loggingStep, Out.ok.injEq] at h; subst h; exact .map a1 a2
    | map b1 b2 =>
      simp only [loggingStep] at h
      split at h
      · obtain ⟨m, hm, rfl⟩ := okMap_wf h
        exact WF.map_iff.mpr (hmk _ _ m ⟨a1, a2⟩ ⟨b1, b2⟩ hm)
      · simp only [Out.ok.injEq] at h; subst h; exact .map b1 b2
    | bool b => simp [loggingStep] at h
    | int i => simp [loggingStep] at h
    | float s => simp [loggingStep] at h
    | str s => simp [loggingStep] at h
    | seqNil => simp [loggingStep] at h
    | seqCons _ _ => simp [loggingStep] at h
  | bool b => cases wo <;> simp only [loggingStep, Out.ok.injEq] at h <;> first | (subst h; exact .bool b) | cases h
  | int i => cases wo <;> simp only [loggingStep, Out.ok.injEq] at h <;> first | (subst h; exact .int i) | cases h
  | float s => cases wo <;> simp only [loggingStep, Out.ok.injEq] at h <;> first | (subst h; exact .float s) | cases h
  | str s => cases wo <;> simp only [loggingStep, Out.ok.injEq] at h <;> first | (subst h; exact .str s) | cases h
  | seqNil => cases wo <;> simp only [loggingStep, Out.ok.injEq] at h <;> first | (subst h; exact .seqNil) | cases h
  | seqCons h1 h2 => cases wo <;> simp only [loggingStep, Out.ok.injEq] at h <;> first | (subst h; exact .seqCons h1 h2) | cases h

theorem specialStep_wf (mk : KVs → KVs → TPath → Out KVs) (p : TPath) (hmk : MkWF mk p) (r : Rule) (hr : r ≠ .ipam)
    {e o z : Val} (we : WF e) (wo : WF o) (h : specialStep mk r e o p = .ok z) : WF z := by
  cases r with
  | ipam => exact absurd rfl hr
  | toSeq =>
    simp only [specialStep, Out.ok.injEq] at h; subst h
    exact WF.seq_append (seqOf_wf we) (seqOf_wf wo)
  | override => simp only [specialStep, Out.ok.injEq] at h; subst h; exact wo
  | ulimit =>
    cases wo with
    | map b1 b2 =>
      simp only [specialStep] at h
      obtain ⟨m, hm, rfl⟩ := okMap_wf h
      exact WF.map_iff.mpr (hmk _ _ m ⟨b1, b2⟩ ⟨b1, b2⟩ hm)
    | null => simp only [specialStep, Out.ok.injEq] at h; subst h; exact .null
    | bool b => simp only [specialStep, Out.ok.injEq] at h; subst h; exact .bool b
    | int i => simp only [specialStep, Out.ok.injEq] at h; subst h; exact .int i
    | float s => simp only [specialStep, Out.ok.injEq] at h; subst h; exact .float s
    | str s => simp only [specialStep, Out.ok.injEq] at h; subst h; exact .str s
    | seqNil => simp only [specialStep, Out.ok.injEq] at h; subst h; exact .seqNil
    | seqCons h1 h2 => simp only [specialStep, Out.ok.injEq] at h; subst h; exact .seqCons h1 h2
  | extraHosts =>
    simp only [specialStep, Out.ok.injEq] at h; subst h
    apply WF.seq_append (seqOf_wf we)
    exact WF.seq_of_forall (fun x hx => (seqOf_wf wo).seq_mem x (keepNew_sub x hx))
  | dependsOn =>
    simp only [specialStep] at h
    exact convMerge_wf mk p hmk _ (fun v m wv hm => intoMap_wf _ wf_dependsOnDefault wv hm) we wo h
  | networks =>
    simp only [specialStep] at h
    exact convMerge_wf mk p hmk _ (fun v m wv hm => intoMap_wf _ .null wv hm) we wo h
  | build =>
    simp only [specialStep] at h
    exact convMerge_wf mk p hmk _ (fun v m wv hm => toBuild_wf wv hm) we wo h
  | logging => exact loggingStep_wf mk p hmk we wo h
  | unknown => simp [specialStep] at h

end CV.Deep
