import ComposeVerif.Lemmas.Dotenv
import ComposeVerif.Props.C07
/-!
# Helper lemmas for C18, round 2

* unconditional "never panics" (C07's `subst_never_panics`);
* values built from the C07 interpolation grammar (`subst_render`);
* several files (`fromFiles` = fold of `parse` with the lookup chain);
* the `\0` escape in general (fewer than three digits, value above 255);
* bad key characters after an `export`-like prefix.
-/
namespace CV.Dotenv
open CV CV.Template

/-! ## D.1 never panics, unconditionally -/

theorem parse_ne_panic (src : Str) (lk : Env) (s : Site) : parse src lk ≠ .panic s := by
  intro h
  obtain ⟨p, _, env, t, hp⟩ := parse_panic_sites src lk s h
  exact subst_never_panics env t p hp

theorem fromFiles_ne_panic (cur : Env) : ∀ (fs : List Str) (m : Map) (s : Site), fromFiles cur fs m ≠ .panic s
  | [], m, s => by simp [fromFiles]
  | f :: fs, m, s => by
    rw [fromFiles]
    have hp := parse_ne_panic (stripBOM f) (envOf cur m)
    generalize parse (stripBOM f) (envOf cur m) = o at hp
    cases o with
    | ok env => exact fromFiles_ne_panic cur fs _ s
    | err e pm => intro h; cases h
    | panic s' => exact absurd rfl (hp s')

theorem readFiles_ne_panic (lk : Env) : ∀ (fs : List Str) (m : Map) (s : Site), readFiles lk fs m ≠ .panic s
  | [], m, s => by simp [readFiles]
  | f :: fs, m, s => by
    rw [readFiles]
    have hp := parse_ne_panic (stripBOM f) lk
    generalize parse (stripBOM f) lk = o at hp
    cases o with
    | ok env => exact readFiles_ne_panic lk fs _ s
    | err e pm => intro h; cases h
    | panic s' => exact absurd rfl (hp s')

/-! ## D.2 values built from the interpolation grammar -/

theorem value_unq_template_lemma (env : Env) (t : List Seg) (h : Template.WF t = true) :
    (Value.unq (renderL t)).eval env = evalOut env t := by
  simp only [Value.eval]
  exact subst_render env t h

theorem value_dq_template_lemma (env : Env) (items : List QItem) (t : List Seg)
    (he : expandEscapes (rawItems '"' items) = renderL t) (h : Template.WF t = true) :
    (Value.dq items).eval env = evalOut env t := by
  simp only [Value.eval, he]
  exact subst_render env t h

/-- plain characters between double quotes stand for themselves -/
theorem rawItems_chr (q : Char) : ∀ s : Str, rawItems q (s.map QItem.chr) = s
  | [] => rfl
  | c :: s => by simp [rawItems, QItem.raw, rawItems_chr q s]

theorem envOf_lookup_first_lemma (lk : Env) (m : Map) (k v : Str) (h : lk k = some v) : envOf lk m k = some v := by
  simp [envOf, h]

theorem envOf_earlier_second_lemma (lk : Env) (m : Map) (k : Str) (h : lk k = none) : envOf lk m k = get m k := by
  simp [envOf, h]

/-- the lookup chain while the i-th file is read: caller's environment, then earlier files, then earlier lines -/
theorem envOf_chain_lemma (cur : Env) (m m' : Map) (k : Str) :
    envOf (envOf cur m) m' k = (cur k).or ((get m k).or (get m' k)) := by
  unfold envOf
  cases cur k with
  | some v => simp
  | none =>
    cases get m k with
    | some v => simp
    | none => simp

theorem interpolation_precedence_lemma (lookup : Env) (m : Map) (n : Str) (b : Bool) :
    evalOut (envOf lookup m) [Seg.var n b] = .ok (((lookup n).or (get m n)).getD []) := by
  cases h : lookup n with
  | some v => simp [evalOut, evalL, Seg.eval, envOf, h]
  | none => simp [evalOut, evalL, Seg.eval, envOf, h]

/-- a well-formed prefix followed by one more line -/
theorem parse_render_snoc (lk : Env) (ls : List Line) (l : Line) (hwf : WF ls = true) (hl : l.wf = true) :
    parse (render (ls ++ [l])) lk = (evalLines lk ls).andThen (fun m => evalFrom lk [l] m) := by
  have hw : WF (ls ++ [l]) = true := by
    simp only [WF, List.all_append, List.all_cons, List.all_nil, Bool.and_true, Bool.and_eq_true] at hwf ⊢
    exact ⟨hwf, hl⟩
  rw [parse_render_lemma lk (ls ++ [l]) hw]
  unfold evalLines
  exact evalFrom_append lk ls [l] []

theorem evalFrom_single_assign (lk : Env) (i : Str) (e : Option Str) (key w1 : Str) (s : Sep) (w2 : Str) (v : Value)
    (tr : Str) (c : Option Str) (m : Map) :
    evalFrom lk [.assign i e key w1 s w2 v tr c] m =
      assignOut (v.eval (envOf lk m)) (fun x => .ok (put m key x)) m := by
  rw [evalFrom_assign]
  rfl

/-! ## D.3 several files -/

/-- the contents of a file, optionally preceded by a byte-order mark -/
def withBOM (b : Bool) (s : Str) : Str := if b then '\uFEFF' :: s else s

theorem head?_append_cases {a b : Str} {c : Char} (h : (a ++ b).head? = some c) :
    a.head? = some c ∨ (a = [] ∧ b.head? = some c) := by
  cases a with
  | nil => exact Or.inr ⟨rfl, by simpa using h⟩
  | cons x a => exact Or.inl (by simpa using h)

theorem nb_head {ws : Str} {c : Char} (h : nbAll ws = true) (hc : ws.head? = some c) : isSpaceU c = true := by
  cases ws with
  | nil => simp at hc
  | cons x ws =>
    simp at hc; subst hc
    simp only [nbAll, List.all_cons, Bool.and_eq_true] at h
    exact isSpaceNB_isSpaceU h.1

/-- the first character of a well-formed line (if any) is white space, `#` or a key rune -/
theorem line_head {l : Line} (hwf : l.wf = true) {c : Char} (hc : l.render.head? = some c) :
    isSpaceU c = true ∨ c = '#' ∨ isKeyRune c = true := by
  have key_start : ∀ (exp : Option Str) (key Z : Str), validKey key = true →
      (renderExp exp ++ (key ++ Z)).head? = some c → isKeyRune c = true := by
    intro exp key Z hk h
    obtain ⟨k0, kr, rfl, hk0⟩ := validKey_ne hk
    cases exp with
    | none => simp [renderExp] at h; subst h; exact hk0
    | some ws => simp [renderExp, exportKw] at h; subst h; decide
  cases l with
  | blank ws =>
    simp only [Line.wf] at hwf
    exact Or.inl (nb_head hwf hc)
  | comment ws t =>
    simp only [Line.wf, Bool.and_eq_true] at hwf
    simp only [Line.render] at hc
    rcases head?_append_cases hc with h | ⟨_, h⟩
    · exact Or.inl (nb_head hwf.1 h)
    · simp at h; exact Or.inr (Or.inl h.symm)
  | bare indent exp key trail =>
    simp only [Line.wf, Bool.and_eq_true] at hwf
    simp only [Line.render] at hc
    rcases head?_append_cases hc with h | ⟨_, h⟩
    · exact Or.inl (nb_head hwf.1.1.1 h)
    · exact Or.inr (Or.inr (key_start exp key trail hwf.1.2 h))
  | assign indent exp key ws1 sep ws2 v trail cmt =>
    simp only [Line.wf, Bool.and_eq_true] at hwf
    obtain ⟨⟨⟨⟨⟨⟨⟨⟨hi, _⟩, hk⟩, _⟩, _⟩, _⟩, _⟩, _⟩, _⟩ := hwf
    simp only [Line.render] at hc
    rcases head?_append_cases hc with h | ⟨_, h⟩
    · exact Or.inl (nb_head hi h)
    · exact Or.inr (Or.inr (key_start exp key _ hk h))

theorem render_head {ls : List Line} (hwf : WF ls = true) {c : Char} (hc : (render ls).head? = some c) :
    isSpaceU c = true ∨ c = '#' ∨ isKeyRune c = true := by
  cases ls with
  | nil => simp [render] at hc
  | cons l ls =>
    simp only [WF, List.all_cons, Bool.and_eq_true] at hwf
    simp only [render] at hc
    rcases head?_append_cases hc with h | ⟨_, h⟩
    · exact line_head hwf.1 h
    · simp at h; subst h; exact Or.inl (by decide)

theorem stripBOM_of_head (s : Str) (h : s.head? ≠ some '\uFEFF') : stripBOM s = s := by
  unfold stripBOM
  split
  · exact absurd rfl h
  · rfl

theorem stripBOM_render (b : Bool) (ls : List Line) (hwf : WF ls = true) : stripBOM (withBOM b (render ls)) = render ls := by
  cases b with
  | true => simp [withBOM, stripBOM]
  | false =>
    simp only [withBOM, Bool.false_eq_true, if_false]
    apply stripBOM_of_head
    intro h
    rcases render_head hwf h with h1 | h1 | h1
    · revert h1; decide
    · revert h1; decide
    · revert h1; decide

theorem fromFiles_render_lemma (cur : Env) : ∀ (fs : List (Bool × List Line)) (m : Map),
    (∀ f ∈ fs, WF f.2 = true) →
    fromFiles cur (fs.map fun f => withBOM f.1 (render f.2)) m = evalFilesFrom cur (fs.map Prod.snd) m
  | [], m, _ => rfl
  | (b, ls) :: fs, m, h => by
    have hwf : WF ls = true := h (b, ls) (by simp)
    simp only [List.map_cons]
    rw [fromFiles, evalFilesFrom, stripBOM_render b ls hwf, parse_render_lemma (envOf cur m) ls hwf]
    generalize evalLines (envOf cur m) ls = o
    cases o with
    | ok env => exact fromFiles_render_lemma cur fs _ (fun f hf => h f (by simp [hf]))
    | err e pm => rfl
    | panic s => rfl

theorem get_none_of_not_mem : ∀ (m : Map) (k : Str), k ∉ m.map Prod.fst → get m k = none
  | [], _, _ => rfl
  | (k0, v0) :: m, k, h => by
    simp only [List.map_cons, List.mem_cons, not_or] at h
    simp only [get, h.1, if_false]
    exact get_none_of_not_mem m k h.2

/-- merging a file's variables: the file's value where it has one, the accumulated value otherwise -/
theorem get_mergeInto_lemma : ∀ (env m : Map) (k : Str), (env.map Prod.fst).Nodup →
    get (mergeInto m env) k = (get env k).or (get m k)
  | [], m, k, _ => by simp [mergeInto, get]
  | (k0, v0) :: r, m, k, h => by
    simp only [List.map_cons, List.nodup_cons] at h
    rw [mergeInto, get_mergeInto_lemma r (put m k0 v0) k h.2]
    by_cases hk : k = k0
    · subst hk
      rw [get_none_of_not_mem r k h.1, get_put_same_lemma]
      simp [get]
    · rw [get_put_other_lemma m k0 k v0 hk]
      simp [get, hk]

/-! ## D.4 the `\0` escape in general -/

theorem expEsc_skip : ∀ (n : Nat) (s : Str), expEsc n s = expEsc 0 (s.drop n)
  | 0, s => by simp
  | n + 1, [] => by simp [expEsc]
  | n + 1, c :: cs => by
    rw [expEsc, List.drop_succ_cons]
    exact expEsc_skip n cs

theorem expandEscapes_zero_lemma (s : Str) :
    expandEscapes ('\\' :: '0' :: s) =
      octalRepl ((s.take 3).takeWhile Char.isDigit) ++
        expandEscapes (s.drop ((s.take 3).takeWhile Char.isDigit).length) := by
  have e0 : simpleEscape '0' = none := by decide
  unfold expandEscapes
  rw [expEsc]
  simp only [beq_self_eq_true, if_true, e0]
  rw [expEsc_skip]
  congr 2
  rw [Nat.add_comm, List.drop_succ_cons]

theorem octalRepl_keep (ds : Str) (h : ¬ (ds.length = 3 ∧ ds.all isOct = true ∧ octVal ds ≤ 255)) :
    octalRepl ds = '\\' :: ds := by
  unfold octalRepl
  split
  · rename_i hc
    simp only [Bool.and_eq_true, beq_iff_eq, decide_eq_true_eq] at hc
    exact absurd ⟨hc.1.1, hc.1.2, hc.2⟩ h
  · rfl

/-! ## D.5 a bad key character, whatever precedes it -/

theorem dropWhile_append_stop {p : Char → Bool} : ∀ (a : Str) (c : Char) (r : Str), p c = false →
    (a ++ c :: r).dropWhile p = a.dropWhile p ++ c :: r
  | [], c, r, h => by simpa using dropWhile_head_neg h
  | x :: a, c, r, h => by
    by_cases hx : p x = true
    · simp only [List.cons_append, List.dropWhile_cons_of_pos hx]
      exact dropWhile_append_stop a c r h
    · simp only [List.cons_append, List.dropWhile_cons_of_neg hx]

theorem all_dropWhile (q p : Char → Bool) (a : Str) (h : a.all q = true) : (a.dropWhile p).all q = true := by
  rw [List.all_eq_true] at h ⊢
  intro x hx
  exact h x ((List.dropWhile_suffix (l := a) p).subset hx)

/-- whatever `export` stripping does to a key text that ends in a bad character, the bad character stays in
    front of the same rest and only scannable characters precede it -/
theorem dropExport_bad (pre : Str) (c : Char) (rest : Str) (hpre : pre.all okChar = true) (hc : badChar c = true) :
    ∃ pre', dropExport (pre ++ c :: rest) = pre' ++ c :: rest ∧ pre'.all okChar = true := by
  have hcK : isKeyRune c = false := by
    simp only [badChar, Bool.and_eq_true, Bool.not_eq_true'] at hc; exact hc.1.1.1.1
  have hcNB : isSpaceNB c = false := by
    simp only [badChar, Bool.and_eq_true, Bool.not_eq_true'] at hc; exact hc.1.1.1.2
  unfold dropExport
  by_cases hp : exportKw.isPrefixOf (pre ++ c :: rest) = true
  · rw [if_pos hp]
    rcases isPrefixOf_append_split exportKw pre (c :: rest) hp with h1 | ⟨x, hx, hm⟩
    · obtain ⟨t, ht⟩ : ∃ t, pre = exportKw ++ t := by
        obtain ⟨t, ht⟩ := List.isPrefixOf_iff_prefix.mp h1
        exact ⟨t, ht.symm⟩
      subst ht
      have htok : t.all okChar = true := by
        simp only [List.all_append, Bool.and_eq_true] at hpre; exact hpre.2
      have hd : (exportKw ++ t ++ c :: rest).drop 6 = t ++ c :: rest := by
        simp [exportKw]
      rw [hd]
      generalize hX : t ++ c :: rest = X
      cases X with
      | nil => simp at hX
      | cons d r =>
        by_cases hd2 : isSpaceRE d = true
        · simp only [hd2, if_true]
          rw [← hX, dropWhile_append_stop t c rest hcNB]
          exact ⟨t.dropWhile isSpaceNB, rfl, all_dropWhile okChar isSpaceNB t htok⟩
        · simp only [hd2, Bool.false_eq_true, if_false]
          exact ⟨exportKw ++ t, rfl, hpre⟩
    · simp at hx; subst hx
      have := exportKw_key _ hm
      rw [hcK] at this; cases this
  · rw [if_neg hp]
    exact ⟨pre, rfl, hpre⟩

/-- `parseLoop_badkey` without the restriction on `export`-like prefixes -/
theorem parseLoop_badkey_any (f : Nat) (indent : Str) (exp : Option Str) (pre : Str) (c : Char) (rest : Str) (m : Map) (lk : Env)
    (hi : nbAll indent = true) (he : expOk exp = true) (hpre : pre.all okChar = true)
    (hlead : pre.dropWhile isSpaceNB = pre)
    (hc : badChar c = true) (hhash : pre ≠ [] ∨ c ≠ '#') :
    parseLoop (f + 1) (indent ++ (renderExp exp ++ (pre ++ c :: rest))) m lk = .err .unexpectedChar m := by
  have hcU := badChar_not_spaceU hc
  have hcNB : isSpaceNB c = false := by
    simp only [badChar, Bool.and_eq_true, Bool.not_eq_true'] at hc; exact hc.1.1.1.2
  have hhead : ∃ d Y, pre ++ c :: rest = d :: Y ∧ isSpaceU d = false ∧ d ≠ '#' ∧ isSpaceNB d = false := by
    cases pre with
    | nil =>
      refine ⟨c, rest, rfl, hcU, ?_, hcNB⟩
      rcases hhash with h | h
      · exact absurd rfl h
      · exact h
    | cons d pre =>
      have hd : isSpaceNB d = false := by
        cases hs : isSpaceNB d with
        | false => rfl
        | true =>
          rw [List.dropWhile_cons_of_pos hs] at hlead
          have := (List.dropWhile_suffix (l := pre) isSpaceNB).length_le
          rw [hlead] at this; simp at this; omega
      simp only [List.all_cons, Bool.and_eq_true, okChar, Bool.or_eq_true] at hpre
      have hk : isKeyRune d = true := by
        rcases hpre.1 with h | h
        · exact h
        · rw [hd] at h; cases h
      refine ⟨d, pre ++ c :: rest, rfl, key_not_spaceU hk, ?_, hd⟩
      intro e; subst e; revert hk; decide
  obtain ⟨d, Y, hY, hdU, hdH, hdNB⟩ := hhead
  have hdrop : ∃ pre', dropExport (renderExp exp ++ (pre ++ c :: rest)) = pre' ++ c :: rest ∧ pre'.all okChar = true := by
    cases exp with
    | none =>
      simp only [renderExp, List.nil_append]
      exact dropExport_bad pre c rest hpre hc
    | some ws =>
      refine ⟨pre, ?_, hpre⟩
      simp only [renderExp, List.append_assoc]
      apply dropExport_export ws _ he
      rw [hY]; exact dropWhile_head_neg hdNB
  obtain ⟨pre', hdrop, hpre'⟩ := hdrop
  have hstart : stmtL false (indent ++ (renderExp exp ++ (pre ++ c :: rest))) = renderExp exp ++ (pre ++ c :: rest) := by
    rw [stmtL_skip_ws _ _ (nbAll_spaceU hi)]
    cases exp with
    | some ws =>
      simp only [renderExp, exportKw, List.cons_append]
      exact stmtL_stop _ (by decide) (by decide)
    | none =>
      simp only [renderExp, List.nil_append]
      rw [hY]; exact stmtL_stop _ hdU hdH
  have hne : (renderExp exp ++ (pre ++ c :: rest)).isEmpty = false := by
    rw [hY]; cases exp <;> simp [renderExp, exportKw]
  rw [parseLoop, stmtStart_eq _ _ (Nat.lt_succ_self _)]
  simp only
  rw [hstart, hne]
  simp only [Bool.false_eq_true, if_false]
  have hloc : locateKey (renderExp exp ++ (pre ++ c :: rest)) = .ok (.error .unexpectedChar) := by
    unfold locateKey
    rw [hdrop]
    simp only
    rw [scanKey_ok pre' _ 0 hpre', scanKey_bad c rest _ hc]
    simp only
    cases hs : splitNL (pre' ++ c :: rest) with
    | nil => exact absurd hs (splitNL_ne_nil _)
    | cons a b => rfl
  rw [hloc]

end CV.Dotenv
