import ComposeVerif.Lemmas.DotenvR4
import ComposeVerif.Model.DotenvTrace
/-!
# Helper lemmas for C18, round 5 (additions only)

* F.1 ARBITRARY inputs: every name that enters the result map (also the partial map returned with an error)
  consists of key runes only — no white space, no delimiter, no quote, no `#`, no `$`;
* F.2 `readFiles` (`ReadWithLookup`) on arbitrary file contents: a left-to-right fold.
-/
namespace CV.Dotenv
open CV CV.Template

/-! ## F.1 whatever the input, the names in the map are words over the key runes -/

theorem scanKey_noDelim_ok : ∀ (s : Str) (i : Nat), scanKey s i = .noDelim → s.all okChar = true
  | [], _, _ => rfl
  | c :: cs, i, h => by
    unfold scanKey at h
    split at h
    · rename_i hc
      simp only [List.all_cons, okChar, hc, Bool.or_true, Bool.true_and]
      exact scanKey_noDelim_ok cs (i + 1) h
    · split at h
      · cases h
      · split at h
        · cases h
        · split at h
          · rename_i hc
            simp only [List.all_cons, okChar, hc, Bool.true_or, Bool.true_and]
            exact scanKey_noDelim_ok cs (i + 1) h
          · cases h

theorem scanKey_delim_ok : ∀ (s : Str) (i k : Nat) (inh : Bool), scanKey s i = .delim k inh → (s.take (k - i)).all okChar = true
  | [], _, _, _, h => by simp [scanKey] at h
  | c :: cs, i, k, inh, h => by
    have hlt := scanKey_delim_lt (c :: cs) i k inh h
    unfold scanKey at h
    split at h
    · rename_i hc
      have hlt2 := scanKey_delim_lt cs (i + 1) k inh h
      have : k - i = (k - (i + 1)) + 1 := by omega
      rw [this, List.take_succ_cons]
      simp only [List.all_cons, okChar, hc, Bool.or_true, Bool.true_and]
      exact scanKey_delim_ok cs (i + 1) k inh h
    · split at h
      · cases h; simp
      · split at h
        · cases h; simp
        · split at h
          · rename_i hc
            have hlt2 := scanKey_delim_lt cs (i + 1) k inh h
            have : k - i = (k - (i + 1)) + 1 := by omega
            rw [this, List.take_succ_cons]
            simp only [List.all_cons, okChar, hc, Bool.true_or, Bool.true_and]
            exact scanKey_delim_ok cs (i + 1) k inh h
          · cases h

theorem trimRightU_all (q : Char → Bool) (a : Str) (h : a.all q = true) : (trimRightU a).all q = true := by
  unfold trimRightU
  rw [List.all_reverse]
  apply all_dropWhile
  rw [List.all_reverse]
  exact h

/-- the key `locateKeyName` hands back consists of key runes and non-breaking white space only -/
theorem locateKey_key_ok (src key left : Str) (inh : Bool) (h : locateKey src = .ok (.ok (key, left, inh))) :
    key.all okChar = true := by
  unfold locateKey at h
  simp only at h
  split at h
  · split at h <;> cases h
  · rename_i hs
    split at h
    · cases h
    · split at h
      · cases h
      · simp only [Except.ok.injEq, Prod.mk.injEq] at h
        rw [← h.1]
        exact trimRightU_all _ _ (scanKey_noDelim_ok _ _ hs)
  · rename_i i inh' hs
    split at h
    · cases h
    · rename_i key' hk
      split at h
      · cases h
      · split at h
        · cases h
        · simp only [Except.ok.injEq, Prod.mk.injEq] at h
          rw [← h.1]
          apply trimRightU_all
          have := scanKey_delim_ok _ 0 i inh' hs
          unfold sliceTo at hk
          split at hk
          · cases hk; simpa using this
          · cases hk

theorem okChar_not_space {c : Char} (h1 : okChar c = true) (h2 : isSpaceU c = false) : isKeyRune c = true := by
  unfold okChar at h1
  cases hk : isKeyRune c
  · rw [hk, Bool.false_or] at h1
    rw [isSpaceNB_isSpaceU h1] at h2
    cases h2
  · rfl

theorem key_valid_of_ok {key : Str} (h1 : key.all okChar = true) (h2 : key.any isSpaceU = false) : key.all isKeyRune = true := by
  rw [List.all_eq_true] at h1 ⊢
  intro c hc
  apply okChar_not_space (h1 c hc)
  cases hs : isSpaceU c
  · rfl
  · have : key.any isSpaceU = true := List.any_eq_true.mpr ⟨c, hc, hs⟩
    rw [this] at h2; cases h2

def KeysValid (m : Map) : Prop := ∀ kv ∈ m, kv.1.all isKeyRune = true

theorem put_keysValid : ∀ (m : Map) (k v : Str), KeysValid m → k.all isKeyRune = true → KeysValid (put m k v)
  | [], k, v, _, hk => by
    intro kv hkv
    simp only [put, List.mem_singleton] at hkv
    rw [hkv]; exact hk
  | (k', v') :: r, k, v, hm, hk => by
    intro kv hkv
    unfold put at hkv
    split at hkv
    · rcases List.mem_cons.mp hkv with h | h
      · rw [h]; exact hk
      · exact hm kv (List.mem_cons_of_mem _ h)
    · rcases List.mem_cons.mp hkv with h | h
      · rw [h]; exact hm (k', v') (List.mem_cons_self ..)
      · exact put_keysValid r k v (fun x hx => hm x (List.mem_cons_of_mem _ hx)) hk kv h

/-- the map of an outcome: the result, or the partial map returned together with an error -/
def POut.map? : POut → Option Map
  | .ok m => some m
  | .err _ m => some m
  | .panic _ => none

theorem parseLoop_keys_valid : ∀ (fuel : Nat) (src : Str) (m : Map) (lk : Env) (r : Map),
    (parseLoop fuel src m lk).map? = some r → KeysValid m → KeysValid r
  | 0, _, _, _, _, h, _ => by cases h
  | fuel + 1, src, m, lk, r, h, hm => by
    unfold parseLoop at h
    rw [stmtStart_eq _ _ (Nat.lt_succ_self _)] at h
    simp only at h
    generalize stmtL false src = cs at h
    by_cases he : cs.isEmpty = true
    · simp only [he, if_true] at h
      cases h; exact hm
    · simp only [he, Bool.false_eq_true, if_false] at h
      rcases locateKey_total cs with ⟨e, hk⟩ | ⟨key, left, inh, hk, _⟩
      · rw [hk] at h; cases h; exact hm
      · have hok := locateKey_key_ok cs key left inh hk
        rw [hk] at h
        simp only at h
        split at h
        · cases h; exact hm
        · rename_i hsp
          have hkey : key.all isKeyRune = true := key_valid_of_ok hok (by simpa using hsp)
          split at h
          · split at h
            · exact parseLoop_keys_valid fuel left _ lk r h (put_keysValid m key _ hm hkey)
            · exact parseLoop_keys_valid fuel left m lk r h hm
          · rcases extractValue_total left m lk with ⟨p, hx, _⟩ | ⟨e, hx⟩ | ⟨v, left', hx, _⟩
            · rw [hx] at h; cases h
            · rw [hx] at h; cases h; exact hm
            · rw [hx] at h
              simp only at h
              exact parseLoop_keys_valid fuel left' _ lk r h (put_keysValid m key v hm hkey)

theorem parse_keys_valid_lemma (src : Str) (lk : Env) (r : Map) (h : (parse src lk).map? = some r) : KeysValid r :=
  parseLoop_keys_valid _ src [] lk r h (fun _ hkv => by cases hkv)

/-! ## F.2 `ReadWithLookup` on arbitrary file contents -/

theorem readFiles_append_lemma (lk : Env) : ∀ (a b : List Str) (m : Map),
    readFiles lk (a ++ b) m = (readFiles lk a m).andThen (fun m' => readFiles lk b m')
  | [], b, m => rfl
  | f :: a, b, m => by
    rw [List.cons_append, readFiles, readFiles]
    generalize parse (stripBOM f) lk = o
    cases o with
    | ok env => exact readFiles_append_lemma lk a b _
    | err e pm => rfl
    | panic s => rfl

theorem readFiles_single_ok (lk : Env) (f : Str) (m env : Map) (h : parse (stripBOM f) lk = .ok env) :
    readFiles lk [f] m = .ok (mergeInto m (env.filter fun kv => !startsWithDigit kv.1)) := by
  rw [readFiles, h]
  rfl

theorem readFiles_single_err (lk : Env) (f : Str) (m pm : Map) (e : PErr) (h : parse (stripBOM f) lk = .err e pm) :
    readFiles lk [f] m = .err e m := by
  rw [readFiles, h]

theorem filter_keys_nodup (p : Str × Str → Bool) : ∀ (m : Map), (m.map Prod.fst).Nodup → ((m.filter p).map Prod.fst).Nodup := by
  intro m h
  exact (List.Sublist.map Prod.fst (List.filter_sublist (l := m) (p := p))).nodup h

theorem readFiles_keys_nodup_lemma (lk : Env) : ∀ (fs : List Str) (m r : Map),
    readFiles lk fs m = .ok r → (m.map Prod.fst).Nodup → (r.map Prod.fst).Nodup
  | [], m, r, h, hm => by
    rw [readFiles] at h; cases h; exact hm
  | f :: fs, m, r, h, hm => by
    rw [readFiles] at h
    generalize parse (stripBOM f) lk = o at h
    cases o with
    | ok env => exact readFiles_keys_nodup_lemma lk fs _ r h (mergeInto_keys_nodup _ m hm)
    | err e pm => cases h
    | panic s => cases h

theorem mergeInto_keysValid : ∀ (env m : Map), KeysValid m → KeysValid env → KeysValid (mergeInto m env)
  | [], m, hm, _ => hm
  | (k, v) :: env, m, hm, he => by
    rw [mergeInto]
    exact mergeInto_keysValid env _ (put_keysValid m k v hm (he (k, v) (List.mem_cons_self ..)))
      (fun x hx => he x (List.mem_cons_of_mem _ hx))

/-- a digit-initial name is never returned by `ReadWithLookup` -/
def NoDigitKeys (m : Map) : Prop := ∀ kv ∈ m, startsWithDigit kv.1 = false

theorem put_noDigit : ∀ (m : Map) (k v : Str), NoDigitKeys m → startsWithDigit k = false → NoDigitKeys (put m k v)
  | [], k, v, _, hk => by
    intro kv hkv
    simp only [put, List.mem_singleton] at hkv
    rw [hkv]; exact hk
  | (k', v') :: r, k, v, hm, hk => by
    intro kv hkv
    unfold put at hkv
    split at hkv
    · rcases List.mem_cons.mp hkv with h | h
      · rw [h]; exact hk
      · exact hm kv (List.mem_cons_of_mem _ h)
    · rcases List.mem_cons.mp hkv with h | h
      · rw [h]; exact hm (k', v') (List.mem_cons_self ..)
      · exact put_noDigit r k v (fun x hx => hm x (List.mem_cons_of_mem _ hx)) hk kv h

theorem mergeInto_noDigit : ∀ (env m : Map), NoDigitKeys m → NoDigitKeys env → NoDigitKeys (mergeInto m env)
  | [], m, hm, _ => hm
  | (k, v) :: env, m, hm, he => by
    rw [mergeInto]
    exact mergeInto_noDigit env _ (put_noDigit m k v hm (he (k, v) (List.mem_cons_self ..)))
      (fun x hx => he x (List.mem_cons_of_mem _ hx))

theorem readFiles_noDigit_lemma (lk : Env) : ∀ (fs : List Str) (m r : Map),
    (readFiles lk fs m).map? = some r → NoDigitKeys m → NoDigitKeys r
  | [], m, r, h, hm => by
    rw [readFiles] at h; cases h; exact hm
  | f :: fs, m, r, h, hm => by
    rw [readFiles] at h
    generalize parse (stripBOM f) lk = o at h
    cases o with
    | ok env =>
      refine readFiles_noDigit_lemma lk fs _ r h (mergeInto_noDigit _ m hm ?_)
      intro kv hkv
      have := (List.mem_filter.mp hkv).2
      simpa using this
    | err e pm => cases h; exact hm
    | panic s => cases h

/-! ## F.3 the traced run is the model -/

theorem parseLoopT_fst : ∀ (fuel : Nat) (src : Str) (m : Map) (lk : Env) (t : Nat),
    (parseLoopT fuel src m lk t).1 = parseLoop fuel src m lk
  | 0, _, _, _, _ => rfl
  | fuel + 1, src, m, lk, t => by
    unfold parseLoopT parseLoop
    simp only
    cases stmtStart (src.length + 1) src with
    | error s => rfl
    | ok cs =>
      simp only
      by_cases he : cs.isEmpty = true
      · simp only [he, if_true]
      · simp only [he, Bool.false_eq_true, if_false]
        cases locateKey cs with
        | error s => rfl
        | ok r =>
          cases r with
          | error e => rfl
          | ok kli =>
            obtain ⟨key, left, inh⟩ := kli
            simp only
            by_cases hs : key.any isSpaceU = true
            · simp only [hs, if_true]
            · simp only [hs, Bool.false_eq_true, if_false]
              cases inh with
              | true =>
                simp only [if_true]
                cases lk key with
                | some v => exact parseLoopT_fst fuel _ _ lk _
                | none => exact parseLoopT_fst fuel _ _ lk _
              | false =>
                simp only [Bool.false_eq_true, if_false]
                cases extractValue left m lk with
                | error s => rfl
                | ok r2 =>
                  cases r2 with
                  | error e => rfl
                  | ok vl =>
                    obtain ⟨v, left'⟩ := vl
                    exact parseLoopT_fst fuel _ _ lk _

theorem parseT_fst (src : Str) (lk : Env) : (parseT src lk).1 = parse src lk :=
  parseLoopT_fst _ src [] lk 0

/-! ## F.4 the one branch of `expEsc` that `parse` cannot reach -/

/-- every backslash is followed by a character (the shape of the text `quotedLoop` collects) -/
def paired : Str → Bool
  | [] => true
  | c :: cs => if c == '\\' then (match cs with | [] => false | _ :: r => paired r) else paired cs

theorem paired_bs (d : Char) (r : Str) : paired ('\\' :: d :: r) = paired r := by
  rw [paired.eq_def]; rfl

theorem paired_other (c : Char) (cs : Str) (h : (c == '\\') = false) : paired (c :: cs) = paired cs := by
  rw [paired.eq_def]; simp [h]

theorem paired_append : ∀ (a b : Str), paired a = true → paired (a ++ b) = paired b := by
  intro a
  induction a using paired.induct with
  | case1 => intro b _; rfl
  | case2 c hc => intro b h; simp [paired, hc] at h
  | case3 c hc d r ih =>
    intro b h
    rw [beq_iff_eq] at hc
    subst hc
    rw [paired_bs] at h
    rw [List.cons_append, List.cons_append, paired_bs]
    exact ih b h
  | case4 c cs hc ih =>
    intro b h
    have hc' : (c == '\\') = false := by simpa using hc
    rw [paired_other _ _ hc'] at h
    rw [List.cons_append, paired_other _ _ hc']
    exact ih b h

theorem quotedLoop_paired (q : Char) (hq : q ≠ '\\') (src : Str) : ∀ (n i : Nat) (esc : Bool) (acc chars : Str) (k : Nat),
    paired acc = true → quotedLoop q src n i esc acc = .closed chars k → paired chars = true
  | 0, _, _, _, _, _, _, h => by simp [quotedLoop] at h
  | n + 1, i, esc, acc, chars, k, hp, h => by
    unfold quotedLoop at h
    split at h
    · cases h
    · rename_i c _
      split at h
      · split at h
        · exact quotedLoop_paired q hq src n (i + 1) true acc chars k hp h
        · rename_i hne
          split at h
          · refine quotedLoop_paired q hq src n (i + 1) false _ chars k ?_ h
            rw [paired_append _ _ hp, paired_bs]; rfl
          · rename_i hesc
            refine quotedLoop_paired q hq src n (i + 1) false _ chars k ?_ h
            rw [paired_append _ _ hp]
            have hc : (c == '\\') = false := by
              cases esc <;> simp_all
            rw [paired_other _ _ hc]; rfl
      · rename_i hcq
        split at h
        · refine quotedLoop_paired q hq src n (i + 1) false _ chars k ?_ h
          rw [paired_append _ _ hp]
          have hc : (c == '\\') = false := by
            have : c = q := by simpa using hcq
            rw [this]; simpa using hq
          rw [paired_other _ _ hc]; rfl
        · cases h; exact hp

theorem escTags_skip : ∀ (n : Nat) (s : Str), escTags n s = escTags 0 (s.drop n)
  | 0, _ => rfl
  | _ + 1, [] => by simp [escTags]
  | n + 1, _ :: cs => by
    rw [escTags, List.drop_succ_cons]
    exact escTags_skip n cs

theorem testBit_tag (b : Bool) (n i : Nat) (h : n ≠ i) : (tag b n).testBit i = false := by
  unfold tag
  cases b
  · simp
  · simp only [if_true, Nat.one_shiftLeft, Nat.testBit_two_pow]
    simpa using h

theorem isDigit_not_bs {c : Char} (h : c.isDigit = true) : (c == '\\') = false := by
  cases hc : c == '\\'
  · rfl
  · rw [beq_iff_eq] at hc; rw [hc] at h; revert h; decide

theorem paired_drop_digits : ∀ (k : Nat) (ds : Str), paired ds = true →
    paired (ds.drop ((ds.take k).takeWhile Char.isDigit).length) = true
  | 0, ds, h => by simpa using h
  | _ + 1, [], _ => by simp [paired]
  | k + 1, x :: r, h => by
    simp only [List.take_succ_cons, List.takeWhile_cons]
    split
    · rename_i hx
      simp only [List.length_cons, List.drop_succ_cons]
      apply paired_drop_digits k r
      rw [paired_other _ _ (isDigit_not_bs hx)] at h
      exact h
    · simpa using h

theorem no_lone_of_paired : ∀ (n : Nat) (s : Str), s.length ≤ n → paired s = true → (escTags 0 s).testBit 34 = false
  | _, [], _, _ => by simp [escTags]
  | 0, _ :: _, hl, _ => by simp at hl
  | n + 1, c :: cs, hl, hp => by
    have hl' : cs.length ≤ n := by simpa using hl
    unfold escTags
    split
    · rename_i hc
      cases cs with
      | nil => rw [beq_iff_eq] at hc; subst hc; rw [paired.eq_def] at hp; simp at hp
      | cons d ds =>
        have hc2 : c = '\\' := by simpa using hc
        subst hc2
        rw [paired_bs] at hp
        have hl2 : ds.length ≤ n := by simp at hl'; omega
        simp only
        split
        · rw [Nat.testBit_or, testBit_tag _ _ _ (by decide), Bool.false_or, escTags_skip]
          exact no_lone_of_paired n ds hl2 hp
        · rename_i hse
          split
          · simp only [Nat.testBit_or, testBit_tag _ _ _ (show 36 ≠ 34 by decide), testBit_tag _ _ _ (show 37 ≠ 34 by decide), Bool.false_or]
            rw [escTags_skip, Nat.add_comm, List.drop_succ_cons]
            refine no_lone_of_paired n _ ?_ (paired_drop_digits 3 ds hp)
            simp; omega
          · rw [Nat.testBit_or, testBit_tag _ _ _ (by decide), Bool.false_or]
            have hd : (d == '\\') = false := by
              cases hdd : d == '\\'
              · rfl
              · rw [beq_iff_eq] at hdd; rw [hdd] at hse; simp [simpleEscape] at hse
            refine no_lone_of_paired n (d :: ds) hl' ?_
            rw [paired_other _ _ hd]; exact hp
    · rename_i hc
      rw [Nat.testBit_or, testBit_tag _ _ _ (by decide), Bool.false_or]
      refine no_lone_of_paired n cs hl' ?_
      have hc' : (c == '\\') = false := by simpa using hc
      rw [paired_other _ _ hc'] at hp; exact hp

end CV.Dotenv
