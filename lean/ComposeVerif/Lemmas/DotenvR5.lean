import ComposeVerif.Lemmas.DotenvR4
import ComposeVerif.Model.DotenvTrace
/-!
# Helper lemmas for C18, round 5 (additions only)

* F.1 ARBITRARY inputs: every name that enters the result map (also the partial map returned with an error)
  consists of key runes only — no white space, no delimiter, no quote, no `#`, no `$`;
* F.2 `readFiles` (`ReadWithLookup`) on arbitrary file contents: a left-to-right fold.
-/
namespace CV.Dotenv
open CV CV.Template

/-! ## F.1 whatever the input, the names in the map are words over the key runes -/

theorem scanKey_noDelim_ok : ∀ (s : Str) (i : Nat), scanKey s i = .noDelim → s.all okChar = true
  | [], _, _ => rfl
  | c :: cs, i, h => by
    unfold scanKey at h
    split at h
    · rename_i hc
      simp only [List.all_cons, okChar, hc, Bool.or_true, Bool.true_and]
      exact scanKey_noDelim_ok cs (i + 1) h
    · split at h
      · cases h
      · split at h
        · cases h
        · split at h
          · rename_i hc
            simp only [List.all_cons, okChar, hc, Bool.true_or, Bool.true_and]
            exact scanKey_noDelim_ok cs (i + 1) h
          · cases h

theorem scanKey_delim_ok : ∀ (s : Str) (i k : Nat) (inh : Bool), scanKey s i = .delim k inh → (s.take (k - i)).all okChar = true
  | [], _, _, _, h => by simp [scanKey] at h
  | c :: cs, i, k, inh, h => by
    have hlt := scanKey_delim_lt (c :: cs) i k inh h
    unfold scanKey at h
    split at h
    · rename_i hc
      have hlt2 := scanKey_delim_lt cs (i + 1) k inh h
      have : k - i = (k - (i + 1)) + 1 := by omega
      rw [this, List.take_succ_cons]
      simp only [List.all_cons, okChar, hc, Bool.or_true, Bool.true_and]
      exact scanKey_delim_ok cs (i + 1) k inh h
    · split at h
      · cases h; simp
      · split at h
        · cases h; simp
        · split at h
          · rename_i hc
            have hlt2 := scanKey_delim_lt cs (i + 1) k inh h
            have : k - i = (k - (i + 1)) + 1 := by omega
            rw [this, List.take_succ_cons]
            simp only [List.all_cons, okChar, hc, Bool.true_or, Bool.true_and]
            exact scanKey_delim_ok cs (i + 1) k inh h
          · cases h

theorem trimRightU_all (q : Char → Bool) (a : Str) (h : a.all q = true) : (trimRightU a).all q = true := by
  unfold trimRightU
  rw [List.all_reverse]
  apply all_dropWhile
  rw [List.all_reverse]
  exact h

/-- the key `locateKeyName` hands back consists of key runes and non-breaking white space only -/
theorem locateKey_key_ok (src key left : Str) (inh : Bool) (h : locateKey src = .ok (.ok (key, left, inh))) :
    key.all okChar = true := by
  unfold locateKey at h
  simp only at h
  split at h
  · split at h <;> cases h
  · rename_i hs
    split at h
    · cases h
    · split at h
      · cases h
      · simp only [Except.ok.injEq, Prod.mk.injEq] at h
        rw [← h.1]
        exact trimRightU_all _ _ (scanKey_noDelim_ok _ _ hs)
  · rename_i i inh' hs
    split at h
    · cases h
    · rename_i key' hk
      split at h
      · cases h
      · split at h
        · cases h
        · simp only [Except.ok.injEq, Prod.mk.injEq] at h
          rw [← h.1]
          apply trimRightU_all
          have := scanKey_delim_ok _ 0 i inh' hs
          unfold sliceTo at hk
          split at hk
          · cases hk; simpa using this
          · cases hk

theorem okChar_not_space {c : Char} (h1 : okChar c = true) (h2 : isSpaceU c = false) : isKeyRune c = true := by
  unfold okChar at h1
  cases hk : isKeyRune c
  · rw [hk, Bool.false_or] at h1
    rw [isSpaceNB_isSpaceU h1] at h2
    cases h2
  · rfl

theorem key_valid_of_ok {key : Str} (h1 : key.all okChar = true) (h2 : key.any isSpaceU = false) : key.all isKeyRune = true := by
  rw [List.all_eq_true] at h1 ⊢
  intro c hc
  apply okChar_not_space (h1 c hc)
  cases hs : isSpaceU c
  · rfl
  · have : key.any isSpaceU = true := List.any_eq_true.mpr ⟨c, hc, hs⟩
    rw [this] at h2; cases h2

def KeysValid (m : Map) : Prop := ∀ kv ∈ m, kv.1.all isKeyRune = true

theorem put_keysValid : ∀ (m : Map) (k v : Str), KeysValid m → k.all isKeyRune = true → KeysValid (put m k v)
  | [], k, v, _, hk => by
    intro kv hkv
    simp only [put, List.mem_singleton] at hkv
    rw [hkv]; exact hk
  | (k', v') :: r, k, v, hm, hk => by
    intro kv hkv
    unfold put at hkv
    split at hkv
    · rcases List.mem_cons.mp hkv with h | h
      · rw [h]; exact hk
      · exact hm kv (List.mem_cons_of_mem _ h)
    · rcases List.mem_cons.mp hkv with h | h
      · rw [h]; exact hm (k', v') (List.mem_cons_self ..)
      · exact put_keysValid r k v (fun x hx => hm x (List.mem_cons_of_mem _ hx)) hk kv h

/-- the map of an outcome: the result, or the partial map returned together with an error -/
def POut.map? : POut → Option Map
  | .ok m => some m
  | .err _ m => some m
  | .panic _ => none

theorem parseLoop_keys_valid : ∀ (fuel : Nat) (src : Str) (m : Map) (lk : Env) (r : Map),
    (parseLoop fuel src m lk).map? = some r → KeysValid m → KeysValid r
  | 0, _, _, _, _, h, _ => by cases h
  | fuel + 1, src, m, lk, r, h, hm => by
    unfold parseLoop at h
    rw [stmtStart_eq _ _ (Nat.lt_succ_self _)] at h
    simp only at h
    generalize stmtL false src = cs at h
    by_cases he : cs.isEmpty = true
    · simp only [he, if_true] at h
      cases h; exact hm
    · simp only [he, Bool.false_eq_true, if_false] at h
      rcases locateKey_total cs with ⟨e, hk⟩ | ⟨key, left, inh, hk, _⟩
      · rw [hk] at h; cases h; exact hm
      · have hok := locateKey_key_ok cs key left inh hk
        rw [hk] at h
        simp only at h
        split at h
        · cases h; exact hm
        · rename_i hsp
          have hkey : key.all isKeyRune = true := key_valid_of_ok hok (by simpa using hsp)
          split at h
          · split at h
            · exact parseLoop_keys_valid fuel left _ lk r h (put_keysValid m key _ hm hkey)
            · exact parseLoop_keys_valid fuel left m lk r h hm
          · rcases extractValue_total left m lk with ⟨p, hx, _⟩ | ⟨e, hx⟩ | ⟨v, left', hx, _⟩
            · rw [hx] at h; cases h
            · rw [hx] at h; cases h; exact hm
            · rw [hx] at h
              simp only at h
              exact parseLoop_keys_valid fuel left' _ lk r h (put_keysValid m key v hm hkey)

theorem parse_keys_valid_lemma (src : Str) (lk : Env) (r : Map) (h : (parse src lk).map? = some r) : KeysValid r :=
  parseLoop_keys_valid _ src [] lk r h (fun _ hkv => by cases hkv)

/-! ## F.2 `ReadWithLookup` on arbitrary file contents -/

theorem readFiles_append_lemma (lk : Env) : ∀ (a b : List Str) (m : Map),
    readFiles lk (a ++ b) m = (readFiles lk a m).andThen (fun m' => readFiles lk b m')
  | [], b, m => rfl
  | f :: a, b, m => by
    rw [List.cons_append, readFiles, readFiles]
    generalize parse (stripBOM f) lk = o
    cases o with
    | ok env => exact readFiles_append_lemma lk a b _
    | err e pm => rfl
    | panic s => rfl

theorem readFiles_single_ok (lk : Env) (f : Str) (m env : Map) (h : parse (stripBOM f) lk = .ok env) :
    readFiles lk [f] m = .ok (mergeInto m (env.filter fun kv => !startsWithDigit kv.1)) := by
  rw [readFiles, h]
  rfl

theorem readFiles_single_err (lk : Env) (f : Str) (m pm : Map) (e : PErr) (h : parse (stripBOM f) lk = .err e pm) :
    readFiles lk [f] m = .err e m := by
  rw [readFiles, h]

theorem filter_keys_nodup (p : Str × Str → Bool) : ∀ (m : Map), (m.map Prod.fst).Nodup → ((m.filter p).map Prod.fst).Nodup := by
  intro m h
  exact (List.Sublist.map Prod.fst (List.filter_sublist (l := m) (p := p))).nodup h

theorem readFiles_keys_nodup_lemma (lk : Env) : ∀ (fs : List Str) (m r : Map),
    readFiles lk fs m = .ok r → (m.map Prod.fst).Nodup → (r.map Prod.fst).Nodup
  | [], m, r, h, hm => by
    rw [readFiles] at h; cases h; exact hm
  | f :: fs, m, r, h, hm => by
    rw [readFiles] at h
    generalize parse (stripBOM f) lk = o at h
    cases o with
    | ok env => exact readFiles_keys_nodup_lemma lk fs _ r h (mergeInto_keys_nodup _ m hm)
    | err e pm => cases h
    | panic s => cases h

theorem mergeInto_keysValid : ∀ (env m : Map), KeysValid m → KeysValid env → KeysValid (mergeInto m env)
  | [], m, hm, _ => hm
  | (k, v) :: env, m, hm, he => by
    rw [mergeInto]
    exact mergeInto_keysValid env _ (put_keysValid m k v hm (he (k, v) (List.mem_cons_self ..)))
      (fun x hx => he x (List.mem_cons_of_mem _ hx))

/-- a digit-initial name is never returned by `ReadWithLookup` -/
def NoDigitKeys (m : Map) : Prop := ∀ kv ∈ m, startsWithDigit kv.1 = false

theorem put_noDigit : ∀ (m : Map) (k v : Str), NoDigitKeys m → startsWithDigit k = false → NoDigitKeys (put m k v)
  | [], k, v, _, hk => by
    intro kv hkv
    simp only [put, List.mem_singleton] at hkv
    rw [hkv]; exact hk
  | (k', v') :: r, k, v, hm, hk => by
    intro kv hkv
    unfold put at hkv
    split at hkv
    · rcases List.mem_cons.mp hkv with h | h
      · rw [h]; exact hk
      · exact hm kv (List.mem_cons_of_mem _ h)
    · rcases List.mem_cons.mp hkv with h | h
      · rw [h]; exact hm (k', v') (List.mem_cons_self ..)
      · exact put_noDigit r k v (fun x hx => hm x (List.mem_cons_of_mem _ hx)) hk kv h

theorem mergeInto_noDigit : ∀ (env m : Map), NoDigitKeys m → NoDigitKeys env → NoDigitKeys (mergeInto m env)
  | [], m, hm, _ => hm
  | (k, v) :: env, m, hm, he => by
    rw [mergeInto]
    exact mergeInto_noDigit env _ (put_noDigit m k v hm (he (k, v) (List.mem_cons_self ..)))
      (fun x hx => he x (List.mem_cons_of_mem _ hx))

theorem readFiles_noDigit_lemma (lk : Env) : ∀ (fs : List Str) (m r : Map),
    (readFiles lk fs m).map? = some r → NoDigitKeys m → NoDigitKeys r
  | [], m, r, h, hm => by
    rw [readFiles] at h; cases h; exact hm
  | f :: fs, m, r, h, hm => by
    rw [readFiles] at h
    generalize parse (stripBOM f) lk = o at h
    cases o with
    | ok env =>
      refine readFiles_noDigit_lemma lk fs _ r h (mergeInto_noDigit _ m hm ?_)
      intro kv hkv
      have := (List.mem_filter.mp hkv).2
      simpa using this
    | err e pm => cases h; exact hm
    | panic s => cases h

/-! ## F.3 the traced run is the model -/

theorem parseLoopT_fst : ∀ (fuel : Nat) (src : Str) (m : Map) (lk : Env) (t : Nat),
    (parseLoopT fuel src m lk t).1 = parseLoop fuel src m lk
  | 0, _, _, _, _ => rfl
  | fuel + 1, src, m, lk, t => by
    unfold parseLoopT parseLoop
    simp only
    cases stmtStart (src.length + 1) src with
    | error s => rfl
    | ok cs =>
      simp only
      by_cases he : cs.isEmpty = true
      · simp only [he, if_true]
      · simp only [he, Bool.false_eq_true, if_false]
        cases locateKey cs with
        | error s => rfl
        | ok r =>
          cases r with
          | error e => rfl
          | ok kli =>
            obtain ⟨key, left, inh⟩ := kli
            simp only
            by_cases hs : key.any isSpaceU = true
            · simp only [hs, if_true]
            · simp only [hs, Bool.false_eq_true, if_false]
              cases inh with
              | true =>
                simp only [if_true]
                cases lk key with
                | some v => exact parseLoopT_fst fuel _ _ lk _
                | none => exact parseLoopT_fst fuel _ _ lk _
              | false =>
                simp only [Bool.false_eq_true, if_false]
                cases extractValue left m lk with
                | error s => rfl
                | ok r2 =>
                  cases r2 with
                  | error e => rfl
                  | ok vl =>
                    obtain ⟨v, left'⟩ := vl
                    exact parseLoopT_fst fuel _ _ lk _

theorem parseT_fst (src : Str) (lk : Env) : (parseT src lk).1 = parse src lk :=
  parseLoopT_fst _ src [] lk 0

end CV.Dotenv
