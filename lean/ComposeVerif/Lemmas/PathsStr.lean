import ComposeVerif.Lemmas.PathsClean
import ComposeVerif.Lemmas.PathsWin
/-! String-level laws of the resolvers (C12). -/
namespace CV.Paths

def tilde (p : Str) : Bool := p.head? = some '~'

theorem expandUser_of_not_tilde (home : Option Str) (p : Str) (h : tilde p = false) : expandUser home p = p := by
  unfold expandUser
  split
  · simp [tilde] at h
  · rfl

theorem tilde_of_abs (p : Str) (h : isAbs p = true) : tilde p = false := by
  cases p with
  | nil => simp [tilde]
  | cons c cs =>
    simp only [isAbs, List.head?_cons, Option.some.injEq, decide_eq_true_eq] at h
    simp [tilde, h]

theorem expandUser_of_abs (home : Option Str) (p : Str) (h : isAbs p = true) : expandUser home p = p :=
  expandUser_of_not_tilde home p (tilde_of_abs p h)

theorem expandUser_tilde (h rest : Str) : expandUser (some h) ('~' :: rest) = join h rest := rfl

theorem expandUser_nohome (p : Str) : expandUser none p = p := by
  unfold expandUser
  split <;> rfl

/-- a path starting with `~` is never Windows-absolute -/
theorem isWindowsAbs_tilde (p : Str) (h : tilde p = true) : isWindowsAbs? p = some false := by
  cases p with
  | nil => simp [tilde] at h
  | cons c cs =>
    simp only [tilde, List.head?_cons, Option.some.injEq, decide_eq_true_eq] at h
    subst h
    have hv : volumeNameLen? ('~' :: cs) = some 0 := by
      unfold volumeNameLen?
      split
      · rfl
      · cases cs with
        | nil => simp at *
        | cons d ds =>
          have hl : isLetter '~' = false := by decide
          have hs : isSlash '~' = false := by decide
          simp [hl, hs]
    simp [isWindowsAbs?, hv]

theorem isWindowsAbs_eq_T (p : Str) : isWindowsAbs? p = some (isWindowsAbsT p) := by
  obtain ⟨b, hb⟩ := isWindowsAbs_total p
  simp [isWindowsAbsT, hb]

/-- a path starting with `.` is never Windows-absolute -/
theorem isWindowsAbs_dot (p : Str) : isWindowsAbs? ('.' :: p) = some false := by
  have hv : volumeNameLen? ('.' :: p) = some 0 := by
    unfold volumeNameLen?
    split
    · rfl
    · cases p with
      | nil => simp at *
      | cons d ds =>
        have hl : isLetter '.' = false := by decide
        have hs : isSlash '.' = false := by decide
        simp [hl, hs]
  simp [isWindowsAbs?, hv]

/-! ### the guarded join of the resolvers -/

/-- the guard of `joinWd` -/
def guardRel (j : Str) : Str := if !isAbs j && ambiguous j then '.' :: '/' :: j else j

theorem joinWd_eq (wd v : Str) : joinWd wd v = guardRel (join wd v) := rfl

theorem joinWd_cases (wd v : Str) :
    (joinWd wd v = join wd v ∧ (isAbs (join wd v) = true ∨ ambiguous (join wd v) = false)) ∨
    (joinWd wd v = '.' :: '/' :: join wd v ∧ isAbs (join wd v) = false ∧ ambiguous (join wd v) = true) := by
  rw [joinWd_eq]
  unfold guardRel
  cases ha : isAbs (join wd v) <;> cases hb : ambiguous (join wd v) <;> simp

theorem isRemoteContext_dot (p : Str) : isRemoteContext ('.' :: p) = false := by
  simp [isRemoteContext, remotePrefixes, List.isPrefixOf]

theorem joinWd_of_abs (wd v : Str) (h : isAbs wd = true) : joinWd wd v = join wd v := by
  simp [joinWd, isAbs_join wd v h]

theorem isAbs_joinWd (wd v : Str) : isAbs (joinWd wd v) = isAbs (join wd v) := by
  rcases joinWd_cases wd v with ⟨h, _⟩ | ⟨h, h2, _⟩
  · rw [h]
  · rw [h, h2]; simp [isAbs]

theorem joinWd_ne_nil (wd v : Str) (hwd : wd ≠ []) : joinWd wd v ≠ [] := by
  rcases joinWd_cases wd v with ⟨h, _⟩ | ⟨h, _, _⟩
  · rw [h]; exact join_ne_nil wd v hwd
  · rw [h]; simp

theorem hasDS_join (wd v : Str) (hwd : wd ≠ []) : hasDS (join wd v) = false := by
  rw [join_of_ne wd v hwd]; exact hasDS_clean _

/-- a relative guarded join is read by every later stage as a plain local path -/
theorem joinWd_plain (wd v : Str) (hwd : wd ≠ []) (hrel : isAbs (join wd v) = false) :
    tilde (joinWd wd v) = false ∧ isRemoteContext (joinWd wd v) = false ∧
    isWindowsAbs? (joinWd wd v) = some false ∧ containsStr schemeSep (joinWd wd v) = false := by
  rcases joinWd_cases wd v with ⟨h, h2⟩ | ⟨h, _, _⟩
  · rw [h]
    have ha : ambiguous (join wd v) = false := by
      rcases h2 with h2 | h2
      · rw [hrel] at h2; cases h2
      · exact h2
    simp only [ambiguous, Bool.or_eq_false_iff] at ha
    refine ⟨by simpa [tilde] using ha.1.1, ha.1.2, ?_, no_scheme_of_noDS _ (hasDS_join wd v hwd)⟩
    rw [isWindowsAbs_eq_T, ha.2]
  · rw [h]
    refine ⟨by simp [tilde], isRemoteContext_dot _, isWindowsAbs_dot _, ?_⟩
    apply no_scheme_of_noDS
    have hd := hasDS_join wd v hwd
    cases hj : join wd v with
    | nil => simp [hasDS]
    | cons b r =>
      rw [hj] at hd hrel
      have hb : b ≠ '/' := by
        intro e; simp [isAbs, e] at hrel
      simp [hasDS, hb, hd]

theorem join_joinWd (W R v : Str) (hW : W ≠ []) : join W (joinWd R v) = join W (join R v) := by
  rcases joinWd_cases R v with ⟨h, _⟩ | ⟨h, _, _⟩
  · rw [h]
  · rw [h, join_of_ne W _ hW, join_of_ne W _ hW]; exact clean_dot_slash W _ hW

/-- the guarded join composes: joining onto `W` what was joined onto the relative `R` = joining onto `Join(W, R)` -/
theorem joinWd_joinWd (W R v : Str) (hW : W ≠ []) (hR : R ≠ []) (hRr : isAbs R = false) :
    joinWd W (joinWd R v) = joinWd (join W R) v := by
  have e : join W (joinWd R v) = join (join W R) v := by
    rw [join_joinWd W R v hW, join_assoc W R v hW hR hRr]
  rw [joinWd_eq W, e, ← joinWd_eq]

/-! ### absPath -/

theorem absPathStr_abs_untouched (cfg : Cfg) (s : Str) (h : isAbs s = true) : absPathStr cfg s = s := by
  simp [absPathStr, expandUser_of_abs _ _ h, h]

theorem absPathStr_relative (cfg : Cfg) (s : Str) (ha : isAbs s = false) (hne : s ≠ []) (ht : tilde s = false) :
    absPathStr cfg s = joinWd cfg.wd s := by
  simp [absPathStr, expandUser_of_not_tilde _ _ ht, ha, hne]

theorem absPathStr_tilde (cfg : Cfg) (h rest : Str) (hh : cfg.home = some h) (ha : isAbs h = true) :
    absPathStr cfg ('~' :: rest) = join h rest := by
  simp [absPathStr, hh, expandUser_tilde, isAbs_join h rest ha]

theorem absPathStr_cases (cfg : Cfg) (s : Str) :
    let v := expandUser cfg.home s
    (isAbs v = true ∧ absPathStr cfg s = v) ∨ (v = [] ∧ absPathStr cfg s = []) ∨
    (isAbs v = false ∧ v ≠ [] ∧ absPathStr cfg s = joinWd cfg.wd v) := by
  simp only [absPathStr]
  by_cases h1 : isAbs (expandUser cfg.home s) = true
  · simp [h1]
  · by_cases h2 : expandUser cfg.home s = []
    · simp [h2, isAbs]
    · simp [h1, h2]

/-- with an absolute base the result is absolute or empty -/
theorem absPathStr_abs_or_nil (cfg : Cfg) (s : Str) (hwd : isAbs cfg.wd = true) :
    isAbs (absPathStr cfg s) = true ∨ absPathStr cfg s = [] := by
  rcases absPathStr_cases cfg s with ⟨h1, h2⟩ | ⟨_, h2⟩ | ⟨_, _, h2⟩
  · left; rw [h2]; exact h1
  · right; exact h2
  · left; rw [h2, joinWd_of_abs _ _ hwd]; exact isAbs_join _ _ hwd

theorem absPathStr_fix (cfg : Cfg) (r : Str) (h : isAbs r = true ∨ r = []) : absPathStr cfg r = r := by
  rcases h with h | h
  · exact absPathStr_abs_untouched cfg r h
  · subst h; simp [absPathStr, expandUser, isAbs]

theorem absPathStr_idem (cfg : Cfg) (s : Str) (hwd : isAbs cfg.wd = true) :
    absPathStr cfg (absPathStr cfg s) = absPathStr cfg s :=
  absPathStr_fix cfg _ (absPathStr_abs_or_nil cfg s hwd)

/-! ### maybeUnixPath -/

theorem maybeUnixStr_total (cfg : Cfg) (s : Str) : ∃ r, maybeUnixStr cfg s = .ok r := by
  unfold maybeUnixStr
  simp only
  split
  · exact ⟨_, rfl⟩
  · obtain ⟨b, hb⟩ := isWindowsAbs_total (expandUser cfg.home s)
    rw [hb]
    cases b <;> exact ⟨_, rfl⟩

theorem maybeUnixStr_abs_untouched (cfg : Cfg) (s : Str) (h : isAbs s = true) : maybeUnixStr cfg s = .ok s := by
  simp [maybeUnixStr, expandUser_of_abs _ _ h, h]

theorem maybeUnixStr_winabs_untouched (cfg : Cfg) (s : Str) (h : isWindowsAbs? s = some true) :
    maybeUnixStr cfg s = .ok s := by
  have ht : tilde s = false := by
    cases hh : tilde s with
    | false => rfl
    | true => rw [isWindowsAbs_tilde s hh] at h; cases h
  simp only [maybeUnixStr, expandUser_of_not_tilde _ _ ht, h]
  split <;> rfl

theorem maybeUnixStr_relative (cfg : Cfg) (s : Str) (ha : isAbs s = false) (ht : tilde s = false)
    (hw : isWindowsAbs? s = some false) : maybeUnixStr cfg s = .ok (joinWd cfg.wd s) := by
  simp [maybeUnixStr, expandUser_of_not_tilde _ _ ht, ha, hw]

theorem maybeUnixStr_tilde (cfg : Cfg) (h rest : Str) (hh : cfg.home = some h) (ha : isAbs h = true) :
    maybeUnixStr cfg ('~' :: rest) = .ok (join h rest) := by
  simp [maybeUnixStr, hh, expandUser_tilde, isAbs_join h rest ha]

/-- the outcome of `maybeUnixPath` is a fixed point: absolute, or Windows-absolute -/
theorem maybeUnixStr_result (cfg : Cfg) (s r : Str) (hwd : isAbs cfg.wd = true) (h : maybeUnixStr cfg s = .ok r) :
    isAbs r = true ∨ isWindowsAbs? r = some true := by
  unfold maybeUnixStr at h
  simp only at h
  split at h
  · rename_i ha; cases h; exact .inl ha
  · split at h
    · cases h
    · cases h; rename_i hw; exact .inr hw
    · cases h; rw [joinWd_of_abs _ _ hwd]; exact .inl (isAbs_join _ _ hwd)

theorem maybeUnixStr_fix (cfg : Cfg) (r : Str) (h : isAbs r = true ∨ isWindowsAbs? r = some true) :
    maybeUnixStr cfg r = .ok r := by
  rcases h with h | h
  · exact maybeUnixStr_abs_untouched cfg r h
  · exact maybeUnixStr_winabs_untouched cfg r h

theorem maybeUnixStr_idem (cfg : Cfg) (s r : Str) (hwd : isAbs cfg.wd = true) (h : maybeUnixStr cfg s = .ok r) :
    maybeUnixStr cfg r = .ok r :=
  maybeUnixStr_fix cfg r (maybeUnixStr_result cfg s r hwd h)

/-! ### build contexts and extends.file -/

def urlLike (s : Str) : Bool := containsStr schemeSep s || isRemoteContext s

theorem absContextStr_url (cfg : Cfg) (s : Str) (h : urlLike s = true) : absContextStr cfg s = s := by
  simp only [urlLike, Bool.or_eq_true] at h
  unfold absContextStr
  rcases h with h | h
  · simp [h]
  · simp [h]

theorem absContextStr_local (cfg : Cfg) (s : Str) (h : urlLike s = false) : absContextStr cfg s = absPathStr cfg s := by
  simp only [urlLike, Bool.or_eq_false_iff] at h
  simp [absContextStr, h.1, h.2]

theorem absContextStr_idem (cfg : Cfg) (s : Str) (hwd : isAbs cfg.wd = true) :
    absContextStr cfg (absContextStr cfg s) = absContextStr cfg s := by
  cases h : urlLike s with
  | true => rw [absContextStr_url cfg s h, absContextStr_url cfg s h]
  | false =>
    rw [absContextStr_local cfg s h]
    cases h2 : urlLike (absPathStr cfg s) with
    | true => exact absContextStr_url cfg _ h2
    | false => rw [absContextStr_local cfg _ h2]; exact absPathStr_idem cfg s hwd

theorem absExtendsStr_idem (cfg : Cfg) (s : Str) (hwd : isAbs cfg.wd = true) :
    absExtendsStr cfg (absExtendsStr cfg s) = absExtendsStr cfg s := by
  unfold absExtendsStr
  cases h : cfg.remote s with
  | true => simp [h]
  | false =>
    simp only [Bool.false_eq_true, if_false]
    cases h2 : cfg.remote (absPathStr cfg s) with
    | true => simp
    | false => simp only [Bool.false_eq_true, if_false]; exact absPathStr_idem cfg s hwd

/-! ### two-stage resolution (include / extends) = one-stage against the joined directory -/

/-- stage 1 against the relative directory `R`, stage 2 against `W`, versus one stage against `Join(W, R)` -/
theorem absPathStr_compose (home : Option Str) (remote : Str → Bool) (sym : Str → Option Str) (W R s : Str)
    (hW : W ≠ []) (hR : R ≠ []) (hRr : isAbs R = false) :
    absPathStr ⟨W, home, remote, sym⟩ (absPathStr ⟨R, home, remote, sym⟩ s) =
      absPathStr ⟨join W R, home, remote, sym⟩ s := by
  rcases absPathStr_cases ⟨R, home, remote, sym⟩ s with ⟨h1, h2⟩ | ⟨h1, h2⟩ | ⟨h1, h1', h2⟩
  · simp only at h1 h2
    rw [h2, absPathStr_abs_untouched _ _ h1]
    simp [absPathStr, h1]
  · simp only at h1 h2
    rw [h2]
    have e1 : absPathStr ⟨W, home, remote, sym⟩ [] = [] := by simp [absPathStr, expandUser, isAbs]
    have e2 : absPathStr ⟨join W R, home, remote, sym⟩ s = [] := by
      simp only [absPathStr]
      rw [h1]
      simp [isAbs]
    rw [e1, e2]
  · simp only at h1 h1' h2
    rw [h2]
    have hm_rel : isAbs (join R (expandUser home s)) = false := isAbs_join_rel _ _ hR hRr
    have hm_rel' : isAbs (joinWd R (expandUser home s)) = false := by rw [isAbs_joinWd]; exact hm_rel
    have hm_ne : joinWd R (expandUser home s) ≠ [] := joinWd_ne_nil _ _ hR
    have hplain := joinWd_plain R (expandUser home s) hR hm_rel
    rw [absPathStr_relative _ _ hm_rel' hm_ne hplain.1]
    simp only [absPathStr, h1, Bool.false_eq_true, if_false, h1', ne_eq, not_false_eq_true, if_true]
    exact joinWd_joinWd W R _ hW hR hRr

theorem maybeUnixStr_compose (home : Option Str) (remote : Str → Bool) (sym : Str → Option Str) (W R s m : Str)
    (hW : W ≠ []) (hR : R ≠ []) (hRr : isAbs R = false)
    (h1 : maybeUnixStr ⟨R, home, remote, sym⟩ s = .ok m) :
    maybeUnixStr ⟨W, home, remote, sym⟩ m = maybeUnixStr ⟨join W R, home, remote, sym⟩ s := by
  unfold maybeUnixStr at h1
  simp only at h1
  by_cases ha : isAbs (expandUser home s) = true
  · simp only [ha, if_true] at h1
    cases h1
    rw [maybeUnixStr_abs_untouched _ _ ha]
    simp [maybeUnixStr, ha]
  · have ha' : isAbs (expandUser home s) = false := by simpa using ha
    simp only [ha, if_false] at h1
    obtain ⟨b, hb⟩ := isWindowsAbs_total (expandUser home s)
    rw [hb] at h1
    cases b with
    | true =>
      cases h1
      rw [maybeUnixStr_winabs_untouched _ _ hb]
      simp [maybeUnixStr, ha', hb]
    | false =>
      cases h1
      have hm_rel : isAbs (join R (expandUser home s)) = false := isAbs_join_rel _ _ hR hRr
      have hm_rel' : isAbs (joinWd R (expandUser home s)) = false := by rw [isAbs_joinWd]; exact hm_rel
      have hplain := joinWd_plain R (expandUser home s) hR hm_rel
      rw [maybeUnixStr_relative _ _ hm_rel' hplain.1 hplain.2.2.1]
      simp only [maybeUnixStr, ha', Bool.false_eq_true, if_false, hb]
      rw [joinWd_joinWd W R _ hW hR hRr]

/-- an absolute path is not URL-like unless it contains `://` -/
theorem isRemoteContext_abs (p : Str) (h : isAbs p = true) : isRemoteContext p = false := by
  cases p with
  | nil => simp [isAbs] at h
  | cons c cs =>
    simp only [isAbs, List.head?_cons, Option.some.injEq, decide_eq_true_eq] at h
    subst h
    simp [isRemoteContext, remotePrefixes, List.isPrefixOf]

/-- what the first stage writes for a local build context is not URL-like for the second stage -/
theorem absPathStr_not_urlLike (cfg : Cfg) (s : Str) (hwd : cfg.wd ≠ []) (hrel : isAbs cfg.wd = false)
    (hhome : ∀ h, cfg.home = some h → h ≠ []) (hu : urlLike s = false) : urlLike (absPathStr cfg s) = false := by
  rcases absPathStr_cases cfg s with ⟨h1, h2⟩ | ⟨_, h2⟩ | ⟨h1, _, h2⟩
  · rw [h2]
    by_cases ht : tilde s = true
    · -- the expansion is a cleaned join
      cases s with
      | nil => simp [tilde] at ht
      | cons c rest =>
        simp only [tilde, List.head?_cons, Option.some.injEq, decide_eq_true_eq] at ht
        subst ht
        cases hh : cfg.home with
        | none => rw [hh, expandUser_nohome] at h1; simp [isAbs] at h1
        | some hm =>
          rw [hh] at h1
          rw [expandUser_tilde] at h1 ⊢
          simp only [urlLike, Bool.or_eq_false_iff]
          exact ⟨no_scheme_of_noDS _ (hasDS_join hm rest (hhome hm hh)), isRemoteContext_abs _ h1⟩
    · have ht' : tilde s = false := by simpa using ht
      rw [expandUser_of_not_tilde _ _ ht']; exact hu
  · rw [h2]; decide
  · rw [h2]
    have hp := joinWd_plain cfg.wd (expandUser cfg.home s) hwd (isAbs_join_rel _ _ hwd hrel)
    simp [urlLike, hp.2.1, hp.2.2.2]

theorem absContextStr_compose (home : Option Str) (remote : Str → Bool) (sym : Str → Option Str) (W R s : Str)
    (hW : W ≠ []) (hR : R ≠ []) (hRr : isAbs R = false) (hhome : ∀ h, home = some h → h ≠ []) :
    absContextStr ⟨W, home, remote, sym⟩ (absContextStr ⟨R, home, remote, sym⟩ s) =
      absContextStr ⟨join W R, home, remote, sym⟩ s := by
  cases hu : urlLike s with
  | true => rw [absContextStr_url _ s hu, absContextStr_url _ s hu, absContextStr_url _ s hu]
  | false =>
    have h2 := absPathStr_not_urlLike ⟨R, home, remote, sym⟩ s hR hRr hhome hu
    rw [absContextStr_local _ s hu, absContextStr_local _ _ h2, absContextStr_local _ s hu]
    exact absPathStr_compose home remote sym W R s hW hR hRr

end CV.Paths
