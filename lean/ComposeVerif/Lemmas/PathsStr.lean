import ComposeVerif.Lemmas.PathsClean
import ComposeVerif.Lemmas.PathsWin
/-! String-level laws of the resolvers (C12). -/
namespace CV.Paths

def tilde (p : Str) : Bool := p.head? = some '~'

theorem expandUser_of_not_tilde (home : Option Str) (p : Str) (h : tilde p = false) : expandUser home p = p := by
  unfold expandUser
  split
  · simp [tilde] at h
  · rfl

theorem tilde_of_abs (p : Str) (h : isAbs p = true) : tilde p = false := by
  cases p with
  | nil => simp [tilde]
  | cons c cs =>
    simp only [isAbs, List.head?_cons, Option.some.injEq, decide_eq_true_eq] at h
    simp [tilde, h]

theorem expandUser_of_abs (home : Option Str) (p : Str) (h : isAbs p = true) : expandUser home p = p :=
  expandUser_of_not_tilde home p (tilde_of_abs p h)

theorem expandUser_tilde (h rest : Str) : expandUser (some h) ('~' :: rest) = join h rest := rfl

theorem expandUser_nohome (p : Str) : expandUser none p = p := by
  unfold expandUser
  split <;> rfl

/-- a path starting with `~` is never Windows-absolute -/
theorem isWindowsAbs_tilde (p : Str) (h : tilde p = true) : isWindowsAbs? p = some false := by
  cases p with
  | nil => simp [tilde] at h
  | cons c cs =>
    simp only [tilde, List.head?_cons, Option.some.injEq, decide_eq_true_eq] at h
    subst h
    have hv : volumeNameLen? ('~' :: cs) = some 0 := by
      unfold volumeNameLen?
      split
      · rfl
      · cases cs with
        | nil => simp at *
        | cons d ds =>
          have hl : isLetter '~' = false := by decide
          have hs : isSlash '~' = false := by decide
          simp [hl, hs]
    simp [isWindowsAbs?, hv]

/-! ### absPath -/

theorem absPathStr_abs_untouched (cfg : Cfg) (s : Str) (h : isAbs s = true) : absPathStr cfg s = s := by
  simp [absPathStr, expandUser_of_abs _ _ h, h]

theorem absPathStr_relative (cfg : Cfg) (s : Str) (ha : isAbs s = false) (hne : s ≠ []) (ht : tilde s = false) :
    absPathStr cfg s = join cfg.wd s := by
  simp [absPathStr, expandUser_of_not_tilde _ _ ht, ha, hne]

theorem absPathStr_tilde (cfg : Cfg) (h rest : Str) (hh : cfg.home = some h) (ha : isAbs h = true) :
    absPathStr cfg ('~' :: rest) = join h rest := by
  simp [absPathStr, hh, expandUser_tilde, isAbs_join h rest ha]

theorem absPathStr_cases (cfg : Cfg) (s : Str) :
    let v := expandUser cfg.home s
    (isAbs v = true ∧ absPathStr cfg s = v) ∨ (v = [] ∧ absPathStr cfg s = []) ∨
    (isAbs v = false ∧ v ≠ [] ∧ absPathStr cfg s = join cfg.wd v) := by
  simp only [absPathStr]
  by_cases h1 : isAbs (expandUser cfg.home s) = true
  · simp [h1]
  · by_cases h2 : expandUser cfg.home s = []
    · simp [h2, isAbs]
    · simp [h1, h2]

/-- with an absolute base the result is absolute or empty -/
theorem absPathStr_abs_or_nil (cfg : Cfg) (s : Str) (hwd : isAbs cfg.wd = true) :
    isAbs (absPathStr cfg s) = true ∨ absPathStr cfg s = [] := by
  rcases absPathStr_cases cfg s with ⟨h1, h2⟩ | ⟨_, h2⟩ | ⟨_, _, h2⟩
  · left; rw [h2]; exact h1
  · right; exact h2
  · left; rw [h2]; exact isAbs_join _ _ hwd

theorem absPathStr_fix (cfg : Cfg) (r : Str) (h : isAbs r = true ∨ r = []) : absPathStr cfg r = r := by
  rcases h with h | h
  · exact absPathStr_abs_untouched cfg r h
  · subst h; simp [absPathStr, expandUser, isAbs]

theorem absPathStr_idem (cfg : Cfg) (s : Str) (hwd : isAbs cfg.wd = true) :
    absPathStr cfg (absPathStr cfg s) = absPathStr cfg s :=
  absPathStr_fix cfg _ (absPathStr_abs_or_nil cfg s hwd)

/-! ### maybeUnixPath -/

theorem maybeUnixStr_total (cfg : Cfg) (s : Str) : ∃ r, maybeUnixStr cfg s = .ok r := by
  unfold maybeUnixStr
  simp only
  split
  · exact ⟨_, rfl⟩
  · obtain ⟨b, hb⟩ := isWindowsAbs_total (expandUser cfg.home s)
    rw [hb]
    cases b <;> exact ⟨_, rfl⟩

theorem maybeUnixStr_abs_untouched (cfg : Cfg) (s : Str) (h : isAbs s = true) : maybeUnixStr cfg s = .ok s := by
  simp [maybeUnixStr, expandUser_of_abs _ _ h, h]

theorem maybeUnixStr_winabs_untouched (cfg : Cfg) (s : Str) (h : isWindowsAbs? s = some true) :
    maybeUnixStr cfg s = .ok s := by
  have ht : tilde s = false := by
    cases hh : tilde s with
    | false => rfl
    | true => rw [isWindowsAbs_tilde s hh] at h; cases h
  simp only [maybeUnixStr, expandUser_of_not_tilde _ _ ht, h]
  split <;> rfl

theorem maybeUnixStr_relative (cfg : Cfg) (s : Str) (ha : isAbs s = false) (ht : tilde s = false)
    (hw : isWindowsAbs? s = some false) : maybeUnixStr cfg s = .ok (join cfg.wd s) := by
  simp [maybeUnixStr, expandUser_of_not_tilde _ _ ht, ha, hw]

theorem maybeUnixStr_tilde (cfg : Cfg) (h rest : Str) (hh : cfg.home = some h) (ha : isAbs h = true) :
    maybeUnixStr cfg ('~' :: rest) = .ok (join h rest) := by
  simp [maybeUnixStr, hh, expandUser_tilde, isAbs_join h rest ha]

/-- the outcome of `maybeUnixPath` is a fixed point: absolute, or Windows-absolute -/
theorem maybeUnixStr_result (cfg : Cfg) (s r : Str) (hwd : isAbs cfg.wd = true) (h : maybeUnixStr cfg s = .ok r) :
    isAbs r = true ∨ isWindowsAbs? r = some true := by
  unfold maybeUnixStr at h
  simp only at h
  split at h
  · rename_i ha; cases h; exact .inl ha
  · split at h
    · cases h
    · cases h; rename_i hw; exact .inr hw
    · cases h; exact .inl (isAbs_join _ _ hwd)

theorem maybeUnixStr_fix (cfg : Cfg) (r : Str) (h : isAbs r = true ∨ isWindowsAbs? r = some true) :
    maybeUnixStr cfg r = .ok r := by
  rcases h with h | h
  · exact maybeUnixStr_abs_untouched cfg r h
  · exact maybeUnixStr_winabs_untouched cfg r h

theorem maybeUnixStr_idem (cfg : Cfg) (s r : Str) (hwd : isAbs cfg.wd = true) (h : maybeUnixStr cfg s = .ok r) :
    maybeUnixStr cfg r = .ok r :=
  maybeUnixStr_fix cfg r (maybeUnixStr_result cfg s r hwd h)

/-! ### build contexts and extends.file -/

def urlLike (s : Str) : Bool := containsStr schemeSep s || isRemoteContext s

theorem absContextStr_url (cfg : Cfg) (s : Str) (h : urlLike s = true) : absContextStr cfg s = s := by
  simp only [urlLike, Bool.or_eq_true] at h
  unfold absContextStr
  rcases h with h | h
  · simp [h]
  · simp [h]

theorem absContextStr_local (cfg : Cfg) (s : Str) (h : urlLike s = false) : absContextStr cfg s = absPathStr cfg s := by
  simp only [urlLike, Bool.or_eq_false_iff] at h
  simp [absContextStr, h.1, h.2]

theorem absContextStr_idem (cfg : Cfg) (s : Str) (hwd : isAbs cfg.wd = true) :
    absContextStr cfg (absContextStr cfg s) = absContextStr cfg s := by
  cases h : urlLike s with
  | true => rw [absContextStr_url cfg s h, absContextStr_url cfg s h]
  | false =>
    rw [absContextStr_local cfg s h]
    cases h2 : urlLike (absPathStr cfg s) with
    | true => exact absContextStr_url cfg _ h2
    | false => rw [absContextStr_local cfg _ h2]; exact absPathStr_idem cfg s hwd

theorem absExtendsStr_idem (cfg : Cfg) (s : Str) (hwd : isAbs cfg.wd = true) :
    absExtendsStr cfg (absExtendsStr cfg s) = absExtendsStr cfg s := by
  unfold absExtendsStr
  cases h : cfg.remote s with
  | true => simp [h]
  | false =>
    simp only [Bool.false_eq_true, if_false]
    cases h2 : cfg.remote (absPathStr cfg s) with
    | true => simp
    | false => simp only [Bool.false_eq_true, if_false]; exact absPathStr_idem cfg s hwd

/-! ### two-stage resolution (include / extends) = one-stage against the joined directory -/

/-- stage 1 against the relative directory `R`, stage 2 against `W`, versus one stage against `Join(W, R)` -/
theorem absPathStr_compose (home : Option Str) (remote : Str → Bool) (sym : Str → Option Str) (W R s : Str)
    (hW : W ≠ []) (hR : R ≠ []) (hRr : isAbs R = false)
    (hplain : tilde (absPathStr ⟨R, home, remote, sym⟩ s) = false) :
    absPathStr ⟨W, home, remote, sym⟩ (absPathStr ⟨R, home, remote, sym⟩ s) =
      absPathStr ⟨join W R, home, remote, sym⟩ s := by
  rcases absPathStr_cases ⟨R, home, remote, sym⟩ s with ⟨h1, h2⟩ | ⟨h1, h2⟩ | ⟨h1, h1', h2⟩
  · simp only at h1 h2
    rw [h2, absPathStr_abs_untouched _ _ h1]
    simp [absPathStr, h1]
  · simp only at h1 h2
    rw [h2]
    have e1 : absPathStr ⟨W, home, remote, sym⟩ [] = [] := by simp [absPathStr, expandUser, isAbs]
    have e2 : absPathStr ⟨join W R, home, remote, sym⟩ s = [] := by
      simp only [absPathStr]
      rw [h1]
      simp [isAbs]
    rw [e1, e2]
  · simp only at h1 h1' h2
    rw [h2] at hplain ⊢
    have hm_rel : isAbs (join R (expandUser home s)) = false := isAbs_join_rel _ _ hR hRr
    have hm_ne : join R (expandUser home s) ≠ [] := join_ne_nil _ _ hR
    rw [absPathStr_relative _ _ hm_rel hm_ne hplain]
    simp only [absPathStr, h1, Bool.false_eq_true, if_false, h1', ne_eq, not_false_eq_true, if_true]
    exact (join_assoc W R _ hW hR hRr).symm

theorem maybeUnixStr_compose (home : Option Str) (remote : Str → Bool) (sym : Str → Option Str) (W R s m : Str)
    (hW : W ≠ []) (hR : R ≠ []) (hRr : isAbs R = false)
    (h1 : maybeUnixStr ⟨R, home, remote, sym⟩ s = .ok m)
    (hplain : tilde m = false ∧ (isAbs (expandUser home s) = false → isWindowsAbs? (expandUser home s) = some false → isWindowsAbs? m = some false)) :
    maybeUnixStr ⟨W, home, remote, sym⟩ m = maybeUnixStr ⟨join W R, home, remote, sym⟩ s := by
  unfold maybeUnixStr at h1
  simp only at h1
  by_cases ha : isAbs (expandUser home s) = true
  · simp only [ha, if_true] at h1
    cases h1
    rw [maybeUnixStr_abs_untouched _ _ ha]
    simp [maybeUnixStr, ha]
  · have ha' : isAbs (expandUser home s) = false := by simpa using ha
    simp only [ha, if_false] at h1
    obtain ⟨b, hb⟩ := isWindowsAbs_total (expandUser home s)
    rw [hb] at h1
    cases b with
    | true =>
      cases h1
      rw [maybeUnixStr_winabs_untouched _ _ hb]
      simp [maybeUnixStr, ha', hb]
    | false =>
      cases h1
      have hm_rel : isAbs (join R (expandUser home s)) = false := isAbs_join_rel _ _ hR hRr
      rw [maybeUnixStr_relative _ _ hm_rel hplain.1 (hplain.2 ha' hb)]
      simp only [maybeUnixStr, ha', Bool.false_eq_true, if_false, hb]
      rw [join_assoc W R _ hW hR hRr]

end CV.Paths
