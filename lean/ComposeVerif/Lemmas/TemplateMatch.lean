import ComposeVerif.Lemmas.TemplateRun
/-!
# The matcher of the `template.Substitute` model on concrete shapes

`spanName`, `firstCloseGo` over brace-free text, `indexOf` / `selectOp` / `cut` on `pre ++ op ++ X`,
and the recursion / decomposition lemmas of `lastCloseLen` (the greedy `.*` that backtracks to the
last `}` of the line).
-/
namespace CV.Template

/-- the eight characters that delimit substitutions are not name characters -/
theorem not_nameChar_special {c : Char} (h : isNameChar c = true) :
    c ≠ '$' ∧ c ≠ '{' ∧ c ≠ '}' ∧ c ≠ ':' ∧ c ≠ '-' ∧ c ≠ '+' ∧ c ≠ '?' ∧ c ≠ '\n' := by
  refine ⟨?_, ?_, ?_, ?_, ?_, ?_, ?_, ?_⟩ <;> (intro hc; subst hc; revert h; decide)

theorem spanName_name (n t : Str) (hn : ∀ c ∈ n, isNameChar c = true)
    (ht : ∀ c, t.head? = some c → isNameChar c = false) : spanName (n ++ t) = (n, t) := by
  induction n with
  | nil =>
    cases t with
    | nil => simp [spanName]
    | cons c cs => simp [spanName, ht c rfl]
  | cons c cs ih =>
    have hc := hn c (List.mem_cons_self ..)
    have := ih (fun x hx => hn x (List.mem_cons_of_mem _ hx))
    simp [spanName, hc, this]

/-- brace-free text does not change the brace counter -/
theorem firstCloseGo_skip (a rest : Str) (i : Nat) (o : Int) (ha : ∀ c ∈ a, c ≠ '{' ∧ c ≠ '}') :
    firstCloseGo (a ++ rest) i o = firstCloseGo rest (i + a.length) o := by
  induction a generalizing i with
  | nil => simp
  | cons c cs ih =>
    have hc := ha c (List.mem_cons_self ..)
    have := ih (i+1) (fun x hx => ha x (List.mem_cons_of_mem _ hx))
    rw [List.cons_append, firstCloseGo]
    · rw [this]; simp; congr 1; omega
    all_goals (intros; simp_all)

theorem firstCloseGo_nil (i : Nat) (o : Int) : firstCloseGo [] i o = none := by simp [firstCloseGo]

end CV.Template
namespace CV.Template

/-! ### `indexOf` and operator selection -/

theorem indexOfGo_shift (pat s : Str) (i : Nat) : indexOfGo pat s i = (indexOfGo pat s 0).map (· + i) := by
  induction s generalizing i with
  | nil => simp [indexOfGo]
  | cons c cs ih =>
    simp only [indexOfGo]
    split
    · simp
    · rw [ih (i+1), ih (0+1)]
      cases indexOfGo pat cs 0 <;> simp; omega

theorem indexOf_cons_of_prefix {pat : Str} {s : Str} (h : pat.isPrefixOf s = true) (hs : s ≠ []) : indexOf pat s = some 0 := by
  cases s with
  | nil => exact absurd rfl hs
  | cons c cs => simp [indexOf, indexOfGo, h]

theorem indexOf_cons_not_prefix {pat : Str} {c : Char} {cs : Str} (h : pat.isPrefixOf (c :: cs) = false) :
    indexOf pat (c :: cs) = (indexOf pat cs).map (· + 1) := by
  simp only [indexOf, indexOfGo, h]
  rw [indexOfGo_shift]; simp

/-- a prefix none of whose characters starts the pattern only shifts the index -/
theorem indexOf_skip (p0 : Char) (pt pre s : Str) (hpre : ∀ c ∈ pre, c ≠ p0) :
    indexOf (p0 :: pt) (pre ++ s) = (indexOf (p0 :: pt) s).map (· + pre.length) := by
  induction pre with
  | nil => simp
  | cons c cs ih =>
    have hc := hpre c (List.mem_cons_self ..)
    have := ih (fun x hx => hpre x (List.mem_cons_of_mem _ hx))
    rw [List.cons_append, indexOf_cons_not_prefix, this]
    · cases indexOf (p0 :: pt) s <;> simp; omega
    · simp [List.isPrefixOf]; intro h; exact absurd h.symm hc

theorem indexOf_none_of_no_head (p0 : Char) (pt s : Str) (hs : ∀ c ∈ s, c ≠ p0) : indexOf (p0 :: pt) s = none := by
  have := indexOf_skip p0 pt s [] hs
  simpa [indexOf, indexOfGo] using this

theorem foldl_pick_keep (s : Str) (o : Op) (i : Nat) (l : List Op)
    (hl : ∀ p ∈ l, p ≠ o → ∀ j, indexOf p.str s = some j → i < j) (ho : indexOf o.str s = some i) :
    l.foldl (pickEarlier s) (some (i, o)) = some (i, o) := by
  induction l with
  | nil => rfl
  | cons p l ih =>
    rw [List.foldl_cons]
    have : pickEarlier s (some (i, o)) p = some (i, o) := by
      unfold pickEarlier
      by_cases hp : p = o
      · subst hp; simp [ho]
      · cases hj : indexOf p.str s with
        | none => rfl
        | some j =>
          have := hl p (List.mem_cons_self ..) hp j hj
          simp; omega
    rw [this]
    exact ih (fun p' hq => hl p' (List.mem_cons_of_mem _ hq))

theorem foldl_pick_find (s : Str) (o : Op) (i : Nat) (l : List Op)
    (hl : ∀ p ∈ l, p ≠ o → ∀ j, indexOf p.str s = some j → i < j) (ho : indexOf o.str s = some i) (hmem : o ∈ l)
    (acc : Option (Nat × Op)) (hacc : acc = none ∨ ∃ j p, acc = some (j, p) ∧ i < j) :
    l.foldl (pickEarlier s) acc = some (i, o) := by
  induction l generalizing acc with
  | nil => cases hmem
  | cons p l ih =>
    rw [List.foldl_cons]
    have hl' : ∀ p' ∈ l, p' ≠ o → ∀ j, indexOf p'.str s = some j → i < j := fun p' hq => hl p' (List.mem_cons_of_mem _ hq)
    by_cases hp : p = o
    · subst hp
      have : pickEarlier s acc p = some (i, p) := by
        unfold pickEarlier
        rcases hacc with rfl | ⟨j, p', rfl, hj⟩
        · simp [ho]
        · simp [ho, hj]
      rw [this]
      exact foldl_pick_keep s p i l hl' ho
    · have hmem' : o ∈ l := by
        cases hmem with
        | head => exact absurd rfl hp
        | tail _ h => exact h
      apply ih hl' hmem'
      unfold pickEarlier
      cases hj : indexOf p.str s with
      | none => simpa using hacc
      | some j' =>
        have hij := hl p (List.mem_cons_self ..) hp j' hj
        rcases hacc with rfl | ⟨j, p', rfl, hj⟩
        · exact Or.inr ⟨j', p, rfl, hij⟩
        · simp only
          split
          · exact Or.inr ⟨j', p, rfl, hij⟩
          · exact Or.inr ⟨j, p', rfl, hj⟩

theorem selectOp_of_min (s : Str) (o : Op) (i : Nat) (ho : indexOf o.str s = some i)
    (hl : ∀ p, p ≠ o → ∀ j, indexOf p.str s = some j → i < j) : selectOp s = o := by
  unfold selectOp
  rw [foldl_pick_find s o i opTable (fun p _ => hl p) ho (by cases o <;> simp [opTable]) none (Or.inl rfl)]

end CV.Template
namespace CV.Template

theorem op_head (p : Op) : ∃ p0 pt, p.str = p0 :: pt ∧ (p0 = ':' ∨ p0 = '-' ∨ p0 = '+' ∨ p0 = '?') := by
  cases p <;> simp [Op.str]

theorem op_not_prefix (o p : Op) (h : p ≠ o) (X : Str) : p.str.isPrefixOf (o.str ++ X) = false := by
  cases o <;> cases p <;> first | (exact absurd rfl h) | simp [Op.str, List.isPrefixOf]

theorem op_str_ne_nil (o : Op) : o.str ≠ [] := by cases o <;> simp [Op.str]

theorem isPrefixOf_append_self (a b : Str) : a.isPrefixOf (a ++ b) = true := by
  induction a with
  | nil => simp [List.isPrefixOf]
  | cons c cs ih => simp [ih]

/-- index of an operator string in `pre ++ o.str ++ X` when `pre` contains no operator character -/
theorem indexOf_op_render (pre : Str) (o p : Op) (X : Str)
    (hpre : ∀ c ∈ pre, c ≠ ':' ∧ c ≠ '-' ∧ c ≠ '+' ∧ c ≠ '?') :
    (p = o → indexOf p.str (pre ++ (o.str ++ X)) = some pre.length) ∧
    (p ≠ o → ∀ j, indexOf p.str (pre ++ (o.str ++ X)) = some j → pre.length < j) := by
  obtain ⟨p0, pt, hp, hp0⟩ := op_head p
  have hskip : indexOf p.str (pre ++ (o.str ++ X)) = (indexOf p.str (o.str ++ X)).map (· + pre.length) := by
    rw [hp]; apply indexOf_skip
    intro c hc
    have := hpre c hc
    rcases hp0 with rfl | rfl | rfl | rfl <;> simp [this]
  constructor
  · intro h; subst h
    rw [hskip, indexOf_cons_of_prefix (isPrefixOf_append_self _ _) (by simp [op_str_ne_nil])]
    simp
  · intro h j hj
    rw [hskip] at hj
    obtain ⟨c, cs, hcs⟩ : ∃ c cs, o.str ++ X = c :: cs := by
      cases o <;> simp [Op.str]
    have hnp := op_not_prefix o p h X
    rw [hcs] at hnp hj
    rw [indexOf_cons_not_prefix hnp] at hj
    cases hi : indexOf p.str cs with
    | none => simp [hi] at hj
    | some i => simp [hi] at hj; omega

theorem selectOp_render (pre : Str) (o : Op) (X : Str)
    (hpre : ∀ c ∈ pre, c ≠ ':' ∧ c ≠ '-' ∧ c ≠ '+' ∧ c ≠ '?') : selectOp (pre ++ (o.str ++ X)) = o :=
  selectOp_of_min _ o pre.length ((indexOf_op_render pre o o X hpre).1 rfl)
    (fun p hp => (indexOf_op_render pre o p X hpre).2 hp)

theorem cut_op_render (pre : Str) (o : Op) (X : Str)
    (hpre : ∀ c ∈ pre, c ≠ ':' ∧ c ≠ '-' ∧ c ≠ '+' ∧ c ≠ '?') :
    cut o.str (pre ++ (o.str ++ X)) = (pre, X) ∧ containsStr o.str (pre ++ (o.str ++ X)) = true := by
  have h := (indexOf_op_render pre o o X hpre).1 rfl
  simp [cut, containsStr, h]

end CV.Template
namespace CV.Template

/-! ### `lastCloseLen` (the greedy `.*` followed by `}`) -/

theorem lastCloseLen_nil : lastCloseLen [] = none := by simp [lastCloseLen]

theorem lastCloseLen_newline (X : Str) : lastCloseLen ('\n' :: X) = none := by simp [lastCloseLen]

theorem lastCloseLen_cons (c : Char) (X : Str) (hc : c ≠ '\n') :
    lastCloseLen (c :: X) = match lastCloseLen X with
      | some k => some (k + 1)
      | none => if c = '}' then some 1 else none := by
  unfold lastCloseLen
  have h1 : List.takeWhile (fun x => x != '\n') (c :: X) = c :: List.takeWhile (fun x => x != '\n') X := by
    have : (c != '\n') = true := by simp [hc]
    simp [List.takeWhile, this]
  rw [h1, List.reverse_cons, List.dropWhile_append]
  generalize (List.takeWhile (fun x => x != '\n') X).reverse.dropWhile (fun x => x != '}') = D
  cases D with
  | nil =>
    simp only [List.isEmpty_nil, if_true]
    by_cases hb : c = '}'
    · subst hb; simp [List.dropWhile]
    · have : (c != '}') = true := by simp [hb]
      simp [List.dropWhile, this, hb]
  | cons d D => simp

def noNL (s : Str) : Prop := ∀ c ∈ s, c ≠ '\n'

theorem lastCloseLen_close (P Z : Str) (hP : noNL P) (hZ : lastCloseLen Z = none) :
    lastCloseLen (P ++ '}' :: Z) = some (P.length + 1) := by
  induction P with
  | nil => rw [List.nil_append, lastCloseLen_cons _ _ (by decide), hZ]; simp
  | cons c cs ih =>
    have hc := hP c (List.mem_cons_self ..)
    have := ih (fun x hx => hP x (List.mem_cons_of_mem _ hx))
    rw [List.cons_append, lastCloseLen_cons _ _ hc, this]; simp

theorem lastCloseLen_cases (X : Str) :
    lastCloseLen X = none ∨
    ∃ Y Z, X = Y ++ '}' :: Z ∧ noNL Y ∧ lastCloseLen Z = none ∧ lastCloseLen X = some (Y.length + 1) := by
  induction X with
  | nil => exact Or.inl lastCloseLen_nil
  | cons c X ih =>
    by_cases hc : c = '\n'
    · subst hc; exact Or.inl (lastCloseLen_newline X)
    · rw [lastCloseLen_cons c X hc]
      rcases ih with h | ⟨Y, Z, hX, hY, hZ, hk⟩
      · rw [h]
        by_cases hb : c = '}'
        · subst hb
          exact Or.inr ⟨[], X, rfl, (by intro x hx; cases hx), h, by simp⟩
        · exact Or.inl (by simp [hb])
      · refine Or.inr ⟨c :: Y, Z, by rw [hX]; rfl, ?_, hZ, by rw [hk]; simp⟩
        intro x hx
        cases hx with
        | head => exact hc
        | tail _ h => exact hY x h

end CV.Template
