import ComposeVerif.Model.Template
/-!
# Lemmas about the fuel and the panic branches of the `template.Substitute` model

* `scan_succ` / `repl_succ`: one-step unfoldings in terms of `scanK` / `replK`;
* `fuel_mono_aux`: more fuel never changes a result other than `panic fuel`;
* `fuel_suff_aux` / `scan_fuel_suff`: `2*|s|+1` fuel is enough;
* `no_matchGroups_aux`: the re-match inside `repl` never fails on a string produced by the regex.
-/
namespace CV.Template

def subOf (m : Str) : Str := match firstClose m with | some i => m.take (i+1) | none => m
def restOf (m : Str) : Str := match firstClose m with | some i => m.drop (i+1) | none => []

/-- the part of `repl` after the re-match, parameterised by the two recursive scans -/
def replK (env : Env) (m : Str) (sc : Str → Out) : Out :=
  match matchDollar (subOf m) with
  | none => .panic .matchGroups
  | some (.escaped, _, _) => .ok ['$']
  | some (.invalid, _, _) => .err .invalid
  | some (.named n, _, _) => .ok ((env n).getD [])
  | some (.braced body, _, _) =>
    if containsStr (selectOp m).str body then
      match sc (cut (selectOp m).str body).2 with
      | .panic p => .panic p
      | .err e => .err e
      | .ok d =>
        match applyOp (selectOp m) (cut (selectOp m).str body).1 (env (cut (selectOp m).str body).1) d with
        | .ok x =>
          match sc (restOf m) with
          | .ok r => .ok (x ++ r)
          | o => o
        | o => o
    else .ok ((env body).getD [])

theorem repl_succ (env : Env) (f : Nat) (m : Str) :
    repl (f+1) env m = replK env m (fun s => scan f env s [] none) := by
  rw [repl]; rfl

def pushErr (fe : Option Err) (e : Err) : Option Err := match fe with | none => some e | some e0 => some e0

/-- one step of scan at a `$` -/
def scanK (s acc : Str) (fe : Option Err) (rp : Str → Out) (sc : Str → Str → Option Err → Out) : Out :=
  match s with
  | [] => match fe with
    | none => .ok acc
    | some e => .err e
  | c :: cs =>
    if c == '$' then
      match matchDollar (c :: cs) with
      | none => sc cs (acc ++ [c]) fe
      | some (_, m, rest) =>
        match rp m with
        | .ok v => sc rest (acc ++ v) fe
        | .err e => sc rest acc (pushErr fe e)
        | .panic p => .panic p
    else sc cs (acc ++ [c]) fe

theorem scan_succ (env : Env) (f : Nat) (s acc : Str) (fe : Option Err) :
    scan (f+1) env s acc fe = scanK s acc fe (repl f env) (scan f env) := by
  cases s <;> cases fe <;> simp only [scan, scanK, pushErr] <;> rfl

end CV.Template
namespace CV.Template

theorem scanK_congr (s acc : Str) (fe : Option Err) (rp rp' : Str → Out) (sc sc' : Str → Str → Option Err → Out)
    (hr : ∀ m, rp m ≠ .panic .fuel → rp' m = rp m)
    (hs : ∀ s a fe, sc s a fe ≠ .panic .fuel → sc' s a fe = sc s a fe)
    (h : scanK s acc fe rp sc ≠ .panic .fuel) : scanK s acc fe rp' sc' = scanK s acc fe rp sc := by
  unfold scanK at h ⊢
  split
  · rfl
  · split
    · split
      · exact hs _ _ _ (by simpa [*] using h)
      · rename_i k m rest hm
        have hrm : rp m ≠ .panic .fuel := by
          intro hp; simp [*] at h
        rw [hr m hrm]
        simp only [*] at h
        split
        · rename_i v hv; simp only [hv] at h; exact hs _ _ _ h
        · rename_i v hv; simp only [hv] at h; exact hs _ _ _ h
        · rfl
    · exact hs _ _ _ (by simpa [*] using h)

theorem replK_congr (env : Env) (m : Str) (sc sc' : Str → Out)
    (hs : ∀ s, sc s ≠ .panic .fuel → sc' s = sc s)
    (h : replK env m sc ≠ .panic .fuel) : replK env m sc' = replK env m sc := by
  unfold replK at h ⊢
  split <;> try rfl
  rename_i body _ _ hmd
  rw [hmd] at h
  simp only at h
  split
  · rename_i hc
    rw [if_pos hc] at h
    have h1 : sc (cut (selectOp m).str body).2 ≠ .panic .fuel := by
      intro hp; rw [hp] at h; exact h rfl
    rw [hs _ h1]
    split
    · rfl
    · rfl
    · rename_i d hd
      rw [hd] at h
      simp only at h
      split
      · rename_i x hx
        rw [hx] at h; simp only at h
        have h2 : sc (restOf m) ≠ .panic .fuel := by
          intro hp; rw [hp] at h; exact h rfl
        rw [hs _ h2]
      · rfl
  · rfl

theorem fuel_mono_aux (env : Env) : ∀ f,
    (∀ s acc fe, scan f env s acc fe ≠ .panic .fuel → scan (f+1) env s acc fe = scan f env s acc fe) ∧
    (∀ m, repl f env m ≠ .panic .fuel → repl (f+1) env m = repl f env m) := by
  intro f
  induction f with
  | zero => exact ⟨fun s acc fe h => absurd (by simp [scan]) h, fun m h => absurd (by simp [repl]) h⟩
  | succ f ih =>
    refine ⟨fun s acc fe h => ?_, fun m h => ?_⟩
    · rw [scan_succ] at h
      rw [scan_succ, scan_succ]
      exact scanK_congr _ _ _ _ _ _ _ ih.2 ih.1 h
    · rw [repl_succ] at h
      rw [repl_succ, repl_succ]
      exact replK_congr _ _ _ _ (fun s => ih.1 s [] none) h

end CV.Template
namespace CV.Template

theorem spanName_append (r : Str) : (spanName r).1 ++ (spanName r).2 = r := by
  induction r with
  | nil => simp [spanName]
  | cons c cs ih =>
    unfold spanName
    split
    · simp [ih]
    · simp

theorem matchBraced_spec (r : Str) :
    (matchBraced r).2.1 ++ (matchBraced r).2.2 = r ∧
    (∀ body, (matchBraced r).1 = .braced body → body.length ≤ (matchBraced r).2.1.length) := by
  unfold matchBraced
  split
  · simp
  · rename_i c cs
    split
    · have hsp := spanName_append (c :: cs)
      generalize spanName (c :: cs) = p at hsp
      obtain ⟨n, r2⟩ := p
      simp only at hsp ⊢
      split
      · rename_i r3
        rw [← hsp]
        simp
      · rename_i o r3
        split
        · split
          · rename_i k hk
            rw [← hsp]
            simp
            omega
          · simp
        · simp
      · rename_i o r3 _ _
        split
        · split
          · rw [← hsp]
            simp
            omega
          · simp
        · simp
      · simp
    · simp

end CV.Template
namespace CV.Template

theorem isNameChar_of_start {c : Char} (h : isNameStart c = true) : isNameChar c = true := by
  simp only [isNameStart, isNameChar, Bool.or_eq_true] at h ⊢
  exact Or.inl h

theorem spanName_cons {c : Char} (h : isNameChar c = true) (r : Str) :
    spanName (c :: r) = (c :: (spanName r).1, (spanName r).2) := by
  rw [spanName]; simp [h]

theorem matchDollar_spec {s : Str} {k : M} {m rest : Str} (h : matchDollar s = some (k, m, rest)) :
    m ++ rest = s ∧ 2 ≤ m.length ∧ (∀ body, k = .braced body → body.length + 2 ≤ m.length) := by
  unfold matchDollar at h
  split at h
  · cases h; simp
  · rename_i r
    cases h
    have := matchBraced_spec r
    refine ⟨by simp [this.1], by simp, fun body hb => ?_⟩
    have := this.2 body hb
    simp; omega
  · rename_i c r _ _
    split at h
    · cases h
      refine ⟨by simp [spanName_append], ?_, by simp⟩
      rename_i hc
      rw [spanName_cons (isNameChar_of_start hc)]; simp
    · cases h
  · cases h

end CV.Template
namespace CV.Template

theorem cut_snd_length (sep s : Str) : (cut sep s).2.length ≤ s.length := by
  unfold cut; split <;> simp

theorem subOf_length (m : Str) : (subOf m).length ≤ m.length := by
  unfold subOf; split <;> simp [List.length_take]; omega

theorem restOf_length (m : Str) : (restOf m).length ≤ m.length - 1 := by
  unfold restOf; split <;> simp [List.length_drop]; omega

theorem applyOp_ne_panic (o : Op) (n : Str) (v : Option Str) (d : Str) (p : PanicSite) :
    applyOp o n v d ≠ .panic p := by
  unfold applyOp
  cases o <;> cases v <;> simp <;> split <;> simp

theorem fuel_suff_aux (env : Env) : ∀ f,
    (∀ s acc fe, 2 * s.length + 1 ≤ f → scan f env s acc fe ≠ .panic .fuel) ∧
    (∀ m, 2 * m.length ≤ f → 1 ≤ f → repl f env m ≠ .panic .fuel) := by
  intro f
  induction f with
  | zero => exact ⟨fun s acc fe h => by omega, fun m _ h => by omega⟩
  | succ f ih =>
    refine ⟨fun s acc fe h => ?_, fun m h _ => ?_⟩
    · rw [scan_succ]; unfold scanK
      split
      · split <;> simp
      · rename_i c cs
        simp only [List.length_cons] at h
        split
        · split
          · exact ih.1 _ _ _ (by omega)
          · rename_i k m rest hm
            obtain ⟨h1, h2, _⟩ := matchDollar_spec hm
            have hl : m.length + rest.length = cs.length + 1 := by
              have := congrArg List.length h1; simpa using this
            have hr := ih.2 m (by omega) (by omega)
            split
            · exact ih.1 _ _ _ (by omega)
            · exact ih.1 _ _ _ (by omega)
            · rename_i p hp
              intro hc; cases hc; exact hr hp
        · exact ih.1 _ _ _ (by omega)
    · rw [repl_succ]; unfold replK
      split <;> try (intro hc; cases hc)
      rename_i body x y hmd
      obtain ⟨h1, h2, h3⟩ := matchDollar_spec hmd
      have h3 := h3 body rfl
      have hxl : x.length ≤ (subOf m).length := by
        have := congrArg List.length h1; simp at this; omega
      have hsub := subOf_length m
      split
      · have harg := cut_snd_length (selectOp m).str body
        have ha := ih.1 (cut (selectOp m).str body).2 [] none (by omega)
        split
        · rename_i p hp; intro hc; cases hc; exact ha hp
        · intro hc; cases hc
        · split
          · have hrest := restOf_length m
            have hb := ih.1 (restOf m) [] none (by omega)
            split
            · intro hc; cases hc
            · exact hb
          · rename_i o hx ho
            intro hc
            exact applyOp_ne_panic _ _ _ _ _ hc
      · intro hc; cases hc

theorem scan_fuel_suff (env : Env) (s acc : Str) (fe : Option Err) (f : Nat) (h : 2 * s.length + 1 ≤ f) :
    scan f env s acc fe ≠ .panic .fuel := (fuel_suff_aux env f).1 s acc fe h

theorem scan_fuel_add (env : Env) (s acc : Str) (fe : Option Err) (f k : Nat) (h : 2 * s.length + 1 ≤ f) :
    scan (f + k) env s acc fe = scan f env s acc fe := by
  induction k with
  | zero => rfl
  | succ k ih =>
    rw [← Nat.add_assoc, (fuel_mono_aux env (f+k)).1 s acc fe (by rw [ih]; exact scan_fuel_suff env s acc fe f h), ih]

theorem scan_fuel_eq (env : Env) (s acc : Str) (fe : Option Err) (f g : Nat) (hf : 2 * s.length + 1 ≤ f)
    (hg : 2 * s.length + 1 ≤ g) : scan f env s acc fe = scan g env s acc fe := by
  have h1 := scan_fuel_add env s acc fe (2 * s.length + 1) (f - (2 * s.length + 1)) (Nat.le_refl _)
  have h2 := scan_fuel_add env s acc fe (2 * s.length + 1) (g - (2 * s.length + 1)) (Nat.le_refl _)
  rw [show 2 * s.length + 1 + (f - (2 * s.length + 1)) = f by omega] at h1
  rw [show 2 * s.length + 1 + (g - (2 * s.length + 1)) = g by omega] at h2
  rw [h1, h2]

end CV.Template
namespace CV.Template

theorem firstCloseGo_ge (s : Str) (i : Nat) (o : Int) (j : Nat) (h : firstCloseGo s i o = some j) : i ≤ j := by
  fun_induction firstCloseGo s i o <;> simp_all <;> omega

def DollarHead (m : Str) : Prop := ∃ c r, m = '$' :: c :: r ∧ (c = '$' ∨ c = '{' ∨ isNameStart c = true)

theorem matchDollar_isSome_of_head {m : Str} (h : DollarHead m) : matchDollar m ≠ none := by
  obtain ⟨c, r, rfl, hc⟩ := h
  unfold matchDollar
  split <;> simp_all

theorem dollarHead_of_match {s : Str} {k : M} {m rest : Str} (h : matchDollar s = some (k, m, rest)) : DollarHead m := by
  unfold matchDollar at h
  split at h
  · cases h; exact ⟨'$', [], rfl, Or.inl rfl⟩
  · cases h; exact ⟨'{', _, rfl, Or.inr (Or.inl rfl)⟩
  · rename_i c r _ _
    split at h
    · cases h
      rename_i hc
      rw [spanName_cons (isNameChar_of_start hc)]
      exact ⟨c, _, rfl, Or.inr (Or.inr hc)⟩
    · cases h
  · cases h

theorem dollarHead_subOf {m : Str} (h : DollarHead m) : DollarHead (subOf m) := by
  obtain ⟨c, r, rfl, hc⟩ := h
  unfold subOf
  split
  · rename_i i hi
    have : 1 ≤ i := by
      unfold firstClose at hi
      rw [firstCloseGo] at hi
      · exact firstCloseGo_ge _ _ _ _ hi
      all_goals (intros; simp_all)
    obtain ⟨i', rfl⟩ : ∃ i', i = i' + 1 := ⟨i - 1, by omega⟩
    exact ⟨c, r.take i', by simp, hc⟩
  · exact ⟨c, r, rfl, hc⟩

end CV.Template
namespace CV.Template

theorem no_matchGroups_aux (env : Env) : ∀ f,
    (∀ s acc fe, scan f env s acc fe ≠ .panic .matchGroups) ∧
    (∀ m, DollarHead m → repl f env m ≠ .panic .matchGroups) := by
  intro f
  induction f with
  | zero => exact ⟨fun s acc fe => by simp [scan], fun m _ => by simp [repl]⟩
  | succ f ih =>
    refine ⟨fun s acc fe => ?_, fun m hm => ?_⟩
    · rw [scan_succ]; unfold scanK
      split
      · split <;> simp
      · split
        · split
          · exact ih.1 _ _ _
          · rename_i k m rest hm
            have hr := ih.2 m (dollarHead_of_match hm)
            split
            · exact ih.1 _ _ _
            · exact ih.1 _ _ _
            · rename_i p hp
              intro hc; cases hc; exact hr hp
        · exact ih.1 _ _ _
    · rw [repl_succ]; unfold replK
      split
      · rename_i hmd
        exact absurd hmd (matchDollar_isSome_of_head (dollarHead_subOf hm))
      · intro hc; cases hc
      · intro hc; cases hc
      · intro hc; cases hc
      · split
        · split
          · rename_i p hp; intro hc; cases hc; exact ih.1 _ _ _ hp
          · intro hc; cases hc
          · split
            · split
              · intro hc; cases hc
              · exact ih.1 _ _ _
            · intro hc
              exact applyOp_ne_panic _ _ _ _ _ hc
        · intro hc; cases hc

theorem subst_never_panics_aux (env : Env) (s : Str) (p : PanicSite) : subst env s ≠ .panic p := by
  cases p with
  | fuel => exact scan_fuel_suff env s [] none _ (by unfold fuelFor; omega)
  | matchGroups => exact (no_matchGroups_aux env _).1 s [] none

end CV.Template
