import ComposeVerif.Spec.GenericF
import ComposeVerif.Lemmas.Decode
/-! The generic round trip for both renderings with leaf codecs (C09): the induction of `Lemmas/Decode.lean`, generalised. -/
namespace CV.GenericF
open CV CV.TypeDesc CV.Marshal CV.Encode CV.Decode CV.Generic

theorem stable_null_zero (env : Env) (fmt : Fmt) (L : Leaves) : ∀ (f : Nat) (ty : TyExpr),
    Stable env fmt L f ty .null → zeroVal env f ty = .null := by
  intro f
  induction f with
  | zero => intro ty h; exact absurd h (by simp [Stable])
  | succ f ih =>
    intro ty h
    cases ty with
    | prim p => simp [Stable] at h
    | other s => simp [Stable] at h
    | ptr e => rfl
    | slice e => rfl
    | map e => rfl
    | named n =>
      simp only [Stable] at h
      by_cases hl : L.names.contains n = true
      · simp only [hl, if_true] at h; exact absurd rfl h.2.2
      · simp only [hl, if_false] at h
        simp only [zeroVal]
        cases hs : findStruct env.structs n with
        | some s =>
          simp only [hs] at h
          obtain ⟨_, vals, hv, _⟩ := h
          cases hv
        | none =>
          simp only [hs] at h ⊢
          cases hn : findNamed env.named n with
          | some e => simp only [hn] at h ⊢; exact ih e h
          | none => simp [hn] at h

theorem keyed_rendered (fmt : Fmt) (fd : FieldDesc) (hk : keyed fmt fd = true) : rendered fd = true := by
  obtain ⟨gn, ty, ex, yk, ys, yo, yi, jk, js, jo⟩ := fd
  cases fmt <;> cases ex <;> cases ys <;> cases js <;> simp_all [keyed, skipOf, rendered]

theorem notskip_rendered (fmt : Fmt) (fd : FieldDesc) (hk : skipOf fmt fd = false) : rendered fd = true := by
  obtain ⟨gn, ty, ex, yk, ys, yo, yi, jk, js, jo⟩ := fd
  cases fmt <;> cases ex <;> cases ys <;> cases js <;> simp_all [skipOf, rendered]

theorem generic_roundtrip_aux (env : Env) (fmt : Fmt) (L : Leaves) (hL : LeafSound env fmt L) :
    ∀ (f : Nat) (ty : TyExpr) (v : Val),
    plainB env fmt L.names f ty = true → Stable env fmt L f ty v → RT env fmt f ty v := by
  intro f
  induction f with
  | zero => intro ty v hp; simp [plainB] at hp
  | succ f ih =>
    intro ty v hp hs
    cases ty with
    | prim p =>
      simp only [Stable] at hs
      exact ⟨v, by simp [encode], by simp [decode], fun h => h⟩
    | other s => simp [plainB] at hp
    | ptr e =>
      simp only [plainB] at hp
      simp only [Stable] at hs
      by_cases hv : v = .null
      · subst hv
        exact ⟨.null, by simp [encode], by simp [decode], fun h => absurd rfl h⟩
      · have hse : Stable env fmt L f e v := by
          rcases hs with h | h
          · exact absurd h hv
          · exact h
        obtain ⟨t, he, hd, hn⟩ := ih e v hp hse
        have htn := hn hv
        exact ⟨t, by rw [encode_ptr_nonnull env fmt f e v hv]; exact he,
          by rw [decode_ptr_nonnull env f e t htn]; exact hd, fun _ => htn⟩
    | slice e =>
      simp only [plainB] at hp
      simp only [Stable] at hs
      obtain ⟨xs, hv, _, hall⟩ := hs
      subst hv
      obtain ⟨ts, h1, h2, _⟩ := mapOut_roundtrip (encode env fmt f e) (decode env f e) xs
        (fun x hx => by
          obtain ⟨t, he, hd, _⟩ := ih e x hp (hall x hx)
          exact ⟨t, he, hd⟩)
      exact ⟨.seq ts, by simp [encode, h1], by simp [decode, h2], fun _ => by simp⟩
    | map e =>
      simp only [plainB] at hp
      simp only [Stable] at hs
      obtain ⟨kvs, hv, _, hall⟩ := hs
      subst hv
      obtain ⟨ts, h1, h2, _⟩ := mapKVs_roundtrip (encode env fmt f e) (decode env f e) kvs
        (fun p hp' => by
          obtain ⟨t, he, hd, _⟩ := ih e p.2 hp (hall p hp')
          exact ⟨t, he, hd⟩)
      exact ⟨.map ts, by simp [encode, h1], by simp [decode, h2], fun _ => by simp⟩
    | named n =>
      simp only [Stable] at hs
      by_cases hl : L.names.contains n = true
      · simp only [hl, if_true] at hs
        exact hL n hl f v hs.1 hs.2.1 hs.2.2
      simp only [hl, if_false] at hs
      simp only [plainB, hl, Bool.false_eq_true, if_false] at hp
      cases hfs : findStruct env.structs n with
      | none =>
        simp only [hfs, Bool.and_eq_true] at hs hp
        obtain ⟨hnc, hrest⟩ := hp
        simp only [noCustom, Bool.and_eq_true, Bool.not_eq_true'] at hnc
        obtain ⟨⟨⟨hc, hdm⟩, _⟩, _⟩ := hnc
        have hcn : ∀ v, custom fmt n v = none := fun v => custom_none fmt n v hc
        have hcd : customDecode n = none := customDecode_none n hc
        cases hfn : findNamed env.named n with
        | none => simp [hfn] at hs
        | some e =>
          simp only [hfn] at hs hrest
          obtain ⟨t, he, hd, hn⟩ := ih e v hrest hs
          exact ⟨t, by simp [encode, hcn, hfs, hfn, he], by simp [decode, hcd, hdm, hfs, hfn, hd], hn⟩
      | some s =>
        simp only [hfs] at hs hp
        simp only [Bool.and_eq_true] at hp
        obtain ⟨⟨⟨hso, hgn⟩, hkn⟩, hflds⟩ := hp
        have hcd : customDecode n = none ∧ hasMethod env n "DecodeMapstructure" = false := by
          rcases Bool.or_eq_true_iff.mp hso with h | h
          · simp only [noCustom, Bool.and_eq_true, Bool.not_eq_true'] at h
            exact ⟨customDecode_none n h.1.1.1, h.1.1.2⟩
          · simp only [structOnly, Bool.and_eq_true, Option.isNone_iff_eq_none, Bool.not_eq_true'] at h
            exact ⟨h.1.2, h.2⟩
        obtain ⟨hcd, hdm⟩ := hcd
        simp only [Bool.and_eq_true, List.all_eq_true, Bool.or_eq_true, Bool.not_eq_true'] at hflds
        obtain ⟨hcust, vals, hv, hvals⟩ := hs
        subst hv
        have hgn' := nodupB_nodup _ hgn
        have hfield : ∀ fd ∈ s.fields, rendered fd = true →
            field ((s.fields.filter rendered).map fun fd => (fd.goName, vals fd)) fd.goName = vals fd := by
          intro fd hm hr
          have := lookup_mk vals (s.fields.filter rendered) fd (List.mem_filter.mpr ⟨hm, hr⟩)
            (by simpa [List.map_map] using hgn')
          simp only [field, this, Option.getD_some]
        -- facts about a rendered field, from `plainB`
        have hfd : ∀ fd ∈ s.fields, rendered fd = true →
            fd.yamlSkip = false ∧
            (fd.yamlInline = true → zeroVal env f fd.ty = .null ∧ (fmt = .yaml ∨ skipOf fmt fd = true) ∧
              fd.yamlKey ∉ (s.fields.filter (keyed fmt)).map (keyOf fmt)) ∧
            (fd.yamlInline = false →
              (skipOf fmt fd = true → fd.yamlKey ∉ (s.fields.filter (keyed fmt)).map (keyOf fmt)) ∧
              (skipOf fmt fd = false → keyOf fmt fd = fd.yamlKey ∧ plainB env fmt L.names f fd.ty = true)) := by
          intro fd hm hr
          rcases hflds fd hm with h | h
          · rw [hr] at h; cases h
          · refine ⟨h.1, ?_, ?_⟩
            · intro hi
              have := h.2
              simp only [hi, if_true, Bool.and_eq_true, Bool.or_eq_true, beq_iff_eq, Bool.not_eq_true',
                List.contains_eq_mem, decide_eq_false_iff_not] at this
              exact ⟨isNull_eq this.1.1, this.1.2, this.2⟩
            · intro hi
              have := h.2
              simp only [hi, Bool.false_eq_true, if_false] at this
              constructor
              · intro hsk
                simpa [hsk] using this
              · intro hsk
                simpa [hsk] using this
        have hkeyed_facts : ∀ fd ∈ s.fields, keyed fmt fd = true → rendered fd = true ∧ fd.yamlInline = false := by
          intro fd hm hk
          have hr : rendered fd = true := keyed_rendered fmt fd hk
          refine ⟨hr, ?_⟩
          cases hi : fd.yamlInline with
          | false => rfl
          | true =>
            rcases ((hfd fd hm hr).2.1 hi).2.1 with hy | hsk
            · subst hy; simp [keyed, hi] at hk
            · simp [keyed, hsk] at hk
        obtain ⟨fs, hfsd⟩ : ∃ fs, fs = (s.fields.filter rendered).map (fun fd => (fd.goName, vals fd)) := ⟨_, rfl⟩
        rw [← hfsd] at hfield
        have hni : NoInline fmt s.fields fs := by
          intro fd hm hsk hy hi
          have hr : rendered fd = true := notskip_rendered fmt fd hsk
          rw [hfield fd hm hr]
          exact (hvals fd hm hr).1 hi
        have homit : ∀ fd ∈ s.fields, rendered fd = true → skipOf fmt fd = false →
            omitted fmt (zeroOf env fmt) fs fd = omittedF env fmt fd (vals fd) := by
          intro fd hm hr hsk
          simp only [omitted, omittedF, hfield fd hm hr, hsk, Bool.false_or]
        have hkeyed_noskip : ∀ fd, keyed fmt fd = true → skipOf fmt fd = false := by
          intro fd hk
          simp only [keyed, Bool.and_eq_true, Bool.not_eq_true'] at hk
          exact hk.1
        have hencok : ∃ out, encodeFieldsWith fmt (encode env fmt f) (zeroOf env fmt) s.fields fs = .ok (.map out) := by
          apply encodeFields_ok fmt _ _ s.fields fs hni
          intro fd hm hk hom
          obtain ⟨hr, hi⟩ := hkeyed_facts fd hm hk
          have hsk := hkeyed_noskip fd hk
          rw [homit fd hm hr hsk] at hom
          obtain ⟨t, he, _, _⟩ := ih fd.ty (vals fd) (((hfd fd hm hr).2.2 hi).2 hsk).2 ((hvals fd hm hr).2.2 hi hom)
          rw [hfield fd hm hr]
          exact ⟨t, he⟩
        obtain ⟨out, hout⟩ := hencok
        have hrend := encodeFields_field fmt (encode env fmt f) (zeroOf env fmt) s.fields fs out hni
          (nodupB_nodup _ hkn) hout
        have hdec : ∀ fd ∈ s.fields, rendered fd = true →
            fieldDecoded (decode env f) (zeroVal env f) out fd = .ok (vals fd) := by
          intro fd hm hr
          obtain ⟨hsk, hinl, hpl⟩ := hfd fd hm hr
          unfold fieldDecoded
          by_cases hi : fd.yamlInline = true
          · have hnk : Val.lookup fd.yamlKey out = none :=
              lookup_none_of_not_mem (fun hmem => (hinl hi).2.2 (encodeFields_keys fmt _ _ s.fields fs out hni hout _ hmem))
            simp only [hsk, Bool.false_eq_true, if_false, hnk, (hinl hi).1, (hvals fd hm hr).1 hi]
          · have hi' : fd.yamlInline = false := by simpa using hi
            by_cases hskip : skipOf fmt fd = true
            · -- left out by this format: the key is not in the rendering, the value is the zero value
              have hnk : Val.lookup fd.yamlKey out = none :=
                lookup_none_of_not_mem (fun hmem => ((hpl hi').1 hskip) (encodeFields_keys fmt _ _ s.fields fs out hni hout _ hmem))
              have hz := (hvals fd hm hr).2.1 hi' (by simp [omittedF, hskip])
              simp only [hsk, Bool.false_eq_true, if_false, hnk, hz]
            have hnsk : skipOf fmt fd = false := by simpa using hskip
            obtain ⟨hkey, hplain⟩ := (hpl hi').2 hnsk
            simp only [hsk, Bool.false_eq_true, if_false]
            have hk : keyed fmt fd = true := by
              simp [keyed, hnsk, hi']
            rcases hrend fd hm hk with ⟨hom, hl⟩ | ⟨hom, t, he, hl⟩
            · rw [hkey] at hl
              rw [homit fd hm hr hnsk] at hom
              simp only [hl, (hvals fd hm hr).2.1 hi' hom]
            · rw [hkey] at hl
              rw [homit fd hm hr hnsk] at hom
              rw [hfield fd hm hr] at he
              have hst := (hvals fd hm hr).2.2 hi' hom
              obtain ⟨t', he', hd', hn'⟩ := ih fd.ty (vals fd) hplain hst
              have htt : t = t' := by rw [he] at he'; injection he'
              subst htt
              by_cases hvn : vals fd = .null
              · have hz : zeroVal env f fd.ty = .null := stable_null_zero env fmt L f fd.ty (hvn ▸ hst)
                cases t with
                | null => simp only [hl, hz, hvn]
                | _ => simp only [hl, hd']
              · have htn := hn' hvn
                cases t with
                | null => exact absurd rfl htn
                | _ => simp only [hl, hd']
        have hdecall := decodeFields_all_ok (decode env f) (zeroVal env f) vals out s.fields hdec
        refine ⟨.map out, ?_, ?_, fun _ => by simp⟩
        · rw [← hfsd]
          rw [← hfsd] at hcust
          rcases hcust with hcn | hcn
          · simp only [encode, hcn, hfs]
            exact hout
          · simp only [encode, hcn, hfs]
            exact hout
        · rw [← hfsd]
          simp only [decode, hcd, hdm, Bool.false_eq_true, if_false, hfs, hdecall, hfsd]

end CV.GenericF
