import ComposeVerif.Model.Paths
/-! Lemmas about the lexical `clean` / `join` model (C12). -/
namespace CV.Paths

/-! ### splitSlash / joinSlash -/

theorem splitSlash_ne_nil (p : Str) : splitSlash p ≠ [] := by
  cases p with
  | nil => simp [splitSlash]
  | cons c cs =>
    simp only [splitSlash]
    split
    · simp
    · split <;> simp

theorem splitSlash_cons_slash (p : Str) : splitSlash ('/' :: p) = [] :: splitSlash p := by
  simp [splitSlash]

theorem splitSlash_append (x y : Str) : splitSlash (x ++ '/' :: y) = splitSlash x ++ splitSlash y := by
  induction x with
  | nil => simp [splitSlash]
  | cons c cs ih =>
    by_cases hc : c = '/'
    · subst hc
      simp only [List.cons_append, splitSlash_cons_slash, ih]
    · simp only [List.cons_append, splitSlash, hc, if_false, ih]
      have hne := splitSlash_ne_nil cs
      cases h : splitSlash cs with
      | nil => exact absurd h hne
      | cons s r => simp

/-- no component contains a slash -/
theorem splitSlash_noSlash (p : Str) : ∀ c ∈ splitSlash p, '/' ∉ c := by
  induction p with
  | nil => simp [splitSlash]
  | cons a as ih =>
    by_cases ha : a = '/'
    · subst ha
      simp only [splitSlash_cons_slash, List.mem_cons]
      rintro c (rfl | h)
      · simp
      · exact ih c h
    · simp only [splitSlash, ha, if_false]
      cases h : splitSlash as with
      | nil => simp; exact fun h => ha h.symm
      | cons s r =>
        rw [h] at ih
        simp only [List.mem_cons]
        rintro c (rfl | hc)
        · have := ih s (by simp)
          simp only [List.mem_cons, not_or]
          exact ⟨fun h => ha h.symm, this⟩
        · exact ih c (by simp [hc])

theorem splitSlash_noSlash_self (c : Str) (h : '/' ∉ c) : splitSlash c = [c] := by
  induction c with
  | nil => rfl
  | cons a as ih =>
    simp only [List.mem_cons, not_or] at h
    have ha : a ≠ '/' := fun e => h.1 e.symm
    simp [splitSlash, ha, ih h.2]

theorem splitSlash_joinSlash (l : List Str) (hne : l ≠ []) (hs : ∀ c ∈ l, '/' ∉ c) :
    splitSlash (joinSlash l) = l := by
  induction l with
  | nil => exact absurd rfl hne
  | cons a r ih =>
    cases r with
    | nil => simpa [joinSlash] using splitSlash_noSlash_self a (hs a (by simp))
    | cons b r' =>
      simp only [joinSlash]
      rw [splitSlash_append, splitSlash_noSlash_self a (hs a (by simp))]
      rw [ih (by simp) (fun c hc => hs c (by simp [hc]))]
      rfl

/-! ### the stack machine -/

def Pushable (c : Str) : Prop := c ≠ [] ∧ c ≠ dot
def Norm (c : Str) : Prop := c ≠ [] ∧ c ≠ dot ∧ c ≠ dotdot

theorem step_skip (r : Bool) (s : List Str) (c : Str) (h : c = [] ∨ c = dot) : step r s c = s := by
  simp [step, h]

theorem step_norm (r : Bool) (s : List Str) (c : Str) (h : Norm c) : step r s c = c :: s := by
  obtain ⟨h1, h2, h3⟩ := h
  simp [step, h1, h2, h3]

theorem dotdot_ne_nil : dotdot ≠ ([] : Str) := by decide
theorem dotdot_ne_dot : dotdot ≠ dot := by decide

theorem step_dotdot_nil (r : Bool) : step r [] dotdot = if r then [] else [dotdot] := by
  simp [step, dotdot_ne_nil, dotdot_ne_dot]

theorem step_dotdot_cons (r : Bool) (t : Str) (s : List Str) :
    step r (t :: s) dotdot = if t = dotdot then dotdot :: t :: s else s := by
  simp [step, dotdot_ne_nil, dotdot_ne_dot]

/-- trichotomy on a component -/
theorem comp_cases (c : Str) : (c = [] ∨ c = dot) ∨ c = dotdot ∨ Norm c := by
  by_cases h1 : c = []
  · exact .inl (.inl h1)
  by_cases h2 : c = dot
  · exact .inl (.inr h2)
  by_cases h3 : c = dotdot
  · exact .inr (.inl h3)
  exact .inr (.inr ⟨h1, h2, h3⟩)

theorem step_pushable (r : Bool) (s : List Str) (c : Str) (hs : ∀ x ∈ s, Pushable x) :
    ∀ x ∈ step r s c, Pushable x := by
  rcases comp_cases c with h | h | h
  · rw [step_skip r s c h]; exact hs
  · subst h
    cases s with
    | nil =>
      rw [step_dotdot_nil]; cases r <;> simp [Pushable, dotdot_ne_nil, dotdot_ne_dot]
    | cons t s' =>
      rw [step_dotdot_cons]
      split
      · intro x hx
        simp only [List.mem_cons] at hx
        rcases hx with rfl | hx
        · exact ⟨dotdot_ne_nil, dotdot_ne_dot⟩
        · exact hs x (by simpa using hx)
      · intro x hx; exact hs x (by simp [hx])
  · rw [step_norm r s c h]
    intro x hx
    simp only [List.mem_cons] at hx
    rcases hx with rfl | hx
    · exact ⟨h.1, h.2.1⟩
    · exact hs x hx

theorem foldl_step_pushable (r : Bool) (B : List Str) (s : List Str) (hs : ∀ x ∈ s, Pushable x) :
    ∀ x ∈ B.foldl (step r) s, Pushable x := by
  induction B generalizing s with
  | nil => exact hs
  | cons c B ih => exact ih _ (step_pushable r s c hs)

/-- every component on the stack comes from the input or the initial stack -/
theorem step_mem (r : Bool) (s : List Str) (c x : Str) (hx : x ∈ step r s c) : x ∈ s ∨ x = c := by
  rcases comp_cases c with h | h | h
  · rw [step_skip r s c h] at hx; exact .inl hx
  · subst h
    cases s with
    | nil =>
      rw [step_dotdot_nil] at hx
      cases r <;> simp at hx
      exact .inr hx
    | cons t s' =>
      rw [step_dotdot_cons] at hx
      split at hx
      · simp only [List.mem_cons] at hx
        rcases hx with rfl | hx
        · exact .inr rfl
        · exact .inl (by simpa using hx)
      · exact .inl (by simp [hx])
  · rw [step_norm r s c h] at hx
    simp only [List.mem_cons] at hx
    rcases hx with rfl | hx
    · exact .inr rfl
    · exact .inl hx

theorem foldl_step_mem (r : Bool) (B : List Str) (s : List Str) (x : Str) (hx : x ∈ B.foldl (step r) s) :
    x ∈ s ∨ x ∈ B := by
  induction B generalizing s with
  | nil => exact .inl hx
  | cons c B ih =>
    rcases ih _ hx with h | h
    · rcases step_mem r s c x h with h | h
      · exact .inl h
      · exact .inr (by simp [h])
    · exact .inr (by simp [h])

theorem rev_ind {α : Type} {P : List α → Prop} (h0 : P []) (h1 : ∀ l a, P l → P (l ++ [a])) : ∀ l, P l := by
  intro l
  have : ∀ l' : List α, P l'.reverse := by
    intro l'
    induction l' with
    | nil => simpa using h0
    | cons a l ih => simpa using h1 _ a ih
  simpa using this l.reverse

/-- **re-reading a relative normal form**: feeding the cleaned (relative-mode) stack of `B` to any
machine state is the same as feeding `B` itself -/
theorem foldl_step_renorm (r : Bool) (B : List Str) (s : List Str) :
    ((B.foldl (step false) []).reverse).foldl (step r) s = B.foldl (step r) s := by
  induction B using rev_ind with
  | h0 => rfl
  | h1 B' c ih =>
    simp only [List.foldl_append, List.foldl_cons, List.foldl_nil]
    have hp : ∀ x ∈ B'.foldl (step false) [], Pushable x :=
      foldl_step_pushable false B' [] (by simp)
    rcases comp_cases c with h | h | h
    · rw [step_skip false _ c h, step_skip r _ c h, ih]
    · subst h
      cases hN : B'.foldl (step false) [] with
      | nil =>
        rw [hN] at ih
        simp only [List.reverse_nil, List.foldl_nil] at ih
        rw [step_dotdot_nil]
        simp only [Bool.false_eq_true, if_false, List.reverse_cons, List.reverse_nil, List.nil_append,
          List.foldl_cons, List.foldl_nil, ← ih]
      | cons t rest =>
        rw [hN] at ih hp
        rw [step_dotdot_cons]
        by_cases ht : t = dotdot
        · simp only [ht, if_true]
          rw [← ih]
          simp only [List.reverse_cons, List.foldl_append, List.foldl_cons, List.foldl_nil, ht]
        · simp only [ht, if_false]
          rw [← ih]
          simp only [List.reverse_cons, List.foldl_append, List.foldl_cons, List.foldl_nil]
          have htp := hp t (by simp)
          rw [step_norm r _ t ⟨htp.1, htp.2, ht⟩, step_dotdot_cons]
          simp [ht]
    · rw [step_norm false _ c h, step_norm r _ c h, ← ih]
      simp only [List.reverse_cons, List.foldl_append, List.foldl_cons, List.foldl_nil]
      rw [step_norm r _ c h]

/-- shape of every reachable stack (top first): normal components above a block of `..`,
the block being empty in rooted mode -/
def Valid (r : Bool) (s : List Str) : Prop :=
  ∃ (k : Nat) (ns : List Str), s = ns ++ List.replicate k dotdot ∧ (∀ c ∈ ns, Norm c) ∧ (r = true → k = 0)

theorem valid_nil (r : Bool) : Valid r [] := ⟨0, [], by simp, by simp, by simp⟩

theorem valid_step (r : Bool) (s : List Str) (c : Str) (hv : Valid r s) : Valid r (step r s c) := by
  obtain ⟨k, ns, rfl, hn, hr⟩ := hv
  rcases comp_cases c with h | h | h
  · rw [step_skip r _ c h]; exact ⟨k, ns, rfl, hn, hr⟩
  · subst h
    cases ns with
    | nil =>
      cases k with
      | zero =>
        simp only [List.replicate_zero, List.append_nil, step_dotdot_nil]
        cases r
        · exact ⟨1, [], by simp [List.replicate], by simp, by simp⟩
        · exact valid_nil true
      | succ k =>
        have hrf : r = false := by
          cases r
          · rfl
          · exact absurd (hr rfl) (by simp)
        subst hrf
        simp only [List.nil_append, List.replicate_succ, step_dotdot_cons, if_true]
        exact ⟨k + 2, [], by simp [List.replicate_succ], by simp, by simp⟩
    | cons t ns' =>
      have ht := hn t (by simp)
      simp only [List.cons_append, step_dotdot_cons, ht.2.2, if_false]
      exact ⟨k, ns', rfl, fun c hc => hn c (by simp [hc]), hr⟩
  · rw [step_norm r _ c h]
    refine ⟨k, c :: ns, by simp, ?_, hr⟩
    intro x hx
    simp only [List.mem_cons] at hx
    rcases hx with rfl | hx
    · exact h
    · exact hn x hx

theorem valid_foldl (r : Bool) (B : List Str) (s : List Str) (hv : Valid r s) : Valid r (B.foldl (step r) s) := by
  induction B generalizing s with
  | nil => exact hv
  | cons c B ih => exact ih _ (valid_step r s c hv)

theorem foldl_step_norms (r : Bool) (ns : List Str) (s : List Str) (hn : ∀ c ∈ ns, Norm c) :
    ns.foldl (step r) s = ns.reverse ++ s := by
  induction ns generalizing s with
  | nil => simp
  | cons c ns ih =>
    simp only [List.foldl_cons]
    rw [step_norm r s c (hn c (by simp)), ih _ (fun x hx => hn x (by simp [hx]))]
    simp

theorem foldl_step_dotdots (k : Nat) : (List.replicate k dotdot).foldl (step false) [] = List.replicate k dotdot := by
  suffices h : ∀ j, (List.replicate k dotdot).foldl (step false) (List.replicate j dotdot) = List.replicate (k + j) dotdot by
    simpa using h 0
  induction k with
  | zero => intro j; simp
  | succ k ih =>
    intro j
    simp only [List.replicate_succ, List.foldl_cons]
    have : step false (List.replicate j dotdot) dotdot = List.replicate (j + 1) dotdot := by
      cases j with
      | zero => simp [step_dotdot_nil]
      | succ j => simp [List.replicate_succ, step_dotdot_cons]
    rw [this, ih (j + 1)]
    congr 1
    omega

/-- **re-reading a normal form in its own mode** gives the same stack -/
theorem foldl_step_valid (r : Bool) (s : List Str) (hv : Valid r s) : s.reverse.foldl (step r) [] = s := by
  obtain ⟨k, ns, rfl, hn, hr⟩ := hv
  simp only [List.reverse_append, List.reverse_replicate, List.foldl_append]
  cases r with
  | true =>
    have : k = 0 := hr rfl
    subst this
    simp only [List.replicate_zero, List.foldl_nil, List.append_nil]
    rw [foldl_step_norms true ns.reverse [] (by simpa using hn)]
    simp
  | false =>
    rw [foldl_step_dotdots k, foldl_step_norms false ns.reverse _ (by simpa using hn)]
    simp

/-! ### clean -/

theorem isAbs_cons_slash (p : Str) : isAbs ('/' :: p) = true := by simp [isAbs]

theorem isAbs_append (x y : Str) (hx : x ≠ []) : isAbs (x ++ y) = isAbs x := by
  cases x with
  | nil => exact absurd rfl hx
  | cons a as => simp [isAbs]

theorem cleanStack_valid (p : Str) : Valid (isAbs p) (cleanStack p) :=
  valid_foldl _ _ _ (valid_nil _)

theorem cleanStack_noSlash (p : Str) : ∀ c ∈ cleanStack p, '/' ∉ c := by
  intro c hc
  rcases foldl_step_mem _ _ _ c hc with h | h
  · simp at h
  · exact splitSlash_noSlash p c h

theorem valid_head_not_slash {r : Bool} {s : List Str} (hv : Valid r s) (hs : ∀ c ∈ s, '/' ∉ c)
    (hne : s ≠ []) : isAbs (joinSlash s.reverse) = false := by
  -- the first rendered component is the bottom of the stack: non-empty and slash-free
  have hp : ∀ c ∈ s, c ≠ [] := by
    obtain ⟨k, ns, rfl, hn, _⟩ := hv
    intro c hc
    simp only [List.mem_append, List.mem_replicate] at hc
    rcases hc with h | h
    · exact (hn c h).1
    · rw [h.2]; exact dotdot_ne_nil
  have hrev : s.reverse ≠ [] := by simpa using hne
  cases hl : s.reverse with
  | nil => exact absurd hl hrev
  | cons a rest =>
    have ha : a ∈ s := by
      have : a ∈ s.reverse := by rw [hl]; simp
      simpa using this
    have hane := hp a ha
    have has := hs a ha
    cases a with
    | nil => exact absurd rfl hane
    | cons ch at' =>
      have hch : ch ≠ '/' := by
        intro e; apply has; simp [e]
      cases rest with
      | nil => simp [joinSlash, isAbs, hch]
      | cons b r' => simp [joinSlash, isAbs, hch]

theorem render_ne_nil (r : Bool) (l : List Str) (hl : ∀ c ∈ l, c ≠ []) : render r l ≠ [] := by
  unfold render
  cases r with
  | true => simp
  | false =>
    simp only [Bool.false_eq_true, if_false]
    split
    · simp [dot]
    · rename_i hne
      cases l with
      | nil => exact absurd rfl hne
      | cons a rest =>
        have := hl a (by simp)
        cases rest with
        | nil => simpa [joinSlash] using this
        | cons b r' => simp [joinSlash, this]

theorem valid_ne_nil {r : Bool} {s : List Str} (hv : Valid r s) : ∀ c ∈ s, c ≠ [] := by
  obtain ⟨k, ns, rfl, hn, _⟩ := hv
  intro c hc
  simp only [List.mem_append, List.mem_replicate] at hc
  rcases hc with h | h
  · exact (hn c h).1
  · rw [h.2]; exact dotdot_ne_nil

theorem clean_ne_nil (p : Str) : clean p ≠ [] := by
  unfold clean
  apply render_ne_nil
  intro c hc
  exact valid_ne_nil (cleanStack_valid p) c (by simpa using hc)

/-- Clean keeps a path absolute / relative -/
theorem isAbs_clean (p : Str) : isAbs (clean p) = isAbs p := by
  unfold clean render
  cases h : isAbs p with
  | true => simp [isAbs]
  | false =>
    simp only [Bool.false_eq_true, if_false]
    split
    · simp [isAbs, dot]
    · rename_i hne
      have hv := cleanStack_valid p
      rw [h] at hv
      exact valid_head_not_slash hv (cleanStack_noSlash p) (by simpa using hne)

/-- the machine reads the rendering of a reachable stack back to that stack -/
theorem foldl_render (r : Bool) (s : List Str) (hv : Valid r s) (hs : ∀ c ∈ s, '/' ∉ c) :
    (splitSlash (render r s.reverse)).foldl (step r) [] = s := by
  unfold render
  cases r with
  | true =>
    simp only [if_true, splitSlash_cons_slash, List.foldl_cons]
    rw [step_skip true [] [] (.inl rfl)]
    by_cases hne : s = []
    · subst hne; simp [joinSlash, splitSlash, step]
    · rw [splitSlash_joinSlash _ (by simpa using hne) (by simpa using hs)]
      exact foldl_step_valid true s hv
  | false =>
    simp only [Bool.false_eq_true, if_false]
    by_cases hne : s = []
    · subst hne; simp [splitSlash, dot, step]
    · have : s.reverse ≠ [] := by simpa using hne
      simp only [this, if_false]
      rw [splitSlash_joinSlash _ this (by simpa using hs)]
      exact foldl_step_valid false s hv

theorem cleanStack_clean (p : Str) : cleanStack (clean p) = cleanStack p := by
  have h1 : isAbs (clean p) = isAbs p := isAbs_clean p
  unfold cleanStack
  rw [h1]
  unfold clean
  exact foldl_render (isAbs p) (cleanStack p) (cleanStack_valid p) (cleanStack_noSlash p)

/-- `filepath.Clean` is idempotent -/
theorem clean_idem (p : Str) : clean (clean p) = clean p := by
  have h1 : isAbs (clean p) = isAbs p := isAbs_clean p
  have h2 := cleanStack_clean p
  show render (isAbs (clean p)) (cleanStack (clean p)).reverse = clean p
  rw [h1, h2]
  rfl

/-- cleaning the left part first changes nothing: `Clean(Clean(x) + "/" + c) = Clean(x + "/" + c)` -/
theorem clean_left (x c : Str) (hx : x ≠ []) : clean (clean x ++ '/' :: c) = clean (x ++ '/' :: c) := by
  have hcx := clean_ne_nil x
  have h1 : isAbs (clean x ++ '/' :: c) = isAbs (x ++ '/' :: c) := by
    rw [isAbs_append _ _ hcx, isAbs_append _ _ hx, isAbs_clean]
  have h2 : cleanStack (clean x ++ '/' :: c) = cleanStack (x ++ '/' :: c) := by
    unfold cleanStack
    rw [h1, splitSlash_append, splitSlash_append, List.foldl_append, List.foldl_append, isAbs_append _ _ hx]
    have := cleanStack_clean x
    unfold cleanStack at this
    rw [isAbs_clean] at this
    rw [this]
  show render (isAbs (clean x ++ '/' :: c)) (cleanStack (clean x ++ '/' :: c)).reverse = _
  rw [h1, h2]
  rfl

/-- cleaning a *relative* right part first changes nothing: `Clean(x + "/" + Clean(y)) = Clean(x + "/" + y)` -/
theorem foldl_clean_rel (r : Bool) (s : List Str) (y : Str) (hy : isAbs y = false) :
    (splitSlash (clean y)).foldl (step r) s = (splitSlash y).foldl (step r) s := by
  have hv := cleanStack_valid y
  have hns := cleanStack_noSlash y
  rw [← foldl_step_renorm r (splitSlash y) s]
  have hc : clean y = render false (cleanStack y).reverse := by unfold clean; rw [hy]
  have hcs : cleanStack y = (splitSlash y).foldl (step false) [] := by unfold cleanStack; rw [hy]
  rw [hc, ← hcs]
  unfold render
  simp only [Bool.false_eq_true, if_false]
  by_cases hne : cleanStack y = []
  · simp [hne, splitSlash, dot, step]
  · have hne' : (cleanStack y).reverse ≠ [] := by simpa using hne
    simp only [hne', if_false]
    rw [splitSlash_joinSlash _ hne' (by simpa using hns)]

theorem clean_right (x y : Str) (hx : x ≠ []) (hy : isAbs y = false) :
    clean (x ++ '/' :: clean y) = clean (x ++ '/' :: y) := by
  have h1 : isAbs (x ++ '/' :: clean y) = isAbs (x ++ '/' :: y) := by
    rw [isAbs_append _ _ hx, isAbs_append _ _ hx]
  have h2 : cleanStack (x ++ '/' :: clean y) = cleanStack (x ++ '/' :: y) := by
    unfold cleanStack
    rw [h1, splitSlash_append, splitSlash_append, List.foldl_append, List.foldl_append]
    exact foldl_clean_rel _ _ y hy
  show render (isAbs (x ++ '/' :: clean y)) (cleanStack (x ++ '/' :: clean y)).reverse = _
  rw [h1, h2]
  rfl

/-- a leading `./` on the right part is invisible to Clean -/
theorem clean_dot_slash (x j : Str) (hx : x ≠ []) : clean (x ++ '/' :: '.' :: '/' :: j) = clean (x ++ '/' :: j) := by
  have h1 : isAbs (x ++ '/' :: '.' :: '/' :: j) = isAbs (x ++ '/' :: j) := by
    rw [isAbs_append _ _ hx, isAbs_append _ _ hx]
  have h2 : cleanStack (x ++ '/' :: '.' :: '/' :: j) = cleanStack (x ++ '/' :: j) := by
    unfold cleanStack
    rw [h1, splitSlash_append, splitSlash_append]
    have : splitSlash ('.' :: '/' :: j) = dot :: splitSlash j := by
      have := splitSlash_append ['.'] j
      simpa [splitSlash, dot] using this
    rw [this, List.foldl_append, List.foldl_append, List.foldl_cons, step_skip _ _ dot (.inr rfl)]
  show render (isAbs (x ++ '/' :: '.' :: '/' :: j)) (cleanStack (x ++ '/' :: '.' :: '/' :: j)).reverse = _
  rw [h1, h2]
  rfl

/-! ### Clean never produces `//` -/

/-- the string contains two consecutive slashes -/
def hasDS : Str → Bool
  | a :: b :: r => (a = '/' && b = '/') || hasDS (b :: r)
  | _ => false

theorem hasDS_cons_of (c : Char) (x : Str) (h : hasDS x = true) : hasDS (c :: x) = true := by
  cases x with
  | nil => simp [hasDS] at h
  | cons b r => simp [hasDS, h]

theorem hasDS_noSlash_append (a t : Str) (ha : '/' ∉ a) :
    hasDS (a ++ '/' :: t) = ((t.head? = some '/') || hasDS t) := by
  induction a with
  | nil =>
    cases t with
    | nil => simp [hasDS]
    | cons b r => simp [hasDS]
  | cons c a' ih =>
    simp only [List.mem_cons, not_or] at ha
    have hc : c ≠ '/' := fun e => ha.1 e.symm
    rw [← ih ha.2]
    cases a' with
    | nil => simp [hasDS, hc]
    | cons d r => simp [hasDS, hc]

theorem hasDS_noSlash (a : Str) (ha : '/' ∉ a) : hasDS a = false := by
  induction a with
  | nil => rfl
  | cons c a' ih =>
    simp only [List.mem_cons, not_or] at ha
    have hc : c ≠ '/' := fun e => ha.1 e.symm
    cases a' with
    | nil => simp [hasDS]
    | cons d r => simp [hasDS, hc, ih ha.2]

theorem joinSlash_head_not_slash (l : List Str) (hne : ∀ c ∈ l, c ≠ []) (hs : ∀ c ∈ l, '/' ∉ c) :
    (joinSlash l).head? ≠ some '/' := by
  cases l with
  | nil => simp [joinSlash]
  | cons a r =>
    have ha := hne a (by simp)
    have has := hs a (by simp)
    cases a with
    | nil => exact absurd rfl ha
    | cons ch at' =>
      have hch : ch ≠ '/' := by intro e; apply has; simp [e]
      cases r with
      | nil => simp [joinSlash, hch]
      | cons b r' => simp [joinSlash, hch]

theorem hasDS_joinSlash (l : List Str) (hne : ∀ c ∈ l, c ≠ []) (hs : ∀ c ∈ l, '/' ∉ c) :
    hasDS (joinSlash l) = false := by
  induction l with
  | nil => rfl
  | cons a r ih =>
    cases r with
    | nil => simpa [joinSlash] using hasDS_noSlash a (hs a (by simp))
    | cons b r' =>
      simp only [joinSlash]
      rw [hasDS_noSlash_append a _ (hs a (by simp))]
      have h1 := joinSlash_head_not_slash (b :: r') (fun c hc => hne c (by simp [hc])) (fun c hc => hs c (by simp [hc]))
      have h2 := ih (fun c hc => hne c (by simp [hc])) (fun c hc => hs c (by simp [hc]))
      simp [h1, h2]

theorem hasDS_clean (p : Str) : hasDS (clean p) = false := by
  have hv := cleanStack_valid p
  have hne : ∀ c ∈ (cleanStack p).reverse, c ≠ [] := fun c hc => valid_ne_nil hv c (by simpa using hc)
  have hs : ∀ c ∈ (cleanStack p).reverse, '/' ∉ c := fun c hc => cleanStack_noSlash p c (by simpa using hc)
  unfold clean render
  cases isAbs p with
  | true =>
    simp only [if_true]
    have h1 := joinSlash_head_not_slash _ hne hs
    have h2 := hasDS_joinSlash _ hne hs
    cases hj : joinSlash (cleanStack p).reverse with
    | nil => simp [hasDS]
    | cons b r =>
      rw [hj] at h1 h2
      simp only [List.head?_cons, ne_eq, Option.some.injEq] at h1
      simp [hasDS, h1, h2]
  | false =>
    simp only [Bool.false_eq_true, if_false]
    split
    · simp [hasDS, dot]
    · exact hasDS_joinSlash _ hne hs

theorem hasDS_of_index (x : Str) : ∀ i, (indexOfGo [':', '/', '/'] x i).isSome = true → hasDS x = true := by
  induction x with
  | nil => intro i h; simp [indexOfGo] at h
  | cons c cs ih =>
    intro i h
    simp only [indexOfGo] at h
    split at h
    · rename_i hp
      cases cs with
      | nil => simp [List.isPrefixOf] at hp
      | cons d ds =>
        cases ds with
        | nil => simp [List.isPrefixOf] at hp
        | cons e es =>
          simp only [List.isPrefixOf, Bool.and_eq_true, beq_iff_eq] at hp
          obtain ⟨_, h2, h3, _⟩ := hp
          subst h2; subst h3
          simp [hasDS]
    · exact hasDS_cons_of c cs (ih (i + 1) h)

theorem schemeSep_eq : schemeSep = [':', '/', '/'] := by decide

theorem hasDS_of_scheme (x : Str) (h : containsStr schemeSep x = true) : hasDS x = true := by
  rw [schemeSep_eq] at h
  exact hasDS_of_index x 0 (by simpa [containsStr, indexOf] using h)

theorem no_scheme_of_noDS (x : Str) (h : hasDS x = false) : containsStr schemeSep x = false := by
  cases hc : containsStr schemeSep x with
  | false => rfl
  | true => rw [hasDS_of_scheme x hc] at h; cases h

/-! ### join -/

theorem join_of_ne (a b : Str) (ha : a ≠ []) : join a b = clean (a ++ '/' :: b) := by
  simp [join, ha]

theorem isAbs_join (a b : Str) (ha : isAbs a = true) : isAbs (join a b) = true := by
  have hne : a ≠ [] := by intro e; simp [e, isAbs] at ha
  rw [join_of_ne a b hne, isAbs_clean, isAbs_append _ _ hne, ha]

theorem isAbs_join_rel (a b : Str) (ha : a ≠ []) (hr : isAbs a = false) : isAbs (join a b) = false := by
  rw [join_of_ne a b ha, isAbs_clean, isAbs_append _ _ ha, hr]

theorem join_ne_nil (a b : Str) (ha : a ≠ []) : join a b ≠ [] := by
  rw [join_of_ne a b ha]; exact clean_ne_nil _

/-- `Join(Join(a, b), c) = Join(a, Join(b, c))` for a non-empty relative `b` -/
theorem join_assoc (a b c : Str) (ha : a ≠ []) (hb : b ≠ []) (hbr : isAbs b = false) :
    join (join a b) c = join a (join b c) := by
  rw [join_of_ne a b ha, join_of_ne _ c (clean_ne_nil _), join_of_ne b c hb, join_of_ne a _ ha]
  rw [clean_left _ _ (by simp), clean_right _ _ ha (by rw [isAbs_append _ _ hb]; exact hbr)]
  simp [List.append_assoc]

end CV.Paths
