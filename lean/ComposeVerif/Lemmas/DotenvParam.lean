import ComposeVerif.Lemmas.DotenvR5
/-!
# C18 round 5 — parametricity of the scanner in the code points it does not look at

The model classifies Latin-1 (ASCII, U+0085, U+00A0, U+00B2, U+00E9; octal escapes produce U+0000–U+00FF), U+4E16,
U+FEFF (and U+017F, U+212A, which the C07 template scanner's `(?i)[a-z]` accepts) exactly and treats every other code point as *generic*.  A renaming `φ` of code points that fixes the special ones and is injective
cannot be observed by any character test the scanner makes; the lemmas below say that function by function
(`f (s.map φ) = (f s)` mapped) for the statement scanner, the `export` prefix, the key scanner and key
trimming (`locateKey`), the quoted-value loop, escape processing and the unquoted cut.
-/
namespace CV.Dotenv
open CV CV.Template

/-- the code points some test of the model mentions -/
def special (c : Char) : Bool :=
  decide (c.toNat < 256) || c == '\u4e16' || c == '\uFEFF' || c == '\u017f' || c == '\u212a'

/-- a renaming of the generic code points -/
structure Renaming (φ : Char → Char) : Prop where
  inj : ∀ a b, φ a = φ b → a = b
  fix : ∀ c, special c = true → φ c = c

namespace Renaming
variable {φ : Char → Char} (R : Renaming φ)
include R

/-- a test that holds on special code points only gives the same answer before and after the renaming -/
theorem pres (p : Char → Bool) (hp : ∀ c, p c = true → special c = true) (c : Char) : p (φ c) = p c := by
  cases h : p c
  · cases h' : p (φ c)
    · rfl
    · have hs := hp _ h'
      have h1 : φ (φ c) = φ c := R.fix _ hs
      have h2 : φ c = c := R.inj _ _ h1
      rw [h2, h] at h'; cases h'
  · rw [R.fix c (hp c h)]; exact h

theorem lit (a : Char) (ha : special a = true) (c : Char) : (φ c == a) = (c == a) :=
  R.pres (· == a) (fun c h => by rw [beq_iff_eq] at h; rw [h]; exact ha) c

end Renaming

def Err.ren (φ : Char → Char) : Template.Err → Template.Err
  | .invalid => .invalid
  | .required v m => .required (v.map φ) (m.map φ)

def Out.ren (φ : Char → Char) : Template.Out → Template.Out
  | .ok s => .ok (s.map φ)
  | .err e => .err (Err.ren φ e)
  | .panic p => .panic p

def PErr.ren (φ : Char → Char) : PErr → PErr
  | .tmpl e => .tmpl (Err.ren φ e)
  | .unexpectedChar => .unexpectedChar
  | .keySpace => .keySpace
  | .unterminated => .unterminated
  | .zeroLength => .zeroLength

def Map.ren (φ : Char → Char) (m : Map) : Map := m.map fun kv => (kv.1.map φ, kv.2.map φ)

def POut.ren (φ : Char → Char) : POut → POut
  | .ok m => .ok (Map.ren φ m)
  | .err e m => .err (PErr.ren φ e) (Map.ren φ m)
  | .panic s => .panic s

/-- the renamed lookup answers the renamed name with the renamed value -/
def EnvRel (φ : Char → Char) (lk lk' : Env) : Prop := ∀ k, lk' (k.map φ) = (lk k).map (List.map φ)

/-- the corresponding statement about the C07 template model (its scanner tests ASCII only); NOT proved this round —
    it is the visible hypothesis of `parseLoop_map` -/
def SubstCommutes (φ : Char → Char) : Prop :=
  ∀ env env', EnvRel φ env env' → ∀ v, Template.subst env' (v.map φ) = Out.ren φ (Template.subst env v)

def Stage.mapBoth {α β : Type} (g : PErr → PErr) (f : α → β) : Stage α → Stage β
  | .error s => .error s
  | .ok (.error e) => .ok (.error (g e))
  | .ok (.ok a) => .ok (.ok (f a))

theorem special_of_lt {c : Char} (h : c.toNat < 128) : special c = true := by
  have : c.toNat < 256 := by omega
  simp [special, this]

theorem isAlphanum_special {c : Char} (h : c.isAlphanum = true) : special c = true := by
  apply special_of_lt
  simp only [Char.isAlphanum, Char.isAlpha, Char.isUpper, Char.isLower, Char.isDigit, Bool.or_eq_true, Bool.and_eq_true,
    decide_eq_true_eq, UInt32.le_iff_toNat_le, ge_iff_le] at h
  have : c.toNat = c.val.toNat := rfl
  rcases h with (h | h) | h <;> (rw [this]; have := h.2; simp at this; omega)

theorem isSpaceU_special {c : Char} (h : isSpaceU c = true) : special c = true := by
  simp only [isSpaceU, Bool.or_eq_true, beq_iff_eq] at h
  rcases h with ((((((h | h) | h) | h) | h) | h) | h) | h <;> (rw [h]; decide)

theorem isSpaceNB_special {c : Char} (h : isSpaceNB c = true) : special c = true :=
  isSpaceU_special (isSpaceNB_isSpaceU h)

theorem isSpaceRE_special {c : Char} (h : isSpaceRE c = true) : special c = true :=
  isSpaceU_special (isSpaceRE_isSpaceU h)

theorem isLetterOrNumber_special {c : Char} (h : isLetterOrNumber c = true) : special c = true := by
  simp only [isLetterOrNumber, Bool.or_eq_true, beq_iff_eq] at h
  rcases h with ((h | h) | h) | h
  · exact isAlphanum_special h
  all_goals (rw [h]; decide)

theorem isKeyRune_special {c : Char} (h : isKeyRune c = true) : special c = true := by
  simp only [isKeyRune, Bool.or_eq_true, beq_iff_eq] at h
  rcases h with ((((h | h) | h) | h) | h) | h
  · rw [h]; decide
  · rw [h]; decide
  · rw [h]; decide
  · rw [h]; decide
  · rw [h]; decide
  · exact isLetterOrNumber_special h

section
variable {φ : Char → Char} (R : Renaming φ)
include R

theorem isSpaceU_map (c : Char) : isSpaceU (φ c) = isSpaceU c := R.pres _ (fun _ h => isSpaceU_special h) c
theorem isSpaceNB_map (c : Char) : isSpaceNB (φ c) = isSpaceNB c := R.pres _ (fun _ h => isSpaceNB_special h) c
theorem isSpaceRE_map (c : Char) : isSpaceRE (φ c) = isSpaceRE c := R.pres _ (fun _ h => isSpaceRE_special h) c
theorem isKeyRune_map (c : Char) : isKeyRune (φ c) = isKeyRune c := R.pres _ (fun _ h => isKeyRune_special h) c

/-! ### list helpers -/

theorem indexFunc_map (p : Char → Bool) (hp : ∀ c, p (φ c) = p c) : ∀ (s : Str) (i : Nat),
    indexFunc p (s.map φ) i = indexFunc p s i
  | [], _ => rfl
  | c :: cs, i => by
    simp only [List.map_cons, indexFunc, hp]
    rw [indexFunc_map p hp cs (i + 1)]

theorem dropWhile_map (p : Char → Bool) (hp : ∀ c, p (φ c) = p c) : ∀ s : Str,
    (s.map φ).dropWhile p = (s.dropWhile p).map φ
  | [] => rfl
  | c :: cs => by
    simp only [List.map_cons, List.dropWhile_cons, hp]
    split
    · exact dropWhile_map p hp cs
    · rfl

theorem trimRightU_map (s : Str) : trimRightU (s.map φ) = (trimRightU s).map φ := by
  unfold trimRightU
  rw [← List.map_reverse, dropWhile_map R isSpaceU (isSpaceU_map R), List.map_reverse]

theorem sliceFrom_map (s : Str) (i : Nat) : sliceFrom (s.map φ) i = (sliceFrom s i).map (List.map φ) := by
  unfold sliceFrom
  simp only [List.length_map]
  split
  · simp [List.map_drop]
  · rfl

theorem sliceTo_map (s : Str) (i : Nat) : sliceTo (s.map φ) i = (sliceTo s i).map (List.map φ) := by
  unfold sliceTo
  simp only [List.length_map]
  split
  · simp [List.map_take]
  · rfl

/-- a prefix test against a word of special code points -/
theorem isPrefixOf_map : ∀ (w s : Str), (∀ c ∈ w, special c = true) → w.isPrefixOf (s.map φ) = w.isPrefixOf s
  | [], _, _ => by simp
  | _ :: _, [], _ => by simp
  | a :: w, c :: s, h => by
    simp only [List.map_cons, List.isPrefixOf_cons₂]
    have h1 : (a == φ c) = (a == c) := by
      have := R.lit a (h a (List.mem_cons_self ..)) c
      rw [Bool.beq_comm] at this; rw [this, Bool.beq_comm]
    rw [h1, isPrefixOf_map w s (fun x hx => h x (List.mem_cons_of_mem _ hx))]

/-! ### `getStatementStart` -/

theorem stmtStart_map : ∀ (n : Nat) (s : Str),
    stmtStart n (s.map φ) = (stmtStart n s).map (List.map φ)
  | 0, _ => rfl
  | n + 1, s => by
    unfold stmtStart
    rw [indexFunc_map R (fun c => !isSpaceU c) (fun c => by simp only [isSpaceU_map R]) s 0]
    cases indexFunc (fun c => !isSpaceU c) s 0 with
    | none => rfl
    | some pos =>
      simp only
      rw [sliceFrom_map R]
      cases sliceFrom s pos with
      | none => rfl
      | some s1 =>
        simp only [Option.map_some]
        cases s1 with
        | nil => rfl
        | cons c r =>
          simp only [List.map_cons, List.getElem?_cons_zero]
          have hc : (φ c != '#') = (c != '#') := by
            simp only [bne, R.lit '#' (by decide) c]
          rw [hc]
          split
          · rfl
          · rw [← List.map_cons, indexFunc_map R (· == '\n') (fun c => R.lit '\n' (by decide) c) (c :: r) 0]
            cases indexFunc (· == '\n') (c :: r) 0 with
            | none => rfl
            | some p =>
              simp only
              rw [sliceFrom_map R]
              cases sliceFrom (c :: r) p with
              | none => rfl
              | some s2 =>
                simp only [Option.map_some]
                exact stmtStart_map n s2

/-! ### the `export` prefix -/

theorem dropExport_map (s : Str) : dropExport (s.map φ) = (dropExport s).map φ := by
  unfold dropExport
  rw [isPrefixOf_map R exportKw s (by decide)]
  split
  · rw [← List.map_drop]
    cases s.drop 6 with
    | nil => rfl
    | cons c r =>
      simp only [List.map_cons, isSpaceRE_map R]
      split
      · rw [← List.map_cons, dropWhile_map R isSpaceNB (isSpaceNB_map R)]
      · rfl
  · rfl

/-! ### the key scanner -/

theorem scanKey_map : ∀ (s : Str) (i : Nat), scanKey (s.map φ) i = scanKey s i
  | [], _ => rfl
  | c :: cs, i => by
    simp only [List.map_cons, scanKey, isSpaceNB_map R, isKeyRune_map R, R.lit '=' (by decide) c, R.lit ':' (by decide) c,
      R.lit '\n' (by decide) c]
    rw [scanKey_map cs (i + 1)]

/-- `locateKeyName` commutes with the renaming: same outcome class, same `inherited` flag, key and rest renamed -/
theorem locateKey_map (s : Str) :
    locateKey (s.map φ) = Stage.mapBoth (PErr.ren φ) (fun r => (r.1.map φ, r.2.1.map φ, r.2.2)) (locateKey s) := by
  unfold locateKey
  simp only
  rw [dropExport_map R, scanKey_map R]
  cases scanKey (dropExport s) 0 with
  | bad =>
    simp only
    have h1 := splitNL_ne_nil (dropExport s)
    have h2 := splitNL_ne_nil ((dropExport s).map φ)
    cases h3 : splitNL (dropExport s) with
    | nil => exact absurd h3 h1
    | cons a b =>
      cases h4 : splitNL ((dropExport s).map φ) with
      | nil => exact absurd h4 h2
      | cons a' b' => rfl
  | noDelim =>
    simp only [List.isEmpty_map, List.length_map]
    split
    · rfl
    · rw [show sliceFrom ((dropExport s).map φ) (dropExport s).length =
          (sliceFrom (dropExport s) (dropExport s).length).map (List.map φ) from sliceFrom_map R _ _]
      cases sliceFrom (dropExport s) (dropExport s).length with
      | none => rfl
      | some r =>
        simp only [Option.map_some, Stage.mapBoth, trimRightU_map R, dropWhile_map R isSpaceNB (isSpaceNB_map R)]
  | delim i inh =>
    simp only [List.isEmpty_map]
    rw [sliceTo_map R]
    cases sliceTo (dropExport s) i with
    | none => rfl
    | some key =>
      simp only [Option.map_some]
      split
      · rfl
      · rw [sliceFrom_map R]
        cases sliceFrom (dropExport s) (i + 1) with
        | none => rfl
        | some r =>
          simp only [Option.map_some, Stage.mapBoth, trimRightU_map R, dropWhile_map R isSpaceNB (isSpaceNB_map R)]


/-! ### quoted values -/

theorem map_fix (l : Str) (h : ∀ c ∈ l, special c = true) : l.map φ = l := by
  induction l with
  | nil => rfl
  | cons c r ih =>
    rw [List.map_cons, R.fix c (h c (List.mem_cons_self ..)), ih (fun x hx => h x (List.mem_cons_of_mem _ hx))]

def QScan.ren (φ : Char → Char) : QScan → QScan
  | .closed chars i => .closed (chars.map φ) i
  | .unterminated => .unterminated
  | .oob => .oob

theorem quotedLoop_map (q : Char) (hq : special q = true) (src : Str) : ∀ (n i : Nat) (esc : Bool) (acc : Str),
    quotedLoop q (src.map φ) n i esc (acc.map φ) = QScan.ren φ (quotedLoop q src n i esc acc)
  | 0, _, _, _ => rfl
  | n + 1, i, esc, acc => by
    unfold quotedLoop
    rw [List.getElem?_map]
    cases src[i]? with
    | none => rfl
    | some c =>
      have hq' : (φ c != q) = (c != q) := by simp only [bne, R.lit q hq c]
      have hb : (φ c == '\\') = (c == '\\') := R.lit '\\' (by decide) c
      have hbs : φ '\\' = '\\' := R.fix _ (by decide)
      simp only [Option.map_some, hq', hb]
      split
      · split
        · exact quotedLoop_map q hq src n (i + 1) true acc
        · split
          · have := quotedLoop_map q hq src n (i + 1) false (acc ++ ['\\', c])
            simpa [hbs] using this
          · have := quotedLoop_map q hq src n (i + 1) false (acc ++ [c])
            simpa using this
      · split
        · have := quotedLoop_map q hq src n (i + 1) false (acc ++ [c])
          simpa using this
        · rfl

theorem quotePrefix_map (s : Str) : quotePrefix (s.map φ) = quotePrefix s := by
  cases s with
  | nil => rfl
  | cons c r =>
    simp only [List.map_cons, quotePrefix, R.lit '"' (by decide) c, R.lit '\'' (by decide) c]
    split
    · have h : special c = true := by
        rename_i h
        rcases Bool.or_eq_true _ _ |>.mp h with h | h <;> (rw [beq_iff_eq] at h; rw [h]; decide)
      rw [R.fix c h]
    · rfl

omit R in
theorem quotePrefix_special {s : Str} {q : Char} (h : quotePrefix s = some q) : special q = true ∧ (q = '"' ∨ q = '\'') := by
  cases s with
  | nil => cases h
  | cons c r =>
    simp only [quotePrefix] at h
    split at h
    · rename_i hc
      cases h
      rcases Bool.or_eq_true _ _ |>.mp hc with h | h <;> (rw [beq_iff_eq] at h; rw [h]; decide)
    · cases h

theorem valEndIndex_map (s : Str) : valEndIndex (s.map φ) = valEndIndex s := by
  unfold valEndIndex
  rw [indexFunc_map R (· == '\n') (fun c => R.lit '\n' (by decide) c) s 0, List.length_map]

/-! ### escape processing -/

theorem simpleEscape_map (d : Char) : simpleEscape (φ d) = simpleEscape d := by
  simp only [simpleEscape, R.lit '$' (by decide) d, R.lit 'a' (by decide) d, R.lit 'b' (by decide) d, R.lit 'f' (by decide) d,
    R.lit 'n' (by decide) d, R.lit 'r' (by decide) d, R.lit 't' (by decide) d, R.lit 'v' (by decide) d, R.lit '"' (by decide) d,
    R.lit '\\' (by decide) d]

omit R in
theorem simpleEscape_special {d : Char} {r : Str} (h : simpleEscape d = some r) : ∀ c ∈ r, special c = true := by
  unfold simpleEscape at h
  repeat (split at h; · cases h; decide)
  cases h

omit R in
theorem isDigit_special {c : Char} (h : c.isDigit = true) : special c = true := by
  apply isAlphanum_special
  simp [Char.isAlphanum, h]

theorem takeWhile_map (p : Char → Bool) (hp : ∀ c, p (φ c) = p c) : ∀ s : Str,
    (s.map φ).takeWhile p = (s.takeWhile p).map φ
  | [] => rfl
  | c :: cs => by
    simp only [List.map_cons, List.takeWhile_cons, hp]
    split
    · rw [List.map_cons, takeWhile_map p hp cs]
    · rfl

omit R in
theorem toNat_ofNat_small (v : Nat) (h : v < 256) : (Char.ofNat v).toNat = v := by
  have hv : v.isValidChar := Or.inl (by omega)
  simp [Char.ofNat, hv, Char.ofNatAux, Char.toNat]

omit R in
theorem ofNat_special (v : Nat) (h : v < 256) : special (Char.ofNat v) = true := by
  simp [special, toNat_ofNat_small v h, h]

omit R in
theorem mem_takeWhile_p {p : Char → Bool} : ∀ {l : List Char} {c : Char}, c ∈ l.takeWhile p → p c = true
  | [], _, h => by cases h
  | x :: xs, c, h => by
    rw [List.takeWhile_cons] at h
    split at h
    · rcases List.mem_cons.mp h with h1 | h1
      · rw [h1]; assumption
      · exact mem_takeWhile_p h1
    · cases h

omit R in
theorem octalRepl_special (ds : Str) (h : ∀ c ∈ ds, special c = true) : ∀ c ∈ octalRepl ds, special c = true := by
  unfold octalRepl
  split
  · rename_i hc
    simp only [Bool.and_eq_true, decide_eq_true_eq] at hc
    intro c hcm
    rw [List.mem_singleton] at hcm
    rw [hcm]
    exact ofNat_special _ (by omega)
  · intro c hcm
    rcases List.mem_cons.mp hcm with h1 | h1
    · rw [h1]; decide
    · exact h c h1

theorem expEsc_map : ∀ (n : Nat) (s : Str), expEsc n (s.map φ) = (expEsc n s).map φ
  | _, [] => by simp [expEsc]
  | skip + 1, c :: cs => by
    simp only [List.map_cons, expEsc]
    exact expEsc_map skip cs
  | 0, c :: cs => by
    simp only [List.map_cons]
    unfold expEsc
    rw [R.lit '\\' (by decide) c]
    split
    · cases cs with
      | nil => simp [R.fix '\\' (by decide)]
      | cons d ds =>
        simp only [List.map_cons, simpleEscape_map R]
        cases hse : simpleEscape d with
        | some r =>
          simp only
          rw [← List.map_cons, expEsc_map 1 (d :: ds), List.map_append, map_fix R r (simpleEscape_special hse)]
        | none =>
          simp only [R.lit '0' (by decide) d]
          split
          · have hdig : ((ds.map φ).take 3).takeWhile Char.isDigit = (ds.take 3).takeWhile Char.isDigit := by
              rw [← List.map_take, takeWhile_map R Char.isDigit (fun c => R.pres _ (fun _ h => isDigit_special h) c)]
              exact map_fix R _ (fun c hc => isDigit_special (mem_takeWhile_p hc))
            simp only [hdig]
            rw [← List.map_cons, expEsc_map _ (d :: ds), List.map_append,
              map_fix R (octalRepl _) (octalRepl_special _ (fun c hc => isDigit_special (mem_takeWhile_p hc)))]
          · rw [← List.map_cons, expEsc_map 0 (d :: ds), List.map_cons, R.fix '\\' (by decide)]
    · rw [expEsc_map 0 cs, List.map_cons]

theorem expandEscapes_map (s : Str) : expandEscapes (s.map φ) = (expandEscapes s).map φ := expEsc_map R 0 s

/-! ### `strings.Cut` with a separator of special code points -/

theorem indexOfGo_map (sep : Str) (hs : ∀ c ∈ sep, special c = true) : ∀ (s : Str) (i : Nat),
    indexOfGo sep (s.map φ) i = indexOfGo sep s i
  | [], _ => rfl
  | c :: cs, i => by
    rw [List.map_cons]
    unfold indexOfGo
    rw [← List.map_cons, isPrefixOf_map R sep (c :: cs) hs, indexOfGo_map sep hs cs (i + 1)]

theorem cut_map (sep : Str) (hs : ∀ c ∈ sep, special c = true) (s : Str) :
    cut sep (s.map φ) = ((cut sep s).1.map φ, (cut sep s).2.map φ) := by
  unfold cut indexOf
  rw [indexOfGo_map R sep hs s 0]
  cases indexOfGo sep s 0 with
  | none => rfl
  | some i => simp [List.map_take, List.map_drop]


/-! ### the map, the lookup chain, interpolation (C07 model as a hypothesis), the statement loop -/

omit R in
theorem map_ren_inj (R : Renaming φ) : ∀ (a b : Str), a.map φ = b.map φ → a = b
  | [], [], _ => rfl
  | [], _ :: _, h => by cases h
  | _ :: _, [], h => by cases h
  | x :: a, y :: b, h => by
    simp only [List.map_cons, List.cons.injEq] at h
    rw [R.inj _ _ h.1, map_ren_inj R a b h.2]

end

section
variable {φ : Char → Char} (R : Renaming φ)
include R

theorem put_ren : ∀ (m : Map) (k v : Str), put (Map.ren φ m) (k.map φ) (v.map φ) = Map.ren φ (put m k v)
  | [], _, _ => rfl
  | (k', v') :: r, k, v => by
    simp only [Map.ren, List.map_cons, put]
    by_cases h : k = k'
    · simp only [h, if_true, List.map_cons]
    · have h' : ¬ k.map φ = k'.map φ := fun e => h (map_ren_inj R _ _ e)
      simp only [h, h', if_false, List.map_cons]
      have := put_ren r k v
      simp only [Map.ren] at this
      rw [this]

theorem get_ren : ∀ (m : Map) (k : Str), get (Map.ren φ m) (k.map φ) = (get m k).map (List.map φ)
  | [], _ => rfl
  | (k', v') :: r, k => by
    simp only [Map.ren, List.map_cons, get]
    by_cases h : k = k'
    · simp only [h, if_true, Option.map_some]
    · have h' : ¬ k.map φ = k'.map φ := fun e => h (map_ren_inj R _ _ e)
      simp only [h, h', if_false]
      exact get_ren r k

theorem envOf_rel {lk lk' : Env} (h : EnvRel φ lk lk') (m : Map) : EnvRel φ (envOf lk m) (envOf lk' (Map.ren φ m)) := by
  intro k
  unfold envOf
  rw [h k]
  cases lk k with
  | some v => rfl
  | none => exact get_ren R m k

theorem expandVars_map (hT : SubstCommutes φ) {lk lk' : Env} (h : EnvRel φ lk lk') (v : Str) (m : Map) :
    expandVars (v.map φ) (Map.ren φ m) lk' = Stage.mapBoth (PErr.ren φ) (List.map φ) (expandVars v m lk) := by
  unfold expandVars
  rw [hT _ _ (envOf_rel R h m) v]
  cases Template.subst (envOf lk m) v <;> rfl

theorem extractValue_map (hT : SubstCommutes φ) {lk lk' : Env} (h : EnvRel φ lk lk') (s : Str) (m : Map) :
    extractValue (s.map φ) (Map.ren φ m) lk' =
      Stage.mapBoth (PErr.ren φ) (fun r => (r.1.map φ, r.2.map φ)) (extractValue s m lk) := by
  unfold extractValue
  rw [quotePrefix_map R]
  cases hqp : quotePrefix s with
  | none =>
    simp only
    rw [cut_map R ['\n'] (by decide) s]
    simp only
    rw [cut_map R [' ', '#'] (by decide), trimRightU_map R, expandVars_map R hT h]
    cases expandVars (trimRightU (cut [' ', '#'] (cut ['\n'] s).1).1) m lk with
    | error p => rfl
    | ok r => cases r <;> rfl
  | some q =>
    obtain ⟨hq, hq2⟩ := quotePrefix_special hqp
    simp only [List.length_map]
    have hl := quotedLoop_map R q hq s (s.length - 1) 1 false []
    rw [List.map_nil] at hl
    rw [hl]
    cases quotedLoop q s (s.length - 1) 1 false [] with
    | oob => rfl
    | unterminated =>
      simp only [QScan.ren]
      rw [valEndIndex_map R, sliceTo_map R]
      cases sliceTo s (valEndIndex s) <;> rfl
    | closed chars i =>
      simp only [QScan.ren]
      split
      · rw [expandEscapes_map R, expandVars_map R hT h]
        cases expandVars (expandEscapes chars) m lk with
        | error p => rfl
        | ok r =>
          cases r with
          | error e => rfl
          | ok v =>
            simp only [Stage.mapBoth]
            rw [sliceFrom_map R]
            cases sliceFrom s (i + 1) <;> rfl
      · rw [sliceFrom_map R]
        cases sliceFrom s (i + 1) <;> rfl

theorem any_spaceU_map (k : Str) : (k.map φ).any isSpaceU = k.any isSpaceU := by
  rw [List.any_map]
  congr 1
  funext c
  exact isSpaceU_map R c

/-- the statement loop commutes with a renaming of the generic code points, given the same for `template.Substitute` -/
theorem parseLoop_map (hT : SubstCommutes φ) {lk lk' : Env} (h : EnvRel φ lk lk') : ∀ (fuel : Nat) (s : Str) (m : Map),
    parseLoop fuel (s.map φ) (Map.ren φ m) lk' = POut.ren φ (parseLoop fuel s m lk)
  | 0, _, _ => rfl
  | fuel + 1, s, m => by
    unfold parseLoop
    simp only [List.length_map]
    rw [stmtStart_map R]
    cases stmtStart (s.length + 1) s with
    | error p => rfl
    | ok cs =>
      simp only [Except.map, List.isEmpty_map]
      by_cases he : cs.isEmpty = true
      · simp only [he, if_true, POut.ren]
      · simp only [he, Bool.false_eq_true, if_false]
        rw [locateKey_map R]
        cases locateKey cs with
        | error p => rfl
        | ok r =>
          cases r with
          | error e => cases e <;> rfl
          | ok kli =>
            obtain ⟨key, left, inh⟩ := kli
            simp only [Stage.mapBoth, any_spaceU_map R]
            by_cases hs : key.any isSpaceU = true
            · simp only [hs, if_true, POut.ren, PErr.ren]
            · simp only [hs, Bool.false_eq_true, if_false]
              cases inh with
              | true =>
                simp only [if_true]
                rw [h key]
                cases lk key with
                | some v =>
                  simp only [Option.map_some]
                  rw [put_ren R]
                  exact parseLoop_map hT h fuel left _
                | none => exact parseLoop_map hT h fuel left m
              | false =>
                simp only [Bool.false_eq_true, if_false]
                rw [extractValue_map R hT h]
                cases extractValue left m lk with
                | error p => rfl
                | ok r2 =>
                  cases r2 with
                  | error e => rfl
                  | ok vl =>
                    obtain ⟨v, left'⟩ := vl
                    simp only [Stage.mapBoth]
                    rw [put_ren R]
                    exact parseLoop_map hT h fuel left' _

theorem parse_map (hT : SubstCommutes φ) {lk lk' : Env} (h : EnvRel φ lk lk') (s : Str) :
    parse (s.map φ) lk' = POut.ren φ (parse s lk) := by
  unfold parse
  rw [List.length_map]
  exact parseLoop_map R hT h _ s []

end

end CV.Dotenv
