import ComposeVerif.Lemmas.TravInvS
import ComposeVerif.Lemmas.TravLive
/-!
# C13, round 6 — helper lemmas for `Props/C13Lts.lean`

* `LogFS`: in every suffix of the ghost log a visitor's return is preceded by its entry (suffix-closed form of
  `InvL.finSubStarts`), an invariant of `Reach`;
* `quiet_step`: once the coordinator has left and the caller is in `eg.Wait`, no step creates a goroutine;
* `mu_step_lt`: `mu` as a strictly decreasing measure on reachable states (well-foundedness of the step relation).
-/
set_option linter.unusedSimpArgs false
set_option linter.unusedVariables false
namespace CV.Trav

/-- every return in the log has its entry further down (older) -/
def LogFS : List Ev → Prop
  | [] => True
  | .finish v _ :: l => v ∈ starts l ∧ LogFS l
  | .start _ :: l => LogFS l

theorem reach_logFS {g : Graph} {lim : Option Nat} (hg : GraphOK g) {s : St} (h : Reach g lim s) : LogFS s.log := by
  induction h with
  | init => simp [init, LogFS]
  | step hr hs ih =>
    have hI := reach_inv hg hr
    rcases step_log (step?_sound hs) with e | ⟨v, _, _, _, e⟩ | ⟨v, b, _, hw, e⟩
    · rw [e]; exact ih
    · rw [e]; exact ih
    · rw [e]; exact ⟨(hI.l.runningStarted v hw).1, ih⟩

theorem logFS_suffix : ∀ (l1 l2 : List Ev), LogFS (l1 ++ l2) → LogFS l2
  | [], _, h => h
  | .start _ :: r, l2, h => logFS_suffix r l2 h
  | .finish _ _ :: r, l2, h => logFS_suffix r l2 h.2

theorem starts_split : ∀ (l : List Ev) (v : V), v ∈ starts l → ∃ a b, l = a ++ Ev.start v :: b
  | [], v, h => by simp [starts] at h
  | .start u :: r, v, h => by
    simp only [starts_start, List.mem_cons] at h
    rcases h with rfl | h
    · exact ⟨[], r, rfl⟩
    · obtain ⟨a, b, e⟩ := starts_split r v h
      exact ⟨.start u :: a, b, by rw [e]; rfl⟩
  | .finish u e :: r, v, h => by
    simp only [starts_finish] at h
    obtain ⟨a, b, e'⟩ := starts_split r v h
    exact ⟨.finish u e :: a, b, by rw [e']; rfl⟩

/-- a return found in a log with `LogFS` has its entry further down in the same log -/
theorem finish_has_start : ∀ (l : List Ev) (v : V), LogFS l → v ∈ finishes l → ∃ a b, l = a ++ Ev.start v :: b
  | [], v, _, h => by simp [finishes] at h
  | .start u :: r, v, hf, h => by
    simp only [finishes_start] at h
    obtain ⟨a, b, e⟩ := finish_has_start r v hf h
    exact ⟨.start u :: a, b, by rw [e]; rfl⟩
  | .finish u e :: r, v, hf, h => by
    simp only [finishes_finish, List.mem_cons] at h
    rcases h with rfl | h
    · obtain ⟨a, b, e'⟩ := starts_split r v hf.1
      exact ⟨.finish v e :: a, b, by rw [e']; rfl⟩
    · obtain ⟨a, b, e'⟩ := finish_has_start r v hf.2 h
      exact ⟨.finish u e :: a, b, by rw [e']; rfl⟩

theorem finishes_append (a b : List Ev) : finishes (a ++ b) = finishes a ++ finishes b := by
  simp [finishes, List.filterMap_append]

/-- `mu` is a strictly decreasing measure along every step from a reachable state -/
theorem mu_step_lt {g : Graph} {lim : Option Nat} (hg : GraphOK g) {s s' : St} {l : Label} (h : Reach g lim s)
    (hs : step? g lim s l = some s') : mu g s' < mu g s :=
  let hI := reach_inv hg h
  mu_decreases hg hI.a hI.b (step?_sound hs)

/-- once the coordinator has returned and the caller is in `eg.Wait` (`m = none`) only worker goroutines and the owner
of the context can move: nobody is left to run `visit`, so no goroutine is created, and a visitor is entered only by a
worker that had already been spawned -/
theorem quiet_step {g : Graph} {lim : Option Nat} {s s' : St} {l : Label} (hc : s.cAlive = false) (hm : s.m = none)
    (hs : step? g lim s l = some s') :
    s'.cAlive = false ∧ s'.m = none ∧ s'.received = s.received ∧
    (∀ v, v ∈ s'.workers.map (·.1) → v ∈ s.workers.map (·.1)) ∧
    (∀ v, v ∈ starts s'.log → v ∈ starts s.log ∨ wpc s.workers v = some .start) := by
  cases l with
  | schedNext w v => cases w <;> simp [step?, getSched, hm, hc] at hs
  | schedEnd w => cases w <;> simp [step?, getSched, hm, hc] at hs
  | ready w => cases w <;> simp [step?, getSched, hm, hc] at hs
  | enter w => cases w <;> simp [step?, getSched, hm, hc] at hs
  | spawn w => cases w <;> simp [step?, getSched, hm, hc] at hs
  | cRecv => simp [step?, hc] at hs
  | cCtxDone => simp [step?, hc] at hs
  | extCancel =>
    simp only [step?] at hs
    split at hs
    · cases hs
    · cases hs; exact ⟨hc, hm, rfl, fun v h => h, fun v h => .inl h⟩
  | wBegin v =>
    simp only [step?] at hs
    split at hs
    · rename_i hw
      split at hs
      · cases hs; exact ⟨hc, hm, rfl, fun u h => by simpa [setW_keys] using h, fun u h => .inl h⟩
      · cases hs
        refine ⟨hc, hm, rfl, fun u h => by simpa [setW_keys] using h, fun u h => ?_⟩
        simp only [starts_start, List.mem_cons] at h
        rcases h with rfl | h
        · exact .inr hw
        · exact .inl h
    · cases hs
  | wReturn v e =>
    simp only [step?] at hs
    split at hs
    · cases hs; exact ⟨hc, hm, rfl, fun u h => by simpa [setW_keys] using h, fun u h => .inl (by simpa using h)⟩
    · cases hs
  | wDone v =>
    simp only [step?] at hs
    split at hs
    · cases hs; exact ⟨hc, hm, rfl, fun u h => by simpa [setW_keys] using h, fun u h => .inl h⟩
    · cases hs
  | wSend v =>
    simp only [step?] at hs
    split at hs
    · cases hs; exact ⟨hc, hm, rfl, fun u h => by simpa [setW_keys] using h, fun u h => .inl h⟩
    · cases hs
  | wExit v =>
    simp only [step?] at hs
    split at hs
    · cases hs
      refine ⟨hc, hm, rfl, fun u h => ?_, fun u h => .inl h⟩
      simp only [List.mem_map, List.mem_filter] at h ⊢
      obtain ⟨p, ⟨hp, _⟩, rfl⟩ := h
      exact ⟨p, hp, rfl⟩
    · cases hs

/-- … along any continuation -/
theorem quiet_run {g : Graph} {lim : Option Nat} : ∀ (ls : List Label) (s s' : St), s.cAlive = false → s.m = none →
    runL g lim s ls = some s' →
    s'.cAlive = false ∧ s'.m = none ∧ s'.received = s.received ∧
    (∀ v, v ∈ s'.workers.map (·.1) → v ∈ s.workers.map (·.1)) ∧
    (∀ v, v ∈ starts s'.log → v ∈ starts s.log ∨ v ∈ s.workers.map (·.1))
  | [], s, s', hc, hm, hr => by
    simp [runL] at hr; subst hr; exact ⟨hc, hm, rfl, fun v h => h, fun v h => .inl h⟩
  | l :: r, s, s', hc, hm, hr => by
    simp only [runL] at hr
    cases hs : step? g lim s l with
    | none => simp [hs] at hr
    | some s1 =>
      simp [hs] at hr
      obtain ⟨hc1, hm1, hr1, hw1, hl1⟩ := quiet_step hc hm hs
      obtain ⟨hc2, hm2, hr2, hw2, hl2⟩ := quiet_run r s1 s' hc1 hm1 hr
      refine ⟨hc2, hm2, hr2.trans hr1, fun v h => hw1 v (hw2 v h), fun v h => ?_⟩
      rcases hl2 v h with h | h
      · rcases hl1 v h with h | h
        · exact .inl h
        · exact .inr (List.mem_map.mpr ⟨(v, .start), mem_of_wpc h, rfl⟩)
      · exact .inr (hw1 v h)

/-- `d` is a transitive prerequisite of `v` along a chain whose intermediate vertices are visited (not skipped by the
root selection).  Forward walk: `v` depends on … depends on `d`; reverse walk: `d` depends on … depends on `v`. -/
inductive PreChain (g : Graph) : V → V → Prop
  | one {d v : V} : d ∈ g.pre v → PreChain g d v
  | cons {d u v : V} : PreChain g d u → g.skip u = false → u ∈ g.pre v → PreChain g d v

theorem preChain_left {g : Graph} {d m v : V} (hdm : d ∈ g.pre m) (hm : g.skip m = false) (hc : PreChain g m v) :
    PreChain g d v := by
  induction hc with
  | one hp => exact .cons (.one hdm) hm hp
  | cons _ hku hpu ih => exact .cons ih hku hpu

end CV.Trav
