import ComposeVerif.Lemmas.ShortTransform
import ComposeVerif.Model.ShortTransform
import ComposeVerif.Model.Merge
/-!
# C03 × override.Merge: the second expansion site of the short forms

`depends_on`, service `networks` and `build` have their short form expanded at **two** places of the loader:
`transform.Canonical` (transform/dependson.go, services.go, build.go — `Model/ShortTransform.lean`) and
`override.Merge` (`convertIntoMapping` / `toBuild` in override/merge.go — C04's `Model/Merge.lean`, read-only here),
which runs on the *raw* second document against the *canonical* first one.  This file relates the two models.
-/
namespace CV.Short
open CV

/-- same outcome class, and the same value when both succeed (error texts are not part of either model) -/
def sameOut : Out Val.KVs → Merge.Out Val.KVs → Prop
  | .ok a, .ok b => a = b
  | .err _, .err _ => True
  | _, _ => False

/-- the list loops of `transformDependsOn` and of `convertIntoMapping(…, {condition: service_started, required: true})` -/
theorem dependsList_eq_listIntoMap (l : List Val) (acc : Val.KVs) :
    sameOut (dependsList l acc) (Merge.listIntoMap Merge.dependsOnDefault l acc) := by
  induction l generalizing acc with
  | nil => simp [dependsList, Merge.listIntoMap, sameOut]
  | cons x r ih =>
    cases x <;> simp only [dependsList, Merge.listIntoMap, sameOut]
    exact ih _

/-- the list loops of `transformServiceNetworks` and of `convertIntoMapping(…, nil)` -/
theorem networksList_eq_listIntoMap (l : List Val) (acc : Val.KVs) :
    sameOut (networksList l acc) (Merge.listIntoMap .null l acc) := by
  induction l generalizing acc with
  | nil => simp [networksList, Merge.listIntoMap, sameOut]
  | cons x r ih =>
    cases x <;> simp only [networksList, Merge.listIntoMap, sameOut]
    exact ih _

theorem listIntoMap_depends_distinct (names : List String) (hnd : names.Nodup) :
    Merge.listIntoMap Merge.dependsOnDefault (names.map Val.str) []
      = .ok (names.map (fun n => (n, startedRequired))) := by
  have h := dependsList_eq_listIntoMap (names.map Val.str) []
  rw [dependsList_distinct names [] hnd (by simp)] at h
  cases hm : Merge.listIntoMap Merge.dependsOnDefault (names.map Val.str) [] with
  | ok b => rw [hm] at h; simp only [sameOut, List.nil_append] at h; rw [h]
  | err e => rw [hm] at h; simp [sameOut] at h
  | panic e => rw [hm] at h; simp [sameOut] at h

theorem listIntoMap_networks_distinct (names : List String) (hnd : names.Nodup) :
    Merge.listIntoMap .null (names.map Val.str) [] = .ok (names.map (fun n => (n, Val.null))) := by
  have h := networksList_eq_listIntoMap (names.map Val.str) []
  rw [networksList_distinct names [] hnd (by simp)] at h
  cases hm : Merge.listIntoMap .null (names.map Val.str) [] with
  | ok b => rw [hm] at h; simp only [sameOut, List.nil_append] at h; rw [h]
  | err e => rw [hm] at h; simp [sameOut] at h
  | panic e => rw [hm] at h; simp [sameOut] at h

/-! ## the loader's two-document pipeline, at one attribute

`loadYamlFile` (loader/loader.go): `dict = Merge(dict, cfg); dict = Canonical(dict)` per document.  At the
position of an attribute with a converting merger this is: canonical form of document 1, merged with the **raw**
value of document 2, made canonical again. -/

def liftM {α : Type} : Merge.Out α → Out α
  | .ok a => .ok a
  | .err e => .err e
  | .panic s => .panic s

/-- `t` = the transformer at the attribute, `r` = the merge rule at the attribute -/
def twoDocs (t : Val → Out Val) (mk : Val.KVs → Val.KVs → TPath → Merge.Out Val.KVs) (r : Merge.Rule)
    (doc1 doc2 : Val) (p : TPath) : Out Val :=
  bindOut (t doc1) fun c1 => bindOut (liftM (Merge.specialStep mk r c1 doc2 p)) t

end CV.Short
