import ComposeVerif.Lemmas.ShortTransform
import ComposeVerif.Model.ShortTransform
import ComposeVerif.Model.Merge
import ComposeVerif.Model.ShortMerge
/-!
# C03 × override.Merge: the second expansion site of the short forms

`depends_on`, service `networks` and `build` have their short form expanded at **two** places of the loader:
`transform.Canonical` (transform/dependson.go, services.go, build.go — `Model/ShortTransform.lean`) and
`override.Merge` (`convertIntoMapping` / `toBuild` in override/merge.go — C04's `Model/Merge.lean`, read-only here),
which runs on the *raw* second document against the *canonical* first one.  This file relates the two models.
-/
namespace CV.Short
open CV

/-- same outcome class, and the same value when both succeed (error texts are not part of either model) -/
def sameOut : Out Val.KVs → Merge.Out Val.KVs → Prop
  | .ok a, .ok b => a = b
  | .err _, .err _ => True
  | _, _ => False

/-- the list loops of `transformDependsOn` and of `convertIntoMapping(…, {condition: service_started, required: true})` -/
theorem dependsList_eq_listIntoMap (l : List Val) (acc : Val.KVs) :
    sameOut (dependsList l acc) (Merge.listIntoMap Merge.dependsOnDefault l acc) := by
  induction l generalizing acc with
  | nil => simp [dependsList, Merge.listIntoMap, sameOut]
  | cons x r ih =>
    cases x <;> simp only [dependsList, Merge.listIntoMap, sameOut]
    exact ih _

/-- the list loops of `transformServiceNetworks` and of `convertIntoMapping(…, nil)` -/
theorem networksList_eq_listIntoMap (l : List Val) (acc : Val.KVs) :
    sameOut (networksList l acc) (Merge.listIntoMap .null l acc) := by
  induction l generalizing acc with
  | nil => simp [networksList, Merge.listIntoMap, sameOut]
  | cons x r ih =>
    cases x <;> simp only [networksList, Merge.listIntoMap, sameOut]
    exact ih _

theorem listIntoMap_depends_distinct (names : List String) (hnd : names.Nodup) :
    Merge.listIntoMap Merge.dependsOnDefault (names.map Val.str) []
      = .ok (names.map (fun n => (n, startedRequired))) := by
  have h := dependsList_eq_listIntoMap (names.map Val.str) []
  rw [dependsList_distinct names [] hnd (by simp)] at h
  cases hm : Merge.listIntoMap Merge.dependsOnDefault (names.map Val.str) [] with
  | ok b => rw [hm] at h; simp only [sameOut, List.nil_append] at h; rw [h]
  | err e => rw [hm] at h; simp [sameOut] at h
  | panic e => rw [hm] at h; simp [sameOut] at h

theorem listIntoMap_networks_distinct (names : List String) (hnd : names.Nodup) :
    Merge.listIntoMap .null (names.map Val.str) [] = .ok (names.map (fun n => (n, Val.null))) := by
  have h := networksList_eq_listIntoMap (names.map Val.str) []
  rw [networksList_distinct names [] hnd (by simp)] at h
  cases hm : Merge.listIntoMap .null (names.map Val.str) [] with
  | ok b => rw [hm] at h; simp only [sameOut, List.nil_append] at h; rw [h]
  | err e => rw [hm] at h; simp [sameOut] at h
  | panic e => rw [hm] at h; simp [sameOut] at h

end CV.Short
