import ComposeVerif.Lemmas.ShortTransform
import ComposeVerif.Model.ShortTransform
import ComposeVerif.Model.Merge
import ComposeVerif.Model.ShortMerge
import ComposeVerif.Lemmas.Merge
/-!
# C03 × override.Merge: the second expansion site of the short forms

`depends_on`, service `networks` and `build` have their short form expanded at **two** places of the loader:
`transform.Canonical` (transform/dependson.go, services.go, build.go — `Model/ShortTransform.lean`) and
`override.Merge` (`convertIntoMapping` / `toBuild` in override/merge.go — C04's `Model/Merge.lean`, read-only here),
which runs on the *raw* second document against the *canonical* first one.  This file relates the two models.
-/
namespace CV.Short
open CV

/-- same outcome class, and the same value when both succeed (error texts are not part of either model) -/
def sameOut : Out Val.KVs → Merge.Out Val.KVs → Prop
  | .ok a, .ok b => a = b
  | .err _, .err _ => True
  | _, _ => False

/-- the list loops of `transformDependsOn` and of `convertIntoMapping(…, {condition: service_started, required: true})` -/
theorem dependsList_eq_listIntoMap (l : List Val) (acc : Val.KVs) :
    sameOut (dependsList l acc) (Merge.listIntoMap Merge.dependsOnDefault l acc) := by
  induction l generalizing acc with
  | nil => simp [dependsList, Merge.listIntoMap, sameOut]
  | cons x r ih =>
    cases x <;> simp only [dependsList, Merge.listIntoMap, sameOut]
    exact ih _

/-- the list loops of `transformServiceNetworks` and of `convertIntoMapping(…, nil)` -/
theorem networksList_eq_listIntoMap (l : List Val) (acc : Val.KVs) :
    sameOut (networksList l acc) (Merge.listIntoMap .null l acc) := by
  induction l generalizing acc with
  | nil => simp [networksList, Merge.listIntoMap, sameOut]
  | cons x r ih =>
    cases x <;> simp only [networksList, Merge.listIntoMap, sameOut]
    exact ih _

theorem listIntoMap_depends_distinct (names : List String) (hnd : names.Nodup) :
    Merge.listIntoMap Merge.dependsOnDefault (names.map Val.str) []
      = .ok (names.map (fun n => (n, startedRequired))) := by
  have h := dependsList_eq_listIntoMap (names.map Val.str) []
  rw [dependsList_distinct names [] hnd (by simp)] at h
  cases hm : Merge.listIntoMap Merge.dependsOnDefault (names.map Val.str) [] with
  | ok b => rw [hm] at h; simp only [sameOut, List.nil_append] at h; rw [h]
  | err e => rw [hm] at h; simp [sameOut] at h
  | panic e => rw [hm] at h; simp [sameOut] at h

theorem listIntoMap_networks_distinct (names : List String) (hnd : names.Nodup) :
    Merge.listIntoMap .null (names.map Val.str) [] = .ok (names.map (fun n => (n, Val.null))) := by
  have h := networksList_eq_listIntoMap (names.map Val.str) []
  rw [networksList_distinct names [] hnd (by simp)] at h
  cases hm : Merge.listIntoMap .null (names.map Val.str) [] with
  | ok b => rw [hm] at h; simp only [sameOut, List.nil_append] at h; rw [h]
  | err e => rw [hm] at h; simp [sameOut] at h
  | panic e => rw [hm] at h; simp [sameOut] at h

theorem mergeOne_shape (f : Val → Val → TPath → Merge.Out Val) (a r : Val.KVs) (k : String) (v : Val) (p : TPath)
    (h : Merge.mergeKVsWith f a [(k, v)] p = .ok r) : ∃ y, r = Val.insert k y a := by
  simp only [Merge.mergeKVsWith] at h
  split at h
  · simp only [Merge.Out.ok.injEq] at h; exact ⟨v, h.symm⟩
  · split at h
    · simp only [Merge.Out.ok.injEq] at h; exact ⟨v, h.symm⟩
    · rename_i e _ _
      cases hf : f e v (Merge.next p k) with
      | ok m => rw [hf] at h; simp only [Merge.Out.bind, Merge.Out.ok.injEq] at h; exact ⟨m, h.symm⟩
      | err e => rw [hf] at h; simp [Merge.Out.bind] at h
      | panic e => rw [hf] at h; simp [Merge.Out.bind] at h

theorem lookup_long (names : List String) (k : String) (hk : k ∈ names) (d : Val) :
    Val.lookup k (names.map (fun n => (n, d))) = some d := by
  induction names with
  | nil => simp at hk
  | cons n r ih =>
    simp only [List.map_cons, Val.lookup]
    by_cases h : k = n
    · simp [h]
    · simp only [h, if_false]
      exact ih (by simpa [h] using hk)

theorem dependsMap_lookup (l r : Val.KVs) (h : dependsMap l = .ok r) (k : String) (d : Val.KVs)
    (hk : Val.lookup k l = some (.map d)) : Val.lookup k r = some (.map (dependsDefaults d)) := by
  induction l generalizing r with
  | nil => simp [Val.lookup] at hk
  | cons e t ih =>
    obtain ⟨k0, v0⟩ := e
    cases v0 with
    | map d0 =>
      simp only [dependsMap] at h
      cases ht : dependsMap t with
      | ok r' =>
        rw [ht] at h
        simp only [Out.ok.injEq] at h
        subst h
        simp only [Val.lookup] at hk ⊢
        by_cases hkk : k = k0
        · simp only [hkk, if_true, Option.some.injEq, Val.map.injEq] at hk ⊢
          rw [hk]
        · simp only [hkk, if_false] at hk ⊢
          exact ih r' ht hk
      | err x => rw [ht] at h; simp at h
      | panic x => rw [ht] at h; simp at h
    | _ => simp [dependsMap] at h

theorem startedRequired_fix : dependsDefaults [("condition", .str "service_started"), ("required", .bool true)]
    = [("condition", .str "service_started"), ("required", .bool true)] := rfl

end CV.Short
