import ComposeVerif.Lemmas.Equiv
import ComposeVerif.Lemmas.Post
/-!
# Collect mode (DESIGN §2.6): `consistencyAlts p` / `cycleAlts p` are *exactly* the outcomes of
`checkConsistency` / `graph.CheckCycle` reachable under some iteration order of the Go maps of `p`.

`Reorder p p'` = `p'` is `p` with its services map and/or some `depends_on` maps ranged in another order.
* soundness  : `Reorder p p' → checkConsistency p' ∈ consistencyAlts p`  (what the correspondence judge relies on);
* reachability: `o ∈ consistencyAlts p → ∃ p', Reorder p p' ∧ checkConsistency p' = o` (the judge is not too lax).
-/
namespace CV.Consistency

theorem mem_dedup (l : List Err) (e : Err) : e ∈ dedup l ↔ e ∈ l := by
  unfold dedup
  induction l with
  | nil => simp
  | cons a r ih =>
    simp only [List.foldr_cons, List.mem_cons]
    split
    · rename_i hc
      rw [ih]
      constructor
      · exact .inr
      · rintro (rfl | h)
        · exact ih.mp (List.contains_iff_mem.mp hc)
        · exact h
    · simp only [List.mem_cons, ih]

theorem graphErr_entry (p : Proj) (d : String × Bool) (e : Err) :
    (if p.enabled.contains d.1 then none
     else if d.2 then some (if p.disabled.contains d.1 then Err.requiredDisabled else Err.unknownService)
     else none) = some e ↔ d.1 ∉ p.enabled ∧ d.2 = true ∧ e = missingClass p.disabled d.1 := by
  unfold missingClass
  cases hc : p.enabled.contains d.1 with
  | true =>
    have : d.1 ∈ p.enabled := List.contains_iff_mem.mp hc
    simp [this]
  | false =>
    have hne : d.1 ∉ p.enabled := fun hh => by rw [List.contains_iff_mem.mpr hh] at hc; cases hc
    cases h2 : d.2 with
    | false => simp
    | true =>
      simp only [Bool.false_eq_true, if_false, if_true, Option.some.injEq, true_and]
      exact ⟨fun h => ⟨hne, h.symm⟩, fun h => h.2.symm⟩

theorem mem_graphErrs (p : Proj) (e : Err) :
    e ∈ graphErrs p ↔ ∃ x ∈ p.services, ∃ d ∈ x.2.dependsOn, d.1 ∉ p.enabled ∧ d.2 = true ∧ e = missingClass p.disabled d.1 := by
  unfold graphErrs
  rw [List.mem_flatMap]
  constructor
  · rintro ⟨x, hx, h⟩
    obtain ⟨d, hd, h⟩ := List.mem_filterMap.mp h
    exact ⟨x, hx, d, hd, (graphErr_entry p d e).mp h⟩
  · rintro ⟨x, hx, d, hd, h⟩
    exact ⟨x, hx, List.mem_filterMap.mpr ⟨d, hd, (graphErr_entry p d e).mpr h⟩⟩

/-! ## rule functions under a reordering -/

theorem ruleCheck_equiv {p p' : Proj} (hp : ProjEquiv p p') {s s' : Svc} (hs : SvcEquiv s s') (r : Rule) :
    ruleCheck p' s' r = ruleCheck p s r := by
  cases h : ruleCheck p s r with
  | none =>
    exact (ruleCheck_iff p' s' r).mpr (holds_equiv hp hs r ((ruleCheck_iff p s r).mp h))
  | some e =>
    cases h' : ruleCheck p' s' r with
    | none =>
      have := (ruleCheck_iff p s r).mpr (holds_equiv hp.symm hs.symm r ((ruleCheck_iff p' s' r).mp h'))
      rw [this] at h; cases h
    | some e' => rw [ruleCheck_err p s r e h, ruleCheck_err p' s' r e' h']

theorem checkSvc_equiv {p p' : Proj} (hp : ProjEquiv p p') {s s' : Svc} (hs : SvcEquiv s s') :
    checkSvc p' s' = checkSvc p s := by
  rw [checkSvc_findSome, checkSvc_findSome]
  have : ruleCheck p' s' = ruleCheck p s := funext (ruleCheck_equiv hp hs)
  rw [this]

theorem checkSecret_some (s : Secret) (e : Err) (h : checkSecret s = some e) : e = .secretSource := by
  unfold checkSecret at h; exact ((guard_some.mp h).2).symm

/-! ## reorderings -/

/-- `p'` is `p` with its services map and / or some `depends_on` maps iterated in another order -/
inductive Reorder : Proj → Proj → Prop
  | refl (p : Proj) : Reorder p p
  | services (p : Proj) (l : List (String × Svc)) : l.Perm p.services → Reorder p { p with services := l }
  | deps (p : Proj) (n : String) (s : Svc) (d : List (String × Bool)) (pre post : List (String × Svc)) :
      p.services = pre ++ (n, s) :: post → d.Perm s.dependsOn →
      Reorder p { p with services := pre ++ (n, { s with dependsOn := d }) :: post }
  | trans {p q r : Proj} : Reorder p q → Reorder q r → Reorder p r

theorem ProjEquiv.refl (p : Proj) : ProjEquiv p p where
  fwd n s h := ⟨s, h, SvcEquiv.refl s⟩
  bwd n s h := ⟨s, h, SvcEquiv.refl s⟩
  disabled _ := Iff.rfl
  networks _ := Iff.rfl
  volumes _ := Iff.rfl
  configs _ := Iff.rfl
  secrets _ := Iff.rfl

theorem SvcEquiv.trans {a b c : Svc} (h1 : SvcEquiv a b) (h2 : SvcEquiv b c) : SvcEquiv a c :=
  ⟨by rw [h2.eq, h1.eq], fun x => (h2.deps x).trans (h1.deps x), fun x => (h2.nets x).trans (h1.nets x)⟩

theorem ProjEquiv.trans {p q r : Proj} (h1 : ProjEquiv p q) (h2 : ProjEquiv q r) : ProjEquiv p r where
  fwd n s hs := by
    obtain ⟨s1, hs1, e1⟩ := h1.fwd n s hs
    obtain ⟨s2, hs2, e2⟩ := h2.fwd n s1 hs1
    exact ⟨s2, hs2, e1.trans e2⟩
  bwd n s hs := by
    obtain ⟨s1, hs1, e1⟩ := h2.bwd n s hs
    obtain ⟨s2, hs2, e2⟩ := h1.bwd n s1 hs1
    exact ⟨s2, hs2, e2.trans e1⟩
  disabled x := (h2.disabled x).trans (h1.disabled x)
  networks x := (h2.networks x).trans (h1.networks x)
  volumes x := (h2.volumes x).trans (h1.volumes x)
  configs x := (h2.configs x).trans (h1.configs x)
  secrets x := (h2.secrets x).trans (h1.secrets x)

/-- a reordering keeps the set of entries of every map, and the secrets list as it is -/
theorem Reorder.equiv {p p' : Proj} (h : Reorder p p') :
    ProjEquiv p p' ∧ p'.enabled.Perm p.enabled ∧ p'.secrets = p.secrets := by
  induction h with
  | refl p => exact ⟨ProjEquiv.refl p, List.Perm.refl _, rfl⟩
  | services p l hl =>
    refine ⟨?_, hl.map _, rfl⟩
    have := ProjEquiv.of_perm p l hl p.secrets (List.Perm.refl _)
    exact this
  | deps p n s d pre post hsv hd =>
    refine ⟨?_, ?_, rfl⟩
    · refine ⟨?_, ?_, fun _ => Iff.rfl, fun _ => Iff.rfl, fun _ => Iff.rfl, fun _ => Iff.rfl, fun _ => Iff.rfl⟩
      · intro m t ht
        rw [hsv] at ht
        rcases List.mem_append.mp ht with h | h
        · exact ⟨t, List.mem_append_left _ h, SvcEquiv.refl t⟩
        · rcases List.mem_cons.mp h with heq | h
          · cases heq
            refine ⟨{ s with dependsOn := d }, List.mem_append_right _ (List.mem_cons_self ..), ?_⟩
            exact ⟨rfl, fun _ => hd.mem_iff, fun _ => Iff.rfl⟩
          · exact ⟨t, List.mem_append_right _ (List.mem_cons_of_mem _ h), SvcEquiv.refl t⟩
      · intro m t ht
        simp only at ht
        rw [hsv]
        rcases List.mem_append.mp ht with h | h
        · exact ⟨t, List.mem_append_left _ h, SvcEquiv.refl t⟩
        · rcases List.mem_cons.mp h with heq | h
          · cases heq
            refine ⟨s, List.mem_append_right _ (List.mem_cons_self ..), ?_⟩
            exact ⟨rfl, fun _ => hd.mem_iff, fun _ => Iff.rfl⟩
          · exact ⟨t, List.mem_append_right _ (List.mem_cons_of_mem _ h), SvcEquiv.refl t⟩
    · simp only [Proj.enabled, hsv, List.map_append, List.map_cons]
      exact List.Perm.refl _
  | trans _ _ ih1 ih2 =>
    exact ⟨ih1.1.trans ih2.1, ih2.2.1.trans ih1.2.1, ih2.2.2.trans ih1.2.2⟩

theorem Reorder.nodup {p p' : Proj} (h : Reorder p p') (hnd : p.enabled.Nodup) : p'.enabled.Nodup :=
  (h.equiv.2.1.nodup_iff).mpr hnd

/-! ## `graph.CheckCycle` -/

theorem missingClass_equiv {p p' : Proj} (hp : ProjEquiv p p') (x : String) :
    missingClass p'.disabled x = missingClass p.disabled x := by
  unfold missingClass
  have : p'.disabled.contains x = p.disabled.contains x := by
    cases h : p.disabled.contains x
    · cases h' : p'.disabled.contains x
      · rfl
      · have := (hp.disabled x).mp (List.contains_iff_mem.mp h')
        rw [List.contains_iff_mem.mpr this] at h; cases h
    · exact List.contains_iff_mem.mpr ((hp.disabled x).mpr (List.contains_iff_mem.mp h))
  rw [this]

theorem depsBuildable_equiv {p p' : Proj} (hp : ProjEquiv p p') (h : DepsBuildable p) : DepsBuildable p' := by
  intro e he d hd
  obtain ⟨s, hs, hse⟩ := hp.bwd e.1 e.2 he
  rcases h (e.1, s) hs d ((hse.deps d).mp hd) with h | h
  · exact .inl ((hp.enabled _).mpr h)
  · exact .inr h

theorem graphErrs_nil_iff (p : Proj) : graphErrs p = [] ↔ DepsBuildable p := by
  rw [List.eq_nil_iff_forall_not_mem]
  constructor
  · intro h e he d hd
    by_cases h1 : d.1 ∈ p.enabled
    · exact .inl h1
    · right
      cases h2 : d.2
      · rfl
      · exact absurd ((mem_graphErrs p _).mpr ⟨e, he, d, hd, h1, h2, rfl⟩) (h _)
  · intro h e he
    obtain ⟨x, hx, d, hd, h1, h2, -⟩ := (mem_graphErrs p e).mp he
    rcases h x hx d hd with h | h
    · exact h1 h
    · rw [h2] at h; cases h

theorem checkCycleProj_buildable (p : Proj) (hb : DepsBuildable p) :
    checkCycleProj p = guard (hasCycle (exactGraph p)) .cycle := by
  unfold checkCycleProj
  rw [newGraph_eq_exact p hb]

theorem acyclic_equiv {p p' : Proj} (hp : ProjEquiv p p') (h : Acyclic p) : Acyclic p' :=
  fun v w => h v (w.mono fun _ _ e => depRel_equiv hp.symm e)

/-- when every dependency can be resolved the outcome of `graph.CheckCycle` is the same for every order -/
theorem checkCycleProj_equiv {p p' : Proj} (hp : ProjEquiv p p') (hnd : p.enabled.Nodup) (hnd' : p'.enabled.Nodup)
    (hb : DepsBuildable p) : checkCycleProj p' = checkCycleProj p := by
  have hb' := depsBuildable_equiv hp hb
  rw [checkCycleProj_buildable p hb, checkCycleProj_buildable p' hb']
  have h1 := acyclicB_iff p hnd
  have h2 := acyclicB_iff p' hnd'
  unfold acyclicB at h1 h2
  have : hasCycle (exactGraph p') = hasCycle (exactGraph p) := by
    cases ha : hasCycle (exactGraph p) <;> cases hb2 : hasCycle (exactGraph p') <;> try rfl
    · rw [ha] at h1; rw [hb2] at h2
      have := acyclic_equiv hp (h1.mp rfl)
      exact absurd (h2.mpr this) (by simp)
    · rw [ha] at h1; rw [hb2] at h2
      have := acyclic_equiv hp.symm (h2.mp rfl)
      exact absurd (h1.mpr this) (by simp)
  rw [this]

/-- **soundness of `cycleAlts`**: whatever the iteration order, the outcome of `graph.CheckCycle` is in the set -/
theorem cycleAlts_sound_equiv {p p' : Proj} (hp : ProjEquiv p p') (hnd : p.enabled.Nodup) (hnd' : p'.enabled.Nodup) :
    checkCycleProj p' ∈ cycleAlts p := by
  unfold cycleAlts
  cases hg : newGraph p' with
  | error e =>
    have hcp : checkCycleProj p' = some e := by unfold checkCycleProj; rw [hg]
    obtain ⟨x', hx', d, hd, h1, h2, he⟩ := buildGraph_error p'.enabled p'.disabled p'.services e hg
    obtain ⟨s, hs, hse⟩ := hp.bwd x'.1 x'.2 hx'
    have hmem : e ∈ graphErrs p := (mem_graphErrs p e).mpr
      ⟨(x'.1, s), hs, d, (hse.deps d).mp hd, fun hh => h1 ((hp.enabled _).mpr hh), h2, by rw [he, missingClass_equiv hp]⟩
    rw [hcp]
    cases hge : graphErrs p with
    | nil => rw [hge] at hmem; cases hmem
    | cons a r =>
      simp only [List.mem_map]
      exact ⟨e, (mem_dedup _ e).mpr (hge ▸ hmem), rfl⟩
  | ok g =>
    have hb' : DepsBuildable p' := by
      apply Classical.byContradiction
      intro hnb
      have : ∃ e, newGraph p' = .error e := by
        apply Classical.byContradiction
        intro hne
        apply hnb
        intro e he d hd
        by_cases h1 : d.1 ∈ p'.enabled
        · exact .inl h1
        · right
          cases h2 : d.2
          · rfl
          · exact absurd (buildGraph_error_of_mem p'.enabled p'.disabled p'.services e he d hd h1 h2) hne
      obtain ⟨e, he⟩ := this
      rw [hg] at he; cases he
    have hb : DepsBuildable p := depsBuildable_equiv hp.symm hb'
    rw [(graphErrs_nil_iff p).mpr hb]
    simp only [List.mem_singleton]
    exact checkCycleProj_equiv hp hnd hnd' hb

theorem cycleAlts_sound {p p' : Proj} (h : Reorder p p') (hnd : p.enabled.Nodup) : checkCycleProj p' ∈ cycleAlts p :=
  cycleAlts_sound_equiv h.equiv.1 hnd (h.nodup hnd)

/-- **every element of `cycleAlts` is the outcome under some iteration order** -/
theorem cycleAlts_reachable (p : Proj) (o : Option Err) (ho : o ∈ cycleAlts p) :
    ∃ p', Reorder p p' ∧ checkCycleProj p' = o := by
  unfold cycleAlts at ho
  cases hge : graphErrs p with
  | nil =>
    rw [hge] at ho
    simp only [List.mem_singleton] at ho
    exact ⟨p, .refl p, ho.symm⟩
  | cons a r =>
    rw [hge] at ho
    simp only [List.mem_map] at ho
    obtain ⟨e, he, rfl⟩ := ho
    have hmem : e ∈ graphErrs p := hge ▸ (mem_dedup _ e).mp he
    obtain ⟨x, hx, d, hd, h1, h2, hcl⟩ := (mem_graphErrs p e).mp hmem
    -- range `x` first, and `d` first inside `x`
    let q : Proj := { p with services := x :: p.services.erase x }
    let x' : String × Svc := (x.1, { x.2 with dependsOn := d :: x.2.dependsOn.erase d })
    let p' : Proj := { q with services := [] ++ x' :: p.services.erase x }
    have hq : Reorder p q := .services p _ (List.perm_cons_erase hx).symm
    have hqp : Reorder q p' := .deps q x.1 x.2 (d :: x.2.dependsOn.erase d) [] (p.services.erase x) rfl
      (List.perm_cons_erase hd).symm
    have hr : Reorder p p' := .trans hq hqp
    refine ⟨p', hr, ?_⟩
    have hen : p'.enabled.contains d.1 = false := by
      cases hc : p'.enabled.contains d.1
      · rfl
      · exact absurd ((hr.equiv.1.enabled _).mp (List.contains_iff_mem.mp hc)) h1
    unfold checkCycleProj newGraph
    show (match buildGraph p'.enabled p.disabled (x' :: p.services.erase x) with
      | .error e => some e | .ok g => guard (hasCycle g) .cycle) = some e
    unfold buildGraph
    have : edgesOf p'.enabled p.disabled (d :: x.2.dependsOn.erase d) = .error e := by
      unfold edgesOf
      obtain ⟨dn, dr⟩ := d
      simp only at h2 hen hcl
      subst h2
      simp only [hen, Bool.false_eq_true, if_false, if_true]
      rw [hcl]; rfl
    simp only [x', this]

/-! ## `checkConsistency` -/

/-- **soundness of `consistencyAlts`**: whatever the iteration order, the outcome of `checkConsistency` is in the set -/
theorem consistencyAlts_sound_equiv {p p' : Proj} (hp : ProjEquiv p p') (hnd : p.enabled.Nodup) (hnd' : p'.enabled.Nodup)
    (hsec : p'.secrets = p.secrets) : checkConsistency p' ∈ consistencyAlts p := by
  unfold consistencyAlts checkConsistency
  cases hf : p'.services.findSome? (fun e => checkSvc p' e.2) with
  | some e =>
    obtain ⟨x', hx', hc⟩ := List.exists_of_findSome?_eq_some hf
    obtain ⟨s, hs, hse⟩ := hp.bwd x'.1 x'.2 hx'
    have hc' : checkSvc p s = some e := by rw [← checkSvc_equiv hp hse]; exact hc
    have hmem : e ∈ p.services.filterMap (fun e => checkSvc p e.2) := List.mem_filterMap.mpr ⟨(x'.1, s), hs, hc'⟩
    simp only [orE]
    cases hfm : p.services.filterMap (fun e => checkSvc p e.2) with
    | nil => rw [hfm] at hmem; cases hmem
    | cons a r =>
      simp only [List.mem_map]
      exact ⟨e, (mem_dedup _ e).mpr (hfm ▸ hmem), rfl⟩
  | none =>
    have hall' := List.findSome?_eq_none_iff.mp hf
    have hall : ∀ a ∈ p.services, checkSvc p a.2 = none := by
      intro a ha
      obtain ⟨s', hs', hse⟩ := hp.fwd a.1 a.2 ha
      rw [← checkSvc_equiv hp hse]
      exact hall' (a.1, s') hs'
    rw [List.filterMap_eq_nil_iff.mpr hall, hsec]
    simp only [orE]
    cases hs : p.secrets.findSome? (fun e => checkSecret e.2) with
    | some e => simp
    | none =>
      simp only
      exact cycleAlts_sound_equiv hp hnd hnd'

theorem consistencyAlts_sound {p p' : Proj} (h : Reorder p p') (hnd : p.enabled.Nodup) :
    checkConsistency p' ∈ consistencyAlts p :=
  consistencyAlts_sound_equiv h.equiv.1 hnd (h.nodup hnd) h.equiv.2.2

/-- **every element of `consistencyAlts` is the outcome under some iteration order** -/
theorem consistencyAlts_reachable (p : Proj) (o : Option Err) (ho : o ∈ consistencyAlts p) :
    ∃ p', Reorder p p' ∧ checkConsistency p' = o := by
  unfold consistencyAlts at ho
  cases hfm : p.services.filterMap (fun e => checkSvc p e.2) with
  | cons a r =>
    rw [hfm] at ho
    simp only [List.mem_map] at ho
    obtain ⟨e, he, rfl⟩ := ho
    have hmem : e ∈ p.services.filterMap (fun e => checkSvc p e.2) := hfm ▸ (mem_dedup _ e).mp he
    obtain ⟨x, hx, hc⟩ := List.mem_filterMap.mp hmem
    let p' : Proj := { p with services := x :: p.services.erase x }
    have hr : Reorder p p' := .services p _ (List.perm_cons_erase hx).symm
    refine ⟨p', hr, ?_⟩
    have : checkSvc p' x.2 = some e := by rw [checkSvc_equiv hr.equiv.1 (SvcEquiv.refl x.2)]; exact hc
    unfold checkConsistency
    show orE ((x :: p.services.erase x).findSome? fun e => checkSvc p' e.2) _ = some e
    simp only [List.findSome?_cons, this, orE]
  | nil =>
    rw [hfm] at ho
    have hall := List.filterMap_eq_nil_iff.mp hfm
    have hnone : p.services.findSome? (fun e => checkSvc p e.2) = none := List.findSome?_eq_none_iff.mpr hall
    refine ⟨p, .refl p, ?_⟩
    unfold checkConsistency
    rw [hnone]
    simp only [orE]
    cases hs : p.secrets.findSome? (fun e => checkSecret e.2) with
    | some e =>
      rw [hs] at ho
      simp only [List.mem_singleton] at ho
      simp only [ho]
    | none =>
      rw [hs] at ho
      simp only at ho ⊢
      -- every rule holds, so every dependency can be resolved and `cycleAlts` is a singleton
      have hb : DepsBuildable p := by
        intro e he d hd
        have := (rDependsOn_iff p e.2).mp (((checkSvc_none_iff_rules p e.2).mp (hall e he)) .dependsOn)
        rcases this d hd with h | h
        · exact .inl h
        · exact .inr h.2
      unfold cycleAlts at ho
      rw [(graphErrs_nil_iff p).mpr hb] at ho
      simp only [List.mem_singleton] at ho
      exact ho.symm

end CV.Consistency
