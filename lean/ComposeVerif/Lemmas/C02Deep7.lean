import ComposeVerif.Lemmas.C02Deep6
namespace CV.Deep
open CV CV.Merge
open CV.Val (lookup insert keys KVs)

/-! ### well-formedness is preserved by the merge -/

/-- the recursive merge returns well-formed trees on well-formed trees -/
def PresWF (f : Val → Val → TPath → Out Val) (q : TPath) : Prop :=
  ∀ e v z, WF e → WF v → f e v q = .ok z → WF z

def MkWF (mk : KVs → KVs → TPath → Out KVs) (p : TPath) : Prop :=
  ∀ a b m, MWF a → MWF b → mk a b p = .ok m → MWF m

theorem WF.seq_mem {l : List Val} (h : WF (.seq l)) : ∀ x ∈ l, WF x := by
  induction l with
  | nil => intro x hx; cases hx
  | cons y r ih =>
    cases h with | seqCons hy hr =>
    intro x hx
    rcases List.mem_cons.mp hx with rfl | hx
    · exact hy
    · exact ih hr x hx

theorem WF.seq_of_forall {l : List Val} (h : ∀ x ∈ l, WF x) : WF (.seq l) := by
  induction l with
  | nil => exact .seqNil
  | cons y r ih => exact .seqCons (h y List.mem_cons_self) (ih (fun x hx => h x (List.mem_cons_of_mem _ hx)))

theorem WF.seq_append {a b : List Val} (ha : WF (.seq a)) (hb : WF (.seq b)) : WF (.seq (a ++ b)) :=
  WF.seq_of_forall (fun x hx => by
    rcases List.mem_append.mp hx with h | h
    · exact ha.seq_mem x h
    · exact hb.seq_mem x h)

theorem seqOf_wf {v : Val} (h : WF v) : WF (.seq (seqOf v)) := by
  cases h with
  | null => exact .seqNil
  | bool b => exact .seqNil
  | int i => exact .seqNil
  | float s => exact .seqNil
  | str s => exact .seqCons (.str s) .seqNil
  | seqNil => exact .seqNil
  | seqCons h1 h2 => exact .seqCons h1 h2
  | map _ _ =>
    simp only [seqOf, intoSeq, Option.getD]
    apply WF.seq_of_forall
    intro x hx
    obtain ⟨s, _, rfl⟩ := List.mem_map.mp hx
    exact .str s

theorem keepNew_sub {rs : List Val} : ∀ {ls : List Val}, ∀ x ∈ keepNew rs ls, x ∈ ls := by
  intro ls
  induction ls with
  | nil => intro x hx; simp [keepNew] at hx
  | cons v r ih =>
    intro x hx
    simp only [keepNew] at hx
    split at hx
    · exact List.mem_cons_of_mem _ (ih x hx)
    · rcases List.mem_cons.mp hx with rfl | hx
      · exact List.mem_cons_self
      · exact List.mem_cons_of_mem _ (ih x hx)

theorem mergeKVsWith_keys_nodup (f : Val → Val → TPath → Out Val) (p : TPath) :
    ∀ (b a m : KVs), (keys a).Nodup → mergeKVsWith f a b p = .ok m → (keys m).Nodup := by
  intro b
  induction b with
  | nil => intro a m ha h; simp only [mergeKVsWith, Out.ok.injEq] at h; subst h; exact ha
  | cons hd tl ih =>
    obtain ⟨k, v⟩ := hd
    intro a m ha h
    simp only [mergeKVsWith] at h
    cases hl : lookup k a with
    | none => rw [hl] at h; exact ih _ _ (nodup_keys_insert ha) h
    | some e =>
      rw [hl] at h
      by_cases hx : hasXPrefix k = true
      · simp only [hx, if_true] at h; exact ih _ _ (nodup_keys_insert ha) h
      · simp only [hx, Bool.false_eq_true, if_false] at h
        cases hf : f e v (next p k) with
        | ok z => simp only [hf, Out.bind] at h; exact ih _ _ (nodup_keys_insert ha) h
        | err e' => simp [hf, Out.bind] at h
        | panic s => simp [hf, Out.bind] at h

theorem mergeKVsWith_wf (f : Val → Val → TPath → Out Val) (p : TPath) (hf : ∀ k, PresWF f (next p k)) :
    MkWF (mergeKVsWith f) p := by
  intro a b m wa wb h
  refine ⟨mergeKVsWith_keys_nodup f p b a m wa.1 h, ?_⟩
  intro k x hx
  have pw := mergeKVsWith_pointwise f p b a m wb.1 h k
  rw [hx] at pw
  cases hla : lookup k a with
  | none =>
    cases hlb : lookup k b with
    | none => rw [hla, hlb] at pw; simp [PointwiseAt] at pw
    | some y => rw [hla, hlb] at pw; simp only [PointwiseAt, Option.some.injEq] at pw; subst pw; exact wb.2 k _ hlb
  | some e =>
    cases hlb : lookup k b with
    | none => rw [hla, hlb] at pw; simp only [PointwiseAt, Option.some.injEq] at pw; subst pw; exact wa.2 k _ hla
    | some y =>
      rw [hla, hlb] at pw
      simp only [PointwiseAt] at pw
      split at pw
      · simp only [Option.some.injEq] at pw; subst pw; exact wb.2 k _ hlb
      · obtain ⟨z, hz, hm⟩ := pw
        simp only [Option.some.injEq] at hm
        subst hm
        exact hf k e y _ (wa.2 k e hla) (wb.2 k y hlb) hz

theorem intoMap_wf (d : Val) (wd : WF d) {v : Val} (wv : WF v) {m : KVs} (h : intoMap d v = .ok m) : MWF m := by
  have := intoMap_eqv d wd (Eqv.refl v wv) wv wv
  rw [h] at this
  exact this.2.1

theorem toBuild_wf {v : Val} (wv : WF v) {m : KVs} (h : toBuild v = .ok m) : MWF m := by
  have := toBuild_eqv (Eqv.refl v wv) wv wv
  rw [h] at this
  exact this.2.1

theorem bind_ok {α β : Type} {x : Out α} {f : α → Out β} {z : β} (h : x.bind f = .ok z) : ∃ a, x = .ok a ∧ f a = .ok z := by
  cases x with
  | ok a => exact ⟨a, rfl, h⟩
  | err e => simp [Out.bind] at h
  | panic s => simp [Out.bind] at h

theorem convMerge_wf (mk : KVs → KVs → TPath → Out KVs) (p : TPath) (hmk : MkWF mk p) (conv : Val → Out KVs)
    (hc : ∀ v m, WF v → conv v = .ok m → MWF m) {e o z : Val} (we : WF e) (wo : WF o)
    (h : convMerge mk conv e o p = .ok z) : WF z := by
  simp only [convMerge] at h
  obtain ⟨r, hr, h⟩ := bind_ok h
  obtain ⟨l, hl, h⟩ := bind_ok h
  obtain ⟨m, hm, h⟩ := bind_ok h
  simp only [Out.ok.injEq] at h; subst h
  exact WF.map_iff.mpr (hmk r l m (hc e r we hr) (hc o l wo hl) hm)

theorem okMap_wf {x : Out KVs} {z : Val} (h : (x.bind fun m => .ok (.map m)) = .ok z) : ∃ m, x = .ok m ∧ z = .map m := by
  cases x with
  | ok m => simp only [Out.bind, Out.ok.injEq] at h; exact ⟨m, rfl, h.symm⟩
  | err e => simp [Out.bind] at h
  | panic s => simp [Out.bind] at h

theorem defaultStep_wf (mk : KVs → KVs → TPath → Out KVs) (p : TPath) (hmk : MkWF mk p)
    {e o z : Val} (we : WF e) (wo : WF o) (h : defaultStep mk e o p = .ok z) : WF z := by
  cases wo with
  | null => simp only [defaultStep, Out.ok.injEq] at h; subst h; exact we
  | map n1 n2 =>
    cases we with
    | map m1 m2 =>
      simp only [defaultStep] at h
      obtain ⟨m, hm, rfl⟩ := okMap_wf h
      exact WF.map_iff.mpr (hmk _ _ m ⟨m1, m2⟩ ⟨n1, n2⟩ hm)
    | null => simp only [defaultStep, Out.ok.injEq] at h; subst h; exact .map n1 n2
    | bool b => simp only [defaultStep, Out.ok.injEq] at h; subst h; exact .map n1 n2
    | int i => simp only [defaultStep, Out.ok.injEq] at h; subst h; exact .map n1 n2
    | float s => simp only [defaultStep, Out.ok.injEq] at h; subst h; exact .map n1 n2
    | str s => simp only [defaultStep, Out.ok.injEq] at h; subst h; exact .map n1 n2
    | seqNil => simp [defaultStep] at h
    | seqCons _ _ => simp [defaultStep] at h
  | seqNil =>
    cases we <;> simp only [defaultStep, Out.ok.injEq, List.append_nil] at h <;> first | (subst h; first | exact .seqNil | (constructor <;> assumption)) | cases h
  | seqCons o1 o2 =>
    cases we with
    | seqNil => simp only [defaultStep, Out.ok.injEq, List.nil_append] at h; subst h; exact .seqCons o1 o2
    | seqCons h1 h2 =>
      simp only [defaultStep, Out.ok.injEq] at h; subst h
      exact WF.seq_append (.seqCons h1 h2) (.seqCons o1 o2)
    | map _ _ => simp [defaultStep] at h
    | null => simp only [defaultStep, Out.ok.injEq] at h; subst h; exact .seqCons o1 o2
    | bool b => simp only [defaultStep, Out.ok.injEq] at h; subst h; exact .seqCons o1 o2
    | int i => simp only [defaultStep, Out.ok.injEq] at h; subst h; exact .seqCons o1 o2
    | float s => simp only [defaultStep, Out.ok.injEq] at h; subst h; exact .seqCons o1 o2
    | str s => simp only [defaultStep, Out.ok.injEq] at h; subst h; exact .seqCons o1 o2
  | bool b => cases we <;> simp only [defaultStep, Out.ok.injEq] at h <;> first | (subst h; exact .bool b) | cases h
  | int i => cases we <;> simp only [defaultStep, Out.ok.injEq] at h <;> first | (subst h; exact .int i) | cases h
  | float s => cases we <;> simp only [defaultStep, Out.ok.injEq] at h <;> first | (subst h; exact .float s) | cases h
  | str s => cases we <;> simp only [defaultStep, Out.ok.injEq] at h <;> first | (subst h; exact .str s) | cases h

end CV.Deep
