import ComposeVerif.Spec.Extends
/-! helper lemmas for C05 (extends): association lists, `Flat` is functional, soundness of `applySvc` -/
namespace CV.Extends
open CV CV.Val

theorem lookup_insert_self (k : String) (v : Val) (m : KVs) : lookup k (Val.insert k v m) = some v := by
  induction m with
  | nil => simp [Val.insert, Val.lookup]
  | cons p r ih =>
    obtain ⟨k', v'⟩ := p
    by_cases h : k = k'
    · simp [Val.insert, Val.lookup, h]
    · simp [Val.insert, Val.lookup, h, ih]

theorem lookup_insert_ne {k k' : String} (v : Val) (m : KVs) (h : k ≠ k') :
    lookup k (Val.insert k' v m) = lookup k m := by
  induction m with
  | nil => simp [Val.insert, Val.lookup, h]
  | cons p r ih =>
    obtain ⟨k'', v''⟩ := p
    by_cases h2 : k' = k''
    · subst h2; simp [Val.insert, Val.lookup, h]
    · by_cases h3 : k = k''
      · simp [Val.insert, Val.lookup, h2, h3]
      · simp [Val.insert, Val.lookup, h2, h3, ih]

theorem lookup_erase_self (k : String) (m : KVs) : lookup k (Val.erase k m) = none := by
  induction m with
  | nil => simp [Val.erase, Val.lookup]
  | cons p r ih =>
    obtain ⟨k', v'⟩ := p
    by_cases h : k = k'
    · subst h; simp [Val.erase, ih]
    · simp [Val.erase, Val.lookup, h, ih]

/-- a flattened service is a mapping without `extends` -/
theorem Flat.shape {E : Env} {S : KVs} {n : String} {v : Val} (h : Flat E S n v) :
    ∃ m, v = .map m ∧ lookup "extends" m = none := by
  cases h with
  | leaf h1 h2 => exact ⟨_, rfl, h2⟩
  | step => exact ⟨_, rfl, lookup_erase_self _ _⟩

theorem Flat.has_key {E : Env} {S : KVs} {n : String} {v : Val} (h : Flat E S n v) :
    ∃ svc, lookup n S = some (.map svc) := by
  cases h with
  | leaf h1 h2 => exact ⟨_, h1⟩
  | step h1 => exact ⟨_, h1⟩

/-- `Flat` is a partial function: a service has at most one flattened form -/
theorem Flat.functional {E : Env} {S : KVs} {n : String} {v v' : Val}
    (h : Flat E S n v) (h' : Flat E S n v') : v = v' := by
  induction h generalizing v' with
  | leaf h1 h2 =>
    cases h' with
    | leaf g1 g2 =>
      have e1 := h1.symm.trans g1
      simp only [Option.some.injEq, Val.map.injEq] at e1
      subst e1; rfl
    | step g1 g2 =>
      have e1 := h1.symm.trans g1
      simp only [Option.some.injEq, Val.map.injEq] at e1
      subst e1; rw [h2] at g2; cases g2
  | step h1 h2 h3 h4 h5 h6 ih =>
    cases h' with
    | leaf g1 g2 =>
      have e1 := h1.symm.trans g1
      simp only [Option.some.injEq, Val.map.injEq] at e1
      subst e1; rw [h2] at g2; cases g2
    | step g1 g2 g3 g4 g5 g6 =>
      have e1 := h1.symm.trans g1
      simp only [Option.some.injEq, Val.map.injEq] at e1
      subst e1
      have e2 := h2.symm.trans g2
      simp only [Option.some.injEq] at e2
      subst e2
      have e3 := h3.symm.trans g3
      simp only [Out.ok.injEq, Prod.mk.injEq] at e3
      obtain ⟨e3a, e3b⟩ := e3
      subst e3a; subst e3b
      have e4 := h4.symm.trans g4
      simp only [Option.some.injEq] at e4
      subst e4
      have e5 := ih g5
      simp only [Val.map.injEq] at e5
      subst e5
      have e6 := h6.symm.trans g6
      simp only [Out.ok.injEq] at e6
      subst e6; rfl

/-! ## soundness of `applySvc` with respect to `Flat` -/

/-- no service of the mapping is `null` -/
def NoNull (S : KVs) : Prop := ∀ n, lookup n S ≠ some .null

/-- no service of any extended file is `null` -/
def NoNullFS (E : Env) : Prop := ∀ f S, fileServices E.fs f = some S → NoNull S

/-- entry `n` of `cur` holds the flattened form of service `n` of `orig` -/
def FlatAt (E : Env) (orig cur : KVs) (n : String) : Prop :=
  ∃ v, lookup n cur = some v ∧ Flat E orig n v

/-- the memoisation invariant: every entry is still the original one, or its flattened form -/
def Inv (E : Env) (orig cur : KVs) : Prop :=
  ∀ n, lookup n cur = lookup n orig ∨ FlatAt E orig cur n

theorem Inv.refl (E : Env) (S : KVs) : Inv E S S := fun _ => Or.inl rfl

theorem Inv.noNull {E : Env} {orig cur : KVs} (hi : Inv E orig cur) (hn : NoNull orig) : NoNull cur := by
  intro n hc
  rcases hi n with h | ⟨v, h1, h2⟩
  · exact hn n (h ▸ hc)
  · rw [hc] at h1
    obtain ⟨m, hm, _⟩ := h2.shape
    injection h1 with h1
    rw [← h1] at hm; cases hm

theorem Inv.key_iff {E : Env} {orig cur : KVs} (hi : Inv E orig cur) (n : String) :
    lookup n cur ≠ none ↔ lookup n orig ≠ none := by
  rcases hi n with h | ⟨v, h1, h2⟩
  · rw [h]
  · obtain ⟨svc, hs⟩ := h2.has_key
    simp [h1, hs]

/-- an entry of `cur` that still carries `extends` is the original entry -/
theorem Inv.orig_of_extends {E : Env} {orig cur : KVs} (hi : Inv E orig cur) {n : String} {svc : KVs} {e : Val}
    (h1 : lookup n cur = some (.map svc)) (h2 : lookup "extends" svc = some e) :
    lookup n orig = some (.map svc) := by
  rcases hi n with h | ⟨v, g1, g2⟩
  · rw [← h]; exact h1
  · rw [h1] at g1
    injection g1 with g1
    obtain ⟨m, hm, hne⟩ := g2.shape
    rw [← g1] at hm
    injection hm with hm
    rw [hm] at h2; rw [hne] at h2; cases h2

theorem Inv.flat_of_noext {E : Env} {orig cur : KVs} (hi : Inv E orig cur) {n : String} {svc : KVs}
    (h1 : lookup n cur = some (.map svc)) (h2 : lookup "extends" svc = none) :
    Flat E orig n (.map svc) := by
  rcases hi n with h | ⟨v, g1, g2⟩
  · exact Flat.leaf (h ▸ h1) h2
  · rw [h1] at g1; injection g1 with g1; rw [g1]; exact g2

theorem Inv.insert {E : Env} {orig cur : KVs} (hi : Inv E orig cur) {n : String} {v : Val}
    (hv : Flat E orig n v) : Inv E orig (Val.insert n v cur) := by
  intro n'
  by_cases h : n' = n
  · subst h; exact Or.inr ⟨v, lookup_insert_self _ _ _, hv⟩
  · rcases hi n' with g | ⟨w, g1, g2⟩
    · exact Or.inl (by rw [lookup_insert_ne _ _ h]; exact g)
    · exact Or.inr ⟨w, by rw [lookup_insert_ne _ _ h]; exact g1, g2⟩

theorem FlatAt.insert {E : Env} {orig cur : KVs} {n n' : String} {v : Val}
    (hv : Flat E orig n v) (h : FlatAt E orig cur n') : FlatAt E orig (Val.insert n v cur) n' := by
  by_cases hn : n' = n
  · subst hn; exact ⟨v, lookup_insert_self _ _ _, hv⟩
  · obtain ⟨w, g1, g2⟩ := h
    exact ⟨w, by rw [lookup_insert_ne _ _ hn]; exact g1, g2⟩

theorem baseFromFile_ok {fs : FS} {f ref : String} {S : KVs} (h : baseFromFile fs f ref = .ok S) :
    fileServices fs f = some S ∧ lookup ref S ≠ none := by
  unfold baseFromFile at h
  unfold fileServices
  split at h
  · cases h
  · cases h
  · cases h
  · rename_i doc rerr hl
    rw [hl]
    split at h <;> try cases h
    rename_i svcs hs
    split at h <;> try cases h
    rename_i x hx
    cases rerr with
    | true => simp at h
    | false =>
      simp only [Bool.false_eq_true, ↓reduceIte, Out.ok.injEq] at h
      subst h
      simp [hs, hx]
  · split at h <;> try cases h
    split at h <;> cases h

theorem resolveBase_ok {E : Env} {cur name ref : String} {file : Option String} {S S' : KVs} {key : Key} {same : Bool}
    (h : resolveBase E cur name ref file S = .ok (S', key, same)) :
    baseMap E S ref file = some S' ∧ lookup ref S' ≠ none ∧
    ((same = true ∧ S' = S ∧ file = none ∧ key = (cur, name)) ∨
     (same = false ∧ ∃ f, file = some f ∧ fileServices E.fs f = some S' ∧ key = (cur, name))) := by
  unfold resolveBase at h
  cases file with
  | none =>
    simp only at h
    split at h <;> try cases h
    rename_i x hx
    simp [baseMap, hx]
  | some f =>
    simp only at h
    split at h <;> try cases h
    rename_i svcs hb
    obtain ⟨h1, h2⟩ := baseFromFile_ok hb
    refine ⟨?_, h2, Or.inr ⟨rfl, f, rfl, h1, rfl⟩⟩
    simp only [baseMap, h1]
    cases hl : lookup ref S' with
    | none => exact absurd hl h2
    | some x => simp

/-- one unfolding of `applySvc` on a successful run -/
theorem applySvc_ok_cases {E : Env} {fuel : Nat} {cf n : String} {cur : KVs} {tr : List Key} {v : Val} {cur' : KVs}
    (h : applySvc E (fuel + 1) cf n cur tr = .ok (v, cur')) :
    (lookup n cur = none ∧ v = .null ∧ cur' = cur) ∨
    (lookup n cur = some .null ∧ v = .null ∧ cur' = cur) ∨
    (∃ svc, lookup n cur = some (.map svc) ∧ lookup "extends" svc = none ∧ v = .map svc ∧ cur' = cur) ∨
    (∃ svc e ref file svcs key same tr' base svcs',
      lookup n cur = some (.map svc) ∧ lookup "extends" svc = some e ∧ parseExtends e = .ok (ref, file) ∧
      resolveBase E cf n ref file cur = .ok (svcs, key, same) ∧ trackerAdd tr key = some tr' ∧
      applySvc E fuel (nextFile cf file) ref svcs tr' = .ok (base, svcs') ∧
      ((base = .null ∧ v = .map svc ∧ cur' = (if same then svcs' else cur)) ∨
       (∃ b m, base = .map b ∧ E.extend b svc = .ok m ∧ v = .map (Val.erase "extends" m) ∧
          cur' = (if same then Val.insert n (.map (Val.erase "extends" m)) svcs' else cur)))) := by
  simp only [applySvc] at h
  split at h
  · simp only [Out.ok.injEq, Prod.mk.injEq] at h
    exact Or.inl ⟨by assumption, h.1.symm, h.2.symm⟩
  · simp only [Out.ok.injEq, Prod.mk.injEq] at h
    exact Or.inr (Or.inl ⟨by assumption, h.1.symm, h.2.symm⟩)
  · rename_i svc hsvc
    split at h
    · simp only [Out.ok.injEq, Prod.mk.injEq] at h
      exact Or.inr (Or.inr (Or.inl ⟨svc, hsvc, by assumption, h.1.symm, h.2.symm⟩))
    · rename_i e he
      split at h <;> try cases h
      rename_i ref file hp
      split at h <;> try cases h
      rename_i svcs key same hr
      split at h <;> try cases h
      rename_i tr' ht
      split at h <;> try cases h
      rename_i base svcs' hrec
      refine Or.inr (Or.inr (Or.inr ⟨svc, e, ref, file, svcs, key, same, tr', base, svcs', hsvc, he, hp, hr, ht, hrec, ?_⟩))
      split at h
      · simp only [Out.ok.injEq, Prod.mk.injEq] at h
        exact Or.inl ⟨rfl, h.1.symm, h.2.symm⟩
      · rename_i b
        split at h <;> try cases h
        rename_i m hm
        exact Or.inr ⟨b, m, rfl, hm, rfl, rfl⟩
      · cases h
  · cases h

theorem applySvc_sound (E : Env) (hfs : NoNullFS E) :
    ∀ (fuel : Nat) (cf n : String) (cur : KVs) (tr : List Key) (orig : KVs) (v : Val) (cur' : KVs),
      NoNull orig → Inv E orig cur → applySvc E fuel cf n cur tr = .ok (v, cur') →
      (lookup n cur ≠ none → Flat E orig n v) ∧ Inv E orig cur' ∧
      (∀ n', FlatAt E orig cur n' → FlatAt E orig cur' n') := by
  intro fuel
  induction fuel with
  | zero => intro cf n cur tr orig v cur' _ _ h; simp [applySvc] at h
  | succ fuel ih =>
    intro cf n cur tr orig v cur' hnn hi h
    have hnc := hi.noNull hnn
    rcases applySvc_ok_cases h with ⟨h1, _, h3⟩ | ⟨h1, _, _⟩ | ⟨svc, h1, h2, h3, h4⟩ |
      ⟨svc, e, ref, file, svcs, key, same, tr', base, svcs', h1, h2, h3, h4, h5, h6, h7⟩
    · subst h3; exact ⟨fun c => absurd h1 c, hi, fun _ x => x⟩
    · exact absurd h1 (hnc n)
    · subst h3; subst h4; exact ⟨fun _ => hi.flat_of_noext h1 h2, hi, fun _ x => x⟩
    · have horig := hi.orig_of_extends h1 h2
      obtain ⟨hb, href, hcase⟩ := resolveBase_ok h4
      rcases hcase with ⟨hs, hS, hf, _⟩ | ⟨hs, f, hf, hfs', _⟩
      · -- same-file step
        subst hs; subst hf
        rw [hS] at h6 href
        obtain ⟨r1, r2, r3⟩ := ih _ ref cur tr' orig base svcs' hnn hi h6
        have hfb := r1 href
        have hbo : baseMap E orig ref none = some orig := by
          have := (hi.key_iff ref).mp href
          cases hl : lookup ref orig with
          | none => exact absurd hl this
          | some x => simp [baseMap, hl]
        rcases h7 with ⟨hbn, _, _⟩ | ⟨b, m, hbm, hext, hv, hc⟩
        · subst hbn; obtain ⟨_, hm, _⟩ := hfb.shape; cases hm
        · subst hbm; subst hv
          have hflat : Flat E orig n (.map (Val.erase "extends" m)) := Flat.step horig h2 h3 hbo hfb hext
          simp only [↓reduceIte] at hc
          subst hc
          exact ⟨fun _ => hflat, r2.insert hflat, fun n' x => FlatAt.insert hflat (r3 n' x)⟩
      · -- cross-file step
        subst hs; subst hf
        have hnS := hfs f svcs hfs'
        obtain ⟨r1, _, _⟩ := ih _ ref svcs tr' svcs base svcs' hnS (Inv.refl E svcs) h6
        have hfb := r1 href
        have hbo : baseMap E orig ref (some f) = some svcs := by
          simp only [baseMap, hfs']
          cases hl : lookup ref svcs with
          | none => exact absurd hl href
          | some x => simp
        rcases h7 with ⟨hbn, _, _⟩ | ⟨b, m, hbm, hext, hv, hc⟩
        · subst hbn; obtain ⟨_, hm, _⟩ := hfb.shape; cases hm
        · subst hbm; subst hv
          have hflat : Flat E orig n (.map (Val.erase "extends" m)) := Flat.step horig h2 h3 hbo hfb hext
          simp only [Bool.false_eq_true, ↓reduceIte] at hc
          subst hc
          exact ⟨fun _ => hflat, hi, fun _ x => x⟩

theorem applyAll_sound (E : Env) (hfs : NoNullFS E) (fuel : Nat) :
    ∀ (names : List String) (cur orig R : KVs),
      NoNull orig → Inv E orig cur → (∀ n ∈ names, lookup n orig ≠ none) →
      applyAll E fuel names cur = .ok R →
      Inv E orig R ∧ (∀ n', FlatAt E orig cur n' → FlatAt E orig R n') ∧
      (∀ n ∈ names, FlatAt E orig R n) := by
  intro names
  induction names with
  | nil =>
    intro cur orig R _ hi _ h
    simp only [applyAll, Out.ok.injEq] at h
    subst h
    exact ⟨hi, fun _ x => x, fun _ hn => by cases hn⟩
  | cons n ns ih =>
    intro cur orig R hnn hi hk h
    simp only [applyAll] at h
    split at h <;> try cases h
    rename_i v S' hs
    have hkn : lookup n orig ≠ none := hk n (List.mem_cons_self ..)
    obtain ⟨r1, r2, r3⟩ := applySvc_sound E hfs fuel E.mainFile n cur [] orig v S' hnn hi hs
    have hflat := r1 ((hi.key_iff n).mpr hkn)
    obtain ⟨q1, q2, q3⟩ := ih (Val.insert n v S') orig R hnn (r2.insert hflat)
      (fun m hm => hk m (List.mem_cons_of_mem _ hm)) h
    refine ⟨q1, fun n' x => q2 n' (FlatAt.insert hflat (r3 n' x)), ?_⟩
    intro m hm
    rcases List.mem_cons.mp hm with rfl | hm'
    · exact q2 _ ⟨v, lookup_insert_self _ _ _, hflat⟩
    · exact q3 m hm'

/-! ## chains: links are deterministic, a flattened service is not on a cycle -/

theorem Link.functional {E : Env} {a b b' : KVs × String} (h : Link E a b) (h' : Link E a b') : b = b' := by
  obtain ⟨svc, e, file, h1, h2, h3, h4⟩ := h
  obtain ⟨svc', e', file', g1, g2, g3, g4⟩ := h'
  have e1 := h1.symm.trans g1
  simp only [Option.some.injEq, Val.map.injEq] at e1
  subst e1
  have e2 := h2.symm.trans g2
  simp only [Option.some.injEq] at e2
  subst e2
  have e3 := h3.symm.trans g3
  simp only [Out.ok.injEq, Prod.mk.injEq] at e3
  obtain ⟨e3a, e3b⟩ := e3
  subst e3b
  rw [← e3a] at g4
  have e4 := h4.symm.trans g4
  simp only [Option.some.injEq] at e4
  exact Prod.ext e4 e3a

theorem Reach.head {E : Env} {a c : KVs × String} (h : Reach E a c) :
    ∃ b, Link E a b ∧ (b = c ∨ Reach E b c) := by
  cases h with
  | one l => exact ⟨_, l, Or.inl rfl⟩
  | cons l r => exact ⟨_, l, Or.inr r⟩

theorem Reach.snoc {E : Env} {a b c : KVs × String} (h : Reach E a b) (l : Link E b c) : Reach E a c := by
  induction h with
  | one l' => exact Reach.cons l' (Reach.one l)
  | cons l' _ ih => exact Reach.cons l' (ih l)

/-- a service that has a flattened form is neither on a cycle nor leads into one -/
theorem Flat.acyclic {E : Env} {S : KVs} {n : String} {v : Val} (h : Flat E S n v) :
    ∀ c, (c = (S, n) ∨ Reach E (S, n) c) → ¬ Reach E c c := by
  induction h with
  | leaf h1 h2 =>
    rename_i S n svc
    have nolink : ∀ b, ¬ Link E (S, n) b := by
      intro b ⟨svc', e, file, g1, g2, _, _⟩
      have e1 := h1.symm.trans g1
      simp only [Option.some.injEq, Val.map.injEq] at e1
      subst e1
      rw [h2] at g2; cases g2
    intro c hc hcc
    rcases hc with rfl | hr
    · obtain ⟨b, l, _⟩ := hcc.head; exact nolink b l
    · obtain ⟨b, l, _⟩ := hr.head; exact nolink b l
  | step h1 h2 h3 h4 h5 h6 ih =>
    rename_i S n svc e ref file S' b m
    have l0 : Link E (S, n) (S', ref) := ⟨svc, e, file, h1, h2, h3, h4⟩
    intro c hc hcc
    rcases hc with rfl | hr
    · obtain ⟨b', l, hb⟩ := hcc.head
      have := Link.functional l l0
      subst this
      rcases hb with hb | hb
      · exact ih (S', ref) (Or.inl rfl) (hb ▸ hcc)
      · exact ih (S', ref) (Or.inl rfl) (hb.snoc l0)
    · obtain ⟨b', l, hb⟩ := hr.head
      have := Link.functional l l0
      subst this
      rcases hb with hb | hb
      · exact ih c (Or.inl hb.symm) hcc
      · exact ih c (Or.inr hb) hcc

theorem Flat.not_cyclic {E : Env} {S : KVs} {n : String} {v : Val} (h : Flat E S n v) : ¬ Cyclic E (S, n) := by
  intro hc
  rcases hc with hc | ⟨c, h1, h2⟩
  · exact h.acyclic _ (Or.inl rfl) hc
  · exact h.acyclic c (Or.inr h1) h2

/-! ## the executable flatten specification agrees with `Flat` -/

theorem flattenF_sound (E : Env) : ∀ (fuel : Nat) (S : KVs) (n : String) (v : Val),
    flattenF E fuel S n = .ok v → Flat E S n v := by
  intro fuel
  induction fuel with
  | zero => intro S n v h; simp [flattenF] at h
  | succ fuel ih =>
    intro S n v h
    simp only [flattenF] at h
    split at h <;> try cases h
    rename_i svc hsvc
    split at h
    · simp only [Out.ok.injEq] at h; subst h; exact Flat.leaf hsvc (by assumption)
    · rename_i e he
      split at h <;> try cases h
      rename_i ref file hp
      split at h <;> try cases h
      rename_i S' hb
      split at h <;> try cases h
      rename_i b hrec
      split at h <;> try cases h
      rename_i m hm
      exact Flat.step hsvc he hp hb (ih S' ref _ hrec) hm

theorem flattenF_complete (E : Env) {S : KVs} {n : String} {v : Val} (h : Flat E S n v) :
    ∃ fuel, flattenF E fuel S n = .ok v := by
  induction h with
  | leaf h1 h2 => exact ⟨1, by simp [flattenF, h1, h2]⟩
  | step h1 h2 h3 h4 h5 h6 ih =>
    obtain ⟨fuel, hf⟩ := ih
    exact ⟨fuel + 1, by simp [flattenF, h1, h2, h3, h4, hf, h6]⟩

end CV.Extends
