import ComposeVerif.Model.Select
import ComposeVerif.Spec.Select
/-! helper lemmas for C15: association lists, then the operations one by one -/
namespace CV.Sel

/-! ## association lists -/
section AL
variable {α : Type}

@[simp] theorem keys_nil : keys ([] : AL α) = [] := rfl
@[simp] theorem keys_cons (k : String) (v : α) (m : AL α) : keys ((k, v) :: m) = k :: keys m := rfl

theorem mem_keys {k : String} {m : AL α} : k ∈ keys m ↔ ∃ v, (k, v) ∈ m := by
  induction m with
  | nil => simp
  | cons h t ih => obtain ⟨k', v'⟩ := h; simp [ih]; grind

theorem mem_keys_of_mem {kv : String × α} {m : AL α} (h : kv ∈ m) : kv.1 ∈ keys m :=
  mem_keys.2 ⟨kv.2, h⟩

theorem lookup_isSome {k : String} {m : AL α} : (lookup k m).isSome ↔ k ∈ keys m := by
  induction m with
  | nil => simp [lookup]
  | cons h t ih => obtain ⟨k', v'⟩ := h; simp only [lookup, keys_cons, List.mem_cons]; split <;> simp_all

theorem lookup_eq_none {k : String} {m : AL α} : lookup k m = none ↔ k ∉ keys m := by
  rw [← lookup_isSome]; cases lookup k m <;> simp

theorem mem_of_lookup {k : String} {v : α} {m : AL α} (h : lookup k m = some v) : (k, v) ∈ m := by
  induction m with
  | nil => simp [lookup] at h
  | cons hd t ih =>
    obtain ⟨k', v'⟩ := hd
    simp only [lookup] at h
    split at h
    · cases h; subst_vars; simp
    · simp [ih h]

theorem lookup_of_mem {k : String} {v : α} {m : AL α} (nd : (keys m).Nodup) (h : (k, v) ∈ m) : lookup k m = some v := by
  induction m with
  | nil => cases h
  | cons hd t ih =>
    obtain ⟨k', v'⟩ := hd
    simp only [keys_cons, List.nodup_cons] at nd
    simp only [lookup]
    rcases List.mem_cons.1 h with h | h
    · cases h; simp
    · have : k ≠ k' := fun e => nd.1 (e ▸ mem_keys.2 ⟨v, h⟩)
      simp [this, ih nd.2 h]

theorem keys_of_lookup {k : String} {v : α} {m : AL α} (h : lookup k m = some v) : k ∈ keys m :=
  mem_keys.2 ⟨v, mem_of_lookup h⟩

theorem mem_keys_insert {k x : String} {v : α} {m : AL α} : x ∈ keys (insert k v m) ↔ x = k ∨ x ∈ keys m := by
  induction m with
  | nil => simp [insert]
  | cons hd t ih =>
    obtain ⟨k', v'⟩ := hd
    simp only [insert]; split
    · subst_vars; simp
    · simp [ih]; grind

theorem nodup_insert {k : String} {v : α} {m : AL α} (nd : (keys m).Nodup) : (keys (insert k v m)).Nodup := by
  induction m with
  | nil => simp [insert]
  | cons hd t ih =>
    obtain ⟨k', v'⟩ := hd
    simp only [keys_cons, List.nodup_cons] at nd
    simp only [insert]; split
    · subst_vars; simp [nd.1, nd.2]
    · rename_i hne
      simp only [keys_cons, List.nodup_cons, mem_keys_insert, not_or]
      exact ⟨⟨fun e => hne e.symm, nd.1⟩, ih nd.2⟩

theorem lookup_insert {k x : String} {v : α} {m : AL α} :
    lookup x (insert k v m) = if x = k then some v else lookup x m := by
  induction m with
  | nil => simp [insert, lookup]
  | cons hd t ih =>
    obtain ⟨k', v'⟩ := hd
    simp only [insert]; split
    · subst_vars; simp only [lookup]; split <;> simp_all
    · simp only [lookup, ih]; split <;> split <;> simp_all

theorem insert_of_not_mem {k : String} {v : α} {m : AL α} (h : k ∉ keys m) : insert k v m = m ++ [(k, v)] := by
  induction m with
  | nil => rfl
  | cons hd t ih =>
    obtain ⟨k', v'⟩ := hd
    simp only [keys_cons, List.mem_cons, not_or] at h
    simp [insert, h.1, ih h.2]

theorem mem_keys_erase {k x : String} {m : AL α} : x ∈ keys (erase k m) ↔ x ≠ k ∧ x ∈ keys m := by
  induction m with
  | nil => simp [erase]
  | cons hd t ih =>
    obtain ⟨k', v'⟩ := hd
    simp only [erase]; split
    · subst_vars; simp [ih]; grind
    · simp [ih]; grind

theorem erase_eq_filter {k : String} {m : AL α} : erase k m = m.filter (fun kv => kv.1 ≠ k) := by
  induction m with
  | nil => rfl
  | cons hd t ih =>
    obtain ⟨k', v'⟩ := hd
    simp only [erase]; split
    · subst_vars; simp [ih]
    · rename_i h; simp [ih, Ne.symm h]

theorem keys_filter_sublist (f : String × α → Bool) (m : AL α) : (keys (m.filter f)).Sublist (keys m) := by
  unfold keys; exact List.Sublist.map _ List.filter_sublist

theorem nodup_filter {f : String × α → Bool} {m : AL α} (nd : (keys m).Nodup) : (keys (m.filter f)).Nodup :=
  List.Nodup.sublist (keys_filter_sublist f m) nd

theorem nodup_erase {k : String} {m : AL α} (nd : (keys m).Nodup) : (keys (erase k m)).Nodup := by
  rw [erase_eq_filter]; exact nodup_filter nd

theorem lookup_erase {k x : String} {m : AL α} : lookup x (erase k m) = if x = k then none else lookup x m := by
  induction m with
  | nil => simp [erase, lookup]
  | cons hd t ih =>
    obtain ⟨k', v'⟩ := hd
    simp only [erase]; split
    · subst_vars; simp only [lookup, ih]; split <;> simp_all
    · simp only [lookup, ih]; split <;> split <;> simp_all

theorem lookup_filter {f : String × α → Bool} {k : String} {m : AL α} (nd : (keys m).Nodup) :
    lookup k (m.filter f) = (lookup k m).filter (fun v => f (k, v)) := by
  induction m with
  | nil => simp [lookup]
  | cons hd t ih =>
    obtain ⟨k', v'⟩ := hd
    simp only [keys_cons, List.nodup_cons] at nd
    simp only [List.filter_cons]
    by_cases hk : k = k'
    · subst hk
      have hn : lookup k (t.filter f) = none := lookup_eq_none.2 fun h => nd.1 ((keys_filter_sublist f t).subset h)
      split
      · rename_i hf; simp only [lookup, Option.filter, hf, if_pos]
      · rename_i hf; rw [hn]; simp only [lookup, if_true, Option.filter, hf]; simp
    · have e : lookup k ((k', v') :: t) = lookup k t := by simp only [lookup, if_neg hk]
      rw [e]
      split
      · simp only [lookup, if_neg hk]; exact ih nd.2
      · exact ih nd.2

theorem lookup_map_val {β : Type} (g : String → α → β) {k : String} {m : AL α} :
    lookup k (m.map fun kv => (kv.1, g kv.1 kv.2)) = (lookup k m).map (g k) := by
  induction m with
  | nil => simp [lookup]
  | cons hd t ih =>
    obtain ⟨k', v'⟩ := hd
    simp only [List.map_cons, lookup]; split
    · subst_vars; simp
    · simp [ih]

theorem keys_map_val {β : Type} (g : String → α → β) (m : AL α) :
    keys (m.map fun kv => (kv.1, g kv.1 kv.2)) = keys m := by
  simp [keys, List.map_map, Function.comp_def]

theorem insertAll_append {src dst : AL α} (nd : (keys src).Nodup) (dj : ∀ k ∈ keys src, k ∉ keys dst) :
    insertAll src dst = dst ++ src := by
  unfold insertAll
  induction src generalizing dst with
  | nil => simp
  | cons hd t ih =>
    obtain ⟨k, v⟩ := hd
    simp only [keys_cons, List.nodup_cons] at nd
    simp only [List.foldl_cons]
    rw [insert_of_not_mem (dj k (by simp)), ih nd.2]
    · simp
    · intro x hx; simp only [keys, List.map_append, List.mem_append, not_or]
      refine ⟨dj x (by simp [hx]), ?_⟩
      simp only [List.map_cons, List.map_nil, List.mem_singleton]
      intro e; exact nd.1 (e ▸ hx)

theorem lookup_append {k : String} {a b : AL α} :
    lookup k (a ++ b) = match lookup k a with | some v => some v | none => lookup k b := by
  induction a with
  | nil => simp [lookup]
  | cons hd t ih => obtain ⟨k', v'⟩ := hd; simp only [List.cons_append, lookup]; split <;> simp_all

theorem lookup_perm {k : String} {a b : AL α} (h : a.Perm b) (nd : (keys a).Nodup) : lookup k a = lookup k b := by
  have ndb : (keys b).Nodup := (List.Perm.map Prod.fst h).nodup_iff.1 nd
  cases hb : lookup k b with
  | none =>
    rw [lookup_eq_none] at hb ⊢
    exact fun hk => hb ((List.Perm.map Prod.fst h).mem_iff.1 hk)
  | some v => exact lookup_of_mem nd (h.mem_iff.2 (mem_of_lookup hb))

theorem filter_disjoint {f : String × α → Bool} {m : AL α} (nd : (keys m).Nodup) :
    ∀ k ∈ keys (m.filter f), k ∉ keys (m.filter (fun kv => !f kv)) := by
  intro k h1 h2
  obtain ⟨v, hv⟩ := mem_keys.1 h1
  obtain ⟨w, hw⟩ := mem_keys.1 h2
  rw [List.mem_filter] at hv hw
  have e := (lookup_of_mem nd hv.1).symm.trans (lookup_of_mem nd hw.1)
  cases e
  simp [hv.2] at hw

theorem keys_append (a b : AL α) : keys (a ++ b) = keys a ++ keys b := by simp [keys]

theorem mem_keys_filter {f : String × α → Bool} {m : AL α} {k : String} :
    k ∈ keys (m.filter f) ↔ ∃ v, (k, v) ∈ m ∧ f (k, v) = true := by
  simp [mem_keys, List.mem_filter]

end AL

/-! ## profiles -/

theorem hasProfile_iff (s : Svc) (P : List String) : hasProfile s P = true ↔ Active s P := by
  unfold hasProfile Active
  simp only [Bool.or_eq_true, List.isEmpty_iff, List.any_eq_true, beq_iff_eq, List.contains_iff_mem]
  constructor
  · rintro (h | ⟨x, hx, h | h⟩)
    · exact .inl h
    · exact .inr (.inl (h ▸ hx))
    · exact .inr (.inr ⟨x, h, hx⟩)
  · rintro (h | h | ⟨x, h1, h2⟩)
    · exact .inl h
    · exact .inr ⟨"*", h, .inl rfl⟩
    · exact .inr ⟨x, h2, .inr h1⟩

theorem nodup_all {p : Proj} (h : Partition p) : (keys (p.services ++ p.disabled)).Nodup := by
  rw [keys_append, List.nodup_append]
  exact ⟨h.1, h.2.1, fun a ha b hb e => h.2.2 a ha (e ▸ hb)⟩

theorem allServices_eq {p : Proj} (h : Partition p) : allServices p = p.services ++ p.disabled := by
  unfold allServices
  rw [insertAll_append h.1 (by simp), insertAll_append h.2.1]
  · simp
  · intro k hk hk'
    simp only [List.nil_append] at hk'
    exact h.2.2 k hk' hk

theorem find_eq_lookup (p : Proj) (k : String) : find p k = lookup k (p.services ++ p.disabled) := by
  unfold find; rw [lookup_append]; cases lookup k p.services <;> rfl

theorem mem_known {p : Proj} {k : String} : k ∈ known p ↔ k ∈ keys p.services ∨ k ∈ keys p.disabled := by
  simp [known]

theorem known_eq (p : Proj) : known p = keys (p.services ++ p.disabled) := by simp [known, keys_append]

theorem withProfiles_services {p : Proj} (h : Partition p) (P : List String) :
    (withProfiles p P).services = (p.services ++ p.disabled).filter (fun kv => hasProfile kv.2 P) := by
  simp [withProfiles, allServices_eq h]

theorem withProfiles_disabled {p : Proj} (h : Partition p) (P : List String) :
    (withProfiles p P).disabled = (p.services ++ p.disabled).filter (fun kv => !hasProfile kv.2 P) := by
  simp [withProfiles, allServices_eq h]

theorem withProfiles_partition {p : Proj} (h : Partition p) (P : List String) : Partition (withProfiles p P) := by
  refine ⟨?_, ?_, ?_⟩
  · rw [withProfiles_services h]; exact nodup_filter (nodup_all h)
  · rw [withProfiles_disabled h]; exact nodup_filter (nodup_all h)
  · rw [withProfiles_services h, withProfiles_disabled h]; exact filter_disjoint (nodup_all h)

theorem lookup_withProfiles_services {p : Proj} (h : Partition p) (P : List String) (k : String) :
    lookup k (withProfiles p P).services = (find p k).filter (fun s => hasProfile s P) := by
  rw [withProfiles_services h, lookup_filter (nodup_all h), find_eq_lookup]

theorem lookup_withProfiles_disabled {p : Proj} (h : Partition p) (P : List String) (k : String) :
    lookup k (withProfiles p P).disabled = (find p k).filter (fun s => !hasProfile s P) := by
  rw [withProfiles_disabled h, lookup_filter (nodup_all h), find_eq_lookup]

theorem find_withProfiles {p : Proj} (h : Partition p) (P : List String) (k : String) :
    find (withProfiles p P) k = find p k := by
  unfold find
  rw [lookup_withProfiles_services h, lookup_withProfiles_disabled h]
  change (match (find p k).filter _ with | some s => some s | none => (find p k).filter _) = find p k
  cases find p k with
  | none => rfl
  | some s => cases hs : hasProfile s P <;> simp [Option.filter, hs]

theorem known_withProfiles {p : Proj} (h : Partition p) (P : List String) (k : String) :
    k ∈ known (withProfiles p P) ↔ k ∈ known p := by
  rw [known_eq, known_eq, ← lookup_isSome, ← lookup_isSome, ← find_eq_lookup, ← find_eq_lookup, find_withProfiles h]

/-- every `depends_on` map has distinct keys (true of every Go map) -/
def SvcWF (p : Proj) : Prop := ∀ kv ∈ p.services ++ p.disabled, (keys kv.2.deps).Nodup

theorem svcWF_of_find {p : Proj} (w : SvcWF p) {k : String} {s : Svc} (h : find p k = some s) : (keys s.deps).Nodup := by
  rw [find_eq_lookup] at h
  exact w (k, s) (mem_of_lookup h)

theorem find_isSome_of_known {p : Proj} {k : String} (h : k ∈ known p) : ∃ s, find p k = some s := by
  rw [known_eq, ← lookup_isSome, ← find_eq_lookup] at h
  exact Option.isSome_iff_exists.1 h

theorem known_of_find {p : Proj} {k : String} {s : Svc} (h : find p k = some s) : k ∈ known p := by
  rw [known_eq, ← lookup_isSome, ← find_eq_lookup, h]; rfl

theorem depsShrink_refl {s : Svc} (nd : (keys s.deps).Nodup) : depsShrink s s :=
  fun kv h => lookup_of_mem nd h

theorem conserved_of_find_eq {p q : Proj} (w : SvcWF p) (hq : Partition q) (h : ∀ k, find q k = find p k) :
    Conserved p q := by
  have hk : ∀ k, k ∈ known q ↔ k ∈ known p := fun k => by
    rw [known_eq, known_eq, ← lookup_isSome, ← lookup_isSome, ← find_eq_lookup, ← find_eq_lookup, h]
  refine ⟨hq, ⟨fun x hx => (hk x).2 hx, fun x hx => (hk x).1 hx⟩, fun k hkq => ?_⟩
  obtain ⟨s, hs⟩ := find_isSome_of_known ((hk k).1 hkq)
  rw [h k, hs]
  exact ⟨rfl, depsShrink_refl (svcWF_of_find w hs)⟩

theorem svcWF_of_find_eq {p q : Proj} (w : SvcWF p) (h : ∀ k s, find q k = some s → find p k = some s)
    (hq : Partition q) : SvcWF q := by
  intro kv hkv
  have := lookup_of_mem (nodup_all hq) (show (kv.1, kv.2) ∈ _ from hkv)
  rw [← find_eq_lookup] at this
  exact svcWF_of_find w (h _ _ this)

theorem withProfiles_spec {p : Proj} (h : Partition p) (P : List String) : ProfilesSpec p P (withProfiles p P) := by
  refine ⟨rfl, fun k hk => ?_, fun k _ => find_withProfiles h P k⟩
  obtain ⟨s, hs⟩ := find_isSome_of_known hk
  rw [hs]
  show _ ↔ _
  rw [← lookup_isSome, lookup_withProfiles_services h, ← find_withProfiles h P k, hs, ← hasProfile_iff]
  cases hp : hasProfile s P <;> simp [Option.filter, hp]

theorem withProfiles_profilesOK {p : Proj} (h : Partition p) (P : List String) : ProfilesOK (withProfiles p P) := by
  intro kv hkv
  rw [withProfiles_services h, List.mem_filter] at hkv
  exact (hasProfile_iff _ _).1 hkv.2

theorem Active.mono {s : Svc} {P P' : List String} (h : Active s P) (sub : ∀ x ∈ P, x ∈ P') : Active s P' := by
  rcases h with h | h | ⟨x, h1, h2⟩
  · exact .inl h
  · exact .inr (.inl (sub _ h))
  · exact .inr (.inr ⟨x, h1, sub _ h2⟩)

/-! ## enabling -/

theorem enableProfiles_eq (p : Proj) (names : List String) :
    enableProfiles p names = p.profiles ++ wantedProfiles p names := by
  unfold enableProfiles wantedProfiles
  generalize p.profiles = acc
  induction names generalizing acc with
  | nil => simp
  | cons n ns ih =>
    simp only [List.foldl_cons, List.flatMap_cons]
    rw [ih]
    by_cases hn : n ∈ keys p.services
    · have : has n p.services = true := by unfold has; exact lookup_isSome.2 hn
      simp [this, hn]
    · have : has n p.services = false := by
        unfold has; cases h : (lookup n p.services).isSome
        · rfl
        · exact absurd (lookup_isSome.1 h) hn
      simp [this, hn]
      cases lookup n p.disabled <;> rfl

theorem withServicesEnabled_spec {p : Proj} (h : Partition p) (names : List String) :
    EnableSpec p names (withServicesEnabled p names) := by
  unfold EnableSpec withServicesEnabled
  by_cases hn : names = []
  · simp [hn]
  · have hne : names.isEmpty = false := by cases names <;> simp_all
    rw [if_neg hn, hne, enableProfiles_eq]
    simp only [Bool.false_eq_true, if_false]
    refine ⟨withProfiles_spec h _, fun ok n hnm hkn => ?_⟩
    obtain ⟨s, hs⟩ := find_isSome_of_known hkn
    have act : Active s (p.profiles ++ wantedProfiles p names) ∧
        (n ∉ keys p.services → ∀ x ∈ s.profiles, x ∈ p.profiles ++ wantedProfiles p names) := by
      by_cases hsv : n ∈ keys p.services
      · refine ⟨?_, fun c => absurd hsv c⟩
        obtain ⟨s', hs'⟩ := Option.isSome_iff_exists.1 (lookup_isSome.2 hsv)
        have e : find p n = some s' := by unfold find; rw [hs']
        rw [hs] at e; cases e
        exact (ok (n, s) (mem_of_lookup hs')).mono (fun x hx => List.mem_append_left _ hx)
      · have hl : lookup n p.services = none := lookup_eq_none.2 hsv
        have hd : lookup n p.disabled = some s := by unfold find at hs; rw [hl] at hs; exact hs
        have sub : ∀ x ∈ s.profiles, x ∈ p.profiles ++ wantedProfiles p names := by
          intro x hx
          refine List.mem_append_right _ ?_
          unfold wantedProfiles
          rw [List.mem_flatMap]
          exact ⟨n, hnm, by simp [hsv, hd, hx]⟩
        refine ⟨?_, fun _ => sub⟩
        by_cases he : s.profiles = []
        · exact .inl he
        · obtain ⟨x, hx⟩ := List.exists_mem_of_ne_nil _ he
          exact .inr (.inr ⟨x, hx, sub x hx⟩)
    have hq : find (withProfiles p (p.profiles ++ wantedProfiles p names)) n = some s := by
      rw [find_withProfiles h, hs]
    refine ⟨?_, ?_⟩
    · rw [← lookup_isSome, lookup_withProfiles_services h, hs]
      simp [Option.filter, (hasProfile_iff _ _).2 act.1]
    · rw [hq]; exact act

theorem withServicesEnabled_eq (p : Proj) (names : List String) :
    withServicesEnabled p names = p ∨ withServicesEnabled p names = withProfiles p (enableProfiles p names) := by
  unfold withServicesEnabled; split <;> simp

/-! ## carried-over contents -/

/-- `t` is `s` with some dependencies removed -/
def SvcLe (s t : Svc) : Prop := sameButDeps s t ∧ depsShrink s t

def optRel {α} (r : α → α → Prop) : Option α → Option α → Prop
  | some a, some b => r a b
  | none, none => True
  | _, _ => False

/-- every service of `p` is a service of `q` (and conversely), with possibly fewer dependencies -/
def Carried (p q : Proj) : Prop := ∀ k, optRel SvcLe (find p k) (find q k)

theorem SvcLe.refl {s : Svc} (nd : (keys s.deps).Nodup) : SvcLe s s := ⟨rfl, depsShrink_refl nd⟩

theorem SvcLe.trans {a b c : Svc} (h1 : SvcLe a b) (h2 : SvcLe b c) : SvcLe a c := by
  refine ⟨h1.1.trans h2.1, fun kv hkv => ?_⟩
  have := h2.2 kv hkv
  exact h1.2 (kv.1, kv.2) (mem_of_lookup this)

theorem Carried.refl {p : Proj} (w : SvcWF p) : Carried p p := by
  intro k
  cases h : find p k with
  | none => trivial
  | some s => exact SvcLe.refl (svcWF_of_find w h)

theorem Carried.trans {p q r : Proj} (h1 : Carried p q) (h2 : Carried q r) : Carried p r := by
  intro k
  have a := h1 k; have b := h2 k
  cases hp : find p k <;> cases hq : find q k <;> cases hr : find r k <;> simp_all [optRel]
  exact SvcLe.trans a b

theorem Carried.known {p q : Proj} (h : Carried p q) (k : String) : k ∈ known p ↔ k ∈ known q := by
  rw [known_eq, known_eq, ← lookup_isSome, ← lookup_isSome, ← find_eq_lookup, ← find_eq_lookup]
  have := h k
  cases hp : find p k <;> cases hq : find q k <;> simp_all [optRel]

theorem conserved_of_carried {p q : Proj} (hq : Partition q) (h : Carried p q) : Conserved p q := by
  refine ⟨hq, ⟨fun x hx => (h.known x).1 hx, fun x hx => (h.known x).2 hx⟩, fun k hk => ?_⟩
  have := h k
  obtain ⟨t, ht⟩ := find_isSome_of_known hk
  cases hp : find p k with
  | none => simp [hp, ht, optRel] at this
  | some s => rw [hp, ht] at this; rw [ht]; exact this

theorem svcWF_of_carried {p q : Proj} (w : SvcWF p) (hq : Partition q) (h : Carried p q)
    (nd : ∀ k t, find q k = some t → (keys t.deps).Nodup) : SvcWF q := by
  intro kv hkv
  have := lookup_of_mem (nodup_all hq) (show (kv.1, kv.2) ∈ _ from hkv)
  rw [← find_eq_lookup] at this
  exact nd _ _ this

/-! ## disabling -/

theorem lookup_dropAll (n k : String) (m : AL Svc) :
    lookup k (m.map fun kv => (kv.1, dropDep n kv.2)) = (lookup k m).map (dropDep n) :=
  lookup_map_val (fun _ s => dropDep n s)

theorem keys_dropAll (n : String) (m : AL Svc) : keys (m.map fun kv => (kv.1, dropDep n kv.2)) = keys m :=
  keys_map_val (fun _ s => dropDep n s) m

theorem disableOne_profiles (p : Proj) (n : String) : (disableOne p n).profiles = p.profiles := by
  unfold disableOne; simp only []; split <;> rfl

theorem disableOne_resources (p : Proj) (n : String) : sameResources p (disableOne p n) := by
  unfold disableOne sameResources; simp only []; split <;> simp

theorem lookup_disableOne_services (p : Proj) (n k : String) :
    lookup k (disableOne p n).services = if k = n then none else (lookup k p.services).map (dropDep n) := by
  unfold disableOne; simp only []
  split
  · simp only [lookup_erase, lookup_dropAll]
  · rename_i h
    rw [lookup_dropAll] at h
    simp only [lookup_dropAll]
    split
    · subst_vars; exact h
    · rfl

theorem lookup_disableOne_disabled (p : Proj) (n k : String) :
    lookup k (disableOne p n).disabled =
      if k = n ∧ n ∈ keys p.services then (lookup n p.services).map (dropDep n) else lookup k p.disabled := by
  unfold disableOne; simp only []
  split
  · rename_i s h
    rw [lookup_dropAll] at h
    have hn : n ∈ keys p.services := by
      rw [← lookup_isSome]; cases h' : lookup n p.services <;> simp_all
    simp only [lookup_insert, hn, and_true, h]
  · rename_i h
    rw [lookup_dropAll] at h
    have hn : n ∉ keys p.services := by
      rw [← lookup_eq_none]; cases h' : lookup n p.services <;> simp_all
    simp [hn]

theorem mem_keys_disableOne_services {p : Proj} {n k : String} :
    k ∈ keys (disableOne p n).services ↔ k ∈ keys p.services ∧ k ≠ n := by
  rw [← lookup_isSome, lookup_disableOne_services, ← lookup_isSome]
  split
  · simp_all
  · cases lookup k p.services <;> simp_all

theorem mem_keys_disableOne_disabled {p : Proj} {n k : String} :
    k ∈ keys (disableOne p n).disabled ↔ k ∈ keys p.disabled ∨ (k = n ∧ n ∈ keys p.services) := by
  rw [← lookup_isSome, lookup_disableOne_disabled]
  split
  · rename_i h
    have : (Option.map (dropDep n) (lookup n p.services)).isSome := by
      rw [Option.isSome_map, lookup_isSome]; exact h.2
    simp [this, h]
  · rename_i h; rw [lookup_isSome]; simp [h]

theorem disableOne_partition {p : Proj} (h : Partition p) (n : String) : Partition (disableOne p n) := by
  refine ⟨?_, ?_, fun k hk hd => ?_⟩
  · unfold disableOne; simp only []
    split
    · exact nodup_erase (by rw [keys_dropAll]; exact h.1)
    · rw [keys_dropAll]; exact h.1
  · unfold disableOne; simp only []
    split
    · exact nodup_insert h.2.1
    · exact h.2.1
  · rw [mem_keys_disableOne_services] at hk
    rw [mem_keys_disableOne_disabled] at hd
    rcases hd with hd | hd
    · exact h.2.2 k hk.1 hd
    · exact hk.2 hd.1

theorem find_disableOne (p : Proj) (n k : String) :
    find (disableOne p n) k = (find p k).map (fun s => if k ∈ keys p.services then dropDep n s else s) := by
  unfold find
  rw [lookup_disableOne_services, lookup_disableOne_disabled]
  by_cases hk : k ∈ keys p.services
  · obtain ⟨s, hs⟩ := Option.isSome_iff_exists.1 (lookup_isSome.2 hk)
    by_cases hn : k = n
    · subst hn; simp [hs, hk]
    · simp [hs, hk, hn]
  · have hs : lookup k p.services = none := lookup_eq_none.2 hk
    have : ¬(k = n ∧ n ∈ keys p.services) := fun ⟨e, h⟩ => hk (e ▸ h)
    simp only [hs, Option.map_none, ite_self, if_neg this, if_neg hk]
    cases lookup k p.disabled <;> simp

theorem svcLe_dropDep {s : Svc} (nd : (keys s.deps).Nodup) (n : String) : SvcLe s (dropDep n s) := by
  refine ⟨rfl, fun kv hkv => ?_⟩
  simp only [dropDep, erase_eq_filter, List.mem_filter] at hkv
  exact lookup_of_mem nd hkv.1

theorem carried_disableOne {p : Proj} (w : SvcWF p) (n : String) : Carried p (disableOne p n) := by
  intro k
  rw [find_disableOne]
  cases h : find p k with
  | none => trivial
  | some s =>
    have nd := svcWF_of_find w h
    simp only [Option.map_some, optRel]
    split
    · exact svcLe_dropDep nd n
    · exact SvcLe.refl nd

theorem svcWF_disableOne {p : Proj} (h : Partition p) (w : SvcWF p) (n : String) : SvcWF (disableOne p n) := by
  refine svcWF_of_carried w (disableOne_partition h n) (carried_disableOne w n) fun k t ht => ?_
  rw [find_disableOne] at ht
  cases hs : find p k with
  | none => simp [hs] at ht
  | some s =>
    have nd := svcWF_of_find w hs
    simp only [hs, Option.map_some, Option.some.injEq] at ht
    subst ht
    split
    · exact nodup_erase nd
    · exact nd

theorem withServicesDisabled_inv {p : Proj} (h : Partition p) (w : SvcWF p) (names : List String) :
    Partition (withServicesDisabled p names) ∧ SvcWF (withServicesDisabled p names) ∧
    Carried p (withServicesDisabled p names) := by
  unfold withServicesDisabled
  induction names generalizing p with
  | nil => exact ⟨h, w, Carried.refl w⟩
  | cons n ns ih =>
    have := ih (disableOne_partition h n) (svcWF_disableOne h w n)
    exact ⟨this.1, this.2.1, (carried_disableOne w n).trans this.2.2⟩

def dropDeps (names : List String) (s : Svc) : Svc := { s with deps := s.deps.filter (fun d => d.1 ∉ names) }

theorem lookup_withServicesDisabled_services (p : Proj) (names : List String) (k : String) :
    lookup k (withServicesDisabled p names).services =
      if k ∈ names then none else (lookup k p.services).map (dropDeps names) := by
  unfold withServicesDisabled
  induction names generalizing p with
  | nil =>
    simp only [List.foldl_nil, List.not_mem_nil, if_false]
    cases lookup k p.services with
    | none => rfl
    | some s =>
      have : s.deps.filter (fun _ => true) = s.deps := List.filter_eq_self.2 (fun _ _ => rfl)
      simp [dropDeps, this]
  | cons n ns ih =>
    simp only [List.foldl_cons, ih, lookup_disableOne_services, List.mem_cons]
    by_cases h1 : k ∈ ns
    · simp [h1]
    · by_cases h2 : k = n
      · simp [h2]
      · simp only [h1, h2, if_false, or_self]
        cases lookup k p.services with
        | none => rfl
        | some s =>
          simp only [Option.map_some, dropDeps, dropDep, erase_eq_filter, List.filter_filter]
          congr 2
          apply List.filter_congr
          intro d _
          simp only [List.mem_cons, not_or, ne_eq, decide_not, Bool.decide_and, Bool.and_comm]

theorem mem_keys_withServicesDisabled_services {p : Proj} {names : List String} {k : String} :
    k ∈ keys (withServicesDisabled p names).services ↔ k ∈ keys p.services ∧ k ∉ names := by
  rw [← lookup_isSome, lookup_withServicesDisabled_services, ← lookup_isSome]
  split
  · simp_all
  · cases lookup k p.services <;> simp_all

theorem withServicesDisabled_profiles (p : Proj) (names : List String) :
    (withServicesDisabled p names).profiles = p.profiles := by
  unfold withServicesDisabled
  induction names generalizing p with
  | nil => rfl
  | cons n ns ih => simp only [List.foldl_cons, ih, disableOne_profiles]

theorem withServicesDisabled_resources (p : Proj) (names : List String) :
    sameResources p (withServicesDisabled p names) := by
  unfold withServicesDisabled
  induction names generalizing p with
  | nil => exact ⟨rfl, rfl, rfl, rfl⟩
  | cons n ns ih =>
    have a := disableOne_resources p n
    have b := ih (disableOne p n)
    simp only [List.foldl_cons]
    exact ⟨a.1.trans b.1, a.2.1.trans b.2.1, a.2.2.1.trans b.2.2.1, a.2.2.2.trans b.2.2.2⟩

theorem lookup_withServicesDisabled_disabled_old {p : Proj} (names : List String) {k : String}
    (hk : k ∉ keys p.services) : lookup k (withServicesDisabled p names).disabled = lookup k p.disabled := by
  unfold withServicesDisabled
  induction names generalizing p with
  | nil => rfl
  | cons n ns ih =>
    simp only [List.foldl_cons]
    rw [ih (fun h => hk (mem_keys_disableOne_services.1 h).1), lookup_disableOne_disabled]
    have : ¬(k = n ∧ n ∈ keys p.services) := fun ⟨e, h⟩ => hk (e ▸ h)
    simp [this]

theorem mem_keys_withServicesDisabled_disabled {p : Proj} {names : List String} {k : String} :
    k ∈ keys (withServicesDisabled p names).disabled ↔ k ∈ keys p.disabled ∨ (k ∈ names ∧ k ∈ keys p.services) := by
  unfold withServicesDisabled
  induction names generalizing p with
  | nil => simp
  | cons n ns ih =>
    simp only [List.foldl_cons, ih, mem_keys_disableOne_disabled, mem_keys_disableOne_services, List.mem_cons]
    by_cases e : k = n
    · subst e; by_cases a : k ∈ keys p.services <;> simp [a]
    · simp [e]

theorem withServicesDisabled_partition {p : Proj} (h : Partition p) (names : List String) :
    Partition (withServicesDisabled p names) := by
  unfold withServicesDisabled
  induction names generalizing p with
  | nil => exact h
  | cons n ns ih => exact ih (disableOne_partition h n)

theorem withServicesDisabled_spec {p : Proj} (h : Partition p) (names : List String) :
    DisableSpec p names (withServicesDisabled p names) := by
  have hq := withServicesDisabled_partition h names
  have deps : ∀ kv ∈ (withServicesDisabled p names).services, kv.1 ∉ names ∧
      sat (lookup kv.1 p.services) fun s => kv.2.deps = s.deps.filter (fun d => d.1 ∉ names) := by
    intro kv hkv
    have hl := lookup_of_mem hq.1 (show (kv.1, kv.2) ∈ _ from hkv)
    rw [lookup_withServicesDisabled_services] at hl
    split at hl
    · cases hl
    · rename_i hn
      refine ⟨hn, ?_⟩
      cases hs : lookup kv.1 p.services with
      | none => simp [hs] at hl
      | some s =>
        simp only [hs, Option.map_some, Option.some.injEq] at hl
        show kv.2.deps = _
        rw [← hl]; rfl
  refine ⟨⟨fun x hx => ?_, fun x hx => ?_⟩, fun kv hkv d hd => ?_, fun kv hkv => (deps kv hkv).2,
    fun kv hkv => ?_, withServicesDisabled_profiles p names⟩
  · rw [mem_keys_withServicesDisabled_services] at hx
    simp [List.mem_filter, hx.1, hx.2]
  · simp only [List.mem_filter, decide_eq_true_eq] at hx
    exact mem_keys_withServicesDisabled_services.2 hx
  · have := (deps kv hkv).2
    cases hs : lookup kv.1 p.services with
    | none => simp [hs, sat] at this
    | some s =>
      simp only [hs, sat] at this
      rw [this] at hd
      obtain ⟨v, hv⟩ := mem_keys.1 hd
      simpa using (List.mem_filter.1 hv).2
  · have hk : kv.1 ∉ keys p.services := fun c => h.2.2 _ c (mem_keys_of_mem hkv)
    rw [lookup_withServicesDisabled_disabled_old names hk]
    exact lookup_of_mem h.2.1 hkv

end CV.Sel
