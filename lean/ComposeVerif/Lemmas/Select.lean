import ComposeVerif.Model.Select
import ComposeVerif.Spec.Select
/-! helper lemmas for C15: association lists, then the operations one by one -/
namespace CV.Sel

/-! ## association lists -/
section AL
variable {α : Type}

@[simp] theorem keys_nil : keys ([] : AL α) = [] := rfl
@[simp] theorem keys_cons (k : String) (v : α) (m : AL α) : keys ((k, v) :: m) = k :: keys m := rfl

theorem mem_keys {k : String} {m : AL α} : k ∈ keys m ↔ ∃ v, (k, v) ∈ m := by
  induction m with
  | nil => simp
  | cons h t ih => obtain ⟨k', v'⟩ := h; simp [ih]; grind

theorem mem_keys_of_mem {kv : String × α} {m : AL α} (h : kv ∈ m) : kv.1 ∈ keys m :=
  mem_keys.2 ⟨kv.2, h⟩

theorem lookup_isSome {k : String} {m : AL α} : (lookup k m).isSome ↔ k ∈ keys m := by
  induction m with
  | nil => simp [lookup]
  | cons h t ih => obtain ⟨k', v'⟩ := h; simp only [lookup, keys_cons, List.mem_cons]; split <;> simp_all

theorem lookup_eq_none {k : String} {m : AL α} : lookup k m = none ↔ k ∉ keys m := by
  rw [← lookup_isSome]; cases lookup k m <;> simp

theorem mem_of_lookup {k : String} {v : α} {m : AL α} (h : lookup k m = some v) : (k, v) ∈ m := by
  induction m with
  | nil => simp [lookup] at h
  | cons hd t ih =>
    obtain ⟨k', v'⟩ := hd
    simp only [lookup] at h
    split at h
    · cases h; subst_vars; simp
    · simp [ih h]

theorem lookup_of_mem {k : String} {v : α} {m : AL α} (nd : (keys m).Nodup) (h : (k, v) ∈ m) : lookup k m = some v := by
  induction m with
  | nil => cases h
  | cons hd t ih =>
    obtain ⟨k', v'⟩ := hd
    simp only [keys_cons, List.nodup_cons] at nd
    simp only [lookup]
    rcases List.mem_cons.1 h with h | h
    · cases h; simp
    · have : k ≠ k' := fun e => nd.1 (e ▸ mem_keys.2 ⟨v, h⟩)
      simp [this, ih nd.2 h]

theorem keys_of_lookup {k : String} {v : α} {m : AL α} (h : lookup k m = some v) : k ∈ keys m :=
  mem_keys.2 ⟨v, mem_of_lookup h⟩

theorem mem_keys_insert {k x : String} {v : α} {m : AL α} : x ∈ keys (insert k v m) ↔ x = k ∨ x ∈ keys m := by
  induction m with
  | nil => simp [insert]
  | cons hd t ih =>
    obtain ⟨k', v'⟩ := hd
    simp only [insert]; split
    · subst_vars; simp
    · simp [ih]; grind

theorem nodup_insert {k : String} {v : α} {m : AL α} (nd : (keys m).Nodup) : (keys (insert k v m)).Nodup := by
  induction m with
  | nil => simp [insert]
  | cons hd t ih =>
    obtain ⟨k', v'⟩ := hd
    simp only [keys_cons, List.nodup_cons] at nd
    simp only [insert]; split
    · subst_vars; simp [nd.1, nd.2]
    · rename_i hne
      simp only [keys_cons, List.nodup_cons, mem_keys_insert, not_or]
      exact ⟨⟨fun e => hne e.symm, nd.1⟩, ih nd.2⟩

theorem lookup_insert {k x : String} {v : α} {m : AL α} :
    lookup x (insert k v m) = if x = k then some v else lookup x m := by
  induction m with
  | nil => simp [insert, lookup]
  | cons hd t ih =>
    obtain ⟨k', v'⟩ := hd
    simp only [insert]; split
    · subst_vars; simp only [lookup]; split <;> simp_all
    · simp only [lookup, ih]; split <;> split <;> simp_all

theorem insert_of_not_mem {k : String} {v : α} {m : AL α} (h : k ∉ keys m) : insert k v m = m ++ [(k, v)] := by
  induction m with
  | nil => rfl
  | cons hd t ih =>
    obtain ⟨k', v'⟩ := hd
    simp only [keys_cons, List.mem_cons, not_or] at h
    simp [insert, h.1, ih h.2]

theorem mem_keys_erase {k x : String} {m : AL α} : x ∈ keys (erase k m) ↔ x ≠ k ∧ x ∈ keys m := by
  induction m with
  | nil => simp [erase]
  | cons hd t ih =>
    obtain ⟨k', v'⟩ := hd
    simp only [erase]; split
    · subst_vars; simp [ih]; grind
    · simp [ih]; grind

theorem erase_eq_filter {k : String} {m : AL α} : erase k m = m.filter (fun kv => kv.1 ≠ k) := by
  induction m with
  | nil => rfl
  | cons hd t ih =>
    obtain ⟨k', v'⟩ := hd
    simp only [erase]; split
    · subst_vars; simp [ih]
    · rename_i h; simp [ih, Ne.symm h]

theorem keys_filter_sublist (f : String × α → Bool) (m : AL α) : (keys (m.filter f)).Sublist (keys m) := by
  unfold keys; exact List.Sublist.map _ List.filter_sublist

theorem nodup_filter {f : String × α → Bool} {m : AL α} (nd : (keys m).Nodup) : (keys (m.filter f)).Nodup :=
  List.Nodup.sublist (keys_filter_sublist f m) nd

theorem nodup_erase {k : String} {m : AL α} (nd : (keys m).Nodup) : (keys (erase k m)).Nodup := by
  rw [erase_eq_filter]; exact nodup_filter nd

theorem lookup_erase {k x : String} {m : AL α} : lookup x (erase k m) = if x = k then none else lookup x m := by
  induction m with
  | nil => simp [erase, lookup]
  | cons hd t ih =>
    obtain ⟨k', v'⟩ := hd
    simp only [erase]; split
    · subst_vars; simp only [lookup, ih]; split <;> simp_all
    · simp only [lookup, ih]; split <;> split <;> simp_all

theorem lookup_filter {f : String × α → Bool} {k : String} {m : AL α} (nd : (keys m).Nodup) :
    lookup k (m.filter f) = (lookup k m).filter (fun v => f (k, v)) := by
  induction m with
  | nil => simp [lookup]
  | cons hd t ih =>
    obtain ⟨k', v'⟩ := hd
    simp only [keys_cons, List.nodup_cons] at nd
    simp only [List.filter_cons]
    by_cases hk : k = k'
    · subst hk
      have hn : lookup k (t.filter f) = none := lookup_eq_none.2 fun h => nd.1 ((keys_filter_sublist f t).subset h)
      split
      · rename_i hf; simp only [lookup, Option.filter, hf, if_pos]
      · rename_i hf; rw [hn]; simp only [lookup, if_true, Option.filter, hf]; simp
    · have e : lookup k ((k', v') :: t) = lookup k t := by simp only [lookup, if_neg hk]
      rw [e]
      split
      · simp only [lookup, if_neg hk]; exact ih nd.2
      · exact ih nd.2

theorem lookup_map_val {β : Type} (g : String → α → β) {k : String} {m : AL α} :
    lookup k (m.map fun kv => (kv.1, g kv.1 kv.2)) = (lookup k m).map (g k) := by
  induction m with
  | nil => simp [lookup]
  | cons hd t ih =>
    obtain ⟨k', v'⟩ := hd
    simp only [List.map_cons, lookup]; split
    · subst_vars; simp
    · simp [ih]

theorem keys_map_val {β : Type} (g : String → α → β) (m : AL α) :
    keys (m.map fun kv => (kv.1, g kv.1 kv.2)) = keys m := by
  simp [keys, List.map_map, Function.comp_def]

theorem insertAll_append {src dst : AL α} (nd : (keys src).Nodup) (dj : ∀ k ∈ keys src, k ∉ keys dst) :
    insertAll src dst = dst ++ src := by
  unfold insertAll
  induction src generalizing dst with
  | nil => simp
  | cons hd t ih =>
    obtain ⟨k, v⟩ := hd
    simp only [keys_cons, List.nodup_cons] at nd
    simp only [List.foldl_cons]
    rw [insert_of_not_mem (dj k (by simp)), ih nd.2]
    · simp
    · intro x hx; simp only [keys, List.map_append, List.mem_append, not_or]
      refine ⟨dj x (by simp [hx]), ?_⟩
      simp only [List.map_cons, List.map_nil, List.mem_singleton]
      intro e; exact nd.1 (e ▸ hx)

theorem lookup_append {k : String} {a b : AL α} :
    lookup k (a ++ b) = match lookup k a with | some v => some v | none => lookup k b := by
  induction a with
  | nil => simp [lookup]
  | cons hd t ih => obtain ⟨k', v'⟩ := hd; simp only [List.cons_append, lookup]; split <;> simp_all

theorem lookup_perm {k : String} {a b : AL α} (h : a.Perm b) (nd : (keys a).Nodup) : lookup k a = lookup k b := by
  have ndb : (keys b).Nodup := (List.Perm.map Prod.fst h).nodup_iff.1 nd
  cases hb : lookup k b with
  | none =>
    rw [lookup_eq_none] at hb ⊢
    exact fun hk => hb ((List.Perm.map Prod.fst h).mem_iff.1 hk)
  | some v => exact lookup_of_mem nd (h.mem_iff.2 (mem_of_lookup hb))

theorem filter_disjoint {f : String × α → Bool} {m : AL α} (nd : (keys m).Nodup) :
    ∀ k ∈ keys (m.filter f), k ∉ keys (m.filter (fun kv => !f kv)) := by
  intro k h1 h2
  obtain ⟨v, hv⟩ := mem_keys.1 h1
  obtain ⟨w, hw⟩ := mem_keys.1 h2
  rw [List.mem_filter] at hv hw
  have e := (lookup_of_mem nd hv.1).symm.trans (lookup_of_mem nd hw.1)
  cases e
  simp [hv.2] at hw

theorem keys_append (a b : AL α) : keys (a ++ b) = keys a ++ keys b := by simp [keys]

theorem mem_keys_filter {f : String × α → Bool} {m : AL α} {k : String} :
    k ∈ keys (m.filter f) ↔ ∃ v, (k, v) ∈ m ∧ f (k, v) = true := by
  simp [mem_keys, List.mem_filter]

end AL

/-! ## profiles -/

theorem hasProfile_iff (s : Svc) (P : List String) : hasProfile s P = true ↔ Active s P := by
  unfold hasProfile Active
  simp only [Bool.or_eq_true, List.isEmpty_iff, List.any_eq_true, beq_iff_eq, List.contains_iff_mem]
  constructor
  · rintro (h | ⟨x, hx, h | h⟩)
    · exact .inl h
    · exact .inr (.inl (h ▸ hx))
    · exact .inr (.inr ⟨x, h, hx⟩)
  · rintro (h | h | ⟨x, h1, h2⟩)
    · exact .inl h
    · exact .inr ⟨"*", h, .inl rfl⟩
    · exact .inr ⟨x, h2, .inr h1⟩

theorem nodup_all {p : Proj} (h : Partition p) : (keys (p.services ++ p.disabled)).Nodup := by
  rw [keys_append, List.nodup_append]
  exact ⟨h.1, h.2.1, fun a ha b hb e => h.2.2 a ha (e ▸ hb)⟩

theorem allServices_eq {p : Proj} (h : Partition p) : allServices p = p.services ++ p.disabled := by
  unfold allServices
  rw [insertAll_append h.1 (by simp), insertAll_append h.2.1]
  · simp
  · intro k hk hk'
    simp only [List.nil_append] at hk'
    exact h.2.2 k hk' hk

theorem find_eq_lookup (p : Proj) (k : String) : find p k = lookup k (p.services ++ p.disabled) := by
  unfold find; rw [lookup_append]; cases lookup k p.services <;> rfl

theorem mem_known {p : Proj} {k : String} : k ∈ known p ↔ k ∈ keys p.services ∨ k ∈ keys p.disabled := by
  simp [known]

theorem known_eq (p : Proj) : known p = keys (p.services ++ p.disabled) := by simp [known, keys_append]

theorem withProfiles_services {p : Proj} (h : Partition p) (P : List String) :
    (withProfiles p P).services = (p.services ++ p.disabled).filter (fun kv => hasProfile kv.2 P) := by
  simp [withProfiles, allServices_eq h]

theorem withProfiles_disabled {p : Proj} (h : Partition p) (P : List String) :
    (withProfiles p P).disabled = (p.services ++ p.disabled).filter (fun kv => !hasProfile kv.2 P) := by
  simp [withProfiles, allServices_eq h]

theorem withProfiles_partition {p : Proj} (h : Partition p) (P : List String) : Partition (withProfiles p P) := by
  refine ⟨?_, ?_, ?_⟩
  · rw [withProfiles_services h]; exact nodup_filter (nodup_all h)
  · rw [withProfiles_disabled h]; exact nodup_filter (nodup_all h)
  · rw [withProfiles_services h, withProfiles_disabled h]; exact filter_disjoint (nodup_all h)

theorem lookup_withProfiles_services {p : Proj} (h : Partition p) (P : List String) (k : String) :
    lookup k (withProfiles p P).services = (find p k).filter (fun s => hasProfile s P) := by
  rw [withProfiles_services h, lookup_filter (nodup_all h), find_eq_lookup]

theorem lookup_withProfiles_disabled {p : Proj} (h : Partition p) (P : List String) (k : String) :
    lookup k (withProfiles p P).disabled = (find p k).filter (fun s => !hasProfile s P) := by
  rw [withProfiles_disabled h, lookup_filter (nodup_all h), find_eq_lookup]

theorem find_withProfiles {p : Proj} (h : Partition p) (P : List String) (k : String) :
    find (withProfiles p P) k = find p k := by
  unfold find
  rw [lookup_withProfiles_services h, lookup_withProfiles_disabled h]
  change (match (find p k).filter _ with | some s => some s | none => (find p k).filter _) = find p k
  cases find p k with
  | none => rfl
  | some s => cases hs : hasProfile s P <;> simp [Option.filter, hs]

theorem known_withProfiles {p : Proj} (h : Partition p) (P : List String) (k : String) :
    k ∈ known (withProfiles p P) ↔ k ∈ known p := by
  rw [known_eq, known_eq, ← lookup_isSome, ← lookup_isSome, ← find_eq_lookup, ← find_eq_lookup, find_withProfiles h]

/-- every `depends_on` map has distinct keys (true of every Go map) -/
def SvcWF (p : Proj) : Prop := ∀ kv ∈ p.services ++ p.disabled, (keys kv.2.deps).Nodup

instance (p : Proj) : Decidable (SvcWF p) := by unfold SvcWF; exact inferInstance

theorem svcWF_of_find {p : Proj} (w : SvcWF p) {k : String} {s : Svc} (h : find p k = some s) : (keys s.deps).Nodup := by
  rw [find_eq_lookup] at h
  exact w (k, s) (mem_of_lookup h)

theorem find_isSome_of_known {p : Proj} {k : String} (h : k ∈ known p) : ∃ s, find p k = some s := by
  rw [known_eq, ← lookup_isSome, ← find_eq_lookup] at h
  exact Option.isSome_iff_exists.1 h

theorem known_of_find {p : Proj} {k : String} {s : Svc} (h : find p k = some s) : k ∈ known p := by
  rw [known_eq, ← lookup_isSome, ← find_eq_lookup, h]; rfl

theorem envLe_refl (e : AL (Option String)) : envLe e e = true := by
  induction e with
  | nil => rfl
  | cons hd t ih => obtain ⟨k, v⟩ := hd; simp [envLe, ih]

theorem envLe_trans {a b c : AL (Option String)} (h1 : envLe a b = true) (h2 : envLe b c = true) : envLe a c = true := by
  induction a generalizing b c with
  | nil => cases b <;> cases c <;> simp_all [envLe]
  | cons hd t ih =>
    obtain ⟨k, v⟩ := hd
    cases b with
    | nil => simp [envLe] at h1
    | cons hb tb =>
      obtain ⟨kb, vb⟩ := hb
      cases c with
      | nil => simp [envLe] at h2
      | cons hc tc =>
        obtain ⟨kc, vc⟩ := hc
        simp only [envLe, Bool.and_eq_true, Bool.or_eq_true, beq_iff_eq] at h1 h2 ⊢
        refine ⟨⟨h1.1.1.trans h2.1.1, ?_⟩, ih h1.2 h2.2⟩
        rcases h1.1.2 with e | e
        · rcases h2.1.2 with e' | e'
          · exact .inl (e.trans e')
          · exact .inr (e.trans e')
        · exact .inr e

theorem envLe_resolve (penv : AL String) (e : AL (Option String)) : envLe e (resolveEnv penv e) = true := by
  induction e with
  | nil => rfl
  | cons hd t ih =>
    obtain ⟨k, v⟩ := hd
    cases v <;> simp [resolveEnv, envLe] <;> exact ih

theorem depsShrink_refl {s : Svc} (nd : (keys s.deps).Nodup) : depsShrink s s :=
  fun kv h => lookup_of_mem nd h

theorem conserved_of_find_eq {p q : Proj} (w : SvcWF p) (hq : Partition q) (h : ∀ k, find q k = find p k) :
    Conserved p q := by
  have hk : ∀ k, k ∈ known q ↔ k ∈ known p := fun k => by
    rw [known_eq, known_eq, ← lookup_isSome, ← lookup_isSome, ← find_eq_lookup, ← find_eq_lookup, h]
  refine ⟨hq, ⟨fun x hx => (hk x).2 hx, fun x hx => (hk x).1 hx⟩, fun k hkq => ?_⟩
  obtain ⟨s, hs⟩ := find_isSome_of_known ((hk k).1 hkq)
  rw [h k, hs]
  exact ⟨rfl, depsShrink_refl (svcWF_of_find w hs), envLe_refl _⟩

theorem svcWF_of_find_eq {p q : Proj} (w : SvcWF p) (h : ∀ k s, find q k = some s → find p k = some s)
    (hq : Partition q) : SvcWF q := by
  intro kv hkv
  have := lookup_of_mem (nodup_all hq) (show (kv.1, kv.2) ∈ _ from hkv)
  rw [← find_eq_lookup] at this
  exact svcWF_of_find w (h _ _ this)

theorem withProfiles_spec {p : Proj} (h : Partition p) (P : List String) : ProfilesSpec p P (withProfiles p P) := by
  refine ⟨rfl, fun k hk => ?_, fun k _ => find_withProfiles h P k⟩
  obtain ⟨s, hs⟩ := find_isSome_of_known hk
  rw [hs]
  show _ ↔ _
  rw [← lookup_isSome, lookup_withProfiles_services h, ← find_withProfiles h P k, hs, ← hasProfile_iff]
  cases hp : hasProfile s P <;> simp [Option.filter, hp]

theorem withProfiles_profilesOK {p : Proj} (h : Partition p) (P : List String) : ProfilesOK (withProfiles p P) := by
  intro kv hkv
  rw [withProfiles_services h, List.mem_filter] at hkv
  exact (hasProfile_iff _ _).1 hkv.2

theorem Active.mono {s : Svc} {P P' : List String} (h : Active s P) (sub : ∀ x ∈ P, x ∈ P') : Active s P' := by
  rcases h with h | h | ⟨x, h1, h2⟩
  · exact .inl h
  · exact .inr (.inl (sub _ h))
  · exact .inr (.inr ⟨x, h1, sub _ h2⟩)

/-! ## enabling -/

theorem enableProfiles_eq (p : Proj) (names : List String) :
    enableProfiles p names = p.profiles ++ wantedProfiles p names := by
  unfold enableProfiles wantedProfiles
  generalize p.profiles = acc
  induction names generalizing acc with
  | nil => simp
  | cons n ns ih =>
    simp only [List.foldl_cons, List.flatMap_cons]
    rw [ih]
    by_cases hn : n ∈ keys p.services
    · have : has n p.services = true := by unfold has; exact lookup_isSome.2 hn
      simp [this, hn]
    · have : has n p.services = false := by
        unfold has; cases h : (lookup n p.services).isSome
        · rfl
        · exact absurd (lookup_isSome.1 h) hn
      simp [this, hn]
      cases lookup n p.disabled <;> rfl

theorem enable_activation {p : Proj} (h : Partition p) (names : List String) (ok : ProfilesOK p)
    (n : String) (hnm : n ∈ names) (hkn : n ∈ known p) :
    n ∈ keys (withProfiles p (p.profiles ++ wantedProfiles p names)).services ∧
    ∃ s, find (withProfiles p (p.profiles ++ wantedProfiles p names)) n = some s ∧
      Active s (p.profiles ++ wantedProfiles p names) ∧
      (n ∉ keys p.services → ∀ x ∈ s.profiles, x ∈ p.profiles ++ wantedProfiles p names) := by
  obtain ⟨s, hs⟩ := find_isSome_of_known hkn
  have act : Active s (p.profiles ++ wantedProfiles p names) ∧
      (n ∉ keys p.services → ∀ x ∈ s.profiles, x ∈ p.profiles ++ wantedProfiles p names) := by
    by_cases hsv : n ∈ keys p.services
    · refine ⟨?_, fun c => absurd hsv c⟩
      obtain ⟨s', hs'⟩ := Option.isSome_iff_exists.1 (lookup_isSome.2 hsv)
      have e : find p n = some s' := by unfold find; rw [hs']
      rw [hs] at e; cases e
      exact (ok (n, s) (mem_of_lookup hs')).mono (fun x hx => List.mem_append_left _ hx)
    · have hl : lookup n p.services = none := lookup_eq_none.2 hsv
      have hd : lookup n p.disabled = some s := by unfold find at hs; rw [hl] at hs; exact hs
      have sub : ∀ x ∈ s.profiles, x ∈ p.profiles ++ wantedProfiles p names := by
        intro x hx
        refine List.mem_append_right _ ?_
        unfold wantedProfiles
        rw [List.mem_flatMap]
        exact ⟨n, hnm, by simp [hsv, hd, hx]⟩
      refine ⟨?_, fun _ => sub⟩
      by_cases he : s.profiles = []
      · exact .inl he
      · obtain ⟨x, hx⟩ := List.exists_mem_of_ne_nil _ he
        exact .inr (.inr ⟨x, hx, sub x hx⟩)
  have hq : find (withProfiles p (p.profiles ++ wantedProfiles p names)) n = some s := by
    rw [find_withProfiles h, hs]
  refine ⟨?_, s, hq, act⟩
  rw [← lookup_isSome, lookup_withProfiles_services h, hs]
  simp [Option.filter, (hasProfile_iff _ _).2 act.1]

theorem withServicesEnabled_eq (p : Proj) (names : List String) :
    withServicesEnabled p names = p ∨
    withServicesEnabled p names = resolveEnabled (withProfiles p (enableProfiles p names)) := by
  unfold withServicesEnabled; split <;> simp

/-! ## carried-over contents -/

/-- `t` is `s` with some dependencies removed -/
def SvcLe (s t : Svc) : Prop := sameButDeps s t ∧ depsShrink s t ∧ envMore s t

def optRel {α} (r : α → α → Prop) : Option α → Option α → Prop
  | some a, some b => r a b
  | none, none => True
  | _, _ => False

/-- every service of `p` is a service of `q` (and conversely), with possibly fewer dependencies -/
def Carried (p q : Proj) : Prop := ∀ k, optRel SvcLe (find p k) (find q k)

theorem SvcLe.refl {s : Svc} (nd : (keys s.deps).Nodup) : SvcLe s s := ⟨rfl, depsShrink_refl nd, envLe_refl _⟩

theorem SvcLe.trans {a b c : Svc} (h1 : SvcLe a b) (h2 : SvcLe b c) : SvcLe a c := by
  refine ⟨h1.1.trans h2.1, fun kv hkv => ?_, envLe_trans h1.2.2 h2.2.2⟩
  have := h2.2.1 kv hkv
  exact h1.2.1 (kv.1, kv.2) (mem_of_lookup this)

theorem Carried.refl {p : Proj} (w : SvcWF p) : Carried p p := by
  intro k
  cases h : find p k with
  | none => trivial
  | some s => exact SvcLe.refl (svcWF_of_find w h)

theorem Carried.trans {p q r : Proj} (h1 : Carried p q) (h2 : Carried q r) : Carried p r := by
  intro k
  have a := h1 k; have b := h2 k
  cases hp : find p k <;> cases hq : find q k <;> cases hr : find r k <;> simp_all [optRel]
  exact SvcLe.trans a b

theorem Carried.known {p q : Proj} (h : Carried p q) (k : String) : k ∈ known p ↔ k ∈ known q := by
  rw [known_eq, known_eq, ← lookup_isSome, ← lookup_isSome, ← find_eq_lookup, ← find_eq_lookup]
  have := h k
  cases hp : find p k <;> cases hq : find q k <;> simp_all [optRel]

theorem conserved_of_carried {p q : Proj} (hq : Partition q) (h : Carried p q) : Conserved p q := by
  refine ⟨hq, ⟨fun x hx => (h.known x).1 hx, fun x hx => (h.known x).2 hx⟩, fun k hk => ?_⟩
  have := h k
  obtain ⟨t, ht⟩ := find_isSome_of_known hk
  cases hp : find p k with
  | none => simp [hp, ht, optRel] at this
  | some s => rw [hp, ht] at this; rw [ht]; exact this

theorem svcWF_of_carried {p q : Proj} (w : SvcWF p) (hq : Partition q) (h : Carried p q)
    (nd : ∀ k t, find q k = some t → (keys t.deps).Nodup) : SvcWF q := by
  intro kv hkv
  have := lookup_of_mem (nodup_all hq) (show (kv.1, kv.2) ∈ _ from hkv)
  rw [← find_eq_lookup] at this
  exact nd _ _ this

/-! ## disabling -/

theorem lookup_dropAll (n k : String) (m : AL Svc) :
    lookup k (m.map fun kv => (kv.1, dropDep n kv.2)) = (lookup k m).map (dropDep n) :=
  lookup_map_val (fun _ s => dropDep n s)

theorem keys_dropAll (n : String) (m : AL Svc) : keys (m.map fun kv => (kv.1, dropDep n kv.2)) = keys m :=
  keys_map_val (fun _ s => dropDep n s) m

theorem disableOne_profiles (p : Proj) (n : String) : (disableOne p n).profiles = p.profiles := by
  unfold disableOne; simp only []; split <;> rfl

theorem disableOne_resources (p : Proj) (n : String) : sameResources p (disableOne p n) := by
  unfold disableOne sameResources; simp only []; split <;> simp

theorem lookup_disableOne_services (p : Proj) (n k : String) :
    lookup k (disableOne p n).services = if k = n then none else (lookup k p.services).map (dropDep n) := by
  unfold disableOne; simp only []
  split
  · simp only [lookup_erase, lookup_dropAll]
  · rename_i h
    rw [lookup_dropAll] at h
    simp only [lookup_dropAll]
    split
    · subst_vars; exact h
    · rfl

theorem lookup_disableOne_disabled (p : Proj) (n k : String) :
    lookup k (disableOne p n).disabled =
      if k = n ∧ n ∈ keys p.services then (lookup n p.services).map (dropDep n) else lookup k p.disabled := by
  unfold disableOne; simp only []
  split
  · rename_i s h
    rw [lookup_dropAll] at h
    have hn : n ∈ keys p.services := by
      rw [← lookup_isSome]; cases h' : lookup n p.services <;> simp_all
    simp only [lookup_insert, hn, and_true, h]
  · rename_i h
    rw [lookup_dropAll] at h
    have hn : n ∉ keys p.services := by
      rw [← lookup_eq_none]; cases h' : lookup n p.services <;> simp_all
    simp [hn]

theorem mem_keys_disableOne_services {p : Proj} {n k : String} :
    k ∈ keys (disableOne p n).services ↔ k ∈ keys p.services ∧ k ≠ n := by
  rw [← lookup_isSome, lookup_disableOne_services, ← lookup_isSome]
  split
  · simp_all
  · cases lookup k p.services <;> simp_all

theorem mem_keys_disableOne_disabled {p : Proj} {n k : String} :
    k ∈ keys (disableOne p n).disabled ↔ k ∈ keys p.disabled ∨ (k = n ∧ n ∈ keys p.services) := by
  rw [← lookup_isSome, lookup_disableOne_disabled]
  split
  · rename_i h
    have : (Option.map (dropDep n) (lookup n p.services)).isSome := by
      rw [Option.isSome_map, lookup_isSome]; exact h.2
    simp [this, h]
  · rename_i h; rw [lookup_isSome]; simp [h]

theorem disableOne_partition {p : Proj} (h : Partition p) (n : String) : Partition (disableOne p n) := by
  refine ⟨?_, ?_, fun k hk hd => ?_⟩
  · unfold disableOne; simp only []
    split
    · exact nodup_erase (by rw [keys_dropAll]; exact h.1)
    · rw [keys_dropAll]; exact h.1
  · unfold disableOne; simp only []
    split
    · exact nodup_insert h.2.1
    · exact h.2.1
  · rw [mem_keys_disableOne_services] at hk
    rw [mem_keys_disableOne_disabled] at hd
    rcases hd with hd | hd
    · exact h.2.2 k hk.1 hd
    · exact hk.2 hd.1

theorem find_disableOne (p : Proj) (n k : String) :
    find (disableOne p n) k = (find p k).map (fun s => if k ∈ keys p.services then dropDep n s else s) := by
  unfold find
  rw [lookup_disableOne_services, lookup_disableOne_disabled]
  by_cases hk : k ∈ keys p.services
  · obtain ⟨s, hs⟩ := Option.isSome_iff_exists.1 (lookup_isSome.2 hk)
    by_cases hn : k = n
    · subst hn; simp [hs, hk]
    · simp [hs, hk, hn]
  · have hs : lookup k p.services = none := lookup_eq_none.2 hk
    have : ¬(k = n ∧ n ∈ keys p.services) := fun ⟨e, h⟩ => hk (e ▸ h)
    simp only [hs, Option.map_none, ite_self, if_neg this, if_neg hk]
    cases lookup k p.disabled <;> simp

theorem svcLe_dropDep {s : Svc} (nd : (keys s.deps).Nodup) (n : String) : SvcLe s (dropDep n s) := by
  refine ⟨rfl, fun kv hkv => ?_, envLe_refl _⟩
  simp only [dropDep, erase_eq_filter, List.mem_filter] at hkv
  exact lookup_of_mem nd hkv.1

theorem carried_disableOne {p : Proj} (w : SvcWF p) (n : String) : Carried p (disableOne p n) := by
  intro k
  rw [find_disableOne]
  cases h : find p k with
  | none => trivial
  | some s =>
    have nd := svcWF_of_find w h
    simp only [Option.map_some, optRel]
    split
    · exact svcLe_dropDep nd n
    · exact SvcLe.refl nd

theorem svcWF_disableOne {p : Proj} (h : Partition p) (w : SvcWF p) (n : String) : SvcWF (disableOne p n) := by
  refine svcWF_of_carried w (disableOne_partition h n) (carried_disableOne w n) fun k t ht => ?_
  rw [find_disableOne] at ht
  cases hs : find p k with
  | none => simp [hs] at ht
  | some s =>
    have nd := svcWF_of_find w hs
    simp only [hs, Option.map_some, Option.some.injEq] at ht
    subst ht
    split
    · exact nodup_erase nd
    · exact nd

theorem withServicesDisabled_inv {p : Proj} (h : Partition p) (w : SvcWF p) (names : List String) :
    Partition (withServicesDisabled p names) ∧ SvcWF (withServicesDisabled p names) ∧
    Carried p (withServicesDisabled p names) := by
  unfold withServicesDisabled
  induction names generalizing p with
  | nil => exact ⟨h, w, Carried.refl w⟩
  | cons n ns ih =>
    have := ih (disableOne_partition h n) (svcWF_disableOne h w n)
    exact ⟨this.1, this.2.1, (carried_disableOne w n).trans this.2.2⟩

def dropDeps (names : List String) (s : Svc) : Svc := { s with deps := s.deps.filter (fun d => d.1 ∉ names) }

theorem lookup_withServicesDisabled_services (p : Proj) (names : List String) (k : String) :
    lookup k (withServicesDisabled p names).services =
      if k ∈ names then none else (lookup k p.services).map (dropDeps names) := by
  unfold withServicesDisabled
  induction names generalizing p with
  | nil =>
    simp only [List.foldl_nil, List.not_mem_nil, if_false]
    cases lookup k p.services with
    | none => rfl
    | some s =>
      have : s.deps.filter (fun _ => true) = s.deps := List.filter_eq_self.2 (fun _ _ => rfl)
      simp [dropDeps, this]
  | cons n ns ih =>
    simp only [List.foldl_cons, ih, lookup_disableOne_services, List.mem_cons]
    by_cases h1 : k ∈ ns
    · simp [h1]
    · by_cases h2 : k = n
      · simp [h2]
      · simp only [h1, h2, if_false, or_self]
        cases lookup k p.services with
        | none => rfl
        | some s =>
          simp only [Option.map_some, dropDeps, dropDep, erase_eq_filter, List.filter_filter]
          congr 2
          apply List.filter_congr
          intro d _
          simp only [List.mem_cons, not_or, ne_eq, decide_not, Bool.decide_and, Bool.and_comm]

theorem mem_keys_withServicesDisabled_services {p : Proj} {names : List String} {k : String} :
    k ∈ keys (withServicesDisabled p names).services ↔ k ∈ keys p.services ∧ k ∉ names := by
  rw [← lookup_isSome, lookup_withServicesDisabled_services, ← lookup_isSome]
  split
  · simp_all
  · cases lookup k p.services <;> simp_all

theorem withServicesDisabled_profiles (p : Proj) (names : List String) :
    (withServicesDisabled p names).profiles = p.profiles := by
  unfold withServicesDisabled
  induction names generalizing p with
  | nil => rfl
  | cons n ns ih => simp only [List.foldl_cons, ih, disableOne_profiles]

theorem withServicesDisabled_resources (p : Proj) (names : List String) :
    sameResources p (withServicesDisabled p names) := by
  unfold withServicesDisabled
  induction names generalizing p with
  | nil => exact ⟨rfl, rfl, rfl, rfl, rfl⟩
  | cons n ns ih =>
    have a := disableOne_resources p n
    have b := ih (disableOne p n)
    simp only [List.foldl_cons]
    exact ⟨a.1.trans b.1, a.2.1.trans b.2.1, a.2.2.1.trans b.2.2.1, a.2.2.2.1.trans b.2.2.2.1, a.2.2.2.2.trans b.2.2.2.2⟩

theorem lookup_withServicesDisabled_disabled_old {p : Proj} (names : List String) {k : String}
    (hk : k ∉ keys p.services) : lookup k (withServicesDisabled p names).disabled = lookup k p.disabled := by
  unfold withServicesDisabled
  induction names generalizing p with
  | nil => rfl
  | cons n ns ih =>
    simp only [List.foldl_cons]
    rw [ih (fun h => hk (mem_keys_disableOne_services.1 h).1), lookup_disableOne_disabled]
    have : ¬(k = n ∧ n ∈ keys p.services) := fun ⟨e, h⟩ => hk (e ▸ h)
    simp [this]

theorem mem_keys_withServicesDisabled_disabled {p : Proj} {names : List String} {k : String} :
    k ∈ keys (withServicesDisabled p names).disabled ↔ k ∈ keys p.disabled ∨ (k ∈ names ∧ k ∈ keys p.services) := by
  unfold withServicesDisabled
  induction names generalizing p with
  | nil => simp
  | cons n ns ih =>
    simp only [List.foldl_cons, ih, mem_keys_disableOne_disabled, mem_keys_disableOne_services, List.mem_cons]
    by_cases e : k = n
    · subst e; by_cases a : k ∈ keys p.services <;> simp [a]
    · simp [e]

theorem withServicesDisabled_partition {p : Proj} (h : Partition p) (names : List String) :
    Partition (withServicesDisabled p names) := by
  unfold withServicesDisabled
  induction names generalizing p with
  | nil => exact h
  | cons n ns ih => exact ih (disableOne_partition h n)

theorem withServicesDisabled_spec {p : Proj} (h : Partition p) (names : List String) :
    DisableSpec p names (withServicesDisabled p names) := by
  have hq := withServicesDisabled_partition h names
  have deps : ∀ kv ∈ (withServicesDisabled p names).services, kv.1 ∉ names ∧
      sat (lookup kv.1 p.services) fun s => kv.2.deps = s.deps.filter (fun d => d.1 ∉ names) := by
    intro kv hkv
    have hl := lookup_of_mem hq.1 (show (kv.1, kv.2) ∈ _ from hkv)
    rw [lookup_withServicesDisabled_services] at hl
    split at hl
    · cases hl
    · rename_i hn
      refine ⟨hn, ?_⟩
      cases hs : lookup kv.1 p.services with
      | none => simp [hs] at hl
      | some s =>
        simp only [hs, Option.map_some, Option.some.injEq] at hl
        show kv.2.deps = _
        rw [← hl]; rfl
  refine ⟨⟨fun x hx => ?_, fun x hx => ?_⟩, fun kv hkv d hd => ?_, fun kv hkv => (deps kv hkv).2,
    fun kv hkv => ?_, withServicesDisabled_profiles p names⟩
  · rw [mem_keys_withServicesDisabled_services] at hx
    simp [List.mem_filter, hx.1, hx.2]
  · simp only [List.mem_filter, decide_eq_true_eq] at hx
    exact mem_keys_withServicesDisabled_services.2 hx
  · have := (deps kv hkv).2
    cases hs : lookup kv.1 p.services with
    | none => simp [hs, sat] at this
    | some s =>
      simp only [hs, sat] at this
      rw [this] at hd
      obtain ⟨v, hv⟩ := mem_keys.1 hd
      simpa using (List.mem_filter.1 hv).2
  · have hk : kv.1 ∉ keys p.services := fun c => h.2.2 _ c (mem_keys_of_mem hkv)
    rw [lookup_withServicesDisabled_disabled_old names hk]
    exact lookup_of_mem h.2.1 hkv

/-! ## pruning -/

theorem lookup_pick_aux (m : AL String) (req : List String) (acc : AL String) (k : String) :
    lookup k (req.foldl (pickStep m) acc) =
      if k ∈ req then (match lookup k m with | some v => some v | none => lookup k acc) else lookup k acc := by
  induction req generalizing acc with
  | nil => simp
  | cons r rs ih =>
    simp only [List.foldl_cons, ih, List.mem_cons]
    unfold pickStep
    by_cases h1 : k ∈ rs
    · simp only [h1, or_true, if_true]
      cases hm : lookup k m with
      | some v => rfl
      | none =>
        simp only []
        cases hr : lookup r m with
        | none => rfl
        | some w =>
          simp only [lookup_insert]
          split
          · subst_vars; simp [hm] at hr
          · rfl
    · simp only [h1, or_false, if_false]
      cases hr : lookup r m with
      | none =>
        simp only []
        split
        · subst_vars; simp [hr]
        · rfl
      | some w =>
        simp only [lookup_insert]
        split
        · subst_vars; simp [hr]
        · rfl

theorem lookup_pick (req : List String) (m : AL String) (k : String) :
    lookup k (pick req m) = if k ∈ req then lookup k m else none := by
  unfold pick
  rw [lookup_pick_aux]
  split
  · cases lookup k m <;> rfl
  · rfl

theorem nodup_pick (req : List String) (m : AL String) : (keys (pick req m)).Nodup := by
  unfold pick
  suffices ∀ acc : AL String, (keys acc).Nodup →
      (keys (req.foldl (pickStep m) acc)).Nodup from
    this [] List.nodup_nil
  induction req with
  | nil => exact fun _ h => h
  | cons r rs ih =>
    intro acc h
    simp only [List.foldl_cons]
    apply ih
    unfold pickStep
    cases lookup r m with
    | none => exact h
    | some v => exact nodup_insert h

theorem restricted_pick (req : List String) (m : AL String) : Restricted req m (pick req m) := by
  refine ⟨nodup_pick req m, fun kv hkv => ?_, fun kv hkv hr => ?_⟩
  · have := lookup_of_mem (nodup_pick req m) (show (kv.1, kv.2) ∈ _ from hkv)
    rw [lookup_pick] at this
    split at this
    · exact ⟨by assumption, this⟩
    · cases this
  · rw [lookup_pick, if_pos hr, lookup_isSome]
    exact mem_keys_of_mem hkv

theorem volSources_eq (s : Svc) : volSources s = volRefs s := by
  unfold volSources volRefs
  congr 1
  apply List.filter_congr
  intro v _
  by_cases a : v.1 = "volume" <;> by_cases b : v.2 = "" <;> simp [a, b]

theorem secretSources_eq (s : Svc) : secretSources s = secretRefs s := by
  unfold secretSources secretRefs
  cases s.build <;> rfl

theorem withoutUnnecessaryResources_spec (p : Proj) : PruneSpec p (withoutUnnecessaryResources p) := by
  refine ⟨rfl, rfl, rfl, restricted_pick _ _, ?_, ?_, restricted_pick _ _⟩
  · have : referenced p volRefs = p.services.flatMap (fun kv => volSources kv.2) := by
      unfold referenced; congr; funext kv; exact (volSources_eq _).symm
    rw [this]; exact restricted_pick _ _
  · have : referenced p secretRefs = p.services.flatMap (fun kv => secretSources kv.2) := by
      unfold referenced; congr; funext kv; exact (secretSources_eq _).symm
    rw [this]; exact restricted_pick _ _

/-! ## selection: closed form of the loop -/

def nonSelected (set : List String) (l : AL Svc) : List String := (l.filter (fun kv => kv.1 ∉ set)).map Prod.fst
def selectedPruned (set : List String) (l : AL Svc) : AL Svc :=
  (l.filter (fun kv => kv.1 ∈ set)).map (fun kv => (kv.1, pruneDeps set kv.2))

theorem selectFoldPre_eq (set : List String) (l : AL Svc) (c : Proj) (e : AL Svc) :
    l.foldl (selectStepPre set) (c, e) =
      (withServicesDisabled c (nonSelected set l), insertAll (selectedPruned set l) e) := by
  induction l generalizing c e with
  | nil => rfl
  | cons hd t ih =>
    simp only [List.foldl_cons, ih]
    unfold selectStepPre
    by_cases h : hd.1 ∈ set
    · simp [h, nonSelected, selectedPruned, insertAll]
    · simp [h, nonSelected, selectedPruned, withServicesDisabled]

theorem selectFold_eq (set : List String) (l : AL Svc) (u : List String) (e : AL Svc) :
    l.foldl (selectStep set) (u, e) = (u ++ nonSelected set l, insertAll (selectedPruned set l) e) := by
  induction l generalizing u e with
  | nil => simp [nonSelected, selectedPruned, insertAll]
  | cons hd t ih =>
    simp only [List.foldl_cons, ih]
    unfold selectStep
    by_cases h : hd.1 ∈ set
    · simp [h, nonSelected, selectedPruned, insertAll]
    · simp [h, nonSelected, selectedPruned]

/-! ### `sort.Strings` -/

theorem insertName_perm (x : String) (l : List String) : (insertName x l).Perm (x :: l) := by
  induction l with
  | nil => exact .refl _
  | cons y ys ih =>
    unfold insertName
    split
    · exact .refl _
    · exact ((List.Perm.cons y ih).trans (List.Perm.swap x y ys))

theorem sortNames_perm (l : List String) : (sortNames l).Perm l := by
  induction l with
  | nil => exact .refl _
  | cons x xs ih => exact (insertName_perm x _).trans (List.Perm.cons x ih)

theorem mem_sortNames {x : String} {l : List String} : x ∈ sortNames l ↔ x ∈ l := (sortNames_perm l).mem_iff

theorem insertName_sorted (x : String) {l : List String} (h : l.Pairwise (· ≤ ·)) :
    (insertName x l).Pairwise (· ≤ ·) := by
  induction l with
  | nil => simp [insertName]
  | cons y ys ih =>
    rw [List.pairwise_cons] at h
    unfold insertName
    split
    · rename_i hxy
      refine List.pairwise_cons.2 ⟨fun z hz => ?_, List.pairwise_cons.2 h⟩
      rcases List.mem_cons.1 hz with e | e
      · exact e ▸ hxy
      · exact String.le_trans hxy (h.1 z e)
    · rename_i hxy
      have hyx : y ≤ x := (String.le_total x y).resolve_left hxy
      refine List.pairwise_cons.2 ⟨fun z hz => ?_, ih h.2⟩
      rcases List.mem_cons.1 ((insertName_perm x ys).mem_iff.1 hz) with e | e
      · exact e ▸ hyx
      · exact h.1 z e

theorem sortNames_sorted (l : List String) : (sortNames l).Pairwise (· ≤ ·) := by
  induction l with
  | nil => exact List.Pairwise.nil
  | cons x xs ih => exact insertName_sorted x ih

/-- the sorted list only depends on the multiset of names -/
theorem sortNames_eq_of_perm {l l' : List String} (h : l.Perm l') : sortNames l = sortNames l' :=
  List.Perm.eq_of_pairwise (fun _ _ _ _ h1 h2 => String.le_antisymm h1 h2) (sortNames_sorted l) (sortNames_sorted l')
    ((sortNames_perm l).trans (h.trans (sortNames_perm l').symm))

/-- the names handed to `WithServicesDisabled` by `WithSelectedServices` -/
def unselected (set : List String) (l : AL Svc) : List String := sortNames (nonSelected set l)

theorem keys_selectedPruned (set : List String) (l : AL Svc) :
    keys (selectedPruned set l) = keys (l.filter (fun kv => kv.1 ∈ set)) := by
  unfold selectedPruned; exact keys_map_val (fun _ s => pruneDeps set s) _

/-- what `WithSelectedServices` returns once the walk has produced `set` -/
def selectResult (p : Proj) (set : List String) : Proj :=
  { withServicesDisabled p (unselected set p.services) with services := selectedPruned set p.services }

/-- what it returned before the `fix:` commit -/
def selectResultPre (p : Proj) (set : List String) : Proj :=
  { withServicesDisabled p (nonSelected set p.services) with services := selectedPruned set p.services }

theorem withSelectedServicesPre_ok {p : Proj} (h : (keys p.services).Nodup) {names : List String} {pol : Policy}
    {set : List String} (hn : names ≠ []) (hw : forEachService p names pol = .ok set) :
    withSelectedServicesPre p names pol = .ok (selectResultPre p set) := by
  unfold withSelectedServicesPre
  have : names.isEmpty = false := by cases names <;> simp_all
  simp only [this, Bool.false_eq_true, if_false, hw, selectFoldPre_eq]
  rw [insertAll_append]
  · rfl
  · rw [keys_selectedPruned]; exact nodup_filter h
  · simp

theorem withSelectedServices_ok {p : Proj} (h : (keys p.services).Nodup) {names : List String} {pol : Policy}
    {set : List String} (hn : names ≠ []) (hw : forEachService p names pol = .ok set) :
    withSelectedServices p names pol = .ok (selectResult p set) := by
  unfold withSelectedServices
  have : names.isEmpty = false := by cases names <;> simp_all
  simp only [this, Bool.false_eq_true, if_false, hw, selectFold_eq, List.nil_append]
  rw [insertAll_append]
  · rfl
  · rw [keys_selectedPruned]; exact nodup_filter h
  · simp

theorem lookup_selectedPruned {set : List String} {l : AL Svc} (nd : (keys l).Nodup) (k : String) :
    lookup k (selectedPruned set l) = if k ∈ set then (lookup k l).map (pruneDeps set) else none := by
  unfold selectedPruned
  rw [lookup_map_val (fun _ s => pruneDeps set s), lookup_filter nd]
  cases lookup k l with
  | none => simp
  | some s => by_cases h : k ∈ set <;> simp [Option.filter, h]

/-! ## the dependency walk computes the closure -/

/-- reflexive-transitive closure of `Edge` -/
inductive Star (svcs : AL Svc) (pol : Policy) : String → String → Prop
  | refl (a) : Star svcs pol a a
  | tail {a b c} : Star svcs pol a b → Edge svcs pol b c → Star svcs pol a c

theorem Star.head {svcs : AL Svc} {pol : Policy} {a b c : String} (e : Edge svcs pol a b) (h : Star svcs pol b c) :
    Star svcs pol a c := by
  induction h with
  | refl => exact .tail (.refl a) e
  | tail _ e' ih => exact .tail ih e'

theorem reach_of_star {svcs : AL Svc} {pol : Policy} {roots : List String} {r x : String}
    (hr : r ∈ roots) (hk : r ∈ keys svcs) (h : Star svcs pol r x) : Reach svcs pol roots x := by
  induction h with
  | refl => exact .root hr hk
  | tail _ e ih => exact .step ih e

theorem edge_target_mem {svcs : AL Svc} {pol : Policy} {x y : String} (e : Edge svcs pol x y) : y ∈ keys svcs := by
  cases pol with
  | deps => obtain ⟨_, _, _, h⟩ := e; exact h
  | dependents => obtain ⟨_, s, h, _⟩ := e; exact keys_of_lookup h
  | ignore => exact e.elim

theorem mem_keys_insertAll {α} (src dst : AL α) (k : String) :
    k ∈ keys (insertAll src dst) ↔ k ∈ keys src ∨ k ∈ keys dst := by
  unfold insertAll
  induction src generalizing dst with
  | nil => simp
  | cons hd t ih =>
    obtain ⟨k', v'⟩ := hd
    simp only [List.foldl_cons, ih, mem_keys_insert, keys_cons, List.mem_cons]
    constructor
    · rintro (a | a | a)
      · exact .inl (.inr a)
      · exact .inl (.inl a)
      · exact .inr a
    · rintro ((a | a) | a)
      · exact .inr (.inl a)
      · exact .inl a
      · exact .inr (.inr a)

/-- every service is filed under its own `Name` (what the loader guarantees) -/
def NamesOKs (svcs : AL Svc) : Prop := ∀ kv ∈ svcs, kv.2.name = kv.1

/-- the keys of the `dependents` map are the `Name`s of the services that depend on `s.Name` (no assumption) -/
theorem mem_keys_dependents_names {svcs : AL Svc} {s : Svc} {y : String} :
    y ∈ keys (dependents svcs s) ↔ ∃ kv ∈ svcs, s.name ∈ keys kv.2.deps ∧ kv.2.name = y := by
  unfold dependents
  rw [mem_keys_insertAll, mem_keys]
  simp only [List.mem_filterMap, Option.map_eq_some_iff, Prod.mk.injEq, keys_nil, List.not_mem_nil, or_false]
  constructor
  · rintro ⟨v, kv, hm, d, hd, rfl, rfl⟩
    exact ⟨kv, hm, keys_of_lookup hd, rfl⟩
  · rintro ⟨kv, hm, hx, rfl⟩
    obtain ⟨d, hd⟩ := Option.isSome_iff_exists.1 (lookup_isSome.2 hx)
    exact ⟨d, kv, hm, d, hd, rfl, rfl⟩

theorem mem_keys_dependents {svcs : AL Svc} (nk : NamesOKs svcs) {s : Svc} {x y : String} (hx : s.name = x) :
    y ∈ keys (dependents svcs s) ↔ ∃ s', (y, s') ∈ svcs ∧ x ∈ keys s'.deps := by
  rw [mem_keys_dependents_names, hx]
  constructor
  · rintro ⟨kv, hm, hd, rfl⟩
    exact ⟨kv.2, by rw [nk kv hm]; exact hm, hd⟩
  · rintro ⟨s', hm, hd⟩
    exact ⟨(y, s'), hm, hd, nk _ hm⟩

theorem edge_iff_next {svcs : AL Svc} (nd : (keys svcs).Nodup) (nk : NamesOKs svcs) {pol : Policy} {n y : String} {s : Svc}
    (hs : lookup n svcs = some s) : Edge svcs pol n y ↔ y ∈ keys (nextOf svcs pol n s) ∧ y ∈ keys svcs := by
  cases pol with
  | deps =>
    simp only [Edge, nextOf, hs, Option.some.injEq, exists_eq_left']
  | dependents =>
    have hname : s.name = n := nk (n, s) (mem_of_lookup hs)
    simp only [Edge, nextOf, mem_keys_dependents nk hname]
    constructor
    · rintro ⟨_, s', h1, h2⟩
      exact ⟨⟨s', mem_of_lookup h1, h2⟩, keys_of_lookup h1⟩
    · rintro ⟨⟨s', h1, h2⟩, _⟩
      exact ⟨keys_of_lookup hs, s', lookup_of_mem nd h1, h2⟩
  | ignore => simp [Edge, nextOf]

structure Post (svcs : AL Svc) (pol : Policy) (roots seen seen' : List String) : Prop where
  mono : ∀ x ∈ seen, x ∈ seen'
  sound : ∀ x ∈ seen', x ∈ seen ∨ ∃ r ∈ roots, r ∈ keys svcs ∧ Star svcs pol r x
  roots : ∀ r ∈ roots, r ∈ keys svcs → r ∈ seen'
  closed : ∀ x ∈ seen', x ∉ seen → ∀ y, Edge svcs pol x y → y ∈ seen'

theorem Post.weaken_roots {svcs : AL Svc} {pol : Policy} {n : String} {ns seen r : List String}
    (h : Post svcs pol ns seen r) (hn : n ∈ keys svcs → n ∈ r) : Post svcs pol (n :: ns) seen r where
  mono := h.mono
  sound x hx := (h.sound x hx).imp id fun ⟨a, ha, hb⟩ => ⟨a, List.mem_cons_of_mem _ ha, hb⟩
  roots a ha hk := by
    rcases List.mem_cons.1 ha with e | e
    · exact e ▸ hn (e ▸ hk)
    · exact h.roots a e hk
  closed := h.closed

theorem loop_post {svcs : AL Svc} (nd : (keys svcs).Nodup) (nk : NamesOKs svcs) {pol : Policy}
    {rec : List String → AL Dep → List String → Walk}
    (hrec : ∀ ns d seen r, ns ≠ [] → rec ns d seen = .ok r → Post svcs pol ns seen r) :
    ∀ ns seen r, walkLoop rec svcs pol ns seen = .ok r → Post svcs pol ns seen r := by
  intro ns
  induction ns with
  | nil =>
    intro seen r h
    simp only [walkLoop, Walk.ok.injEq] at h
    subst h
    exact ⟨fun _ h => h, fun _ h => .inl h, (fun _ h => nomatch h), fun x hx hn => absurd hx hn⟩
  | cons n ns ih =>
    intro seen r h
    unfold walkLoop at h
    cases hs : lookup n svcs with
    | none =>
      simp only [hs] at h
      exact (ih _ _ h).weaken_roots fun hk => absurd hk (lookup_eq_none.1 hs)
    | some s =>
      simp only [hs] at h
      by_cases hseen : n ∈ seen
      · simp only [hseen, if_true] at h
        have P := ih _ _ h
        exact P.weaken_roots fun _ => P.mono n hseen
      · simp only [hseen, if_false] at h
        by_cases hd : (nextOf svcs pol n s).isEmpty = true
        · simp only [hd, if_true] at h
          have P := ih _ _ h
          have hnr : n ∈ r := P.mono n (by simp)
          refine ⟨fun x hx => P.mono x (List.mem_cons_of_mem _ hx), fun x hx => ?_, fun a ha hk => ?_, fun x hx hxs y e => ?_⟩
          · rcases P.sound x hx with h1 | ⟨a, ha, hb⟩
            · rcases List.mem_cons.1 h1 with e | e
              · exact .inr ⟨n, by simp, keys_of_lookup hs, by subst e; exact .refl _⟩
              · exact .inl e
            · exact .inr ⟨a, List.mem_cons_of_mem _ ha, hb⟩
          · rcases List.mem_cons.1 ha with e | e
            · exact e ▸ hnr
            · exact P.roots a e hk
          · by_cases e' : x = n
            · subst e'
              have := ((edge_iff_next nd nk hs).1 e).1
              rw [List.isEmpty_iff] at hd
              rw [hd] at this
              cases this
            · exact P.closed x hx (by simp [e', hxs]) y e
        · simp only [hd] at h
          cases hr : rec (keys (nextOf svcs pol n s)) (nextOf svcs pol n s) (n :: seen) with
          | noSuchService => simp [hr] at h
          | outOfFuel => simp [hr] at h
          | ok seen2 =>
            simp only [hr, Bool.false_eq_true, if_false] at h
            have hne : keys (nextOf svcs pol n s) ≠ [] := by
              intro e
              apply hd
              cases hh : nextOf svcs pol n s with
              | nil => rfl
              | cons a b => rw [hh] at e; cases e
            have P1 := hrec _ _ _ _ hne hr
            have P2 := ih _ _ h
            have hn2 : n ∈ seen2 := P1.mono n (by simp)
            refine ⟨fun x hx => P2.mono x (P1.mono x (List.mem_cons_of_mem _ hx)), fun x hx => ?_, fun a ha hk => ?_,
              fun x hx hxs y e => ?_⟩
            · rcases P2.sound x hx with h1 | ⟨a, ha, hb⟩
              · rcases P1.sound x h1 with h2 | ⟨a, ha, hk, hst⟩
                · rcases List.mem_cons.1 h2 with e | e
                  · exact .inr ⟨n, by simp, keys_of_lookup hs, by subst e; exact .refl _⟩
                  · exact .inl e
                · exact .inr ⟨n, by simp, keys_of_lookup hs, Star.head ((edge_iff_next nd nk hs).2 ⟨ha, hk⟩) hst⟩
              · exact .inr ⟨a, List.mem_cons_of_mem _ ha, hb⟩
            · rcases List.mem_cons.1 ha with e | e
              · exact e ▸ P2.mono n hn2
              · exact P2.roots a e hk
            · by_cases hx2 : x ∈ seen2
              · by_cases e' : x = n
                · subst e'
                  have := (edge_iff_next nd nk hs).1 e
                  exact P2.mono y (P1.roots y this.1 this.2)
                · exact P2.mono y (P1.closed x hx2 (by simp [e', hxs]) y e)
              · exact P2.closed x hx hx2 y e

theorem walk_post {svcs : AL Svc} (nd : (keys svcs).Nodup) (nk : NamesOKs svcs) (pol : Policy) :
    ∀ fuel names parent seen r, walk svcs pol fuel names parent seen = .ok r →
      Post svcs pol (if names.isEmpty then keys svcs else names) seen r := by
  intro fuel
  induction fuel with
  | zero => intro names parent seen r h; simp [walk] at h
  | succ f ih =>
    intro names parent seen r h
    unfold walk at h
    simp only [] at h
    by_cases hf : (if names.isEmpty then keys svcs else names).any (missingFatal svcs parent) = true
    · rw [if_pos hf] at h; cases h
    · rw [if_neg hf] at h
      refine loop_post nd nk (fun ns d seen r hne hr => ?_) _ _ _ h
      have := ih ns d seen r hr
      have e : ns.isEmpty = false := by cases ns <;> simp_all
      simpa [e] using this

/-- the set recorded by `ForEachService` is exactly the closure of the requested names -/
theorem forEachService_reach {p : Proj} (nd : (keys p.services).Nodup) (nk : NamesOKs p.services) {names : List String} (hn : names ≠ [])
    {pol : Policy} {set : List String} (h : forEachService p names pol = .ok set) (x : String) :
    x ∈ set ↔ Reach p.services pol names x := by
  have P := walk_post nd nk pol _ _ _ _ _ h
  have e : names.isEmpty = false := by cases names <;> simp_all
  simp only [e, Bool.false_eq_true, if_false] at P
  constructor
  · intro hx
    rcases P.sound x hx with h1 | ⟨r, hr, hk, hs⟩
    · cases h1
    · exact reach_of_star hr hk hs
  · intro hx
    induction hx with
    | root hr hk => exact P.roots _ hr hk
    | step _ e ih => exact P.closed _ ih (by simp) _ e

theorem forEachService_subset {p : Proj} (nd : (keys p.services).Nodup) (nk : NamesOKs p.services) {names : List String} (hn : names ≠ [])
    {pol : Policy} {set : List String} (h : forEachService p names pol = .ok set) :
    ∀ x ∈ set, x ∈ keys p.services := by
  intro x hx
  have := (forEachService_reach nd nk hn h x).1 hx
  induction this with
  | root _ hk => exact hk
  | step _ e _ => exact edge_target_mem e

/-! ## the fuel of the walk is never exhausted -/

def unseen (svcs : AL Svc) (seen : List String) : Nat := ((keys svcs).filter (fun k => k ∉ seen)).length

theorem unseen_mono {svcs : AL Svc} {seen seen' : List String} (h : ∀ x ∈ seen, x ∈ seen') :
    unseen svcs seen' ≤ unseen svcs seen := by
  unfold unseen
  have : (keys svcs).filter (fun k => decide (k ∉ seen')) =
      ((keys svcs).filter (fun k => decide (k ∉ seen))).filter (fun k => decide (k ∉ seen')) := by
    rw [List.filter_filter]
    apply List.filter_congr
    intro x _
    by_cases a : x ∈ seen'
    · simp [a]
    · have : x ∉ seen := fun c => a (h x c)
      simp [a, this]
  rw [this]
  exact List.length_filter_le _ _

theorem unseen_cons_lt {svcs : AL Svc} {seen : List String} {n : String} (hk : n ∈ keys svcs) (hn : n ∉ seen) :
    unseen svcs (n :: seen) < unseen svcs seen := by
  unfold unseen
  have : (keys svcs).filter (fun k => decide (k ∉ n :: seen)) =
      ((keys svcs).filter (fun k => decide (k ∉ seen))).filter (fun k => decide (k ≠ n)) := by
    rw [List.filter_filter]
    apply List.filter_congr
    intro x _
    by_cases a : x = n <;> by_cases b : x ∈ seen <;> simp [a, b]
  rw [this]
  apply List.length_filter_lt_length_iff_exists.2
  exact ⟨n, List.mem_filter.2 ⟨hk, by simpa using hn⟩, by simp⟩

theorem loop_fuel {svcs : AL Svc} {pol : Policy} {rec : List String → AL Dep → List String → Walk} (F : Nat)
    (hf : ∀ ns d seen, unseen svcs seen < F → rec ns d seen ≠ .outOfFuel)
    (hm : ∀ ns d seen r, rec ns d seen = .ok r → ∀ x ∈ seen, x ∈ r) :
    ∀ ns seen, unseen svcs seen ≤ F → walkLoop rec svcs pol ns seen ≠ .outOfFuel := by
  intro ns
  induction ns with
  | nil => intro seen _ h; simp [walkLoop] at h
  | cons n ns ih =>
    intro seen hle
    unfold walkLoop
    cases hs : lookup n svcs with
    | none => simpa only [hs] using ih seen hle
    | some s =>
      simp only []
      by_cases hseen : n ∈ seen
      · simpa only [hseen, if_true] using ih seen hle
      · have lt := unseen_cons_lt (keys_of_lookup hs) hseen
        simp only [hseen, if_false]
        by_cases hd : (nextOf svcs pol n s).isEmpty = true
        · simpa only [hd, if_true] using ih (n :: seen) (by omega)
        · simp only [hd, Bool.false_eq_true, if_false]
          cases hr : rec (keys (nextOf svcs pol n s)) (nextOf svcs pol n s) (n :: seen) with
          | noSuchService => simp
          | outOfFuel => exact absurd hr (hf _ _ _ (by omega))
          | ok seen2 =>
            simp only []
            have := unseen_mono (svcs := svcs) (hm _ _ _ _ hr)
            exact ih seen2 (by omega)

theorem walk_fuel {svcs : AL Svc} (nd : (keys svcs).Nodup) (nk : NamesOKs svcs) (pol : Policy) :
    ∀ fuel names parent seen, unseen svcs seen < fuel → walk svcs pol fuel names parent seen ≠ .outOfFuel := by
  intro fuel
  induction fuel with
  | zero => intro _ _ _ h; omega
  | succ f ih =>
    intro names parent seen hlt
    unfold walk
    simp only []
    by_cases hf : (if names.isEmpty then keys svcs else names).any (missingFatal svcs parent) = true
    · rw [if_pos hf]; simp
    · rw [if_neg hf]
      exact loop_fuel f (fun ns d seen h => ih ns d seen h)
        (fun ns d seen r hr => (walk_post nd nk pol f ns d seen r hr).mono) _ _ (by omega)

theorem forEachService_fuel {p : Proj} (nd : (keys p.services).Nodup) (nk : NamesOKs p.services) (names : List String) (pol : Policy) :
    forEachService p names pol ≠ .outOfFuel := by
  apply walk_fuel nd nk
  unfold unseen
  have := List.length_filter_le (fun k => decide (k ∉ ([] : List String))) (keys p.services)
  simp only [keys, List.length_map] at this ⊢
  omega

/-! ## selection: the result against the spec -/

theorem mem_nonSelected {set : List String} {l : AL Svc} {x : String} :
    x ∈ nonSelected set l ↔ x ∈ keys l ∧ x ∉ set := by
  unfold nonSelected
  simp only [List.mem_map, List.mem_filter, decide_eq_true_eq, mem_keys]
  constructor
  · rintro ⟨⟨k, v⟩, ⟨hm, hs⟩, rfl⟩; exact ⟨⟨v, hm⟩, hs⟩
  · rintro ⟨⟨v, hm⟩, hs⟩; exact ⟨(x, v), ⟨hm, hs⟩, rfl⟩

theorem mem_unselected {set : List String} {l : AL Svc} {x : String} :
    x ∈ unselected set l ↔ x ∈ keys l ∧ x ∉ set := by
  unfold unselected; rw [mem_sortNames, mem_nonSelected]

theorem mem_keys_selectedPruned {set : List String} {l : AL Svc} {x : String} :
    x ∈ keys (selectedPruned set l) ↔ x ∈ keys l ∧ x ∈ set := by
  rw [keys_selectedPruned, mem_keys_filter, mem_keys]
  simp only [decide_eq_true_eq]
  constructor
  · rintro ⟨v, hm, hs⟩; exact ⟨⟨v, hm⟩, hs⟩
  · rintro ⟨⟨v, hm⟩, hs⟩; exact ⟨v, hm, hs⟩

theorem mem_selectedPruned {set : List String} {l : AL Svc} {kv : String × Svc} (h : kv ∈ selectedPruned set l) :
    ∃ s, (kv.1, s) ∈ l ∧ kv.1 ∈ set ∧ kv.2 = pruneDeps set s := by
  unfold selectedPruned at h
  simp only [List.mem_map, List.mem_filter, decide_eq_true_eq] at h
  obtain ⟨⟨k, s⟩, ⟨hm, hs⟩, rfl⟩ := h
  exact ⟨s, hm, hs, rfl⟩

theorem svcLe_pruneDeps {s : Svc} (nd : (keys s.deps).Nodup) (set : List String) : SvcLe s (pruneDeps set s) := by
  refine ⟨rfl, fun kv hkv => ?_, envLe_refl _⟩
  simp only [pruneDeps, List.mem_filter] at hkv
  exact lookup_of_mem nd hkv.1

section
variable {p : Proj} (h : Partition p) {set : List String} (hsub : ∀ x ∈ set, x ∈ keys p.services)
include h hsub

theorem selectResult_partition : Partition (selectResult p set) := by
  have hr := withServicesDisabled_partition h (unselected set p.services)
  refine ⟨?_, hr.2.1, fun k hk hd => ?_⟩
  · show (keys (selectedPruned set p.services)).Nodup
    rw [keys_selectedPruned]; exact nodup_filter h.1
  · have hk' : k ∈ keys (selectedPruned set p.services) := hk
    rw [mem_keys_selectedPruned] at hk'
    have hd' : k ∈ keys (withServicesDisabled p (unselected set p.services)).disabled := hd
    rw [mem_keys_withServicesDisabled_disabled] at hd'
    rcases hd' with a | ⟨a, _⟩
    · exact h.2.2 k hk'.1 a
    · exact (mem_unselected.1 a).2 hk'.2

theorem selectResult_carried (w : SvcWF p) : Carried p (selectResult p set) := by
  intro k
  have hc := (withServicesDisabled_inv h w (unselected set p.services)).2.2 k
  have fq : find (selectResult p set) k =
      match lookup k (selectedPruned set p.services) with
      | some s => some s
      | none => lookup k (withServicesDisabled p (unselected set p.services)).disabled := rfl
  rw [fq, lookup_selectedPruned h.1]
  by_cases hk : k ∈ set
  · obtain ⟨s, hs⟩ := Option.isSome_iff_exists.1 (lookup_isSome.2 (hsub k hk))
    have fp : find p k = some s := by unfold find; rw [hs]
    simp only [hk, if_true, hs, Option.map_some, fp, optRel]
    exact svcLe_pruneDeps (svcWF_of_find w fp) set
  · simp only [hk, if_false]
    have : lookup k (withServicesDisabled p (unselected set p.services)).services = none := by
      rw [lookup_withServicesDisabled_services]
      split
      · rfl
      · rename_i hn
        have : k ∉ keys p.services := fun c => hn (mem_unselected.2 ⟨c, hk⟩)
        rw [lookup_eq_none.2 this]; rfl
    unfold find at hc
    rw [this] at hc
    exact hc

theorem selectResult_spec : SelectSpec p set (selectResult p set) := by
  refine ⟨⟨fun x hx => ?_, fun x hx => ?_⟩, fun kv hkv d hd => ?_, fun kv hkv => ?_, fun kv hkv => ?_, ?_⟩
  · exact (mem_keys_selectedPruned.1 hx).2
  · exact mem_keys_selectedPruned.2 ⟨hsub x hx, hx⟩
  · obtain ⟨s, _, _, e⟩ := mem_selectedPruned hkv
    rw [e] at hd
    obtain ⟨v, hv⟩ := mem_keys.1 hd
    simp only [pruneDeps, List.mem_filter, decide_eq_true_eq] at hv
    exact mem_keys_selectedPruned.2 ⟨hsub d hv.2, hv.2⟩
  · obtain ⟨s, hm, _, e⟩ := mem_selectedPruned hkv
    rw [lookup_of_mem h.1 hm, e]
    rfl
  · have hk : kv.1 ∉ keys p.services := fun c => h.2.2 _ c (mem_keys_of_mem hkv)
    show lookup kv.1 (withServicesDisabled p _).disabled = some kv.2
    rw [lookup_withServicesDisabled_disabled_old _ hk]
    exact lookup_of_mem h.2.1 hkv
  · exact withServicesDisabled_profiles p _

end

theorem selectSpec_congr {p q : Proj} {S S' : List String} (e : SameSet S S') (h : SelectSpec p S q) :
    SelectSpec p S' q := by
  have fe : ∀ l : AL Dep, l.filter (fun d => decide (d.1 ∈ S)) = l.filter (fun d => decide (d.1 ∈ S')) := by
    intro l; apply List.filter_congr; intro d _
    by_cases a : d.1 ∈ S
    · simp [a, e.1 _ a]
    · have : d.1 ∉ S' := fun c => a (e.2 _ c)
      simp [a, this]
  refine ⟨⟨fun x hx => e.1 _ (h.1.1 x hx), fun x hx => h.1.2 x (e.2 _ hx)⟩, h.2.1, fun kv hkv => ?_, h.2.2.2.1, h.2.2.2.2⟩
  have := h.2.2.1 kv hkv
  cases hs : lookup kv.1 p.services with
  | none => simp [hs, sat] at this
  | some s => simp only [hs, sat] at this ⊢; rw [this, fe]

/-! ## histories, permutations -/

theorem run_cons (p : Proj) (o : Op) (os : List Op) :
    run p (o :: os) = match applyOp p o with | .ok q => run q os | _ => run p os := rfl

theorem selectResult_svcWF {p : Proj} (h : Partition p) (w : SvcWF p) (set : List String) :
    SvcWF (selectResult p set) := by
  intro kv hkv
  rcases List.mem_append.1 hkv with a | a
  · obtain ⟨s, hm, _, e⟩ := mem_selectedPruned a
    rw [e]
    exact nodup_filter (w (kv.1, s) (List.mem_append_left _ hm))
  · exact (withServicesDisabled_inv h w _).2.1 kv (List.mem_append_right _ a)

theorem carried_of_find_eq {p q : Proj} (w : SvcWF p) (h : ∀ k, find q k = find p k) : Carried p q := by
  intro k; rw [h k]; exact Carried.refl w k

/-- the same Go project: the two service maps listed in another order, the rest equal -/
def SameProj (p p' : Proj) : Prop :=
  p.services.Perm p'.services ∧ p.disabled.Perm p'.disabled ∧ p.profiles = p'.profiles ∧
  p.networks = p'.networks ∧ p.volumes = p'.volumes ∧ p.secrets = p'.secrets ∧ p.configs = p'.configs ∧
  p.environment = p'.environment

/-- the same Go map -/
def LookEq {α} (m m' : AL α) : Prop := ∀ k, lookup k m = lookup k m'

theorem lookEq_of_perm {α} {a b : AL α} (h : a.Perm b) (nd : (keys a).Nodup) : LookEq a b :=
  fun _ => lookup_perm h nd

theorem partition_perm {p p' : Proj} (h : Partition p) (e : SameProj p p') : Partition p' := by
  have k1 := List.Perm.map Prod.fst e.1
  have k2 := List.Perm.map Prod.fst e.2.1
  exact ⟨k1.nodup_iff.1 h.1, k2.nodup_iff.1 h.2.1,
    fun k hk hd => h.2.2 k (k1.mem_iff.2 hk) (k2.mem_iff.2 hd)⟩

theorem find_perm {p p' : Proj} (h : Partition p) (e : SameProj p p') (k : String) : find p k = find p' k := by
  unfold find; rw [lookup_perm e.1 h.1, lookup_perm e.2.1 h.2.1]

theorem mem_keys_lookEq {α} {m m' : AL α} (e : LookEq m m') (k : String) : k ∈ keys m ↔ k ∈ keys m' := by
  rw [← lookup_isSome, ← lookup_isSome, e k]

theorem disableOne_lookEq {p p' : Proj} (es : LookEq p.services p'.services) (ed : LookEq p.disabled p'.disabled)
    (n : String) : LookEq (disableOne p n).services (disableOne p' n).services ∧
      LookEq (disableOne p n).disabled (disableOne p' n).disabled := by
  refine ⟨fun k => ?_, fun k => ?_⟩
  · rw [lookup_disableOne_services, lookup_disableOne_services, es k]
  · rw [lookup_disableOne_disabled, lookup_disableOne_disabled, es n, ed k]
    simp only [mem_keys_lookEq es n]

theorem edge_lookEq {svcs svcs' : AL Svc} (e : LookEq svcs svcs') {pol : Policy} {x y : String}
    (h : Edge svcs pol x y) : Edge svcs' pol x y := by
  cases pol with
  | deps => obtain ⟨s, h1, h2, h3⟩ := h; exact ⟨s, (e x) ▸ h1, h2, (mem_keys_lookEq e y).1 h3⟩
  | dependents => obtain ⟨h1, s, h2, h3⟩ := h; exact ⟨(mem_keys_lookEq e x).1 h1, s, (e y) ▸ h2, h3⟩
  | ignore => exact h

theorem reach_lookEq {svcs svcs' : AL Svc} (e : LookEq svcs svcs') {pol : Policy} {roots : List String} {x : String}
    (h : Reach svcs pol roots x) : Reach svcs' pol roots x := by
  induction h with
  | root hr hk => exact .root hr ((mem_keys_lookEq e _).1 hk)
  | step _ ed ih => exact .step ih (edge_lookEq e ed)


/-! ## when the walk fails -/

theorem Reach.mono {svcs : AL Svc} {pol : Policy} {roots roots' : List String} (sub : ∀ r ∈ roots, r ∈ roots')
    {x : String} (h : Reach svcs pol roots x) : Reach svcs pol roots' x := by
  induction h with
  | root hr hk => exact .root (sub _ hr) hk
  | step _ e ih => exact .step ih e

theorem reach_of_reach_next {svcs : AL Svc} (nd : (keys svcs).Nodup) (nk : NamesOKs svcs) {pol : Policy} {n : String} {s : Svc}
    (hs : lookup n svcs = some s) {ns : List String} {x : String}
    (h : Reach svcs pol (keys (nextOf svcs pol n s)) x) : Reach svcs pol (n :: ns) x := by
  induction h with
  | root hr hk =>
    exact .step (.root (by simp) (keys_of_lookup hs)) ((edge_iff_next nd nk hs).2 ⟨hr, hk⟩)
  | step _ e ih => exact .step ih e

theorem missing_of_fatal {svcs : AL Svc} (nk : NamesOKs svcs) {pol : Policy} {n : String} {s : Svc} (hs : lookup n svcs = some s)
    (h : (keys (nextOf svcs pol n s)).any (missingFatal svcs (nextOf svcs pol n s)) = true) :
    MissingRequired svcs pol n := by
  rw [List.any_eq_true] at h
  obtain ⟨k, hk, hf⟩ := h
  unfold missingFatal at hf
  simp only [Bool.and_eq_true, Bool.not_eq_true'] at hf
  have hnk : k ∉ keys svcs := by
    intro c
    have : has k svcs = true := by unfold has; exact lookup_isSome.2 c
    rw [this] at hf; exact absurd hf.1 (by simp)
  cases pol with
  | deps =>
    simp only [nextOf] at hk hf
    obtain ⟨d, hd⟩ := Option.isSome_iff_exists.1 (lookup_isSome.2 hk)
    refine ⟨rfl, ?_⟩
    rw [hs]
    refine ⟨(k, d), mem_of_lookup hd, ?_, hnk⟩
    have := hf.2
    rw [hd] at this
    exact this
  | dependents =>
    simp only [nextOf] at hk
    obtain ⟨s', hm, _⟩ := (mem_keys_dependents nk (nk (n, s) (mem_of_lookup hs))).1 hk
    exact absurd (mem_keys_of_mem hm) hnk
  | ignore => simp [nextOf] at hk

theorem not_missing_of_not_fatal {svcs : AL Svc} {pol : Policy} {n : String} {s : Svc} (hs : lookup n svcs = some s)
    (nds : (keys s.deps).Nodup)
    (h : ¬(keys (nextOf svcs pol n s)).any (missingFatal svcs (nextOf svcs pol n s)) = true) :
    ¬MissingRequired svcs pol n := by
  rintro ⟨hp, hm⟩
  subst hp
  rw [hs] at hm
  obtain ⟨kv, hkv, hreq, hnk⟩ := hm
  apply h
  rw [List.any_eq_true]
  refine ⟨kv.1, mem_keys_of_mem hkv, ?_⟩
  unfold missingFatal
  have h1 : has kv.1 svcs = false := by
    unfold has; cases hh : (lookup kv.1 svcs).isSome
    · rfl
    · exact absurd (lookup_isSome.1 hh) hnk
  simp only [nextOf, h1, lookup_of_mem nds (show (kv.1, kv.2) ∈ s.deps from hkv), hreq]
  rfl

theorem loop_err {svcs : AL Svc} (nd : (keys svcs).Nodup) (nk : NamesOKs svcs) {pol : Policy}
    {rec : List String → AL Dep → List String → Walk}
    (hrec : ∀ ns d seen, ns ≠ [] → rec ns d seen = .noSuchService →
      ns.any (missingFatal svcs d) = true ∨ ∃ x, Reach svcs pol ns x ∧ MissingRequired svcs pol x) :
    ∀ ns seen, walkLoop rec svcs pol ns seen = .noSuchService →
      ∃ x, Reach svcs pol ns x ∧ MissingRequired svcs pol x := by
  intro ns
  induction ns with
  | nil => intro seen h; simp [walkLoop] at h
  | cons n ns ih =>
    intro seen h
    have lift : (∃ x, Reach svcs pol ns x ∧ MissingRequired svcs pol x) →
        ∃ x, Reach svcs pol (n :: ns) x ∧ MissingRequired svcs pol x :=
      fun ⟨x, hx, hm⟩ => ⟨x, hx.mono (fun r hr => List.mem_cons_of_mem _ hr), hm⟩
    unfold walkLoop at h
    cases hs : lookup n svcs with
    | none => simp only [hs] at h; exact lift (ih _ h)
    | some s =>
      simp only [hs] at h
      by_cases hseen : n ∈ seen
      · simp only [hseen, if_true] at h; exact lift (ih _ h)
      · simp only [hseen, if_false] at h
        by_cases hd : (nextOf svcs pol n s).isEmpty = true
        · simp only [hd, if_true] at h; exact lift (ih _ h)
        · simp only [hd, Bool.false_eq_true, if_false] at h
          have hne : keys (nextOf svcs pol n s) ≠ [] := by
            intro e
            apply hd
            cases hh : nextOf svcs pol n s with
            | nil => rfl
            | cons a b => rw [hh] at e; cases e
          cases hr : rec (keys (nextOf svcs pol n s)) (nextOf svcs pol n s) (n :: seen) with
          | ok seen2 => simp only [hr] at h; exact lift (ih _ h)
          | outOfFuel => simp [hr] at h
          | noSuchService =>
            rcases hrec _ _ _ hne hr with a | ⟨x, hx, hm⟩
            · exact ⟨n, .root (by simp) (keys_of_lookup hs), missing_of_fatal nk hs a⟩
            · exact ⟨x, reach_of_reach_next nd nk hs hx, hm⟩

theorem walk_err {svcs : AL Svc} (nd : (keys svcs).Nodup) (nk : NamesOKs svcs) (pol : Policy) :
    ∀ fuel names parent seen, walk svcs pol fuel names parent seen = .noSuchService →
      (if names.isEmpty then keys svcs else names).any (missingFatal svcs parent) = true ∨
      ∃ x, Reach svcs pol (if names.isEmpty then keys svcs else names) x ∧ MissingRequired svcs pol x := by
  intro fuel
  induction fuel with
  | zero => intro names parent seen h; simp [walk] at h
  | succ f ih =>
    intro names parent seen h
    unfold walk at h
    simp only [] at h
    by_cases hf : (if names.isEmpty then keys svcs else names).any (missingFatal svcs parent) = true
    · exact .inl hf
    · rw [if_neg hf] at h
      refine .inr (loop_err nd nk (fun ns d seen hne hr => ?_) _ _ h)
      have := ih ns d seen hr
      have e : ns.isEmpty = false := by cases ns <;> simp_all
      simpa [e] using this

theorem loop_ok_clean {svcs : AL Svc} (wf : ∀ kv ∈ svcs, (keys kv.2.deps).Nodup) {pol : Policy}
    {rec : List String → AL Dep → List String → Walk}
    (hrec : ∀ ns d seen r, ns ≠ [] → rec ns d seen = .ok r →
      ¬ns.any (missingFatal svcs d) = true ∧ ∀ x ∈ r, x ∈ seen ∨ ¬MissingRequired svcs pol x) :
    ∀ ns seen r, walkLoop rec svcs pol ns seen = .ok r → ∀ x ∈ r, x ∈ seen ∨ ¬MissingRequired svcs pol x := by
  intro ns
  induction ns with
  | nil =>
    intro seen r h x hx
    simp only [walkLoop, Walk.ok.injEq] at h
    subst h; exact .inl hx
  | cons n ns ih =>
    intro seen r h x hx
    unfold walkLoop at h
    cases hs : lookup n svcs with
    | none => simp only [hs] at h; exact ih _ _ h x hx
    | some s =>
      simp only [hs] at h
      have nds := wf (n, s) (mem_of_lookup hs)
      by_cases hseen : n ∈ seen
      · simp only [hseen, if_true] at h; exact ih _ _ h x hx
      · simp only [hseen, if_false] at h
        by_cases hd : (nextOf svcs pol n s).isEmpty = true
        · simp only [hd, if_true] at h
          rcases ih _ _ h x hx with a | a
          · rcases List.mem_cons.1 a with e | e
            · subst e
              refine .inr (not_missing_of_not_fatal hs nds ?_)
              rw [List.isEmpty_iff] at hd
              simp [hd]
            · exact .inl e
          · exact .inr a
        · simp only [hd, Bool.false_eq_true, if_false] at h
          have hne : keys (nextOf svcs pol n s) ≠ [] := by
            intro e
            apply hd
            cases hh : nextOf svcs pol n s with
            | nil => rfl
            | cons a b => rw [hh] at e; cases e
          cases hr : rec (keys (nextOf svcs pol n s)) (nextOf svcs pol n s) (n :: seen) with
          | noSuchService => simp [hr] at h
          | outOfFuel => simp [hr] at h
          | ok seen2 =>
            simp only [hr] at h
            have R := hrec _ _ _ _ hne hr
            rcases ih _ _ h x hx with a | a
            · rcases R.2 x a with b | b
              · rcases List.mem_cons.1 b with e | e
                · subst e; exact .inr (not_missing_of_not_fatal hs nds R.1)
                · exact .inl e
              · exact .inr b
            · exact .inr a

theorem walk_ok_clean {svcs : AL Svc} (wf : ∀ kv ∈ svcs, (keys kv.2.deps).Nodup) (pol : Policy) :
    ∀ fuel names parent seen r, walk svcs pol fuel names parent seen = .ok r →
      ¬(if names.isEmpty then keys svcs else names).any (missingFatal svcs parent) = true ∧
      ∀ x ∈ r, x ∈ seen ∨ ¬MissingRequired svcs pol x := by
  intro fuel
  induction fuel with
  | zero => intro names parent seen r h; simp [walk] at h
  | succ f ih =>
    intro names parent seen r h
    unfold walk at h
    simp only [] at h
    by_cases hf : (if names.isEmpty then keys svcs else names).any (missingFatal svcs parent) = true
    · rw [if_pos hf] at h; cases h
    · rw [if_neg hf] at h
      refine ⟨hf, loop_ok_clean wf (fun ns d seen r hne hr => ?_) _ _ _ h⟩
      have := ih ns d seen r hr
      have e : ns.isEmpty = false := by cases ns <;> simp_all
      simpa [e] using this

theorem missingFatal_top (svcs : AL Svc) (n : String) : missingFatal svcs [] n = true ↔ n ∉ keys svcs := by
  unfold missingFatal has
  simp only [lookup, Bool.and_true, Bool.not_eq_true', ← lookup_isSome]
  cases (lookup n svcs).isSome <;> simp

/-! ## the service moved by `WithServicesDisabled` -/

theorem dropDep_eq (n : String) (s : Svc) : dropDep n s = dropDeps [n] s := by
  unfold dropDep dropDeps
  rw [erase_eq_filter]
  congr 1
  apply List.filter_congr
  intro d _
  simp

theorem dropDeps_dropDep (n : String) (ns : List String) (s : Svc) :
    dropDeps ns (dropDep n s) = dropDeps (n :: ns) s := by
  simp only [dropDeps, dropDep, erase_eq_filter, List.filter_filter]
  congr 1
  apply List.filter_congr
  intro d _
  simp only [List.mem_cons, not_or, ne_eq, decide_not, Bool.decide_and, Bool.and_comm]

/-- a service moved to the disabled set has lost its dependencies on the names listed up to (and including) itself -/
theorem lookup_withServicesDisabled_moved {p : Proj} {names : List String} {x : String}
    (hx : x ∈ keys p.services) (hn : x ∈ names) :
    lookup x (withServicesDisabled p names).disabled = (lookup x p.services).map (dropDeps (upTo x names)) := by
  unfold withServicesDisabled
  induction names generalizing p with
  | nil => cases hn
  | cons n ns ih =>
    simp only [List.foldl_cons]
    by_cases e : n = x
    · subst e
      have hk : n ∉ keys (disableOne p n).services := fun c => (mem_keys_disableOne_services.1 c).2 rfl
      have := lookup_withServicesDisabled_disabled_old (p := disableOne p n) ns hk
      unfold withServicesDisabled at this
      rw [this, lookup_disableOne_disabled]
      simp only [hx, and_self, if_true, upTo]
      cases lookup n p.services with
      | none => rfl
      | some s => simp [dropDep_eq]
    · have hx' : x ∈ keys (disableOne p n).services := mem_keys_disableOne_services.2 ⟨hx, fun c => e c.symm⟩
      have hn' : x ∈ ns := by
        rcases List.mem_cons.1 hn with c | c
        · exact absurd c.symm e
        · exact c
      rw [ih hx' hn', lookup_disableOne_services]
      simp only [upTo, if_neg e, if_neg (fun c : x = n => e c.symm)]
      cases lookup x p.services with
      | none => rfl
      | some s => simp [dropDeps_dropDep]

theorem withServicesDisabled_movedSpec {p : Proj} (h : Partition p) (names : List String) :
    DisableMovedSpec p names (withServicesDisabled p names) := by
  intro kv hkv hx
  have hq := withServicesDisabled_partition h names
  have hl := lookup_of_mem hq.2.1 (show (kv.1, kv.2) ∈ _ from hkv)
  have hn : kv.1 ∈ names := by
    rcases mem_keys_withServicesDisabled_disabled.1 (mem_keys_of_mem hkv) with a | a
    · exact absurd a (h.2.2 _ hx)
    · exact a.1
  rw [lookup_withServicesDisabled_moved hx hn] at hl
  cases hs : lookup kv.1 p.services with
  | none => simp [hs] at hl
  | some s =>
    simp only [hs, Option.map_some, Option.some.injEq] at hl
    show kv.2 = _
    rw [← hl]; rfl

theorem mem_upTo_sorted {x y : String} {l : List String} (hs : l.Pairwise (· ≤ ·)) (nd : l.Nodup) (hx : x ∈ l) :
    y ∈ upTo x l ↔ y ∈ l ∧ y ≤ x := by
  induction l with
  | nil => cases hx
  | cons n ns ih =>
    rw [List.pairwise_cons] at hs
    rw [List.nodup_cons] at nd
    unfold upTo
    by_cases e : n = x
    · subst e
      simp only [if_true, List.mem_cons, List.not_mem_nil, or_false]
      constructor
      · rintro rfl; exact ⟨.inl rfl, String.le_refl _⟩
      · rintro ⟨a | a, b⟩
        · exact a
        · have := String.le_antisymm b (hs.1 y a)
          exact absurd (this ▸ a) nd.1
    · have hx' : x ∈ ns := by
        rcases List.mem_cons.1 hx with c | c
        · exact absurd c.symm e
        · exact c
      simp only [if_neg e, List.mem_cons, ih hs.2 nd.2 hx']
      constructor
      · rintro (rfl | ⟨a, b⟩)
        · exact ⟨.inl rfl, hs.1 x hx'⟩
        · exact ⟨.inr a, b⟩
      · rintro ⟨rfl | a, b⟩
        · exact .inl rfl
        · exact .inr ⟨a, b⟩

theorem nodup_nonSelected {set : List String} {l : AL Svc} (nd : (keys l).Nodup) : (nonSelected set l).Nodup := by
  have : nonSelected set l = keys (l.filter (fun kv => kv.1 ∉ set)) := rfl
  rw [this]; exact nodup_filter nd

theorem selectResult_movedSpec {p : Proj} (h : Partition p) (set : List String) :
    SelectMovedSpec p set (selectResult p set) := by
  intro kv hkv hx
  have hm := withServicesDisabled_movedSpec h (unselected set p.services) kv hkv hx
  have hn : kv.1 ∈ unselected set p.services := by
    rcases mem_keys_withServicesDisabled_disabled.1 (mem_keys_of_mem (show kv ∈ (withServicesDisabled p _).disabled from hkv)) with a | a
    · exact absurd a (h.2.2 _ hx)
    · exact a.1
  cases hs : lookup kv.1 p.services with
  | none => simp [hs, sat] at hm
  | some s =>
    simp only [hs, sat] at hm ⊢
    rw [hm]
    congr 1
    apply List.filter_congr
    intro d _
    have srt : (unselected set p.services).Pairwise (· ≤ ·) := sortNames_sorted _
    have ndp : (unselected set p.services).Nodup :=
      (sortNames_perm _).nodup_iff.2 (nodup_nonSelected h.1)
    have := mem_upTo_sorted (y := d.1) srt ndp hn
    simp only [this, mem_unselected, and_assoc]

/-! ## the iterated saturation of the spec reaches its fixed point within `len(services)` rounds -/

theorem nodup_eraseDups (l : List String) : l.eraseDups.Nodup := by
  suffices ∀ n (l : List String), l.length ≤ n → l.eraseDups.Nodup from this _ l (Nat.le_refl _)
  intro n
  induction n with
  | zero => intro l h; cases l <;> simp_all
  | succ n ih =>
    intro l h
    cases l with
    | nil => simp
    | cons a as =>
      rw [List.eraseDups_cons, List.nodup_cons]
      refine ⟨fun hm => ?_, ih _ ?_⟩
      · rw [List.mem_eraseDups, List.mem_filter] at hm
        simp at hm
      · have := List.length_filter_le (fun b => !b == a) as
        simp only [List.length_cons] at h
        omega

/-- closed under the successor lists -/
def SuccClosed (svcs : AL Svc) (pol : Policy) (S : List String) : Prop := ∀ x ∈ S, ∀ y ∈ succ svcs pol x, y ∈ S

theorem mem_expand {svcs : AL Svc} {pol : Policy} {S : List String} {x : String} :
    x ∈ expand svcs pol S ↔ x ∈ S ∨ ∃ a ∈ S, x ∈ succ svcs pol a := by
  unfold expand
  rw [List.mem_eraseDups, List.mem_append, List.mem_flatMap]

theorem nodup_expand (svcs : AL Svc) (pol : Policy) (S : List String) : (expand svcs pol S).Nodup :=
  nodup_eraseDups _

theorem succ_subset_keys {svcs : AL Svc} {pol : Policy} {x y : String} (h : y ∈ succ svcs pol x) : y ∈ keys svcs := by
  cases pol with
  | deps =>
    simp only [succ] at h
    cases hs : lookup x svcs with
    | none => simp [hs] at h
    | some s => simp only [hs, List.mem_filter, decide_eq_true_eq] at h; exact h.2
  | dependents =>
    simp only [succ] at h
    by_cases hx : x ∈ keys svcs
    · simp only [hx, if_true] at h
      exact (keys_filter_sublist _ svcs).subset h
    · simp [hx] at h
  | ignore => simp [succ] at h

theorem expand_of_closed {svcs : AL Svc} {pol : Policy} {S : List String} (h : SuccClosed svcs pol S) (x : String) :
    x ∈ expand svcs pol S ↔ x ∈ S := by
  rw [mem_expand]
  exact ⟨fun a => a.elim id (fun ⟨b, hb, hx⟩ => h b hb x hx), .inl⟩

theorem succClosed_closureN {svcs : AL Svc} {pol : Policy} (k : Nat) {S : List String} (h : SuccClosed svcs pol S) :
    SuccClosed svcs pol (closureN svcs pol k S) ∧ ∀ x, x ∈ closureN svcs pol k S ↔ x ∈ S := by
  induction k generalizing S with
  | zero => exact ⟨h, fun _ => Iff.rfl⟩
  | succ k ih =>
    have hc : SuccClosed svcs pol (expand svcs pol S) := by
      intro x hx y hy
      rw [expand_of_closed h] at hx ⊢
      exact h x hx y hy
    have := ih hc
    exact ⟨this.1, fun x => (this.2 x).trans (expand_of_closed h x)⟩

theorem mem_closureN_of_mem {svcs : AL Svc} {pol : Policy} (k : Nat) {S : List String} {x : String} (h : x ∈ S) :
    x ∈ closureN svcs pol k S := by
  induction k generalizing S with
  | zero => exact h
  | succ k ih => exact ih (mem_expand.2 (.inl h))

theorem length_expand_lt {svcs : AL Svc} {pol : Policy} {S : List String} (nd : S.Nodup)
    (h : ¬SuccClosed svcs pol S) : S.length < (expand svcs pol S).length := by
  have : ∃ x ∈ S, ∃ y ∈ succ svcs pol x, y ∉ S := by
    apply Classical.byContradiction
    intro c
    apply h
    intro x hx y hy
    apply Classical.byContradiction
    intro hn
    exact c ⟨x, hx, y, hy, hn⟩
  obtain ⟨x, hx, y, hy, hn⟩ := this
  have nd' : (y :: S).Nodup := List.nodup_cons.2 ⟨hn, nd⟩
  have sub : (y :: S) ⊆ expand svcs pol S := by
    intro z hz
    rcases List.mem_cons.1 hz with e | e
    · exact e ▸ mem_expand.2 (.inr ⟨x, hx, hy⟩)
    · exact mem_expand.2 (.inl e)
  have := nd'.length_le_of_subset sub
  simp only [List.length_cons] at this
  omega

/-- pigeonhole: a duplicate-free set of service names cannot grow more than `len(services)` times -/
theorem saturate {svcs : AL Svc} {pol : Policy} :
    ∀ (k : Nat) (S : List String), S.Nodup → (∀ x ∈ S, x ∈ keys svcs) → (keys svcs).length < k + S.length →
      SuccClosed svcs pol (closureN svcs pol k S) := by
  intro k
  induction k with
  | zero =>
    intro S nd sub hlt
    have := nd.length_le_of_subset (fun x hx => sub x hx)
    omega
  | succ k ih =>
    intro S nd sub hlt
    by_cases hc : SuccClosed svcs pol S
    · exact (succClosed_closureN (k + 1) hc).1
    · have hl := length_expand_lt nd hc
      refine ih (expand svcs pol S) (nodup_expand _ _ _) (fun x hx => ?_) (by omega)
      rcases mem_expand.1 hx with a | ⟨a, _, ha⟩
      · exact sub x a
      · exact succ_subset_keys ha

/-- the closure computed by the oracle is always saturated: the run-time check `Closed` cannot fail -/
theorem closure_closed (svcs : AL Svc) (pol : Policy) (roots : List String) :
    Closed svcs pol roots (closure svcs pol roots) := by
  unfold closure
  generalize hS : (roots.filter (fun r => r ∈ keys svcs)).eraseDups = S0
  have mem0 : ∀ x, x ∈ S0 ↔ x ∈ roots ∧ x ∈ keys svcs := by
    intro x; rw [← hS, List.mem_eraseDups, List.mem_filter]; simp
  have nd0 : S0.Nodup := hS ▸ nodup_eraseDups _
  refine ⟨fun r hr hk => mem_closureN_of_mem _ ((mem0 r).2 ⟨hr, hk⟩), ?_⟩
  have : SuccClosed svcs pol (closureN svcs pol svcs.length S0) := by
    cases h0 : S0 with
    | nil => exact (succClosed_closureN _ (fun x hx => absurd hx List.not_mem_nil)).1
    | cons a t =>
      rw [← h0]
      apply saturate _ _ nd0 (fun x hx => ((mem0 x).1 hx).2)
      have : (keys svcs).length = svcs.length := by simp [keys]
      rw [h0] at *
      simp only [List.length_cons]
      omega
  exact this

/-! ## service names -/

/-- every service, enabled or not, is filed under its own `Name` -/
abbrev NamesOK (p : Proj) : Prop := Named p

theorem NamesOK.services {p : Proj} (h : NamesOK p) : NamesOKs p.services :=
  fun kv hkv => h kv (List.mem_append_left _ hkv)

theorem namesOK_of_carried {p q : Proj} (nk : NamesOK p) (hq : Partition q) (c : Carried p q) : NamesOK q := by
  intro kv hkv
  have hf : find q kv.1 = some kv.2 := by
    rw [find_eq_lookup]; exact lookup_of_mem (nodup_all hq) (show (kv.1, kv.2) ∈ _ from hkv)
  have := c kv.1
  rw [hf] at this
  cases hp : find p kv.1 with
  | none => simp [hp, optRel] at this
  | some s =>
    rw [hp] at this
    have e : s.name = kv.2.name := by
      have h1 := this.1
      unfold sameButDeps at h1
      simpa using congrArg Svc.name h1
    rw [find_eq_lookup] at hp
    rw [← e]
    exact nk (kv.1, s) (mem_of_lookup hp)

theorem namesOK_perm {p p' : Proj} (nk : NamesOK p) (e1 : p.services.Perm p'.services) (e2 : p.disabled.Perm p'.disabled) :
    NamesOK p' := by
  intro kv hkv
  apply nk
  rcases List.mem_append.1 hkv with a | a
  · exact List.mem_append_left _ (e1.mem_iff.2 a)
  · exact List.mem_append_right _ (e2.mem_iff.2 a)

/-! ## enabling: the environment tail -/

theorem keys_resolveEnabled (p : Proj) : keys (resolveEnabled p).services = keys p.services :=
  keys_map_val (fun _ s => resolveEnvSvc p.environment s) p.services

theorem lookup_resolveEnabled_services (p : Proj) (k : String) :
    lookup k (resolveEnabled p).services = (lookup k p.services).map (resolveEnvSvc p.environment) :=
  lookup_map_val (fun _ s => resolveEnvSvc p.environment s)

theorem resolveEnabled_partition {p : Proj} (h : Partition p) : Partition (resolveEnabled p) :=
  ⟨by rw [keys_resolveEnabled]; exact h.1, h.2.1, by rw [keys_resolveEnabled]; exact h.2.2⟩

theorem find_resolveEnabled (p : Proj) (k : String) :
    find (resolveEnabled p) k =
      if k ∈ keys p.services then (find p k).map (resolveEnvSvc p.environment) else find p k := by
  unfold find
  rw [lookup_resolveEnabled_services]
  show (match (lookup k p.services).map _ with | some s => some s | none => lookup k p.disabled) = _
  by_cases hk : k ∈ keys p.services
  · obtain ⟨s, hs⟩ := Option.isSome_iff_exists.1 (lookup_isSome.2 hk)
    simp [hk, hs]
  · simp [hk, lookup_eq_none.2 hk]

theorem resolvedSvc_eq (penv : AL String) (s : Svc) : resolveEnvSvc penv s = resolvedSvc penv s := rfl

theorem svcLe_resolve {s : Svc} (nd : (keys s.deps).Nodup) (penv : AL String) : SvcLe s (resolveEnvSvc penv s) :=
  ⟨rfl, depsShrink_refl nd, envLe_resolve penv s.env⟩

theorem carried_resolveEnabled {p : Proj} (w : SvcWF p) : Carried p (resolveEnabled p) := by
  intro k
  rw [find_resolveEnabled]
  cases h : find p k with
  | none => split <;> trivial
  | some s =>
    have nd := svcWF_of_find w h
    split
    · exact svcLe_resolve nd _
    · exact SvcLe.refl nd

theorem svcWF_resolveEnabled {p : Proj} (w : SvcWF p) : SvcWF (resolveEnabled p) := by
  intro kv hkv
  rcases List.mem_append.1 hkv with a | a
  · have : kv ∈ p.services.map fun kv => (kv.1, resolveEnvSvc p.environment kv.2) := a
    obtain ⟨kv0, hm, rfl⟩ := List.mem_map.1 this
    exact w kv0 (List.mem_append_left _ hm)
  · exact w kv (List.mem_append_right _ a)

theorem profilesOK_resolveEnabled {p : Proj} (ok : ProfilesOK p) : ProfilesOK (resolveEnabled p) := by
  intro kv hkv
  have : kv ∈ p.services.map fun kv => (kv.1, resolveEnvSvc p.environment kv.2) := hkv
  obtain ⟨kv0, hm, rfl⟩ := List.mem_map.1 this
  exact ok kv0 hm

theorem known_resolveEnabled (p : Proj) : known (resolveEnabled p) = known p := by
  unfold known; rw [keys_resolveEnabled]; rfl

theorem withServicesEnabled_spec {p : Proj} (h : Partition p) (names : List String) :
    EnableSpec p names (withServicesEnabled p names) := by
  unfold EnableSpec withServicesEnabled
  by_cases hn : names = []
  · simp [hn]
  · have hne : names.isEmpty = false := by cases names <;> simp_all
    rw [if_neg hn, hne, enableProfiles_eq]
    simp only [Bool.false_eq_true, if_false]
    generalize hP : p.profiles ++ wantedProfiles p names = P
    have S := withProfiles_spec h P
    have hq0 := withProfiles_partition h P
    have henv : (withProfiles p P).environment = p.environment := rfl
    refine ⟨rfl, fun k hk => ?_, fun k hk => ?_, fun ok n hnm hkn => ?_⟩
    · rw [known_resolveEnabled] at hk
      have := S.2.1 k hk
      rw [find_resolveEnabled, keys_resolveEnabled]
      cases hf : find (withProfiles p P) k with
      | none => simp [hf, sat] at this
      | some s =>
        simp only [hf, sat] at this
        by_cases hm : k ∈ keys (withProfiles p P).services
        · simp only [hm, if_true, Option.map_some, sat]
          exact ⟨fun _ => this.1 hm, fun _ => trivial⟩
        · simp only [hm, if_false, sat]
          exact ⟨fun c => c.elim, fun c => hm (this.2 c)⟩
    · rw [known_resolveEnabled] at hk
      have hfe := S.2.2 k hk
      obtain ⟨s, hs⟩ := find_isSome_of_known hk
      rw [find_resolveEnabled, keys_resolveEnabled, ← hfe, hs, henv]
      by_cases hm : k ∈ keys (withProfiles p P).services <;> simp [hm, sat, resolvedSvc_eq]
    · subst hP
      obtain ⟨hin, s, hfs, act⟩ := enable_activation h names ok n hnm hkn
      refine ⟨by rw [keys_resolveEnabled]; exact hin, ?_⟩
      rw [find_resolveEnabled, if_pos hin, hfs]
      exact act

end CV.Sel
