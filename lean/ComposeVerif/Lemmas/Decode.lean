import ComposeVerif.Spec.Generic
/-! Lemmas for the generic round trip (C09): element-wise containers, the field loops, null-ness. -/
namespace CV.Generic
open CV CV.TypeDesc CV.Marshal CV.Encode CV.Decode

/-! ### element-wise containers -/

theorem mapOut_roundtrip (enc dec : Val → Out) : ∀ xs : List Val,
    (∀ x ∈ xs, ∃ t, enc x = .ok t ∧ dec t = .ok x) →
    ∃ ts, mapOut enc xs = .ok ts ∧ mapOut dec ts = .ok xs ∧ ts.length = xs.length := by
  intro xs
  induction xs with
  | nil => intro _; exact ⟨[], rfl, rfl, rfl⟩
  | cons x r ih =>
    intro h
    obtain ⟨t, he, hd⟩ := h x (List.mem_cons_self ..)
    obtain ⟨ts, h1, h2, h3⟩ := ih (fun y hy => h y (List.mem_cons_of_mem _ hy))
    exact ⟨t :: ts, by simp [mapOut, he, h1], by simp [mapOut, hd, h2], by simp [h3]⟩

theorem mapKVs_roundtrip (enc dec : Val → Out) : ∀ kvs : List (String × Val),
    (∀ p ∈ kvs, ∃ t, enc p.2 = .ok t ∧ dec t = .ok p.2) →
    ∃ ts, mapKVs enc kvs = .ok ts ∧ mapKVs dec ts = .ok kvs ∧ ts.length = kvs.length := by
  intro kvs
  induction kvs with
  | nil => intro _; exact ⟨[], rfl, rfl, rfl⟩
  | cons p r ih =>
    intro h
    obtain ⟨k, x⟩ := p
    obtain ⟨t, he, hd⟩ := h (k, x) (List.mem_cons_self ..)
    obtain ⟨ts, h1, h2, h3⟩ := ih (fun y hy => h y (List.mem_cons_of_mem _ hy))
    simp only at he hd
    exact ⟨(k, t) :: ts, by simp [mapKVs, he, h1], by simp [mapKVs, hd, h2], by simp [h3]⟩

/-! ### the encoder's field loop succeeds when every rendered field does -/

theorem encodeFields_ok (fmt : Fmt) (enc : TyExpr → Val → Out) (zero : TyExpr → Val → Bool) :
    ∀ (fds : List FieldDesc) (fs : List (String × Val)), NoInline fmt fds fs →
      (∀ fd ∈ fds, keyed fmt fd = true → omitted fmt zero fs fd = false → ∃ t, enc fd.ty (field fs fd.goName) = .ok t) →
      ∃ out, encodeFieldsWith fmt enc zero fds fs = .ok (.map out) := by
  intro fds
  induction fds with
  | nil => intro fs _ _; exact ⟨[], rfl⟩
  | cons fd rest ih =>
    intro fs hni h
    have hni' : NoInline fmt rest fs := fun fd' hm => hni fd' (List.mem_cons_of_mem _ hm)
    obtain ⟨out', hr⟩ := ih fs hni' (fun fd' hm => h fd' (List.mem_cons_of_mem _ hm))
    unfold encodeFieldsWith
    simp only []
    by_cases hs : skipOf fmt fd = true
    · simp only [hs, if_true]; exact ⟨out', hr⟩
    · have hs' : skipOf fmt fd = false := by simpa using hs
      simp only [hs', Bool.false_eq_true, if_false]
      by_cases hin : (fmt = .yaml ∧ fd.yamlInline = true)
      · obtain ⟨hy, hi⟩ := hin
        subst hy
        have hnull := hni fd (List.mem_cons_self ..) hs' rfl hi
        simp only [hi, and_self, if_true, hnull, hr]
        exact ⟨out', rfl⟩
      · simp only [hin, if_false]
        have hkeyed : keyed fmt fd = true := by
          simp only [keyed, hs', Bool.not_false, Bool.true_and, Bool.not_eq_true', Bool.and_eq_false_iff]
          by_cases hy : fmt = .yaml
          · right
            have : ¬ fd.yamlInline = true := fun hi => hin ⟨hy, hi⟩
            simpa using this
          · left
            simpa using hy
        by_cases hz : (omitOf fmt fd && zero fd.ty (field fs fd.goName)) = true
        · simp only [hz, if_true]; exact ⟨out', hr⟩
        · simp only [hz, Bool.false_eq_true, if_false]
          have hz' : omitted fmt zero fs fd = false := by simpa [omitted] using hz
          obtain ⟨t, ht⟩ := h fd (List.mem_cons_self ..) hkeyed hz'
          simp only [ht, hr]
          exact ⟨(keyOf fmt fd, t) :: out', rfl⟩

/-! ### the decoder's field loop -/

theorem decodeFields_all_ok (dec : TyExpr → Val → Out) (zero : TyExpr → Val) (g : FieldDesc → Val) (t : List (String × Val)) :
    ∀ fds : List FieldDesc, (∀ fd ∈ fds, rendered fd = true → fieldDecoded dec zero t fd = .ok (g fd)) →
      decodeFieldsWith dec zero fds t = .ok ((fds.filter rendered).map fun fd => (fd.goName, g fd)) := by
  intro fds
  induction fds with
  | nil => intro _; rfl
  | cons fd rest ih =>
    intro h
    have ihr := ih (fun fd' hm => h fd' (List.mem_cons_of_mem _ hm))
    unfold decodeFieldsWith
    by_cases hr : rendered fd = true
    · have hf := h fd (List.mem_cons_self ..) hr
      simp only [hr, Bool.not_true, Bool.false_eq_true, if_false, hf, ihr, List.filter_cons, if_true, List.map_cons]
    · have hr' : rendered fd = false := by simpa using hr
      simp only [hr', Bool.not_false, if_true, ihr, List.filter_cons, Bool.false_eq_true, if_false]

/-! ### the struct value in descriptor order: reading a field back -/

theorem lookup_mk (g : FieldDesc → Val) : ∀ (fds : List FieldDesc) (fd : FieldDesc), fd ∈ fds →
    (fds.map (·.goName)).Nodup →
    Val.lookup fd.goName (fds.map fun x => (x.goName, g x)) = some (g fd) := by
  intro fds
  induction fds with
  | nil => intro fd hm; cases hm
  | cons x r ih =>
    intro fd hm hnd
    simp only [List.map_cons, List.nodup_cons] at hnd
    rcases List.mem_cons.mp hm with heq | hr
    · subst heq; simp [Val.lookup]
    · have hne : fd.goName ≠ x.goName := by
        intro e
        exact hnd.1 (e ▸ List.mem_map.mpr ⟨fd, hr, rfl⟩)
      simp only [List.map_cons, Val.lookup, hne, if_false]
      exact ih fd hr hnd.2

theorem nodupB_nodup : ∀ l : List String, nodupB l = true → l.Nodup := by
  intro l
  induction l with
  | nil => intro _; exact List.nodup_nil
  | cons x r ih =>
    intro h
    simp only [nodupB, Bool.and_eq_true, Bool.not_eq_true', List.contains_eq_mem, decide_eq_false_iff_not] at h
    exact List.nodup_cons.mpr ⟨h.1, ih h.2⟩

/-! ### dispatch and null-ness -/

theorem custom_none (fmt : Fmt) (n : String) (v : Val) (h : customNames.contains n = false) : custom fmt n v = none := by
  simp only [customNames, List.contains_eq_mem, List.mem_cons, List.mem_nil_iff, or_false, decide_eq_false_iff_not, not_or] at h
  unfold custom
  split <;> simp_all

theorem customDecode_none (n : String) (h : customNames.contains n = false) : customDecode n = none := by
  simp only [customNames, List.contains_eq_mem, List.mem_cons, List.mem_nil_iff, or_false, decide_eq_false_iff_not, not_or] at h
  unfold customDecode
  split <;> simp_all

theorem encode_ptr_nonnull (env : Env) (fmt : Fmt) (f : Nat) (e : TyExpr) (v : Val) (h : v ≠ .null) :
    encode env fmt (f + 1) (.ptr e) v = encode env fmt f e v := by
  cases v <;> simp_all [encode]

theorem decode_ptr_nonnull (env : Env) (f : Nat) (e : TyExpr) (t : Val) (h : t ≠ .null) :
    decode env (f + 1) (.ptr e) t = decode env f e t := by
  cases t <;> simp_all [decode]

/-- a stable value that is nil has a type whose zero value is nil -/
theorem stable_null_zero (env : Env) : ∀ (f : Nat) (ty : TyExpr), Stable env f ty .null → zeroVal env f ty = .null := by
  intro f
  induction f with
  | zero => intro ty h; exact absurd h (by simp [Stable])
  | succ f ih =>
    intro ty h
    cases ty with
    | prim p => simp [Stable] at h
    | other s => simp [Stable] at h
    | ptr e => rfl
    | slice e => rfl
    | map e => rfl
    | named n =>
      simp only [Stable] at h
      simp only [zeroVal]
      cases hs : findStruct env.structs n with
      | some s =>
        simp only [hs] at h
        obtain ⟨vals, hv, _⟩ := h
        cases hv
      | none =>
        simp only [hs] at h ⊢
        cases hn : findNamed env.named n with
        | some e => simp only [hn] at h ⊢; exact ih e h
        | none => simp [hn] at h

/-! ### the induction -/

/-- the three facts the round trip gives for one value -/
def RT (env : Env) (f : Nat) (ty : TyExpr) (v : Val) : Prop :=
  ∃ t, encode env .yaml f ty v = .ok t ∧ decode env f ty t = .ok v ∧ (v ≠ .null → t ≠ .null)

theorem generic_roundtrip_aux (env : Env) : ∀ (f : Nat) (ty : TyExpr) (v : Val),
    plainB env f ty = true → Stable env f ty v → RT env f ty v := by
  intro f
  induction f with
  | zero => intro ty v hp; simp [plainB] at hp
  | succ f ih =>
    intro ty v hp hs
    cases ty with
    | prim p =>
      simp only [Stable] at hs
      exact ⟨v, by simp [encode], by simp [decode], fun h => h⟩
    | other s => simp [plainB] at hp
    | ptr e =>
      simp only [plainB] at hp
      simp only [Stable] at hs
      by_cases hv : v = .null
      · subst hv
        exact ⟨.null, by simp [encode], by simp [decode], fun h => absurd rfl h⟩
      · have hse : Stable env f e v := by
          rcases hs with h | h
          · exact absurd h hv
          · exact h
        obtain ⟨t, he, hd, hn⟩ := ih e v hp hse
        have htn := hn hv
        exact ⟨t, by rw [encode_ptr_nonnull env .yaml f e v hv]; exact he,
          by rw [decode_ptr_nonnull env f e t htn]; exact hd, fun _ => htn⟩
    | slice e =>
      simp only [plainB] at hp
      simp only [Stable] at hs
      obtain ⟨xs, hv, _, hall⟩ := hs
      subst hv
      obtain ⟨ts, h1, h2, _⟩ := mapOut_roundtrip (encode env .yaml f e) (decode env f e) xs
        (fun x hx => by
          obtain ⟨t, he, hd, _⟩ := ih e x hp (hall x hx)
          exact ⟨t, he, hd⟩)
      exact ⟨.seq ts, by simp [encode, h1], by simp [decode, h2], fun _ => by simp⟩
    | map e =>
      simp only [plainB] at hp
      simp only [Stable] at hs
      obtain ⟨kvs, hv, _, hall⟩ := hs
      subst hv
      obtain ⟨ts, h1, h2, _⟩ := mapKVs_roundtrip (encode env .yaml f e) (decode env f e) kvs
        (fun p hp' => by
          obtain ⟨t, he, hd, _⟩ := ih e p.2 hp (hall p hp')
          exact ⟨t, he, hd⟩)
      exact ⟨.map ts, by simp [encode, h1], by simp [decode, h2], fun _ => by simp⟩
    | named n =>
      simp only [plainB, Bool.and_eq_true] at hp
      obtain ⟨hnc, hrest⟩ := hp
      simp only [noCustom, Bool.and_eq_true, Bool.not_eq_true'] at hnc
      obtain ⟨⟨⟨hc, hdm⟩, _⟩, _⟩ := hnc
      have hcn : ∀ v, custom .yaml n v = none := fun v => custom_none .yaml n v hc
      have hcd : customDecode n = none := customDecode_none n hc
      simp only [Stable] at hs
      cases hfs : findStruct env.structs n with
      | none =>
        simp only [hfs] at hs hrest
        cases hfn : findNamed env.named n with
        | none => simp [hfn] at hs
        | some e =>
          simp only [hfn] at hs hrest
          obtain ⟨t, he, hd, hn⟩ := ih e v hrest hs
          exact ⟨t, by simp [encode, hcn, hfs, hfn, he], by simp [decode, hcd, hdm, hfs, hfn, hd], hn⟩
      | some s =>
        simp only [hfs] at hs hrest
        simp only [Bool.and_eq_true, List.all_eq_true, Bool.or_eq_true, Bool.not_eq_true'] at hrest
        obtain ⟨⟨hgn, hkn⟩, hflds⟩ := hrest
        obtain ⟨vals, hv, hvals⟩ := hs
        subst hv
        -- reading a field of the value back
        have hgn' := nodupB_nodup _ hgn
        have hfield : ∀ fd ∈ s.fields, rendered fd = true →
            field ((s.fields.filter rendered).map fun fd => (fd.goName, vals fd)) fd.goName = vals fd := by
          intro fd hm hr
          have := lookup_mk vals (s.fields.filter rendered) fd (List.mem_filter.mpr ⟨hm, hr⟩)
            (by simpa [List.map_map] using hgn')
          simp only [field, this, Option.getD_some]
        -- facts about a rendered field
        have hfd : ∀ fd ∈ s.fields, rendered fd = true →
            fd.yamlSkip = false ∧
            (fd.yamlInline = true → zeroVal env f fd.ty = .null ∧
              fd.yamlKey ∉ (s.fields.filter (keyed .yaml)).map (keyOf .yaml)) ∧
            (fd.yamlInline = false → plainB env f fd.ty = true) := by
          intro fd hm hr
          rcases hflds fd hm with h | h
          · rw [hr] at h; cases h
          · refine ⟨h.1, ?_, ?_⟩
            · intro hi
              have := h.2
              simp only [hi, if_true, Bool.and_eq_true, Bool.not_eq_true', List.contains_eq_mem,
                decide_eq_false_iff_not] at this
              exact ⟨isNull_eq this.1, this.2⟩
            · intro hi; have := h.2; simp only [hi, Bool.false_eq_true, if_false] at this; exact this
        have hkeyed_rendered : ∀ fd : FieldDesc, keyed .yaml fd = true → rendered fd = true := by
          intro fd hk
          obtain ⟨gn, ty, ex, yk, ys, yo, yi, jk, js, jo⟩ := fd
          cases ex <;> cases ys <;> cases yi <;> simp_all [keyed, skipOf, rendered]
        obtain ⟨fs, hfsd⟩ : ∃ fs, fs = (s.fields.filter rendered).map (fun fd => (fd.goName, vals fd)) := ⟨_, rfl⟩
        rw [← hfsd] at hfield
        have hni : NoInline .yaml s.fields fs := by
          intro fd hm hsk _ hi
          have hr : rendered fd = true := by
            obtain ⟨gn, ty, ex, yk, ys, yo, yi, jk, js, jo⟩ := fd
            cases ex <;> cases ys <;> simp_all [skipOf, rendered]
          rw [hfield fd hm hr]
          exact (hvals fd hm hr).1 hi
        have homit : ∀ fd ∈ s.fields, rendered fd = true →
            omitted .yaml (zeroOf env .yaml) fs fd = omittedY env fd (vals fd) := by
          intro fd hm hr
          simp only [omitted, omittedY, omitOf, hfield fd hm hr]
        -- the encoder succeeds
        have hencok : ∃ out, encodeFieldsWith .yaml (encode env .yaml f) (zeroOf env .yaml) s.fields fs = .ok (.map out) := by
          apply encodeFields_ok .yaml _ _ s.fields fs hni
          intro fd hm hk hom
          have hr := hkeyed_rendered fd hk
          have hi : fd.yamlInline = false := by
            obtain ⟨gn, ty, ex, yk, ys, yo, yi, jk, js, jo⟩ := fd
            cases yi <;> simp_all [keyed]
          rw [homit fd hm hr] at hom
          obtain ⟨t, he, _, _⟩ := ih fd.ty (vals fd) ((hfd fd hm hr).2.2 hi) ((hvals fd hm hr).2.2 hi hom)
          rw [hfield fd hm hr]
          exact ⟨t, he⟩
        obtain ⟨out, hout⟩ := hencok
        have hrend := encodeFields_field .yaml (encode env .yaml f) (zeroOf env .yaml) s.fields fs out hni
          (nodupB_nodup _ hkn) hout
        -- the decoder reads every field back
        have hdec : ∀ fd ∈ s.fields, rendered fd = true →
            fieldDecoded (decode env f) (zeroVal env f) out fd = .ok (vals fd) := by
          intro fd hm hr
          obtain ⟨hsk, hinz, hpl⟩ := hfd fd hm hr
          unfold fieldDecoded
          by_cases hi : fd.yamlInline = true
          · -- the extension map is nil and the rendering has no `#extensions` key: the zero value is read
            have hnk : Val.lookup fd.yamlKey out = none :=
              lookup_none_of_not_mem (fun hmem => (hinz hi).2 (encodeFields_keys .yaml _ _ s.fields fs out hni hout _ hmem))
            simp only [hsk, Bool.false_eq_true, if_false, hnk, (hinz hi).1, (hvals fd hm hr).1 hi]
          · have hi' : fd.yamlInline = false := by simpa using hi
            simp only [hsk, Bool.false_eq_true, if_false]
            have hex : fd.exported = true := by simp only [rendered, Bool.and_eq_true] at hr; exact hr.1
            have hk : keyed .yaml fd = true := by simp [keyed, skipOf, hex, hsk, hi']
            have hkey : keyOf .yaml fd = fd.yamlKey := rfl
            rcases hrend fd hm hk with ⟨hom, hl⟩ | ⟨hom, t, he, hl⟩
            · rw [hkey] at hl
              rw [homit fd hm hr] at hom
              simp only [hl, (hvals fd hm hr).2.1 hi' hom]
            · rw [hkey] at hl
              rw [homit fd hm hr] at hom
              rw [hfield fd hm hr] at he
              have hst := (hvals fd hm hr).2.2 hi' hom
              obtain ⟨t', he', hd', hn'⟩ := ih fd.ty (vals fd) (hpl hi') hst
              have htt : t = t' := by rw [he] at he'; injection he'
              subst htt
              by_cases hvn : vals fd = .null
              · -- a nil pointer that is not omitted is written `null` and read back as the zero value
                have hz : zeroVal env f fd.ty = .null := stable_null_zero env f fd.ty (hvn ▸ hst)
                cases t with
                | null => simp only [hl, hz, hvn]
                | _ => simp only [hl, hd']
              · have htn := hn' hvn
                cases t with
                | null => exact absurd rfl htn
                | _ => simp only [hl, hd']
        have hdecall := decodeFields_all_ok (decode env f) (zeroVal env f) vals out s.fields hdec
        refine ⟨.map out, ?_, ?_, fun _ => by simp⟩
        · rw [← hfsd]
          simp only [encode, hcn, hfs]
          exact hout
        · rw [← hfsd]
          simp only [decode, hcd, hdm, Bool.false_eq_true, if_false, hfs, hdecall, hfsd]

end CV.Generic
