import ComposeVerif.Model.Unicity
import ComposeVerif.Lemmas.Unicity
/-! Helper lemmas for `Props/C04Stage.lean` / `Props/C04Fold.lean`: membership through the `seq`/`keys` fold, index keys of
zipped / de-duplicated lists, and the length criterion for distinct keys. -/
namespace CV.Unicity
open CV CV.Val CV.Merge

theorem out_bind_ok {α β : Type} {x : Out α} {f : α → Out β} {b : β} (h : x.bind f = .ok b) :
    ∃ a, x = .ok a ∧ f a = .ok b := by
  cases x with
  | ok a => exact ⟨a, rfl, h⟩
  | err e => simp [Out.bind] at h
  | panic s => simp [Out.bind] at h

theorem mem_insert {k : String} {v : Val} : ∀ {acc : KVs} {e : String × Val}, e ∈ Val.insert k v acc → e = (k, v) ∨ e ∈ acc := by
  intro acc
  induction acc with
  | nil => intro e h; simp [Val.insert] at h; exact Or.inl h
  | cons hd tl ih =>
    obtain ⟨k', v'⟩ := hd
    intro e h
    simp only [Val.insert] at h
    by_cases hk : k = k'
    · simp only [hk, if_true, List.mem_cons] at h
      rcases h with h | h
      · exact Or.inl (by rw [h, hk])
      · exact Or.inr (by simp [h])
    · simp only [hk, if_false, List.mem_cons] at h
      rcases h with h | h
      · exact Or.inr (by simp [h])
      · rcases ih h with h | h
        · exact Or.inl h
        · exact Or.inr (by simp [h])

theorem foldl_step_all (P : String × Val → Prop) : ∀ (l : List (String × Val)) (acc : KVs),
    (∀ e ∈ acc, P e) → (∀ e ∈ l, P e) → ∀ e ∈ l.foldl step acc, P e := by
  intro l
  induction l with
  | nil => intro acc ha _ e he; exact ha e he
  | cons hd tl ih =>
    intro acc ha hl
    apply ih
    · intro e he
      rcases mem_insert he with h | h
      · rw [h]; exact hl hd (by simp)
      · exact ha e h
    · intro e he; exact hl e (by simp [he])

theorem indexAll_zip (ix : Indexer) : ∀ (xs : List Val) (ks : List String), indexAll ix xs = .ok ks →
    ∀ e ∈ ks.zip xs, index ix e.2 = .ok e.1 := by
  intro xs
  induction xs with
  | nil => intro ks _ e he; simp at he
  | cons x r ih =>
    intro ks h e he
    simp only [indexAll] at h
    obtain ⟨k, hk, h⟩ := out_bind_ok h
    obtain ⟨ks', hks, h⟩ := out_bind_ok h
    simp only [Out.ok.injEq] at h; subst h
    simp only [List.zip_cons_cons, List.mem_cons] at he
    rcases he with he | he
    · rw [he]; exact hk
    · exact ih ks' hks e he

theorem indexAll_of_pairs (ix : Indexer) : ∀ (d : KVs), (∀ e ∈ d, index ix e.2 = .ok e.1) →
    indexAll ix (d.map Prod.snd) = .ok (d.map Prod.fst) := by
  intro d
  induction d with
  | nil => intro _; rfl
  | cons hd tl ih =>
    intro h
    simp only [List.map_cons, indexAll, h hd (by simp), Out.bind, ih (fun e he => h e (by simp [he]))]

theorem zip_fst_snd : ∀ (d : KVs), (d.map Prod.fst).zip (d.map Prod.snd) = d := by
  intro d
  induction d with
  | nil => rfl
  | cons hd tl ih => simp only [List.map_cons, List.zip_cons_cons, ih]

theorem length_foldl_addKey : ∀ (ks acc : List String), (ks.foldl addKey acc).length ≤ acc.length + ks.length := by
  intro ks
  induction ks with
  | nil => intro acc; simp
  | cons k r ih =>
    intro acc
    simp only [List.foldl_cons, List.length_cons]
    have := ih (addKey acc k)
    have h2 : (addKey acc k).length ≤ acc.length + 1 := by
      unfold addKey; split <;> simp
    omega

theorem nodup_of_length_foldl_addKey : ∀ (ks acc : List String), acc.Nodup →
    (ks.foldl addKey acc).length = acc.length + ks.length → ks.Nodup ∧ ∀ k ∈ ks, k ∉ acc := by
  intro ks
  induction ks with
  | nil => intro acc _ _; simp
  | cons k r ih =>
    intro acc ha h
    simp only [List.foldl_cons, List.length_cons] at h
    by_cases hk : k ∈ acc
    · exfalso
      have h1 : addKey acc k = acc := by unfold addKey; simp [hk]
      rw [h1] at h
      have := length_foldl_addKey r acc
      omega
    · have h1 : addKey acc k = acc ++ [k] := by unfold addKey; simp [hk]
      rw [h1] at h
      have ha' : (acc ++ [k]).Nodup := by
        rw [List.nodup_append]
        refine ⟨ha, by simp, ?_⟩
        intro a haa b hb
        simp only [List.mem_singleton] at hb
        subst hb
        intro hab; subst hab; exact hk haa
      obtain ⟨hr, hd⟩ := ih (acc ++ [k]) ha' (by simp only [List.length_append, List.length_cons, List.length_nil]; omega)
      refine ⟨List.nodup_cons.mpr ⟨fun hkr => ?_, hr⟩, ?_⟩
      · exact hd k hkr (by simp)
      · intro k' hk'
        simp only [List.mem_cons] at hk'
        rcases hk' with hk' | hk'
        · subst hk'; exact hk
        · intro hacc; exact hd k' hk' (by simp [hacc])

end CV.Unicity
