import ComposeVerif.Lemmas.EnvLayersDotenv
/-! C16: the model fails exactly where the specification says (`fileFailureFrom`, `envFailureFrom`, `labelFailureFrom`). -/
namespace CV.EnvLayers
open CV.EnvLayers.Spec

/-- how a loop outcome and a specified failure correspond -/
def FailsAs {α : Type} (r : Except Err α) (f : Option Err) : Prop :=
  match r with
  | .ok _ => f = none
  | .error e => f = some e

theorem evalValue_cases (look : Look) (v : List Seg) (hwf : CV.Template.WF v = true) :
    evalValue look v = match CV.Template.evalL look v with
      | .ok s => .ok s
      | .error _ => .error .template := by
  unfold evalValue
  rw [CV.Template.subst_render look v hwf]
  unfold CV.Template.evalOut
  cases CV.Template.evalL look v <;> rfl

theorem wfLines_append_left (a b : List Line) (h : WFLines (a ++ b)) : WFLines a :=
  fun k v hm => h k v (List.mem_append_left _ hm)

theorem wfLines_snoc (pre : List Line) (x : Line) (r : List Line) (h : WFLines (pre ++ x :: r)) :
    WFLines ((pre ++ [x]) ++ r) := by
  simpa using h

theorem withFile_eq_lineLook (look : Look) (pre : List Line) (out : List (Key × Str)) (hwf : WFLines pre)
    (hpre : parseLines look pre [] = .ok out) : withFile look out = lineLook look pre := by
  funext n
  rw [withFile_eq]
  simp only [lineLook, lookup_parsed look pre out hwf hpre n]

theorem parseLines_fails_as (look : Look) (pre ls : List Line) (out : List (Key × Str))
    (hwf : WFLines (pre ++ ls)) (hpre : parseLines look pre [] = .ok out) :
    FailsAs (parseLines look ls out) (fileFailureFrom look pre ls) := by
  induction ls generalizing pre out with
  | nil => simp [parseLines, fileFailureFrom, FailsAs]
  | cons x r ih =>
    have hwp : WFLines pre := wfLines_append_left _ _ hwf
    cases x with
    | bad => simp [parseLines, fileFailureFrom, FailsAs]
    | bare k =>
      simp only [parseLines, fileFailureFrom]
      cases hl : look k with
      | none =>
        apply ih _ _ (wfLines_snoc _ _ _ hwf)
        rw [parseLines_append, hpre]; simp [parseLines, hl]
      | some v =>
        apply ih _ _ (wfLines_snoc _ _ _ hwf)
        rw [parseLines_append, hpre]; simp [parseLines, hl]
    | assign k v =>
      have hv : CV.Template.WF v = true := hwf k v (List.mem_append_right _ List.mem_cons_self)
      simp only [parseLines, fileFailureFrom]
      rw [evalValue_cases _ v hv, withFile_eq_lineLook look pre out hwp hpre]
      cases he : CV.Template.evalL (lineLook look pre) v with
      | error e => simp [FailsAs]
      | ok s =>
        simp only
        apply ih _ _ (wfLines_snoc _ _ _ hwf)
        rw [parseLines_append, hpre]
        simp only [parseLines]
        rw [evalValue_cases _ v hv, withFile_eq_lineLook look pre out hwp hpre, he]

theorem parseLines_fails_as_file (look : Look) (ls : List Line) (hwf : WFLines ls) :
    FailsAs (parseLines look ls []) (fileFailure look ls) :=
  parseLines_fails_as look [] ls [] (by simpa using hwf) rfl

theorem filesVal_snoc' (penv : List (Key × Str)) (files : List (List Line)) (f : List Line) (k : Key) :
    filesVal penv (files ++ [f]) k =
      orElse (fileVal (envLook penv (filesVal penv files)) f k) (filesVal penv files k) :=
  filesVal_snoc penv files f k

theorem loadEnvFiles_fails_as (penv : List (Key × Str)) (fs : FS) (hwf : WFFS fs) (efs : List EnvFile)
    (earlier : List (List Line)) (acc : List (Key × Str)) (hd : Distinct acc)
    (hacc : ∀ n, lookup n acc = filesVal penv earlier n) :
    FailsAs (loadEnvFiles penv fs efs acc) (envFailureFrom penv fs earlier efs) := by
  induction efs generalizing earlier acc with
  | nil => simp [loadEnvFiles, envFailureFrom, FailsAs]
  | cons f r ih =>
    have hchain : envChain penv acc = envLook penv (filesVal penv earlier) := by
      rw [envChain_eq]; congr 1; funext n; exact hacc n
    simp only [loadEnvFiles, envFailureFrom, loadEnvFile]
    cases hp : fs f.path with
    | none =>
      cases hr : f.required with
      | true => simp [FailsAs]
      | false => simpa [overrideBy] using ih earlier acc hd hacc
    | some nd =>
      cases nd with
      | notdir =>
        cases hr : f.required with
        | true => simp [FailsAs]
        | false => simpa [overrideBy] using ih earlier acc hd hacc
      | dir =>
        simp only [loadMappingFile, hp]
        by_cases hf : f.format = [] <;> simp [hf, FailsAs, parseWithFormat, hwf.2 f.format]
      | file ls =>
        simp only [loadMappingFile, hp]
        by_cases hf : f.format = []
        · simp only [hf, ne_eq, not_true_eq_false, if_false]
          have hfile := parseLines_fails_as_file (envChain penv acc) ls (hwf.1 _ _ hp)
          rw [hchain] at hfile ⊢
          cases hpl : parseLines (envLook penv (filesVal penv earlier)) ls [] with
          | error e =>
            rw [hpl] at hfile
            simp only [FailsAs] at hfile ⊢
            rw [hfile]
          | ok vars =>
            rw [hpl] at hfile
            simp only [FailsAs] at hfile
            rw [hfile]
            simp only
            have hdv : Distinct vars := parseLines_distinct _ _ _ _ distinct_nil hpl
            apply ih (earlier ++ [ls]) (overrideBy acc vars) (distinct_overrideBy acc vars hd)
            intro n
            rw [lookup_overrideBy_str n acc vars hdv, lookup_parsed _ _ _ (hwf.1 _ _ hp) hpl, filesVal_snoc, hacc n]
        · simp [hf, FailsAs, parseWithFormat, hwf.2 f.format]

theorem labelFilesVal_snoc' (files : List (List Line)) (f : List Line) (k : Key) :
    labelFilesVal (files ++ [f]) k = orElse (fileVal (labelFilesVal files) f k) (labelFilesVal files k) :=
  labelFilesVal_snoc files f k

theorem loadLabelFiles_fails_as (fs : FS) (hwf : WFFS fs) (ps : List Str)
    (earlier : List (List Line)) (acc : List (Key × Str)) (hd : Distinct acc)
    (hacc : ∀ n, lookup n acc = labelFilesVal earlier n) :
    FailsAs (loadLabelFiles fs ps acc) (labelFailureFrom fs earlier ps) := by
  induction ps generalizing earlier acc with
  | nil => simp [loadLabelFiles, labelFailureFrom, FailsAs]
  | cons p r ih =>
    have hchain : labelChain acc = labelFilesVal earlier := by
      funext n; exact hacc n
    simp only [loadLabelFiles, labelFailureFrom, loadLabelFile]
    cases hp : fs p with
    | none => simp [FailsAs]
    | some nd =>
      cases nd with
      | notdir => simp [FailsAs]
      | dir => simp [loadMappingFile, hp, FailsAs]
      | file ls =>
        simp only [loadMappingFile, hp, ne_eq, not_true_eq_false, if_false]
        have hfile := parseLines_fails_as_file (labelChain acc) ls (hwf.1 _ _ hp)
        rw [hchain] at hfile ⊢
        cases hpl : parseLines (labelFilesVal earlier) ls [] with
        | error e =>
          rw [hpl] at hfile
          simp only [FailsAs] at hfile ⊢
          rw [hfile]
        | ok vars =>
          rw [hpl] at hfile
          simp only [FailsAs] at hfile
          rw [hfile]
          simp only
          have hdv : Distinct vars := parseLines_distinct _ _ _ _ distinct_nil hpl
          apply ih (earlier ++ [ls]) (overrideBy acc vars) (distinct_overrideBy acc vars hd)
          intro n
          rw [lookup_overrideBy_str n acc vars hdv, lookup_parsed _ _ _ (hwf.1 _ _ hp) hpl, labelFilesVal_snoc, hacc n]

end CV.EnvLayers
