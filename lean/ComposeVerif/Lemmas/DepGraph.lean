import ComposeVerif.Model.DepGraph
/-!
# `checkCycle` finds every cycle

`Reaches adj n a b`: there is a walk of `n ≥ 1` edges from `a` to `b`.
-/
namespace CV.DepGraph

inductive Reaches (adj : Name → List Name) : Nat → Name → Name → Prop
  | one {a b : Name} : b ∈ adj a → Reaches adj 1 a b
  | step {n : Nat} {a c b : Name} : c ∈ adj a → Reaches adj n c b → Reaches adj (n + 1) a b

/-- the depth-first search with a duplicate-free path inside a finite closed vertex set reports a vertex of the
path as soon as one is reachable again, provided the fuel covers the vertices not yet on the path -/
theorem searchCycle_complete (adj : Name → List Name) (verts : List Name)
    (hclosed : ∀ v ∈ verts, ∀ c ∈ adj v, c ∈ verts) :
    ∀ (n f : Nat) (path : List Name) (v t : Name), Reaches adj n v t → t ∈ path → v ∈ path → path.Nodup →
      (∀ x ∈ path, x ∈ verts) → verts.length + 1 ≤ f + path.length → searchCycle adj f path v = true := by
  intro n
  induction n with
  | zero => intro f path v t h; cases h
  | succ n ih =>
    intro f path v t h ht hv hnd hsub hfuel
    have hlen : path.length ≤ verts.length := hnd.length_le_of_subset (fun x hx => hsub x hx)
    cases f with
    | zero => omega
    | succ f' =>
      simp only [searchCycle, List.any_eq_true, Bool.or_eq_true]
      cases h with
      | one hb => exact ⟨t, hb, .inl (by simpa using ht)⟩
      | @step _ _ c _ hc hr =>
        by_cases hcp : c ∈ path
        · exact ⟨c, hc, .inl (by simpa using hcp)⟩
        · refine ⟨c, hc, .inr ?_⟩
          have hcv : c ∈ verts := hclosed v (hsub v hv) c hc
          apply ih f' (path ++ [c]) c t hr
          · exact List.mem_append_left _ ht
          · simp
          · rw [List.nodup_append]
            refine ⟨hnd, by simp, ?_⟩
            intro a ha b hb
            simp at hb; subst hb
            rintro rfl; exact hcp ha
          · intro x hx
            rcases List.mem_append.mp hx with hx | hx
            · exact hsub x hx
            · simp at hx; subst hx; exact hcv
          · simp only [List.length_append, List.length_singleton]; omega

/-- **every cyclic graph is refused**: a closed walk through a vertex makes `checkCycle` report a cycle -/
theorem checkCycle_complete (adj : Name → List Name) (verts : List Name)
    (hclosed : ∀ v ∈ verts, ∀ c ∈ adj v, c ∈ verts) (v : Name) (hv : v ∈ verts) (n : Nat) (h : Reaches adj n v v) :
    checkCycle verts adj = true := by
  simp only [checkCycle, List.any_eq_true]
  refine ⟨v, hv, ?_⟩
  apply searchCycle_complete adj verts hclosed n (verts.length + 1) [v] v v h
  · simp
  · simp
  · simp
  · intro x hx; simp at hx; subst hx; exact hv
  · simp

theorem Reaches.snoc {adj : Name → List Name} {n : Nat} {a b c : Name} (h : Reaches adj n a b) (hc : c ∈ adj b) :
    Reaches adj (n + 1) a c := by
  induction h with
  | one hb => exact .step hb (.one hc)
  | step hx _ ih => exact .step hx (ih hc)

/-- the search only reports real cycles -/
theorem searchCycle_sound (adj : Name → List Name) :
    ∀ (f : Nat) (path : List Name) (v : Name), searchCycle adj f path v = true →
      (∀ x ∈ path, x = v ∨ ∃ n, Reaches adj n x v) → ∃ x n, Reaches adj n x x := by
  intro f
  induction f with
  | zero => intro path v h; simp [searchCycle] at h
  | succ f ih =>
    intro path v h hinv
    simp only [searchCycle, List.any_eq_true, Bool.or_eq_true] at h
    obtain ⟨c, hc, h | h⟩ := h
    · have hcp : c ∈ path := by simpa using h
      rcases hinv c hcp with rfl | ⟨n, hr⟩
      · exact ⟨c, 1, .one hc⟩
      · exact ⟨c, n + 1, hr.snoc hc⟩
    · apply ih (path ++ [c]) c h
      intro x hx
      rcases List.mem_append.mp hx with hx | hx
      · rcases hinv x hx with rfl | ⟨n, hr⟩
        · exact .inr ⟨1, .one hc⟩
        · exact .inr ⟨n + 1, hr.snoc hc⟩
      · simp at hx; exact .inl hx

theorem checkCycle_sound (adj : Name → List Name) (verts : List Name) (h : checkCycle verts adj = true) :
    ∃ x n, Reaches adj n x x := by
  simp only [checkCycle, List.any_eq_true] at h
  obtain ⟨v, _, hv⟩ := h
  exact searchCycle_sound adj _ [v] v hv (by intro x hx; simp at hx; exact .inl hx)

theorem Reaches.rank_lt {adj : Name → List Name} {rk : Name → Nat} (hrk : ∀ v c, c ∈ adj v → rk c < rk v)
    {n : Nat} {a b : Name} (h : Reaches adj n a b) : rk b < rk a := by
  induction h with
  | one hb => exact hrk _ _ hb
  | step hc _ ih => exact Nat.lt_trans ih (hrk _ _ hc)

/-- **acyclic graphs are accepted**: a graph with a rank function (the hypothesis of the traversal theorems) passes
`checkCycle` -/
theorem checkCycle_accepts_ranked (adj : Name → List Name) (verts : List Name) (rk : Name → Nat)
    (hrk : ∀ v c, c ∈ adj v → rk c < rk v) : checkCycle verts adj = false := by
  cases h : checkCycle verts adj with
  | false => rfl
  | true =>
    obtain ⟨x, n, hr⟩ := checkCycle_sound adj verts h
    exact absurd (hr.rank_lt hrk) (Nat.lt_irrefl _)

/-! ### the caller's project -/

/-- **project unmodified**: building the graph leaves the caller's project as it was — whatever the outcome
(`newGraph` has no write since `fix:` 3143716; before, see `Neg/C13.lean`) -/
theorem project_unmodified_full (p : Proj) : (run p).changed = [] := by
  simp only [run]
  split <;> rfl

end CV.DepGraph
