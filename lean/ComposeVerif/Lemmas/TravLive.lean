import ComposeVerif.Lemmas.TravInvB
/-!
# Liveness: no reachable state is stuck, and every schedule is finite
-/
set_option linter.unusedSimpArgs false
set_option linter.unusedVariables false
namespace CV.Trav

theorem wpc_head (v : V) (pc : WPc) (ws : List (V × WPc)) : wpc ((v, pc) :: ws) v = some pc := by
  simp [wpc, List.find?]

theorem ex_of_isSome {g : Graph} {lim : Option Nat} {s : St} (l : Label)
    (h : (step? g lim s l).isSome = true) : ∃ l s', step? g lim s l = some s' := by
  cases hh : step? g lim s l with
  | some s' => exact ⟨l, s', hh⟩
  | none => simp [hh] at h

/-- a live worker can always take its next step -/
theorem worker_enabled (g : Graph) (lim : Option Nat) (s : St) (v : V) (pc : WPc) (ws : List (V × WPc))
    (h : s.workers = (v, pc) :: ws) : ∃ l s', step? g lim s l = some s' := by
  have hw : wpc s.workers v = some pc := by rw [h]; exact wpc_head v pc ws
  cases pc with
  | start =>
    by_cases hs : g.skip v = true
    · exact ex_of_isSome (.wBegin v) (by simp [step?, hw, hs])
    · exact ex_of_isSome (.wBegin v) (by simp [step?, hw, hs])
  | running => exact ex_of_isSome (.wReturn v false) (by simp [step?, hw])
  | returned e => exact ex_of_isSome (.wDone v) (by simp [step?, hw])
  | marked e => exact ex_of_isSome (.wSend v) (by simp [step?, hw])
  | sent e => exact ex_of_isSome (.wExit v) (by simp [step?, hw])

/-- a scheduler (caller or coordinator) that is mid-iteration can step when no worker is live -/
theorem sched_enabled (g : Graph) (lim : Option Nat) (hl : ∀ l, lim = some l → 1 ≤ l) (s : St) (w : Who) (sc : Sched)
    (hs : getSched s w = some sc) (hw : s.workers = []) : ∃ l s', step? g lim s l = some s' := by
  obtain ⟨todo, sub⟩ := sc
  cases sub with
  | next =>
    cases todo with
    | nil => exact ex_of_isSome (.schedEnd w) (by simp [step?, hs])
    | cons v r => exact ex_of_isSome (.schedNext w v) (by simp [step?, hs])
  | ready v =>
    by_cases hr : ((g.pre v).all fun d => s.status d == .visited) = true
    · exact ex_of_isSome (.ready w) (by simp only [step?, hs, hr]; rfl)
    · exact ex_of_isSome (.ready w) (by simp only [step?, hs, hr]; rfl)
  | enter v =>
    by_cases hr : s.status v = .absent
    · exact ex_of_isSome (.enter w) (by simp [step?, hs, hr])
    · exact ex_of_isSome (.enter w) (by simp [step?, hs, hr])
  | spawn v =>
    apply ex_of_isSome (.spawn w)
    cases lim with
    | none => simp [step?, hs, slotFree]
    | some l =>
      have h1 := hl l rfl
      have : sem s < l + 1 := by
        unfold sem; rw [hw]; simp; split <;> omega
      simp [step?, hs, slotFree, this]

theorem exists_unreceived (g : Graph) (hg : GraphOK g) (s : St) (hI : InvB g s) (hc : s.cAlive = true) :
    ∃ v ∈ g.verts, v ∉ s.received := by
  have ⟨he, h1⟩ := hI.expectEq hc
  apply Classical.byContradiction
  intro hno
  have hall : g.verts ⊆ s.received := by
    intro v hv
    apply Classical.byContradiction
    intro hn
    exact hno ⟨v, hv, hn⟩
  have := hg.nodup.length_le_of_subset hall
  omega

/-- among unreceived vertices pick one of minimal rank: all its dependencies are received -/
theorem exists_min_unreceived (g : Graph) (hg : GraphOK g) (s : St) (hI : InvB g s) (hc : s.cAlive = true) :
    ∃ v ∈ g.verts, v ∉ s.received ∧ ∀ d ∈ g.pre v, d ∈ s.received := by
  obtain ⟨rk, hrk⟩ := hg.rank
  obtain ⟨v0, hv0, hn0⟩ := exists_unreceived g hg s hI hc
  have key : ∀ n, ∀ v ∈ g.verts, v ∉ s.received → rk v = n →
      ∃ u ∈ g.verts, u ∉ s.received ∧ ∀ d ∈ g.pre u, d ∈ s.received := by
    intro n
    induction n using Nat.strongRecOn with
    | _ n ih =>
      intro v hv hn hr
      by_cases hall : ∀ d ∈ g.pre v, d ∈ s.received
      · exact ⟨v, hv, hn, hall⟩
      · have ⟨d, hd, hdn⟩ : ∃ d, d ∈ g.pre v ∧ d ∉ s.received := by
          apply Classical.byContradiction
          intro hno
          apply hall
          intro d hd
          apply Classical.byContradiction
          intro hdn
          exact hno ⟨d, hd, hdn⟩
        have hlt := hrk v hv d hd
        exact ih (rk d) (by omega) d (hg.pre_mem v hv d hd) hdn rfl
  exact key (rk v0) v0 hv0 hn0 rfl

/-- **no lost wake-up**: a state satisfying the invariants is terminal or has an enabled step -/
theorem deadlock_free_inv (g : Graph) (hg : GraphOK g) (lim : Option Nat) (hl : ∀ l, lim = some l → 1 ≤ l)
    (s : St) (hA : InvA s) (hI : InvB g s) : terminal s ∨ ∃ l s', step? g lim s l = some s' := by
  cases hw : s.workers with
  | cons p ws => obtain ⟨v, pc⟩ := p; exact .inr (worker_enabled g lim s v pc ws hw)
  | nil =>
    cases hm : s.m with
    | some sc => exact .inr (sched_enabled g lim hl s .M sc (by simp [getSched, hm]) hw)
    | none =>
      cases hc : s.cAlive with
      | false => exact .inl ⟨hm, hw, hc⟩
      | true =>
        cases hcs : s.cSched with
        | some sc => exact .inr (sched_enabled g lim hl s .C sc (by simp [getSched, hc, hcs]) hw)
        | none =>
          cases hch : s.ch with
          | cons v rest =>
            refine .inr (ex_of_isSome .cRecv ?_)
            simp only [step?, hc, hcs, hch]
            by_cases h0 : s.expect - 1 = 0 <;> simp [h0]
          | nil =>
            cases hcan : s.cancelled with
            | true => exact .inr (ex_of_isSome .cCtxDone (by simp [step?, hc, hcs, hcan]))
            | false =>
              -- the lost-wake-up case: impossible
              exfalso
              obtain ⟨v, hv, hnr, hpre⟩ := exists_min_unreceived g hg s hI hc
              have habs : s.status v = .absent := by
                cases hst : s.status v with
                | absent => rfl
                | entered =>
                  rcases hA.enteredWhere v hst with ⟨pc, hpc⟩ | ⟨w, hp⟩
                  · rw [hw] at hpc; cases hpc
                  · cases w with
                    | M => simp [getSched, hm, spawnOf] at hp
                    | C => simp [getSched, hc, hcs, spawnOf] at hp
                | visited =>
                  rcases hA.visitedWhere v hst with ⟨e, he⟩ | h | h
                  · rw [hw] at he; cases he
                  · rw [hch] at h; cases h
                  · exact absurd h hnr
              by_cases hp : g.pre v = []
              · rcases hI.wakeM v hv hp with h | ⟨x, hx, _⟩
                · exact h habs
                · simp [getSched, hm] at hx
              · rcases hI.wakeC hcan hc v hv hp hpre with h | ⟨x, hx, _⟩
                · exact h habs
                · simp [getSched, hc, hcs] at hx

end CV.Trav
