import ComposeVerif.Lemmas.TravInvB
/-!
# Liveness: no reachable state is stuck, and every schedule is finite
-/
set_option linter.unusedSimpArgs false
set_option linter.unusedVariables false
namespace CV.Trav

theorem wpc_head (v : V) (pc : WPc) (ws : List (V × WPc)) : wpc ((v, pc) :: ws) v = some pc := by
  simp [wpc, List.find?]

theorem ex_of_isSome {g : Graph} {lim : Option Nat} {s : St} (l : Label)
    (h : (step? g lim s l).isSome = true) : ∃ l s', step? g lim s l = some s' := by
  cases hh : step? g lim s l with
  | some s' => exact ⟨l, s', hh⟩
  | none => simp [hh] at h

/-- a live worker can always take its next step -/
theorem worker_enabled (g : Graph) (lim : Option Nat) (s : St) (v : V) (pc : WPc) (ws : List (V × WPc))
    (h : s.workers = (v, pc) :: ws) : ∃ l s', step? g lim s l = some s' := by
  have hw : wpc s.workers v = some pc := by rw [h]; exact wpc_head v pc ws
  cases pc with
  | start =>
    by_cases hs : g.skip v = true
    · exact ex_of_isSome (.wBegin v) (by simp [step?, hw, hs])
    · exact ex_of_isSome (.wBegin v) (by simp [step?, hw, hs])
  | running => exact ex_of_isSome (.wReturn v false) (by simp [step?, hw])
  | returned e => exact ex_of_isSome (.wDone v) (by simp [step?, hw])
  | marked e => exact ex_of_isSome (.wSend v) (by simp [step?, hw])
  | sent e => exact ex_of_isSome (.wExit v) (by simp [step?, hw])

/-- a scheduler (caller or coordinator) that is mid-iteration can step when no worker is live -/
theorem sched_enabled (g : Graph) (lim : Option Nat) (hl : ∀ l, lim = some l → 1 ≤ l) (s : St) (w : Who) (sc : Sched)
    (hs : getSched s w = some sc) (hw : s.workers = []) : ∃ l s', step? g lim s l = some s' := by
  obtain ⟨todo, sub⟩ := sc
  cases sub with
  | next =>
    cases todo with
    | nil => exact ex_of_isSome (.schedEnd w) (by simp [step?, hs])
    | cons v r => exact ex_of_isSome (.schedNext w v) (by simp [step?, hs])
  | ready v =>
    by_cases hr : ((g.pre v).all fun d => s.status d == .visited) = true
    · exact ex_of_isSome (.ready w) (by simp only [step?, hs, hr]; rfl)
    · exact ex_of_isSome (.ready w) (by simp only [step?, hs, hr]; rfl)
  | enter v =>
    by_cases hr : s.status v = .absent
    · exact ex_of_isSome (.enter w) (by simp [step?, hs, hr])
    · exact ex_of_isSome (.enter w) (by simp [step?, hs, hr])
  | spawn v =>
    apply ex_of_isSome (.spawn w)
    cases lim with
    | none => simp [step?, hs, slotFree]
    | some l =>
      have h1 := hl l rfl
      have : sem s < l + 1 := by
        unfold sem; rw [hw]; simp; split <;> omega
      simp [step?, hs, slotFree, this]

theorem exists_unreceived (g : Graph) (hg : GraphOK g) (s : St) (hI : InvB g s) (hc : s.cAlive = true) :
    ∃ v ∈ g.verts, v ∉ s.received := by
  have ⟨he, h1⟩ := hI.expectEq hc
  apply Classical.byContradiction
  intro hno
  have hall : g.verts ⊆ s.received := by
    intro v hv
    apply Classical.byContradiction
    intro hn
    exact hno ⟨v, hv, hn⟩
  have := hg.nodup.length_le_of_subset hall
  omega

/-- among unreceived vertices pick one of minimal rank: all its dependencies are received -/
theorem exists_min_unreceived (g : Graph) (hg : GraphOK g) (s : St) (hI : InvB g s) (hc : s.cAlive = true) :
    ∃ v ∈ g.verts, v ∉ s.received ∧ ∀ d ∈ g.pre v, d ∈ s.received := by
  obtain ⟨rk, hrk⟩ := hg.rank
  obtain ⟨v0, hv0, hn0⟩ := exists_unreceived g hg s hI hc
  have key : ∀ n, ∀ v ∈ g.verts, v ∉ s.received → rk v = n →
      ∃ u ∈ g.verts, u ∉ s.received ∧ ∀ d ∈ g.pre u, d ∈ s.received := by
    intro n
    induction n using Nat.strongRecOn with
    | _ n ih =>
      intro v hv hn hr
      by_cases hall : ∀ d ∈ g.pre v, d ∈ s.received
      · exact ⟨v, hv, hn, hall⟩
      · have ⟨d, hd, hdn⟩ : ∃ d, d ∈ g.pre v ∧ d ∉ s.received := by
          apply Classical.byContradiction
          intro hno
          apply hall
          intro d hd
          apply Classical.byContradiction
          intro hdn
          exact hno ⟨d, hd, hdn⟩
        have hlt := hrk v hv d hd
        exact ih (rk d) (by omega) d (hg.pre_mem v hv d hd) hdn rfl
  exact key (rk v0) v0 hv0 hn0 rfl

/-- **no lost wake-up**: a state satisfying the invariants is terminal or has an enabled step -/
theorem deadlock_free_inv (g : Graph) (hg : GraphOK g) (lim : Option Nat) (hl : ∀ l, lim = some l → 1 ≤ l)
    (s : St) (hA : InvA s) (hI : InvB g s) : terminal s ∨ ∃ l s', step? g lim s l = some s' := by
  cases hw : s.workers with
  | cons p ws => obtain ⟨v, pc⟩ := p; exact .inr (worker_enabled g lim s v pc ws hw)
  | nil =>
    cases hm : s.m with
    | some sc => exact .inr (sched_enabled g lim hl s .M sc (by simp [getSched, hm]) hw)
    | none =>
      cases hc : s.cAlive with
      | false => exact .inl ⟨hm, hw, hc⟩
      | true =>
        cases hcs : s.cSched with
        | some sc => exact .inr (sched_enabled g lim hl s .C sc (by simp [getSched, hc, hcs]) hw)
        | none =>
          cases hch : s.ch with
          | cons v rest =>
            refine .inr (ex_of_isSome .cRecv ?_)
            simp only [step?, hc, hcs, hch]
            by_cases h0 : s.expect - 1 = 0 <;> simp [h0]
          | nil =>
            cases hcan : s.cancelled with
            | true => exact .inr (ex_of_isSome .cCtxDone (by simp [step?, hc, hcs, hcan, hm]))
            | false =>
              -- the lost-wake-up case: impossible
              exfalso
              obtain ⟨v, hv, hnr, hpre⟩ := exists_min_unreceived g hg s hI hc
              have habs : s.status v = .absent := by
                cases hst : s.status v with
                | absent => rfl
                | entered =>
                  rcases hA.enteredWhere v hst with ⟨pc, hpc⟩ | ⟨w, hp⟩
                  · rw [hw] at hpc; cases hpc
                  · cases w with
                    | M => simp [getSched, hm, spawnOf] at hp
                    | C => simp [getSched, hc, hcs, spawnOf] at hp
                | visited =>
                  rcases hA.visitedWhere v hst with ⟨e, he⟩ | h | h
                  · rw [hw] at he; cases he
                  · rw [hch] at h; cases h
                  · exact absurd h hnr
              by_cases hp : g.pre v = []
              · rcases hI.wakeM v hv hp with h | ⟨x, hx, _⟩
                · exact h habs
                · simp [getSched, hm] at hx
              · rcases hI.wakeC hcan hc v hv hp hpre with h | ⟨x, hx, _⟩
                · exact h habs
                · simp [getSched, hc, hcs] at hx

end CV.Trav

namespace CV.Trav

/-! ### termination measure -/

def remW : WPc → Nat
  | .start => 5 | .running => 4 | .returned _ => 3 | .marked _ => 2 | .sent _ => 1

def subW : SubPc → Nat
  | .next => 0 | .ready _ => 2 | .enter _ => 1 | .spawn _ => 6

def schedW : Option Sched → Nat
  | none => 0
  | some ⟨todo, sub⟩ => 1 + 3 * todo.length + subW sub

def wsum (l : List V) (p : V → Bool) (f : V → Nat) : Nat := ((l.filter p).map f).sum

def workW (ws : List (V × WPc)) : Nat := (ws.map (fun p => remW p.2)).sum

def schedTotal (s : St) : Nat := schedW s.m + (if s.cAlive then 1 + schedW s.cSched else 0)

/-- steps still to be taken, with room to spare; strictly decreases along every step -/
def mu (g : Graph) (s : St) : Nat :=
  wsum g.verts (fun v => s.status v == .absent) (fun _ => 7)
  + workW s.workers
  + wsum g.verts (fun v => !(s.received.contains v)) (fun v => 3 * (g.post v).length + 2)
  + schedTotal s
  + (if s.extCancelled then 0 else 1)

theorem wsum_le (l : List V) (p p' : V → Bool) (f : V → Nat) (hpp : ∀ u, p' u = true → p u = true) :
    wsum l p' f ≤ wsum l p f := by
  induction l with
  | nil => simp [wsum]
  | cons a r ih =>
    unfold wsum at ih ⊢
    simp only [List.filter_cons]
    cases h' : p' a with
    | false =>
      cases h : p a with
      | false => simpa using ih
      | true => simp only [if_true, List.map_cons, List.sum_cons]; simp at ih ⊢; omega
    | true =>
      have := hpp a h'
      simp only [this, if_true, List.map_cons, List.sum_cons]; omega

theorem wsum_lt (l : List V) (p p' : V → Bool) (f : V → Nat) (hpp : ∀ u, p' u = true → p u = true)
    (v : V) (hv : v ∈ l) (hp : p v = true) (hp' : p' v = false) :
    wsum l p' f + f v ≤ wsum l p f := by
  induction l with
  | nil => cases hv
  | cons a r ih =>
    have hle := wsum_le r p p' f hpp
    unfold wsum at ih hle ⊢
    simp only [List.filter_cons]
    rcases List.mem_cons.mp hv with rfl | hv
    · simp only [hp, hp', if_true, List.map_cons, List.sum_cons]
      simp at hle ⊢; omega
    · have := ih hv
      cases h' : p' a with
      | false =>
        cases h : p a with
        | false => simpa using this
        | true => simp only [if_true, List.map_cons, List.sum_cons]; simp at this ⊢; omega
      | true =>
        have hpa := hpp a h'
        simp only [hpa, if_true, List.map_cons, List.sum_cons]; omega

theorem workW_setW {ws : List (V × WPc)} (hn : (ws.map (·.1)).Nodup) {v : V} {pc pc' : WPc} (hm : (v, pc) ∈ ws) :
    workW (setW ws v pc') + remW pc = workW ws + remW pc' := by
  induction ws with
  | nil => cases hm
  | cons x r ih =>
    simp only [List.map_cons, List.nodup_cons] at hn
    obtain ⟨a, b⟩ := x
    simp only [workW, setW, List.map_cons, List.sum_cons] at ih ⊢
    rcases List.mem_cons.mp hm with h | h
    · cases h
      simp only [if_true]
      -- no other entry has key v
      have hrest : List.map (fun p => if p.1 = v then (v, pc') else p) r = r := by
        have : ∀ p ∈ r, (if p.1 = v then (v, pc') else p) = p := by
          intro p hp
          have : p.1 ≠ v := by
            intro e; apply hn.1; exact List.mem_map.mpr ⟨p, hp, e⟩
          simp [this]
        conv => rhs; rw [← List.map_id r]
        exact List.map_congr_left this
      rw [hrest]; omega
    · have hne : a ≠ v := by
        intro e; apply hn.1; subst e; exact List.mem_map.mpr ⟨(a, pc), h, rfl⟩
      have := ih hn.2 h
      simp only [if_neg hne]; omega

theorem workW_filter {ws : List (V × WPc)} (hn : (ws.map (·.1)).Nodup) {v : V} {pc : WPc} (hm : (v, pc) ∈ ws) :
    workW (ws.filter (·.1 ≠ v)) + remW pc = workW ws := by
  induction ws with
  | nil => cases hm
  | cons x r ih =>
    simp only [List.map_cons, List.nodup_cons] at hn
    obtain ⟨a, b⟩ := x
    rcases List.mem_cons.mp hm with h | h
    · cases h
      have hrest : List.filter (fun x => !decide (x.fst = v)) r = r := by
        apply List.filter_eq_self.mpr
        intro p hp
        have : p.1 ≠ v := by
          intro e; apply hn.1; exact List.mem_map.mpr ⟨p, hp, e⟩
        simp [this]
      simp only [List.filter_cons]
      simp [hrest, workW]
      exact Nat.add_comm _ _
    · have hne : a ≠ v := by
        intro e; apply hn.1; subst e; exact List.mem_map.mpr ⟨(a, pc), h, rfl⟩
      have := ih hn.2 h
      simp only [List.filter_cons]
      simp [hne, workW] at this ⊢
      omega

theorem remW_pos (pc : WPc) : 1 ≤ remW pc := by cases pc <;> simp [remW]

theorem schedTotal_put {s : St} {w : Who} {y : Sched} (x : Option Sched) (h : getSched s w = some y) :
    schedTotal (putSched s w x) + schedW (some y) = schedTotal s + schedW x := by
  cases w with
  | M =>
    simp only [getSched] at h
    cases hca : s.cAlive <;> simp [schedTotal, putSched, h, hca] <;> omega
  | C =>
    have ⟨ha, hc⟩ := getSched_C_some h
    simp only [schedTotal, putSched, ha, hc, if_true]; omega

theorem schedTotal_congr {s s' : St} (hm : s'.m = s.m) (hc : s'.cSched = s.cSched) (ha : s'.cAlive = s.cAlive) :
    schedTotal s' = schedTotal s := by
  simp [schedTotal, hm, hc, ha]

end CV.Trav

namespace CV.Trav

theorem status_absent_mono {f : V → Status} {v : V} {st : Status} (hst : st ≠ .absent) (u : V)
    (h : (setStatus f v st u == .absent) = true) : (f u == .absent) = true := by
  unfold setStatus at h
  split at h
  · simp at h; exact absurd h hst
  · exact h

/-- every step strictly decreases `mu`: no schedule is infinite -/
theorem mu_decreases {g : Graph} {lim : Option Nat} {s s' : St} {l : Label} (hg : GraphOK g)
    (hA : InvA s) (hB : InvB g s) (h : Step g lim s l s') : mu g s' < mu g s := by
  cases h with
  | @schedNext w todo v hs hv =>
    have h1 := schedTotal_put (some ⟨todo.erase v, .ready v⟩) hs
    have hlen : (todo.erase v).length + 1 = todo.length := by
      rw [List.length_erase_of_mem hv]; have := List.length_pos_of_mem hv; omega
    simp only [mu, putSched_status, putSched_workers, putSched_received, putSched_extCancelled]
    simp only [schedW, subW] at h1
    omega
  | @schedEnd w hs =>
    have h1 := schedTotal_put none hs
    simp only [mu, putSched_status, putSched_workers, putSched_received, putSched_extCancelled]
    simp only [schedW, subW, List.length_nil] at h1
    omega
  | @readyT w todo v hs _ =>
    have h1 := schedTotal_put (some ⟨todo, .enter v⟩) hs
    simp only [mu, putSched_status, putSched_workers, putSched_received, putSched_extCancelled]
    simp only [schedW, subW] at h1
    omega
  | @readyF w todo v hs _ =>
    have h1 := schedTotal_put (some ⟨todo, .next⟩) hs
    simp only [mu, putSched_status, putSched_workers, putSched_received, putSched_extCancelled]
    simp only [schedW, subW] at h1
    omega
  | @enterF w todo v hs _ =>
    have h1 := schedTotal_put (some ⟨todo, .next⟩) hs
    simp only [mu, putSched_status, putSched_workers, putSched_received, putSched_extCancelled]
    simp only [schedW, subW] at h1
    omega
  | @enterT w todo v hs habs =>
    have hs1 : getSched ({ s with status := setStatus s.status v .entered } : St) w = some ⟨todo, .enter v⟩ :=
      (getSched_congr rfl rfl rfl w).trans hs
    have h1 := schedTotal_put (some ⟨todo, .spawn v⟩) hs1
    have h2 : schedTotal ({ s with status := setStatus s.status v .entered } : St) = schedTotal s :=
      schedTotal_congr rfl rfl rfl
    have hv : v ∈ g.verts := (hB.schedVerts w _ hs).2 v (.inr (.inl rfl))
    have h3 := wsum_lt g.verts (fun u => s.status u == .absent) (fun u => setStatus s.status v .entered u == .absent)
      (fun _ => 7) (status_absent_mono (by decide)) v hv (by simp [habs]) (by simp [setStatus])
    simp only [mu, putSched_status, putSched_workers, putSched_received, putSched_extCancelled]
    simp only [schedW, subW] at h1
    omega
  | @spawn w todo v hs _ =>
    have hs1 : getSched ({ s with workers := (v, .start) :: s.workers } : St) w = some ⟨todo, .spawn v⟩ :=
      (getSched_congr rfl rfl rfl w).trans hs
    have h1 := schedTotal_put (some ⟨todo, .next⟩) hs1
    have h2 : schedTotal ({ s with workers := (v, .start) :: s.workers } : St) = schedTotal s :=
      schedTotal_congr rfl rfl rfl
    simp only [mu, putSched_status, putSched_workers, putSched_received, putSched_extCancelled, workW, List.map_cons, List.sum_cons, remW]
    simp only [schedW, subW] at h1
    omega
  | @wBeginSkip v hw _ =>
    have h1 := workW_setW (pc' := .returned false) hA.wkNodup (mem_of_wpc hw)
    have h2 : schedTotal ({ s with workers := setW s.workers v (.returned false) } : St) = schedTotal s := schedTotal_congr rfl rfl rfl
    simp only [mu, remW] at h1 ⊢
    omega
  | @wBegin v hw _ =>
    have h1 := workW_setW (pc' := .running) hA.wkNodup (mem_of_wpc hw)
    have h2 : schedTotal ({ s with workers := setW s.workers v .running, log := .start v :: s.log } : St) = schedTotal s := schedTotal_congr rfl rfl rfl
    simp only [mu, remW] at h1 ⊢
    omega
  | @wReturn v e hw =>
    have h1 := workW_setW (pc' := .returned e) hA.wkNodup (mem_of_wpc hw)
    have h2 : schedTotal ({ s with workers := setW s.workers v (.returned e), log := .finish v e :: s.log } : St) = schedTotal s := schedTotal_congr rfl rfl rfl
    simp only [mu, remW] at h1 ⊢
    omega
  | @wDone v e hw =>
    have h1 := workW_setW (pc' := .marked e) hA.wkNodup (mem_of_wpc hw)
    have h2 : schedTotal ({ s with workers := setW s.workers v (.marked e), status := setStatus s.status v .visited } : St) = schedTotal s := schedTotal_congr rfl rfl rfl
    have h3 := wsum_le g.verts (fun u => s.status u == .absent) (fun u => setStatus s.status v .visited u == .absent)
      (fun _ => 7) (status_absent_mono (by decide))
    simp only [mu, remW] at h1 ⊢
    omega
  | @wSend v e hw =>
    have h1 := workW_setW (pc' := .sent e) hA.wkNodup (mem_of_wpc hw)
    have h2 : schedTotal ({ s with workers := setW s.workers v (.sent e), ch := s.ch ++ [v] } : St) = schedTotal s := schedTotal_congr rfl rfl rfl
    simp only [mu, remW] at h1 ⊢
    omega
  | @wExit v e hw =>
    have h1 := workW_filter hA.wkNodup (mem_of_wpc hw)
    have h2 := remW_pos (.sent e)
    simp only [mu, schedTotal] at h1 ⊢
    omega
  | @cRecvLast v rest ha hc hch _ =>
    have h3 := wsum_le g.verts (fun u => !(s.received.contains u)) (fun u => !((v :: s.received).contains u))
      (fun u => 3 * (g.post u).length + 2) (by intro u; simp)
    simp only [mu, schedTotal, ha, hc, schedW] at h3 ⊢
    simp only [Bool.false_eq_true, if_true, if_false, reduceIte]
    omega
  | @cRecvMore v rest ha hc hch _ =>
    have hv : v ∈ g.verts := hB.recvSub v (.inl (by rw [hch]; exact List.mem_cons_self ..))
    have hnr : v ∉ s.received := by
      intro hr
      have := hA.chRecvNodup
      rw [hch] at this
      simp only [List.cons_append, List.nodup_cons, List.mem_append] at this
      exact this.1 (.inr hr)
    have h3 := wsum_lt g.verts (fun u => !(s.received.contains u)) (fun u => !((v :: s.received).contains u))
      (fun u => 3 * (g.post u).length + 2) (by intro u; simp) v hv (by simpa using hnr) (by simp)
    simp only [mu, schedTotal, ha, hc, schedW, subW] at h3 ⊢
    simp only [Bool.false_eq_true, if_true, if_false, reduceIte]
    omega
  | cCtxDone ha hc _ _ =>
    simp only [mu, schedTotal, ha, hc, schedW]
    simp
  | extCancel hx =>
    simp only [mu, schedTotal, hx]
    simp

end CV.Trav
