import ComposeVerif.Model.Locked
/-!
# Invariants of mutex-protected critical sections (`Model/Locked.lean`)

Helper lemmas only; the property theorems are in `Props/C19Locks.lean`.
-/
namespace CV.Locked

variable {σ Tid : Type} [DecidableEq Tid]

def inCS : Pc σ → Bool
  | .out => false
  | _ => true

@[simp] theorem upd_same {α : Type} (f : Tid → α) (t : Tid) (x : α) : upd f t x t = x := by simp [upd]
theorem upd_other {α : Type} (f : Tid → α) {t u : Tid} (x : α) (h : u ≠ t) : upd f t x u = f u := by simp [upd, h]

theorem serial_append (prog : Tid → List (σ → σ)) (a b : List Tid) (m : σ) :
    serial prog (a ++ b) m = serial (serial prog a m).2 b (serial prog a m).1 := by
  induction a generalizing prog m with
  | nil => rfl
  | cons t a ih =>
    simp only [List.cons_append, serial]
    split
    · exact ih _ _
    · exact ih _ _

structure Inv (prog : Tid → List (σ → σ)) (m0 : σ) (s : St σ Tid) : Prop where
  held : ∀ t, inCS (s.pc t) = true → s.holder = some t
  holderIn : ∀ t, s.holder = some t → inCS (s.pc t) = true
  loaded : ∀ t x, s.pc t = .loaded x → x = s.mem
  restNe : ∀ t, inCS (s.pc t) = true → s.rest t ≠ []
  ser : serial prog s.hist m0 = (s.mem, restAbs s)

theorem inv_init (prog : Tid → List (σ → σ)) (m0 : σ) : Inv prog m0 (init prog m0) := by
  refine ⟨?_, ?_, ?_, ?_, ?_⟩
  · intro t h; simp [init, inCS] at h
  · intro t h; simp [init] at h
  · intro t x h; simp [init] at h
  · intro t h; simp [init, inCS] at h
  · simp only [init, serial]
    congr 1

omit [DecidableEq Tid] in
theorem restAbs_congr {s s' : St σ Tid} (h : ∀ u, restAbs s' u = restAbs s u) : restAbs s' = restAbs s := funext h

theorem inv_lock {prog : Tid → List (σ → σ)} {m0 : σ} {s s' : St σ Tid} {t : Tid} (hI : Inv prog m0 s)
    (h : step? true s (.lock t) = some s') : Inv prog m0 s' := by
  simp only [step?] at h
  split at h
  · next f r hpc hrest =>
    split at h
    · cases h
    · next hh =>
      have hnone : s.holder = none := by
        cases hs : s.holder with
        | none => rfl
        | some u => simp [hs] at hh
      cases h
      refine ⟨fun u hu => ?_, fun u hu => ?_, fun u x hu => ?_, fun u hu => ?_, ?_⟩
      · by_cases e : u = t
        · subst e; rfl
        · simp only [upd_other _ _ e] at hu
          have := hI.held u hu; rw [hnone] at this; cases this
      · simp only at hu
        injection hu with hu; subst hu; simp [inCS]
      · by_cases e : u = t
        · subst e; simp at hu
        · simp only [upd_other _ _ e] at hu; exact hI.loaded u x hu
      · by_cases e : u = t
        · subst e; simp only [hrest]; simp
        · simp only [upd_other _ _ e] at hu; exact hI.restNe u hu
      · have : restAbs { s with holder := some t, pc := upd s.pc t Pc.holding } = restAbs s := by
          apply restAbs_congr; intro u
          by_cases e : u = t
          · subst e; simp [restAbs, hpc]
          · simp [restAbs, upd_other _ _ e]
        rw [this]; exact hI.ser
  · cases h

theorem inv_read {prog : Tid → List (σ → σ)} {m0 : σ} {s s' : St σ Tid} {t : Tid} (hI : Inv prog m0 s)
    (h : step? true s (.read t) = some s') : Inv prog m0 s' := by
  simp only [step?] at h
  split at h
  · next hpc =>
    cases h
    have hin : inCS (s.pc t) = true := by rw [hpc]; rfl
    refine ⟨fun u hu => ?_, fun u hu => ?_, fun u x hu => ?_, fun u hu => ?_, ?_⟩
    · by_cases e : u = t
      · subst e; exact hI.held u hin
      · simp only [upd_other _ _ e] at hu; exact hI.held u hu
    · by_cases e : u = t
      · subst e; simp [inCS]
      · simp only [upd_other _ _ e]; exact hI.holderIn u hu
    · by_cases e : u = t
      · subst e; simp at hu; exact hu.symm
      · simp only [upd_other _ _ e] at hu; exact hI.loaded u x hu
    · by_cases e : u = t
      · subst e; exact hI.restNe u hin
      · simp only [upd_other _ _ e] at hu; exact hI.restNe u hu
    · have : restAbs { s with pc := upd s.pc t (Pc.loaded s.mem) } = restAbs s := by
        apply restAbs_congr; intro u
        by_cases e : u = t
        · subst e; simp [restAbs, hpc]
        · simp [restAbs, upd_other _ _ e]
      rw [this]; exact hI.ser
  · cases h

theorem inv_write {prog : Tid → List (σ → σ)} {m0 : σ} {s s' : St σ Tid} {t : Tid} (hI : Inv prog m0 s)
    (h : step? true s (.write t) = some s') : Inv prog m0 s' := by
  simp only [step?] at h
  split at h
  · next x f r hpc hrest =>
    cases h
    have hin : inCS (s.pc t) = true := by rw [hpc]; rfl
    have hx : x = s.mem := hI.loaded t x hpc
    refine ⟨fun u hu => ?_, fun u hu => ?_, fun u y hu => ?_, fun u hu => ?_, ?_⟩
    · by_cases e : u = t
      · subst e; exact hI.held u hin
      · simp only [upd_other _ _ e] at hu; exact hI.held u hu
    · by_cases e : u = t
      · subst e; simp [inCS]
      · simp only [upd_other _ _ e]; exact hI.holderIn u hu
    · by_cases e : u = t
      · subst e; simp at hu
      · simp only [upd_other _ _ e] at hu
        -- another goroutine inside a section: impossible, `t` holds the mutex
        have h1 := hI.held u (by rw [hu]; rfl)
        have h2 := hI.held t hin
        rw [h1] at h2; injection h2 with h2; exact absurd h2 e
    · by_cases e : u = t
      · subst e; exact hI.restNe u hin
      · simp only [upd_other _ _ e] at hu; exact hI.restNe u hu
    · simp only
      rw [serial_append, hI.ser]
      have hra : restAbs s t = f :: r := by simp [restAbs, hpc, hrest]
      simp only [serial, hra]
      subst hx
      congr 1
      funext u
      by_cases e : u = t
      · subst e; simp [restAbs, hrest]
      · simp [restAbs, upd_other _ _ e]
  · cases h

theorem inv_unlock {prog : Tid → List (σ → σ)} {m0 : σ} {s s' : St σ Tid} {t : Tid} (hI : Inv prog m0 s)
    (h : step? true s (.unlock t) = some s') : Inv prog m0 s' := by
  simp only [step?] at h
  split at h
  · next hpc =>
    cases h
    have hin : inCS (s.pc t) = true := by rw [hpc]; rfl
    refine ⟨fun u hu => ?_, fun u hu => ?_, fun u y hu => ?_, fun u hu => ?_, ?_⟩
    · by_cases e : u = t
      · subst e; simp [inCS] at hu
      · simp only [upd_other _ _ e] at hu
        have h1 := hI.held u hu
        have h2 := hI.held t hin
        rw [h1] at h2; injection h2 with h2; exact absurd h2 e
    · cases hu
    · by_cases e : u = t
      · subst e; simp at hu
      · simp only [upd_other _ _ e] at hu; exact hI.loaded u y hu
    · by_cases e : u = t
      · subst e; simp [inCS] at hu
      · simp only [upd_other _ _ e] at hu ⊢; exact hI.restNe u hu
    · have : restAbs { s with holder := none, pc := upd s.pc t Pc.out, rest := upd s.rest t (s.rest t).tail } = restAbs s := by
        apply restAbs_congr; intro u
        by_cases e : u = t
        · subst e; simp [restAbs, hpc]
        · simp [restAbs, upd_other _ _ e]
      rw [this]; exact hI.ser
  · cases h

theorem inv_step {prog : Tid → List (σ → σ)} {m0 : σ} {s s' : St σ Tid} {l : Label Tid} (hI : Inv prog m0 s)
    (h : step? true s l = some s') : Inv prog m0 s' := by
  cases l with
  | lock t => exact inv_lock hI h
  | read t => exact inv_read hI h
  | write t => exact inv_write hI h
  | unlock t => exact inv_unlock hI h

theorem inv_reach {prog : Tid → List (σ → σ)} {m0 : σ} {s : St σ Tid} (h : Reach true prog m0 s) : Inv prog m0 s := by
  induction h with
  | init => exact inv_init prog m0
  | step _ hs ih => exact inv_step ih hs

/-- a step is enabled only for a goroutine that is outside (lock) or inside its section (the others) -/
theorem enabled_access_inCS {locked : Bool} {s : St σ Tid} {l : Label Tid} {t : Tid} {w : Bool}
    (ha : access l = some (t, w)) (he : (step? locked s l).isSome = true) : inCS (s.pc t) = true := by
  cases l with
  | lock u => cases ha
  | unlock u => cases ha
  | read u =>
    simp only [access] at ha; injection ha with ha; injection ha with h1 _; subst h1
    simp only [step?] at he
    split at he
    · next hpc => rw [hpc]; rfl
    · cases he
  | write u =>
    simp only [access] at ha; injection ha with ha; injection ha with h1 _; subst h1
    simp only [step?] at he
    split at he
    · next hpc _ => rw [hpc]; rfl
    · cases he

/-! ### sections given by operations `a : α` with meaning `sem a`: the trace of a schedule -/

/-- the operations in the order a schedule runs them -/
def trace {α : Type} (ops : Tid → List α) : List Tid → List α
  | [] => []
  | t :: sched =>
    match ops t with
    | a :: r => a :: trace (upd ops t r) sched
    | [] => trace ops sched

/-- what every goroutine still has to run after a schedule -/
def left {α : Type} (ops : Tid → List α) : List Tid → Tid → List α
  | [] => ops
  | t :: sched =>
    match ops t with
    | _ :: r => left (upd ops t r) sched
    | [] => left ops sched

theorem serial_ops {α : Type} (sem : α → σ → σ) (ops : Tid → List α) (sched : List Tid) (m : σ) :
    serial (fun t => (ops t).map sem) sched m =
      ((trace ops sched).foldl (fun m a => sem a m) m, fun t => (left ops sched t).map sem) := by
  induction sched generalizing ops m with
  | nil => rfl
  | cons t sched ih =>
    cases h : ops t with
    | nil => simp only [serial, trace, left, h, List.map_nil]; exact ih ops m
    | cons a r =>
      have hu : upd (fun t => (ops t).map sem) t (r.map sem) = fun u => (upd ops t r u).map sem := by
        funext u
        by_cases e : u = t
        · subst e; simp
        · simp [upd_other _ _ e]
      simp only [serial, trace, left, h, List.map_cons, List.foldl_cons, hu]
      exact ih (upd ops t r) (sem a m)

theorem flatMap_upd_perm {α : Type} (threads : List Tid) (hN : threads.Nodup) (ops : Tid → List α) (t : Tid) (a : α)
    (r : List α) (ht : t ∈ threads) (h : ops t = a :: r) :
    (a :: threads.flatMap (upd ops t r)).Perm (threads.flatMap ops) := by
  induction threads with
  | nil => cases ht
  | cons u us ih =>
    rw [List.nodup_cons] at hN
    simp only [List.flatMap_cons]
    by_cases e : u = t
    · subst e
      have hsame : us.flatMap (upd ops u r) = us.flatMap ops := by
        have hno := hN.1
        clear ih ht hN
        induction us with
        | nil => rfl
        | cons x xs ihx =>
          have hx : x ≠ u := fun e => hno (e ▸ List.mem_cons_self)
          simp only [List.flatMap_cons, upd_other _ _ hx]
          rw [ihx (fun hm => hno (List.mem_cons_of_mem _ hm))]
      rw [hsame, upd_same, h]
      exact List.Perm.refl _
    · have htu : t ∈ us := by
        rcases List.mem_cons.mp ht with e' | e'
        · exact absurd e'.symm e
        · exact e'
      rw [upd_other _ _ e]
      have := ih hN.2 htu
      exact (List.perm_middle (l₁ := ops u) (a := a)).symm.trans ((this.append_left (ops u)))

/-- **conservation**: what a schedule has run together with what is left is a permutation of all operations -/
theorem trace_left_perm {α : Type} (threads : List Tid) (hN : threads.Nodup) (ops : Tid → List α)
    (hT : ∀ t, t ∉ threads → ops t = []) (sched : List Tid) :
    (trace ops sched ++ threads.flatMap (left ops sched)).Perm (threads.flatMap ops) := by
  induction sched generalizing ops with
  | nil => exact List.Perm.refl _
  | cons t sched ih =>
    cases h : ops t with
    | nil => simp only [trace, left, h]; exact ih ops hT
    | cons a r =>
      have ht : t ∈ threads := by
        apply Classical.byContradiction
        intro hn; rw [hT t hn] at h; cases h
      simp only [trace, left, h, List.cons_append]
      have hT' : ∀ u, u ∉ threads → upd ops t r u = [] := by
        intro u hu
        have : u ≠ t := fun e => hu (e ▸ ht)
        rw [upd_other _ _ this]; exact hT u hu
      exact ((ih (upd ops t r) hT').cons a).trans (flatMap_upd_perm threads hN ops t a r ht h)

/-- every section preserves `P` ⇒ every serial execution does -/
theorem serial_preserves (P : σ → Prop) (prog : Tid → List (σ → σ)) (hP : ∀ t, ∀ f ∈ prog t, ∀ m, P m → P (f m))
    (sched : List Tid) (m : σ) (h : P m) : P (serial prog sched m).1 := by
  induction sched generalizing prog m with
  | nil => exact h
  | cons t sched ih =>
    simp only [serial]
    split
    · next f r hf =>
      apply ih
      · intro u g hg m' hm'
        by_cases e : u = t
        · subst e; simp only [upd_same] at hg
          exact hP u g (by rw [hf]; exact List.mem_cons_of_mem _ hg) m' hm'
        · rw [upd_other _ _ e] at hg; exact hP u g hg m' hm'
      · exact hP t f (by rw [hf]; exact List.mem_cons_self) m h
    · exact ih prog hP m h

/-! ### the fold of `warn` over any order of calls -/

theorem warn_foldl_fst (fs : List String) (w l : List String) :
    (fs.foldl (fun m f => warn f m) (w, l)).1 = w ++ fs := by
  induction fs generalizing w l with
  | nil => simp
  | cons f fs ih =>
    simp only [List.foldl_cons]
    have : warn f (w, l) = (w ++ [f], if w.contains f then l else l ++ [f]) := rfl
    rw [this, ih]; simp

end CV.Locked

namespace CV.Locked

/-- what one call of `warnObsoleteVersion` keeps true: a warning was logged exactly for the files recorded, once each -/
def LoggedOnce (m : VW) : Prop := m.2.Nodup ∧ ∀ f, f ∈ m.2 ↔ f ∈ m.1

theorem warn_loggedOnce (file : String) (m : VW) (h : LoggedOnce m) : LoggedOnce (warn file m) := by
  obtain ⟨w, l⟩ := m
  obtain ⟨hn, hm⟩ := h
  simp only [LoggedOnce, warn] at hn hm ⊢
  by_cases hc : w.contains file = true
  · simp only [hc, if_true]
    refine ⟨hn, fun f => ?_⟩
    rw [hm f]
    simp only [List.mem_append, List.mem_singleton]
    constructor
    · exact Or.inl
    · rintro (h | h)
      · exact h
      · subst h; simpa using hc
  · have hcf : w.contains file = false := by cases hw : w.contains file <;> simp_all
    simp only [hcf, Bool.false_eq_true, if_false]
    have hnot : file ∉ l := fun h => hc (by simpa using (hm file).mp h)
    refine ⟨?_, fun f => ?_⟩
    · rw [List.nodup_append]
      refine ⟨hn, by simp, ?_⟩
      intro a ha b hb
      simp only [List.mem_singleton] at hb
      subst hb
      intro e; subst e; exact hnot ha
    · simp only [List.mem_append, List.mem_singleton]
      rw [hm f]

end CV.Locked
