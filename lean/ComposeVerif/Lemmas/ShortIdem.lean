import ComposeVerif.Props.C03
/-!
# Whole-tree idempotence of `transform.Canonical` — the induction (C03)

Built on the leaf-wise `transformX_idem` theorems of `Props/C03.lean`, the kernel-reducible `TPath.nextK`
(`Model/PathK.lean`) and an inversion of the regenerated table: the three handlers that create new structure
*and* are re-entered on it (`transformBuild`, `transformExtends`, `transformMaybeExternal`) sit at known paths,
below which the table has no row.
-/
namespace CV.Short
open CV CV.TPath

/-- the handler the table selects at a path -/
abbrev H (p : TPath) : Option String := TPath.firstMatch CV.Gen.transformers p

theorem recursesOnMap_none : recursesOnMap none = true := by decide

theorem transform_eq_leaf (p : TPath) (w : Val) (hr : recursesOnMap (H p) = false) :
    transform false p w = leaf (H p) false w := by
  have hne : H p ≠ none := by intro h; rw [h, recursesOnMap_none] at hr; cases hr
  cases w <;> simp [transform, hr, hne]

theorem leaf_idem (h : Option String) (hr : recursesOnMap h = false) (v w : Val)
    (hl : leaf h false v = .ok w) : leaf h false w = .ok w := by
  cases h with
  | none => rw [recursesOnMap_none] at hr; cases hr
  | some name =>
    simp only [leaf] at hl ⊢
    by_cases h1 : name = "transformService"
    · subst h1; exact absurd hr (by decide)
    by_cases h2 : name = "transformBuild"
    · subst h2; exact absurd hr (by decide)
    by_cases h3 : name = "transformExtends"
    · subst h3; exact absurd hr (by decide)
    by_cases h4 : name = "transformMaybeExternal"
    · subst h4; exact absurd hr (by decide)
    simp only [h1, h2, h3, h4, if_false] at hl ⊢
    by_cases c1 : name = "transformFileMount"
    · simp only [c1, if_true] at hl ⊢; exact transformFileMount_idem v w hl
    simp only [c1, if_false] at hl ⊢
    by_cases c2 : name = "transformKeyValue"
    · simp only [c2, if_true] at hl ⊢; exact transformKeyValue_idem v w hl
    simp only [c2, if_false] at hl ⊢
    by_cases c3 : name = "transformDependsOn"
    · simp only [c3, if_true] at hl ⊢; exact transformDependsOn_idem v w hl
    simp only [c3, if_false] at hl ⊢
    by_cases c4 : name = "transformEnvFile"
    · simp only [c4, if_true] at hl ⊢; exact transformEnvFile_idem v w hl
    simp only [c4, if_false] at hl ⊢
    by_cases c5 : name = "transformServiceNetworks"
    · simp only [c5, if_true] at hl ⊢; exact transformServiceNetworks_idem v w hl
    simp only [c5, if_false] at hl ⊢
    by_cases c6 : name = "transformVolumeMount"
    · simp only [c6, if_true] at hl ⊢; exact transformVolumeMount_idem false v w hl
    simp only [c6, if_false] at hl ⊢
    by_cases c7 : name = "transformStringOrList"
    · simp only [c7, if_true] at hl ⊢; exact transformStringOrList_idem v w hl
    simp only [c7, if_false] at hl ⊢
    by_cases c8 : name = "transformDeviceMapping"
    · simp only [c8, if_true] at hl ⊢; exact transformDeviceMapping_idem false v w hl
    simp only [c8, if_false] at hl ⊢
    by_cases c9 : name = "transformPorts"
    · simp only [c9, if_true] at hl ⊢
      by_cases hw : w = v
      · rw [hw]; rw [hw] at hl; exact hl
      · exact transformPorts_idem false false v w hl hw
    simp only [c9, if_false] at hl ⊢
    by_cases c10 : name = "transformSSH"
    · simp only [c10, if_true] at hl ⊢; exact transformSSH_idem v w hl
    simp only [c10, if_false] at hl ⊢
    by_cases c11 : name = "transformUlimits"
    · simp only [c11, if_true] at hl ⊢; exact transformUlimits_idem v w hl
    simp only [c11, if_false] at hl ⊢
    by_cases c12 : name = "transformInclude"
    · simp only [c12, if_true] at hl ⊢; exact transformInclude_idem v w hl
    simp only [c12, if_false] at hl ⊢
    cases hl


/-! ### which paths carry a recursing handler -/

theorem firstMatch_some {α : Type} (t : List (List String × α)) (p : TPath) (h : α)
    (hm : TPath.firstMatch t p = some h) : ∃ pat, (pat, h) ∈ t ∧ TPath.pmatch pat p = true := by
  induction t with
  | nil => simp [TPath.firstMatch] at hm
  | cons x r ih =>
    obtain ⟨pat, h'⟩ := x
    simp only [TPath.firstMatch] at hm
    split at hm
    · rename_i hp
      simp only [Option.some.injEq] at hm
      subst hm
      exact ⟨pat, by simp, hp⟩
    · obtain ⟨pat', hmem, hp⟩ := ih hm
      exact ⟨pat', by simp [hmem], hp⟩

theorem pmatch3 (a c : String) (p : TPath) (h : TPath.pmatch [a, "*", c] p = true) (ha : a ≠ "*") (hc : c ≠ "*") :
    ∃ n, p = [a, n, c] := by
  match p with
  | [x, n, z] =>
    simp only [TPath.pmatch, ha, hc, decide_false, Bool.false_or, Bool.and_true, Bool.and_eq_true, decide_eq_true_eq,
      decide_true, Bool.true_or, Bool.true_and] at h
    exact ⟨n, by rw [← h.1, ← h.2]⟩
  | [] => simp [TPath.pmatch] at h
  | [_] => simp [TPath.pmatch] at h
  | [_, _] => simp [TPath.pmatch] at h
  | _ :: _ :: _ :: _ :: _ => simp [TPath.pmatch] at h

theorem pmatch2 (a : String) (p : TPath) (h : TPath.pmatch [a, "*"] p = true) (ha : a ≠ "*") :
    ∃ n, p = [a, n] := by
  match p with
  | [x, n] =>
    simp only [TPath.pmatch, ha, decide_false, Bool.false_or, Bool.and_true, Bool.and_eq_true, decide_eq_true_eq,
      decide_true, Bool.true_or, Bool.true_and] at h
    exact ⟨n, by rw [← h]⟩
  | [] => simp [TPath.pmatch] at h
  | [_] => simp [TPath.pmatch] at h
  | _ :: _ :: _ :: _ => simp [TPath.pmatch] at h

theorem H_build (p : TPath) (h : H p = some "transformBuild") : ∃ n, p = ["services", n, "build"] := by
  obtain ⟨pat, hmem, hp⟩ := firstMatch_some _ _ _ h
  simp [CV.Gen.transformers] at hmem
  subst hmem
  exact pmatch3 _ _ _ hp (by decide) (by decide)

theorem H_extends (p : TPath) (h : H p = some "transformExtends") : ∃ n, p = ["services", n, "extends"] := by
  obtain ⟨pat, hmem, hp⟩ := firstMatch_some _ _ _ h
  simp [CV.Gen.transformers] at hmem
  subst hmem
  exact pmatch3 _ _ _ hp (by decide) (by decide)

def IsResource (a : String) : Prop := a = "volumes" ∨ a = "networks" ∨ a = "secrets" ∨ a = "configs"

theorem H_external (p : TPath) (h : H p = some "transformMaybeExternal") : ∃ a n, p = [a, n] ∧ IsResource a := by
  obtain ⟨pat, hmem, hp⟩ := firstMatch_some _ _ _ h
  simp [CV.Gen.transformers] at hmem
  rcases hmem with h1 | h1 | h1 | h1 <;> subst h1
  · obtain ⟨n, hn⟩ := pmatch2 _ _ hp (by decide); exact ⟨_, n, hn, Or.inl rfl⟩
  · obtain ⟨n, hn⟩ := pmatch2 _ _ hp (by decide); exact ⟨_, n, hn, Or.inr (Or.inl rfl)⟩
  · obtain ⟨n, hn⟩ := pmatch2 _ _ hp (by decide); exact ⟨_, n, hn, Or.inr (Or.inr (Or.inl rfl))⟩
  · obtain ⟨n, hn⟩ := pmatch2 _ _ hp (by decide); exact ⟨_, n, hn, Or.inr (Or.inr (Or.inr rfl))⟩

/-! ### below a top-level resource entry nothing is transformed -/

def Below (q : TPath) : Prop := ∃ a b c rest, q = a :: b :: c :: rest ∧ IsResource a

theorem H_below (q : TPath) (h : Below q) : H q = none := by
  obtain ⟨a, b, c, rest, hq, ha⟩ := h
  subst hq
  rcases ha with ha | ha | ha | ha <;> subst ha <;>
    simp [H, TPath.firstMatch, CV.Gen.transformers, TPath.pmatch]

theorem below_next (q : TPath) (h : Below q) (k : String) : Below (TPath.nextK q k) := by
  obtain ⟨a, b, c, rest, hq, ha⟩ := h
  subst hq
  have : (a :: b :: c :: rest) ≠ TPath.root := by simp [TPath.root]
  rw [TPath.nextK_of_ne_root _ _ this]
  exact ⟨a, b, c, rest ++ [String.ofList (TPath.replaceDots k.toList)], by simp, ha⟩

mutual
theorem id_below : ∀ (v : Val) (q : TPath), Below q → transform false q v = .ok v
  | .map m, q, hq => by
    have hk := id_below_kvs m q hq
    simp [transform, H_below q hq, recursesOnMap, hk, bindOut, postMap]
  | .seq l, q, hq => by
    have hs := id_below_seq l q hq
    simp [transform, H_below q hq, hs, bindOut]
  | .null, q, hq => by simp [transform, H_below q hq, leaf]
  | .bool _, q, hq => by simp [transform, H_below q hq, leaf]
  | .int _, q, hq => by simp [transform, H_below q hq, leaf]
  | .float _, q, hq => by simp [transform, H_below q hq, leaf]
  | .str _, q, hq => by simp [transform, H_below q hq, leaf]
theorem id_below_kvs : ∀ (m : Val.KVs) (q : TPath), Below q → transformKVs false q m = .ok m
  | [], _, _ => by simp [transformKVs]
  | (k, e) :: r, q, hq => by
    have h1 := id_below e (TPath.nextK q k) (below_next q hq k)
    have h2 := id_below_kvs r q hq
    simp [transformKVs, h1, h2]
theorem id_below_seq : ∀ (l : List Val) (q : TPath), Below q → transformSeq false q l = .ok l
  | [], _, _ => by simp [transformSeq]
  | e :: r, q, hq => by
    have h1 := id_below e (TPath.nextK q "[]") (below_next q hq "[]")
    have h2 := id_below_seq r q hq
    simp [transformSeq, h1, h2]
end


/-! ### the recursing handlers, second pass -/

theorem ofList_context : String.ofList (TPath.replaceDots ['c', 'o', 'n', 't', 'e', 'x', 't']) = "context" := by decide
theorem ofList_service : String.ofList (TPath.replaceDots ['s', 'e', 'r', 'v', 'i', 'c', 'e']) = "service" := by decide

theorem build_context_fix (n s : String) :
    transformKVs false ["services", n, "build"] [("context", .str s)] = .ok [("context", .str s)] := by
  have hne : ["services", n, "build"] ≠ TPath.root := by simp [TPath.root]
  simp [transformKVs, TPath.nextK_of_ne_root _ _ hne, ofList_context, transform, TPath.firstMatch, CV.Gen.transformers,
    TPath.pmatch, leaf]

theorem extends_service_fix (n s : String) :
    transformKVs false ["services", n, "extends"] [("service", .str s)] = .ok [("service", .str s)] := by
  have hne : ["services", n, "extends"] ≠ TPath.root := by simp [TPath.root]
  simp [transformKVs, TPath.nextK_of_ne_root _ _ hne, ofList_service, transform, TPath.firstMatch, CV.Gen.transformers,
    TPath.pmatch, leaf]

theorem resource_kvs_id (a n : String) (ha : IsResource a) (m : Val.KVs) : transformKVs false [a, n] m = .ok m := by
  have hne : [a, n] ≠ TPath.root := by simp [TPath.root]
  induction m with
  | nil => simp [transformKVs]
  | cons x r ih =>
    obtain ⟨k, e⟩ := x
    have hb : Below (TPath.nextK [a, n] k) := by
      rw [TPath.nextK_of_ne_root _ _ hne]
      exact ⟨a, n, _, [], rfl, ha⟩
    simp [transformKVs, id_below e _ hb, ih]

theorem lookup_insert_self (k : String) (v : Val) (m : Val.KVs) : Val.lookup k (Val.insert k v m) = some v := by
  induction m with
  | nil => simp [Val.insert, Val.lookup]
  | cons x r ih =>
    obtain ⟨k', v'⟩ := x
    simp only [Val.insert]
    split
    · simp [Val.lookup]
    · rename_i hne; simp [Val.lookup, hne, ih]

theorem lookup_insert_ne (k k' : String) (v : Val) (m : Val.KVs) (h : k ≠ k') :
    Val.lookup k (Val.insert k' v m) = Val.lookup k m := by
  induction m with
  | nil => simp [Val.insert, Val.lookup, h]
  | cons x r ih =>
    obtain ⟨k2, v2⟩ := x
    simp only [Val.insert]
    split
    · rename_i he; subst he; simp [Val.lookup, h]
    · simp only [Val.lookup]; split <;> simp [ih]

theorem externalFix_of_true (r : Val.KVs) (h : Val.lookup "external" r = some (.bool true)) : externalFix r = .ok r := by
  simp [externalFix, h]

/-- the result of the `external` rewrite is a fixed point of it -/
theorem externalFix_fix (r r' : Val.KVs) (h : externalFix r = .ok r') : externalFix r' = .ok r' := by
  unfold externalFix at h
  split at h
  · rename_i ext hext
    split at h
    · rename_i extname _
      split at h
      · split at h
        · cases h
        · simp only [Out.ok.injEq] at h; subst h
          exact externalFix_of_true _ (lookup_insert_self _ _ _)
      · simp only [Out.ok.injEq] at h; subst h
        apply externalFix_of_true
        rw [lookup_insert_ne _ _ _ _ (by decide), lookup_insert_self]
    · simp only [Out.ok.injEq] at h; subst h
      exact externalFix_of_true _ (lookup_insert_self _ _ _)
  · rename_i hno
    simp only [Out.ok.injEq] at h; subst h
    unfold externalFix
    split
    · rename_i ext hext; exact absurd hext (hno ext)
    · rfl

theorem recursing_names (name : String) (h : recursesOnMap (some name) = true) :
    name = "transformService" ∨ name = "transformBuild" ∨ name = "transformExtends" ∨ name = "transformMaybeExternal" := by
  simp [recursesOnMap] at h
  rcases h with ((h | h) | h) | h <;> simp [h]

/-- a value the handler at `p` treats as a leaf (scalars always; sequences when a handler is present): second pass -/
theorem idem_leafcase (p : TPath) (v w : Val) (hself : transform false p v = leaf (H p) false v)
    (hl : leaf (H p) false v = .ok w) : transform false p w = .ok w := by
  by_cases hr : recursesOnMap (H p) = true
  · cases hH : H p with
    | none =>
      rw [hH] at hl
      simp only [leaf, Out.ok.injEq] at hl
      subst hl; rw [hself, hH]; rfl
    | some name =>
      rw [hH] at hr hl
      rcases recursing_names name hr with hn | hn | hn | hn <;> subst hn
      · simp only [leaf, if_true, Out.ok.injEq] at hl
        subst hl; rw [hself, hH]; simp [leaf]
      · obtain ⟨n, hp⟩ := H_build p hH
        cases v with
        | str s =>
          simp [leaf] at hl
          subst hl; subst hp
          simp [transform, hH, recursesOnMap, build_context_fix, bindOut, postMap]
        | _ => simp [leaf] at hl
      · obtain ⟨n, hp⟩ := H_extends p hH
        cases v with
        | str s =>
          simp [leaf] at hl
          subst hl; subst hp
          simp [transform, hH, recursesOnMap, extends_service_fix, bindOut, postMap]
        | _ => simp [leaf] at hl
      · cases v with
        | null =>
          simp [leaf] at hl
          subst hl; rw [hself, hH]; simp [leaf]
        | _ => simp [leaf] at hl
  · have hr' : recursesOnMap (H p) = false := by simpa using hr
    rw [transform_eq_leaf p _ hr']
    exact leaf_idem _ hr' _ _ hl

mutual
theorem idem_T : ∀ (v : Val) (p : TPath) (w : Val), transform false p v = .ok w → transform false p w = .ok w
  | .map m, p, w, h => by
    by_cases hr : recursesOnMap (H p) = true
    · simp only [transform, hr, if_true] at h
      cases hk : transformKVs false p m with
      | ok r =>
        have hkr := idem_K m p r hk
        simp only [hk, bindOut] at h
        by_cases he : H p = some "transformMaybeExternal"
        · obtain ⟨a, n, hp, ha⟩ := H_external p he
          simp only [postMap, he, if_true] at h
          cases hx : externalFix r with
          | ok r' =>
            simp only [hx, bindOut, Out.ok.injEq] at h
            subst h
            have h2 := resource_kvs_id a n ha r'
            rw [← hp] at h2
            have hr2 : recursesOnMap (some "transformMaybeExternal") = true := by decide
            simp [transform, hr2, h2, bindOut, postMap, he, externalFix_fix r r' hx]
          | err x => simp [hx, bindOut] at h
          | panic x => simp [hx, bindOut] at h
        · simp only [postMap, he, if_false, Out.ok.injEq] at h
          subst h
          simp [transform, hr, hkr, bindOut, postMap, he]
      | err x => simp [hk, bindOut] at h
      | panic x => simp [hk, bindOut] at h
    · have hr' : recursesOnMap (H p) = false := by simpa using hr
      rw [transform_eq_leaf p _ hr'] at h ⊢
      exact leaf_idem _ hr' _ _ h
  | .seq l, p, w, h => by
    by_cases hn : H p = none
    · simp only [transform, hn, if_true] at h
      cases hs : transformSeq false p l with
      | ok r =>
        have hsr := idem_S l p r hs
        simp only [hs, bindOut, Out.ok.injEq] at h
        subst h
        simp [transform, hn, hsr, bindOut]
      | err x => simp [hs, bindOut] at h
      | panic x => simp [hs, bindOut] at h
    · have hself : transform false p (.seq l) = leaf (H p) false (.seq l) := by simp [transform, hn]
      exact idem_leafcase p _ w hself (hself ▸ h)
  | .null, p, w, h => idem_leafcase p .null w (by simp [transform]) (by simpa [transform] using h)
  | .bool b, p, w, h => idem_leafcase p (.bool b) w (by simp [transform]) (by simpa [transform] using h)
  | .int i, p, w, h => idem_leafcase p (.int i) w (by simp [transform]) (by simpa [transform] using h)
  | .float f, p, w, h => idem_leafcase p (.float f) w (by simp [transform]) (by simpa [transform] using h)
  | .str s, p, w, h => idem_leafcase p (.str s) w (by simp [transform]) (by simpa [transform] using h)
theorem idem_K : ∀ (m : Val.KVs) (p : TPath) (r : Val.KVs), transformKVs false p m = .ok r → transformKVs false p r = .ok r
  | [], _, r, h => by simp [transformKVs] at h; subst h; simp [transformKVs]
  | (k, e) :: t, p, r, h => by
    simp only [transformKVs] at h
    cases he : transform false (TPath.nextK p k) e with
    | ok e' =>
      cases ht : transformKVs false p t with
      | ok t' =>
        simp only [he, ht, Out.ok.injEq] at h
        subst h
        simp [transformKVs, idem_T e _ e' he, idem_K t p t' ht]
      | err x => simp [he, ht] at h
      | panic x => simp [he, ht] at h
    | err x => simp [he] at h
    | panic x => simp [he] at h
theorem idem_S : ∀ (l : List Val) (p : TPath) (r : List Val), transformSeq false p l = .ok r → transformSeq false p r = .ok r
  | [], _, r, h => by simp [transformSeq] at h; subst h; simp [transformSeq]
  | e :: t, p, r, h => by
    simp only [transformSeq] at h
    cases he : transform false (TPath.nextK p "[]") e with
    | ok e' =>
      cases ht : transformSeq false p t with
      | ok t' =>
        simp only [he, ht, Out.ok.injEq] at h
        subst h
        simp [transformSeq, idem_T e _ e' he, idem_S t p t' ht]
      | err x => simp [he, ht] at h
      | panic x => simp [he, ht] at h
    | err x => simp [he] at h
    | panic x => simp [he] at h
end

end CV.Short
