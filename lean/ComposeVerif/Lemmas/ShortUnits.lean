import ComposeVerif.Lemmas.Duration
import ComposeVerif.Lemmas.Marshal
/-!
# Duration and byte-size grammars over C09's models of `time.ParseDuration` and `units.RAMInBytes` (C03, round 4)

C09 (`Model/Marshal.lean`, `Lemmas/Duration.lean`) models both parsers in full and proves the marshal → parse round
trip.  Here they are used read-only to state the C03 property for duration- and size-valued attributes: every spelling
of a duration as integer segments denotes its number of nanoseconds, a size with a unit denotes its number of bytes.
-/
namespace CV.Short.Units
open CV CV.Marshal

/-! ## durations: `<int><unit>` segments -/

inductive DUnit where
  | ns | us | mu | ms | s | m | h
deriving DecidableEq, Repr

def DUnit.chars : DUnit → List Char
  | .ns => ['n', 's'] | .us => ['u', 's'] | .mu => ['µ', 's'] | .ms => ['m', 's'] | .s => ['s'] | .m => ['m'] | .h => ['h']

def DUnit.nanos : DUnit → Nat
  | .ns => 1 | .us => 1000 | .mu => 1000 | .ms => 1000000 | .s => 1000000000 | .m => 60000000000 | .h => 3600000000000

/-- a duration written as a sequence of integer segments, e.g. `1m30s` = [(1, m), (30, s)] -/
abbrev DurSpec := List (Nat × DUnit)

def renderDur : DurSpec → List Char
  | [] => []
  | (w, u) :: r => natDigits w ++ u.chars ++ renderDur r

/-- the long form: the number of nanoseconds -/
def totalNanos : DurSpec → Nat
  | [] => 0
  | (w, u) :: r => w * u.nanos + totalNanos r

theorem DUnit.durUnit_chars (u : DUnit) : durUnit u.chars = some u.nanos := by cases u <;> rfl
theorem DUnit.chars_unit (u : DUnit) : u.chars.all unitChar = true := by cases u <;> decide
theorem DUnit.chars_ne_nil (u : DUnit) : u.chars ≠ [] := by cases u <;> simp [DUnit.chars]
theorem DUnit.nanos_pos (u : DUnit) : 0 < u.nanos := by cases u <;> decide

theorem restOK_renderDur (d : DurSpec) : RestOK (renderDur d) := by
  cases d with
  | nil => exact Or.inl rfl
  | cons x r =>
    obtain ⟨w, u⟩ := x
    simp only [renderDur, List.append_assoc]
    exact restOK_natDigits w _

theorem parseDurSegs_render : ∀ (d : DurSpec) (f acc : Nat), d.length < f → acc + totalNanos d ≤ two63 →
    parseDurSegs f (renderDur d) acc = .ok (acc + totalNanos d)
  | [], f, acc, hf, _ => by
    cases f with
    | zero => omega
    | succ f => simp [renderDur, totalNanos, parseDurSegs_nil]
  | (w, u) :: r, f, acc, hf, hb => by
    cases f with
    | zero => simp at hf
    | succ f =>
      simp only [totalNanos] at hb
      have hpos := u.nanos_pos
      have hwv : w * u.nanos ≤ two63 := by omega
      have hw : w ≤ two63 := Nat.le_trans (Nat.le_mul_of_pos_right w hpos) hwv
      have hwu : w ≤ two63 / u.nanos := (Nat.le_div_iff_mul_le hpos).2 hwv
      have hseg := parseSeg_plain w u.nanos u.chars (renderDur r) u.durUnit_chars u.chars_unit u.chars_ne_nil
        (restOK_renderDur r) hw hwu hwv
      have hne : natDigits w ++ u.chars ++ renderDur r ≠ [] := by
        have hl := natDigits_length_pos w
        intro h
        have h2 := congrArg List.length h
        simp only [List.length_append, List.length_nil] at h2
        omega
      rw [renderDur, parseDurSegs_step f _ _ acc _ hne hseg (by omega)]
      have := parseDurSegs_render r f (acc + w * u.nanos) (by simp at hf; omega) (by omega)
      rw [this, totalNanos]
      congr 1
      omega


theorem renderDur_length (d : DurSpec) : d.length ≤ (renderDur d).length := by
  induction d with
  | nil => simp [renderDur]
  | cons x r ih =>
    obtain ⟨w, u⟩ := x
    have := natDigits_length_pos w
    simp only [renderDur, List.length_cons, List.length_append]
    omega

theorem renderDur_shape (w : Nat) (u : DUnit) (r : DurSpec) :
    ∃ c t, renderDur ((w, u) :: r) = c :: t ∧ isDigit c = true ∧ t ≠ [] := by
  have hall := natDigits_all w
  cases hn : natDigits w with
  | nil => have := natDigits_length_pos w; simp [hn] at this
  | cons c t0 =>
    rw [hn] at hall
    simp only [List.all_cons, Bool.and_eq_true] at hall
    refine ⟨c, t0 ++ u.chars ++ renderDur r, by simp [renderDur, hn], hall.1, ?_⟩
    have := u.chars_ne_nil
    cases hc : u.chars with
    | nil => exact absurd hc this
    | cons a b => simp

/-- `time.ParseDuration` on a rendered duration: the total number of nanoseconds -/
theorem parseDuration_render (d : DurSpec) (hne : d ≠ []) (hb : totalNanos d < two63) :
    parseDuration (String.ofList (renderDur d)) = .ok (.int (totalNanos d)) := by
  cases d with
  | nil => exact absurd rfl hne
  | cons x r =>
    obtain ⟨w, u⟩ := x
    obtain ⟨c, t, hsh, hd, ht⟩ := renderDur_shape w u r
    have hc1 : c ≠ '-' := by intro he; subst he; revert hd; decide
    have hc2 : c ≠ '+' := by intro he; subst he; revert hd; decide
    have hsign : splitSign (c :: t) = (false, c :: t) := by
      unfold splitSign
      split
      · rename_i heq; injection heq with h1 _; exact absurd h1 hc1
      · rename_i heq; injection heq with h1 _; exact absurd h1 hc2
      · rfl
    have hnz : ¬ (c :: t = ['0']) := by
      intro he; injection he with _ h2; exact ht h2
    have hlen := renderDur_length ((w, u) :: r)
    have hsegs := parseDurSegs_render ((w, u) :: r) ((c :: t).length + 1) 0 (by rw [← hsh]; omega) (by omega)
    rw [hsh] at hsegs
    unfold parseDuration
    simp only [String.toList_ofList, hsh, hsign, hnz, if_false, List.isEmpty_cons, Bool.false_eq_true, hsegs, Nat.zero_add]
    have : ¬ (totalNanos ((w, u) :: r) > two63 - 1) := by omega
    simp [this]


/-! ## byte sizes: `<int><unit>[b|ib]` -/

inductive SUnit where
  | k | m | g | t | p
deriving DecidableEq, Repr

def SUnit.char : SUnit → Char
  | .k => 'k' | .m => 'm' | .g => 'g' | .t => 't' | .p => 'p'
def SUnit.mul : SUnit → Nat
  | .k => 1024 | .m => 1024 ^ 2 | .g => 1024 ^ 3 | .t => 1024 ^ 4 | .p => 1024 ^ 5

/-- the spellings of the unit: `k`, `kb`, `kib` (any letter case is lowered by the parser; the model covers these three) -/
inductive Sfx where
  | bare | b | ib
deriving DecidableEq, Repr

def Sfx.chars : Sfx → List Char
  | .bare => [] | .b => ['b'] | .ib => ['i', 'b']

/-- `<digits><unit>[b|ib]`, e.g. `2m`, `512kb`, `1gib` -/
structure SizeSpec where
  n : Nat
  unit : SUnit
  upper : Bool
  sfx : Sfx
deriving Repr

def SizeSpec.render (a : SizeSpec) : List Char :=
  natDigits a.n ++ (if a.upper then a.unit.char.toUpper else a.unit.char) :: a.sfx.chars

/-- the long form: the number of bytes -/
def SizeSpec.bytes (a : SizeSpec) : Nat := a.n * a.unit.mul

theorem size_split (n : Nat) (c0 : Char) (r : List Char) (h0 : isDigit c0 = false) :
    (natDigits n ++ c0 :: r).takeWhile isDigit = natDigits n ∧ (natDigits n ++ c0 :: r).dropWhile isDigit = c0 :: r :=
  ⟨takeWhile_append_stop _ _ _ _ (natDigits_all n) h0, dropWhile_append_stop _ _ _ _ (natDigits_all n) h0⟩

theorem size_takeWhile (n : Nat) (c0 : Char) (r : List Char) (h0 : isDigit c0 = false) :
    (natDigits n ++ c0 :: r).takeWhile isDigit = natDigits n := (size_split n c0 r h0).1
theorem size_dropWhile (n : Nat) (c0 : Char) (r : List Char) (h0 : isDigit c0 = false) :
    (natDigits n ++ c0 :: r).dropWhile isDigit = c0 :: r := (size_split n c0 r h0).2

theorem not_all_digits (n : Nat) (c0 : Char) (r : List Char) (h0 : isDigit c0 = false) :
    (natDigits n ++ c0 :: r).all isDigit = false := by
  simp [h0]

theorem natDigits_head (n : Nat) : ∃ c t, natDigits n = c :: t ∧ isDigit c = true := by
  have hall := natDigits_all n
  cases hn : natDigits n with
  | nil => have := natDigits_length_pos n; simp [hn] at this
  | cons c t =>
    rw [hn] at hall
    simp only [List.all_cons, Bool.and_eq_true] at hall
    exact ⟨c, t, rfl, hall.1⟩

theorem parseNat_none (n : Nat) (c0 : Char) (r : List Char) (h0 : isDigit c0 = false) :
    parseNat? (natDigits n ++ c0 :: r) = none := by
  simp [parseNat?, h0]

/-- `units.RAMInBytes` on a rendered size -/
theorem ramInBytes_render (a : SizeSpec) (hb : a.bytes < two53) :
    ramInBytes (String.ofList a.render) = .ok (.int a.bytes) := by
  obtain ⟨n, u, up, sfx⟩ := a
  simp only [SizeSpec.bytes] at hb
  obtain ⟨c, t, hn, hc⟩ := natDigits_head n
  have hcm : c ≠ '-' := by intro he; subst he; revert hc; decide
  cases u <;> cases up <;> cases sfx <;>
    (simp only [SizeSpec.render, SUnit.char, Sfx.chars, Bool.false_eq_true, if_false, if_true]
     unfold ramInBytes
     simp (disch := decide) only [String.toList_ofList, parseNat_none]
     split
     · rename_i ds heq
       rw [hn] at heq
       injection heq with h1 _
       exact absurd h1 hcm
     · simp (disch := decide) only [size_takeWhile, size_dropWhile, parseNat_natDigits]
       simp [unitMul, exactOrUnmodelled, SUnit.mul, SizeSpec.bytes] at hb ⊢
       try omega)

end CV.Short.Units
