import ComposeVerif.Model.Path
/-! First-match lookup in a pairwise-exclusive rule table does not depend on the order of the rows. -/
namespace CV.TPath

theorem overlap_symm : ∀ (p q : List String), overlap p q = overlap q p
  | [], [] => rfl
  | [], _ :: _ => rfl
  | _ :: _, [] => rfl
  | a :: as, b :: bs => by
    simp only [overlap, overlap_symm as bs]
    by_cases h1 : a = "*" <;> by_cases h2 : b = "*" <;> by_cases h3 : a = b <;>
      simp_all [eq_comm]

theorem overlap_of_both_match : ∀ (p q x : List String), pmatch p x = true → pmatch q x = true → overlap p q = true
  | [], [], [], _, _ => rfl
  | [], _ :: _, [], _, h => by simp [pmatch] at h
  | [], _, _ :: _, h, _ => by simp [pmatch] at h
  | _ :: _, _, [], h, _ => by simp [pmatch] at h
  | _ :: _, [], _ :: _, _, h => by simp [pmatch] at h
  | a :: as, b :: bs, c :: cs, h1, h2 => by
    simp only [pmatch, Bool.and_eq_true, Bool.or_eq_true, decide_eq_true_eq] at h1 h2
    simp only [overlap, Bool.and_eq_true, Bool.or_eq_true, decide_eq_true_eq]
    refine ⟨?_, overlap_of_both_match as bs cs h1.2 h2.2⟩
    rcases h1.1 with h | h
    · exact .inl (.inl h)
    · rcases h2.1 with h' | h'
      · exact .inl (.inr h')
      · exact .inr (h.trans h'.symm)

variable {α : Type}

theorem firstMatch_eq_of_mem {t : List (List String × α)} (hex : PairwiseExclusive t)
    {pat : List String} {h : α} (hm : (pat, h) ∈ t) {x : TPath} (hx : pmatch pat x = true) :
    firstMatch t x = some h := by
  induction t with
  | nil => cases hm
  | cons e r ih =>
    obtain ⟨p0, h0⟩ := e
    simp only [PairwiseExclusive, List.pairwise_cons] at hex
    simp only [firstMatch]
    rcases List.mem_cons.mp hm with heq | hr
    · cases heq; simp [hx]
    · by_cases hp : pmatch p0 x = true
      · have := hex.1 _ hr
        have ov := overlap_of_both_match p0 pat x hp hx
        simp only at this
        rw [ov] at this; cases this
      · simp only [hp]
        exact ih hex.2 hr

theorem firstMatch_none_iff {t : List (List String × α)} {x : TPath} :
    firstMatch t x = none ↔ ∀ e ∈ t, pmatch e.1 x = false := by
  induction t with
  | nil => simp [firstMatch]
  | cons e r ih =>
    obtain ⟨p0, h0⟩ := e
    simp only [firstMatch, List.mem_cons, forall_eq_or_imp]
    by_cases hp : pmatch p0 x = true
    · simp [hp]
    · simp only [hp, Bool.false_eq_true, if_false, ih]
      simp [Bool.not_eq_true _ |>.mp hp]

theorem firstMatch_some_mem {t : List (List String × α)} {x : TPath} {h : α}
    (hs : firstMatch t x = some h) : ∃ pat, (pat, h) ∈ t ∧ pmatch pat x = true := by
  induction t with
  | nil => simp [firstMatch] at hs
  | cons e r ih =>
    obtain ⟨p0, h0⟩ := e
    simp only [firstMatch] at hs
    by_cases hp : pmatch p0 x = true
    · simp only [hp, if_true, Option.some.injEq] at hs
      exact ⟨p0, by simp [hs], hp⟩
    · simp only [hp] at hs
      obtain ⟨pat, hm, hx⟩ := ih hs
      exact ⟨pat, List.mem_cons_of_mem _ hm, hx⟩

theorem pairwiseExclusive_perm {t t' : List (List String × α)} (hp : t'.Perm t)
    (hex : PairwiseExclusive t) : PairwiseExclusive t' := by
  unfold PairwiseExclusive at *
  exact (hp.pairwise_iff (fun {a b} (h : overlap a.1 b.1 = false) => by rw [overlap_symm]; exact h)).mpr hex

/-- **Go may range over a rule table in any order**: with pairwise-exclusive patterns the rule
applied at a path is the same for every iteration order. -/
theorem firstMatch_perm {t t' : List (List String × α)} (hex : PairwiseExclusive t)
    (hp : t'.Perm t) (x : TPath) : firstMatch t' x = firstMatch t x := by
  have hex' := pairwiseExclusive_perm hp hex
  cases h : firstMatch t x with
  | none =>
    rw [firstMatch_none_iff] at h ⊢
    intro e he
    exact h e (hp.subset he)
  | some v =>
    obtain ⟨pat, hm, hx⟩ := firstMatch_some_mem h
    exact firstMatch_eq_of_mem hex' (hp.symm.subset hm) hx

end CV.TPath
