import ComposeVerif.Lemmas.C02Deep4
import ComposeVerif.Lemmas.Path
namespace CV.Deep
open CV CV.Merge
open CV.Val (lookup insert keys KVs)

theorem getD_eqv {a a' : KVs} (h : MEqv a a') (k : String) :
    Eqv ((lookup k a).getD .null) ((lookup k a').getD .null) := by
  cases hl : lookup k a with
  | none => rw [(h.1 k).mp hl]; exact .null
  | some x => obtain ⟨y, hy, hxy⟩ := h.lookup_some hl; rw [hy]; exact hxy

theorem isNone_eqv {a a' : KVs} (h : MEqv a a') (k : String) : (lookup k a).isNone = (lookup k a').isNone := by
  cases hl : lookup k a with
  | none => rw [(h.1 k).mp hl]
  | some x => obtain ⟨y, hy, _⟩ := h.lookup_some hl; rw [hy]; rfl

theorem loggingStep_eqv (mk : KVs → KVs → TPath → Out KVs) (p : TPath) (hmk : MkCongr mk p)
    {e e' o o' : Val} (he : Eqv e e') (ho : Eqv o o') (we : WF e) (we' : WF e') (wo : WF o) (wo' : WF o') :
    OutEqv Eqv (loggingStep mk e o p) (loggingStep mk e' o' p) := by
  cases he with
  | null => simpa [loggingStep, OutEqv] using ho
  | map a1 a2 =>
    cases ho with
    | null => simpa [loggingStep, OutEqv] using Eqv.map a1 a2
    | map b1 b2 =>
      have hc : MEqv _ _ := ⟨a1, a2⟩
      have hoth : MEqv _ _ := ⟨b1, b2⟩
      simp only [loggingStep]
      rw [sameScalar_eqv (getD_eqv hoth "driver") (getD_eqv hc "driver"), isNone_eqv hoth "driver", isNone_eqv hc "driver"]
      split
      · exact okMap_eqv (hmk _ _ _ _ hc hoth (WF.map_iff.mp we) (WF.map_iff.mp we') (WF.map_iff.mp wo) (WF.map_iff.mp wo'))
      · exact Eqv.map b1 b2
    | bool b => simp [loggingStep, OutEqv]
    | int i => simp [loggingStep, OutEqv]
    | float s => simp [loggingStep, OutEqv]
    | str s => simp [loggingStep, OutEqv]
    | seqNil => simp [loggingStep, OutEqv]
    | seqCons _ _ => simp [loggingStep, OutEqv]
  | bool b => cases ho <;> simp [loggingStep, OutEqv] <;> exact Eqv.bool b
  | int i => cases ho <;> simp [loggingStep, OutEqv] <;> exact Eqv.int i
  | float s => cases ho <;> simp [loggingStep, OutEqv] <;> exact Eqv.float s
  | str s => cases ho <;> simp [loggingStep, OutEqv] <;> exact Eqv.str s
  | seqNil => cases ho <;> simp [loggingStep, OutEqv] <;> exact Eqv.seqNil
  | seqCons h1 h2 => cases ho <;> simp [loggingStep, OutEqv] <;> exact Eqv.seqCons h1 h2

theorem defaultStep_eqv (mk : KVs → KVs → TPath → Out KVs) (p : TPath) (hmk : MkCongr mk p)
    {e e' o o' : Val} (he : Eqv e e') (ho : Eqv o o') (we : WF e) (we' : WF e') (wo : WF o) (wo' : WF o') :
    OutEqv Eqv (defaultStep mk e o p) (defaultStep mk e' o' p) := by
  cases ho with
  | null => simpa [defaultStep, OutEqv] using he
  | map b1 b2 =>
    cases he with
    | map a1 a2 =>
      simp only [defaultStep]
      exact okMap_eqv (hmk _ _ _ _ ⟨a1, a2⟩ ⟨b1, b2⟩ (WF.map_iff.mp we) (WF.map_iff.mp we') (WF.map_iff.mp wo) (WF.map_iff.mp wo'))
    | null => simpa [defaultStep, OutEqv] using Eqv.map b1 b2
    | bool b => simpa [defaultStep, OutEqv] using Eqv.map b1 b2
    | int i => simpa [defaultStep, OutEqv] using Eqv.map b1 b2
    | float s => simpa [defaultStep, OutEqv] using Eqv.map b1 b2
    | str s => simpa [defaultStep, OutEqv] using Eqv.map b1 b2
    | seqNil => simp [defaultStep, OutEqv]
    | seqCons _ _ => simp [defaultStep, OutEqv]
  | seqNil =>
    cases he with
    | map _ _ => simp [defaultStep, OutEqv]
    | seqNil => simpa [defaultStep, OutEqv] using Eqv.seqNil
    | seqCons h1 h2 => simpa [defaultStep, OutEqv] using Eqv.seqCons h1 h2
    | null => simpa [defaultStep, OutEqv] using Eqv.seqNil
    | bool b => simpa [defaultStep, OutEqv] using Eqv.seqNil
    | int i => simpa [defaultStep, OutEqv] using Eqv.seqNil
    | float s => simpa [defaultStep, OutEqv] using Eqv.seqNil
    | str s => simpa [defaultStep, OutEqv] using Eqv.seqNil
  | seqCons o1 o2 =>
    cases he with
    | map _ _ => simp [defaultStep, OutEqv]
    | seqNil => simpa [defaultStep, OutEqv] using Eqv.seqCons o1 o2
    | seqCons h1 h2 =>
      simp only [defaultStep, OutEqv]
      exact Eqv.seq_append (.seqCons h1 h2) (.seqCons o1 o2)
    | null => simpa [defaultStep, OutEqv] using Eqv.seqCons o1 o2
    | bool b => simpa [defaultStep, OutEqv] using Eqv.seqCons o1 o2
    | int i => simpa [defaultStep, OutEqv] using Eqv.seqCons o1 o2
    | float s => simpa [defaultStep, OutEqv] using Eqv.seqCons o1 o2
    | str s => simpa [defaultStep, OutEqv] using Eqv.seqCons o1 o2
  | bool b => cases he <;> simp [defaultStep, OutEqv] <;> exact Eqv.bool b
  | int i => cases he <;> simp [defaultStep, OutEqv] <;> exact Eqv.int i
  | float s => cases he <;> simp [defaultStep, OutEqv] <;> exact Eqv.float s
  | str s => cases he <;> simp [defaultStep, OutEqv] <;> exact Eqv.str s

/-- every special merger except `mergeIPAMConfig` -/
theorem specialStep_eqv (mk : KVs → KVs → TPath → Out KVs) (p : TPath) (hmk : MkCongr mk p) (r : Rule) (hr : r ≠ .ipam)
    {e e' o o' : Val} (he : Eqv e e') (ho : Eqv o o') (we : WF e) (we' : WF e') (wo : WF o) (wo' : WF o') :
    OutEqv Eqv (specialStep mk r e o p) (specialStep mk r e' o' p) := by
  cases r with
  | ipam => exact absurd rfl hr
  | toSeq =>
    simp only [specialStep, OutEqv]
    exact Eqv.seq_append (seqOf_eqv he we we') (seqOf_eqv ho wo wo')
  | override => simpa [specialStep, OutEqv] using ho
  | ulimit =>
    cases ho with
    | map b1 b2 =>
      simp only [specialStep]
      have hb : MEqv _ _ := ⟨b1, b2⟩
      exact okMap_eqv (hmk _ _ _ _ hb hb (WF.map_iff.mp wo) (WF.map_iff.mp wo') (WF.map_iff.mp wo) (WF.map_iff.mp wo'))
    | null => simpa [specialStep, OutEqv] using Eqv.null
    | bool b => simpa [specialStep, OutEqv] using Eqv.bool b
    | int i => simpa [specialStep, OutEqv] using Eqv.int i
    | float s => simpa [specialStep, OutEqv] using Eqv.float s
    | str s => simpa [specialStep, OutEqv] using Eqv.str s
    | seqNil => simpa [specialStep, OutEqv] using Eqv.seqNil
    | seqCons h1 h2 => simpa [specialStep, OutEqv] using Eqv.seqCons h1 h2
  | extraHosts =>
    simp only [specialStep, OutEqv]
    have h1 := seqOf_eqv he we we'
    have h2 := seqOf_eqv ho wo wo'
    exact Eqv.seq_append h1 (keepNew_eqv h1 h2)
  | dependsOn =>
    simp only [specialStep]
    exact convMerge_eqv mk p hmk _ (fun v v' h w w' => intoMap_eqv _ wf_dependsOnDefault h w w') he ho we we' wo wo'
  | networks =>
    simp only [specialStep]
    exact convMerge_eqv mk p hmk _ (fun v v' h w w' => intoMap_eqv _ .null h w w') he ho we we' wo wo'
  | build =>
    simp only [specialStep]
    exact convMerge_eqv mk p hmk _ (fun v v' h w w' => toBuild_eqv h w w') he ho we we' wo wo'
  | logging => exact loggingStep_eqv mk p hmk he ho we we' wo wo'
  | unknown => simp [specialStep, OutEqv]

/-! ### where the IPAM rule can apply -/

theorem ipam_rows_under_networks :
    ∀ row ∈ CV.Gen.mergeSpecials, (ruleOfName row.2).getD .unknown = Rule.ipam → row.1.head? = some "networks" := by
  decide

theorem ruleAt_ipam {p : TPath} (h : ruleAt p = some .ipam) : p.head? = some "networks" := by
  simp only [ruleAt, ruleAtIn] at h
  cases hfm : TPath.firstMatch CV.Gen.mergeSpecials p with
  | none => simp [hfm] at h
  | some n =>
    simp only [hfm, Option.some.injEq] at h
    obtain ⟨pat, hmem, hmatch⟩ := TPath.firstMatch_some_mem hfm
    have hrow := ipam_rows_under_networks (pat, n) hmem h
    cases pat with
    | nil => simp at hrow
    | cons a as =>
      simp only [List.head?_cons, Option.some.injEq] at hrow
      subst hrow
      cases p with
      | nil => simp [TPath.pmatch] at hmatch
      | cons b bs =>
        simp only [TPath.pmatch, Bool.and_eq_true, Bool.or_eq_true, decide_eq_true_eq] at hmatch
        rcases hmatch.1 with h1 | h1
        · exact absurd h1 (by decide)
        · simp [h1]

/-- paths below a top-level section other than `networks` (where `mergeIPAMConfig` lives) -/
def Below (p : TPath) : Prop := p ≠ [] ∧ p ≠ TPath.root ∧ p.head? ≠ some "networks"

theorem Below.next {p : TPath} (h : Below p) (k : String) : Below (next p k) := by
  obtain ⟨h1, h2, h3⟩ := h
  simp only [Merge.next, h2, if_false]
  cases p with
  | nil => exact absurd rfl h1
  | cons a as =>
    refine ⟨by simp, ?_, by simpa using h3⟩
    simp [TPath.root]

/-- **`mergeYaml` respects the equivalence at every nesting level at once** (paths outside `networks`) -/
theorem mergeYaml_congr : ∀ (n : Nat) (p : TPath), Below p → Congr (mergeYaml n) p := by
  intro n
  induction n with
  | zero => intro p _ e e' v v' _ _ _ _ _ _; simp [mergeYaml, OutEqv]
  | succ n ih =>
    intro p hp e e' o o' he ho we we' wo wo'
    have hmk : MkCongr (mergeKVsWith (mergeYaml n)) p := by
      intro a a' b b' hab hbb wa wa' wb wb'
      exact mergeKVsWith_congr (mergeYaml n) p (fun k => ih (next p k) (hp.next k)) a a' b b' hab hbb wa wa' wb wb'
    simp only [mergeYaml, mergeStep]
    cases hr : ruleAt p with
    | none => exact defaultStep_eqv _ p hmk he ho we we' wo wo'
    | some r =>
      have hne : r ≠ .ipam := by
        intro e; subst e
        exact hp.2.2 (ruleAt_ipam hr)
      exact specialStep_eqv _ p hmk r hne he ho we we' wo wo'

end CV.Deep
