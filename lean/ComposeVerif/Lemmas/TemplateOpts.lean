import ComposeVerif.Model.TemplateOpts
import ComposeVerif.Lemmas.TemplateMore
/-!
# `SubstituteWithOptions`: the default configuration is `Substitute`

`matchDelim_dollar` (the delimiter-parametric matcher at `$` is `matchDollar`), unfolding lemmas for
`scanC` / `replC`, and `scanC_replC_default`.
-/
namespace CV.Template

theorem matchDollar_not_dollar (a : Char) (r : Str) (h : a ≠ '$') : matchDollar (a :: r) = none := by
  unfold matchDollar
  split
  · rename_i heq; simp at heq; exact absurd heq.1 h
  · rename_i heq; simp at heq; exact absurd heq.1 h
  · rename_i heq; simp at heq; exact absurd heq.1 h
  · rfl

theorem matchDelim_dollar (s : Str) : matchDelim '$' s = matchDollar s := by
  cases s with
  | nil => simp [matchDelim, matchDollar]
  | cons a t =>
    cases t with
    | nil =>
      simp only [matchDelim]
      unfold matchDollar
      split <;> simp_all
    | cons b r =>
      simp only [matchDelim]
      by_cases ha : a = '$'
      · subst ha
        simp only [beq_self_eq_true, if_true]
        by_cases h1 : b = '$'
        · subst h1; simp [matchDollar]
        · by_cases h2 : b = '{'
          · subst h2; simp [matchDollar]
          · have e1 : (b == '$') = false := by simpa using h1
            have e2 : (b == '{') = false := by simpa using h2
            simp only [e1, e2, Bool.false_eq_true, if_false]
            by_cases hc : isNameStart b = true
            · rw [matchDollar_start b r hc]; simp [hc]
            · have hc' : isNameStart b = false := by simpa using hc
              rw [matchDollar_other b r h1 h2 hc']; simp [hc']
      · have e : (a == '$') = false := by simpa using ha
        simp only [e, Bool.false_eq_true, if_false]
        exact (matchDollar_not_dollar a (b :: r) ha).symm

theorem matchDollar_groups_nonempty {s : Str} {k : M} {m rest : Str} (h : matchDollar s = some (k, m, rest)) :
    (∀ n, k = .named n → n ≠ []) ∧ (∀ b, k = .braced b → b ≠ []) := by
  unfold matchDollar at h
  split at h
  · cases h; exact ⟨fun _ h => M.noConfusion h, fun _ h => M.noConfusion h⟩
  · rename_i r
    cases h
    refine ⟨?_, ?_⟩
    · intro n hn
      rw [matchBraced_eq] at hn
      cases r with
      | nil => simp at hn
      | cons c cs =>
        simp only at hn
        split at hn
        · unfold afterName at hn
          split at hn <;> (try split at hn) <;> (try split at hn) <;> simp at hn
        · simp at hn
    · intro b hb
      rw [matchBraced_eq] at hb
      cases r with
      | nil => simp at hb
      | cons c cs =>
        simp only at hb
        split at hb
        · rename_i hc
          have hsp := spanName_cons (isNameChar_of_start hc) cs
          unfold afterName at hb
          rw [hsp] at hb
          split at hb <;> (try split at hb) <;> (try split at hb) <;> simp at hb <;> (subst hb; simp)
        · simp at hb
  · rename_i c r _ _
    split at h
    · cases h
      rename_i hc
      refine ⟨?_, fun _ h => M.noConfusion h⟩
      intro n hn
      cases hn
      rw [spanName_cons (isNameChar_of_start hc)]; simp
    · cases h
  · cases h

end CV.Template
namespace CV.Template

theorem findDelim_dollar_of_head {sub : Str} (h : DollarHead sub) :
    findDelim '$' sub = (matchDollar sub).map (fun x => groupsOfD '$' x.1) := by
  obtain ⟨c, r, rfl, _⟩ := id h
  have hne := matchDollar_isSome_of_head h
  rw [findDelim, matchDelim_dollar]
  cases hm : matchDollar ('$' :: c :: r) with
  | none => exact absurd hm hne
  | some x => rfl

/-- the body of `replC` after the truncation -/
def replBody (cfg : Cfg) (f : Nat) (env : Env) (m sub rest : Str) : Out :=
  match cfg.find sub with
  | none => .panic .matchGroups
  | some g =>
    if !g.escaped.isEmpty then .ok g.escaped
    else if !g.named.isEmpty then .ok ((env g.named).getD [])
    else if g.braced.isEmpty then .err .invalid
    else
      match (match cfg.subsFunc with
             | some sf => sf env g.braced
             | none => builtinSubs (fun a => scan f env a [] none) (selectOp m) env g.braced) with
      | .panic p => .panic p
      | .err e => .err e
      | .val v true =>
        match scanC { cfg with subsFunc := none, replFunc := none } f env rest [] none with
        | .ok r => .ok (v ++ r)
        | o => o
      | .val _ false => .ok ((env g.braced).getD [])

theorem replC_succ (cfg : Cfg) (f : Nat) (env : Env) (m : Str) :
    replC cfg (f + 1) env m = replBody cfg f env m (subOf m) (restOf m) := by
  simp only [replC]; rfl

/-- one step of `scanC` -/
def scanCK (cfg : Cfg) (f : Nat) (env : Env) (s acc : Str) (fe : Option Err) : Out :=
  match s with
  | [] => match fe with
    | none => .ok acc
    | some e => .err e
  | c :: cs =>
    match cfg.matchAt (c :: cs) with
    | none => scanC cfg f env cs (acc ++ [c]) fe
    | some (m, rest) =>
      match (match cfg.replFunc with
             | some g => g env m
             | none => replC cfg f env m) with
      | .ok v => scanC cfg f env rest (acc ++ v) fe
      | .err e => scanC cfg f env rest acc (pushErr fe e)
      | .panic p => .panic p

theorem scanC_succ (cfg : Cfg) (f : Nat) (env : Env) (s acc : Str) (fe : Option Err) :
    scanC cfg (f + 1) env s acc fe = scanCK cfg f env s acc fe := by
  cases s <;> cases fe <;> simp only [scanC, scanCK, pushErr] <;> rfl

theorem cfg_drop_default : ({ defaultCfg with subsFunc := none, replFunc := none } : Cfg) = defaultCfg := rfl

theorem scanC_replC_default (env : Env) : ∀ f,
    (∀ s acc fe, scanC defaultCfg f env s acc fe = scan f env s acc fe) ∧
    (∀ m, DollarHead m → replC defaultCfg f env m = repl f env m) := by
  intro f
  induction f with
  | zero => exact ⟨fun s acc fe => by simp [scanC, scan], fun m _ => by simp [replC, repl]⟩
  | succ f ih =>
    refine ⟨fun s acc fe => ?_, fun m hm => ?_⟩
    · rw [scan_succ, scanC_succ]; unfold scanK scanCK
      cases s with
      | nil => rfl
      | cons c cs =>
        have hma : defaultCfg.matchAt (c :: cs) = (matchDollar (c :: cs)).map (fun x => (x.2.1, x.2.2)) := by
          simp only [defaultCfg, delimCfg, matchDelim_dollar]
        have hrf : defaultCfg.replFunc = none := rfl
        simp only [hma, hrf]
        by_cases hc : c = '$'
        · subst hc
          simp only [beq_self_eq_true, if_true]
          cases hmd : matchDollar ('$' :: cs) with
          | none => simp only [Option.map_none]; exact ih.1 _ _ _
          | some x =>
            obtain ⟨k, m, rest⟩ := x
            simp only [Option.map_some]
            rw [ih.2 m (dollarHead_of_match hmd)]
            cases repl f env m with
            | ok v => exact ih.1 _ _ _
            | err e => exact ih.1 _ _ _
            | panic p => rfl
        · have e : (c == '$') = false := by simpa using hc
          simp only [e, Bool.false_eq_true, if_false, matchDollar_not_dollar c cs hc, Option.map_none]
          exact ih.1 _ _ _
    · rw [repl_succ, replC_succ]; unfold replK replBody
      have hsub := dollarHead_subOf hm
      have hfind : defaultCfg.find (subOf m) = (matchDollar (subOf m)).map (fun x => groupsOfD '$' x.1) :=
        findDelim_dollar_of_head hsub
      have hsf : defaultCfg.subsFunc = none := rfl
      simp only [hfind, hsf, cfg_drop_default]
      cases hmd : matchDollar (subOf m) with
      | none => rfl
      | some x =>
        obtain ⟨k, x1, x2⟩ := x
        have hne := matchDollar_groups_nonempty hmd
        simp only [Option.map_some]
        cases k with
        | escaped => simp [groupsOfD]
        | invalid => simp [groupsOfD]
        | named n =>
          have : n ≠ [] := hne.1 n rfl
          cases n with
          | nil => exact absurd rfl this
          | cons a n => simp [groupsOfD]
        | braced b =>
          have : b ≠ [] := hne.2 b rfl
          cases b with
          | nil => exact absurd rfl this
          | cons a b =>
            simp only [groupsOfD, List.isEmpty_nil, List.isEmpty_cons, Bool.not_true,
              Bool.false_eq_true, if_false]
            unfold builtinSubs
            by_cases hc : containsStr (selectOp m).str (a :: b) = true
            · simp only [hc, if_true]
              cases scan f env (cut (selectOp m).str (a :: b)).2 [] none with
              | panic p => rfl
              | err e => rfl
              | ok d =>
                simp only
                cases applyOp (selectOp m) (cut (selectOp m).str (a :: b)).1 (env (cut (selectOp m).str (a :: b)).1) d with
                | panic p => rfl
                | err e => rfl
                | ok x =>
                  simp only
                  rw [ih.1 (restOf m) [] none]
                  cases scan f env (restOf m) [] none <;> rfl
            · simp only [hc, Bool.false_eq_true, if_false]

end CV.Template
