import ComposeVerif.Model.Merge
import ComposeVerif.Lemmas.Path
/-!
# The fuel of `mergeYaml` is sufficient: `mergeYaml n e o p` never runs out of fuel when `n ≥ depth o + 2`

Every recursive call descends into a value of the override, except that `mergeBuild` / `mergeDependsOn` /
`mergeNetworks` first convert a string or a list of names into a mapping (one level deeper than the override).
With an arbitrary rule table that could go on for ever (`build: x` ↦ `{context: x}` ↦ … if `context` were a build
path again), so the proof uses one fact about the regenerated table (`conv_rules_at_length_three`, by `decide`):
the converting mergers sit at patterns of length three, hence their children are at paths of length four, where no
converting merger sits.
-/
namespace CV.Merge
open CV CV.Val

/-- extra fuel a path may need on top of the depth of the override: 2 up to length three, 1 below -/
def cst (p : TPath) : Nat := if 4 ≤ p.length then 1 else 2

theorem cst_pos (p : TPath) : 1 ≤ cst p := by unfold cst; split <;> omega
theorem cst_le_two (p : TPath) : cst p ≤ 2 := by unfold cst; split <;> omega

theorem length_next_of_ne_root (p : TPath) (k : String) (h : p ≠ TPath.root) : (next p k).length = p.length + 1 := by
  simp [next, h]

theorem ne_root_of_length (p : TPath) (h : 2 ≤ p.length) : p ≠ TPath.root := by
  intro hp; subst hp; simp [TPath.root] at h

theorem cst_next_le (p : TPath) (k : String) : cst (next p k) ≤ cst p := by
  by_cases h : 4 ≤ p.length
  · have hl := length_next_of_ne_root p k (ne_root_of_length p (by omega))
    have h1 : cst (next p k) = 1 := by unfold cst; rw [if_pos (by omega)]
    have h2 : cst p = 1 := by unfold cst; rw [if_pos h]
    omega
  · have := cst_le_two (next p k)
    have h2 : cst p = 2 := by unfold cst; rw [if_neg h]
    omega

theorem pmatch_length : ∀ (pat p : List String), TPath.pmatch pat p = true → pat.length = p.length
  | [], [], _ => rfl
  | [], _ :: _, h => by simp [TPath.pmatch] at h
  | _ :: _, [], h => by simp [TPath.pmatch] at h
  | a :: as, b :: bs, h => by
    simp only [TPath.pmatch, Bool.and_eq_true] at h
    simp [pmatch_length as bs h.2]

def isConv (r : Rule) : Bool := r == .build || r == .dependsOn || r == .networks

/-- table fact (re-checked whenever the Go table changes): the converting mergers are registered at patterns of length three -/
theorem conv_rules_at_length_three :
    ∀ r ∈ CV.Gen.mergeSpecials, isConv ((ruleOfName r.2).getD .unknown) = true → r.1.length = 3 := by decide

theorem ruleAt_conv_length (p : TPath) (r : Rule) (h : ruleAt p = some r) (hc : isConv r = true) : p.length = 3 := by
  unfold ruleAt ruleAtIn at h
  cases hf : TPath.firstMatch CV.Gen.mergeSpecials p with
  | none => simp [hf] at h
  | some n =>
    simp only [hf, Option.some.injEq] at h
    obtain ⟨pat, hm, hx⟩ := TPath.firstMatch_some_mem hf
    have := conv_rules_at_length_three (pat, n) hm (by simpa [h] using hc)
    rw [← pmatch_length pat p hx]; exact this

theorem cst_child_of_conv (p : TPath) (k : String) (hl : p.length = 3) : cst (next p k) = 1 := by
  have := length_next_of_ne_root p k (ne_root_of_length p (by omega))
  unfold cst; rw [if_pos (by omega)]

/-! ### depth of sub-values -/

theorem depthKV_ge : ∀ (kvs : KVs) (k : String) (v : Val), (k, v) ∈ kvs → depth v ≤ depthKV kvs := by
  intro kvs
  induction kvs with
  | nil => intro k v h; cases h
  | cons hd tl ih =>
    obtain ⟨k', v'⟩ := hd
    intro k v h
    simp only [depthKV]
    rcases List.mem_cons.mp h with heq | ht
    · cases heq; exact Nat.le_max_left _ _
    · exact Nat.le_trans (ih k v ht) (Nat.le_max_right _ _)

theorem depthL_ge : ∀ (xs : List Val) (x : Val), x ∈ xs → depth x ≤ depthL xs := by
  intro xs
  induction xs with
  | nil => intro x h; cases h
  | cons hd tl ih =>
    intro x h
    simp only [depthL]
    rcases List.mem_cons.mp h with heq | ht
    · subst heq; exact Nat.le_max_left _ _
    · exact Nat.le_trans (ih x ht) (Nat.le_max_right _ _)

theorem depth_map (kvs : KVs) : depth (.map kvs) = 1 + depthKV kvs := by simp [depth]
theorem depth_seq (xs : List Val) : depth (.seq xs) = 1 + depthL xs := by simp [depth]

theorem depth_child (kvs : KVs) (k : String) (v : Val) (h : (k, v) ∈ kvs) : depth v + 1 ≤ depth (.map kvs) := by
  rw [depth_map]; have := depthKV_ge kvs k v h; omega

/-! ### the loops never panic by themselves -/

theorem mergeKVsWith_noPanic (f : Val → Val → TPath → Out Val) (p : TPath) : ∀ (b : KVs),
    (∀ kv ∈ b, ∀ e s, f e kv.2 (next p kv.1) ≠ .panic s) → ∀ a s, mergeKVsWith f a b p ≠ .panic s := by
  intro b
  induction b with
  | nil => intro _ a s h; simp [mergeKVsWith] at h
  | cons hd tl ih =>
    obtain ⟨k, v⟩ := hd
    intro hf a s
    have htl : ∀ kv ∈ tl, ∀ e s, f e kv.2 (next p kv.1) ≠ .panic s := fun kv hkv => hf kv (by simp [hkv])
    simp only [mergeKVsWith]
    cases lookup k a with
    | none => exact ih htl _ s
    | some e =>
      simp only
      split
      · exact ih htl _ s
      · cases hfe : f e v (next p k) with
        | ok m => simp only [Out.bind]; exact ih htl _ s
        | err e' => simp [Out.bind]
        | panic s' => exact absurd hfe (hf (k, v) (by simp) e s')

theorem listIntoMap_noPanic (dflt : Val) : ∀ (xs : List Val) (acc : KVs) (s : String), listIntoMap dflt xs acc ≠ .panic s := by
  intro xs
  induction xs with
  | nil => intro acc s h; simp [listIntoMap] at h
  | cons x r ih =>
    intro acc s
    cases x <;> simp [listIntoMap, ih]

theorem intoMap_noPanic (dflt v : Val) (s : String) : intoMap dflt v ≠ .panic s := by
  cases v <;> simp [intoMap, listIntoMap_noPanic]

theorem toBuild_noPanic (v : Val) (s : String) : toBuild v ≠ .panic s := by
  cases v <;> simp [toBuild]

/-- values of a converted list of names: the default value, or what was there before -/
theorem listIntoMap_values (dflt : Val) : ∀ (xs : List Val) (acc b : KVs), listIntoMap dflt xs acc = .ok b →
    ∀ kv ∈ b, kv.2 = dflt ∨ kv ∈ acc := by
  intro xs
  induction xs with
  | nil => intro acc b h kv hkv; simp only [listIntoMap, Out.ok.injEq] at h; subst h; exact .inr hkv
  | cons x r ih =>
    intro acc b h kv hkv
    cases x with
    | str s =>
      simp only [listIntoMap] at h
      rcases ih _ _ h kv hkv with h1 | h1
      · exact .inl h1
      · -- kv ∈ insert s dflt acc
        have : ∀ (m : KVs), kv ∈ Val.insert s dflt m → kv.2 = dflt ∨ kv ∈ m := by
          intro m
          induction m with
          | nil => intro hm; simp only [Val.insert, List.mem_singleton] at hm; subst hm; exact .inl rfl
          | cons hd tl ihm =>
            obtain ⟨k', v'⟩ := hd
            intro hm
            simp only [Val.insert] at hm
            split at hm
            · rcases List.mem_cons.mp hm with h2 | h2
              · subst h2; exact .inl rfl
              · exact .inr (by simp [h2])
            · rcases List.mem_cons.mp hm with h2 | h2
              · exact .inr (by simp [h2])
              · rcases ihm h2 with h3 | h3
                · exact .inl h3
                · exact .inr (by simp [h3])
        exact this acc h1
    | null => simp [listIntoMap] at h
    | bool _ => simp [listIntoMap] at h
    | int _ => simp [listIntoMap] at h
    | float _ => simp [listIntoMap] at h
    | seq _ => simp [listIntoMap] at h
    | map _ => simp [listIntoMap] at h

theorem bind_ne_panic {α β : Type} {x : Out α} {f : α → Out β} (hx : ∀ s, x ≠ .panic s) (hf : ∀ a s, f a ≠ .panic s) :
    ∀ s, x.bind f ≠ .panic s := by
  intro s
  cases x with
  | ok a => exact hf a s
  | err e => simp [Out.bind]
  | panic s' => exact absurd rfl (hx s')

theorem poolsOf_noPanic : ∀ (xs : List Val) (s : String), poolsOf xs ≠ .panic s := by
  intro xs
  induction xs with
  | nil => intro s h; simp [poolsOf] at h
  | cons x r ih =>
    intro s
    simp only [poolsOf]
    exact bind_ne_panic (intoMap_noPanic .null x) (fun m => bind_ne_panic ih (fun ms s h => by simp at h)) s

theorem ipamPools_noPanic (v : Val) (s : String) : ipamPools v ≠ .panic s := by
  cases v <;> simp [ipamPools, poolsOf_noPanic]

theorem depth_seq_mono (x : Val) (r : List Val) : depth (.seq r) ≤ depth (.seq (x :: r)) := by
  simp only [depth_seq, depthL]; omega

/-- values inside the pools of an ipam config: null (a pool written as a list of names), or two levels below the config -/
theorem poolsOf_values : ∀ (xs : List Val) (lefts : List KVs), poolsOf xs = .ok lefts →
    ∀ left ∈ lefts, ∀ kv ∈ left, kv.2 = .null ∨ depth kv.2 + 2 ≤ depth (.seq xs) := by
  intro xs
  induction xs with
  | nil => intro lefts h left hl; simp only [poolsOf, Out.ok.injEq] at h; subst h; cases hl
  | cons x r ih =>
    intro lefts h left hl kv hkv
    simp only [poolsOf] at h
    cases hm : intoMap .null x with
    | ok m =>
      simp only [hm, Out.bind] at h
      cases hms : poolsOf r with
      | ok ms =>
        simp only [hms, Out.ok.injEq] at h
        subst h
        rcases List.mem_cons.mp hl with heq | hin
        · subst heq
          cases x with
          | null => simp only [intoMap, Out.ok.injEq] at hm; subst hm; cases hkv
          | map kvs =>
            simp only [intoMap, Out.ok.injEq] at hm; subst hm
            right
            have h1 := depth_child kvs kv.1 kv.2 (by simpa using hkv)
            have h2 := depthL_ge (.map kvs :: r) (.map kvs) (by simp)
            rw [depth_seq]; omega
          | seq ys =>
            simp only [intoMap] at hm
            rcases listIntoMap_values .null ys [] _ hm kv hkv with h1 | h1
            · exact .inl h1
            · cases h1
          | bool _ => simp [intoMap] at hm
          | int _ => simp [intoMap] at hm
          | float _ => simp [intoMap] at hm
          | str _ => simp [intoMap] at hm
        · rcases ih ms hms left hin kv hkv with h1 | h1
          · exact .inl h1
          · right; have := depth_seq_mono x r; omega
      | err e => simp [hms] at h
      | panic s => simp [hms] at h
    | err e => simp [hm, Out.bind] at h
    | panic s => simp [hm, Out.bind] at h

theorem ipamFold_noPanic (mk : KVs → KVs → TPath → Out KVs) (p : TPath) : ∀ (lefts : List KVs),
    (∀ left ∈ lefts, ∀ a s, mk a left p ≠ .panic s) → ∀ cfgs s, ipamFold mk cfgs lefts p ≠ .panic s := by
  intro lefts
  induction lefts with
  | nil => intro _ cfgs s h; simp [ipamFold] at h
  | cons left rest ih =>
    intro hmk cfgs s
    have hrest : ∀ l ∈ rest, ∀ a s, mk a l p ≠ .panic s := fun l hl => hmk l (by simp [hl])
    simp only [ipamFold]
    cases ipamIndex (subnetOf left) cfgs 0 with
    | none => exact ih hrest _ s
    | some i => exact bind_ne_panic (hmk left (by simp) _) (fun m => ih hrest _) s

theorem bind_ne_panic' {α β : Type} {x : Out α} {f : α → Out β} (hx : ∀ s, x ≠ .panic s)
    (hf : ∀ a, x = .ok a → ∀ s, f a ≠ .panic s) : ∀ s, x.bind f ≠ .panic s := by
  intro s
  cases x with
  | ok a => exact hf a rfl s
  | err e => simp [Out.bind]
  | panic s' => exact absurd rfl (hx s')

theorem toBuild_values (o : Val) (b : KVs) (h : toBuild o = .ok b) : ∀ kv ∈ b, depth kv.2 ≤ depth o := by
  intro kv hkv
  cases o with
  | null => simp only [toBuild, Out.ok.injEq] at h; subst h; cases hkv
  | str t =>
    simp only [toBuild, Out.ok.injEq] at h; subst h
    simp only [List.mem_singleton] at hkv; subst hkv; simp [depth]
  | map kvs =>
    simp only [toBuild, Out.ok.injEq] at h; subst h
    have := depth_child kvs kv.1 kv.2 (by simpa using hkv); omega
  | bool _ => simp [toBuild] at h
  | int _ => simp [toBuild] at h
  | float _ => simp [toBuild] at h
  | seq _ => simp [toBuild] at h

theorem intoMap_values (dflt o : Val) (b : KVs) (hd : depth dflt ≤ 1) (h : intoMap dflt o = .ok b) :
    ∀ kv ∈ b, depth kv.2 ≤ depth o := by
  intro kv hkv
  cases o with
  | null => simp only [intoMap, Out.ok.injEq] at h; subst h; cases hkv
  | map kvs =>
    simp only [intoMap, Out.ok.injEq] at h; subst h
    have := depth_child kvs kv.1 kv.2 (by simpa using hkv); omega
  | seq xs =>
    simp only [intoMap] at h
    rcases listIntoMap_values dflt xs [] b h kv hkv with h1 | h1
    · rw [h1, depth_seq]; omega
    · cases h1
  | bool _ => simp [intoMap] at h
  | int _ => simp [intoMap] at h
  | float _ => simp [intoMap] at h
  | str _ => simp [intoMap] at h

theorem depth_dependsOnDefault : depth dependsOnDefault = 1 := by decide

/-- **fuel sufficiency**: with at least `depth o + 2` fuel (`+ 1` below path length three) `mergeYaml` never runs out of
fuel — and since the round-2 repairs no special merger panics, so it never panics at all -/
theorem mergeYaml_never_panics : ∀ (n : Nat) (e o : Val) (p : TPath), depth o + cst p ≤ n → ∀ s, mergeYaml n e o p ≠ .panic s := by
  intro n
  induction n with
  | zero => intro e o p h; have := cst_pos p; omega
  | succ n ih =>
    intro e o p h s
    have hcp := cst_pos p
    -- recursion into the entries of a mapping that is (part of) the override
    have hkids : ∀ kvs : KVs, depth (Val.map kvs) ≤ depth o → ∀ a s, mergeKVsWith (mergeYaml n) a kvs p ≠ .panic s := by
      intro kvs hd
      apply mergeKVsWith_noPanic
      intro kv hkv e' s'
      apply ih
      have h1 := depth_child kvs kv.1 kv.2 (by simpa using hkv)
      have h2 := cst_next_le p kv.1
      omega
    -- recursion into a converted mapping below a converting rule (path length three)
    have hconv : ∀ (b : KVs) (d : Nat), p.length = 3 → (∀ kv ∈ b, depth kv.2 ≤ d) → d + 1 ≤ n →
        ∀ a s, mergeKVsWith (mergeYaml n) a b p ≠ .panic s := by
      intro b d hl hb hd
      apply mergeKVsWith_noPanic
      intro kv hkv e' s'
      apply ih
      rw [cst_child_of_conv p kv.1 hl]
      have := hb kv hkv; omega
    simp only [mergeYaml, mergeStep]
    cases hr : ruleAt p with
    | none =>
      simp only [defaultStep]
      cases o with
      | null => simp
      | map b =>
        cases e with
        | map a => exact bind_ne_panic (hkids b (Nat.le_refl _) a) (fun m s h => by simp at h) s
        | _ => simp
      | _ => cases e <;> simp
    | some r =>
      cases r with
      | toSeq => simp [specialStep]
      | override => simp [specialStep]
      | extraHosts => simp [specialStep]
      | unknown => simp [specialStep]
      | ulimit =>
        simp only [specialStep]
        cases o with
        | map kvs => exact bind_ne_panic (hkids kvs (Nat.le_refl _) kvs) (fun m s h => by simp at h) s
        | _ => simp
      | logging =>
        simp only [specialStep, loggingStep]
        cases e with
        | null => simp
        | map config =>
          cases o with
          | null => simp
          | map other =>
            simp only
            split
            · exact bind_ne_panic (hkids other (Nat.le_refl _) config) (fun m s h => by simp at h) s
            · simp
          | _ => simp
        | _ => cases o <;> simp
      | build =>
        have hl := ruleAt_conv_length p .build hr rfl
        have hc2 : cst p = 2 := by unfold cst; rw [if_neg (by omega)]
        simp only [specialStep, convMerge]
        refine bind_ne_panic (toBuild_noPanic e) (fun a => bind_ne_panic' (toBuild_noPanic o) (fun b hb => ?_)) s
        exact bind_ne_panic (hconv b (depth o) hl (toBuild_values o b hb) (by omega) a) (fun m s h => by simp at h)
      | dependsOn =>
        have hl := ruleAt_conv_length p .dependsOn hr rfl
        have hc2 : cst p = 2 := by unfold cst; rw [if_neg (by omega)]
        simp only [specialStep, convMerge]
        refine bind_ne_panic (intoMap_noPanic _ e) (fun a => bind_ne_panic' (intoMap_noPanic _ o) (fun b hb => ?_)) s
        exact bind_ne_panic (hconv b (depth o) hl (intoMap_values _ o b (by decide) hb) (by omega) a) (fun m s h => by simp at h)
      | networks =>
        have hl := ruleAt_conv_length p .networks hr rfl
        have hc2 : cst p = 2 := by unfold cst; rw [if_neg (by omega)]
        simp only [specialStep, convMerge]
        refine bind_ne_panic (intoMap_noPanic _ e) (fun a => bind_ne_panic' (intoMap_noPanic _ o) (fun b hb => ?_)) s
        exact bind_ne_panic (hconv b (depth o) hl (intoMap_values _ o b (by decide) hb) (by omega) a) (fun m s h => by simp at h)
      | ipam =>
        simp only [specialStep, ipamStep]
        refine bind_ne_panic (ipamPools_noPanic e) (fun base => bind_ne_panic' (ipamPools_noPanic o) (fun other ho => ?_)) s
        refine bind_ne_panic (ipamFold_noPanic _ p other ?_ base) (fun m s h => by simp at h)
        intro left hleft a
        apply mergeKVsWith_noPanic
        intro kv hkv e' s'
        apply ih
        have h2 := cst_next_le p kv.1
        cases o with
        | seq xs =>
          simp only [ipamPools] at ho
          have hd : 1 ≤ depth (Val.seq xs) := by rw [depth_seq]; omega
          rcases poolsOf_values xs other ho left hleft kv hkv with h1 | h1
          · rw [h1]; simp only [depth]; omega
          · omega
        | null => simp only [ipamPools, Out.ok.injEq] at ho; subst ho; cases hleft
        | bool _ => simp [ipamPools] at ho
        | int _ => simp [ipamPools] at ho
        | float _ => simp [ipamPools] at ho
        | str _ => simp [ipamPools] at ho
        | map _ => simp [ipamPools] at ho

/-! ### more fuel never changes a result -/

def NP {α : Type} (r : Out α) : Prop := ∀ s, r ≠ .panic s

/-- `g` gives the same answer as `f` wherever `f` does not panic -/
def Agree3 (f g : Val → Val → TPath → Out Val) : Prop := ∀ e v q r, f e v q = r → NP r → g e v q = r
def AgreeK (mk mk' : KVs → KVs → TPath → Out KVs) : Prop := ∀ a b p r, mk a b p = r → NP r → mk' a b p = r

theorem np_of_bind {α β : Type} {x : Out α} {f : α → Out β} {r : Out β} (h : x.bind f = r) (hr : NP r) : NP x := by
  intro s hx; subst hx; simp only [Out.bind] at h; exact hr s h.symm

theorem mergeKVsWith_agree {f g : Val → Val → TPath → Out Val} (hfg : Agree3 f g) : AgreeK (mergeKVsWith f) (mergeKVsWith g) := by
  intro a b
  induction b generalizing a with
  | nil => intro p r h _; simpa [mergeKVsWith] using h
  | cons hd tl ih =>
    obtain ⟨k, v⟩ := hd
    intro p r h hr
    simp only [mergeKVsWith] at h ⊢
    cases hl : lookup k a with
    | none => simp only [hl] at h ⊢; exact ih _ p r h hr
    | some e =>
      simp only [hl] at h ⊢
      by_cases hx : hasXPrefix k = true
      · simp only [hx, if_true] at h ⊢; exact ih _ p r h hr
      · simp only [hx, Bool.false_eq_true, if_false] at h ⊢
        cases hf : f e v (next p k) with
        | ok m =>
          rw [hfg _ _ _ _ hf (by intro s h'; cases h')]
          simp only [hf, Out.bind] at h ⊢
          exact ih _ p r h hr
        | err e' =>
          rw [hfg _ _ _ _ hf (by intro s h'; cases h')]
          simpa [hf, Out.bind] using h
        | panic s =>
          simp only [hf, Out.bind] at h
          exact absurd h.symm (hr s)

theorem bind_mk_agree {mk mk' : KVs → KVs → TPath → Out KVs} (hk : AgreeK mk mk') {β : Type} (a b : KVs) (p : TPath)
    (g : KVs → Out β) (r : Out β) (h : (mk a b p).bind g = r) (hr : NP r) : (mk' a b p).bind g = r := by
  rw [hk a b p _ rfl (np_of_bind h hr)]; exact h

theorem ipamFold_agree {mk mk' : KVs → KVs → TPath → Out KVs} (hk : AgreeK mk mk') (p : TPath) :
    ∀ (lefts cfgs : List KVs) (r : Out (List KVs)), ipamFold mk cfgs lefts p = r → NP r → ipamFold mk' cfgs lefts p = r := by
  intro lefts
  induction lefts with
  | nil => intro cfgs r h _; simpa [ipamFold] using h
  | cons left rest ih =>
    intro cfgs r h hr
    simp only [ipamFold] at h ⊢
    cases hi : ipamIndex (subnetOf left) cfgs 0 with
    | none => simp only [hi] at h ⊢; exact ih _ r h hr
    | some i =>
      simp only [hi] at h ⊢
      have hnp := np_of_bind h hr
      rw [hk _ _ _ _ rfl hnp]
      cases hm : mk (cfgs[i]?.getD []) left p with
      | ok m => simp only [hm, Out.bind] at h ⊢; exact ih _ r h hr
      | err e => simpa [hm, Out.bind] using h
      | panic s => exact absurd hm (hnp s)

theorem convMerge_agree {mk mk' : KVs → KVs → TPath → Out KVs} (hk : AgreeK mk mk') (conv : Val → Out KVs) (e o : Val) (p : TPath)
    (r : Out Val) (h : convMerge mk conv e o p = r) (hr : NP r) : convMerge mk' conv e o p = r := by
  simp only [convMerge] at h ⊢
  cases ha : conv e with
  | ok a =>
    simp only [ha, Out.bind] at h ⊢
    cases hb : conv o with
    | ok b => simp only [hb] at h ⊢; exact bind_mk_agree hk a b p _ r h hr
    | err e' => simpa [hb] using h
    | panic s => simpa [hb] using h
  | err e' => simpa [ha, Out.bind] using h
  | panic s => simpa [ha, Out.bind] using h

theorem mergeStep_agree {mk mk' : KVs → KVs → TPath → Out KVs} (hk : AgreeK mk mk') (e o : Val) (p : TPath)
    (r : Out Val) (h : mergeStep mk e o p = r) (hr : NP r) : mergeStep mk' e o p = r := by
  simp only [mergeStep] at h ⊢
  cases hrule : ruleAt p with
  | none =>
    simp only [hrule, defaultStep] at h ⊢
    cases o <;> cases e <;> first | exact h | exact bind_mk_agree hk _ _ p _ r h hr
  | some rule =>
    simp only [hrule] at h ⊢
    cases rule with
    | toSeq => exact h
    | override => exact h
    | extraHosts => exact h
    | unknown => exact h
    | ulimit =>
      simp only [specialStep] at h ⊢
      cases o with
      | map kvs => exact bind_mk_agree hk kvs kvs p _ r h hr
      | _ => exact h
    | dependsOn => exact convMerge_agree hk _ e o p r h hr
    | networks => exact convMerge_agree hk _ e o p r h hr
    | build => exact convMerge_agree hk _ e o p r h hr
    | logging =>
      simp only [specialStep, loggingStep] at h ⊢
      cases e <;> cases o <;> first
        | exact h
        | (simp only at h ⊢
           split at h
           · next hc => rw [if_pos hc]; exact bind_mk_agree hk _ _ p _ r h hr
           · next hc => rw [if_neg hc]; exact h)
    | ipam =>
      simp only [specialStep, ipamStep] at h ⊢
      cases hb : ipamPools e with
      | ok base =>
        simp only [hb, Out.bind] at h ⊢
        cases ho : ipamPools o with
        | ok other =>
          simp only [ho] at h ⊢
          have hnp := np_of_bind h hr
          rw [ipamFold_agree hk p other base _ rfl hnp]; exact h
        | err e' => simpa [ho] using h
        | panic s => simpa [ho] using h
      | err e' => simpa [hb, Out.bind] using h
      | panic s => simpa [hb, Out.bind] using h

/-- **fuel monotonicity**: one more unit of fuel never changes a result that is not the fuel panic -/
theorem mergeYaml_succ_agree : ∀ n : Nat, Agree3 (mergeYaml n) (mergeYaml (n + 1)) := by
  intro n
  induction n with
  | zero => intro e v q r h hr; simp only [mergeYaml] at h; exact absurd h.symm (hr "fuel")
  | succ n ih =>
    intro e v q r h hr
    simp only [mergeYaml] at h ⊢
    exact mergeStep_agree (mergeKVsWith_agree ih) e v q r h hr

theorem mergeYaml_le_agree (n k : Nat) : Agree3 (mergeYaml n) (mergeYaml (n + k)) := by
  induction k with
  | zero => intro e v q r h _; exact h
  | succ k ih =>
    intro e v q r h hr
    exact mergeYaml_succ_agree (n + k) e v q r (ih e v q r h hr) hr

end CV.Merge
