import ComposeVerif.Lemmas.Extends
/-! termination of `applySvc`: the tracker holds distinct keys of a finite universe, so `fuelFor` is enough -/
namespace CV.Extends
open CV CV.Val

/-- pigeonhole: a duplicate-free list inside `U` is not longer than `U` -/
theorem nodup_length_le {α : Type} [DecidableEq α] :
    ∀ (l U : List α), l.Nodup → (∀ x ∈ l, x ∈ U) → l.length ≤ U.length := by
  intro l
  induction l with
  | nil => intro U _ _; simp
  | cons x l ih =>
    intro U hnd hsub
    have hx : x ∈ U := hsub x (List.mem_cons_self ..)
    have hnd' := List.nodup_cons.mp hnd
    have hl : ∀ y ∈ l, y ∈ U.erase x := by
      intro y hy
      have hne : y ≠ x := fun e => hnd'.1 (e ▸ hy)
      exact (List.mem_erase_of_ne hne).mpr (hsub y (List.mem_cons_of_mem _ hy))
    have := ih (U.erase x) hnd'.2 hl
    rw [List.length_erase_of_mem hx] at this
    have hpos : 0 < U.length := List.length_pos_of_mem hx
    simp only [List.length_cons]
    omega

theorem lookup_mem_keys {k : String} {m : KVs} (h : lookup k m ≠ none) : k ∈ keys m := by
  induction m with
  | nil => simp [Val.lookup] at h
  | cons p r ih =>
    obtain ⟨k', v'⟩ := p
    by_cases hk : k = k'
    · simp [keys, hk]
    · simp only [Val.lookup, hk, ↓reduceIte] at h
      have := ih h
      simp only [keys, List.map_cons, List.mem_cons] at this ⊢
      exact Or.inr this

theorem fsLookup_mem {f : String} {fs : FS} {r : FileRes} (h : fsLookup f fs = some r) : (f, r) ∈ fs := by
  induction fs with
  | nil => simp [fsLookup] at h
  | cons p rest ih =>
    obtain ⟨k, r'⟩ := p
    by_cases hk : f = k
    · simp only [fsLookup, hk, ↓reduceIte, Option.some.injEq] at h
      subst h; subst hk; exact List.mem_cons_self ..
    · simp only [fsLookup, hk, ↓reduceIte] at h
      exact List.mem_cons_of_mem _ (ih h)

/-- every service name of the mapping is a known name -/
def KeysSub (E : Env) (S0 cur : KVs) : Prop := ∀ k, lookup k cur ≠ none → k ∈ allNames E S0

theorem KeysSub.self (E : Env) (S0 : KVs) : KeysSub E S0 S0 := by
  intro k hk
  simp only [allNames, List.mem_append]
  exact Or.inl (lookup_mem_keys hk)

theorem KeysSub.insert {E : Env} {S0 cur : KVs} (h : KeysSub E S0 cur) {n : String} (hn : n ∈ allNames E S0) (v : Val) :
    KeysSub E S0 (Val.insert n v cur) := by
  intro k hk
  by_cases e : k = n
  · subst e; exact hn
  · rw [lookup_insert_ne _ _ e] at hk; exact h k hk

theorem fileServices_inv {fs : FS} {f : String} {S : KVs} (h : fileServices fs f = some S) :
    ∃ doc, fsLookup f fs = some (.ok doc false) ∧ lookup "services" doc = some (.map S) := by
  unfold fileServices at h
  split at h <;> try cases h
  rename_i doc hd
  split at h <;> try cases h
  rename_i svcs hs
  exact ⟨doc, hd, hs⟩

theorem fileServices_keysSub {E : Env} {S0 S : KVs} {f : String} (h : fileServices E.fs f = some S) :
    KeysSub E S0 S ∧ f ∈ allFiles E := by
  obtain ⟨doc, hd, hs⟩ := fileServices_inv h
  have hm := fsLookup_mem hd
  constructor
  · intro k hk
    simp only [allNames, List.mem_append, List.mem_flatMap]
    refine Or.inr ⟨(f, .ok doc false), hm, ?_⟩
    simp only [fileNames, hs]
    exact lookup_mem_keys hk
  · simp only [allFiles, List.mem_cons, List.mem_map]
    exact Or.inr ⟨(f, .ok doc false), hm, rfl⟩

theorem mem_keyUniverse {E : Env} {S0 : KVs} {f n : String} (hf : f ∈ allFiles E) (hn : n ∈ allNames E S0) :
    (f, n) ∈ keyUniverse E S0 := by
  simp only [keyUniverse, List.mem_flatMap, List.mem_map]
  exact ⟨f, hf, n, hn, rfl⟩

/-- the environment does not itself produce the model's out-of-fuel marker -/
def FuelFree (E : Env) : Prop :=
  (∀ b s, E.extend b s ≠ .panic fuelMark) ∧ (∀ f s, fsPanics E.fs f s → s ≠ fuelMark)

theorem baseFromFile_panic {fs : FS} {f ref s : String} (h : baseFromFile fs f ref = .panic s) :
    fsPanics fs f s := by
  unfold baseFromFile at h
  split at h
  · cases h
  · cases h
  · rename_i s' hl
    injection h with h; subst h
    exact ⟨_, hl, rfl⟩
  · split at h <;> try cases h
    split at h <;> try cases h
    split at h <;> cases h
  · rename_i doc site hl
    split at h <;> try cases h
    split at h <;> try cases h
    exact ⟨_, hl, rfl⟩

theorem trackerAdd_some {tr tr' : List Key} {k : Key} (h : trackerAdd tr k = some tr') :
    k ∉ tr ∧ tr' = tr ++ [k] := by
  unfold trackerAdd at h
  split at h
  · cases h
  · rename_i hk; injection h with h; exact ⟨hk, h.symm⟩

theorem parseExtends_panic {e : Val} {s : String} (h : parseExtends e = .panic s) : s = panicSite := by
  unfold parseExtends at h
  split at h <;> try cases h
  split at h
  · split at h <;> cases h
  · cases h

theorem resolveBase_panic {E : Env} {cur name ref : String} {file : Option String} {S : KVs} {s : String}
    (h : resolveBase E cur name ref file S = .panic s) : ∃ f, fsPanics E.fs f s := by
  unfold resolveBase at h
  cases file with
  | none => simp only at h; split at h <;> cases h
  | some f =>
    simp only at h
    split at h <;> try cases h
    rename_i hb
    exact ⟨f, baseFromFile_panic hb⟩

/-- one unfolding of `applySvc` on a panicking run -/
theorem applySvc_panic_cases {E : Env} {fuel : Nat} {cf n : String} {cur : KVs} {tr : List Key} {s : String}
    (h : applySvc E (fuel + 1) cf n cur tr = .panic s) :
    s = panicSite ∨
    (∃ svc e ref file, lookup n cur = some (.map svc) ∧ lookup "extends" svc = some e ∧
      parseExtends e = .ok (ref, file) ∧
      (resolveBase E cf n ref file cur = .panic s ∨
       ∃ svcs key same tr', resolveBase E cf n ref file cur = .ok (svcs, key, same) ∧ trackerAdd tr key = some tr' ∧
         (applySvc E fuel (nextFile cf file) ref svcs tr' = .panic s ∨ (∃ b, E.extend b svc = .panic s) ∨ s = panicSite))) := by
  simp only [applySvc] at h
  split at h <;> try cases h
  rename_i svc hsvc
  split at h <;> try cases h
  rename_i e he
  split at h
  · rename_i s' hp
    injection h with h; subst h
    exact Or.inl (parseExtends_panic hp)
  · cases h
  · rename_i ref file hp
    refine Or.inr ⟨svc, e, ref, file, hsvc, he, hp, ?_⟩
    split at h
    · rename_i s' hr; injection h with h; subst h; exact Or.inl hr
    · cases h
    · rename_i svcs key same hr
      refine Or.inr ⟨svcs, key, same, ?_⟩
      split at h <;> try cases h
      rename_i tr' ht
      refine ⟨tr', hr, ht, ?_⟩
      split at h
      · rename_i s' hrec; injection h with h; subst h; exact Or.inl hrec
      · cases h
      · rename_i base svcs' hrec
        split at h
        · cases h
        · rename_i b
          split at h
          · rename_i s' hx; injection h with h; subst h; exact Or.inr (Or.inl ⟨b, hx⟩)
          · cases h
          · cases h
        · injection h with h; exact Or.inr (Or.inr h.symm)

theorem panicSite_ne_fuelMark : panicSite ≠ fuelMark := by decide

/-- the key recorded for a step lies in the universe, the mapping recursed into has known names, and the
file the recursion continues in is a known file -/
theorem resolveBase_key {E : Env} {S0 cur svcs : KVs} {cf n ref : String} {file : Option String} {key : Key} {same : Bool}
    (hcf : cf ∈ allFiles E) (hk : KeysSub E S0 cur) (hn : lookup n cur ≠ none)
    (h : resolveBase E cf n ref file cur = .ok (svcs, key, same)) :
    key ∈ keyUniverse E S0 ∧ KeysSub E S0 svcs ∧ nextFile cf file ∈ allFiles E := by
  obtain ⟨_, _, hc⟩ := resolveBase_ok h
  rcases hc with ⟨_, hS, hf, hkey⟩ | ⟨_, f, hf, hfs, hkey⟩
  · subst hkey; subst hS; subst hf
    exact ⟨mem_keyUniverse hcf (hk n hn), hk, hcf⟩
  · subst hkey; subst hf
    obtain ⟨a, b⟩ := fileServices_keysSub (S0 := S0) hfs
    exact ⟨mem_keyUniverse hcf (hk n hn), a, b⟩

theorem applySvc_no_fuel (E : Env) (hE : FuelFree E) (S0 : KVs) :
    ∀ (fuel : Nat) (cf n : String) (cur : KVs) (tr : List Key),
      cf ∈ allFiles E → KeysSub E S0 cur → tr.Nodup → (∀ k ∈ tr, k ∈ keyUniverse E S0) →
      (keyUniverse E S0).length + 1 ≤ fuel + tr.length →
      applySvc E fuel cf n cur tr ≠ .panic fuelMark ∧
      ∀ v cur', applySvc E fuel cf n cur tr = .ok (v, cur') → KeysSub E S0 cur' := by
  intro fuel
  induction fuel with
  | zero =>
    intro cf n cur tr _ _ hnd hsub hlen
    have := nodup_length_le tr _ hnd hsub
    omega
  | succ fuel ih =>
    intro cf n cur tr hcf hk hnd hsub hlen
    -- facts about the recursive call, shared by both halves
    have hrec : ∀ svc e ref file svcs key same tr', lookup n cur = some (.map svc) →
        lookup "extends" svc = some e → parseExtends e = .ok (ref, file) →
        resolveBase E cf n ref file cur = .ok (svcs, key, same) → trackerAdd tr key = some tr' →
        applySvc E fuel (nextFile cf file) ref svcs tr' ≠ .panic fuelMark ∧
        (∀ v cur', applySvc E fuel (nextFile cf file) ref svcs tr' = .ok (v, cur') → KeysSub E S0 cur') := by
      intro svc e ref file svcs key same tr' h1 _ _ h4 h5
      have hn : lookup n cur ≠ none := by rw [h1]; simp
      obtain ⟨hkey, hks, hnf⟩ := resolveBase_key hcf hk hn h4
      obtain ⟨hnotin, htr'⟩ := trackerAdd_some h5
      subst htr'
      refine ih (nextFile cf file) ref svcs (tr ++ [key]) hnf hks ?_ ?_ ?_
      · rw [List.nodup_append]
        refine ⟨hnd, by simp, ?_⟩
        intro a ha b hb
        simp only [List.mem_singleton] at hb
        subst hb
        exact fun e => hnotin (e ▸ ha)
      · intro k hkm
        rcases List.mem_append.mp hkm with h | h
        · exact hsub k h
        · simp only [List.mem_singleton] at h; subst h; exact hkey
      · simp only [List.length_append, List.length_singleton]; omega
    constructor
    · intro hp
      rcases applySvc_panic_cases hp with h | ⟨svc, e, ref, file, h1, h2, h3, h4⟩
      · exact panicSite_ne_fuelMark h.symm
      · rcases h4 with h4 | ⟨svcs, key, same, tr', h4, h5, h6⟩
        · obtain ⟨f, hf⟩ := resolveBase_panic h4
          exact hE.2 f _ hf rfl
        · rcases h6 with h6 | ⟨b, h6⟩ | h6
          · exact (hrec svc e ref file svcs key same tr' h1 h2 h3 h4 h5).1 h6
          · exact hE.1 b svc h6
          · exact panicSite_ne_fuelMark h6.symm
    · intro v cur' hok
      rcases applySvc_ok_cases hok with ⟨_, _, h3⟩ | ⟨_, _, h3⟩ | ⟨svc, _, _, _, h4⟩ |
        ⟨svc, e, ref, file, svcs, key, same, tr', base, svcs', h1, h2, h3, h4, h5, h6, h7⟩
      · subst h3; exact hk
      · subst h3; exact hk
      · subst h4; exact hk
      · have hks' := (hrec svc e ref file svcs key same tr' h1 h2 h3 h4 h5).2 base svcs' h6
        have hn : n ∈ allNames E S0 := hk n (by rw [h1]; simp)
        rcases h7 with ⟨_, _, hc⟩ | ⟨b, m, _, _, _, hc⟩
        · subst hc; cases same <;> simp <;> assumption
        · subst hc
          cases same
          · simpa using hk
          · simpa using hks'.insert hn _

theorem applyAll_no_fuel (E : Env) (hE : FuelFree E) (S0 : KVs) :
    ∀ (names : List String) (cur : KVs), KeysSub E S0 cur → (∀ n ∈ names, n ∈ allNames E S0) →
      applyAll E (fuelFor E S0) names cur ≠ .panic fuelMark := by
  intro names
  induction names with
  | nil => intro cur _ _; simp [applyAll]
  | cons n ns ih =>
    intro cur hk hn
    obtain ⟨h1, h2⟩ := applySvc_no_fuel E hE S0 (fuelFor E S0) E.mainFile n cur [] (by simp [allFiles]) hk List.nodup_nil
      (fun k hk' => by cases hk') (by simp [fuelFor])
    simp only [applyAll]
    split
    · rename_i v S' hs
      exact ih _ ((h2 v S' hs).insert (hn n (List.mem_cons_self ..)) v)
        (fun m hm => hn m (List.mem_cons_of_mem _ hm))
    · simp
    · rename_i s hs
      intro h
      injection h with h
      subst h
      exact h1 hs

/-! ## where a panic can come from -/

theorem parseExtends_no_panic (e : Val) (s : String) : parseExtends e ≠ .panic s := by
  unfold parseExtends
  intro h
  split at h <;> try cases h
  split at h
  · split at h <;> cases h
  · cases h

/-- a successful `applySvc` returns `null` or a mapping -/
theorem applySvc_ok_shape {E : Env} : ∀ {fuel : Nat} {cf n : String} {cur : KVs} {tr : List Key} {v : Val} {cur' : KVs},
    applySvc E fuel cf n cur tr = .ok (v, cur') → v = .null ∨ ∃ m, v = .map m := by
  intro fuel
  cases fuel with
  | zero => intro cf n cur tr v cur' h; simp [applySvc] at h
  | succ fuel =>
    intro cf n cur tr v cur' h
    rcases applySvc_ok_cases h with ⟨_, h2, _⟩ | ⟨_, h2, _⟩ | ⟨svc, _, _, h3, _⟩ |
      ⟨svc, e, ref, file, svcs, key, same, tr', base, svcs', _, _, _, _, _, _, h7⟩
    · exact Or.inl h2
    · exact Or.inl h2
    · exact Or.inr ⟨svc, h3⟩
    · rcases h7 with ⟨_, hv, _⟩ | ⟨b, m, _, _, hv, _⟩
      · exact Or.inr ⟨svc, hv⟩
      · exact Or.inr ⟨_, hv⟩

/-- a panic of `applySvc` is the out-of-fuel marker, a panic of the merge step, or a panic while loading a file -/
theorem applySvc_panic_src (E : Env) : ∀ (fuel : Nat) (cf n : String) (cur : KVs) (tr : List Key) (s : String),
    applySvc E fuel cf n cur tr = .panic s →
    s = fuelMark ∨ (∃ b svc, E.extend b svc = .panic s) ∨ (∃ f, fsPanics E.fs f s) := by
  intro fuel
  induction fuel with
  | zero => intro cf n cur tr s h; simp only [applySvc, Out.panic.injEq] at h; exact Or.inl h.symm
  | succ fuel ih =>
    intro cf n cur tr s h
    simp only [applySvc] at h
    split at h <;> try cases h
    rename_i svc hsvc
    split at h <;> try cases h
    rename_i e he
    split at h
    · rename_i s' hp; exact absurd hp (parseExtends_no_panic e s')
    · cases h
    · rename_i ref file hp
      split at h
      · rename_i s' hr
        injection h with h; subst h
        exact Or.inr (Or.inr (resolveBase_panic hr))
      · cases h
      · rename_i svcs key same hr
        split at h <;> try cases h
        rename_i tr' ht
        split at h
        · rename_i s' hrec; injection h with h; subst h; exact ih _ _ _ _ _ hrec
        · cases h
        · rename_i base svcs' hrec
          split at h
          · cases h
          · rename_i b
            split at h
            · rename_i s' hx; injection h with h; subst h; exact Or.inr (Or.inl ⟨b, svc, hx⟩)
            · cases h
            · cases h
          · rename_i hnn hnm
            rcases applySvc_ok_shape hrec with hb | ⟨m, hb⟩
            · exact absurd hb (by intro e; subst e; exact hnn rfl)
            · subst hb; exact absurd rfl (hnm m)

theorem applyAll_panic_src (E : Env) (fuel : Nat) : ∀ (names : List String) (cur : KVs) (s : String),
    applyAll E fuel names cur = .panic s →
    s = fuelMark ∨ (∃ b svc, E.extend b svc = .panic s) ∨ (∃ f, fsPanics E.fs f s) := by
  intro names
  induction names with
  | nil => intro cur s h; simp [applyAll] at h
  | cons n ns ih =>
    intro cur s h
    simp only [applyAll] at h
    split at h
    · exact ih _ _ h
    · cases h
    · rename_i s' hs; injection h with h; subst h; exact applySvc_panic_src E fuel _ _ _ _ _ hs

end CV.Extends
