import ComposeVerif.Lemmas.Cycle
import ComposeVerif.Lemmas.Consistency
/-! `newGraph` builds the dependency graph of the project. -/
namespace CV.Consistency

/-- what `newGraph` needs to succeed: every dependency is an enabled service or optional -/
def DepsBuildable (p : Proj) : Prop :=
  ∀ e ∈ p.services, ∀ d ∈ e.2.dependsOn, d.1 ∈ p.enabled ∨ d.2 = false

def edgeList (verts : List String) (deps : List (String × Bool)) : List String :=
  (deps.map Prod.fst).filter (verts.contains ·)

/-- the class `newGraph` reports for a required dependency that is not an enabled service -/
def missingClass (disabled : List String) (dep : String) : Err :=
  if disabled.contains dep then .requiredDisabled else .unknownService

theorem edgesOf_ok (verts disabled : List String) :
    ∀ (deps : List (String × Bool)), (∀ d ∈ deps, d.1 ∈ verts ∨ d.2 = false) →
      edgesOf verts disabled deps = .ok (edgeList verts deps)
  | [], _ => rfl
  | (dep, req) :: rest, h1 => by
    have ih := edgesOf_ok verts disabled rest (fun d hd => h1 d (List.mem_cons_of_mem _ hd))
    unfold edgesOf
    by_cases hv : dep ∈ verts
    · have hc : verts.contains dep = true := List.contains_iff_mem.mpr hv
      simp [hc, hv, ih, edgeList]
    · have hc : verts.contains dep = false := by
        cases h : verts.contains dep
        · rfl
        · exact absurd (List.contains_iff_mem.mp h) hv
      have hreq : req = false := by
        rcases h1 (dep, req) (List.mem_cons_self ..) with h | h
        · exact absurd h hv
        · exact h
      simp [hc, hv, hreq, ih, edgeList]

/-- the inner loop fails iff some *required* dependency is not an enabled service; the class it reports is the
class of such a dependency -/
theorem edgesOf_error (verts disabled : List String) :
    ∀ (deps : List (String × Bool)) (e : Err), edgesOf verts disabled deps = .error e →
      ∃ d ∈ deps, d.1 ∉ verts ∧ d.2 = true ∧ e = missingClass disabled d.1
  | [], e, h => by simp [edgesOf] at h
  | (dep, req) :: rest, e, h => by
    unfold edgesOf at h
    by_cases hv : verts.contains dep = true
    · simp only [hv, if_true] at h
      cases hr : edgesOf verts disabled rest with
      | ok es => rw [hr] at h; cases h
      | error e' =>
        rw [hr] at h; cases h
        obtain ⟨d, hd, hp⟩ := edgesOf_error verts disabled rest e hr
        exact ⟨d, List.mem_cons_of_mem _ hd, hp⟩
    · simp only [hv, Bool.false_eq_true, if_false] at h
      have hdv : dep ∉ verts := fun hh => hv (List.contains_iff_mem.mpr hh)
      cases req with
      | true =>
        simp only [if_true, Except.error.injEq] at h
        exact ⟨(dep, true), List.mem_cons_self .., hdv, rfl, h.symm⟩
      | false =>
        simp only [Bool.false_eq_true, if_false] at h
        obtain ⟨d, hd, hp⟩ := edgesOf_error verts disabled rest e h
        exact ⟨d, List.mem_cons_of_mem _ hd, hp⟩

theorem edgesOf_error_of_mem (verts disabled : List String) :
    ∀ (deps : List (String × Bool)) (d : String × Bool), d ∈ deps → d.1 ∉ verts → d.2 = true →
      ∃ e, edgesOf verts disabled deps = .error e
  | [], d, hd, _, _ => by cases hd
  | (dep, req) :: rest, d, hd, hv, hr => by
    unfold edgesOf
    by_cases hc : verts.contains dep = true
    · simp only [hc, if_true]
      rcases List.mem_cons.mp hd with rfl | hd'
      · exact absurd (List.contains_iff_mem.mp hc) hv
      · obtain ⟨e, he⟩ := edgesOf_error_of_mem verts disabled rest d hd' hv hr
        exact ⟨e, by rw [he]⟩
    · simp only [hc, Bool.false_eq_true, if_false]
      cases req with
      | true => exact ⟨_, rfl⟩
      | false =>
        simp only [Bool.false_eq_true, if_false]
        rcases List.mem_cons.mp hd with rfl | hd'
        · cases hr
        · exact edgesOf_error_of_mem verts disabled rest d hd' hv hr

theorem buildGraph_ok (verts disabled : List String) :
    ∀ (l : List (String × Svc)), (∀ e ∈ l, ∀ d ∈ e.2.dependsOn, d.1 ∈ verts ∨ d.2 = false) →
      buildGraph verts disabled l = .ok (l.map fun e => (e.1, edgeList verts e.2.dependsOn))
  | [], _ => rfl
  | (n, s) :: r, h1 => by
    have e1 := edgesOf_ok verts disabled s.dependsOn (h1 (n, s) (List.mem_cons_self ..))
    have e2 := buildGraph_ok verts disabled r (fun e he => h1 e (List.mem_cons_of_mem _ he))
    simp only [buildGraph, e1, e2, List.map_cons]

theorem buildGraph_error (verts disabled : List String) :
    ∀ (l : List (String × Svc)) (e : Err), buildGraph verts disabled l = .error e →
      ∃ x ∈ l, ∃ d ∈ x.2.dependsOn, d.1 ∉ verts ∧ d.2 = true ∧ e = missingClass disabled d.1
  | [], e, h => by simp [buildGraph] at h
  | (n, s) :: r, e, h => by
    unfold buildGraph at h
    cases he : edgesOf verts disabled s.dependsOn with
    | error e' =>
      rw [he] at h; cases h
      obtain ⟨d, hd, hp⟩ := edgesOf_error verts disabled s.dependsOn e he
      exact ⟨(n, s), List.mem_cons_self .., d, hd, hp⟩
    | ok es =>
      rw [he] at h
      cases hr : buildGraph verts disabled r with
      | ok g => rw [hr] at h; cases h
      | error e' =>
        rw [hr] at h; cases h
        obtain ⟨x, hx, hp⟩ := buildGraph_error verts disabled r e hr
        exact ⟨x, List.mem_cons_of_mem _ hx, hp⟩

theorem buildGraph_error_of_mem (verts disabled : List String) :
    ∀ (l : List (String × Svc)) (x : String × Svc), x ∈ l → ∀ d ∈ x.2.dependsOn, d.1 ∉ verts → d.2 = true →
      ∃ e, buildGraph verts disabled l = .error e
  | [], x, hx, _, _, _, _ => by cases hx
  | (n, s) :: r, x, hx, d, hd, hv, hr => by
    unfold buildGraph
    cases he : edgesOf verts disabled s.dependsOn with
    | error e' => exact ⟨e', rfl⟩
    | ok es =>
      simp only
      rcases List.mem_cons.mp hx with rfl | hx'
      · obtain ⟨e', he'⟩ := edgesOf_error_of_mem verts disabled _ d hd hv hr
        rw [he] at he'; cases he'
      · obtain ⟨e', he'⟩ := buildGraph_error_of_mem verts disabled r x hx' d hd hv hr
        exact ⟨e', by rw [he']⟩

theorem exactGraph_eq (p : Proj) : exactGraph p = p.services.map fun e => (e.1, edgeList p.enabled e.2.dependsOn) := rfl

/-- `newGraph` builds exactly the dependency graph over the enabled services (every iteration order: the result
lists the services in the order they were ranged, with the same edge sets) -/
theorem newGraph_eq_exact (p : Proj) (hb : DepsBuildable p) : newGraph p = .ok (exactGraph p) := by
  unfold newGraph
  rw [exactGraph_eq]
  exact buildGraph_ok p.enabled p.disabled p.services hb

/-! ## the exact graph *is* the dependency relation -/

theorem lookup_map_of_mem {β γ : Type} (f : β → γ) :
    ∀ (l : List (String × β)) (a : String) (b : β), (l.map Prod.fst).Nodup → (a, b) ∈ l →
      (l.map fun e => (e.1, f e.2)).lookup a = some (f b)
  | [], _, _, _, h => by cases h
  | (k, v) :: r, a, b, hn, h => by
    simp only [List.map_cons, List.nodup_cons] at hn
    simp only [List.map_cons, List.lookup_cons]
    rcases List.mem_cons.mp h with h | h
    · cases h; simp
    · have hne : (a == k) = false := by
        have : a ≠ k := fun hak => hn.1 (hak ▸ List.mem_map.mpr ⟨(a, b), h, rfl⟩)
        simpa using this
      simp only [hne]
      exact lookup_map_of_mem f r a b hn.2 h

theorem lookup_map_some {β γ : Type} (f : β → γ) :
    ∀ (l : List (String × β)) (a : String) (c : γ), (l.map fun e => (e.1, f e.2)).lookup a = some c →
      ∃ b, (a, b) ∈ l ∧ c = f b
  | [], _, _, h => by simp at h
  | (k, v) :: r, a, c, h => by
    simp only [List.map_cons, List.lookup_cons] at h
    by_cases hak : (a == k) = true
    · simp only [hak] at h
      have : a = k := by simpa using hak
      exact ⟨v, by simp [this], by simpa using h.symm⟩
    · simp only [hak] at h
      obtain ⟨b, hb, hc⟩ := lookup_map_some f r a c h
      exact ⟨b, List.mem_cons_of_mem _ hb, hc⟩

theorem mem_edgeList {verts : List String} {deps : List (String × Bool)} {b : String} :
    b ∈ edgeList verts deps ↔ b ∈ verts ∧ ∃ r, (b, r) ∈ deps := by
  simp [edgeList, and_comm]

theorem exactGraph_E_iff (p : Proj) (hn : p.enabled.Nodup) (a b : String) :
    (exactGraph p).E a b ↔ DepRel p a b := by
  unfold Graph.E Graph.children DepRel
  rw [exactGraph_eq]
  constructor
  · intro h
    cases hl : (p.services.map fun e => (e.1, edgeList p.enabled e.2.dependsOn)).lookup a with
    | none => simp [hl] at h
    | some cs =>
      simp only [hl] at h
      obtain ⟨s, hs, rfl⟩ := lookup_map_some (fun s : Svc => edgeList p.enabled s.dependsOn) p.services a cs hl
      have := mem_edgeList.mp h
      exact ⟨s, hs, this.1, this.2⟩
  · rintro ⟨s, hs, hb, r, hr⟩
    rw [lookup_map_of_mem (fun s : Svc => edgeList p.enabled s.dependsOn) p.services a s hn hs]
    exact mem_edgeList.mpr ⟨hb, r, hr⟩

theorem exactGraph_closed (p : Proj) : (exactGraph p).Closed := by
  intro v c hc
  unfold Graph.children at hc
  rw [exactGraph_eq] at hc ⊢
  cases hl : (p.services.map fun e => (e.1, edgeList p.enabled e.2.dependsOn)).lookup v with
  | none => simp [hl] at hc
  | some cs =>
    simp only [hl] at hc
    obtain ⟨s, -, rfl⟩ := lookup_map_some (fun s : Svc => edgeList p.enabled s.dependsOn) p.services v cs hl
    have := (mem_edgeList.mp hc).1
    simpa [Graph.keys, Proj.enabled, List.map_map] using this

/-- the decision procedure for acyclicity is correct -/
theorem acyclicB_iff (p : Proj) (hn : p.enabled.Nodup) : acyclicB p = true ↔ Acyclic p := by
  unfold acyclicB Acyclic
  have hc := hasCycle_iff (exactGraph p) (exactGraph_closed p)
  have hE := exactGraph_E_iff p hn
  constructor
  · intro h v w
    have : hasCycle (exactGraph p) = true := hc.mpr ⟨v, w.mono fun a b e => (hE a b).mpr e⟩
    simp [this] at h
  · intro h
    cases hh : hasCycle (exactGraph p)
    · rfl
    · obtain ⟨w, hw⟩ := hc.mp hh
      exact absurd (hw.mono fun a b e => (hE a b).mp e) (h w)

end CV.Consistency
