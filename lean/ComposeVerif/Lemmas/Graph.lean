import ComposeVerif.Lemmas.Cycle
import ComposeVerif.Lemmas.Consistency
/-! `newGraph` builds the dependency graph of the project — unless its `delete(s.DependsOn, name)` bites. -/
namespace CV.Consistency

/-- no service both depends on itself and has an optional dependency that is not an enabled service
(the input shape on which `newGraph` removes a self edge depending on the iteration order) -/
def NoAmbiguousSelfDep (p : Proj) : Prop :=
  ∀ e ∈ p.services, (∃ r, (e.1, r) ∈ e.2.dependsOn) → ∀ d ∈ e.2.dependsOn, d.1 ∈ p.enabled ∨ d.2 = true

/-- what `newGraph` needs to succeed: every dependency is an enabled service or optional -/
def DepsBuildable (p : Proj) : Prop :=
  ∀ e ∈ p.services, ∀ d ∈ e.2.dependsOn, d.1 ∈ p.enabled ∨ d.2 = false

def edgeList (verts : List String) (deps : List (String × Bool)) : List String :=
  (deps.map Prod.fst).filter (verts.contains ·)

theorem edgesOf_ok (verts disabled : List String) (n : String) :
    ∀ (deps : List (String × Bool)) (del : Bool),
      (∀ d ∈ deps, d.1 ∈ verts ∨ d.2 = false) →
      ((∀ d ∈ deps, d.1 ≠ n) ∨ (del = false ∧ ∀ d ∈ deps, d.1 ∈ verts)) →
      edgesOf verts disabled n del deps = .ok (edgeList verts deps)
  | [], _, _, _ => rfl
  | (dep, req) :: rest, del, h1, h2 => by
    have h1' : ∀ d ∈ rest, d.1 ∈ verts ∨ d.2 = false := fun d hd => h1 d (List.mem_cons_of_mem _ hd)
    have hskip : (del && dep == n) = false := by
      rcases h2 with h2 | ⟨h2, -⟩
      · have := h2 (dep, req) (List.mem_cons_self ..)
        simp [this]
      · simp [h2]
    unfold edgesOf
    simp only [hskip, Bool.false_eq_true, if_false]
    by_cases hv : dep ∈ verts
    · have hc : verts.contains dep = true := List.contains_iff_mem.mpr hv
      have h2' : (∀ d ∈ rest, d.1 ≠ n) ∨ (del = false ∧ ∀ d ∈ rest, d.1 ∈ verts) := by
        rcases h2 with h2 | ⟨h2, h3⟩
        · exact .inl fun d hd => h2 d (List.mem_cons_of_mem _ hd)
        · exact .inr ⟨h2, fun d hd => h3 d (List.mem_cons_of_mem _ hd)⟩
      rw [edgesOf_ok verts disabled n rest del h1' h2']
      simp [hc, hv, edgeList]
    · have hc : verts.contains dep = false := by
        cases h : verts.contains dep
        · rfl
        · exact absurd (List.contains_iff_mem.mp h) hv
      have hreq : req = false := by
        rcases h1 (dep, req) (List.mem_cons_self ..) with h | h
        · exact absurd h hv
        · exact h
      have h2' : (∀ d ∈ rest, d.1 ≠ n) ∨ (true = false ∧ ∀ d ∈ rest, d.1 ∈ verts) := by
        rcases h2 with h2 | ⟨-, h3⟩
        · exact .inl fun d hd => h2 d (List.mem_cons_of_mem _ hd)
        · exact absurd (h3 (dep, req) (List.mem_cons_self ..)) hv
      simp only [hc, Bool.false_eq_true, if_false, hreq]
      rw [edgesOf_ok verts disabled n rest true h1' h2']
      simp [hc, hv, edgeList]

theorem buildGraph_ok (verts disabled : List String) :
    ∀ (l : List (String × Svc)),
      (∀ e ∈ l, ∀ d ∈ e.2.dependsOn, d.1 ∈ verts ∨ d.2 = false) →
      (∀ e ∈ l, (∃ r, (e.1, r) ∈ e.2.dependsOn) → ∀ d ∈ e.2.dependsOn, d.1 ∈ verts ∨ d.2 = true) →
      buildGraph verts disabled l = .ok (l.map fun e => (e.1, edgeList verts e.2.dependsOn))
  | [], _, _ => rfl
  | (n, s) :: r, h1, h2 => by
    have e1 : edgesOf verts disabled n false s.dependsOn = .ok (edgeList verts s.dependsOn) := by
      apply edgesOf_ok
      · exact h1 (n, s) (List.mem_cons_self ..)
      · by_cases hself : ∃ r, (n, r) ∈ s.dependsOn
        · right
          refine ⟨rfl, fun d hd => ?_⟩
          rcases h2 (n, s) (List.mem_cons_self ..) hself d hd with h | h
          · exact h
          · rcases h1 (n, s) (List.mem_cons_self ..) d hd with h' | h'
            · exact h'
            · rw [h] at h'; cases h'
        · left
          intro d hd hne
          exact hself ⟨d.2, by rw [← hne]; exact hd⟩
    have e2 := buildGraph_ok verts disabled r (fun e he => h1 e (List.mem_cons_of_mem _ he))
      (fun e he => h2 e (List.mem_cons_of_mem _ he))
    simp only [buildGraph, e1, e2, List.map_cons]

theorem exactGraph_eq (p : Proj) : exactGraph p = p.services.map fun e => (e.1, edgeList p.enabled e.2.dependsOn) := rfl

/-- on projects without the ambiguous shape, `newGraph` builds exactly the dependency graph -/
theorem newGraph_eq_exact (p : Proj) (hb : DepsBuildable p) (hn : NoAmbiguousSelfDep p) :
    newGraph p = .ok (exactGraph p) := by
  unfold newGraph
  rw [exactGraph_eq]
  exact buildGraph_ok p.enabled p.disabled p.services hb hn

/-! ## the exact graph *is* the dependency relation -/

theorem lookup_map_of_mem {β γ : Type} (f : β → γ) :
    ∀ (l : List (String × β)) (a : String) (b : β), (l.map Prod.fst).Nodup → (a, b) ∈ l →
      (l.map fun e => (e.1, f e.2)).lookup a = some (f b)
  | [], _, _, _, h => by cases h
  | (k, v) :: r, a, b, hn, h => by
    simp only [List.map_cons, List.nodup_cons] at hn
    simp only [List.map_cons, List.lookup_cons]
    rcases List.mem_cons.mp h with h | h
    · cases h; simp
    · have hne : (a == k) = false := by
        have : a ≠ k := fun hak => hn.1 (hak ▸ List.mem_map.mpr ⟨(a, b), h, rfl⟩)
        simpa using this
      simp only [hne]
      exact lookup_map_of_mem f r a b hn.2 h

theorem lookup_map_some {β γ : Type} (f : β → γ) :
    ∀ (l : List (String × β)) (a : String) (c : γ), (l.map fun e => (e.1, f e.2)).lookup a = some c →
      ∃ b, (a, b) ∈ l ∧ c = f b
  | [], _, _, h => by simp at h
  | (k, v) :: r, a, c, h => by
    simp only [List.map_cons, List.lookup_cons] at h
    by_cases hak : (a == k) = true
    · simp only [hak] at h
      have : a = k := by simpa using hak
      exact ⟨v, by simp [this], by simpa using h.symm⟩
    · simp only [hak] at h
      obtain ⟨b, hb, hc⟩ := lookup_map_some f r a c h
      exact ⟨b, List.mem_cons_of_mem _ hb, hc⟩

theorem mem_edgeList {verts : List String} {deps : List (String × Bool)} {b : String} :
    b ∈ edgeList verts deps ↔ b ∈ verts ∧ ∃ r, (b, r) ∈ deps := by
  simp [edgeList, and_comm]

theorem exactGraph_E_iff (p : Proj) (hn : p.enabled.Nodup) (a b : String) :
    (exactGraph p).E a b ↔ DepRel p a b := by
  unfold Graph.E Graph.children DepRel
  rw [exactGraph_eq]
  constructor
  · intro h
    cases hl : (p.services.map fun e => (e.1, edgeList p.enabled e.2.dependsOn)).lookup a with
    | none => simp [hl] at h
    | some cs =>
      simp only [hl] at h
      obtain ⟨s, hs, rfl⟩ := lookup_map_some (fun s : Svc => edgeList p.enabled s.dependsOn) p.services a cs hl
      have := mem_edgeList.mp h
      exact ⟨s, hs, this.1, this.2⟩
  · rintro ⟨s, hs, hb, r, hr⟩
    rw [lookup_map_of_mem (fun s : Svc => edgeList p.enabled s.dependsOn) p.services a s hn hs]
    exact mem_edgeList.mpr ⟨hb, r, hr⟩

theorem exactGraph_closed (p : Proj) : (exactGraph p).Closed := by
  intro v c hc
  unfold Graph.children at hc
  rw [exactGraph_eq] at hc ⊢
  cases hl : (p.services.map fun e => (e.1, edgeList p.enabled e.2.dependsOn)).lookup v with
  | none => simp [hl] at hc
  | some cs =>
    simp only [hl] at hc
    obtain ⟨s, -, rfl⟩ := lookup_map_some (fun s : Svc => edgeList p.enabled s.dependsOn) p.services v cs hl
    have := (mem_edgeList.mp hc).1
    simpa [Graph.keys, Proj.enabled, List.map_map] using this

/-- the decision procedure for acyclicity is correct -/
theorem acyclicB_iff (p : Proj) (hn : p.enabled.Nodup) : acyclicB p = true ↔ Acyclic p := by
  unfold acyclicB Acyclic
  have hc := hasCycle_iff (exactGraph p) (exactGraph_closed p)
  have hE := exactGraph_E_iff p hn
  constructor
  · intro h v w
    have : hasCycle (exactGraph p) = true := hc.mpr ⟨v, w.mono fun a b e => (hE a b).mpr e⟩
    simp [this] at h
  · intro h
    cases hh : hasCycle (exactGraph p)
    · rfl
    · obtain ⟨w, hw⟩ := hc.mp hh
      exact absurd (hw.mono fun a b e => (hE a b).mp e) (h w)

end CV.Consistency
