import ComposeVerif.Model.C02ExtendsX
import ComposeVerif.Lemmas.MapOrder
namespace CV.Det.ExtX
open CV CV.Det

variable {β : Type}

/-- a main-file entry with its cross-file reference resolved up front (a failing one becomes a reference to the
service `bad`, which does not exist) -/
def pre (mrg : β → β → β) (files : AL (AL (XSvc β))) (bad : String) : XS β → XSvc β
  | (.none, b) => (none, b)
  | (.same r, b) => (some r, b)
  | (.file f r, b) =>
    match fileBase mrg files f r with
    | some base => (none, mrg base b)
    | none => (some bad, b)

def preMap (mrg : β → β → β) (files : AL (AL (XSvc β))) (bad : String) (m : AL (XS β)) : AL (XSvc β) :=
  m.map (fun kv => (kv.1, pre mrg files bad kv.2))

theorem find_preMap (mrg : β → β → β) (files : AL (AL (XSvc β))) (bad : String) (m : AL (XS β)) (k : String) :
    find k (preMap mrg files bad m) = (find k m).map (pre mrg files bad) :=
  find_map_entries (fun _ e => pre mrg files bad e) m k

theorem put_map {α γ : Type} (f : α → γ) (k : String) (v : α) (m : AL α) :
    (put k v m).map (fun kv => (kv.1, f kv.2)) = put k (f v) (m.map (fun kv => (kv.1, f kv.2))) := by
  induction m with
  | nil => rfl
  | cons hd tl ih =>
    obtain ⟨k', v'⟩ := hd
    simp only [put, List.map_cons]
    by_cases e : k = k'
    · simp only [e, if_true, List.map_cons]
    · simp only [e, if_false, List.map_cons, ih]

theorem put_preMap (mrg : β → β → β) (files : AL (AL (XSvc β))) (bad : String) (k : String) (e : XS β) (m : AL (XS β)) :
    preMap mrg files bad (put k e m) = put k (pre mrg files bad e) (preMap mrg files bad m) :=
  put_map (pre mrg files bad) k e m

/-- the simulation relation between a run on the main map and the plain same-file run on the pre-resolved map -/
def Sim (mrg : β → β → β) (files : AL (AL (XSvc β))) (bad : String) :
    Option (AL (XS β) × β) → Option (AL (XSvc β) × β) → Prop
  | none, none => True
  | some (m', r), some (m'', r') => r = r' ∧ m'' = preMap mrg files bad m' ∧ find bad m' = none
  | _, _ => False

theorem applyOneX_sim (mrg : β → β → β) (files : AL (AL (XSvc β))) (bad : String) :
    ∀ (n : Nat) (m : AL (XS β)) (name : String), find bad m = none →
      Sim mrg files bad (applyOneX mrg files n m name) (applyOne mrg n (preMap mrg files bad m) name) := by
  intro n
  induction n with
  | zero => intro m name _; simp only [applyOneX, applyOne, Sim]
  | succ n ih =>
    intro m name hb
    simp only [applyOneX, applyOne, find_preMap]
    cases hf : find name m with
    | none => simp only [Option.map_none, Sim]
    | some e =>
      obtain ⟨r, b⟩ := e
      have hne : name ≠ bad := by intro e; rw [e, hb] at hf; cases hf
      cases r with
      | none => simp only [Option.map_some, pre, Sim]; exact ⟨trivial, trivial, hb⟩
      | same ref =>
        simp only [Option.map_some, pre]
        have h := ih m ref hb
        cases hx : applyOneX mrg files n m ref with
        | none =>
          cases hp : applyOne mrg n (preMap mrg files bad m) ref with
          | none => simp only [Sim]
          | some q => rw [hx, hp] at h; exact h.elim
        | some q =>
          obtain ⟨m1, base⟩ := q
          cases hp : applyOne mrg n (preMap mrg files bad m) ref with
          | none => rw [hx, hp] at h; exact h.elim
          | some q' =>
            obtain ⟨m1', base'⟩ := q'
            rw [hx, hp] at h
            obtain ⟨h1, h2, h3⟩ := h
            subst h1; subst h2
            simp only [Sim]
            refine ⟨trivial, ?_, ?_⟩
            · rw [put_preMap]; rfl
            · rw [find_put_ne (Ne.symm hne)]; exact h3
      | file f ref =>
        simp only [Option.map_some, pre]
        cases hfb : fileBase mrg files f ref with
        | some base => simp only [Sim]; exact ⟨trivial, trivial, hb⟩
        | none =>
          simp only []
          cases n with
          | zero => simp only [applyOne, Sim]
          | succ k =>
            simp only [applyOne, find_preMap, hb, Option.map_none, Sim]

theorem applyAllX_sim (mrg : β → β → β) (files : AL (AL (XSvc β))) (bad : String) (n : Nat) :
    ∀ (order : List String) (m : AL (XS β)), find bad m = none →
      (applyAllX mrg files n order m).map (preMap mrg files bad) = applyAll mrg n order (preMap mrg files bad m) := by
  intro order
  induction order with
  | nil => intro m _; rfl
  | cons name r ih =>
    intro m hb
    simp only [applyAllX, applyAll]
    have h := applyOneX_sim mrg files bad n m name hb
    cases hx : applyOneX mrg files n m name with
    | none =>
      cases hp : applyOne mrg n (preMap mrg files bad m) name with
      | none => rfl
      | some q => rw [hx, hp] at h; exact h.elim
    | some q =>
      obtain ⟨m1, b⟩ := q
      cases hp : applyOne mrg n (preMap mrg files bad m) name with
      | none => rw [hx, hp] at h; exact h.elim
      | some q' =>
        obtain ⟨m1', b'⟩ := q'
        rw [hx, hp] at h
        obtain ⟨h1, h2, h3⟩ := h
        subst h1; subst h2
        simp only []
        have hne : name ≠ bad := by
          intro e
          cases n with
          | zero => simp only [applyOneX] at hx; cases hx
          | succ k =>
            simp only [applyOneX] at hx
            rw [e, hb] at hx; cases hx
        have := ih (put name (.none, b) m1) (by rw [find_put_ne (Ne.symm hne)]; exact h3)
        rw [this, put_preMap]; rfl

/-! resolved entries stay resolved -/

def Tagged (m : AL (XS β)) (x : String) : Prop := ∃ b, find x m = some (.none, b)

theorem tagged_put (m : AL (XS β)) (name x : String) (b : β) (h : Tagged m x ∨ x = name) : Tagged (put name (.none, b) m) x := by
  by_cases e : x = name
  · subst e; exact ⟨b, find_put_self _ _ _⟩
  · rcases h with ⟨b', hb'⟩ | h
    · exact ⟨b', by rw [find_put_ne e]; exact hb'⟩
    · exact (e h).elim

theorem applyOneX_tagged (mrg : β → β → β) (files : AL (AL (XSvc β))) :
    ∀ (n : Nat) (m m' : AL (XS β)) (name : String) (r : β), applyOneX mrg files n m name = some (m', r) →
      ∀ x, Tagged m x → Tagged m' x := by
  intro n
  induction n with
  | zero => intro m m' name r h; simp only [applyOneX] at h; cases h
  | succ n ih =>
    intro m m' name r h x hx
    simp only [applyOneX] at h
    cases hf : find name m with
    | none => rw [hf] at h; cases h
    | some e =>
      obtain ⟨rf, b⟩ := e
      rw [hf] at h
      cases rf with
      | none => simp only [Option.some.injEq, Prod.mk.injEq] at h; rw [← h.1]; exact hx
      | same ref =>
        simp only [] at h
        cases hr : applyOneX mrg files n m ref with
        | none => rw [hr] at h; cases h
        | some q =>
          obtain ⟨m1, base⟩ := q
          rw [hr] at h
          simp only [Option.some.injEq, Prod.mk.injEq] at h
          rw [← h.1]
          exact tagged_put _ _ _ _ (.inl (ih m m1 ref base hr x hx))
      | file f ref =>
        simp only [] at h
        cases hfb : fileBase mrg files f ref with
        | none => rw [hfb] at h; cases h
        | some base =>
          rw [hfb] at h
          simp only [Option.some.injEq, Prod.mk.injEq] at h
          rw [← h.1]; exact hx

theorem applyAllX_tagged (mrg : β → β → β) (files : AL (AL (XSvc β))) (n : Nat) :
    ∀ (order : List String) (m mf : AL (XS β)), applyAllX mrg files n order m = some mf →
      ∀ x, (Tagged m x ∨ x ∈ order) → Tagged mf x := by
  intro order
  induction order with
  | nil => intro m mf h x hx; simp only [applyAllX, Option.some.injEq] at h; subst h; rcases hx with h | h; exact h; cases h
  | cons name r ih =>
    intro m mf h x hx
    simp only [applyAllX] at h
    cases h1 : applyOneX mrg files n m name with
    | none => rw [h1] at h; cases h
    | some q =>
      obtain ⟨m1, b⟩ := q
      rw [h1] at h
      apply ih _ _ h x
      rcases hx with hx | hx
      · exact .inl (tagged_put _ _ _ _ (.inl (applyOneX_tagged mrg files n m m1 name b h1 x hx)))
      · rcases List.mem_cons.mp hx with e | e
        · exact .inl (tagged_put _ _ _ _ (.inr e))
        · exact .inr e

end CV.Det.ExtX
