import ComposeVerif.Lemmas.C02StagePaths
import ComposeVerif.Lemmas.C02StageInterpWF
/-! `paths.ResolveRelativePaths` (all seven resolvers) keeps the keys of every mapping distinct (round 6) -/
namespace CV.Det.Stage
open CV CV.Deep CV.Paths
open CV.Val (lookup insert keys KVs)

theorem out_map_ok {α β : Type} {f : α → β} {x : Paths.Out α} {b : β} (h : x.map f = .ok b) : ∃ a, x = .ok a ∧ b = f a := by
  cases x <;> simp only [Paths.Out.map] at h
  · cases h; exact ⟨_, rfl, rfl⟩
  · cases h
  · cases h

theorem absPath_wf_aux (cfg : Cfg) {v : Val} (wv : WF v) :
    (∀ r, absPath cfg v = .ok r → WF r) ∧
    (∀ xs, v = .seq xs → ∀ rs, absPathList cfg xs = .ok rs → WF (.seq rs)) := by
  induction wv with
  | null => exact ⟨fun r h => (by simp only [absPath] at h; cases h), fun _ h => (by cases h)⟩
  | bool b => exact ⟨fun r h => (by simp only [absPath] at h; cases h), fun _ h => (by cases h)⟩
  | int i => exact ⟨fun r h => (by simp only [absPath] at h; cases h), fun _ h => (by cases h)⟩
  | float s => exact ⟨fun r h => (by simp only [absPath] at h; cases h), fun _ h => (by cases h)⟩
  | str s => exact ⟨fun r h => by simp only [absPath] at h; cases h; exact .str _, fun _ h => by cases h⟩
  | seqNil =>
    refine ⟨fun r h => ?_, fun xs e rs h => ?_⟩
    · simp only [absPath, absPathList, Paths.Out.map] at h; cases h; exact .seqNil
    · cases e; simp only [absPathList] at h; cases h; exact .seqNil
  | @seqCons x xs wx wxs ih1 ih2 =>
    have key : ∀ rs, absPathList cfg (x :: xs) = .ok rs → WF (.seq rs) := by
      intro rs h
      rw [absPathList] at h
      cases hx : absPath cfg x with
      | ok z =>
        rw [hx] at h
        simp only [] at h
        obtain ⟨zs, hzs, e⟩ := out_map_ok h
        subst e
        exact .seqCons (ih1.1 _ hx) (ih2.2 xs rfl zs hzs)
      | err e => rw [hx] at h; cases h
      | panic e => rw [hx] at h; cases h
    refine ⟨fun r h => ?_, fun xs' e rs h => by cases e; exact key rs h⟩
    simp only [absPath] at h
    obtain ⟨rs, hrs, e⟩ := out_map_ok h
    subst e
    exact key rs hrs
  | @map a hn hall ih => exact ⟨fun r h => (by simp only [absPath] at h; cases h), fun _ h => (by cases h)⟩

theorem absPath_wf (cfg : Cfg) {v r : Val} (wv : WF v) (h : absPath cfg v = .ok r) : WF r := (absPath_wf_aux cfg wv).1 r h

theorem maybeUnixPath_wf (cfg : Cfg) {v r : Val} (h : maybeUnixPath cfg v = .ok r) : WF r := by
  cases v <;> simp only [maybeUnixPath] at h <;> try cases h
  obtain ⟨_, _, e⟩ := out_map_ok h
  subst e; exact .str _

theorem applyResolver_wf (cfg : Cfg) (hname : String) {v r : Val} (wv : WF v) (h : applyResolver cfg hname v = .ok r) : WF r := by
  unfold applyResolver at h
  split at h
  · exact absPath_wf cfg wv h
  split at h
  · cases v <;> simp only [absContextPath, okStr] at h <;> cases h; exact .str _
  split at h
  · cases v <;> simp only [absExtendsPath, okStr] at h <;> cases h; exact .str _
  split at h
  · unfold absSymbolicLink at h
    split at h
    · split at h
      · simp only [okStr] at h; cases h; exact .str _
      · cases h
    · exact absPath_wf cfg wv h
  split at h
  · cases v with
    | map kvs =>
      have wk := WF.map_iff.mp wv
      simp only [absVolumeMount] at h
      split at h
      · split at h
        · cases h
        · obtain ⟨_, _, e⟩ := out_map_ok h
          subst e; exact WF.map_iff.mpr (MWF.insert wk _ (.str _))
        · cases h
      · cases h; exact wv
    | _ => simp only [absVolumeMount] at h; cases h; exact wv
  split at h
  · exact maybeUnixPath_wf cfg h
  split at h
  · cases v with
    | null => simp only [volumeDriverOpts] at h; cases h; exact .null
    | map kvs =>
      have wk := WF.map_iff.mp wv
      simp only [volumeDriverOpts] at h
      split at h
      · split at h
        · cases h; exact wv
        · cases h; exact wv
        · rename_i opts ho
          split at h
          · obtain ⟨d, hd, e⟩ := out_map_ok h
            subst e
            have wo : MWF opts := WF.map_iff.mp (wk.2 _ _ ho)
            exact WF.map_iff.mpr (MWF.insert wk _ (WF.map_iff.mpr (MWF.insert wo _ (maybeUnixPath_wf cfg hd))))
          · cases h; exact wv
        · cases h
      · cases h; exact wv
    | _ => simp only [volumeDriverOpts] at h; cases h
  · cases h

theorem walk_wf_aux (t : Table) (cfg : Cfg) {v : Val} (wv : WF v) :
    (∀ p r, walk t cfg p v = .ok r → WF r) ∧
    (∀ xs, v = .seq xs → ∀ p rs, walkSeq t cfg p xs = .ok rs → WF (.seq rs)) := by
  have leafCase : ∀ (u : Val), WF u → (∀ p, TPath.firstMatch t p = none → walk t cfg p u = .ok u) →
      (∀ p hn, TPath.firstMatch t p = some hn → walk t cfg p u = applyResolver cfg hn u) →
      ∀ p r, walk t cfg p u = .ok r → WF r := by
    intro u wu hleaf hres p r h
    cases hm : TPath.firstMatch t p with
    | some hn => rw [hres p hn hm] at h; exact applyResolver_wf cfg hn wu h
    | none => rw [hleaf p hm] at h; cases h; exact wu
  induction wv with
  | null => exact ⟨leafCase _ .null (fun p hm => by simp only [walk, hm]) (fun p hn hm => by simp only [walk, hm]), fun _ h => (by cases h)⟩
  | bool b => exact ⟨leafCase _ (.bool b) (fun p hm => by simp only [walk, hm]) (fun p hn hm => by simp only [walk, hm]), fun _ h => (by cases h)⟩
  | int i => exact ⟨leafCase _ (.int i) (fun p hm => by simp only [walk, hm]) (fun p hn hm => by simp only [walk, hm]), fun _ h => (by cases h)⟩
  | float s => exact ⟨leafCase _ (.float s) (fun p hm => by simp only [walk, hm]) (fun p hn hm => by simp only [walk, hm]), fun _ h => (by cases h)⟩
  | str s => exact ⟨leafCase _ (.str s) (fun p hm => by simp only [walk, hm]) (fun p hn hm => by simp only [walk, hm]), fun _ h => (by cases h)⟩
  | seqNil =>
    refine ⟨fun p r h => ?_, fun xs e p rs h => ?_⟩
    · cases hm : TPath.firstMatch t p with
      | some hn => simp only [walk, hm] at h; exact applyResolver_wf cfg hn .seqNil h
      | none => simp only [walk, hm, walkSeq, Paths.Out.map] at h; cases h; exact .seqNil
    · cases e; simp only [walkSeq] at h; cases h; exact .seqNil
  | @seqCons x xs wx wxs ih1 ih2 =>
    have key : ∀ p rs, walkSeq t cfg p (x :: xs) = .ok rs → WF (.seq rs) := by
      intro p rs h
      rw [walkSeq] at h
      cases hx : walk t cfg (TPath.next p "[]") x with
      | ok z =>
        rw [hx] at h
        simp only [] at h
        obtain ⟨zs, hzs, e⟩ := out_map_ok h
        subst e
        exact .seqCons (ih1.1 _ _ hx) (ih2.2 xs rfl p zs hzs)
      | err e => rw [hx] at h; cases h
      | panic e => rw [hx] at h; cases h
    refine ⟨fun p r h => ?_, fun xs' e p rs h => by cases e; exact key p rs h⟩
    cases hm : TPath.firstMatch t p with
    | some hn => simp only [walk, hm] at h; exact applyResolver_wf cfg hn (.seqCons wx wxs) h
    | none =>
      simp only [walk, hm] at h
      obtain ⟨rs, hrs, e⟩ := out_map_ok h
      subst e
      exact key p rs hrs
  | @map a hn hall ih =>
    refine ⟨fun p r h => ?_, fun _ e => by cases e⟩
    cases hm : TPath.firstMatch t p with
    | some hd => simp only [walk, hm] at h; exact applyResolver_wf cfg hd (.map hn hall) h
    | none =>
      simp only [walk, hm] at h
      obtain ⟨m, hk, e⟩ := out_map_ok h
      subst e
      have ht : travOpt (fun k v => optP (walk t cfg (TPath.next p k) v)) a = some m := by
        rw [← walkKVs_trav, hk]; rfl
      refine WF.map_iff.mpr (travOpt_mwf _ ⟨hn, hall⟩ ht ?_)
      intro k x z hx hz
      cases hi : walk t cfg (TPath.next p k) x with
      | ok z' => rw [hi] at hz; simp only [optP, Option.some.injEq] at hz; subst hz; exact (ih k x hx).1 _ _ hi
      | err e => rw [hi] at hz; cases hz
      | panic e => rw [hi] at hz; cases hz

/-- **`ResolveRelativePaths` keeps the keys of every mapping distinct** -/
theorem walk_wf (t : Table) (cfg : Cfg) (p : TPath) {v r : Val} (wv : WF v) (h : walk t cfg p v = .ok r) : WF r :=
  (walk_wf_aux t cfg wv).1 p r h

end CV.Det.Stage
