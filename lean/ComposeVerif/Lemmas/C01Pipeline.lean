import ComposeVerif.Model.Interp
import ComposeVerif.Model.ShortTransform
import ComposeVerif.Model.C11Defaults
import ComposeVerif.Model.Validate
import ComposeVerif.Props.C07
/-!
Helper lemmas for `Props/C01Pipeline.lean`: "no panic outcome" facts about stage models that belong to other
properties (C08 `Interp.interp`, C03 `Short.transform`, C11 `setDefaults`, C10 `Validate.validate`) and whose owners
state other things about them.  Nothing here changes those models; the proofs only read their definitions.
-/
namespace CV.C01.Pipeline
open CV

/-! ## interpolation (Model/Interp.lean): a panic could only come from `template.Substitute`, which has none (C07) -/

theorem interp_leaf_never_panics (c : Interp.Cfg) (p : TPath) (s : String) (site : String) :
    Interp.leaf c p s ≠ .panic site := by
  unfold Interp.leaf
  split
  · rename_i h; exact absurd h (CV.Template.subst_never_panics _ _ _)
  · rename_i h; exact absurd h (CV.Template.subst_never_panics _ _ _)
  · intro h; cases h
  · intro h; cases h
  · split
    · intro h; cases h
    · split <;> (intro h; cases h)

mutual
theorem interp_never_panics (c : Interp.Cfg) : ∀ (v : Val) (p : TPath) (site : String), Interp.interp c p v ≠ .panic site
  | .str s, p, site => by unfold Interp.interp; exact interp_leaf_never_panics c p s site
  | .map kvs, p, site => by
    unfold Interp.interp
    have := interpKVs_never_panics c kvs p
    cases h : Interp.interpKVs c p kvs with
    | ok r => intro e; cases e
    | err e => intro e; cases e
    | panic s => exact absurd h (this s)
  | .seq xs, p, site => by
    unfold Interp.interp
    have := interpList_never_panics c xs p
    cases h : Interp.interpList c p xs with
    | ok r => intro e; cases e
    | err e => intro e; cases e
    | panic s => exact absurd h (this s)
  | .null, p, site => by unfold Interp.interp; intro e; cases e
  | .bool _, p, site => by unfold Interp.interp; intro e; cases e
  | .int _, p, site => by unfold Interp.interp; intro e; cases e
  | .float _, p, site => by unfold Interp.interp; intro e; cases e
theorem interpKVs_never_panics (c : Interp.Cfg) : ∀ (kvs : List (String × Val)) (p : TPath) (site : String),
    Interp.interpKVs c p kvs ≠ .panic site
  | [], p, site => by unfold Interp.interpKVs; intro e; cases e
  | (k, v) :: r, p, site => by
    unfold Interp.interpKVs
    have h1 := interp_never_panics c v (TPath.next p k)
    have h2 := interpKVs_never_panics c r p
    cases hv : Interp.interp c (TPath.next p k) v with
    | ok v' =>
      simp only
      cases hr : Interp.interpKVs c p r with
      | ok r' => intro e; cases e
      | err e => intro e; cases e
      | panic s => exact absurd hr (h2 s)
    | err e => intro e; cases e
    | panic s => exact absurd hv (h1 s)
theorem interpList_never_panics (c : Interp.Cfg) : ∀ (xs : List Val) (p : TPath) (site : String),
    Interp.interpList c p xs ≠ .panic site
  | [], p, site => by unfold Interp.interpList; intro e; cases e
  | v :: r, p, site => by
    unfold Interp.interpList
    have h1 := interp_never_panics c v (TPath.next p "[]")
    have h2 := interpList_never_panics c r p
    cases hv : Interp.interp c (TPath.next p "[]") v with
    | ok v' =>
      simp only
      cases hr : Interp.interpList c p r with
      | ok r' => intro e; cases e
      | err e => intro e; cases e
      | panic s => exact absurd hr (h2 s)
    | err e => intro e; cases e
    | panic s => exact absurd hv (h1 s)
end

/-! ## `transform.SetDefaultValues` (Model/C11Defaults.lean): the four handlers answer ok or err -/

theorem applyHandler_never_panics (h : String) (v : Val) (site : String) : C11.applyHandler h v ≠ .panic site := by
  unfold C11.applyHandler
  repeat' split
  all_goals first
    | (intro e; cases e)
    | (cases v <;> simp [C11.defaultBuildContext, C11.defaultSecretMount, C11.portDefaults, C11.deviceRequestDefaults])

mutual
theorem setDefaults_never_panics (tbl : List (List String × String)) : ∀ (v : Val) (p : TPath) (site : String),
    C11.setDefaults tbl p v ≠ .panic site
  | .map kvs, p, site => by
    unfold C11.setDefaults
    split
    · exact applyHandler_never_panics _ _ _
    · simp only
      have := setDefaultsKVs_never_panics tbl kvs p
      cases h : C11.setDefaultsKVs tbl p kvs with
      | ok r => intro e; cases e
      | err e => intro e; cases e
      | panic s => exact absurd h (this s)
  | .seq xs, p, site => by
    unfold C11.setDefaults
    split
    · exact applyHandler_never_panics _ _ _
    · simp only
      have := setDefaultsList_never_panics tbl xs p
      cases h : C11.setDefaultsList tbl p xs with
      | ok r => intro e; cases e
      | err e => intro e; cases e
      | panic s => exact absurd h (this s)
  | .null, p, site => by unfold C11.setDefaults; split <;> first | exact applyHandler_never_panics _ _ _ | (intro e; cases e)
  | .bool _, p, site => by unfold C11.setDefaults; split <;> first | exact applyHandler_never_panics _ _ _ | (intro e; cases e)
  | .int _, p, site => by unfold C11.setDefaults; split <;> first | exact applyHandler_never_panics _ _ _ | (intro e; cases e)
  | .float _, p, site => by unfold C11.setDefaults; split <;> first | exact applyHandler_never_panics _ _ _ | (intro e; cases e)
  | .str _, p, site => by unfold C11.setDefaults; split <;> first | exact applyHandler_never_panics _ _ _ | (intro e; cases e)
theorem setDefaultsKVs_never_panics (tbl : List (List String × String)) : ∀ (kvs : List (String × Val)) (p : TPath) (site : String),
    C11.setDefaultsKVs tbl p kvs ≠ .panic site
  | [], p, site => by unfold C11.setDefaultsKVs; intro e; cases e
  | (k, v) :: r, p, site => by
    unfold C11.setDefaultsKVs
    have h1 := setDefaults_never_panics tbl v (p.next k)
    have h2 := setDefaultsKVs_never_panics tbl r p
    cases hv : C11.setDefaults tbl (p.next k) v with
    | ok v' =>
      simp only
      cases hr : C11.setDefaultsKVs tbl p r with
      | ok r' => intro e; cases e
      | err e => intro e; cases e
      | panic s => exact absurd hr (h2 s)
    | err e => intro e; cases e
    | panic s => exact absurd hv (h1 s)
theorem setDefaultsList_never_panics (tbl : List (List String × String)) : ∀ (xs : List Val) (p : TPath) (site : String),
    C11.setDefaultsList tbl p xs ≠ .panic site
  | [], p, site => by unfold C11.setDefaultsList; intro e; cases e
  | v :: r, p, site => by
    unfold C11.setDefaultsList
    have h1 := setDefaults_never_panics tbl v (p.next "[]")
    have h2 := setDefaultsList_never_panics tbl r p
    cases hv : C11.setDefaults tbl (p.next "[]") v with
    | ok v' =>
      simp only
      cases hr : C11.setDefaultsList tbl p r with
      | ok r' => intro e; cases e
      | err e => intro e; cases e
      | panic s => exact absurd hr (h2 s)
    | err e => intro e; cases e
    | panic s => exact absurd hv (h1 s)
end

/-! ## `transform.Canonical` (Model/ShortTransform.lean): no panic outcome on any tree (until round 5 the model — and the
code — had one site: `transformKeyValue`'s `e.(string)` on a list with a non-string item; repaired, see findings/C01.txt) -/

/-- "no panic" (the name is historical: it used to say "a panic, if any, is the `e.(string)` of `transformKeyValue`") -/
def OnlyKV {α : Type} (o : Short.Out α) : Prop := ∀ s, o = .panic s → False

theorem onlyKV_ok {α : Type} (a : α) : OnlyKV (Short.Out.ok a) := by intro s h; cases h
theorem onlyKV_err {α : Type} (e : String) : OnlyKV (Short.Out.err e : Short.Out α) := by intro s h; cases h

theorem portEntries_np (ign : Bool) : ∀ (l acc : List Val) (s : String), Short.portEntries ign l acc ≠ some (.panic s)
  | [], acc, s => by simp [Short.portEntries]
  | .int i :: r, acc, s => by
    unfold Short.portEntries
    split
    · simp
    · exact portEntries_np ign r _ s
  | .str t :: r, acc, s => by
    unfold Short.portEntries
    split
    · split <;> simp
    · exact portEntries_np ign r _ s
  | .map m :: r, acc, s => by unfold Short.portEntries; exact portEntries_np ign r _ s
  | .null :: r, acc, s => by simp [Short.portEntries]
  | .bool _ :: r, acc, s => by simp [Short.portEntries]
  | .float _ :: r, acc, s => by simp [Short.portEntries]
  | .seq _ :: r, acc, s => by simp [Short.portEntries]

theorem transformPorts_np (ign : Bool) (v : Val) (s : String) : Short.transformPorts ign v ≠ .panic s := by
  unfold Short.transformPorts
  split
  · split
    · intro h; cases h
    · intro h; cases h
    · intro h; cases h
    · rename_i hp; exact absurd hp (portEntries_np ign _ [] _)
  · intro h; cases h

theorem dependsMap_np : ∀ (m : Val.KVs) (s : String), Short.dependsMap m ≠ .panic s
  | [], s => by simp [Short.dependsMap]
  | (k, .map d) :: r, s => by
    unfold Short.dependsMap
    have := dependsMap_np r
    cases h : Short.dependsMap r with
    | ok r' => intro e; cases e
    | err e => simp
    | panic t => exact absurd h (this t)
  | (k, .null) :: r, s => by simp [Short.dependsMap]
  | (k, .bool _) :: r, s => by simp [Short.dependsMap]
  | (k, .int _) :: r, s => by simp [Short.dependsMap]
  | (k, .float _) :: r, s => by simp [Short.dependsMap]
  | (k, .str _) :: r, s => by simp [Short.dependsMap]
  | (k, .seq _) :: r, s => by simp [Short.dependsMap]

theorem dependsList_np : ∀ (l : List Val) (acc : Val.KVs) (s : String), Short.dependsList l acc ≠ .panic s
  | [], acc, s => by simp [Short.dependsList]
  | .str k :: r, acc, s => by unfold Short.dependsList; exact dependsList_np r _ s
  | .null :: r, acc, s => by simp [Short.dependsList]
  | .bool _ :: r, acc, s => by simp [Short.dependsList]
  | .int _ :: r, acc, s => by simp [Short.dependsList]
  | .float _ :: r, acc, s => by simp [Short.dependsList]
  | .seq _ :: r, acc, s => by simp [Short.dependsList]
  | .map _ :: r, acc, s => by simp [Short.dependsList]

theorem networksList_np : ∀ (l : List Val) (acc : Val.KVs) (s : String), Short.networksList l acc ≠ .panic s
  | [], acc, s => by simp [Short.networksList]
  | .str k :: r, acc, s => by unfold Short.networksList; exact networksList_np r _ s
  | .null :: r, acc, s => by simp [Short.networksList]
  | .bool _ :: r, acc, s => by simp [Short.networksList]
  | .int _ :: r, acc, s => by simp [Short.networksList]
  | .float _ :: r, acc, s => by simp [Short.networksList]
  | .seq _ :: r, acc, s => by simp [Short.networksList]
  | .map _ :: r, acc, s => by simp [Short.networksList]

theorem sshList_np : ∀ (l : List Val) (acc : Val.KVs) (s : String), Short.sshList l acc ≠ .panic s
  | [], acc, s => by simp [Short.sshList]
  | .str k :: r, acc, s => by
    unfold Short.sshList
    split
    · split
      · exact sshList_np r _ s
      · intro h; cases h
    · exact sshList_np r _ s
  | .null :: r, acc, s => by simp [Short.sshList]
  | .bool _ :: r, acc, s => by simp [Short.sshList]
  | .int _ :: r, acc, s => by simp [Short.sshList]
  | .float _ :: r, acc, s => by simp [Short.sshList]
  | .seq _ :: r, acc, s => by simp [Short.sshList]
  | .map _ :: r, acc, s => by simp [Short.sshList]

theorem kvList_onlyKV (ign : Bool) : ∀ (l : List Val) (acc : Val.KVs) (s : String),
    Short.kvList ign l acc = some (.panic s) → False
  | [], acc, s, h => by simp [Short.kvList] at h
  | .str t :: r, acc, s, h => by
    unfold Short.kvList at h
    split at h
    · split at h <;> simp at h
    · exact kvList_onlyKV ign r _ s h
  | .null :: r, acc, s, h => by simp [Short.kvList] at h
  | .bool _ :: r, acc, s, h => by simp [Short.kvList] at h
  | .int _ :: r, acc, s, h => by simp [Short.kvList] at h
  | .float _ :: r, acc, s, h => by simp [Short.kvList] at h
  | .seq _ :: r, acc, s, h => by simp [Short.kvList] at h
  | .map _ :: r, acc, s, h => by simp [Short.kvList] at h

theorem transformKeyValue_onlyKV (ign : Bool) (v : Val) : OnlyKV (Short.transformKeyValue ign v) := by
  intro s h
  unfold Short.transformKeyValue at h
  split at h
  · cases h
  · split at h
    · cases h
    · cases h
    · cases h
    · rename_i hk
      cases h
      exact kvList_onlyKV ign _ [] s hk
  · cases h

theorem onlyKV_of_np {α : Type} {o : Short.Out α} (h : ∀ s, o ≠ .panic s) : OnlyKV o := fun s e => absurd e (h s)

theorem transformStringOrList_np (v : Val) (s : String) : Short.transformStringOrList v ≠ .panic s := by
  cases v <;> simp [Short.transformStringOrList]
theorem transformFileMount_np (v : Val) (s : String) : Short.transformFileMount v ≠ .panic s := by
  cases v <;> simp [Short.transformFileMount]
theorem transformInclude_np (v : Val) (s : String) : Short.transformInclude v ≠ .panic s := by
  cases v <;> simp [Short.transformInclude]
theorem transformUlimits_np (v : Val) (s : String) : Short.transformUlimits v ≠ .panic s := by
  cases v <;> simp [Short.transformUlimits]
theorem transformEnvFile_np (v : Val) (s : String) : Short.transformEnvFile v ≠ .panic s := by
  cases v <;> simp [Short.transformEnvFile]
theorem transformVolumeMount_np (ign : Bool) (v : Val) (s : String) : Short.transformVolumeMount ign v ≠ .panic s := by
  intro h
  unfold Short.transformVolumeMount at h
  repeat' split at h
  all_goals cases h
theorem transformDeviceMapping_np (ign : Bool) (v : Val) (s : String) : Short.transformDeviceMapping ign v ≠ .panic s := by
  intro h
  unfold Short.transformDeviceMapping at h
  repeat' split at h
  all_goals cases h
theorem transformDependsOn_np (v : Val) (s : String) : Short.transformDependsOn v ≠ .panic s := by
  intro h
  unfold Short.transformDependsOn at h
  split at h
  · rename_i m
    have := dependsMap_np m
    cases hm : Short.dependsMap m with
    | ok r => rw [hm] at h; cases h
    | err e => rw [hm] at h; cases h
    | panic t => exact this t hm
  · rename_i l
    have := dependsList_np l []
    cases hm : Short.dependsList l [] with
    | ok r => rw [hm] at h; cases h
    | err e => rw [hm] at h; cases h
    | panic t => exact this t hm
  · cases h
theorem transformServiceNetworks_np (v : Val) (s : String) : Short.transformServiceNetworks v ≠ .panic s := by
  intro h
  unfold Short.transformServiceNetworks at h
  split at h
  · rename_i l
    have := networksList_np l []
    cases hm : Short.networksList l [] with
    | ok r => rw [hm] at h; cases h
    | err e => rw [hm] at h; cases h
    | panic t => exact this t hm
  · cases h
theorem transformSSH_np (v : Val) (s : String) : Short.transformSSH v ≠ .panic s := by
  intro h
  unfold Short.transformSSH at h
  split at h
  · cases h
  · rename_i l
    have := sshList_np l []
    cases hm : Short.sshList l [] with
    | ok r => rw [hm] at h; cases h
    | err e => rw [hm] at h; cases h
    | panic t => exact this t hm
  · cases h

theorem externalFix_np (res : Val.KVs) (s : String) : Short.externalFix res ≠ .panic s := by
  intro h
  unfold Short.externalFix at h
  repeat' split at h
  all_goals cases h

theorem postMap_np (h : Option String) (r : Val.KVs) (s : String) : Short.postMap h r ≠ .panic s := by
  unfold Short.postMap
  split
  · unfold Short.bindOut
    have := externalFix_np r
    cases he : Short.externalFix r with
    | ok a => intro e; cases e
    | err e => intro e; cases e
    | panic t => exact absurd he (this t)
  · intro e; cases e

theorem ite_onlyKV {α : Type} {c : Prop} [Decidable c] {a b : Short.Out α} (ha : OnlyKV a) (hb : OnlyKV b) :
    OnlyKV (if c then a else b) := by
  split
  · exact ha
  · exact hb

theorem leaf_onlyKV (h : Option String) (ign : Bool) (v : Val) : OnlyKV (Short.leaf h ign v) := by
  unfold Short.leaf
  cases h with
  | none => exact onlyKV_ok _
  | some h =>
    simp only
    repeat' apply ite_onlyKV
    all_goals first
      | exact onlyKV_ok _
      | exact onlyKV_err _
      | exact transformKeyValue_onlyKV _ _
      | exact onlyKV_of_np (transformFileMount_np _)
      | exact onlyKV_of_np (transformDependsOn_np _)
      | exact onlyKV_of_np (transformEnvFile_np _)
      | exact onlyKV_of_np (transformServiceNetworks_np _)
      | exact onlyKV_of_np (transformVolumeMount_np _ _)
      | exact onlyKV_of_np (transformStringOrList_np _)
      | exact onlyKV_of_np (transformDeviceMapping_np _ _)
      | exact onlyKV_of_np (transformPorts_np _ _)
      | exact onlyKV_of_np (transformSSH_np _)
      | exact onlyKV_of_np (transformUlimits_np _)
      | exact onlyKV_of_np (transformInclude_np _)
      | (cases v <;> first | exact onlyKV_ok _ | exact onlyKV_err _)

mutual
theorem transform_onlyKV (ign : Bool) : ∀ (v : Val) (p : TPath), OnlyKV (Short.transform ign p v)
  | .map m, p => by
    unfold Short.transform
    split
    · unfold Short.bindOut
      have := transformKVs_onlyKV ign m p
      cases hk : Short.transformKVs ign p m with
      | ok r => exact onlyKV_of_np (postMap_np _ r)
      | err e => exact onlyKV_err _
      | panic t => intro s e; cases e; exact this _ hk
    · exact leaf_onlyKV _ _ _
  | .seq l, p => by
    unfold Short.transform
    split
    · unfold Short.bindOut
      have := transformSeq_onlyKV ign l p
      cases hk : Short.transformSeq ign p l with
      | ok r => exact onlyKV_ok _
      | err e => exact onlyKV_err _
      | panic t => intro s e; cases e; exact this _ hk
    · exact leaf_onlyKV _ _ _
  | .null, p => by unfold Short.transform; exact leaf_onlyKV _ _ _
  | .bool _, p => by unfold Short.transform; exact leaf_onlyKV _ _ _
  | .int _, p => by unfold Short.transform; exact leaf_onlyKV _ _ _
  | .float _, p => by unfold Short.transform; exact leaf_onlyKV _ _ _
  | .str _, p => by unfold Short.transform; exact leaf_onlyKV _ _ _
theorem transformKVs_onlyKV (ign : Bool) : ∀ (m : Val.KVs) (p : TPath), OnlyKV (Short.transformKVs ign p m)
  | [], p => by unfold Short.transformKVs; exact onlyKV_ok _
  | (k, e) :: r, p => by
    unfold Short.transformKVs
    have h1 := transform_onlyKV ign e (TPath.nextK p k)
    have h2 := transformKVs_onlyKV ign r p
    cases ht : Short.transform ign (TPath.nextK p k) e with
    | ok t =>
      simp only
      cases hr : Short.transformKVs ign p r with
      | ok r' => exact onlyKV_ok _
      | err x => exact onlyKV_err _
      | panic x => intro s he; cases he; exact h2 _ hr
    | err x => exact onlyKV_err _
    | panic x => intro s he; cases he; exact h1 _ ht
theorem transformSeq_onlyKV (ign : Bool) : ∀ (l : List Val) (p : TPath), OnlyKV (Short.transformSeq ign p l)
  | [], p => by unfold Short.transformSeq; exact onlyKV_ok _
  | e :: r, p => by
    unfold Short.transformSeq
    have h1 := transform_onlyKV ign e (TPath.nextK p "[]")
    have h2 := transformSeq_onlyKV ign r p
    cases ht : Short.transform ign (TPath.nextK p "[]") e with
    | ok t =>
      simp only
      cases hr : Short.transformSeq ign p r with
      | ok r' => exact onlyKV_ok _
      | err x => exact onlyKV_err _
      | panic x => intro s he; cases he; exact h2 _ hr
    | err x => exact onlyKV_err _
    | panic x => intro s he; cases he; exact h1 _ ht
end

/-! ## `validation.Validate` (Model/Validate.lean): its only panic sites are the three unchecked assertions that
`Props/C01Sites.lean` marks `schema` (each with its `kindsAt` instance) -/

def validateSites : List String :=
  ["validation.init.checkFileObject", "validation.checkPath", "validation.checkDeviceRequest"]

theorem run_panic_site (c : Validate.Checker) (v : Val) (s : String) (h : Validate.run c v = .panic s) :
    s ∈ validateSites := by
  cases c with
  | volume =>
    simp only [Validate.run] at h
    cases v <;> simp [Validate.checkVolume, Validate.checkExternal] at h
    rename_i kvs
    repeat' split at h
    all_goals cases h
  | fileObject keys =>
    simp only [Validate.run] at h
    cases v <;> simp [Validate.checkFileObject] at h
    all_goals first
      | (subst h; simp [validateSites])
      | (repeat' split at h
         all_goals cases h)
  | path =>
    simp only [Validate.run] at h
    cases v <;> simp [Validate.checkPath] at h
    all_goals first
      | (subst h; simp [validateSites])
      | (repeat' split at h
         all_goals cases h)
  | deviceRequest =>
    simp only [Validate.run] at h
    cases v <;> simp [Validate.checkDeviceRequest] at h
    all_goals first
      | (subst h; simp [validateSites])
      | (repeat' split at h
         all_goals cases h)

theorem runL_panic_site (c : Validate.Checker) (v : Val) (s : String) (h : Validate.VOut.panic s ∈ Validate.runL c v) :
    s ∈ validateSites := by
  unfold Validate.runL at h
  split at h
  · cases h
  · rename_i o _
    simp only [List.mem_singleton] at h
    exact run_panic_site c v s h.symm

mutual
theorem failuresAt_panic_site : ∀ (v : Val) (p : TPath) (s : String), Validate.VOut.panic s ∈ Validate.failuresAt p v → s ∈ validateSites
  | .map kvs, p, s, h => by
    unfold Validate.failuresAt at h
    split at h
    · exact runL_panic_site _ _ s h
    · exact failuresKVs_panic_site kvs p s h
  | .seq xs, p, s, h => by
    unfold Validate.failuresAt at h
    split at h
    · exact runL_panic_site _ _ s h
    · exact failuresSeq_panic_site xs p s h
  | .null, p, s, h => by
    unfold Validate.failuresAt at h
    split at h
    · exact runL_panic_site _ _ s h
    · cases h
  | .bool _, p, s, h => by
    unfold Validate.failuresAt at h
    split at h
    · exact runL_panic_site _ _ s h
    · cases h
  | .int _, p, s, h => by
    unfold Validate.failuresAt at h
    split at h
    · exact runL_panic_site _ _ s h
    · cases h
  | .float _, p, s, h => by
    unfold Validate.failuresAt at h
    split at h
    · exact runL_panic_site _ _ s h
    · cases h
  | .str _, p, s, h => by
    unfold Validate.failuresAt at h
    split at h
    · exact runL_panic_site _ _ s h
    · cases h
theorem failuresKVs_panic_site : ∀ (kvs : List (String × Val)) (p : TPath) (s : String),
    Validate.VOut.panic s ∈ Validate.failuresKVs p kvs → s ∈ validateSites
  | [], p, s, h => by simp [Validate.failuresKVs] at h
  | (k, v) :: r, p, s, h => by
    unfold Validate.failuresKVs at h
    rcases List.mem_append.mp h with h | h
    · exact failuresAt_panic_site v _ s h
    · exact failuresKVs_panic_site r p s h
theorem failuresSeq_panic_site : ∀ (xs : List Val) (p : TPath) (s : String),
    Validate.VOut.panic s ∈ Validate.failuresSeq p xs → s ∈ validateSites
  | [], p, s, h => by simp [Validate.failuresSeq] at h
  | v :: r, p, s, h => by
    unfold Validate.failuresSeq at h
    rcases List.mem_append.mp h with h | h
    · exact failuresAt_panic_site v _ s h
    · exact failuresSeq_panic_site r p s h
end

theorem validate_panic_site (t : Val) (s : String) (h : Validate.validate t = .panic s) : s ∈ validateSites := by
  unfold Validate.validate at h
  split at h
  · cases h
  · rename_i o rest hf
    subst h
    apply failuresAt_panic_site t TPath.root s
    unfold Validate.failures at hf
    rw [hf]
    exact List.mem_cons_self ..

end CV.C01.Pipeline
