import ComposeVerif.Model.UnicityLoop
import ComposeVerif.Lemmas.Unicity
/-! The loop of `enforceUnicity` as written (`seq`, `keys : string → position in seq`) refines `foldl insert []`:
representation invariant `Rep` and its preservation by one iteration. -/
namespace CV.Unicity
open CV CV.Val CV.Merge

/-- position of the (first) entry with key `k` -/
def pos (k : String) : KVs → Option Nat
  | [] => none
  | (k', _) :: r => if k = k' then some 0 else (pos k r).map (· + 1)

/-- the loop variables *represent* the association list `acc`: `seq` holds its values in order and `keys` maps every
key to its position in `seq` (and nothing else) -/
def Rep (acc : KVs) (st : LoopSt) : Prop :=
  st.seq = acc.map Prod.snd ∧ ∀ k, idxLookup k st.keys = pos k acc

theorem rep_empty : Rep [] LoopSt.empty := ⟨rfl, fun _ => rfl⟩

theorem pos_lt {k : String} : ∀ {acc : KVs} {j : Nat}, pos k acc = some j → j < acc.length := by
  intro acc
  induction acc with
  | nil => intro j h; simp [pos] at h
  | cons hd tl ih =>
    obtain ⟨k', v'⟩ := hd
    intro j h
    simp only [pos] at h
    by_cases hk : k = k'
    · simp only [hk, if_true, Option.some.injEq] at h; subst h; simp
    · simp only [hk, if_false] at h
      cases hp : pos k tl with
      | none => rw [hp] at h; simp at h
      | some j' =>
        rw [hp] at h
        simp only [Option.map_some, Option.some.injEq] at h
        have := ih hp
        subst h
        simp only [List.length_cons]; omega

theorem map_snd_insert_of_pos {k : String} {v : Val} : ∀ {acc : KVs} {j : Nat}, pos k acc = some j →
    (insert k v acc).map Prod.snd = (acc.map Prod.snd).set j v := by
  intro acc
  induction acc with
  | nil => intro j h; simp [pos] at h
  | cons hd tl ih =>
    obtain ⟨k', v'⟩ := hd
    intro j h
    simp only [pos] at h
    by_cases hk : k = k'
    · simp only [hk, if_true, Option.some.injEq] at h; subst h
      simp [Val.insert, hk]
    · simp only [hk, if_false] at h
      cases hp : pos k tl with
      | none => rw [hp] at h; simp at h
      | some j' =>
        rw [hp] at h
        simp only [Option.map_some, Option.some.injEq] at h
        subst h
        simp only [Val.insert, hk, if_false, List.map_cons, List.set_cons_succ, ih hp]

theorem pos_insert_of_pos {k : String} {v : Val} (k' : String) : ∀ {acc : KVs} {j : Nat}, pos k acc = some j →
    pos k' (insert k v acc) = pos k' acc := by
  intro acc
  induction acc with
  | nil => intro j h; simp [pos] at h
  | cons hd tl ih =>
    obtain ⟨k1, v1⟩ := hd
    intro j h
    simp only [pos] at h
    by_cases hk : k = k1
    · subst hk; simp [Val.insert, pos]
    · simp only [hk, if_false] at h
      cases hp : pos k tl with
      | none => rw [hp] at h; simp at h
      | some j' => simp only [Val.insert, hk, if_false, pos, ih hp]

theorem pos_none_tail {k k' : String} {v' : Val} {tl : KVs} (h : pos k ((k', v') :: tl) = none) : k ≠ k' ∧ pos k tl = none := by
  simp only [pos] at h
  by_cases hk : k = k'
  · simp [hk] at h
  · simp only [hk, if_false, Option.map_eq_none_iff] at h
    exact ⟨hk, h⟩

theorem insert_of_pos_none {k : String} {v : Val} : ∀ {acc : KVs}, pos k acc = none → insert k v acc = acc ++ [(k, v)] := by
  intro acc
  induction acc with
  | nil => intro _; rfl
  | cons hd tl ih =>
    obtain ⟨k', v'⟩ := hd
    intro h
    obtain ⟨hk, ht⟩ := pos_none_tail h
    simp only [Val.insert, hk, if_false, ih ht, List.cons_append]

theorem pos_append_self {k : String} {v : Val} : ∀ {acc : KVs}, pos k acc = none → pos k (acc ++ [(k, v)]) = some acc.length := by
  intro acc
  induction acc with
  | nil => intro _; simp [pos]
  | cons hd tl ih =>
    obtain ⟨k', v'⟩ := hd
    intro h
    obtain ⟨hk, ht⟩ := pos_none_tail h
    simp only [List.cons_append, pos, hk, if_false, ih ht, Option.map_some, List.length_cons]

theorem pos_append_ne {k k' : String} {v : Val} (hne : k' ≠ k) : ∀ (acc : KVs), pos k' (acc ++ [(k, v)]) = pos k' acc := by
  intro acc
  induction acc with
  | nil => simp [pos, hne]
  | cons hd tl ih =>
    obtain ⟨k1, v1⟩ := hd
    simp only [List.cons_append, pos, ih]

theorem pos_some_lookup {k : String} : ∀ {m : KVs} {j : Nat}, pos k m = some j → (m.map Prod.snd)[j]? = lookup k m := by
  intro m
  induction m with
  | nil => intro j h; simp [pos] at h
  | cons hd tl ih =>
    obtain ⟨k', v'⟩ := hd
    intro j h
    simp only [pos] at h
    by_cases hk : k = k'
    · simp only [hk, if_true, Option.some.injEq] at h; subst h
      simp [lookup, hk]
    · simp only [hk, if_false] at h
      cases hp : pos k tl with
      | none => rw [hp] at h; simp at h
      | some j' =>
        rw [hp] at h
        simp only [Option.map_some, Option.some.injEq] at h
        subst h
        simp only [List.map_cons, List.getElem?_cons_succ, lookup, hk, if_false, ih hp]

theorem pos_none_lookup {k : String} : ∀ {m : KVs}, pos k m = none → lookup k m = none := by
  intro m
  induction m with
  | nil => intro _; rfl
  | cons hd tl ih =>
    obtain ⟨k', v'⟩ := hd
    intro h
    obtain ⟨hk, ht⟩ := pos_none_tail h
    simp only [lookup, hk, if_false, ih ht]

/-- one iteration of the loop as written: never out of range, and the state again represents `insert key entry acc` -/
theorem loopStep_rep {acc : KVs} {st : LoopSt} (h : Rep acc st) (i : Nat) (k : String) (x : Val) :
    ∃ st', loopStep .outLen st i k x = some st' ∧ Rep (insert k x acc) st' := by
  obtain ⟨hs, hk⟩ := h
  have hlen : st.seq.length = acc.length := by rw [hs]; simp
  unfold loopStep
  rw [hk k]
  cases hp : pos k acc with
  | none =>
    refine ⟨_, rfl, ?_, ?_⟩
    · simp only [insert_of_pos_none hp, hs, List.map_append, List.map_cons, List.map_nil]
    · intro k'
      simp only [idxLookup, Slot.value, List.length_append, List.length_cons, List.length_nil, hlen]
      rw [insert_of_pos_none hp]
      by_cases hkk : k' = k
      · subst hkk; simp [pos_append_self hp]
      · simp only [hkk, if_false, pos_append_ne hkk, hk k']
  | some j =>
    have hj : j < st.seq.length := by rw [hlen]; exact pos_lt hp
    simp only [hj, if_true]
    refine ⟨_, rfl, ?_, ?_⟩
    · simp only [map_snd_insert_of_pos hp, hs]
    · intro k'
      simp only [pos_insert_of_pos k' hp, hk k']

theorem loopRun_rep : ∀ (l : List (String × Val)) (i : Nat) (acc : KVs) (st : LoopSt), Rep acc st →
    ∃ st', loopRun .outLen l i st = some st' ∧ Rep (l.foldl step acc) st' := by
  intro l
  induction l with
  | nil => intro i acc st h; exact ⟨st, rfl, h⟩
  | cons hd tl ih =>
    obtain ⟨k, x⟩ := hd
    intro i acc st h
    obtain ⟨st1, h1, r1⟩ := loopStep_rep h i k x
    obtain ⟨st2, h2, r2⟩ := ih (i + 1) (insert k x acc) st1 r1
    exact ⟨st2, by simp only [loopRun, h1, h2], by simpa only [List.foldl_cons, step] using r2⟩

/-- the loop with the indexer called inside = index everything first, then fold -/
theorem loopGo_rep (ix : Indexer) : ∀ (xs : List Val) (i : Nat) (acc : KVs) (st : LoopSt), Rep acc st →
    loopGo .outLen ix xs i st =
      (indexAll ix xs).bind fun ks => .ok (((ks.zip xs).foldl step acc).map Prod.snd) := by
  intro xs
  induction xs with
  | nil => intro i acc st h; simp [loopGo, indexAll, Out.bind, h.1]
  | cons x r ih =>
    intro i acc st h
    simp only [loopGo, indexAll]
    cases hx : index ix x with
    | ok key =>
      obtain ⟨st1, h1, r1⟩ := loopStep_rep h i key x
      simp only [h1, Out.bind, ih (i + 1) _ st1 r1]
      cases indexAll ix r with
      | ok ks => simp [step]
      | err e => rfl
      | panic s => rfl
    | err e => rfl
    | panic s => rfl

end CV.Unicity
