import ComposeVerif.Model.Merge
/-! Association-list lemmas and the pointwise law of `mergeMappings` (for an arbitrary recursive merger `f`). -/
namespace CV.Merge
open CV CV.Val

theorem lookup_insert_self (k : String) (v : Val) (m : KVs) : lookup k (insert k v m) = some v := by
  induction m with
  | nil => simp [Val.insert, lookup]
  | cons hd tl ih =>
    obtain ⟨k', v'⟩ := hd
    simp only [Val.insert]; split
    · simp [lookup]
    · simp [lookup, *]

theorem lookup_insert_ne {k k' : String} (h : k ≠ k') (v : Val) (m : KVs) :
    lookup k (insert k' v m) = lookup k m := by
  induction m with
  | nil => simp [Val.insert, lookup, h]
  | cons hd tl ih =>
    obtain ⟨k'', v''⟩ := hd
    simp only [Val.insert]; split
    · next heq => subst heq; simp [lookup, h]
    · simp only [lookup]; split <;> simp_all

theorem lookup_eq_none_iff {k : String} {m : KVs} : lookup k m = none ↔ k ∉ keys m := by
  induction m with
  | nil => simp [lookup, keys]
  | cons hd tl ih =>
    obtain ⟨k', v'⟩ := hd
    simp only [lookup, keys, List.map_cons, List.mem_cons, not_or]
    by_cases h : k = k'
    · simp [h]
    · simp only [h, if_false, not_false_eq_true, true_and]; exact ih

theorem lookup_isSome_iff {k : String} {m : KVs} : (lookup k m).isSome ↔ k ∈ keys m := by
  have := @lookup_eq_none_iff k m
  cases h : lookup k m <;> simp_all

/-- Go `m[k] = v` keeps the key set, adding `k` at the end when it is new -/
theorem keys_insert (k : String) (v : Val) (m : KVs) :
    keys (insert k v m) = if k ∈ keys m then keys m else keys m ++ [k] := by
  induction m with
  | nil => simp [Val.insert, keys]
  | cons hd tl ih =>
    obtain ⟨k', v'⟩ := hd
    simp only [Val.insert]
    by_cases h : k = k'
    · subst h; simp [keys]
    · simp only [h, if_false, keys, List.map_cons, List.mem_cons, false_or] at ih ⊢
      unfold keys at ih
      rw [ih]; split <;> simp

theorem nodup_keys_insert {k : String} {v : Val} {m : KVs} (h : (keys m).Nodup) :
    (keys (insert k v m)).Nodup := by
  rw [keys_insert]; split
  · exact h
  · next hk =>
    rw [List.nodup_append]
    refine ⟨h, by simp, ?_⟩
    intro a ha b hb
    simp only [List.mem_singleton] at hb
    subst hb; intro hab; subst hab; exact hk ha

theorem insert_of_not_mem {k : String} {v : Val} {m : KVs} (h : k ∉ keys m) : insert k v m = m ++ [(k, v)] := by
  induction m with
  | nil => simp [Val.insert]
  | cons hd tl ih =>
    obtain ⟨k', v'⟩ := hd
    simp only [keys, List.map_cons, List.mem_cons, not_or] at h
    simp only [Val.insert, h.1, if_false, List.cons_append]
    rw [ih]; exact h.2

/-- what `mergeMappings` leaves at key `k`, given what the two sides held there (`f` = the recursive merge) -/
def PointwiseAt (f : Val → Val → TPath → Out Val) (p : TPath) (k : String) (la lb lm : Option Val) : Prop :=
  match la, lb with
  | some x, some y => if hasXPrefix k then lm = some y else ∃ z, f x y (next p k) = .ok z ∧ lm = some z
  | some x, none => lm = some x
  | none, some y => lm = some y
  | none, none => lm = none

theorem pointwiseAt_none_right {f : Val → Val → TPath → Out Val} {p : TPath} {k : String} {la lm : Option Val} :
    PointwiseAt f p k la none lm ↔ lm = la := by
  cases la <;> simp [PointwiseAt]

theorem lookup_none_of_nodup_cons {k : String} {v : Val} {r : KVs} (h : (keys ((k, v) :: r)).Nodup) :
    lookup k r = none := by
  simp only [keys, List.map_cons, List.nodup_cons] at h
  exact lookup_eq_none_iff.mpr h.1

/-- **pointwise law of `mergeMappings`**: for an override with distinct keys, the merged mapping holds at every key
exactly the combination of what the two sides held there — whatever order the override is ranged over -/
theorem mergeKVsWith_pointwise (f : Val → Val → TPath → Out Val) (p : TPath) :
    ∀ (b a m : KVs), (keys b).Nodup → mergeKVsWith f a b p = .ok m →
      ∀ k, PointwiseAt f p k (lookup k a) (lookup k b) (lookup k m) := by
  intro b
  induction b with
  | nil =>
    intro a m _ h k
    simp only [mergeKVsWith, Out.ok.injEq] at h
    subst h
    simp only [lookup]
    exact pointwiseAt_none_right.mpr rfl
  | cons hd tl ih =>
    obtain ⟨k', v⟩ := hd
    intro a m hb h k
    have hk'tl : lookup k' tl = none := lookup_none_of_nodup_cons hb
    have hbtl : (keys tl).Nodup := by
      simp only [keys, List.map_cons, List.nodup_cons] at hb; exact hb.2
    simp only [mergeKVsWith] at h
    cases ha : lookup k' a with
    | none =>
      simp only [ha] at h
      have := ih _ _ hbtl h k
      by_cases hk : k = k'
      · subst hk
        rw [lookup_insert_self, hk'tl] at this
        simp only [ha, lookup, if_true]
        simpa [PointwiseAt] using this
      · rw [lookup_insert_ne hk] at this
        simp only [lookup, hk, if_false]; exact this
    | some e =>
      simp only [ha] at h
      by_cases hx : hasXPrefix k' = true
      · simp only [hx, if_true] at h
        have := ih _ _ hbtl h k
        by_cases hk : k = k'
        · subst hk
          rw [lookup_insert_self, hk'tl] at this
          simp only [ha, lookup, if_true]
          simp only [PointwiseAt] at this ⊢
          simp [hx, this]
        · rw [lookup_insert_ne hk] at this
          simp only [lookup, hk, if_false]; exact this
      · simp only [hx, Bool.false_eq_true, if_false] at h
        cases hf : f e v (next p k') with
        | ok z =>
          simp only [hf, Out.bind] at h
          have := ih _ _ hbtl h k
          by_cases hk : k = k'
          · subst hk
            rw [lookup_insert_self, hk'tl] at this
            simp only [ha, lookup, if_true]
            simp only [PointwiseAt] at this ⊢
            simp only [hx, Bool.false_eq_true, if_false]
            exact ⟨z, hf, this⟩
          · rw [lookup_insert_ne hk] at this
            simp only [lookup, hk, if_false]; exact this
        | err e' => simp [hf, Out.bind] at h
        | panic s => simp [hf, Out.bind] at h

/-- lookup in an association list with distinct keys does not depend on the order of the entries -/
theorem lookup_perm {b b' : KVs} (hb : (keys b).Nodup) (hp : b'.Perm b) (k : String) :
    lookup k b' = lookup k b := by
  induction hp with
  | nil => rfl
  | cons x _ ih =>
    obtain ⟨k', v⟩ := x
    simp only [keys, List.map_cons, List.nodup_cons] at hb
    simp only [lookup]; split <;> simp_all [keys]
  | swap x y l =>
    obtain ⟨kx, vx⟩ := x; obtain ⟨ky, vy⟩ := y
    simp only [keys, List.map_cons, List.nodup_cons, List.mem_cons, not_or] at hb
    simp only [lookup]
    by_cases h1 : k = ky <;> by_cases h2 : k = kx <;> simp_all
  | trans h1 h2 ih1 ih2 =>
    have : (keys _).Nodup := (h2.map Prod.fst).nodup_iff.mpr hb
    rw [ih1 this, ih2 hb]

/-- `PointwiseAt` determines the merged value at a key -/
theorem pointwiseAt_unique {f : Val → Val → TPath → Out Val} {p : TPath} {k : String} {la lb lm lm' : Option Val}
    (h : PointwiseAt f p k la lb lm) (h' : PointwiseAt f p k la lb lm') : lm = lm' := by
  cases la <;> cases lb <;> simp only [PointwiseAt] at h h'
  · rw [h, h']
  · rw [h, h']
  · rw [h, h']
  · by_cases hx : hasXPrefix k = true
    · simp only [hx, if_true] at h h'
      rw [h, h']
    · simp only [hx, Bool.false_eq_true, if_false] at h h'
      obtain ⟨z, hz, hm⟩ := h
      obtain ⟨z', hz', hm'⟩ := h'
      rw [hz] at hz'
      cases hz'; rw [hm, hm']

end CV.Merge
