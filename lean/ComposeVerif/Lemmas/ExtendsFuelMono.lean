import ComposeVerif.Model.Extends
/-!
# Fuel is irrelevant once it suffices  (round 6)

`applySvc` recurses on a fuel argument.  Whenever a run does not end in the out-of-fuel marker, every run with
more fuel gives the same outcome — by induction on the fuel, through every branch of `applyServiceExtends`.
Together with `applySvc_no_fuel` (the tracker cuts every chain before `fuelFor` runs out) this removes the fuel
from the statements: `Props/C05Fuel.lean`.
-/
namespace CV.Extends
open CV CV.Val

theorem applySvc_fuel_mono (E : Env) : ∀ (fuel fuel' : Nat) (cf n : String) (cur : KVs) (tr : List Key),
    fuel ≤ fuel' → applySvc E fuel cf n cur tr ≠ .panic fuelMark →
    applySvc E fuel' cf n cur tr = applySvc E fuel cf n cur tr := by
  intro fuel
  induction fuel with
  | zero => intro fuel' cf n cur tr _ h; exact absurd rfl h
  | succ k ih =>
    intro fuel' cf n cur tr hle h
    obtain ⟨k', rfl⟩ : ∃ k', fuel' = k' + 1 := ⟨fuel' - 1, by omega⟩
    have hk : k ≤ k' := by omega
    simp only [applySvc] at h ⊢
    cases h1 : lookup n cur with
    | none => rfl
    | some sv =>
      cases sv with
      | map svc =>
        simp only [h1] at h ⊢
        cases h2 : lookup "extends" svc with
        | none => rfl
        | some e =>
          simp only [h2] at h ⊢
          cases h3 : parseExtends e with
          | panic s => rfl
          | err c => rfl
          | ok rf =>
            obtain ⟨ref, file⟩ := rf
            simp only [h3] at h ⊢
            cases h4 : resolveBase E cf n ref file cur with
            | panic s => rfl
            | err c => rfl
            | ok t =>
              obtain ⟨svcs, key, same⟩ := t
              simp only [h4] at h ⊢
              cases h5 : trackerAdd tr key with
              | none => rfl
              | some tr' =>
                simp only [h5] at h ⊢
                have hin : applySvc E k (nextFile cf file) ref svcs tr' ≠ .panic fuelMark := by
                  intro hp
                  rw [hp] at h
                  exact h rfl
                rw [ih k' _ _ _ _ hk hin]
      | null => rfl
      | bool _ => rfl
      | int _ => rfl
      | float _ => rfl
      | str _ => rfl
      | seq _ => rfl

theorem applyAll_fuel_mono (E : Env) (fuel fuel' : Nat) (hle : fuel ≤ fuel') :
    ∀ (names : List String) (cur : KVs), applyAll E fuel names cur ≠ .panic fuelMark →
      applyAll E fuel' names cur = applyAll E fuel names cur := by
  intro names
  induction names with
  | nil => intro cur _; rfl
  | cons n ns ih =>
    intro cur h
    simp only [applyAll] at h ⊢
    have hin : applySvc E fuel E.mainFile n cur [] ≠ .panic fuelMark := by
      intro hp
      rw [hp] at h
      exact h rfl
    rw [applySvc_fuel_mono E fuel fuel' _ _ _ _ hle hin]
    cases hs : applySvc E fuel E.mainFile n cur [] with
    | ok r =>
      obtain ⟨v, S'⟩ := r
      simp only [hs] at h ⊢
      exact ih _ h
    | err c => rfl
    | panic s => rfl

end CV.Extends
