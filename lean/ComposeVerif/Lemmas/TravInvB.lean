import ComposeVerif.Lemmas.TravInvA
/-!
# Coordination invariant (`InvB`): the coordinator's counter, the lost-wake-up invariants, vertex ranges
-/
set_option linter.unusedSimpArgs false
set_option linter.unusedVariables false
set_option linter.unnecessarySimpa false
namespace CV.Trav

structure GraphOK (g : Graph) : Prop where
  nodup : g.verts.Nodup
  nonempty : g.verts ≠ []
  pre_mem : ∀ v ∈ g.verts, ∀ d ∈ g.pre v, d ∈ g.verts
  post_mem : ∀ v ∈ g.verts, ∀ d ∈ g.post v, d ∈ g.verts
  /-- `post` is the converse of `pre` (children / parents maps of `graph.go`) -/
  pre_post : ∀ v ∈ g.verts, ∀ d ∈ g.pre v, v ∈ g.post d
  /-- acyclic: what `checkCycle` guarantees before `walk` is called -/
  rank : ∃ rk : V → Nat, ∀ v ∈ g.verts, ∀ d ∈ g.pre v, rk d < rk v

/-- `v` is still going to be tried by scheduler `w` in its current loop -/
def pendIn (s : St) (w : Who) (v : V) : Prop :=
  ∃ x, getSched s w = some x ∧ (v ∈ x.todo ∨ x.sub = .ready v ∨ x.sub = .enter v)

def Wake (s : St) (w : Who) (v : V) : Prop := s.status v ≠ .absent ∨ pendIn s w v

def subVerts (g : Graph) (x : Sched) : Prop :=
  (∀ v ∈ x.todo, v ∈ g.verts) ∧ (∀ v, (x.sub = .ready v ∨ x.sub = .enter v ∨ x.sub = .spawn v) → v ∈ g.verts)

structure InvB (g : Graph) (s : St) : Prop where
  recvSub : ∀ v, v ∈ s.ch ∨ v ∈ s.received → v ∈ g.verts
  expectEq : s.cAlive = true → s.expect + s.received.length = g.verts.length ∧ 1 ≤ s.expect
  /-- every vertex whose dependencies have all been *received* is claimed or still on the coordinator's list -/
  wakeC : s.cancelled = false → s.cAlive = true → ∀ v ∈ g.verts, g.pre v ≠ [] →
            (∀ d ∈ g.pre v, d ∈ s.received) → Wake s .C v
  wakeM : ∀ v ∈ g.verts, g.pre v = [] → Wake s .M v
  schedVerts : ∀ w x, getSched s w = some x → subVerts g x
  wkVerts : ∀ v pc, (v, pc) ∈ s.workers → v ∈ g.verts

theorem init_invB (g : Graph) (hg : GraphOK g) : InvB g (init g) := by
  refine ⟨?_, ?_, ?_, ?_, ?_, ?_⟩
  · intro v h; simp [init] at h
  · intro _
    have : g.verts.length ≠ 0 := by
      intro h; exact hg.nonempty (List.eq_nil_of_length_eq_zero h)
    simp only [init, List.length_nil]; omega
  · intro _ _ v hv hp hall
    cases hpv : g.pre v with
    | nil => exact absurd hpv hp
    | cons d r =>
      have := hall d (by rw [hpv]; exact List.mem_cons_self ..)
      simp [init] at this
  · intro v hv hp
    right
    refine ⟨_, rfl, .inl ?_⟩
    simp [List.mem_filter, hv, hp]
  · intro w x h
    cases w with
    | M =>
      simp only [getSched, init, Option.some.injEq] at h
      subst h
      refine ⟨?_, ?_⟩
      · intro v hv; exact (List.mem_filter.mp hv).1
      · intro v hv; simp at hv
    | C => simp [getSched, init] at h
  · intro v pc h; simp [init] at h

theorem wake_mono {s s' : St} {w : Who} {u : V}
    (hst : s.status u ≠ .absent → s'.status u ≠ .absent) (hgs : getSched s' w = getSched s w) :
    Wake s w u → Wake s' w u := by
  rintro (h | ⟨x, hx, h⟩)
  · exact .inl (hst h)
  · exact .inr ⟨x, by rw [hgs]; exact hx, h⟩

theorem setStatus_ne_absent {f : V → Status} {v u : V} {st : Status} (hst : st ≠ .absent)
    (h : f u ≠ .absent) : setStatus f v st u ≠ .absent := by
  unfold setStatus; split <;> assumption

/-- what a step of scheduler `w` does to the vertices pending in `w`'s own loop: nothing is forgotten
except a vertex whose readiness test just failed -/
theorem wake_own {g : Graph} {lim : Option Nat} {s s' : St} {l : Label} (h : Step g lim s l s') (w : Who) (u : V)
    (hfail : ∀ todo, getSched s w = some ⟨todo, .ready u⟩ → ∀ d ∈ g.pre u, s.status d = .visited)
    (hcr : l ≠ .cRecv) (hcd : l ≠ .cCtxDone) :
    Wake s w u → Wake s' w u := by
  intro hW
  -- generic: a step of the other scheduler
  have other : ∀ {w0 : Who} {y : Sched} (x : Option Sched) (s1 : St), getSched s w0 = some y →
      (∀ w', getSched s1 w' = getSched s w') → (s.status u ≠ .absent → s1.status u ≠ .absent) →
      w0 ≠ w → Wake (putSched s1 w0 x) w u := by
    intro w0 y x s1 hs hgs hst hne
    refine wake_mono (s := s) ?_ ?_ hW
    · simpa using hst
    · rw [getSched_put_ne x (Ne.symm hne), hgs]
  cases h with
  | @schedNext w0 todo v hs hv =>
    by_cases e : w0 = w
    · subst e
      rcases hW with h | ⟨x, hx, hp⟩
      · exact .inl (by simpa using h)
      · rw [hs] at hx; cases hx
        right; refine ⟨_, getSched_put_same _ hs, ?_⟩
        simp only at hp ⊢
        rcases hp with hp | hp | hp
        · by_cases e : u = v
          · exact .inr (.inl (by rw [e]))
          · exact .inl ((List.mem_erase_of_ne e).mpr hp)
        · cases hp
        · cases hp
    · exact other _ s hs (fun _ => rfl) id e
  | @schedEnd w0 hs =>
    by_cases e : w0 = w
    · subst e
      rcases hW with h | ⟨x, hx, hp⟩
      · exact .inl (by simpa using h)
      · rw [hs] at hx; cases hx
        simp at hp
    · exact other _ s hs (fun _ => rfl) id e
  | @readyT w0 todo v hs hall =>
    by_cases e : w0 = w
    · subst e
      rcases hW with h | ⟨x, hx, hp⟩
      · exact .inl (by simpa using h)
      · rw [hs] at hx; cases hx
        right; refine ⟨_, getSched_put_same _ hs, ?_⟩
        simp only at hp ⊢
        rcases hp with hp | hp | hp
        · exact .inl hp
        · cases hp; exact .inr (.inr rfl)
        · cases hp
    · exact other _ s hs (fun _ => rfl) id e
  | @readyF w0 todo v hs hnall =>
    by_cases e : w0 = w
    · subst e
      rcases hW with h | ⟨x, hx, hp⟩
      · exact .inl (by simpa using h)
      · rw [hs] at hx; cases hx
        simp only at hp
        rcases hp with hp | hp | hp
        · exact .inr ⟨_, getSched_put_same _ hs, .inl hp⟩
        · cases hp; exact absurd (hfail todo hs) hnall
        · cases hp
    · exact other _ s hs (fun _ => rfl) id e
  | @enterT w0 todo v hs habs =>
    by_cases e : w0 = w
    · subst e
      rcases hW with h | ⟨x, hx, hp⟩
      · exact .inl (by simpa using setStatus_ne_absent (by decide) h)
      · rw [hs] at hx; cases hx
        simp only at hp
        rcases hp with hp | hp | hp
        · have hs1 : getSched ({ s with status := setStatus s.status v .entered } : St) w0 = some ⟨todo, .enter v⟩ :=
            (getSched_congr rfl rfl rfl w0).trans hs
          exact .inr ⟨_, getSched_put_same _ hs1, .inl hp⟩
        · cases hp
        · cases hp; left; simp [setStatus]
    · exact other _ _ hs (getSched_congr rfl rfl rfl) (setStatus_ne_absent (by decide)) e
  | @enterF w0 todo v hs hna =>
    by_cases e : w0 = w
    · subst e
      rcases hW with h | ⟨x, hx, hp⟩
      · exact .inl (by simpa using h)
      · rw [hs] at hx; cases hx
        simp only at hp
        rcases hp with hp | hp | hp
        · exact .inr ⟨_, getSched_put_same _ hs, .inl hp⟩
        · cases hp
        · cases hp; left; simpa using hna
    · exact other _ s hs (fun _ => rfl) id e
  | @spawn w0 todo v hs _ =>
    by_cases e : w0 = w
    · subst e
      rcases hW with h | ⟨x, hx, hp⟩
      · exact .inl (by simpa using h)
      · rw [hs] at hx; cases hx
        simp only at hp
        rcases hp with hp | hp | hp
        · have hs1 : getSched ({ s with workers := (v, .start) :: s.workers } : St) w0 = some ⟨todo, .spawn v⟩ :=
            (getSched_congr rfl rfl rfl w0).trans hs
          exact .inr ⟨_, getSched_put_same _ hs1, .inl hp⟩
        · cases hp
        · cases hp
    · exact other _ _ hs (getSched_congr rfl rfl rfl) id e
  | wBeginSkip _ _ => exact wake_mono id (getSched_congr rfl rfl rfl w) hW
  | wBegin _ _ => exact wake_mono id (getSched_congr rfl rfl rfl w) hW
  | wReturn _ => exact wake_mono id (getSched_congr rfl rfl rfl w) hW
  | wDone _ => exact wake_mono (setStatus_ne_absent (by decide)) (getSched_congr rfl rfl rfl w) hW
  | wSend _ => exact wake_mono id (getSched_congr rfl rfl rfl w) hW
  | wExit _ => exact wake_mono id (getSched_congr rfl rfl rfl w) hW
  | cRecvLast _ _ _ _ => exact absurd rfl hcr
  | cRecvMore _ _ _ _ => exact absurd rfl hcr
  | cCtxDone _ _ _ _ => exact absurd rfl hcd
  | extCancel _ => exact wake_mono id (getSched_congr rfl rfl rfl w) hW

/-! ### frame facts -/

theorem step_received {g : Graph} {lim : Option Nat} {s s' : St} {l : Label} (h : Step g lim s l s') (hl : l ≠ .cRecv) :
    s'.received = s.received := by
  cases h <;> first | (exact absurd rfl hl) | simp

theorem step_cancelled {g : Graph} {lim : Option Nat} {s s' : St} {l : Label} (h : Step g lim s l s')
    (hc : s'.cancelled = false) : s.cancelled = false := by
  cases h <;> first | (simp at hc; exact hc.1) | (simpa using hc)

theorem step_cAlive {g : Graph} {lim : Option Nat} {s s' : St} {l : Label} (h : Step g lim s l s')
    (hc : s'.cAlive = true) : s.cAlive = true := by
  cases h <;> first | (simpa using hc) | (simp at hc) | assumption

theorem step_status_mono {g : Graph} {lim : Option Nat} {s s' : St} {l : Label} (h : Step g lim s l s') (u : V)
    (hu : s.status u ≠ .absent) : s'.status u ≠ .absent := by
  cases h <;> first | (simpa using hu) | (simpa using setStatus_ne_absent (by decide) hu) | exact setStatus_ne_absent (by decide) hu

theorem step_handoff {g : Graph} {lim : Option Nat} {s s' : St} {l : Label} (h : Step g lim s l s') (u : V)
    (hu : u ∈ s'.ch ∨ u ∈ s'.received) : (u ∈ s.ch ∨ u ∈ s.received) ∨ ∃ pc, (u, pc) ∈ s.workers := by
  cases h with
  | @wSend v e hw =>
    have hu : (u ∈ s.ch ∨ u = v) ∨ u ∈ s.received := by simpa using hu
    rcases hu with (h | h) | h
    · exact .inl (.inl h)
    · subst h; exact .inr ⟨_, mem_of_wpc hw⟩
    · exact .inl (.inr h)
  | cRecvLast _ _ hch _ => exact .inl ((recv_mem hch u).mp hu)
  | cRecvMore _ _ hch _ => exact .inl ((recv_mem hch u).mp hu)
  | _ => exact .inl (by simpa using hu)

theorem step_workers {g : Graph} {lim : Option Nat} {s s' : St} {l : Label} (h : Step g lim s l s') (u : V) (pc : WPc)
    (hu : (u, pc) ∈ s'.workers) : (∃ q, (u, q) ∈ s.workers) ∨ ∃ w t, getSched s w = some ⟨t, .spawn u⟩ := by
  cases h with
  | @spawn w todo v hs _ =>
    simp only [putSched_workers, List.mem_cons] at hu
    rcases hu with hu | hu
    · cases hu; exact .inr ⟨w, todo, hs⟩
    · exact .inl ⟨pc, hu⟩
  | wBeginSkip _ _ => rcases mem_setW hu with ⟨rfl, _, q, hq⟩ | ⟨_, hq⟩ <;> exact .inl ⟨_, hq⟩
  | wBegin _ _ => rcases mem_setW hu with ⟨rfl, _, q, hq⟩ | ⟨_, hq⟩ <;> exact .inl ⟨_, hq⟩
  | wReturn _ => rcases mem_setW hu with ⟨rfl, _, q, hq⟩ | ⟨_, hq⟩ <;> exact .inl ⟨_, hq⟩
  | wDone _ => rcases mem_setW hu with ⟨rfl, _, q, hq⟩ | ⟨_, hq⟩ <;> exact .inl ⟨_, hq⟩
  | wSend _ => rcases mem_setW hu with ⟨rfl, _, q, hq⟩ | ⟨_, hq⟩ <;> exact .inl ⟨_, hq⟩
  | wExit _ => exact .inl ⟨pc, (mem_filter_ne.mp hu).1⟩
  | _ => exact .inl ⟨pc, by simpa using hu⟩

theorem subVerts_of {g : Graph} {todo : List V} {sub : SubPc} (h1 : ∀ v ∈ todo, v ∈ g.verts)
    (h2 : ∀ v, (sub = .ready v ∨ sub = .enter v ∨ sub = .spawn v) → v ∈ g.verts) : subVerts g ⟨todo, sub⟩ := ⟨h1, h2⟩

theorem step_schedVerts {g : Graph} {lim : Option Nat} {s s' : St} {l : Label} (hg : GraphOK g) (h : Step g lim s l s')
    (hrs : ∀ v, v ∈ s.ch ∨ v ∈ s.received → v ∈ g.verts)
    (hsv : ∀ w x, getSched s w = some x → subVerts g x) :
    ∀ w x, getSched s' w = some x → subVerts g x := by
  intro w' x hx
  -- a step of scheduler `w0` that replaces its state by `y'`
  have sched : ∀ {w0 : Who} {y : Sched} (y' : Option Sched) (s1 : St), getSched s w0 = some y →
      (∀ w', getSched s1 w' = getSched s w') → getSched (putSched s1 w0 y') w' = some x →
      (∀ z, y' = some z → subVerts g z) → subVerts g x := by
    intro w0 y y' s1 hs hgs hx hy'
    by_cases e : w' = w0
    · subst e
      have hs1 : getSched s1 w' = some y := (hgs w').trans hs
      rw [getSched_put_same y' hs1] at hx
      exact hy' x hx
    · rw [getSched_put_ne y' e, hgs] at hx
      exact hsv w' x hx
  cases h with
  | @schedNext w0 todo v hs hv =>
    refine sched _ s hs (fun _ => rfl) hx ?_
    rintro z ⟨⟩
    have := hsv w0 _ hs
    refine ⟨fun u hu => this.1 u (List.mem_of_mem_erase hu), ?_⟩
    intro u hu; simp at hu; subst hu; exact this.1 _ hv
  | @schedEnd w0 hs => exact sched _ s hs (fun _ => rfl) hx (by intro z hz; cases hz)
  | @readyT w0 todo v hs _ =>
    refine sched _ s hs (fun _ => rfl) hx ?_
    rintro z ⟨⟩
    have := hsv w0 _ hs
    refine ⟨this.1, ?_⟩
    intro u hu; simp at hu; subst hu; exact this.2 _ (.inl rfl)
  | @readyF w0 todo v hs _ =>
    refine sched _ s hs (fun _ => rfl) hx ?_
    rintro z ⟨⟩
    exact ⟨(hsv w0 _ hs).1, by intro u hu; simp at hu⟩
  | @enterT w0 todo v hs _ =>
    refine sched _ _ hs ?_ hx ?_
    · exact getSched_congr rfl rfl rfl
    rintro z ⟨⟩
    have := hsv w0 _ hs
    refine ⟨this.1, ?_⟩
    intro u hu; simp at hu; subst hu; exact this.2 _ (.inr (.inl rfl))
  | @enterF w0 todo v hs _ =>
    refine sched _ s hs (fun _ => rfl) hx ?_
    rintro z ⟨⟩
    exact ⟨(hsv w0 _ hs).1, by intro u hu; simp at hu⟩
  | @spawn w0 todo v hs _ =>
    refine sched _ _ hs ?_ hx ?_
    · exact getSched_congr rfl rfl rfl
    rintro z ⟨⟩
    exact ⟨(hsv w0 _ hs).1, by intro u hu; simp at hu⟩
  | wBeginSkip _ _ => exact hsv w' x (by rw [← hx]; exact (getSched_congr rfl rfl rfl w').symm)
  | wBegin _ _ => exact hsv w' x (by rw [← hx]; exact (getSched_congr rfl rfl rfl w').symm)
  | wReturn _ => exact hsv w' x (by rw [← hx]; exact (getSched_congr rfl rfl rfl w').symm)
  | wDone _ => exact hsv w' x (by rw [← hx]; exact (getSched_congr rfl rfl rfl w').symm)
  | wSend _ => exact hsv w' x (by rw [← hx]; exact (getSched_congr rfl rfl rfl w').symm)
  | wExit _ => exact hsv w' x (by rw [← hx]; exact (getSched_congr rfl rfl rfl w').symm)
  | extCancel _ => exact hsv w' x (by rw [← hx]; exact (getSched_congr rfl rfl rfl w').symm)
  | cRecvLast _ _ _ _ =>
    cases w' with
    | M => exact hsv .M x hx
    | C => simp [getSched] at hx
  | @cRecvMore v rest ha hc hch _ =>
    cases w' with
    | M => exact hsv .M x hx
    | C =>
      simp only [getSched, ha, if_true, Option.some.injEq] at hx
      subst hx
      have hv : v ∈ g.verts := hrs v (.inl (by rw [hch]; exact List.mem_cons_self ..))
      exact ⟨fun u hu => hg.post_mem v hv u hu, by intro u hu; simp at hu⟩
  | cCtxDone _ _ _ _ =>
    cases w' with
    | M => exact hsv .M x hx
    | C => simp [getSched] at hx

theorem step_expect {g : Graph} {lim : Option Nat} {s s' : St} {l : Label} (h : Step g lim s l s') (hl : l ≠ .cRecv) :
    s'.expect = s.expect := by
  cases h <;> first | (exact absurd rfl hl) | simp

theorem step_getSched_M {g : Graph} {lim : Option Nat} {s s' : St} {l : Label} (h : Step g lim s l s')
    (hl : l = .cRecv ∨ l = .cCtxDone) : getSched s' .M = getSched s .M := by
  cases h <;> first | rfl | (rcases hl with hl | hl <;> cases hl)

theorem step_status_eq {g : Graph} {lim : Option Nat} {s s' : St} {l : Label} (h : Step g lim s l s')
    (hl : l = .cRecv ∨ l = .cCtxDone) : s'.status = s.status := by
  cases h <;> first | rfl | (rcases hl with hl | hl <;> cases hl)

theorem invB_step {g : Graph} {lim : Option Nat} {s s' : St} {l : Label} (hg : GraphOK g)
    (h : Step g lim s l s') (hA : InvA s) (hB : InvB g s) : InvB g s' := by
  have hsv := step_schedVerts hg h hB.recvSub hB.schedVerts
  refine ⟨?_, ?_, ?_, ?_, hsv, ?_⟩
  · -- recvSub
    intro u hu
    rcases step_handoff h u hu with h1 | ⟨pc, h1⟩
    · exact hB.recvSub u h1
    · exact hB.wkVerts u pc h1
  · -- expectEq
    intro ha
    have ha0 := step_cAlive h ha
    have ⟨he, h1⟩ := hB.expectEq ha0
    by_cases hl : l = .cRecv
    · subst hl
      cases h with
      | cRecvLast _ _ _ _ => simp at ha
      | cRecvMore _ _ _ hne =>
        simp only [List.length_cons]
        omega
    · rw [step_expect h hl, step_received h hl]; exact ⟨he, h1⟩
  · -- wakeC
    intro hcan ha u hu hpre hall
    have hcan0 := step_cancelled h hcan
    have ha0 := step_cAlive h ha
    by_cases hl : l = .cRecv
    · subst hl
      cases h with
      | cRecvLast _ _ _ _ => simp at ha
      | @cRecvMore v rest _ hc hch _ =>
        by_cases hv : v ∈ g.pre u
        · right
          refine ⟨⟨g.post v, .next⟩, by simp [getSched, ha0], .inl (hg.pre_post u hu v hv)⟩
        · have hall' : ∀ d ∈ g.pre u, d ∈ s.received := by
            intro d hd
            have := hall d hd
            simp only [List.mem_cons] at this
            rcases this with h1 | h1
            · subst h1; exact absurd hd hv
            · exact h1
          rcases hB.wakeC hcan0 ha0 u hu hpre hall' with hh | ⟨x, hx, _⟩
          · exact .inl hh
          · simp [getSched, ha0, hc] at hx
    · by_cases hl2 : l = .cCtxDone
      · subst hl2
        cases h with
        | cCtxDone _ _ _ _ => simp at ha
      · rw [step_received h hl] at hall
        refine wake_own h .C u ?_ hl hl2 (hB.wakeC hcan0 ha0 u hu hpre hall)
        intro todo _ d hd
        exact hA.handed d (.inr (hall d hd))
  · -- wakeM
    intro u hu hpre
    by_cases hl : l = .cRecv ∨ l = .cCtxDone
    · refine wake_mono ?_ (step_getSched_M h hl) (hB.wakeM u hu hpre)
      rw [step_status_eq h hl]; exact id
    · refine wake_own h .M u ?_ (fun e => hl (.inl e)) (fun e => hl (.inr e)) (hB.wakeM u hu hpre)
      intro todo _ d hd
      rw [hpre] at hd; cases hd
  · -- wkVerts
    intro u pc hu
    rcases step_workers h u pc hu with ⟨q, hq⟩ | ⟨w, t, hw⟩
    · exact hB.wkVerts u q hq
    · exact (hB.schedVerts w _ hw).2 u (.inr (.inr rfl))

end CV.Trav
