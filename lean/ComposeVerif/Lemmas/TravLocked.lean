import ComposeVerif.Model.Trav
import ComposeVerif.Model.Locked
/-!
# The traversal model writes `status` only through the lock-guarded sections

Helper lemmas for `Props/C19Traversal.lean`: every step of `Model/Trav.lean` leaves `status` unchanged or applies
`Locked.enterF v` (label `enter`, on an absent vertex) or `Locked.doneF v` (label `wDone`) to it.
-/
namespace CV.C19
open CV.Trav

def toL : Trav.Status → Locked.Status
  | .absent => .absent | .entered => .entered | .visited => .visited

def stL (s : St) : Nat → Locked.Status := fun u => toL (s.status u)

theorem putSched_status (s : St) (w : Who) (x : Option Sched) : (putSched s w x).status = s.status := by
  cases w <;> rfl

theorem stL_putSched (s : St) (w : Who) (x : Option Sched) : stL (putSched s w x) = stL s := by
  unfold stL; rw [putSched_status]

theorem status_step_sections {g : Graph} {lim : Option Nat} {s s' : St} {l : Label}
    (h : step? g lim s l = some s') :
    stL s' = stL s ∨ (∃ v, stL s' = Locked.enterF v (stL s)) ∨ (∃ v, stL s' = Locked.doneF v (stL s)) := by
  cases l with
  | schedNext w v =>
    left; simp only [step?] at h
    split at h
    · split at h
      · cases h; exact stL_putSched _ _ _
      · cases h
    · cases h
  | schedEnd w =>
    left; simp only [step?] at h
    split at h
    · cases h; exact stL_putSched _ _ _
    · cases h
  | ready w =>
    left; simp only [step?] at h
    split at h
    · split at h <;> (cases h; exact stL_putSched _ _ _)
    · cases h
  | enter w =>
    simp only [step?] at h
    split at h
    · next todo v _ =>
      split at h
      · next habs =>
        right; left; refine ⟨v, ?_⟩
        cases h
        have hv : toL (s.status v) = .absent := by rw [habs]; rfl
        rw [stL_putSched]
        funext u
        show toL (if u = v then Status.entered else s.status u) = Locked.enterF v (fun u => toL (s.status u)) u
        simp only [Locked.enterF, hv, if_true, Locked.setSt]
        by_cases e : u = v
        · simp [e, toL]
        · simp [e]
      · next hne =>
        left; cases h; exact stL_putSched _ _ _
    · cases h
  | spawn w =>
    left; simp only [step?] at h
    split at h
    · split at h
      · cases h; exact stL_putSched _ _ _
      · cases h
    · cases h
  | wBegin v =>
    left; simp only [step?] at h
    split at h
    · split at h <;> (cases h; rfl)
    · cases h
  | wReturn v e =>
    left; simp only [step?] at h
    split at h
    · cases h; rfl
    · cases h
  | wDone v =>
    simp only [step?] at h
    split at h
    · right; right; refine ⟨v, ?_⟩
      cases h
      funext u
      show toL (if u = v then Status.visited else s.status u) = Locked.doneF v (fun u => toL (s.status u)) u
      simp only [Locked.doneF, Locked.setSt]
      by_cases e : u = v
      · simp [e, toL]
      · simp [e]
    · cases h
  | wSend v =>
    left; simp only [step?] at h
    split at h
    · cases h; rfl
    · cases h
  | wExit v =>
    left; simp only [step?] at h
    split at h
    · cases h; rfl
    · cases h
  | cRecv =>
    left; simp only [step?] at h
    split at h
    · split at h
      · split at h <;> (cases h; rfl)
      · cases h
    · cases h
  | cCtxDone =>
    left; simp only [step?] at h
    split at h
    · cases h; rfl
    · cases h
  | extCancel =>
    left; simp only [step?] at h
    split at h
    · cases h
    · cases h; rfl
end CV.C19
