import ComposeVerif.Model.C02EnvLoop
namespace CV.Det.EnvLoop
open CV CV.EnvLayers

def isOkE {ε α : Type} : Except ε α → Bool
  | .ok _ => true
  | .error _ => false

/-- the value a successful body returns (the argument itself where it fails: never used on a successful loop) -/
def bodyVal (body : Service → Except Err Service) (s : Service) : Service :=
  match body s with
  | .ok s' => s'
  | .error _ => s

theorem rangeServices_isOk (body : Service → Except Err Service) (m : List (Str × Service)) :
    isOkE (rangeServices body m) = m.all (fun p => isOkE (body p.2)) := by
  induction m with
  | nil => rfl
  | cons hd tl ih =>
    obtain ⟨n, s⟩ := hd
    simp only [rangeServices, List.all_cons, ← ih]
    cases body s <;> simp only [isOkE, Bool.false_and, Bool.true_and]
    cases rangeServices body tl <;> rfl

theorem rangeServices_ok_eq (body : Service → Except Err Service) (m r : List (Str × Service))
    (h : rangeServices body m = .ok r) : r = m.map (fun p => (p.1, bodyVal body p.2)) := by
  induction m generalizing r with
  | nil => simp only [rangeServices, Except.ok.injEq] at h; subst h; rfl
  | cons hd tl ih =>
    obtain ⟨n, s⟩ := hd
    simp only [rangeServices] at h
    cases hb : body s with
    | error e => rw [hb] at h; cases h
    | ok s' =>
      rw [hb] at h
      cases ht : rangeServices body tl with
      | error e => rw [ht] at h; cases h
      | ok r' =>
        rw [ht] at h
        simp only [Except.ok.injEq] at h
        subst h
        simp only [List.map_cons, bodyVal, hb, ih r' ht]

/-- the error the loop returns is the error of one of the failing services -/
theorem rangeServices_error_mem (body : Service → Except Err Service) (m : List (Str × Service)) (e : Err)
    (h : rangeServices body m = .error e) : ∃ p ∈ m, body p.2 = .error e := by
  induction m with
  | nil => cases h
  | cons hd tl ih =>
    obtain ⟨n, s⟩ := hd
    simp only [rangeServices] at h
    cases hb : body s with
    | error e' => rw [hb] at h; cases h; exact ⟨(n, s), List.mem_cons_self, hb⟩
    | ok s' =>
      rw [hb] at h
      cases ht : rangeServices body tl with
      | error e' =>
        rw [ht] at h; cases h
        obtain ⟨p, hp, hpe⟩ := ih ht
        exact ⟨p, List.mem_cons_of_mem _ hp, hpe⟩
      | ok r' => rw [ht] at h; cases h

theorem rangeServices_perm_aux (body : Service → Except Err Service) {m m' : List (Str × Service)} (hp : m'.Perm m) :
    isOkE (rangeServices body m') = isOkE (rangeServices body m) ∧
    ∀ r r', rangeServices body m = .ok r → rangeServices body m' = .ok r' → r'.Perm r := by
  refine ⟨?_, fun r r' hr hr' => ?_⟩
  · rw [rangeServices_isOk, rangeServices_isOk]; exact hp.all_eq
  · rw [rangeServices_ok_eq body m r hr, rangeServices_ok_eq body m' r' hr']
    exact hp.map _

end CV.Det.EnvLoop
