import ComposeVerif.Model.PathsLoaders
/-! # Lemmas about the heap model of resource-loader lists (C12) -/
namespace CV.Paths.Loaders

/-- `h'` has every array of `h` below `n` unchanged and allocates upwards only -/
structure Keeps (n : Nat) (h h' : Heap) : Prop where
  next : h.next ≤ h'.next
  arr : ∀ i, i < n → h'.arr i = h.arr i

theorem Keeps.refl (n : Nat) (h : Heap) : Keeps n h h := ⟨Nat.le_refl _, fun _ _ => rfl⟩

theorem Keeps.trans {n : Nat} {a b c : Heap} (h1 : Keeps n a b) (h2 : Keeps n b c) : Keeps n a c :=
  ⟨Nat.le_trans h1.next h2.next, fun i hi => by rw [h2.arr i hi, h1.arr i hi]⟩

/-- the slice lives in an array allocated at or after `n` (or is nil) -/
def Fresh (n : Nat) : GoSlice → Prop
  | none => True
  | some s => n ≤ s.arr

theorem take_set_succ {α : Type} (l : List α) (k : Nat) (x : α) (hk : k < l.length) :
    (l.set k x).take (k + 1) = l.take k ++ [x] := by
  induction l generalizing k with
  | nil => simp at hk
  | cons a t ih =>
    cases k with
    | zero => simp
    | succ k =>
      simp only [List.set_cons_succ, List.take_succ_cons, List.cons_append, List.cons.injEq, true_and]
      exact ih k (by simpa using hk)

theorem take_len_succ_append {α : Type} (L : List α) (x : α) (R : List α) :
    (L ++ x :: R).take (L.length + 1) = L ++ [x] := by
  induction L with
  | nil => simp
  | cons a t ih => simp [ih]

theorem growCap_gt (c : Nat) : c < growCap c := by
  unfold growCap; split <;> omega

/-- `append` on a fresh (or nil) slice: existing arrays below `n` untouched, the result is fresh, valid and reads one more -/
theorem append_fresh (n : Nat) (h : Heap) (s : GoSlice) (x : Option Loader) (hn : n ≤ h.next) (hv : Valid h s)
    (hf : Fresh n s) :
    Keeps n h (append h s x).1 ∧ Valid (append h s x).1 (append h s x).2 ∧ Fresh n (append h s x).2 ∧
      read (append h s x).1 (append h s x).2 = read h s ++ [x] := by
  cases s with
  | none =>
    refine ⟨⟨by simp [append], fun i hi => ?_⟩, ?_, ?_, ?_⟩
    · have : i ≠ h.next := by omega
      simp [append, this]
    · simp [append, Valid]
    · simpa [append, Fresh] using hn
    · simp [append, read]
  | some t =>
    obtain ⟨hv1, hv2, hv3⟩ := hv
    have hf' : n ≤ t.arr := hf
    by_cases hc : t.len < t.cap
    · simp only [append, hc, if_true]
      refine ⟨⟨Nat.le_refl _, fun i hi => ?_⟩, ?_, hf', ?_⟩
      · have : i ≠ t.arr := by omega
        simp [this]
      · refine ⟨hv1, by simp only; omega, ?_⟩
        simp [hv3]
      · simp only [read, if_true]
        exact take_set_succ _ _ _ (by omega)
    · simp only [append, hc, if_false]
      have hg := growCap_gt t.cap
      refine ⟨⟨by simp, fun i hi => ?_⟩, ?_, ?_, ?_⟩
      · have : i ≠ h.next := by omega
        simp [this]
      · refine ⟨by simp, by simp only; omega, ?_⟩
        simp only [if_true, List.length_append, List.length_take, List.length_cons, List.length_replicate, hv3]
        omega
      · show n ≤ h.next
        exact hn
      · simp only [read, if_true]
        have hl : ((h.arr t.arr).take t.len).length = t.len := by simp [hv3]; omega
        have := take_len_succ_append ((h.arr t.arr).take t.len) x (List.replicate (growCap t.cap - t.len - 1) none)
        rw [hl] at this
        exact this

/-- the state of the loop of `RemoteResourceLoaders` -/
structure RemInv (n : Nat) (h0 : Heap) (done : List (Option Loader)) (acc : Heap × GoSlice) : Prop where
  keeps : Keeps n h0 acc.1
  valid : Valid acc.1 acc.2
  fresh : Fresh n acc.2
  value : read acc.1 acc.2 = done.filter (fun x => !isLocal x)

theorem remoteStep_inv (n : Nat) (h0 : Heap) (hn : n ≤ h0.next) (done : List (Option Loader)) (acc : Heap × GoSlice)
    (x : Option Loader) (hi : RemInv n h0 done acc) : RemInv n h0 (done ++ [x]) (remoteStep acc x) := by
  unfold remoteStep
  by_cases hl : isLocal x = true
  · simp only [hl, if_true]
    exact ⟨hi.keeps, hi.valid, hi.fresh, by simp [List.filter_append, hl, hi.value]⟩
  · simp only [hl, if_false]
    have hn' : n ≤ acc.1.next := Nat.le_trans hn hi.keeps.next
    obtain ⟨k, v, f, r⟩ := append_fresh n acc.1 acc.2 x hn' hi.valid hi.fresh
    exact ⟨hi.keeps.trans k, v, f, by simp [List.filter_append, hl, r, hi.value]⟩

theorem foldl_remInv (n : Nat) (h0 : Heap) (hn : n ≤ h0.next) (todo done : List (Option Loader)) (acc : Heap × GoSlice)
    (hi : RemInv n h0 done acc) : RemInv n h0 (done ++ todo) (todo.foldl remoteStep acc) := by
  induction todo generalizing done acc with
  | nil => simpa using hi
  | cons x rest ih =>
    have := ih (done ++ [x]) (remoteStep acc x) (remoteStep_inv n h0 hn done acc x hi)
    simpa using this

theorem remoteLoaders_inv (h : Heap) (s : GoSlice) : RemInv h.next h (read h s) (remoteLoaders h s) := by
  have := foldl_remInv h.next h (Nat.le_refl _) (read h s) [] (h, none)
    ⟨Keeps.refl _ _, trivial, trivial, by simp [read]⟩
  simpa [remoteLoaders] using this

theorem childLoaders_spec (h : Heap) (s : GoSlice) (dir : Str) :
    Keeps h.next h (childLoaders h s dir).1 ∧ Valid (childLoaders h s dir).1 (childLoaders h s dir).2 ∧
      Fresh h.next (childLoaders h s dir).2 ∧
      read (childLoaders h s dir).1 (childLoaders h s dir).2 =
        (read h s).filter (fun x => !isLocal x) ++ [some (.loc dir)] := by
  have hi := remoteLoaders_inv h s
  obtain ⟨k, v, f, r⟩ := append_fresh h.next (remoteLoaders h s).1 (remoteLoaders h s).2 (some (.loc dir))
    hi.keeps.next hi.valid hi.fresh
  exact ⟨hi.keeps.trans k, v, f, by simp only [childLoaders]; rw [r, hi.value]⟩

/-- a slice that was valid keeps its reading (and its whole array) under `Keeps` -/
theorem read_keeps (h h' : Heap) (t : GoSlice) (hv : Valid h t) (hk : Keeps h.next h h') :
    read h' t = read h t ∧ full h' t = full h t ∧ Valid h' t := by
  cases t with
  | none => simp [read, full, Valid]
  | some s =>
    obtain ⟨a, b, c⟩ := hv
    have := hk.arr s.arr a
    exact ⟨by simp [read, this], by simp [full, this], ⟨Nat.lt_of_lt_of_le a hk.next, b, by rw [this]; exact c⟩⟩

theorem Keeps.weaken {n m : Nat} {a b : Heap} (h : Keeps n a b) (hm : m ≤ n) : Keeps m a b :=
  ⟨h.next, fun i hi => h.arr i (Nat.lt_of_lt_of_le hi hm)⟩

theorem runScript_keeps (script : List (Nat × Str)) : ∀ (h : Heap) (opts : List GoSlice), (∀ s ∈ opts, Valid h s) →
    Keeps h.next h (runScript h opts script).1 ∧ (∀ s ∈ (runScript h opts script).2, Valid (runScript h opts script).1 s) ∧
      ∃ more, (runScript h opts script).2 = opts ++ more := by
  induction script with
  | nil => intro h opts hv; exact ⟨Keeps.refl _ _, hv, [], by simp [runScript]⟩
  | cons st rest ih =>
    intro h opts hv
    obtain ⟨i, d⟩ := st
    obtain ⟨k, cv, _, _⟩ := childLoaders_spec h (opts.getD i none) d
    have hv' : ∀ s ∈ opts ++ [(childLoaders h (opts.getD i none) d).2], Valid (childLoaders h (opts.getD i none) d).1 s := by
      intro s hs
      rcases List.mem_append.mp hs with hs | hs
      · exact (read_keeps h _ s (hv s hs) k).2.2
      · simp only [List.mem_singleton] at hs; subst hs; exact cv
    obtain ⟨k2, v2, more, hm⟩ := ih _ _ hv'
    simp only [runScript]
    refine ⟨k.trans (k2.weaken k.next), v2, (childLoaders h (opts.getD i none) d).2 :: more, ?_⟩
    rw [hm]; simp

instance (h : Heap) (s : GoSlice) : Decidable (Valid h s) := by
  cases s with
  | none => exact isTrue trivial
  | some t => unfold Valid; exact inferInstance

/-- every model's list is valid and its local loader is anchored where the functional level says -/
def LevelsOK (h : Heap) (models : List (GoSlice × Level)) : Prop :=
  ∀ m ∈ models, Valid h m.1 ∧ localDir (read h m.1) = some m.2.lw

theorem localDir_snoc (l : List (Option Loader)) (d : Str) : localDir (l ++ [some (.loc d)]) = some d := by
  induction l with
  | nil => simp [localDir]
  | cons x rest ih => simp [localDir, ih]

theorem getD_map_snd (models : List (GoSlice × Level)) (i : Nat) :
    (models.map Prod.snd).getD i ⟨[], []⟩ = (models.getD i (none, ⟨[], []⟩)).2 := by
  simp only [List.getD, List.getElem?_map]
  cases models[i]? <;> rfl

theorem heapDir_eq (h : Heap) (models : List (GoSlice × Level)) (hok : LevelsOK h models) (i : Nat) :
    (localDir (read h (models.getD i (none, ⟨[], []⟩)).1)).getD [] = (models.getD i (none, ⟨[], []⟩)).2.lw := by
  simp only [List.getD]
  cases hm : models[i]? with
  | none => simp [read, localDir]
  | some m =>
    have := hok m (List.mem_of_getElem? hm)
    simp [this.2]

theorem runIncl_refines (isDir : Str → Bool) (script : List NStep) :
    ∀ (h : Heap) (models : List (GoSlice × Level)), LevelsOK h models →
      ((runIncl isDir h models script).2.map Prod.snd = runInclF isDir (models.map Prod.snd) script) ∧
        LevelsOK (runIncl isDir h models script).1 (runIncl isDir h models script).2 ∧
        Keeps h.next h (runIncl isDir h models script).1 := by
  induction script with
  | nil => intro h models hok; exact ⟨rfl, hok, Keeps.refl _ _⟩
  | cons st rest ih =>
    intro h models hok
    cases st with
    | incl i p pd =>
      have hlw := heapDir_eq h models hok i
      simp only [runIncl, runInclF]
      rw [hlw, getD_map_snd]
      generalize (includeLevel isDir ⟨(models.getD i (none, ⟨[], []⟩)).2.lw, (models.getD i (none, ⟨[], []⟩)).2.cw⟩ p pd).2 = st'
      obtain ⟨k, cv, _, cr⟩ := childLoaders_spec h (models.getD i (none, ⟨[], []⟩)).1 st'.lw
      have hok' : LevelsOK (childLoaders h (models.getD i (none, ⟨[], []⟩)).1 st'.lw).1
          (models ++ [((childLoaders h (models.getD i (none, ⟨[], []⟩)).1 st'.lw).2, st')]) := by
        intro m hm
        rcases List.mem_append.mp hm with hm | hm
        · obtain ⟨v, l⟩ := hok m hm
          obtain ⟨r1, _, v1⟩ := read_keeps h _ m.1 v k
          exact ⟨v1, by rw [r1]; exact l⟩
        · simp only [List.mem_singleton] at hm; subst hm
          exact ⟨cv, by simp only; rw [cr]; exact localDir_snoc _ _⟩
      obtain ⟨e, o, k2⟩ := ih _ _ hok'
      refine ⟨?_, o, k.trans (k2.weaken k.next)⟩
      rw [e]; simp
    | ext i ref =>
      simp only [runIncl, runInclF]
      generalize (dir (absIn ((localDir (read h (models.getD i (none, ⟨[], []⟩)).1)).getD []) ref)) = d
      obtain ⟨k, _, _, _⟩ := childLoaders_spec h (models.getD i (none, ⟨[], []⟩)).1 d
      have hok' : LevelsOK (childLoaders h (models.getD i (none, ⟨[], []⟩)).1 d).1 models := by
        intro m hm
        obtain ⟨v, l⟩ := hok m hm
        obtain ⟨r1, _, v1⟩ := read_keeps h _ m.1 v k
        exact ⟨v1, by rw [r1]; exact l⟩
      obtain ⟨e, o, k2⟩ := ih _ _ hok'
      exact ⟨e, o, k.trans (k2.weaken k.next)⟩

/-- child `i` reads `base` followed by the local loader of directory `i` -/
def EachReads (h : Heap) (base : List (Option Loader)) : List GoSlice → List Str → Prop
  | [], [] => True
  | c :: cs, d :: ds => read h c = base ++ [some (.loc d)] ∧ EachReads h base cs ds
  | _, _ => False

end CV.Paths.Loaders
