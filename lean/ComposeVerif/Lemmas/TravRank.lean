import ComposeVerif.Lemmas.TravSkip
/-!
# An acyclic finite graph has a rank function (bounded by the number of vertices)

`rk v` = number of vertices reachable from `v`.  Along an edge `v → c` the reachable set shrinks strictly: everything
reachable from `c` is reachable from `v`, `c` itself is reachable from `v`, and `c` is not reachable from `c` (no closed
walk).  This closes the gap between the two formulations of acyclicity used for C13: "no closed walk" (what
`checkCycle` decides, `DepGraph.cyclic_refused`) and "a rank function exists" (`Trav.GraphOK.rank`).
-/
namespace CV.Trav
open CV.DepGraph (Reaches checkCycle checkCycle_complete)

theorem filter_length_lt {α} (l : List α) (p q : α → Bool) (hpq : ∀ u ∈ l, p u = true → q u = true)
    (c : α) (hc : c ∈ l) (hqc : q c = true) (hpc : p c = false) : (l.filter p).length < (l.filter q).length := by
  induction l with
  | nil => cases hc
  | cons a r ih =>
    have hle : (r.filter p).length ≤ (r.filter q).length := by
      clear ih hc
      induction r with
      | nil => simp
      | cons b t iht =>
        have := iht (fun u hu => hpq u (by simp [List.mem_cons] at hu ⊢; rcases hu with h | h <;> simp [h]))
        simp only [List.filter_cons]
        cases hb : p b with
        | false => cases q b <;> simp <;> omega
        | true =>
          have := hpq b (by simp) hb
          simp [this]; omega
    simp only [List.filter_cons]
    rcases List.mem_cons.mp hc with rfl | hc'
    · simp [hqc, hpc]; omega
    · have := ih (fun u hu => hpq u (List.mem_cons_of_mem _ hu)) hc'
      cases ha : p a with
      | false => cases q a <;> simp <;> omega
      | true =>
        have := hpq a (List.mem_cons_self ..) ha
        simp [this]; omega

open Classical in
/-- number of vertices reachable from `v` -/
noncomputable def reachCount (adj : V → List V) (verts : List V) (v : V) : Nat :=
  (verts.filter (fun u => decide (∃ n, Reaches adj n v u))).length

/-- **acyclic ⇒ ranked**: on a finite vertex set closed under the adjacency, "no closed walk" yields a rank function that
strictly decreases along every edge and never exceeds the number of vertices -/
theorem rank_of_acyclic (adj : V → List V) (verts : List V)
    (hclosed : ∀ v ∈ verts, ∀ c ∈ adj v, c ∈ verts) (hacyc : ∀ v ∈ verts, ∀ n, ¬ Reaches adj n v v) :
    ∃ rk : V → Nat, (∀ v ∈ verts, ∀ c ∈ adj v, rk c < rk v) ∧ ∀ v, rk v ≤ verts.length := by
  refine ⟨reachCount adj verts, ?_, ?_⟩
  · intro v hv c hc
    unfold reachCount
    apply filter_length_lt verts _ _ _ c (hclosed v hv c hc)
    · simp only [decide_eq_true_eq]; exact ⟨1, .one hc⟩
    · simp only [decide_eq_false_iff_not]
      rintro ⟨n, hn⟩
      exact hacyc c (hclosed v hv c hc) n hn
    · intro u _ hu
      simp only [decide_eq_true_eq] at hu ⊢
      obtain ⟨n, hn⟩ := hu
      exact ⟨n + 1, .step hc hn⟩
  · intro v
    exact List.length_filter_le _ _

/-- a walk that starts inside a closed vertex set stays inside -/
theorem Reaches.mem_verts {adj : V → List V} {verts : List V} (hclosed : ∀ v ∈ verts, ∀ c ∈ adj v, c ∈ verts)
    {n : Nat} {a b : V} (h : Reaches adj n a b) (ha : a ∈ verts) : b ∈ verts := by
  induction h with
  | one hb => exact hclosed _ ha _ hb
  | step hc _ ih => exact ih (hclosed _ ha _ hc)

/-- **ranked ⇒ acyclic** (inside the vertex set) -/
theorem acyclic_of_rank (adj : V → List V) (verts : List V) (hclosed : ∀ v ∈ verts, ∀ c ∈ adj v, c ∈ verts)
    (rk : V → Nat) (hrk : ∀ v ∈ verts, ∀ c ∈ adj v, rk c < rk v) :
    ∀ {n : Nat} {a b : V}, Reaches adj n a b → a ∈ verts → rk b + n ≤ rk a := by
  intro n a b h
  induction h with
  | one hb => intro ha; have := hrk _ ha _ hb; omega
  | step hc _ ih =>
    intro ha
    have h1 := hrk _ ha _ hc
    have h2 := ih (hclosed _ ha _ hc)
    omega

/-- the two formulations of acyclicity coincide -/
theorem acyclic_iff_ranked (adj : V → List V) (verts : List V) (hclosed : ∀ v ∈ verts, ∀ c ∈ adj v, c ∈ verts) :
    (∀ v ∈ verts, ∀ n, ¬ Reaches adj n v v) ↔ ∃ rk : V → Nat, ∀ v ∈ verts, ∀ c ∈ adj v, rk c < rk v := by
  constructor
  · intro h
    obtain ⟨rk, h1, _⟩ := rank_of_acyclic adj verts hclosed h
    exact ⟨rk, h1⟩
  · rintro ⟨rk, hrk⟩ v hv n hn
    have h1 := acyclic_of_rank adj verts hclosed rk hrk hn hv
    have h2 := Reaches.pos hn
    omega

/-- what `checkCycle` accepts has a rank function: the hypothesis `GraphOK.rank` of the traversal theorems holds for
every graph that reaches `walk` -/
theorem ranked_of_checkCycle_false (adj : V → List V) (verts : List V) (hclosed : ∀ v ∈ verts, ∀ c ∈ adj v, c ∈ verts)
    (h : checkCycle verts adj = false) :
    ∃ rk : V → Nat, (∀ v ∈ verts, ∀ c ∈ adj v, rk c < rk v) ∧ ∀ v, rk v ≤ verts.length := by
  apply rank_of_acyclic adj verts hclosed
  intro v hv n hn
  have := checkCycle_complete adj verts hclosed v hv n hn
  rw [h] at this; cases this

end CV.Trav
