import ComposeVerif.Model.C01Pipeline
/-!
The conversions of `Model/C01Pipeline.lean` lose nothing where the composition uses them: `toVal ∘ ofVal` is the
identity on every tree, and `ofVal ∘ toVal` is the identity on every `GoVal` without nil slice and without
`map[interface{}]interface{}` — which is what `convert` + `fixEmpty` produce (`walkers_establish_schema_input`).
-/
namespace CV.C01.Pipe
open CV

mutual
theorem toVal_ofVal : ∀ (v : Val), toVal (ofVal v) = v
  | .null => rfl
  | .bool _ => rfl
  | .int _ => rfl
  | .float _ => rfl
  | .str _ => rfl
  | .seq xs => by simp only [ofVal, toVal, toVals_ofVals xs]
  | .map kvs => by simp only [ofVal, toVal, toKVs_ofKVs kvs]
theorem toVals_ofVals : ∀ (xs : List Val), toVals (ofVals xs) = xs
  | [] => rfl
  | v :: r => by simp only [ofVals, toVals, toVal_ofVal v, toVals_ofVals r]
theorem toKVs_ofKVs : ∀ (kvs : List (String × Val)), toKVs (ofKVs kvs) = kvs
  | [] => rfl
  | (k, v) :: r => by simp only [ofKVs, toKVs, toVal_ofVal v, toKVs_ofKVs r]
end

mutual
theorem ofVal_toVal : ∀ (g : GoVal), noNil g = true → stringKeyed g = true → ofVal (toVal g) = g
  | .null, _, _ => rfl
  | .bool _, _, _ => rfl
  | .int _, _, _ => rfl
  | .float _, _, _ => rfl
  | .str _, _, _ => rfl
  | .nilseq, h, _ => by simp [noNil] at h
  | .imap _, _, h => by simp [stringKeyed] at h
  | .seq xs, h1, h2 => by
    simp only [noNil] at h1
    simp only [stringKeyed] at h2
    simp only [toVal, ofVal, ofVals_toVals xs h1 h2]
  | .map kvs, h1, h2 => by
    simp only [noNil] at h1
    simp only [stringKeyed] at h2
    simp only [toVal, ofVal, ofKVs_toKVs kvs h1 h2]
theorem ofVals_toVals : ∀ (xs : List GoVal), noNilList xs = true → stringKeyedList xs = true → ofVals (toVals xs) = xs
  | [], _, _ => rfl
  | v :: r, h1, h2 => by
    simp only [noNilList, Bool.and_eq_true] at h1
    simp only [stringKeyedList, Bool.and_eq_true] at h2
    simp only [toVals, ofVals, ofVal_toVal v h1.1 h2.1, ofVals_toVals r h1.2 h2.2]
theorem ofKVs_toKVs : ∀ (kvs : List (String × GoVal)), noNilKVs kvs = true → stringKeyedKVs kvs = true → ofKVs (toKVs kvs) = kvs
  | [], _, _ => rfl
  | (k, v) :: r, h1, h2 => by
    simp only [noNilKVs, Bool.and_eq_true] at h1
    simp only [stringKeyedKVs, Bool.and_eq_true] at h2
    simp only [toKVs, ofKVs, ofVal_toVal v h1.1 h2.1, ofKVs_toKVs r h1.2 h2.2]
end

end CV.C01.Pipe
