import ComposeVerif.Lemmas.Cycle
/-! The cycle `graph.CheckCycle` names in its error: reported iff there is a cycle, and it is a closed walk of the graph. -/
namespace CV.Consistency

theorem mem_insertSorted (x y : String) : ∀ l : List String, y ∈ insertSorted x l ↔ y = x ∨ y ∈ l
  | [] => by simp [insertSorted]
  | z :: r => by
    unfold insertSorted
    split
    · simp
    · simp only [List.mem_cons, mem_insertSorted x y r]
      constructor
      · rintro (h | h | h)
        · exact .inr (.inl h)
        · exact .inl h
        · exact .inr (.inr h)
      · rintro (h | h | h)
        · exact .inr (.inl h)
        · exact .inl h
        · exact .inr (.inr h)

theorem mem_sortStr (y : String) : ∀ l : List String, y ∈ sortStr l ↔ y ∈ l
  | [] => by simp [sortStr]
  | x :: r => by
    have ih := mem_sortStr y r
    unfold sortStr at ih ⊢
    simp only [List.foldr_cons, mem_insertSorted, ih, List.mem_cons]

theorem findSome_isSome {α β : Type} (f : α → Option β) : ∀ l : List α, (l.findSome? f).isSome = l.any fun x => (f x).isSome
  | [] => rfl
  | a :: r => by
    simp only [List.findSome?_cons, List.any_cons]
    cases h : f a with
    | some b => simp
    | none => simp [findSome_isSome f r]

theorem any_congr_mem {α : Type} (f : α → Bool) {l l' : List α} (h : ∀ x, x ∈ l ↔ x ∈ l') : l.any f = l'.any f := by
  cases h1 : l.any f with
  | true =>
    obtain ⟨x, hx, hf⟩ := List.any_eq_true.mp h1
    exact (List.any_eq_true.mpr ⟨x, (h x).mp hx, hf⟩).symm
  | false =>
    cases h2 : l'.any f with
    | false => rfl
    | true =>
      obtain ⟨x, hx, hf⟩ := List.any_eq_true.mp h2
      rw [List.any_eq_true.mpr ⟨x, (h x).mpr hx, hf⟩] at h1; cases h1

/-- the search that remembers the cycle answers exactly when the plain search does -/
theorem searchPath_isSome (g : Graph) : ∀ (fuel : Nat) (path : List String) (v : String),
    (searchPath g fuel path v).isSome = search g fuel path v
  | 0, _, _ => rfl
  | fuel + 1, path, v => by
    simp only [searchPath, search_succ]
    rw [findSome_isSome, any_congr_mem _ (fun x => mem_sortStr x (g.children v))]
    apply List.any_congr rfl
    intro c
    by_cases hc : path.contains c = true
    · have hm : c ∈ path := List.contains_iff_mem.mp hc
      simp [hm]
    · simp only [hc, Bool.false_eq_true, if_false, Bool.false_or]
      exact searchPath_isSome g fuel (path ++ [c]) c

/-- **a cycle is named iff `checkCycle` reports one** (the sort only selects which) -/
theorem cyclePath_isSome (g : Graph) : (cyclePath g).isSome = hasCycle g := by
  unfold cyclePath hasCycle
  rw [findSome_isSome, any_congr_mem _ (fun x => mem_sortStr x (g.map Prod.fst)), List.any_map]
  apply List.any_congr rfl
  intro e
  exact searchPath_isSome g g.length [e.1] e.1

/-! ## the named cycle is a closed walk -/

/-- consecutive elements are edges -/
def ChainE (g : Graph) : List String → Prop
  | [] => True
  | [_] => True
  | a :: b :: r => g.E a b ∧ ChainE g (b :: r)

theorem ChainE.tail {g : Graph} {a : String} {l : List String} (h : ChainE g (a :: l)) : ChainE g l := by
  cases l with
  | nil => trivial
  | cons b r => exact h.2

theorem ChainE.suffix {g : Graph} : ∀ (pre l : List String), ChainE g (pre ++ l) → ChainE g l
  | [], _, h => h
  | _ :: pre, l, h => ChainE.suffix pre l h.tail

theorem ChainE.snoc {g : Graph} : ∀ (l : List String) (v c : String), ChainE g l → l.getLast? = some v → g.E v c →
    ChainE g (l ++ [c])
  | [], _, _, _, h, _ => by simp at h
  | [a], v, c, _, h, e => by
    simp only [List.getLast?_singleton, Option.some.injEq] at h
    subst h
    exact ⟨e, trivial⟩
  | a :: b :: r, v, c, hc, h, e => by
    refine ⟨hc.1, ?_⟩
    have : (b :: r).getLast? = some v := by simpa [List.getLast?_cons_cons] using h
    exact ChainE.snoc (b :: r) v c hc.2 this e

theorem dropWhile_ne_split (c : String) : ∀ (l : List String), c ∈ l →
    ∃ pre suf, l = pre ++ c :: suf ∧ l.dropWhile (fun x => x != c) = c :: suf
  | [], h => by cases h
  | a :: r, h => by
    by_cases hac : a = c
    · subst hac
      exact ⟨[], r, rfl, by simp [List.dropWhile]⟩
    · have hr : c ∈ r := by
        rcases List.mem_cons.mp h with h | h
        · exact absurd h.symm hac
        · exact h
      obtain ⟨pre, suf, h1, h2⟩ := dropWhile_ne_split c r hr
      refine ⟨a :: pre, suf, by rw [h1]; rfl, ?_⟩
      have : (a != c) = true := by simpa using hac
      simp only [List.dropWhile, this]
      exact h2

/-- what a reported cycle looks like: a chain of edges of length ≥ 2 that ends where it starts -/
def IsClosedWalk (g : Graph) (cyc : List String) : Prop :=
  ChainE g cyc ∧ 2 ≤ cyc.length ∧ cyc.head? = cyc.getLast?

theorem searchPath_closed (g : Graph) : ∀ (fuel : Nat) (path : List String) (v : String) (cyc : List String),
    ChainE g path → path.getLast? = some v → searchPath g fuel path v = some cyc → IsClosedWalk g cyc
  | 0, _, _, _, _, _, h => by simp [searchPath] at h
  | fuel + 1, path, v, cyc, hch, hlast, h => by
    simp only [searchPath] at h
    obtain ⟨c, hc, hres⟩ := List.exists_of_findSome?_eq_some h
    have hE : g.E v c := (mem_sortStr c _).mp hc
    by_cases hin : path.contains c = true
    · simp only [hin, if_true, Option.some.injEq] at hres
      obtain ⟨pre, suf, hsplit, hdw⟩ := dropWhile_ne_split c path (List.contains_iff_mem.mp hin)
      rw [hdw] at hres
      subst hres
      have hsufch : ChainE g (c :: suf) := ChainE.suffix pre _ (hsplit ▸ hch)
      have hsuflast : (c :: suf).getLast? = some v := by
        rw [hsplit] at hlast
        simpa [List.getLast?_append] using hlast
      refine ⟨ChainE.snoc _ v c hsufch hsuflast hE, by simp, ?_⟩
      have : (c :: suf ++ [c]).getLast? = some c := by
        rw [List.getLast?_append]; simp
      rw [this]; rfl
    · simp only [hin, Bool.false_eq_true, if_false] at hres
      refine searchPath_closed g fuel (path ++ [c]) c cyc (ChainE.snoc path v c hch hlast hE) ?_ hres
      simp [List.getLast?_append]

/-- **the cycle named in the error is a closed walk of the dependency graph** -/
theorem cyclePath_closed (g : Graph) (cyc : List String) (h : cyclePath g = some cyc) : IsClosedWalk g cyc := by
  unfold cyclePath at h
  obtain ⟨v, -, hres⟩ := List.exists_of_findSome?_eq_some h
  exact searchPath_closed g g.length [v] v cyc trivial rfl hres

/-! ## the named cycle does not depend on Go's map order (that is what the sort is for) -/

theorem insertSorted_comm (x y : String) : ∀ l : List String,
    insertSorted x (insertSorted y l) = insertSorted y (insertSorted x l)
  | [] => by
    simp only [insertSorted]
    rcases Std.lt_trichotomy x y with h | h | h
    · simp [h, String.lt_asymm h]
    · subst h; rfl
    · simp [h, String.lt_asymm h]
  | z :: r => by
    by_cases hx : x < z <;> by_cases hy : y < z
    · simp only [insertSorted, hx, hy, if_true]
      rcases Std.lt_trichotomy x y with h | h | h
      · simp [h, String.lt_asymm h, hx]
      · subst h; rfl
      · simp [h, String.lt_asymm h, hy]
    · have hyx : ¬ y < x := fun h => hy (String.lt_trans h hx)
      simp [insertSorted, hx, hy, hyx]
    · have hxy : ¬ x < y := fun h => hx (String.lt_trans h hy)
      simp [insertSorted, hx, hy, hxy]
    · simp only [insertSorted, hx, hy, if_false]
      rw [insertSorted_comm x y r]

/-- sorting forgets the order the names were listed in -/
theorem sortStr_perm {l l' : List String} (h : l'.Perm l) : sortStr l' = sortStr l := by
  unfold sortStr
  exact h.foldr_eq' (fun x _ y _ z => insertSorted_comm y x z) []

theorem searchPath_congr {g g' : Graph} (hc : ∀ v, sortStr (g'.children v) = sortStr (g.children v)) :
    ∀ (fuel : Nat) (path : List String) (v : String), searchPath g' fuel path v = searchPath g fuel path v
  | 0, _, _ => rfl
  | fuel + 1, path, v => by
    simp only [searchPath, hc v]
    congr 1
    funext c
    rw [searchPath_congr hc fuel (path ++ [c]) c]

/-- **the cycle named in the error is the same for every iteration order** of the vertex map and of each children map -/
theorem cyclePath_order_independent {g g' : Graph} (hk : (g'.map Prod.fst).Perm (g.map Prod.fst))
    (hc : ∀ v, (g'.children v).Perm (g.children v)) : cyclePath g' = cyclePath g := by
  unfold cyclePath
  have hl : g'.length = g.length := by simpa using hk.length_eq
  rw [sortStr_perm hk, hl]
  congr 1
  funext v
  exact searchPath_congr (fun v => sortStr_perm (hc v)) g.length [v] v

end CV.Consistency
