import ComposeVerif.Lemmas.TravInvL
/-!
# Error bookkeeping (`InvE`) and the errgroup semaphore (`InvS`); the combined invariant `Inv`
-/
set_option linter.unusedSimpArgs false
set_option linter.unusedVariables false
set_option linter.unnecessarySimpa false
namespace CV.Trav

def ErrPc (pc : WPc) : Prop := pc = .returned true ∨ pc = .marked true ∨ pc = .sent true

structure InvE (s : St) : Prop where
  errLate : ∀ v pc, (v, pc) ∈ s.workers → ErrPc pc → Ev.finish v true ∈ s.log
  errExitsFin : ∀ v ∈ s.errExits, Ev.finish v true ∈ s.log
  firstErrLast : s.firstErr = s.errExits.getLast?
  cancelledIff : s.cancelled = (s.extCancelled || !s.errExits.isEmpty)
  errAccounted : ∀ v, Ev.finish v true ∈ s.log → (∃ pc, (v, pc) ∈ s.workers ∧ ErrPc pc) ∨ v ∈ s.errExits

theorem init_invE (g : Graph) : InvE (init g) := by
  refine ⟨?_, ?_, rfl, rfl, ?_⟩
  · intro v pc h; simp [init] at h
  · intro v h; simp [init] at h
  · intro v h; simp [init] at h

/-- error bookkeeping changes only when a worker whose visitor failed returns to the errgroup -/
theorem step_errs {g : Graph} {lim : Option Nat} {s s' : St} {l : Label} (h : Step g lim s l s') :
    (s'.errExits = s.errExits ∧ s'.firstErr = s.firstErr ∧ s'.cancelled = s.cancelled ∧ s'.extCancelled = s.extCancelled) ∨
    (∃ v, l = .wExit v ∧ (v, WPc.sent true) ∈ s.workers ∧ s'.errExits = v :: s.errExits ∧
      s'.firstErr = (match s.firstErr with | some x => some x | none => some v) ∧ s'.cancelled = true ∧
      s'.extCancelled = s.extCancelled) ∨
    (l = .extCancel ∧ s'.errExits = s.errExits ∧ s'.firstErr = s.firstErr ∧ s'.cancelled = true ∧ s'.extCancelled = true) := by
  cases h with
  | @wExit v e hw =>
    cases e with
    | false => left; simp
    | true => right; left; exact ⟨v, rfl, mem_of_wpc hw, by simp, rfl, by simp, rfl⟩
  | extCancel _ => right; right; exact ⟨rfl, rfl, rfl, rfl, rfl⟩
  | _ => left; simp

theorem getLast?_cons_of_ne_nil {α} (a : α) {l : List α} (h : l ≠ []) : (a :: l).getLast? = l.getLast? := by
  cases l with
  | nil => exact absurd rfl h
  | cons b r => rfl

/-- a worker holding a visitor error keeps it until it exits -/
theorem step_err_keep {g : Graph} {lim : Option Nat} {s s' : St} {l : Label} (h : Step g lim s l s') (hA : InvA s)
    (u : V) (pc : WPc) (hu : (u, pc) ∈ s.workers) (he : ErrPc pc) :
    (∃ pc', (u, pc') ∈ s'.workers ∧ ErrPc pc') ∨ (l = .wExit u ∧ (u, WPc.sent true) ∈ s.workers) := by
  have other : ∀ {v : V} {pc' : WPc}, u ≠ v → ∃ q, (u, q) ∈ setW s.workers v pc' ∧ ErrPc q :=
    fun hne => ⟨pc, mem_setW_of_ne hne hu, he⟩
  cases h with
  | spawn _ _ => exact .inl ⟨pc, by simp only [putSched_workers]; exact List.mem_cons_of_mem _ hu, he⟩
  | @wBeginSkip v hw _ =>
    by_cases e : u = v
    · subst e; have := pc_unique hA.wkNodup (mem_of_wpc hw) hu; subst this
      rcases he with h | h | h <;> cases h
    · exact .inl (other e)
  | @wBegin v hw _ =>
    by_cases e : u = v
    · subst e; have := pc_unique hA.wkNodup (mem_of_wpc hw) hu; subst this
      rcases he with h | h | h <;> cases h
    · exact .inl (other e)
  | @wReturn v b hw =>
    by_cases e : u = v
    · subst e; have := pc_unique hA.wkNodup (mem_of_wpc hw) hu; subst this
      rcases he with h | h | h <;> cases h
    · exact .inl (other e)
  | @wDone v b hw =>
    by_cases e : u = v
    · subst e; have := pc_unique hA.wkNodup (mem_of_wpc hw) hu; subst this
      rcases he with h | h | h <;> cases h
      exact .inl ⟨_, mem_setW_self hu, .inr (.inl rfl)⟩
    · exact .inl (other e)
  | @wSend v b hw =>
    by_cases e : u = v
    · subst e; have := pc_unique hA.wkNodup (mem_of_wpc hw) hu; subst this
      rcases he with h | h | h <;> cases h
      exact .inl ⟨_, mem_setW_self hu, .inr (.inr rfl)⟩
    · exact .inl (other e)
  | @wExit v b hw =>
    by_cases e : u = v
    · subst e; have := pc_unique hA.wkNodup (mem_of_wpc hw) hu; subst this
      rcases he with h | h | h <;> cases h
      exact .inr ⟨rfl, hu⟩
    · exact .inl ⟨pc, mem_filter_ne.mpr ⟨hu, e⟩, he⟩
  | _ => exact .inl ⟨pc, by simpa using hu, he⟩

theorem invE_step {g : Graph} {lim : Option Nat} {s s' : St} {l : Label}
    (h : Step g lim s l s') (hA : InvA s) (hE : InvE s) : InvE s' := by
  have hlog := step_log h
  have herr := step_errs h
  have hmem_sub : ∀ x, x ∈ s.log → x ∈ s'.log := by
    intro x hx
    rcases hlog with e | ⟨v, _, _, _, e⟩ | ⟨v, b, _, _, e⟩ <;> rw [e] <;> simp [hx]
  have hexits_sub : ∀ x, x ∈ s.errExits → x ∈ s'.errExits := by
    intro x hx
    rcases herr with ⟨e, _, _, _⟩ | ⟨v, _, _, e, _, _, _⟩ | ⟨_, e, _, _, _⟩ <;> rw [e] <;> simp [hx]
  refine ⟨?_, ?_, ?_, ?_, ?_⟩
  · -- errLate
    intro u pc hu he
    rcases step_worker_new h u pc hu with h1 | h1
    · exact hmem_sub _ (hE.errLate u pc h1 he)
    · cases h1 with
      | spawn _ => rcases he with h | h | h <;> cases h
      | beginSkip _ _ => rcases he with h | h | h <;> cases h
      | begin _ _ => rcases he with h | h | h <;> cases h
      | @ret v b hw =>
        have hb : b = true := by rcases he with h | h | h <;> cases h; rfl
        subst hb
        rcases hlog with e | ⟨v', hl, _, _, e⟩ | ⟨v', b', hl, _, e⟩
        · cases h with
          | wReturn _ => simp at e
        · cases hl
        · cases hl; rw [e]; simp
      | @done v b hw =>
        have hb : b = true := by rcases he with h | h | h <;> cases h; rfl
        subst hb
        exact hmem_sub _ (hE.errLate u _ hw (.inl rfl))
      | @send v b hw =>
        have hb : b = true := by rcases he with h | h | h <;> cases h; rfl
        subst hb
        exact hmem_sub _ (hE.errLate u _ hw (.inr (.inl rfl)))
  · -- errExitsFin
    intro u hu
    rcases herr with ⟨e, _, _, _⟩ | ⟨v, _, hw, e, _, _, _⟩ | ⟨_, e, _, _, _⟩
    · rw [e] at hu; exact hmem_sub _ (hE.errExitsFin u hu)
    · rw [e, List.mem_cons] at hu
      rcases hu with rfl | hu
      · exact hmem_sub _ (hE.errLate _ _ hw (.inr (.inr rfl)))
      · exact hmem_sub _ (hE.errExitsFin u hu)
    · rw [e] at hu; exact hmem_sub _ (hE.errExitsFin u hu)
  · -- firstErrLast
    rcases herr with ⟨e1, e2, _, _⟩ | ⟨v, _, _, e1, e2, _, _⟩ | ⟨_, e1, e2, _, _⟩
    · rw [e1, e2]; exact hE.firstErrLast
    rotate_left
    · rw [e1, e2]; exact hE.firstErrLast
    · rw [e1, e2, hE.firstErrLast]
      cases hx : s.errExits with
      | nil => simp
      | cons b r =>
        rw [getLast?_cons_of_ne_nil v (by simp)]
        cases hl : (b :: r).getLast? with
        | some x => rfl
        | none => simp at hl
  · -- cancelledIff
    rcases herr with ⟨e1, _, e3, e4⟩ | ⟨v, _, _, e1, _, e3, e4⟩ | ⟨_, e1, _, e3, e4⟩
    · rw [e1, e3, e4]; exact hE.cancelledIff
    · rw [e1, e3, e4]; simp
    · rw [e1, e3, e4]; simp
  · -- errAccounted
    intro u hu
    have old : Ev.finish u true ∈ s.log → (∃ pc, (u, pc) ∈ s'.workers ∧ ErrPc pc) ∨ u ∈ s'.errExits := by
      intro h0
      rcases hE.errAccounted u h0 with ⟨pc, hpc, he⟩ | hx
      · rcases step_err_keep h hA u pc hpc he with h1 | ⟨hl, hw⟩
        · exact .inl h1
        · right
          rcases herr with ⟨e, _, _, _⟩ | ⟨v, hl2, _, e, _, _, _⟩ | ⟨hl2, _, _, _, _⟩
          · subst hl
            cases h with
            | @wExit _ b hw2 =>
              have := pc_unique hA.wkNodup (mem_of_wpc hw2) hw
              cases this
              simp
          · rw [hl] at hl2; cases hl2; rw [e]; simp
          · rw [hl] at hl2; cases hl2
      · exact .inr (hexits_sub u hx)
    rcases hlog with e | ⟨v, _, _, _, e⟩ | ⟨v, b, hl, hw, e⟩
    · rw [e] at hu; exact old hu
    · rw [e] at hu; simp only [List.mem_cons] at hu
      rcases hu with hu | hu
      · cases hu
      · exact old hu
    · rw [e] at hu; simp only [List.mem_cons] at hu
      rcases hu with hu | hu
      · cases hu
        left
        subst hl
        cases h with
        | wReturn _ => exact ⟨_, mem_setW_self hw, .inl rfl⟩
      · exact old hu

/-! ### the semaphore -/

structure InvS (g : Graph) (lim : Option Nat) (s : St) : Prop where
  semLe : ∀ l, lim = some l → sem s ≤ l + 1
  /-- the coordinator ends only on cancellation or after it has received every vertex -/
  cDeadWhy : s.cAlive = false → s.cancelled = true ∨ ∀ v ∈ g.verts, v ∈ s.received
  /-- … and when it ends on cancellation the caller has already left the extremities loop (`<-spawned`), so nobody
  can start a worker any more and the workers alive then fit the limit -/
  cDeadBound : s.cAlive = false → (∀ v ∈ g.verts, v ∈ s.received) ∨ (s.m = none ∧ ∀ l, lim = some l → s.workers.length ≤ l)

theorem init_invS (g : Graph) (lim : Option Nat) : InvS g lim (init g) := by
  refine ⟨?_, ?_, ?_⟩
  · intro l _; simp [sem, init]
  · intro h; simp [init] at h
  · intro h; simp [init] at h

theorem setW_length (ws : List (V × WPc)) (v : V) (pc : WPc) : (setW ws v pc).length = ws.length := by
  simp [setW]

theorem step_sem {g : Graph} {lim : Option Nat} {s s' : St} {l : Label} (h : Step g lim s l s') :
    sem s' ≤ sem s ∨ (slotFree lim s = true ∧ sem s' = sem s + 1) := by
  cases h with
  | spawn _ hfree => right; refine ⟨hfree, ?_⟩; simp [sem]; omega
  | @wExit v e _ =>
    left; simp only [sem]
    have := List.length_filter_le (fun (p : V × WPc) => decide (p.1 ≠ v)) s.workers
    omega
  | cRecvLast ha _ _ _ => left; simp [sem, ha]
  | cCtxDone ha _ _ _ => left; simp [sem, ha]
  | _ => left; simp [sem, setW_length]

/-- a duplicate-free list inside `verts` of the same length contains every vertex -/
theorem all_of_length {verts l : List V} (hl : l.Nodup) (hsub : ∀ v ∈ l, v ∈ verts)
    (hlen : verts.length ≤ l.length) : ∀ v ∈ verts, v ∈ l := by
  intro x hx
  apply Classical.byContradiction
  intro hn
  have hsub' : l ⊆ verts.erase x := by
    intro y hy
    have hne : y ≠ x := by rintro rfl; exact hn hy
    exact (List.mem_erase_of_ne hne).mpr (hsub y hy)
  have h1 := hl.length_le_of_subset hsub'
  rw [List.length_erase_of_mem hx] at h1
  have := List.length_pos_of_mem hx
  omega

theorem step_cancelled_mono {g : Graph} {lim : Option Nat} {s s' : St} {l : Label} (h : Step g lim s l s')
    (hc : s.cancelled = true) : s'.cancelled = true := by
  cases h <;> simp [hc]

theorem step_received_sub {g : Graph} {lim : Option Nat} {s s' : St} {l : Label} (h : Step g lim s l s') (u : V)
    (hu : u ∈ s.received) : u ∈ s'.received := by
  cases h <;> simp [hu]

theorem step_m_none {g : Graph} {lim : Option Nat} {s s' : St} {l : Label} (h : Step g lim s l s')
    (hm : s.m = none) : s'.m = none := by
  have sched : ∀ {w : Who} {y : Sched} (x : Option Sched) (s1 : St), getSched s w = some y → s1.m = s.m →
      (putSched s1 w x).m = none := by
    intro w y x s1 hs h1
    cases w with
    | M => simp [getSched, hm] at hs
    | C => simp [putSched, h1, hm]
  cases h with
  | schedNext hs _ => exact sched _ s hs rfl
  | schedEnd hs => exact sched _ s hs rfl
  | readyT hs _ => exact sched _ s hs rfl
  | readyF hs _ => exact sched _ s hs rfl
  | enterT hs _ => exact sched _ _ hs rfl
  | enterF hs _ => exact sched _ s hs rfl
  | spawn hs _ => exact sched _ _ hs rfl
  | _ => exact hm

theorem step_workers_len {g : Graph} {lim : Option Nat} {s s' : St} {l : Label} (h : Step g lim s l s') :
    s'.workers.length ≤ s.workers.length ∨ ∃ w y, getSched s w = some y := by
  cases h with
  | spawn hs _ => exact .inr ⟨_, _, hs⟩
  | @wExit v e _ =>
    left
    exact List.length_filter_le (fun (p : V × WPc) => decide (p.1 ≠ v)) s.workers
  | _ => left; simp [setW_length]

theorem invS_step {g : Graph} {lim : Option Nat} {s s' : St} {l : Label} (hg : GraphOK g)
    (h : Step g lim s l s') (hA : InvA s) (hB : InvB g s) (hS : InvS g lim s) : InvS g lim s' := by
  refine ⟨?_, ?_, ?_⟩
  · intro n hn
    rcases step_sem h with h1 | ⟨hfree, h1⟩
    · have := hS.semLe n hn; omega
    · subst hn
      simp only [slotFree, decide_eq_true_eq] at hfree
      omega
  · intro ha'
    cases ha : s.cAlive with
    | false =>
      rcases hS.cDeadWhy ha with hc | hall
      · exact .inl (step_cancelled_mono h hc)
      · exact .inr (fun v hv => step_received_sub h v (hall v hv))
    | true =>
      cases h with
      | @cRecvLast v rest _ hc hch hex =>
        right
        have ⟨he, h1⟩ := hB.expectEq ha
        have hA' := invA_step (.cRecvLast (g := g) (lim := lim) ha hc hch hex) hA
        have hB' := invB_step hg (.cRecvLast (g := g) (lim := lim) ha hc hch hex) hA hB
        have hnd : (v :: s.received).Nodup := by
          have := hA'.chRecvNodup
          exact (List.nodup_append.mp this).2.1
        refine all_of_length hnd (fun u hu => hB'.recvSub u (.inr hu)) ?_
        simp only [List.length_cons]; omega
      | cCtxDone _ _ hcan _ => exact .inl hcan
      | _ => simp_all
  · intro ha'
    cases ha : s.cAlive with
    | false =>
      rcases hS.cDeadBound ha with hall | ⟨hm, hlen⟩
      · exact .inl (fun v hv => step_received_sub h v (hall v hv))
      · right
        refine ⟨step_m_none h hm, ?_⟩
        intro n hn
        rcases step_workers_len h with h1 | ⟨w, y, hw⟩
        · have := hlen n hn; omega
        · cases w with
          | M => simp [getSched, hm] at hw
          | C => simp [getSched, ha] at hw
    | true =>
      cases h with
      | @cRecvLast v rest _ hc hch hex =>
        left
        have ⟨he, h1⟩ := hB.expectEq ha
        have hA' := invA_step (.cRecvLast (g := g) (lim := lim) ha hc hch hex) hA
        have hB' := invB_step hg (.cRecvLast (g := g) (lim := lim) ha hc hch hex) hA hB
        have hnd : (v :: s.received).Nodup := by
          have := hA'.chRecvNodup
          exact (List.nodup_append.mp this).2.1
        refine all_of_length hnd (fun u hu => hB'.recvSub u (.inr hu)) ?_
        simp only [List.length_cons]; omega
      | cCtxDone _ _ _ hm =>
        right
        refine ⟨hm, ?_⟩
        intro n hn
        have := hS.semLe n hn
        simp only [sem, ha, if_true] at this
        show s.workers.length ≤ n
        omega
      | _ => simp_all

/-! ### everything together -/

structure Inv (g : Graph) (lim : Option Nat) (s : St) : Prop where
  a : InvA s
  b : InvB g s
  l : InvL g s
  e : InvE s
  s : InvS g lim s

theorem init_inv (g : Graph) (hg : GraphOK g) (lim : Option Nat) : Inv g lim (init g) :=
  ⟨init_invA g, init_invB g hg, init_invL g, init_invE g, init_invS g lim⟩

theorem inv_step {g : Graph} {lim : Option Nat} {s s' : St} {l : Label} (hg : GraphOK g)
    (h : Step g lim s l s') (hI : Inv g lim s) : Inv g lim s' :=
  ⟨invA_step h hI.a, invB_step hg h hI.a hI.b, invL_step h hI.a hI.b hI.l, invE_step h hI.a hI.e, invS_step hg h hI.a hI.b hI.s⟩

theorem reach_inv {g : Graph} {lim : Option Nat} (hg : GraphOK g) {s : St} (h : Reach g lim s) : Inv g lim s := by
  induction h with
  | init => exact init_inv g hg lim
  | step _ hs ih => exact inv_step hg (step?_sound hs) ih

theorem reach_runL {g : Graph} {lim : Option Nat} {s s' : St} (h : Reach g lim s) (ls : List Label)
    (hr : runL g lim s ls = some s') : Reach g lim s' := by
  induction ls generalizing s with
  | nil => simp [runL] at hr; subst hr; exact h
  | cons l r ih =>
    simp only [runL] at hr
    cases hs : step? g lim s l with
    | none => simp [hs] at hr
    | some s1 => simp [hs] at hr; exact ih (.step h hs) hr

end CV.Trav
