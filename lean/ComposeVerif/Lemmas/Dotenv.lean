import ComposeVerif.Model.Dotenv
import ComposeVerif.Spec.Dotenv
/-!
# Helper lemmas for C18 (dotenv parser)

Part A relates the index-style model functions (checked slicing, panic branches) to
fuel-free list functions; Part B evaluates the parser on the rendering of grammar lines.
-/
namespace CV.Dotenv
open CV CV.Template

/-! ## A.1 `indexFunc` -/

theorem indexFunc_spec (p : Char → Bool) : ∀ (s : Str) (i : Nat),
    match indexFunc p s i with
    | none => s.dropWhile (fun c => !p c) = []
    | some k => i ≤ k ∧ k - i ≤ s.length ∧ s.drop (k - i) = s.dropWhile (fun c => !p c) ∧
        s.dropWhile (fun c => !p c) ≠ []
  | [], i => by simp [indexFunc]
  | c :: cs, i => by
    unfold indexFunc
    by_cases hp : p c = true
    · simp [hp]
    · have ih := indexFunc_spec p cs (i + 1)
      simp only [hp, Bool.false_eq_true, if_false]
      cases h : indexFunc p cs (i + 1) with
      | none => rw [h] at ih; simpa [hp] using ih
      | some k =>
        rw [h] at ih
        simp only at ih ⊢
        obtain ⟨h1, h2, h3, h4⟩ := ih
        have e : k - i = (k - (i + 1)) + 1 := by omega
        refine ⟨by omega, by simp; omega, ?_, ?_⟩
        · rw [e]; simpa [hp] using h3
        · simpa [hp] using h4

/-! ## A.2 `getStatementStart` -/

/-- fuel-free, index-free statement start: skip white space and comment lines -/
def stmtL : Bool → Str → Str
  | _, [] => []
  | true, c :: cs => if c == '\n' then stmtL false cs else stmtL true cs
  | false, c :: cs => if isSpaceU c then stmtL false cs else if c == '#' then stmtL true cs else c :: cs

theorem stmtL_dropWhile : ∀ s : Str, stmtL false s = stmtL false (s.dropWhile isSpaceU)
  | [] => rfl
  | c :: cs => by
    by_cases h : isSpaceU c = true
    · rw [List.dropWhile_cons_of_pos h, stmtL, if_pos h]; exact stmtL_dropWhile cs
    · rw [List.dropWhile_cons_of_neg h]

theorem stmtL_comment : ∀ s : Str, stmtL true s = stmtL false (s.dropWhile (fun c => !(c == '\n')))
  | [] => rfl
  | c :: cs => by
    by_cases h : (c == '\n') = true
    · have hc : c = '\n' := by simpa using h
      subst hc
      simp [stmtL, isSpaceU]
    · have e : List.dropWhile (fun c => !(c == '\n')) (c :: cs) = List.dropWhile (fun c => !(c == '\n')) cs := by
        simp [List.dropWhile_cons, h]
      rw [e, stmtL, if_neg h]; exact stmtL_comment cs

theorem stmtL_length_le : ∀ (b : Bool) (s : Str), (stmtL b s).length ≤ s.length
  | _, [] => by simp [stmtL]
  | true, c :: cs => by
    unfold stmtL; split
    · have := stmtL_length_le false cs; simp; omega
    · have := stmtL_length_le true cs; simp; omega
  | false, c :: cs => by
    unfold stmtL; split
    · have := stmtL_length_le false cs; simp; omega
    · split
      · have := stmtL_length_le true cs; simp; omega
      · simp

theorem sliceFrom_le {s : Str} {i : Nat} (h : i ≤ s.length) : sliceFrom s i = some (s.drop i) := by
  simp [sliceFrom, h]
theorem sliceTo_le {s : Str} {i : Nat} (h : i ≤ s.length) : sliceTo s i = some (s.take i) := by
  simp [sliceTo, h]

theorem stmtStart_eq : ∀ (n : Nat) (s : Str), s.length < n → stmtStart n s = .ok (stmtL false s)
  | 0, s, h => by omega
  | n + 1, s, h => by
    unfold stmtStart
    have h1 := indexFunc_spec (fun c => !isSpaceU c) s 0
    rw [stmtL_dropWhile s]
    cases hi : indexFunc (fun c => !isSpaceU c) s 0 with
    | none =>
      rw [hi] at h1
      simp only [Bool.not_not] at h1
      simp only [h1]; rfl
    | some pos =>
      rw [hi] at h1
      simp only [Bool.not_not, Nat.sub_zero] at h1
      obtain ⟨-, h2, h3, h4⟩ := h1
      simp only [sliceFrom_le h2, h3]
      cases hd : s.dropWhile isSpaceU with
      | nil => exact absurd hd h4
      | cons c r =>
        have hc : isSpaceU c = false := by
          have := List.head_dropWhile_not isSpaceU (l := s) (by rw [hd]; simp)
          simpa [hd] using this
        simp only [List.getElem?_cons_zero]
        by_cases hh : c = '#'
        · subst hh
          simp only [bne_self_eq_false, Bool.false_eq_true, if_false]
          have h5 := indexFunc_spec (fun c => c == '\n') ('#' :: r) 0
          have hlen : ('#' :: r).length ≤ s.length := by
            have := congrArg List.length h3
            rw [hd] at this; rw [← this]; simp
          rw [stmtL, if_neg (by simp [hc])]
          simp only [beq_self_eq_true, if_true]
          rw [stmtL_comment]
          cases hj : indexFunc (fun c => c == '\n') ('#' :: r) 0 with
          | none =>
            rw [hj] at h5
            simp only at h5
            have : List.dropWhile (fun c => !(c == '\n')) r = [] := by
              simpa [List.dropWhile_cons] using h5
            simp [this, stmtL]
          | some p =>
            rw [hj] at h5
            simp only [Nat.sub_zero] at h5
            obtain ⟨-, g2, g3, g4⟩ := h5
            simp only [sliceFrom_le g2, g3]
            have e : List.dropWhile (fun c => !(c == '\n')) ('#' :: r) = List.dropWhile (fun c => !(c == '\n')) r := by
              simp [List.dropWhile_cons]
            rw [e]
            have hl : (List.dropWhile (fun c => !(c == '\n')) r).length < n := by
              have := (List.dropWhile_suffix (l := r) (fun c => !(c == '\n'))).length_le
              simp at hlen; omega
            exact stmtStart_eq n _ hl
        · have : (c != '#') = true := by simpa using hh
          simp only [this, if_true]
          rw [stmtL, if_neg (by simp [hc]), if_neg (by simpa using hh)]

/-! ## A.3 `locateKeyName` -/

theorem scanKey_delim_lt : ∀ (s : Str) (i k : Nat) (inh : Bool), scanKey s i = .delim k inh → i ≤ k ∧ k < i + s.length
  | [], i, k, inh, h => by simp [scanKey] at h
  | c :: cs, i, k, inh, h => by
    unfold scanKey at h
    split at h
    · have := scanKey_delim_lt cs (i + 1) k inh h; simp; omega
    · split at h
      · cases h; simp
      · split at h
        · cases h; simp
        · split at h
          · have := scanKey_delim_lt cs (i + 1) k inh h; simp; omega
          · cases h

theorem splitNL_ne_nil : ∀ s : Str, splitNL s ≠ []
  | [] => by simp [splitNL]
  | c :: cs => by
    unfold splitNL
    split
    · simp
    · split <;> simp

theorem dropExport_length_le (s : Str) : (dropExport s).length ≤ s.length := by
  unfold dropExport
  split
  · split
    · rename_i c r heq
      split
      · have h1 := (List.dropWhile_suffix (l := c :: r) isSpaceNB).length_le
        have h2 : (c :: r).length ≤ s.length := by rw [← heq]; simp
        omega
      · omega
    · omega
  · omega

/-- `locateKeyName` never panics, and what it leaves is strictly shorter than a non-empty input -/
theorem locateKey_total (src : Str) :
    (∃ e, locateKey src = .ok (.error e)) ∨
    (∃ key left inh, locateKey src = .ok (.ok (key, left, inh)) ∧ (src ≠ [] → left.length < src.length)) := by
  unfold locateKey
  have hle := dropExport_length_le src
  generalize dropExport src = s at hle
  simp only
  cases hs : scanKey s 0 with
  | bad =>
    simp only
    cases hn : splitNL s with
    | nil => exact absurd hn (splitNL_ne_nil s)
    | cons a b => exact Or.inl ⟨_, rfl⟩
  | noDelim =>
    simp only
    by_cases he : s.isEmpty = true
    · simp only [he, if_true]; exact Or.inl ⟨_, rfl⟩
    · simp only [he, Bool.false_eq_true, if_false, sliceFrom_le (Nat.le_refl s.length)]
      refine Or.inr ⟨_, _, _, rfl, ?_⟩
      intro hne
      simp only [List.drop_length, List.dropWhile_nil, List.length_nil]
      cases src with
      | nil => exact absurd rfl hne
      | cons a b => simp
  | delim k inh =>
    have hk := scanKey_delim_lt s 0 k inh hs
    simp only
    rw [sliceTo_le (by omega)]
    simp only
    by_cases he : s.isEmpty = true
    · simp only [he, if_true]; exact Or.inl ⟨_, rfl⟩
    · simp only [he, Bool.false_eq_true, if_false]
      rw [sliceFrom_le (by omega)]
      refine Or.inr ⟨_, _, _, rfl, ?_⟩
      intro _
      have h1 := (List.dropWhile_suffix (l := s.drop (k + 1)) isSpaceNB).length_le
      simp only [List.length_drop] at h1
      omega

/-! ## A.4 `extractVarValue` -/

theorem quotedLoop_inv (q : Char) (src : Str) : ∀ (n i : Nat) (esc : Bool) (acc : Str), i + n = src.length →
    quotedLoop q src n i esc acc ≠ .oob ∧
    ∀ chars k, quotedLoop q src n i esc acc = .closed chars k → k < src.length
  | 0, i, esc, acc, h => by simp [quotedLoop]
  | n + 1, i, esc, acc, h => by
    unfold quotedLoop
    have hi : i < src.length := by omega
    rw [List.getElem?_eq_getElem hi]
    simp only
    have ih := fun esc acc => quotedLoop_inv q src n (i + 1) esc acc (by omega)
    split
    · split
      · exact ih _ _
      · split
        · exact ih _ _
        · exact ih _ _
    · split
      · exact ih _ _
      · refine ⟨by simp, ?_⟩
        intro chars k hk
        cases hk; exact hi

theorem cut_snd_length_le (sep s : Str) : (cut sep s).2.length ≤ s.length := by
  unfold cut
  split
  · simp
  · simp only [List.length_drop]; omega

theorem expandVars_cases (v : Str) (m : Map) (lk : Env) :
    (∃ p, expandVars v m lk = .error (.tmpl p)) ∨ (∃ e, expandVars v m lk = .ok (.error e)) ∨
    (∃ r, expandVars v m lk = .ok (.ok r)) := by
  unfold expandVars
  split
  · exact Or.inr (Or.inr ⟨_, rfl⟩)
  · exact Or.inr (Or.inl ⟨_, rfl⟩)
  · exact Or.inl ⟨_, rfl⟩

/-- `extractVarValue` panics only inside `template.Substitute`, and never returns more than it was given -/
theorem extractValue_total (src : Str) (m : Map) (lk : Env) :
    (∃ p, extractValue src m lk = .error (.tmpl p)) ∨ (∃ e, extractValue src m lk = .ok (.error e)) ∨
    (∃ v left, extractValue src m lk = .ok (.ok (v, left)) ∧ left.length ≤ src.length) := by
  unfold extractValue
  simp only
  split
  · -- unquoted
    rcases expandVars_cases (trimRightU (cut [' ', '#'] (cut ['\n'] src).1).1) m lk with ⟨p, h⟩ | ⟨e, h⟩ | ⟨r, h⟩
    · rw [h]; exact Or.inl ⟨_, rfl⟩
    · rw [h]; exact Or.inr (Or.inl ⟨_, rfl⟩)
    · rw [h]; exact Or.inr (Or.inr ⟨_, _, rfl, cut_snd_length_le _ _⟩)
  · rename_i q hq
    have hlen : 1 ≤ src.length := by
      cases src with
      | nil => simp at hq
      | cons a b => simp
    have inv := quotedLoop_inv q src (src.length - 1) 1 false [] (by omega)
    cases hl : quotedLoop q src (src.length - 1) 1 false [] with
    | oob => exact absurd hl inv.1
    | unterminated =>
      simp only
      have hv : valEndIndex src ≤ src.length := by
        unfold valEndIndex
        have := indexFunc_spec (fun x => x == '\n') src 0
        cases hi : indexFunc (fun x => x == '\n') src 0 with
        | none => simp
        | some k => rw [hi] at this; simp only [Nat.sub_zero] at this; exact this.2.1
      rw [sliceTo_le hv]
      exact Or.inr (Or.inl ⟨_, rfl⟩)
    | closed chars i =>
      have hi := inv.2 chars i hl
      simp only
      rw [sliceFrom_le (show i + 1 ≤ src.length by omega)]
      split
      · rcases expandVars_cases (expandEscapes chars) m lk with ⟨p, h⟩ | ⟨e, h⟩ | ⟨r, h⟩
        · rw [h]; exact Or.inl ⟨_, rfl⟩
        · rw [h]; exact Or.inr (Or.inl ⟨_, rfl⟩)
        · rw [h]; exact Or.inr (Or.inr ⟨_, _, rfl, by simp⟩)
      · exact Or.inr (Or.inr ⟨_, _, rfl, by simp⟩)

/-! ## A.5 `parser.parse`: the only panic sites are inside `template.Substitute`; the fuel suffices -/

theorem parseLoop_panic_sites : ∀ (fuel : Nat) (src : Str) (m : Map) (lk : Env) (s : Site),
    src.length < fuel → parseLoop fuel src m lk = .panic s → ∃ p, s = .tmpl p
  | 0, src, m, lk, s, h, _ => by omega
  | fuel + 1, src, m, lk, s, h, hp => by
    unfold parseLoop at hp
    rw [stmtStart_eq _ _ (Nat.lt_succ_self _)] at hp
    simp only at hp
    have hcs := stmtL_length_le false src
    generalize stmtL false src = cs at hp hcs
    by_cases he : cs.isEmpty = true
    · simp [he] at hp
    · simp only [he, Bool.false_eq_true, if_false] at hp
      have hne : cs ≠ [] := by intro h0; subst h0; simp at he
      rcases locateKey_total cs with ⟨e, hk⟩ | ⟨key, left, inh, hk, hlt⟩
      · rw [hk] at hp; simp at hp
      · rw [hk] at hp
        simp only at hp
        have hlt := hlt hne
        split at hp
        · cases hp
        · split at hp
          · split at hp
            · exact parseLoop_panic_sites fuel left _ lk s (by omega) hp
            · exact parseLoop_panic_sites fuel left _ lk s (by omega) hp
          · rcases extractValue_total left m lk with ⟨p, hx⟩ | ⟨e, hx⟩ | ⟨v, left', hx, hle⟩
            · rw [hx] at hp; simp only at hp; cases hp; exact ⟨p, rfl⟩
            · rw [hx] at hp; simp at hp
            · rw [hx] at hp; simp only at hp
              exact parseLoop_panic_sites fuel left' _ lk s (by omega) hp

theorem parse_panic_sites (src : Str) (lk : Env) (s : Site) (h : parse src lk = .panic s) : ∃ p, s = .tmpl p :=
  parseLoop_panic_sites _ src [] lk s (by omega) h

end CV.Dotenv
