import ComposeVerif.Model.Dotenv
import ComposeVerif.Spec.Dotenv
/-!
# Helper lemmas for C18 (dotenv parser)

Part A relates the index-style model functions (checked slicing, panic branches) to
fuel-free list functions; Part B evaluates the parser on the rendering of grammar lines.
-/
namespace CV.Dotenv
open CV CV.Template

/-! ## A.1 `indexFunc` -/

theorem indexFunc_spec (p : Char → Bool) : ∀ (s : Str) (i : Nat),
    match indexFunc p s i with
    | none => s.dropWhile (fun c => !p c) = []
    | some k => i ≤ k ∧ k - i ≤ s.length ∧ s.drop (k - i) = s.dropWhile (fun c => !p c) ∧
        s.dropWhile (fun c => !p c) ≠ []
  | [], i => by simp [indexFunc]
  | c :: cs, i => by
    unfold indexFunc
    by_cases hp : p c = true
    · simp [hp]
    · have ih := indexFunc_spec p cs (i + 1)
      simp only [hp, Bool.false_eq_true, if_false]
      cases h : indexFunc p cs (i + 1) with
      | none => rw [h] at ih; simpa [hp] using ih
      | some k =>
        rw [h] at ih
        simp only at ih ⊢
        obtain ⟨h1, h2, h3, h4⟩ := ih
        have e : k - i = (k - (i + 1)) + 1 := by omega
        refine ⟨by omega, by simp; omega, ?_, ?_⟩
        · rw [e]; simpa [hp] using h3
        · simpa [hp] using h4

/-! ## A.2 `getStatementStart` -/

/-- fuel-free, index-free statement start: skip white space and comment lines -/
def stmtL : Bool → Str → Str
  | _, [] => []
  | true, c :: cs => if c == '\n' then stmtL false cs else stmtL true cs
  | false, c :: cs => if isSpaceU c then stmtL false cs else if c == '#' then stmtL true cs else c :: cs

theorem stmtL_dropWhile : ∀ s : Str, stmtL false s = stmtL false (s.dropWhile isSpaceU)
  | [] => rfl
  | c :: cs => by
    by_cases h : isSpaceU c = true
    · rw [List.dropWhile_cons_of_pos h, stmtL, if_pos h]; exact stmtL_dropWhile cs
    · rw [List.dropWhile_cons_of_neg h]

theorem stmtL_comment : ∀ s : Str, stmtL true s = stmtL false (s.dropWhile (fun c => !(c == '\n')))
  | [] => rfl
  | c :: cs => by
    by_cases h : (c == '\n') = true
    · have hc : c = '\n' := by simpa using h
      subst hc
      simp [stmtL, isSpaceU]
    · have e : List.dropWhile (fun c => !(c == '\n')) (c :: cs) = List.dropWhile (fun c => !(c == '\n')) cs := by
        simp [List.dropWhile_cons, h]
      rw [e, stmtL, if_neg h]; exact stmtL_comment cs

theorem stmtL_length_le : ∀ (b : Bool) (s : Str), (stmtL b s).length ≤ s.length
  | _, [] => by simp [stmtL]
  | true, c :: cs => by
    unfold stmtL; split
    · have := stmtL_length_le false cs; simp; omega
    · have := stmtL_length_le true cs; simp; omega
  | false, c :: cs => by
    unfold stmtL; split
    · have := stmtL_length_le false cs; simp; omega
    · split
      · have := stmtL_length_le true cs; simp; omega
      · simp

theorem sliceFrom_le {s : Str} {i : Nat} (h : i ≤ s.length) : sliceFrom s i = some (s.drop i) := by
  simp [sliceFrom, h]
theorem sliceTo_le {s : Str} {i : Nat} (h : i ≤ s.length) : sliceTo s i = some (s.take i) := by
  simp [sliceTo, h]

theorem stmtStart_eq : ∀ (n : Nat) (s : Str), s.length < n → stmtStart n s = .ok (stmtL false s)
  | 0, s, h => by omega
  | n + 1, s, h => by
    unfold stmtStart
    have h1 := indexFunc_spec (fun c => !isSpaceU c) s 0
    rw [stmtL_dropWhile s]
    cases hi : indexFunc (fun c => !isSpaceU c) s 0 with
    | none =>
      rw [hi] at h1
      simp only [Bool.not_not] at h1
      simp only [h1]; rfl
    | some pos =>
      rw [hi] at h1
      simp only [Bool.not_not, Nat.sub_zero] at h1
      obtain ⟨-, h2, h3, h4⟩ := h1
      simp only [sliceFrom_le h2, h3]
      cases hd : s.dropWhile isSpaceU with
      | nil => exact absurd hd h4
      | cons c r =>
        have hc : isSpaceU c = false := by
          have := List.head_dropWhile_not isSpaceU (l := s) (by rw [hd]; simp)
          simpa [hd] using this
        simp only [List.getElem?_cons_zero]
        by_cases hh : c = '#'
        · subst hh
          simp only [bne_self_eq_false, Bool.false_eq_true, if_false]
          have h5 := indexFunc_spec (fun c => c == '\n') ('#' :: r) 0
          have hlen : ('#' :: r).length ≤ s.length := by
            have := congrArg List.length h3
            rw [hd] at this; rw [← this]; simp
          rw [stmtL, if_neg (by simp [hc])]
          simp only [beq_self_eq_true, if_true]
          rw [stmtL_comment]
          cases hj : indexFunc (fun c => c == '\n') ('#' :: r) 0 with
          | none =>
            rw [hj] at h5
            simp only at h5
            have : List.dropWhile (fun c => !(c == '\n')) r = [] := by
              simpa [List.dropWhile_cons] using h5
            simp [this, stmtL]
          | some p =>
            rw [hj] at h5
            simp only [Nat.sub_zero] at h5
            obtain ⟨-, g2, g3, g4⟩ := h5
            simp only [sliceFrom_le g2, g3]
            have e : List.dropWhile (fun c => !(c == '\n')) ('#' :: r) = List.dropWhile (fun c => !(c == '\n')) r := by
              simp [List.dropWhile_cons]
            rw [e]
            have hl : (List.dropWhile (fun c => !(c == '\n')) r).length < n := by
              have := (List.dropWhile_suffix (l := r) (fun c => !(c == '\n'))).length_le
              simp at hlen; omega
            exact stmtStart_eq n _ hl
        · have : (c != '#') = true := by simpa using hh
          simp only [this, if_true]
          rw [stmtL, if_neg (by simp [hc]), if_neg (by simpa using hh)]

/-! ## A.3 `locateKeyName` -/

theorem scanKey_delim_lt : ∀ (s : Str) (i k : Nat) (inh : Bool), scanKey s i = .delim k inh → i ≤ k ∧ k < i + s.length
  | [], i, k, inh, h => by simp [scanKey] at h
  | c :: cs, i, k, inh, h => by
    unfold scanKey at h
    split at h
    · have := scanKey_delim_lt cs (i + 1) k inh h; simp; omega
    · split at h
      · cases h; simp
      · split at h
        · cases h; simp
        · split at h
          · have := scanKey_delim_lt cs (i + 1) k inh h; simp; omega
          · cases h

theorem splitNL_ne_nil : ∀ s : Str, splitNL s ≠ []
  | [] => by simp [splitNL]
  | c :: cs => by
    unfold splitNL
    split
    · simp
    · split <;> simp

theorem dropExport_length_le (s : Str) : (dropExport s).length ≤ s.length := by
  unfold dropExport
  split
  · split
    · rename_i c r heq
      split
      · have h1 := (List.dropWhile_suffix (l := c :: r) isSpaceNB).length_le
        have h2 : (c :: r).length ≤ s.length := by rw [← heq]; simp
        omega
      · omega
    · omega
  · omega

/-- `locateKeyName` never panics, and what it leaves is strictly shorter than a non-empty input -/
theorem locateKey_total (src : Str) :
    (∃ e, locateKey src = .ok (.error e)) ∨
    (∃ key left inh, locateKey src = .ok (.ok (key, left, inh)) ∧ (src ≠ [] → left.length < src.length)) := by
  unfold locateKey
  have hle := dropExport_length_le src
  generalize dropExport src = s at hle
  simp only
  cases hs : scanKey s 0 with
  | bad =>
    simp only
    cases hn : splitNL s with
    | nil => exact absurd hn (splitNL_ne_nil s)
    | cons a b => exact Or.inl ⟨_, rfl⟩
  | noDelim =>
    simp only
    by_cases he : s.isEmpty = true
    · simp only [he, if_true]; exact Or.inl ⟨_, rfl⟩
    · simp only [he, Bool.false_eq_true, if_false, sliceFrom_le (Nat.le_refl s.length)]
      refine Or.inr ⟨_, _, _, rfl, ?_⟩
      intro hne
      simp only [List.drop_length, List.dropWhile_nil, List.length_nil]
      cases src with
      | nil => exact absurd rfl hne
      | cons a b => simp
  | delim k inh =>
    have hk := scanKey_delim_lt s 0 k inh hs
    simp only
    rw [sliceTo_le (by omega)]
    simp only
    by_cases he : s.isEmpty = true
    · simp only [he, if_true]; exact Or.inl ⟨_, rfl⟩
    · simp only [he, Bool.false_eq_true, if_false]
      rw [sliceFrom_le (by omega)]
      refine Or.inr ⟨_, _, _, rfl, ?_⟩
      intro _
      have h1 := (List.dropWhile_suffix (l := s.drop (k + 1)) isSpaceNB).length_le
      simp only [List.length_drop] at h1
      omega

/-! ## A.4 `extractVarValue` -/

theorem quotedLoop_inv (q : Char) (src : Str) : ∀ (n i : Nat) (esc : Bool) (acc : Str), i + n = src.length →
    quotedLoop q src n i esc acc ≠ .oob ∧
    ∀ chars k, quotedLoop q src n i esc acc = .closed chars k → k < src.length
  | 0, i, esc, acc, h => by simp [quotedLoop]
  | n + 1, i, esc, acc, h => by
    unfold quotedLoop
    have hi : i < src.length := by omega
    rw [List.getElem?_eq_getElem hi]
    simp only
    have ih := fun esc acc => quotedLoop_inv q src n (i + 1) esc acc (by omega)
    split
    · split
      · exact ih _ _
      · split
        · exact ih _ _
        · exact ih _ _
    · split
      · exact ih _ _
      · refine ⟨by simp, ?_⟩
        intro chars k hk
        cases hk; exact hi

theorem cut_snd_length_le (sep s : Str) : (cut sep s).2.length ≤ s.length := by
  unfold cut
  split
  · simp
  · simp only [List.length_drop]; omega

theorem expandVars_cases (v : Str) (m : Map) (lk : Env) :
    (∃ p, expandVars v m lk = .error (.tmpl p) ∧ Template.subst (envOf lk m) v = .panic p) ∨
    (∃ e, expandVars v m lk = .ok (.error e)) ∨
    (∃ r, expandVars v m lk = .ok (.ok r)) := by
  unfold expandVars
  cases h : Template.subst (envOf lk m) v with
  | ok r => exact Or.inr (Or.inr ⟨_, rfl⟩)
  | err e => exact Or.inr (Or.inl ⟨_, rfl⟩)
  | panic p => exact Or.inl ⟨p, rfl, rfl⟩

/-- `extractVarValue` panics only inside `template.Substitute`, and never returns more than it was given -/
theorem extractValue_total (src : Str) (m : Map) (lk : Env) :
    (∃ p, extractValue src m lk = .error (.tmpl p) ∧ ∃ env v, Template.subst env v = .panic p) ∨ (∃ e, extractValue src m lk = .ok (.error e)) ∨
    (∃ v left, extractValue src m lk = .ok (.ok (v, left)) ∧ left.length ≤ src.length) := by
  unfold extractValue
  simp only
  split
  · -- unquoted
    rcases expandVars_cases (trimRightU (cut [' ', '#'] (cut ['\n'] src).1).1) m lk with ⟨p, h, hs⟩ | ⟨e, h⟩ | ⟨r, h⟩
    · rw [h]; exact Or.inl ⟨_, rfl, _, _, hs⟩
    · rw [h]; exact Or.inr (Or.inl ⟨_, rfl⟩)
    · rw [h]; exact Or.inr (Or.inr ⟨_, _, rfl, cut_snd_length_le _ _⟩)
  · rename_i q hq
    have hlen : 1 ≤ src.length := by
      cases src with
      | nil => simp [quotePrefix] at hq
      | cons a b => simp
    have inv := quotedLoop_inv q src (src.length - 1) 1 false [] (by omega)
    cases hl : quotedLoop q src (src.length - 1) 1 false [] with
    | oob => exact absurd hl inv.1
    | unterminated =>
      simp only
      have hv : valEndIndex src ≤ src.length := by
        unfold valEndIndex
        have := indexFunc_spec (fun x => x == '\n') src 0
        cases hi : indexFunc (fun x => x == '\n') src 0 with
        | none => simp
        | some k => rw [hi] at this; simp only [Nat.sub_zero] at this; exact this.2.1
      rw [sliceTo_le hv]
      exact Or.inr (Or.inl ⟨_, rfl⟩)
    | closed chars i =>
      have hi := inv.2 chars i hl
      simp only
      rw [sliceFrom_le (show i + 1 ≤ src.length by omega)]
      split
      · rcases expandVars_cases (expandEscapes chars) m lk with ⟨p, h, hs⟩ | ⟨e, h⟩ | ⟨r, h⟩
        · rw [h]; exact Or.inl ⟨_, rfl, _, _, hs⟩
        · rw [h]; exact Or.inr (Or.inl ⟨_, rfl⟩)
        · rw [h]; exact Or.inr (Or.inr ⟨_, _, rfl, by simp⟩)
      · exact Or.inr (Or.inr ⟨_, _, rfl, by simp⟩)

/-! ## A.5 `parser.parse`: the only panic sites are inside `template.Substitute`; the fuel suffices -/

theorem parseLoop_panic_sites : ∀ (fuel : Nat) (src : Str) (m : Map) (lk : Env) (s : Site),
    src.length < fuel → parseLoop fuel src m lk = .panic s →
      ∃ p, s = .tmpl p ∧ ∃ env v, Template.subst env v = .panic p
  | 0, src, m, lk, s, h, _ => by omega
  | fuel + 1, src, m, lk, s, h, hp => by
    unfold parseLoop at hp
    rw [stmtStart_eq _ _ (Nat.lt_succ_self _)] at hp
    simp only at hp
    have hcs := stmtL_length_le false src
    generalize stmtL false src = cs at hp hcs
    by_cases he : cs.isEmpty = true
    · simp [he] at hp
    · simp only [he, Bool.false_eq_true, if_false] at hp
      have hne : cs ≠ [] := by intro h0; subst h0; simp at he
      rcases locateKey_total cs with ⟨e, hk⟩ | ⟨key, left, inh, hk, hlt⟩
      · rw [hk] at hp; simp at hp
      · rw [hk] at hp
        simp only at hp
        have hlt := hlt hne
        split at hp
        · cases hp
        · split at hp
          · split at hp
            · exact parseLoop_panic_sites fuel left _ lk s (by omega) hp
            · exact parseLoop_panic_sites fuel left _ lk s (by omega) hp
          · rcases extractValue_total left m lk with ⟨p, hx, hs⟩ | ⟨e, hx⟩ | ⟨v, left', hx, hle⟩
            · rw [hx] at hp; simp only at hp; cases hp; exact ⟨p, rfl, hs⟩
            · rw [hx] at hp; simp at hp
            · rw [hx] at hp; simp only at hp
              exact parseLoop_panic_sites fuel left' _ lk s (by omega) hp

theorem parse_panic_sites (src : Str) (lk : Env) (s : Site) (h : parse src lk = .panic s) :
    ∃ p, s = .tmpl p ∧ ∃ env v, Template.subst env v = .panic p :=
  parseLoop_panic_sites _ src [] lk s (by omega) h

/-! ## B.1 character classes -/

theorem isSpaceNB_isSpaceU {c : Char} (h : isSpaceNB c = true) : isSpaceU c = true := by
  simp only [isSpaceNB, Bool.or_eq_true, beq_iff_eq] at h
  simp only [isSpaceU, Bool.or_eq_true, beq_iff_eq]
  rcases h with ((((((h | h) | h) | h) | h) | h) | h) <;> simp [h]

theorem isSpaceRE_isSpaceU {c : Char} (h : isSpaceRE c = true) : isSpaceU c = true := by
  simp only [isSpaceRE, Bool.or_eq_true, beq_iff_eq] at h
  simp only [isSpaceU, Bool.or_eq_true, beq_iff_eq]
  rcases h with ((((h | h) | h) | h) | h) <;> simp [h]

theorem isSpaceU_not_key {c : Char} (h : isSpaceU c = true) : isKeyRune c = false := by
  simp only [isSpaceU, Bool.or_eq_true, beq_iff_eq] at h
  rcases h with (((((((h | h) | h) | h) | h) | h) | h) | h) <;> subst h <;> decide

theorem key_not_spaceU {c : Char} (h : isKeyRune c = true) : isSpaceU c = false := by
  cases hs : isSpaceU c with
  | false => rfl
  | true => rw [isSpaceU_not_key hs] at h; cases h

theorem key_not_spaceNB {c : Char} (h : isKeyRune c = true) : isSpaceNB c = false := by
  cases hs : isSpaceNB c with
  | false => rfl
  | true => rw [isSpaceU_not_key (isSpaceNB_isSpaceU hs)] at h; cases h

theorem key_not_spaceRE {c : Char} (h : isKeyRune c = true) : isSpaceRE c = false := by
  cases hs : isSpaceRE c with
  | false => rfl
  | true => rw [isSpaceU_not_key (isSpaceRE_isSpaceU hs)] at h; cases h

theorem key_not_delim {c : Char} (h : isKeyRune c = true) : (c == '=' || c == ':') = false ∧ (c == '\n') = false := by
  refine ⟨?_, ?_⟩
  · cases hd : (c == '=' || c == ':') with
    | false => rfl
    | true =>
      simp only [Bool.or_eq_true, beq_iff_eq] at hd
      rcases hd with hd | hd <;> subst hd <;> revert h <;> decide
  · cases hd : (c == '\n') with
    | false => rfl
    | true =>
      simp only [beq_iff_eq] at hd
      subst hd; revert h; decide

theorem nbAll_spaceU {ws : Str} (h : nbAll ws = true) : ∀ c ∈ ws, isSpaceU c = true := by
  intro c hc
  exact isSpaceNB_isSpaceU (List.all_eq_true.mp h c hc)

/-! ## B.2 generic list facts -/

theorem dropWhile_append_all {p : Char → Bool} : ∀ {l : Str} (r : Str), (∀ x ∈ l, p x = true) →
    (l ++ r).dropWhile p = r.dropWhile p
  | [], r, _ => rfl
  | a :: l, r, h => by
    have ha : p a = true := h a (by simp)
    simp only [List.cons_append, List.dropWhile_cons, ha, if_true]
    exact dropWhile_append_all r (fun x hx => h x (by simp [hx]))

theorem dropWhile_head_neg {p : Char → Bool} {c : Char} {r : Str} (h : p c = false) : (c :: r).dropWhile p = c :: r := by
  simp [List.dropWhile_cons, h]

theorem trimRightU_append_ws (a ws : Str) (h : ∀ c ∈ ws, isSpaceU c = true) : trimRightU (a ++ ws) = trimRightU a := by
  unfold trimRightU
  rw [List.reverse_append, dropWhile_append_all _ (by intro x hx; exact h x (List.mem_reverse.mp hx))]

theorem trimRightU_id (a : Str) (h : lastNotSpace a = true) : trimRightU a = a := by
  unfold trimRightU
  unfold lastNotSpace at h
  cases hr : a.reverse with
  | nil =>
    have : a = [] := by simpa using hr
    subst this; rfl
  | cons c r =>
    have hl : a.getLast? = some c := by
      rw [List.getLast?_eq_head?_reverse, hr]; rfl
    rw [hl] at h
    simp only [Bool.not_eq_true'] at h
    rw [dropWhile_head_neg h, ← hr, List.reverse_reverse]

theorem key_lastNotSpace {k : Str} (h : k.all isKeyRune = true) : lastNotSpace k = true := by
  unfold lastNotSpace
  cases hl : k.getLast? with
  | none => rfl
  | some c =>
    have hm : c ∈ k := List.mem_of_getLast? hl
    have := key_not_spaceU (List.all_eq_true.mp h c hm)
    simp [this]

theorem key_no_space {k : Str} (h : k.all isKeyRune = true) : k.any isSpaceU = false := by
  rw [Bool.eq_false_iff]
  intro ha
  obtain ⟨c, hc, hs⟩ := List.any_eq_true.mp ha
  rw [key_not_spaceU (List.all_eq_true.mp h c hc)] at hs
  cases hs

/-! ## B.3 statement start on rendered shapes -/

theorem stmtL_skip_ws : ∀ (ws r : Str), (∀ c ∈ ws, isSpaceU c = true) → stmtL false (ws ++ r) = stmtL false r
  | [], r, _ => rfl
  | a :: ws, r, h => by
    have ha : isSpaceU a = true := h a (by simp)
    simp only [List.cons_append, stmtL, ha, if_true]
    exact stmtL_skip_ws ws r (fun x hx => h x (by simp [hx]))

theorem stmtL_nl (r : Str) : stmtL false ('\n' :: r) = stmtL false r := by
  simp [stmtL, isSpaceU]

theorem stmtL_comment_line : ∀ (t r : Str), t.all (· != '\n') = true → stmtL true (t ++ '\n' :: r) = stmtL false r
  | [], r, _ => by simp [stmtL]
  | a :: t, r, h => by
    simp only [List.all_cons, Bool.and_eq_true, bne_iff_ne, ne_eq] at h
    have ha : (a == '\n') = false := by simpa using h.1
    simp only [List.cons_append, stmtL, ha, Bool.false_eq_true, if_false]
    exact stmtL_comment_line t r h.2

theorem stmtL_stop {c : Char} (r : Str) (h1 : isSpaceU c = false) (h2 : c ≠ '#') : stmtL false (c :: r) = c :: r := by
  have : (c == '#') = false := by simpa using h2
  simp [stmtL, h1, this]

/-- the rest of a line after a quoted value: white space, an optional comment, the line feed -/
theorem stmtL_line_tail (trail : Str) (cmt : Option Str) (R : Str) (ht : nbAll trail = true) (hc : cmtOk cmt = true) :
    stmtL false (trail ++ (renderCmt cmt ++ '\n' :: R)) = stmtL false R := by
  rw [stmtL_skip_ws _ _ (nbAll_spaceU ht)]
  cases cmt with
  | none => simp only [renderCmt, List.nil_append]; exact stmtL_nl R
  | some t =>
    simp only [renderCmt, List.cons_append]
    have : isSpaceU '#' = false := by decide
    rw [stmtL, if_neg (by simp [this])]
    simp only [beq_self_eq_true, if_true]
    exact stmtL_comment_line t R hc

theorem parseLoop_congr : ∀ (f : Nat) (a b : Str) (m : Map) (lk : Env), stmtL false a = stmtL false b →
    parseLoop f a m lk = parseLoop f b m lk
  | 0, _, _, _, _, _ => rfl
  | f + 1, a, b, m, lk, h => by
    unfold parseLoop
    rw [stmtStart_eq _ a (Nat.lt_succ_self _), stmtStart_eq _ b (Nat.lt_succ_self _), h]

/-! ## B.4 `export` -/

theorem isPrefixOf_append_split : ∀ (p k X : Str), p.isPrefixOf (k ++ X) = true →
    p.isPrefixOf k = true ∨ ∃ c, X.head? = some c ∧ c ∈ p
  | [], k, X, _ => by simp
  | a :: p, [], X, h => by
    cases X with
    | nil => simp at h
    | cons x X =>
      simp only [List.nil_append, List.isPrefixOf, Bool.and_eq_true, beq_iff_eq] at h
      exact Or.inr ⟨x, rfl, by simp [h.1]⟩
  | a :: p, b :: k, X, h => by
    simp only [List.cons_append, List.isPrefixOf, Bool.and_eq_true, beq_iff_eq] at h
    rcases isPrefixOf_append_split p k X h.2 with h2 | ⟨c, hc, hm⟩
    · exact Or.inl (by simp [List.isPrefixOf, h.1, h2])
    · exact Or.inr ⟨c, hc, by simp [hm]⟩

theorem exportKw_key : ∀ c ∈ exportKw, isKeyRune c = true := by decide

/-- a valid key is never mistaken for the `export` keyword -/
theorem dropExport_key (key X : Str) (hk : validKey key = true) (hX : ∀ c, X.head? = some c → isKeyRune c = false) :
    dropExport (key ++ X) = key ++ X := by
  simp only [validKey, Bool.and_eq_true, Bool.or_eq_true, Bool.not_eq_true', decide_eq_true_eq] at hk
  obtain ⟨⟨_, hall⟩, hexp⟩ := hk
  unfold dropExport
  by_cases hp : exportKw.isPrefixOf (key ++ X) = true
  · rw [if_pos hp]
    rcases isPrefixOf_append_split exportKw key X hp with h1 | ⟨c, hc, hm⟩
    · have h6 : 6 < key.length := by
        rcases hexp with h | h
        · rw [h1] at h; cases h
        · exact h
      have hd : (key ++ X).drop 6 = key.drop 6 ++ X := by
        rw [List.drop_append_of_le_length (by omega)]
      rw [hd]
      cases hkd : key.drop 6 with
      | nil =>
        have := congrArg List.length hkd
        simp at this; omega
      | cons c r =>
        have hc : c ∈ key := List.mem_of_mem_drop (by rw [hkd]; simp)
        have := key_not_spaceRE (List.all_eq_true.mp hall c hc)
        simp [this]
    · have := exportKw_key c hm
      rw [hX c hc] at this; cases this
  · rw [if_neg hp]

theorem dropExport_export (ws X : Str) (hw : expOk (some ws) = true) (hX : X.dropWhile isSpaceNB = X) :
    dropExport (exportKw ++ (ws ++ X)) = X := by
  cases ws with
  | nil => simp [expOk] at hw
  | cons c r =>
    simp only [expOk, Bool.and_eq_true] at hw
    obtain ⟨⟨h1, h2⟩, h3⟩ := hw
    have hall : ∀ x ∈ c :: r, isSpaceNB x = true := by
      intro x hx
      rcases List.mem_cons.mp hx with rfl | hx
      · exact h2
      · exact List.all_eq_true.mp h3 x hx
    have e : dropExport (exportKw ++ (c :: r ++ X)) = (c :: r ++ X).dropWhile isSpaceNB := by
      simp [dropExport, exportKw, List.isPrefixOf, h1]
    rw [e, dropWhile_append_all _ hall, hX]

/-! ## B.5 `locateKeyName` on rendered lines -/

theorem scanKey_key : ∀ (k r : Str) (i : Nat), k.all isKeyRune = true → scanKey (k ++ r) i = scanKey r (i + k.length)
  | [], r, i, _ => rfl
  | c :: k, r, i, h => by
    simp only [List.all_cons, Bool.and_eq_true] at h
    have h1 := key_not_spaceNB h.1
    have h2 := key_not_delim h.1
    simp only [List.cons_append, scanKey, h1, h2.1, h2.2, h.1, Bool.false_eq_true, if_false, if_true, List.length_cons]
    rw [scanKey_key k r (i + 1) h.2]
    congr 1; omega

theorem scanKey_ws : ∀ (ws r : Str) (i : Nat), nbAll ws = true → scanKey (ws ++ r) i = scanKey r (i + ws.length)
  | [], r, i, _ => rfl
  | c :: ws, r, i, h => by
    simp only [nbAll, List.all_cons, Bool.and_eq_true] at h
    simp only [List.cons_append, scanKey, h.1, if_true, List.length_cons]
    rw [scanKey_ws ws r (i + 1) h.2]
    congr 1; omega

theorem scanKey_sep (sep : Sep) (r : Str) (i : Nat) : scanKey (sep.char :: r) i = .delim i false := by
  cases sep <;> simp [scanKey, Sep.char, isSpaceNB]

theorem scanKey_nl (r : Str) (i : Nat) : scanKey ('\n' :: r) i = .delim i true := by
  simp [scanKey, isSpaceNB]

theorem take_two (a b c : Str) : (a ++ (b ++ c)).take (a.length + b.length) = a ++ b := by
  rw [← List.append_assoc]
  exact List.take_left' (by simp)

theorem drop_two (a b : Str) (d : Char) (X : Str) : (a ++ (b ++ d :: X)).drop (a.length + b.length + 1) = X := by
  have : a ++ (b ++ d :: X) = (a ++ b ++ [d]) ++ X := by simp
  rw [this]
  exact List.drop_left' (by simp; omega)

theorem validKey_all {k : Str} (h : validKey k = true) : k.all isKeyRune = true := by
  simp only [validKey, Bool.and_eq_true] at h
  exact h.1.2

theorem validKey_ne {k : Str} (h : validKey k = true) : ∃ c r, k = c :: r ∧ isKeyRune c = true := by
  have ha := validKey_all h
  simp only [validKey, Bool.and_eq_true] at h
  cases k with
  | nil => simp at h
  | cons c r =>
    simp only [List.all_cons, Bool.and_eq_true] at ha
    exact ⟨c, r, rfl, ha.1⟩

theorem dropExport_render (exp : Option Str) (key Y : Str) (he : expOk exp = true) (hk : validKey key = true)
    (hY : ∀ c, Y.head? = some c → isKeyRune c = false) :
    dropExport (renderExp exp ++ (key ++ Y)) = key ++ Y := by
  cases exp with
  | none => simpa [renderExp] using dropExport_key key Y hk hY
  | some ws =>
    simp only [renderExp, List.append_assoc]
    apply dropExport_export ws _ he
    obtain ⟨c, r, rfl, hc⟩ := validKey_ne hk
    exact dropWhile_head_neg (key_not_spaceNB hc)

theorem head_ws_sep (ws : Str) (d : Char) (X : Str) (hw : nbAll ws = true) (hd : isKeyRune d = false) :
    ∀ c, (ws ++ d :: X).head? = some c → isKeyRune c = false := by
  intro c hc
  cases ws with
  | nil => simp at hc; subst hc; exact hd
  | cons a ws =>
    simp at hc; subst hc
    simp only [nbAll, List.all_cons, Bool.and_eq_true] at hw
    exact isSpaceU_not_key (isSpaceNB_isSpaceU hw.1)

theorem sep_not_key (sep : Sep) : isKeyRune sep.char = false := by cases sep <;> decide

theorem locateKey_assign (exp : Option Str) (key ws1 : Str) (sep : Sep) (X : Str)
    (he : expOk exp = true) (hk : validKey key = true) (h1 : nbAll ws1 = true) :
    locateKey (renderExp exp ++ (key ++ (ws1 ++ sep.char :: X))) = .ok (.ok (key, X.dropWhile isSpaceNB, false)) := by
  unfold locateKey
  rw [dropExport_render exp key _ he hk (head_ws_sep ws1 _ X h1 (sep_not_key sep))]
  simp only
  rw [scanKey_key _ _ _ (validKey_all hk), scanKey_ws _ _ _ h1, scanKey_sep]
  simp only [Nat.zero_add]
  have hlen : key.length + ws1.length + 1 ≤ (key ++ (ws1 ++ sep.char :: X)).length := by simp; omega
  rw [sliceTo_le (by omega), sliceFrom_le hlen, take_two, drop_two]
  obtain ⟨c, r, rfl, _⟩ := validKey_ne hk
  simp only [List.cons_append, List.isEmpty_cons, Bool.false_eq_true, if_false]
  rw [← List.cons_append, trimRightU_append_ws _ _ (nbAll_spaceU h1), trimRightU_id _ (key_lastNotSpace (validKey_all hk))]

theorem locateKey_bare (exp : Option Str) (key trail : Str) (X : Str)
    (he : expOk exp = true) (hk : validKey key = true) (h1 : nbAll trail = true) :
    locateKey (renderExp exp ++ (key ++ (trail ++ '\n' :: X))) = .ok (.ok (key, X.dropWhile isSpaceNB, true)) := by
  unfold locateKey
  rw [dropExport_render exp key _ he hk (head_ws_sep trail _ X h1 (by decide))]
  simp only
  rw [scanKey_key _ _ _ (validKey_all hk), scanKey_ws _ _ _ h1, scanKey_nl]
  simp only [Nat.zero_add]
  have hlen : key.length + trail.length + 1 ≤ (key ++ (trail ++ '\n' :: X)).length := by simp; omega
  rw [sliceTo_le (by omega), sliceFrom_le hlen, take_two, drop_two]
  obtain ⟨c, r, rfl, _⟩ := validKey_ne hk
  simp only [List.cons_append, List.isEmpty_cons, Bool.false_eq_true, if_false]
  rw [← List.cons_append, trimRightU_append_ws _ _ (nbAll_spaceU h1), trimRightU_id _ (key_lastNotSpace (validKey_all hk))]

/-! ## B.6 cuts -/

theorem indexOfGo_single (c : Char) (b : Str) : ∀ (a : Str) (i : Nat), (∀ x ∈ a, x ≠ c) →
    indexOfGo [c] (a ++ c :: b) i = some (i + a.length)
  | [], i, _ => by simp [indexOfGo, List.isPrefixOf]
  | x :: a, i, h => by
    have hx : (c == x) = false := by
      have := h x (by simp)
      simpa using fun e => this e.symm
    simp only [List.cons_append, indexOfGo, List.isPrefixOf, hx, Bool.false_and, Bool.false_eq_true, if_false]
    rw [indexOfGo_single c b a (i + 1) (fun y hy => h y (by simp [hy]))]
    simp; omega

theorem cut_single (c : Char) (a b : Str) (h : ∀ x ∈ a, x ≠ c) : cut [c] (a ++ c :: b) = (a, b) := by
  unfold cut indexOf
  rw [indexOfGo_single c b a 0 h]
  simp only [Nat.zero_add, List.length_singleton]
  have e1 : (a ++ c :: b).take a.length = a := List.take_left' rfl
  have e2 : (a ++ c :: b).drop (a.length + 1) = b := by
    have : a ++ c :: b = (a ++ [c]) ++ b := by simp
    rw [this]; exact List.drop_left' (by simp)
  rw [e1, e2]

theorem head?_append_of_ne {a b : Str} {c : Char} (hb : b.head? ≠ some c) (ha : a.head? ≠ some c) : (a ++ b).head? ≠ some c := by
  cases a with
  | nil => simpa using hb
  | cons x a => simpa using ha

theorem indexOfGo_sphash (b : Str) : ∀ (a : Str) (i : Nat), noSpHash a = true →
    indexOfGo [' ', '#'] (a ++ ' ' :: '#' :: b) i = some (i + a.length)
  | [], i, _ => by simp [indexOfGo, List.isPrefixOf]
  | x :: a, i, h => by
    simp only [noSpHash, Bool.and_eq_true, Bool.not_eq_true', Bool.and_eq_false_iff] at h
    have hp : [' ', '#'].isPrefixOf (x :: (a ++ ' ' :: '#' :: b)) = false := by
      rcases h.1 with h1 | h1
      · have : (' ' == x) = false := by
          simp only [beq_eq_false_iff_ne, ne_eq] at h1 ⊢
          exact fun e => h1 e.symm
        simp [List.isPrefixOf, this]
      · cases a with
        | nil => simp [List.isPrefixOf]
        | cons y a =>
          have : ('#' == y) = false := by
            simp only [List.head?_cons, beq_eq_false_iff_ne, ne_eq, Option.some.injEq] at h1 ⊢
            exact fun e => h1 e.symm
          simp [List.isPrefixOf, this]
    simp only [List.cons_append, indexOfGo]
    rw [← List.cons_append] at hp
    simp only [List.cons_append] at hp
    rw [hp]
    simp only [Bool.false_eq_true, if_false]
    rw [indexOfGo_sphash b a (i + 1) h.2]
    simp; omega

theorem cut_sphash (a b : Str) (h : noSpHash a = true) : cut [' ', '#'] (a ++ ' ' :: '#' :: b) = (a, b) := by
  unfold cut indexOf
  rw [indexOfGo_sphash b a 0 h]
  simp only [Nat.zero_add]
  have e1 : (a ++ ' ' :: '#' :: b).take a.length = a := List.take_left' rfl
  have e2 : (a ++ ' ' :: '#' :: b).drop (a.length + [' ', '#'].length) = b := by
    have : a ++ ' ' :: '#' :: b = (a ++ [' ', '#']) ++ b := by simp
    rw [this]; exact List.drop_left' (by simp)
  rw [e1, e2]

theorem indexOfGo_none : ∀ (a : Str) (i : Nat), noSpHash a = true → indexOfGo [' ', '#'] a i = none
  | [], i, _ => by simp [indexOfGo]
  | x :: a, i, h => by
    simp only [noSpHash, Bool.and_eq_true, Bool.not_eq_true', Bool.and_eq_false_iff] at h
    have hp : [' ', '#'].isPrefixOf (x :: a) = false := by
      rcases h.1 with h1 | h1
      · have : (' ' == x) = false := by
          simp only [beq_eq_false_iff_ne, ne_eq] at h1 ⊢
          exact fun e => h1 e.symm
        simp [List.isPrefixOf, this]
      · cases a with
        | nil => simp [List.isPrefixOf]
        | cons y a =>
          have : ('#' == y) = false := by
            simp only [List.head?_cons, beq_eq_false_iff_ne, ne_eq, Option.some.injEq] at h1 ⊢
            exact fun e => h1 e.symm
          simp [List.isPrefixOf, this]
    simp only [indexOfGo, hp, Bool.false_eq_true, if_false]
    exact indexOfGo_none a (i + 1) h.2

theorem cut_none (a : Str) (h : noSpHash a = true) : cut [' ', '#'] a = (a, []) := by
  unfold cut indexOf
  rw [indexOfGo_none a 0 h]

theorem noSpHash_nohash : ∀ (b : Str), (∀ c ∈ b, c ≠ '#') → noSpHash b = true
  | [], _ => rfl
  | x :: b, h => by
    simp only [noSpHash, Bool.and_eq_true, Bool.not_eq_true', Bool.and_eq_false_iff]
    refine ⟨Or.inr ?_, noSpHash_nohash b (fun c hc => h c (by simp [hc]))⟩
    cases b with
    | nil => simp
    | cons y b =>
      have := h y (by simp)
      simpa using this

theorem noSpHash_append : ∀ (a b : Str), noSpHash a = true → (∀ c ∈ b, c ≠ '#') → noSpHash (a ++ b) = true
  | [], b, _, hb => noSpHash_nohash b hb
  | x :: a, b, h, hb => by
    simp only [noSpHash, Bool.and_eq_true, Bool.not_eq_true', Bool.and_eq_false_iff] at h
    simp only [List.cons_append, noSpHash, Bool.and_eq_true, Bool.not_eq_true', Bool.and_eq_false_iff]
    refine ⟨?_, noSpHash_append a b h.2 hb⟩
    rcases h.1 with h1 | h1
    · exact Or.inl h1
    · refine Or.inr ?_
      cases a with
      | nil =>
        cases b with
        | nil => simp
        | cons y b =>
          have := hb y (by simp)
          simpa using this
      | cons y a => simpa using h1

theorem nb_no_hash {ws : Str} (h : nbAll ws = true) : ∀ c ∈ ws, c ≠ '#' := by
  intro c hc e
  subst e
  have := List.all_eq_true.mp h _ hc
  revert this; decide

theorem nb_no_nl {ws : Str} (h : nbAll ws = true) : ∀ c ∈ ws, c ≠ '\n' := by
  intro c hc e
  subst e
  have := List.all_eq_true.mp h _ hc
  revert this; decide

/-! ## B.7 unquoted values -/

/-- the Go `(value, rest, err)` triple built from the result of `expandVariables` -/
def liftVars (x : Stage Str) (R : Str) : Stage (Str × Str) :=
  match x with
  | .error p => .error p
  | .ok (.error e) => .ok (.error e)
  | .ok (.ok r) => .ok (.ok (r, R))

theorem extractValue_plain (L R : Str) (m : Map) (lk : Env)
    (hq : ∀ c, (L ++ '\n' :: R).head? = some c → (c == '"' || c == '\'') = false)
    (hnl : ∀ x ∈ L, x ≠ '\n') :
    extractValue (L ++ '\n' :: R) m lk = liftVars (expandVars (trimRightU (cut [' ', '#'] L).1) m lk) R := by
  unfold extractValue
  have hquoted : quotePrefix (L ++ '\n' :: R) = none := by
    cases hL : L ++ '\n' :: R with
    | nil => rfl
    | cons c r =>
      have := hq c (by rw [hL]; rfl)
      simp [quotePrefix, this]
  simp only [hquoted, cut_single '\n' L R hnl]
  unfold liftVars
  rfl

theorem unqOk_parts {s : Str} (h : unqOk s = true) :
    (∀ x ∈ s, x ≠ '\n') ∧ noSpHash s = true ∧ lastNotSpace s = true ∧
    (∀ c r, s = c :: r → (c == '"' || c == '\'') = false ∧ isSpaceNB c = false) := by
  simp only [unqOk, Bool.and_eq_true] at h
  obtain ⟨⟨⟨h1, h2⟩, h3⟩, h4⟩ := h
  refine ⟨?_, h2, h3, ?_⟩
  · intro x hx
    have := List.all_eq_true.mp h1 x hx
    simpa using this
  · intro c r e
    subst e
    simp only [Bool.and_eq_true, bne_iff_ne, ne_eq, Bool.not_eq_true'] at h4
    refine ⟨?_, h4.2⟩
    simp [h4.1.1, h4.1.2]

theorem cmt_no_nl {cmt : Option Str} (h : cmtOk cmt = true) : ∀ x ∈ renderCmt cmt, x ≠ '\n' := by
  cases cmt with
  | none => simp [renderCmt]
  | some t =>
    intro x hx
    simp only [renderCmt, List.mem_cons] at hx
    rcases hx with rfl | hx
    · decide
    · have := List.all_eq_true.mp h x hx
      simpa using this

theorem extractValue_unq (s trail : Str) (cmt : Option Str) (R : Str) (m : Map) (lk : Env)
    (hs : unqOk s = true) (ht : nbAll trail = true) (hc : cmtOk cmt = true)
    (hcmt : (match cmt with
      | some _ => !s.isEmpty && trail.getLast? == some ' '
      | none => true) = true) :
    extractValue ((s ++ (trail ++ (renderCmt cmt ++ '\n' :: R))).dropWhile isSpaceNB) m lk =
      liftVars (expandVars s m lk) R := by
  obtain ⟨hnl, hsp, hlast, hhead⟩ := unqOk_parts hs
  cases s with
  | nil =>
    -- `KEY=` followed by white space only
    cases cmt with
    | some t => simp at hcmt
    | none =>
      simp only [renderCmt, List.nil_append]
      rw [dropWhile_append_all _ (fun x hx => List.all_eq_true.mp ht x hx)]
      rw [dropWhile_head_neg (by decide)]
      have := extractValue_plain [] R m lk (by intro c hc; simp at hc; subst hc; decide) (by simp)
      simp only [List.nil_append] at this
      rw [this]
      have e : cut [' ', '#'] ([] : Str) = ([], []) := cut_none [] rfl
      rw [e]; rfl
  | cons c r =>
    obtain ⟨hcq, hcnb⟩ := hhead c r rfl
    rw [List.cons_append, dropWhile_head_neg hcnb, ← List.cons_append]
    have hre : (c :: r) ++ (trail ++ (renderCmt cmt ++ '\n' :: R)) = ((c :: r) ++ (trail ++ renderCmt cmt)) ++ '\n' :: R := by
      simp
    rw [hre]
    rw [extractValue_plain _ R m lk (by intro x hx; simp at hx; subst hx; exact hcq)
      (by
        intro x hx
        simp only [List.mem_append] at hx
        rcases hx with hx | hx | hx
        · exact hnl x hx
        · exact nb_no_nl ht x hx
        · exact cmt_no_nl hc x hx)]
    congr 2
    cases cmt with
    | none =>
      simp only [renderCmt, List.append_nil]
      rw [cut_none _ (noSpHash_append _ _ hsp (nb_no_hash ht))]
      simp only
      rw [trimRightU_append_ws _ _ (nbAll_spaceU ht), trimRightU_id _ hlast]
    | some t =>
      simp only [Bool.and_eq_true, beq_iff_eq] at hcmt
      obtain ⟨t', ht'⟩ : ∃ t', trail = t' ++ [' '] := by
        have := hcmt.2
        rw [List.getLast?_eq_some_iff] at this
        exact this
      subst ht'
      have ht2 : nbAll t' = true := by
        simp only [nbAll, List.all_append, Bool.and_eq_true] at ht
        exact ht.1
      have hre2 : (c :: r) ++ (t' ++ [' '] ++ renderCmt (some t)) = ((c :: r) ++ t') ++ ' ' :: '#' :: t := by
        simp [renderCmt]
      rw [hre2, cut_sphash _ _ (noSpHash_append _ _ hsp (nb_no_hash ht2))]
      simp only
      rw [trimRightU_append_ws _ _ (nbAll_spaceU ht2), trimRightU_id _ hlast]

/-! ## B.8 quoted values -/

theorem getElem?_of_drop {src : Str} {i : Nat} {c : Char} {r : Str} (h : src.drop i = c :: r) :
    src[i]? = some c ∧ src.drop (i + 1) = r := by
  constructor
  · have : (src.drop i)[0]? = some c := by rw [h]; rfl
    rw [List.getElem?_drop] at this
    simpa using this
  · have : (src.drop i).drop 1 = r := by rw [h]; rfl
    rw [List.drop_drop] at this
    simpa [Nat.add_comm] using this

theorem quotedLoop_items (q : Char) (hq : q ≠ '\\') (src post : Str) : ∀ (items : List QItem) (i : Nat) (acc : Str),
    items.all (QItem.wf q) = true → src.drop i = renderItems q items ++ q :: post →
    quotedLoop q src ((renderItems q items).length + 1 + post.length) i false acc =
      .closed (acc ++ rawItems q items) (i + (renderItems q items).length)
  | [], i, acc, _, hd => by
    simp only [renderItems, List.nil_append] at hd
    obtain ⟨h1, _⟩ := getElem?_of_drop hd
    have e : (renderItems q ([] : List QItem)).length + 1 + post.length = post.length + 1 := by
      simp [renderItems]; omega
    rw [e, quotedLoop, h1]
    simp [renderItems, rawItems]
  | .chr c :: items, i, acc, hw, hd => by
    simp only [List.all_cons, Bool.and_eq_true, QItem.wf, bne_iff_ne, ne_eq] at hw
    simp only [renderItems, QItem.render, List.cons_append, List.nil_append] at hd
    obtain ⟨h1, h2⟩ := getElem?_of_drop hd
    have hc1 : (c != q) = true := by simpa using hw.1.1
    have hc2 : (c == '\\') = false := by simpa using hw.1.2
    have e : (renderItems q (.chr c :: items)).length + 1 + post.length =
        ((renderItems q items).length + 1 + post.length) + 1 := by
      simp [renderItems, QItem.render]; omega
    rw [e, quotedLoop, h1]
    simp only [hc1, hc2, if_true, Bool.and_false, Bool.false_eq_true, if_false]
    rw [quotedLoop_items q hq src post items (i + 1) _ hw.2 h2]
    simp [renderItems, QItem.render, rawItems, QItem.raw]; omega
  | .quote :: items, i, acc, hw, hd => by
    simp only [List.all_cons, Bool.and_eq_true] at hw
    simp only [renderItems, QItem.render, List.cons_append, List.nil_append] at hd
    obtain ⟨h1, h2⟩ := getElem?_of_drop hd
    obtain ⟨h3, h4⟩ := getElem?_of_drop h2
    have hb : ('\\' != q) = true := by simpa using fun e => hq e.symm
    have e : (renderItems q (.quote :: items)).length + 1 + post.length =
        (((renderItems q items).length + 1 + post.length) + 1) + 1 := by
      simp [renderItems, QItem.render]; omega
    rw [e, quotedLoop, h1]
    simp only [hb, if_true, Bool.not_false, Bool.true_and, beq_self_eq_true]
    rw [quotedLoop, h3]
    simp only [bne_self_eq_false, Bool.false_eq_true, if_false, if_true]
    rw [quotedLoop_items q hq src post items (i + 1 + 1) _ hw.2 h4]
    simp [renderItems, QItem.render, rawItems, QItem.raw]; omega
  | .esc c :: items, i, acc, hw, hd => by
    simp only [List.all_cons, Bool.and_eq_true, QItem.wf, bne_iff_ne, ne_eq] at hw
    simp only [renderItems, QItem.render, List.cons_append, List.nil_append] at hd
    obtain ⟨h1, h2⟩ := getElem?_of_drop hd
    obtain ⟨h3, h4⟩ := getElem?_of_drop h2
    have hb : ('\\' != q) = true := by simpa using fun e => hq e.symm
    have hc1 : (c != q) = true := by simpa using hw.1
    have e : (renderItems q (.esc c :: items)).length + 1 + post.length =
        (((renderItems q items).length + 1 + post.length) + 1) + 1 := by
      simp [renderItems, QItem.render]; omega
    rw [e, quotedLoop, h1]
    simp only [hb, if_true, Bool.not_false, Bool.true_and, beq_self_eq_true]
    rw [quotedLoop, h3]
    simp only [hc1, if_true, Bool.not_true, Bool.false_and, Bool.false_eq_true, if_false]
    rw [quotedLoop_items q hq src post items (i + 1 + 1) _ hw.2 h4]
    simp [renderItems, QItem.render, rawItems, QItem.raw]; omega

theorem extractValue_quoted (q : Char) (hq : q = '"' ∨ q = '\'') (items : List QItem) (T : Str) (m : Map) (lk : Env)
    (hw : items.all (QItem.wf q) = true) :
    extractValue (q :: (renderItems q items ++ q :: T)) m lk =
      if q == '"' then liftVars (expandVars (expandEscapes (rawItems q items)) m lk) T
      else .ok (.ok (rawItems q items, T)) := by
  have hqb : q ≠ '\\' := by rcases hq with rfl | rfl <;> decide
  have hqp : quotePrefix (q :: (renderItems q items ++ q :: T)) = some q := by
    rcases hq with rfl | rfl <;> simp [quotePrefix]
  unfold extractValue
  rw [hqp]
  simp only
  have hlen : (q :: (renderItems q items ++ q :: T)).length - 1 = (renderItems q items).length + 1 + T.length := by
    simp; omega
  rw [hlen, quotedLoop_items q hqb _ T items 1 [] hw (by simp)]
  simp only [List.nil_append]
  have hs : sliceFrom (q :: (renderItems q items ++ q :: T)) (1 + (renderItems q items).length + 1) = some T := by
    rw [sliceFrom_le (by simp; omega)]
    congr 1
    have : q :: (renderItems q items ++ q :: T) = (q :: renderItems q items ++ [q]) ++ T := by simp
    rw [this]
    exact List.drop_left' (by simp; omega)
  rw [hs]
  by_cases hd : (q == '"') = true
  · simp only [hd, if_true]
    unfold liftVars
    rfl
  · simp only [hd, Bool.false_eq_true, if_false]

/-! ## B.9 one statement of the parse loop -/

theorem stmtL_dropNB : ∀ X : Str, stmtL false (X.dropWhile isSpaceNB) = stmtL false X
  | [] => rfl
  | c :: X => by
    by_cases h : isSpaceNB c = true
    · rw [List.dropWhile_cons_of_pos h, stmtL_dropNB X, stmtL, if_pos (isSpaceNB_isSpaceU h)]
    · rw [List.dropWhile_cons_of_neg h]

theorem stmtL_line_start (indent : Str) (exp : Option Str) (key Z : Str)
    (hi : nbAll indent = true) (hk : validKey key = true) :
    stmtL false (indent ++ (renderExp exp ++ (key ++ Z))) = renderExp exp ++ (key ++ Z) := by
  rw [stmtL_skip_ws _ _ (nbAll_spaceU hi)]
  cases exp with
  | some ws =>
    simp only [renderExp, exportKw, List.cons_append]
    exact stmtL_stop _ (by decide) (by decide)
  | none =>
    obtain ⟨c, r, rfl, hc⟩ := validKey_ne hk
    simp only [renderExp, List.nil_append, List.cons_append]
    refine stmtL_stop _ (key_not_spaceU hc) ?_
    intro e; subst e; revert hc; decide

theorem line_start_ne (exp : Option Str) (key Z : Str) (hk : validKey key = true) :
    (renderExp exp ++ (key ++ Z)).isEmpty = false := by
  obtain ⟨c, r, rfl, _⟩ := validKey_ne hk
  cases exp <;> simp [renderExp, exportKw]

theorem parseLoop_bare (f : Nat) (indent : Str) (exp : Option Str) (key trail X : Str) (m : Map) (lk : Env)
    (hi : nbAll indent = true) (he : expOk exp = true) (hk : validKey key = true) (ht : nbAll trail = true) :
    parseLoop (f + 1) (indent ++ (renderExp exp ++ (key ++ (trail ++ '\n' :: X)))) m lk =
      match lk key with
      | some v => parseLoop f X (put m key v) lk
      | none => parseLoop f X m lk := by
  rw [parseLoop, stmtStart_eq _ _ (Nat.lt_succ_self _)]
  simp only
  rw [stmtL_line_start indent exp key _ hi hk, line_start_ne exp key _ hk]
  simp only [Bool.false_eq_true, if_false]
  rw [locateKey_bare exp key trail X he hk ht]
  simp only [key_no_space (validKey_all hk), Bool.false_eq_true, if_false, if_true]
  cases lk key with
  | none => exact parseLoop_congr f _ _ _ _ (stmtL_dropNB X)
  | some v => exact parseLoop_congr f _ _ _ _ (stmtL_dropNB X)

/-- what the loop does with the outcome of `extractVarValue` -/
theorem parseLoop_assign_core (f : Nat) (indent : Str) (exp : Option Str) (key ws1 : Str) (sep : Sep) (X : Str)
    (m : Map) (lk : Env)
    (hi : nbAll indent = true) (he : expOk exp = true) (hk : validKey key = true) (h1 : nbAll ws1 = true) :
    parseLoop (f + 1) (indent ++ (renderExp exp ++ (key ++ (ws1 ++ sep.char :: X)))) m lk =
      match extractValue (X.dropWhile isSpaceNB) m lk with
      | .error s => .panic s
      | .ok (.error e) => .err e m
      | .ok (.ok (v, left')) => parseLoop f left' (put m key v) lk := by
  rw [parseLoop, stmtStart_eq _ _ (Nat.lt_succ_self _)]
  simp only
  rw [stmtL_line_start indent exp key _ hi hk, line_start_ne exp key _ hk]
  simp only [Bool.false_eq_true, if_false]
  rw [locateKey_assign exp key ws1 sep X he hk h1]
  simp only [key_no_space (validKey_all hk), Bool.false_eq_true, if_false]
  generalize extractValue (List.dropWhile isSpaceNB X) m lk = r
  rcases r with s | (e | ⟨v, left'⟩) <;> rfl

/-- outcome of one assignment line, given the meaning of its value -/
def assignOut (o : Template.Out) (k : Str → POut) (m : Map) : POut :=
  match o with
  | .ok s => k s
  | .err e => .err (.tmpl e) m
  | .panic p => .panic (.tmpl p)

theorem evalFrom_assign (lk : Env) (indent : Str) (exp : Option Str) (key ws1 : Str) (sep : Sep) (ws2 : Str) (v : Value)
    (trail : Str) (cmt : Option Str) (ls : List Line) (m : Map) :
    evalFrom lk (.assign indent exp key ws1 sep ws2 v trail cmt :: ls) m =
      assignOut (v.eval (envOf lk m)) (fun s => evalFrom lk ls (put m key s)) m := by
  rw [evalFrom]
  unfold assignOut
  generalize v.eval (envOf lk m) = o
  cases o <;> rfl

theorem liftVars_step (f : Nat) (key s T R : Str) (m : Map) (lk : Env) (hT : stmtL false T = stmtL false R) :
    (match liftVars (expandVars s m lk) T with
      | .error p => POut.panic p
      | .ok (.error e) => .err e m
      | .ok (.ok (v, left')) => parseLoop f left' (put m key v) lk) =
    assignOut (Template.subst (envOf lk m) s) (fun v => parseLoop f R (put m key v) lk) m := by
  unfold liftVars expandVars assignOut
  generalize Template.subst (envOf lk m) s = o
  cases o with
  | ok v => exact parseLoop_congr f _ _ _ _ hT
  | err e => rfl
  | panic p => rfl

theorem parseLoop_assign (f : Nat) (indent : Str) (exp : Option Str) (key ws1 : Str) (sep : Sep) (ws2 : Str) (v : Value)
    (trail : Str) (cmt : Option Str) (R : Str) (m : Map) (lk : Env)
    (hwf : (Line.assign indent exp key ws1 sep ws2 v trail cmt).wf = true) :
    parseLoop (f + 1) (indent ++ (renderExp exp ++ (key ++ (ws1 ++ sep.char :: (ws2 ++ (v.render ++ (trail ++ (renderCmt cmt ++ '\n' :: R)))))))) m lk =
      assignOut (v.eval (envOf lk m)) (fun s => parseLoop f R (put m key s) lk) m := by
  simp only [Line.wf, Bool.and_eq_true] at hwf
  obtain ⟨⟨⟨⟨⟨⟨⟨⟨hi, he⟩, hk⟩, h1⟩, h2⟩, hv⟩, ht⟩, hc⟩, hcm⟩ := hwf
  rw [parseLoop_assign_core f indent exp key ws1 sep _ m lk hi he hk h1]
  rw [dropWhile_append_all _ (fun x hx => List.all_eq_true.mp h2 x hx)]
  cases v with
  | unq s =>
    simp only [Value.render, Value.eval]
    rw [extractValue_unq s trail cmt R m lk hv ht hc (by cases cmt <;> simp at hcm ⊢ <;> exact hcm)]
    exact liftVars_step f key s R R m lk rfl
  | sq items =>
    simp only [Value.render, Value.eval, List.cons_append, List.append_assoc, List.nil_append]
    rw [dropWhile_head_neg (by decide)]
    rw [extractValue_quoted '\'' (Or.inr rfl) items _ m lk hv]
    simp only [show (('\'' : Char) == '"') = false by decide, Bool.false_eq_true, if_false, assignOut]
    exact parseLoop_congr f _ _ _ _ (stmtL_line_tail trail cmt R ht hc)
  | dq items =>
    simp only [Value.render, Value.eval, List.cons_append, List.append_assoc, List.nil_append]
    rw [dropWhile_head_neg (by decide)]
    rw [extractValue_quoted '"' (Or.inl rfl) items _ m lk hv]
    simp only [beq_self_eq_true, if_true]
    exact liftVars_step f key _ _ R m lk (stmtL_line_tail trail cmt R ht hc)

/-! ## B.10 whole files -/

/-- number of statements (bare keys and assignments) -/
def stmts : List Line → Nat
  | [] => 0
  | .bare _ _ _ _ :: ls => stmts ls + 1
  | .assign _ _ _ _ _ _ _ _ _ :: ls => stmts ls + 1
  | .blank _ :: ls => stmts ls
  | .comment _ _ :: ls => stmts ls

/-- continue with `k` after a successful prefix -/
def POut.andThen (o : POut) (k : Map → POut) : POut :=
  match o with
  | .ok m => k m
  | .err e m => .err e m
  | .panic s => .panic s

theorem assignOut_andThen (o : Template.Out) (g : Str → POut) (m : Map) (k : Map → POut) :
    (assignOut o g m).andThen k = assignOut o (fun s => (g s).andThen k) m := by
  cases o <;> rfl

theorem parseLoop_render (lk : Env) : ∀ (ls : List Line), WF ls = true → ∀ (f : Nat) (tail : Str) (m : Map),
    parseLoop (f + stmts ls) (render ls ++ tail) m lk =
      (evalFrom lk ls m).andThen (fun m' => parseLoop f tail m' lk)
  | [], _, f, tail, m => by simp [stmts, render, evalFrom, POut.andThen]
  | .blank ws :: ls, hwf, f, tail, m => by
    simp only [WF, List.all_cons, Bool.and_eq_true, Line.wf] at hwf
    simp only [render, Line.render, stmts, evalFrom, List.append_assoc, List.cons_append]
    rw [parseLoop_congr _ _ (render ls ++ tail) _ _ (by rw [stmtL_skip_ws _ _ (nbAll_spaceU hwf.1), stmtL_nl])]
    exact parseLoop_render lk ls hwf.2 f tail m
  | .comment ws t :: ls, hwf, f, tail, m => by
    simp only [WF, List.all_cons, Bool.and_eq_true, Line.wf] at hwf
    simp only [render, Line.render, stmts, evalFrom, List.append_assoc, List.cons_append]
    rw [parseLoop_congr _ _ (render ls ++ tail) _ _ (by
      have := stmtL_line_tail ws (some t) (render ls ++ tail) hwf.1.1 hwf.1.2
      simpa [renderCmt] using this)]
    exact parseLoop_render lk ls hwf.2 f tail m
  | .bare indent exp key trail :: ls, hwf, f, tail, m => by
    simp only [WF, List.all_cons, Bool.and_eq_true, Line.wf] at hwf
    obtain ⟨⟨⟨⟨hi, he⟩, hk⟩, ht⟩, hls⟩ := hwf
    simp only [render, Line.render, stmts, evalFrom, List.append_assoc, List.cons_append]
    rw [← Nat.add_assoc, parseLoop_bare _ indent exp key trail _ m lk hi he hk ht]
    cases lk key with
    | none => exact parseLoop_render lk ls hls f tail m
    | some v => exact parseLoop_render lk ls hls f tail _
  | .assign indent exp key ws1 sep ws2 v trail cmt :: ls, hwf, f, tail, m => by
    simp only [WF, List.all_cons, Bool.and_eq_true] at hwf
    obtain ⟨hl, hls⟩ := hwf
    rw [evalFrom_assign, assignOut_andThen]
    simp only [render, Line.render, stmts, List.append_assoc, List.cons_append]
    rw [← Nat.add_assoc, parseLoop_assign _ indent exp key ws1 sep ws2 v trail cmt _ m lk hl]
    congr 1
    funext s
    exact parseLoop_render lk ls hls f tail _

theorem stmts_le_length : ∀ ls : List Line, stmts ls ≤ (render ls).length
  | [] => by simp [stmts]
  | .blank _ :: ls => by have := stmts_le_length ls; simp [stmts, render]; omega
  | .comment _ _ :: ls => by have := stmts_le_length ls; simp [stmts, render]; omega
  | .bare _ _ _ _ :: ls => by have := stmts_le_length ls; simp [stmts, render]; omega
  | .assign _ _ _ _ _ _ _ _ _ :: ls => by have := stmts_le_length ls; simp [stmts, render]; omega

theorem parseLoop_nil (f : Nat) (m : Map) (lk : Env) : parseLoop (f + 1) [] m lk = .ok m := by
  rw [parseLoop, stmtStart_eq _ _ (Nat.lt_succ_self _)]
  rfl

/-- refinement: on the rendering of well-formed lines the parser computes the grammar's meaning -/
theorem parse_render_lemma (lk : Env) (ls : List Line) (hwf : WF ls = true) :
    parse (render ls) lk = evalLines lk ls := by
  unfold parse evalLines
  have hle := stmts_le_length ls
  obtain ⟨f, hf⟩ : ∃ f, (render ls).length + 2 = (f + 1) + stmts ls := ⟨(render ls).length + 1 - stmts ls, by omega⟩
  have := parseLoop_render lk ls hwf (f + 1) [] []
  rw [List.append_nil] at this
  rw [hf, this]
  generalize evalFrom lk ls [] = o
  cases o with
  | ok m => exact parseLoop_nil f m lk
  | err e m => rfl
  | panic s => rfl

/-! ## B.11 unterminated quotes -/

theorem valEndIndex_le (src : Str) : valEndIndex src ≤ src.length := by
  unfold valEndIndex
  have := indexFunc_spec (fun x => x == '\n') src 0
  cases hi : indexFunc (fun x => x == '\n') src 0 with
  | none => simp
  | some k => rw [hi] at this; simp only [Nat.sub_zero] at this; exact this.2.1

/-- items followed by the end of input (possibly after a lone backslash): the loop runs off the end -/
theorem quotedLoop_unterminated (q : Char) (hq : q ≠ '\\') (src t : Str) (ht : t = [] ∨ t = ['\\']) :
    ∀ (items : List QItem) (i : Nat) (acc : Str),
    items.all (QItem.wf q) = true → src.drop i = renderItems q items ++ t →
    quotedLoop q src ((renderItems q items).length + t.length) i false acc = .unterminated
  | [], i, acc, _, hd => by
    simp only [renderItems, List.nil_append] at hd
    rcases ht with rfl | rfl
    · simp [renderItems, quotedLoop]
    · obtain ⟨h1, _⟩ := getElem?_of_drop hd
      have hb : ('\\' != q) = true := by simpa using fun e => hq e.symm
      have e : (renderItems q ([] : List QItem)).length + ['\\'].length = 0 + 1 := by simp [renderItems]
      rw [e, quotedLoop, h1]
      simp [hb, quotedLoop]
  | .chr c :: items, i, acc, hw, hd => by
    simp only [List.all_cons, Bool.and_eq_true, QItem.wf, bne_iff_ne, ne_eq] at hw
    simp only [renderItems, QItem.render, List.cons_append, List.nil_append] at hd
    obtain ⟨h1, h2⟩ := getElem?_of_drop hd
    have hc1 : (c != q) = true := by simpa using hw.1.1
    have hc2 : (c == '\\') = false := by simpa using hw.1.2
    have e : (renderItems q (.chr c :: items)).length + t.length =
        ((renderItems q items).length + t.length) + 1 := by
      simp [renderItems, QItem.render]; omega
    rw [e, quotedLoop, h1]
    simp only [hc1, hc2, if_true, Bool.and_false, Bool.false_eq_true, if_false]
    exact quotedLoop_unterminated q hq src t ht items (i + 1) _ hw.2 h2
  | .quote :: items, i, acc, hw, hd => by
    simp only [List.all_cons, Bool.and_eq_true] at hw
    simp only [renderItems, QItem.render, List.cons_append, List.nil_append] at hd
    obtain ⟨h1, h2⟩ := getElem?_of_drop hd
    obtain ⟨h3, h4⟩ := getElem?_of_drop h2
    have hb : ('\\' != q) = true := by simpa using fun e => hq e.symm
    have e : (renderItems q (.quote :: items)).length + t.length =
        (((renderItems q items).length + t.length) + 1) + 1 := by
      simp [renderItems, QItem.render]; omega
    rw [e, quotedLoop, h1]
    simp only [hb, if_true, Bool.not_false, Bool.true_and, beq_self_eq_true]
    rw [quotedLoop, h3]
    simp only [bne_self_eq_false, Bool.false_eq_true, if_false, if_true]
    exact quotedLoop_unterminated q hq src t ht items (i + 1 + 1) _ hw.2 h4
  | .esc c :: items, i, acc, hw, hd => by
    simp only [List.all_cons, Bool.and_eq_true, QItem.wf, bne_iff_ne, ne_eq] at hw
    simp only [renderItems, QItem.render, List.cons_append, List.nil_append] at hd
    obtain ⟨h1, h2⟩ := getElem?_of_drop hd
    obtain ⟨h3, h4⟩ := getElem?_of_drop h2
    have hb : ('\\' != q) = true := by simpa using fun e => hq e.symm
    have hc1 : (c != q) = true := by simpa using hw.1
    have e : (renderItems q (.esc c :: items)).length + t.length =
        (((renderItems q items).length + t.length) + 1) + 1 := by
      simp [renderItems, QItem.render]; omega
    rw [e, quotedLoop, h1]
    simp only [hb, if_true, Bool.not_false, Bool.true_and, beq_self_eq_true]
    rw [quotedLoop, h3]
    simp only [hc1, if_true, Bool.not_true, Bool.false_and, Bool.false_eq_true, if_false]
    exact quotedLoop_unterminated q hq src t ht items (i + 1 + 1) _ hw.2 h4

theorem extractValue_unterminated (q : Char) (hq : q = '"' ∨ q = '\'') (items : List QItem) (t : Str)
    (ht : t = [] ∨ t = ['\\']) (m : Map) (lk : Env) (hw : items.all (QItem.wf q) = true) :
    extractValue (q :: (renderItems q items ++ t)) m lk = .ok (.error .unterminated) := by
  have hqb : q ≠ '\\' := by rcases hq with rfl | rfl <;> decide
  have hqp : quotePrefix (q :: (renderItems q items ++ t)) = some q := by
    rcases hq with rfl | rfl <;> simp [quotePrefix]
  unfold extractValue
  rw [hqp]
  simp only
  have hlen : (q :: (renderItems q items ++ t)).length - 1 = (renderItems q items).length + t.length := by
    simp
  rw [hlen, quotedLoop_unterminated q hqb _ t ht items 1 [] hw (by simp)]
  simp only
  rw [sliceTo_le (valEndIndex_le _)]

/-- an assignment whose value opens a quote that is never closed -/
theorem parseLoop_unterminated (f : Nat) (indent : Str) (exp : Option Str) (key ws1 : Str) (sep : Sep) (ws2 : Str)
    (q : Char) (hq : q = '"' ∨ q = '\'') (items : List QItem) (t : Str) (ht : t = [] ∨ t = ['\\'])
    (m : Map) (lk : Env)
    (hi : nbAll indent = true) (he : expOk exp = true) (hk : validKey key = true) (h1 : nbAll ws1 = true)
    (h2 : nbAll ws2 = true) (hw : items.all (QItem.wf q) = true) :
    parseLoop (f + 1) (indent ++ (renderExp exp ++ (key ++ (ws1 ++ sep.char :: (ws2 ++ q :: (renderItems q items ++ t)))))) m lk =
      .err .unterminated m := by
  rw [parseLoop_assign_core f indent exp key ws1 sep _ m lk hi he hk h1]
  rw [dropWhile_append_all _ (fun x hx => List.all_eq_true.mp h2 x hx)]
  have hnb : isSpaceNB q = false := by rcases hq with rfl | rfl <;> decide
  rw [dropWhile_head_neg hnb, extractValue_unterminated q hq items t ht m lk hw]

/-! ## B.12 invalid keys -/

/-- characters the key scanner steps over -/
def okChar (c : Char) : Bool := isKeyRune c || isSpaceNB c
/-- characters the key scanner rejects -/
def badChar (c : Char) : Bool := !isKeyRune c && !isSpaceNB c && c != '=' && c != ':' && c != '\n'

theorem scanKey_ok : ∀ (K r : Str) (i : Nat), K.all okChar = true → scanKey (K ++ r) i = scanKey r (i + K.length)
  | [], r, i, _ => rfl
  | c :: K, r, i, h => by
    simp only [List.all_cons, Bool.and_eq_true, okChar, Bool.or_eq_true] at h
    have step : scanKey (c :: (K ++ r)) i = scanKey (K ++ r) (i + 1) := by
      rcases h.1 with hk | hs
      · have h1 := key_not_spaceNB hk
        have h2 := key_not_delim hk
        simp only [scanKey, h1, h2.1, h2.2, hk, Bool.false_eq_true, if_false, if_true]
      · simp only [scanKey, hs, if_true]
    rw [List.cons_append, step, scanKey_ok K r (i + 1) (by simpa [okChar] using h.2)]
    simp only [List.length_cons]; congr 1; omega

theorem scanKey_bad (c : Char) (r : Str) (i : Nat) (h : badChar c = true) : scanKey (c :: r) i = .bad := by
  simp only [badChar, Bool.and_eq_true, Bool.not_eq_true', bne_iff_ne, ne_eq] at h
  obtain ⟨⟨⟨⟨h1, h2⟩, h3⟩, h4⟩, h5⟩ := h
  have e1 : (c == '=' || c == ':') = false := by simp [h3, h4]
  have e2 : (c == '\n') = false := by simp [h5]
  simp only [scanKey, h2, e1, e2, h1, Bool.false_eq_true, if_false]

theorem badChar_not_spaceU {c : Char} (h : badChar c = true) : isSpaceU c = false := by
  simp only [badChar, Bool.and_eq_true, Bool.not_eq_true', bne_iff_ne, ne_eq] at h
  obtain ⟨⟨⟨⟨_, h2⟩, _⟩, _⟩, h5⟩ := h
  cases hs : isSpaceU c with
  | false => rfl
  | true =>
    simp only [isSpaceU, Bool.or_eq_true, beq_iff_eq] at hs
    simp only [isSpaceNB, Bool.or_eq_false_iff, beq_eq_false_iff_ne, ne_eq] at h2
    rcases hs with (((((((e | e) | e) | e) | e) | e) | e) | e) <;> simp_all

/-- a key text with a character outside the key alphabet is rejected -/
theorem parseLoop_badkey (f : Nat) (indent : Str) (exp : Option Str) (pre : Str) (c : Char) (rest : Str) (m : Map) (lk : Env)
    (hi : nbAll indent = true) (he : expOk exp = true) (hpre : pre.all okChar = true)
    (hlead : pre.dropWhile isSpaceNB = pre) (hexp : exportKw.isPrefixOf pre = false)
    (hc : badChar c = true) (hhash : pre ≠ [] ∨ c ≠ '#') :
    parseLoop (f + 1) (indent ++ (renderExp exp ++ (pre ++ c :: rest))) m lk = .err .unexpectedChar m := by
  have hcU := badChar_not_spaceU hc
  have hcK : isKeyRune c = false := by
    simp only [badChar, Bool.and_eq_true, Bool.not_eq_true'] at hc; exact hc.1.1.1.1
  have hcNB : isSpaceNB c = false := by
    simp only [badChar, Bool.and_eq_true, Bool.not_eq_true'] at hc; exact hc.1.1.1.2
  -- the first character of the key text
  have hhead : ∃ d Y, pre ++ c :: rest = d :: Y ∧ isSpaceU d = false ∧ d ≠ '#' ∧ isSpaceNB d = false := by
    cases pre with
    | nil =>
      refine ⟨c, rest, rfl, hcU, ?_, hcNB⟩
      rcases hhash with h | h
      · exact absurd rfl h
      · exact h
    | cons d pre =>
      have hd : isSpaceNB d = false := by
        cases hs : isSpaceNB d with
        | false => rfl
        | true =>
          rw [List.dropWhile_cons_of_pos hs] at hlead
          have := (List.dropWhile_suffix (l := pre) isSpaceNB).length_le
          rw [hlead] at this; simp at this; omega
      simp only [List.all_cons, Bool.and_eq_true, okChar, Bool.or_eq_true] at hpre
      have hk : isKeyRune d = true := by
        rcases hpre.1 with h | h
        · exact h
        · rw [hd] at h; cases h
      refine ⟨d, pre ++ c :: rest, rfl, key_not_spaceU hk, ?_, hd⟩
      intro e; subst e; revert hk; decide
  obtain ⟨d, Y, hY, hdU, hdH, hdNB⟩ := hhead
  have hdrop : dropExport (renderExp exp ++ (pre ++ c :: rest)) = pre ++ c :: rest := by
    cases exp with
    | none =>
      simp only [renderExp, List.nil_append]
      unfold dropExport
      by_cases hp : exportKw.isPrefixOf (pre ++ c :: rest) = true
      · rcases isPrefixOf_append_split exportKw pre (c :: rest) hp with h1 | ⟨x, hx, hm⟩
        · rw [h1] at hexp; cases hexp
        · simp at hx; subst hx
          have := exportKw_key _ hm
          rw [hcK] at this; cases this
      · rw [if_neg hp]
    | some ws =>
      simp only [renderExp, List.append_assoc]
      apply dropExport_export ws _ he
      rw [hY]; exact dropWhile_head_neg hdNB
  have hstart : stmtL false (indent ++ (renderExp exp ++ (pre ++ c :: rest))) = renderExp exp ++ (pre ++ c :: rest) := by
    rw [stmtL_skip_ws _ _ (nbAll_spaceU hi)]
    cases exp with
    | some ws =>
      simp only [renderExp, exportKw, List.cons_append]
      exact stmtL_stop _ (by decide) (by decide)
    | none =>
      simp only [renderExp, List.nil_append]
      rw [hY]; exact stmtL_stop _ hdU hdH
  have hne : (renderExp exp ++ (pre ++ c :: rest)).isEmpty = false := by
    rw [hY]; cases exp <;> simp [renderExp, exportKw]
  rw [parseLoop, stmtStart_eq _ _ (Nat.lt_succ_self _)]
  simp only
  rw [hstart, hne]
  simp only [Bool.false_eq_true, if_false]
  have hloc : locateKey (renderExp exp ++ (pre ++ c :: rest)) = .ok (.error .unexpectedChar) := by
    unfold locateKey
    rw [hdrop]
    simp only
    rw [scanKey_ok pre _ 0 hpre, scanKey_bad c rest _ hc]
    simp only
    cases hs : splitNL (pre ++ c :: rest) with
    | nil => exact absurd hs (splitNL_ne_nil _)
    | cons a b => rfl
  rw [hloc]

theorem getLast?_append_ne (a b : Str) (h : b ≠ []) : (a ++ b).getLast? = b.getLast? := by
  simp [List.getLast?_append]
  cases hb : b.getLast? with
  | none => simp [List.getLast?_eq_none_iff] at hb; exact absurd hb h
  | some x => simp

/-- a key text made of two words separated by white space is rejected -/
theorem parseLoop_keyspace (f : Nat) (indent : Str) (exp : Option Str) (k1 ws k2 ws1 : Str) (sep : Sep) (X : Str)
    (m : Map) (lk : Env)
    (hi : nbAll indent = true) (he : expOk exp = true) (hk1 : validKey k1 = true)
    (hws : nbAll ws = true) (hne : ws ≠ []) (hk2 : k2.all isKeyRune = true) (hne2 : k2 ≠ []) (h1 : nbAll ws1 = true) :
    parseLoop (f + 1) (indent ++ (renderExp exp ++ (k1 ++ (ws ++ (k2 ++ (ws1 ++ sep.char :: X)))))) m lk =
      .err .keySpace m := by
  obtain ⟨w, ws', rfl⟩ : ∃ w ws', ws = w :: ws' := by
    cases ws with
    | nil => exact absurd rfl hne
    | cons w ws' => exact ⟨w, ws', rfl⟩
  have hw : isSpaceNB w = true := by
    simp only [nbAll, List.all_cons, Bool.and_eq_true] at hws; exact hws.1
  rw [parseLoop, stmtStart_eq _ _ (Nat.lt_succ_self _)]
  simp only
  rw [stmtL_line_start indent exp k1 _ hi hk1, line_start_ne exp k1 _ hk1]
  simp only [Bool.false_eq_true, if_false]
  have hloc : locateKey (renderExp exp ++ (k1 ++ (w :: ws' ++ (k2 ++ (ws1 ++ sep.char :: X))))) =
      .ok (.ok (k1 ++ (w :: ws' ++ k2), X.dropWhile isSpaceNB, false)) := by
    unfold locateKey
    rw [dropExport_render exp k1 _ he hk1 (by
      intro c hc
      simp at hc; subst hc
      exact isSpaceU_not_key (isSpaceNB_isSpaceU hw))]
    simp only
    rw [scanKey_key _ _ _ (validKey_all hk1), scanKey_ws _ _ _ hws, scanKey_key _ _ _ hk2, scanKey_ws _ _ _ h1, scanKey_sep]
    simp only [Nat.zero_add]
    have hre : k1 ++ (w :: ws' ++ (k2 ++ (ws1 ++ sep.char :: X))) = (k1 ++ (w :: ws' ++ k2)) ++ (ws1 ++ sep.char :: X) := by
      simp
    have hlen : k1.length + (w :: ws').length + k2.length = (k1 ++ (w :: ws' ++ k2)).length := by
      simp; omega
    rw [hre, hlen]
    have hle : (k1 ++ (w :: ws' ++ k2)).length + ws1.length + 1 ≤ ((k1 ++ (w :: ws' ++ k2)) ++ (ws1 ++ sep.char :: X)).length := by
      simp; omega
    rw [sliceTo_le (by omega), sliceFrom_le hle, take_two, drop_two]
    obtain ⟨c, r, rfl, _⟩ := validKey_ne hk1
    simp only [List.cons_append, List.isEmpty_cons, Bool.false_eq_true, if_false]
    have hlast : lastNotSpace (c :: (r ++ (w :: (ws' ++ k2)))) = true := by
      have e : c :: (r ++ (w :: (ws' ++ k2))) = (c :: r ++ w :: ws') ++ k2 := by simp
      rw [e]
      unfold lastNotSpace
      rw [getLast?_append_ne _ _ hne2]
      exact key_lastNotSpace hk2
    rw [← List.cons_append, ← List.cons_append, trimRightU_append_ws _ _ (nbAll_spaceU h1)]
    simp only [List.cons_append]
    rw [trimRightU_id _ hlast]
  rw [hloc]
  have hany : (k1 ++ (w :: ws' ++ k2)).any isSpaceU = true := by
    simp [List.any_append, isSpaceNB_isSpaceU hw]
  simp only [hany, if_true]

/-! ## B.13 the last line without a final line feed -/

theorem indexOfGo_single_none (c : Char) : ∀ (a : Str) (i : Nat), (∀ x ∈ a, x ≠ c) → indexOfGo [c] a i = none
  | [], i, _ => by simp [indexOfGo]
  | x :: a, i, h => by
    have hx : (c == x) = false := by
      have := h x (by simp)
      simpa using fun e => this e.symm
    simp only [indexOfGo, List.isPrefixOf, hx, Bool.false_and, Bool.false_eq_true, if_false]
    exact indexOfGo_single_none c a (i + 1) (fun y hy => h y (by simp [hy]))

theorem cut_single_none (c : Char) (a : Str) (h : ∀ x ∈ a, x ≠ c) : cut [c] a = (a, []) := by
  unfold cut indexOf
  rw [indexOfGo_single_none c a 0 h]

theorem extractValue_plain_eof (L : Str) (m : Map) (lk : Env)
    (hq : ∀ c, L.head? = some c → (c == '"' || c == '\'') = false)
    (hnl : ∀ x ∈ L, x ≠ '\n') :
    extractValue L m lk = liftVars (expandVars (trimRightU (cut [' ', '#'] L).1) m lk) [] := by
  unfold extractValue
  have hquoted : quotePrefix L = none := by
    cases hL : L with
    | nil => rfl
    | cons c r =>
      have := hq c (by rw [hL]; rfl)
      simp [quotePrefix, this]
  simp only [hquoted, cut_single_none '\n' L hnl]
  unfold liftVars
  rfl

theorem extractValue_unq_eof (s trail : Str) (cmt : Option Str) (m : Map) (lk : Env)
    (hs : unqOk s = true) (ht : nbAll trail = true) (hc : cmtOk cmt = true)
    (hcmt : (match cmt with
      | some _ => !s.isEmpty && trail.getLast? == some ' '
      | none => true) = true) :
    extractValue ((s ++ (trail ++ renderCmt cmt)).dropWhile isSpaceNB) m lk =
      liftVars (expandVars s m lk) [] := by
  obtain ⟨hnl, hsp, hlast, hhead⟩ := unqOk_parts hs
  cases s with
  | nil =>
    cases cmt with
    | some t => simp at hcmt
    | none =>
      simp only [renderCmt, List.nil_append, List.append_nil]
      have : trail.dropWhile isSpaceNB = [] := by
        have := dropWhile_append_all (p := isSpaceNB) (l := trail) [] (fun x hx => List.all_eq_true.mp ht x hx)
        simpa using this
      rw [this, extractValue_plain_eof [] m lk (by simp) (by simp)]
      have e : cut [' ', '#'] ([] : Str) = ([], []) := cut_none [] rfl
      rw [e]; rfl
  | cons c r =>
    obtain ⟨hcq, hcnb⟩ := hhead c r rfl
    rw [List.cons_append, dropWhile_head_neg hcnb, ← List.cons_append]
    rw [extractValue_plain_eof _ m lk (by intro x hx; simp at hx; subst hx; exact hcq)
      (by
        intro x hx
        simp only [List.mem_append] at hx
        rcases hx with hx | hx | hx
        · exact hnl x hx
        · exact nb_no_nl ht x hx
        · exact cmt_no_nl hc x hx)]
    congr 2
    cases cmt with
    | none =>
      simp only [renderCmt, List.append_nil]
      rw [cut_none _ (noSpHash_append _ _ hsp (nb_no_hash ht))]
      simp only
      rw [trimRightU_append_ws _ _ (nbAll_spaceU ht), trimRightU_id _ hlast]
    | some t =>
      simp only [Bool.and_eq_true, beq_iff_eq] at hcmt
      obtain ⟨t', ht'⟩ : ∃ t', trail = t' ++ [' '] := by
        have := hcmt.2
        rw [List.getLast?_eq_some_iff] at this
        exact this
      subst ht'
      have ht2 : nbAll t' = true := by
        simp only [nbAll, List.all_append, Bool.and_eq_true] at ht
        exact ht.1
      have hre2 : (c :: r) ++ (t' ++ [' '] ++ renderCmt (some t)) = ((c :: r) ++ t') ++ ' ' :: '#' :: t := by
        simp [renderCmt]
      rw [hre2, cut_sphash _ _ (noSpHash_append _ _ hsp (nb_no_hash ht2))]
      simp only
      rw [trimRightU_append_ws _ _ (nbAll_spaceU ht2), trimRightU_id _ hlast]

theorem stmtL_true_no_nl : ∀ t : Str, t.all (· != '\n') = true → stmtL true t = []
  | [], _ => rfl
  | a :: t, h => by
    simp only [List.all_cons, Bool.and_eq_true, bne_iff_ne, ne_eq] at h
    have ha : (a == '\n') = false := by simpa using h.1
    simp only [stmtL, ha, Bool.false_eq_true, if_false]
    exact stmtL_true_no_nl t h.2

theorem stmtL_ws_eof (ws : Str) (h : nbAll ws = true) : stmtL false ws = [] := by
  have := stmtL_skip_ws ws [] (nbAll_spaceU h)
  simpa [stmtL] using this

theorem stmtL_tail_eof (trail : Str) (cmt : Option Str) (ht : nbAll trail = true) (hc : cmtOk cmt = true) :
    stmtL false (trail ++ renderCmt cmt) = [] := by
  rw [stmtL_skip_ws _ _ (nbAll_spaceU ht)]
  cases cmt with
  | none => rfl
  | some t =>
    simp only [renderCmt]
    have : isSpaceU '#' = false := by decide
    rw [stmtL, if_neg (by simp [this])]
    simp only [beq_self_eq_true, if_true]
    exact stmtL_true_no_nl t hc

theorem parseLoop_of_stmtL_nil (f : Nat) (src : Str) (m : Map) (lk : Env) (h : stmtL false src = []) :
    parseLoop (f + 1) src m lk = .ok m := by
  rw [parseLoop_congr (f + 1) src [] m lk (by rw [h]; rfl)]
  exact parseLoop_nil f m lk

theorem parseLoop_assign_eof (f : Nat) (indent : Str) (exp : Option Str) (key ws1 : Str) (sep : Sep) (ws2 : Str) (v : Value)
    (trail : Str) (cmt : Option Str) (m : Map) (lk : Env)
    (hwf : (Line.assign indent exp key ws1 sep ws2 v trail cmt).wf = true) :
    parseLoop (f + 2) (indent ++ (renderExp exp ++ (key ++ (ws1 ++ sep.char :: (ws2 ++ (v.render ++ (trail ++ renderCmt cmt))))))) m lk =
      assignOut (v.eval (envOf lk m)) (fun s => .ok (put m key s)) m := by
  simp only [Line.wf, Bool.and_eq_true] at hwf
  obtain ⟨⟨⟨⟨⟨⟨⟨⟨hi, he⟩, hk⟩, h1⟩, h2⟩, hv⟩, ht⟩, hc⟩, hcm⟩ := hwf
  rw [parseLoop_assign_core (f + 1) indent exp key ws1 sep _ m lk hi he hk h1]
  rw [dropWhile_append_all _ (fun x hx => List.all_eq_true.mp h2 x hx)]
  have hstep : ∀ (s T : Str), stmtL false T = [] →
      (match liftVars (expandVars s m lk) T with
        | .error p => POut.panic p
        | .ok (.error e) => .err e m
        | .ok (.ok (v, left')) => parseLoop (f + 1) left' (put m key v) lk) =
      assignOut (Template.subst (envOf lk m) s) (fun v => .ok (put m key v)) m := by
    intro s T hT
    unfold liftVars expandVars assignOut
    generalize Template.subst (envOf lk m) s = o
    cases o with
    | ok v => exact parseLoop_of_stmtL_nil f T _ lk hT
    | err e => rfl
    | panic p => rfl
  cases v with
  | unq s =>
    simp only [Value.render, Value.eval]
    rw [extractValue_unq_eof s trail cmt m lk hv ht hc (by cases cmt <;> simp at hcm ⊢ <;> exact hcm)]
    exact hstep s [] rfl
  | sq items =>
    simp only [Value.render, Value.eval, List.cons_append, List.append_assoc, List.nil_append]
    rw [dropWhile_head_neg (by decide)]
    rw [extractValue_quoted '\'' (Or.inr rfl) items _ m lk hv]
    simp only [show (('\'' : Char) == '"') = false by decide, Bool.false_eq_true, if_false, assignOut]
    exact parseLoop_of_stmtL_nil f _ _ lk (stmtL_tail_eof trail cmt ht hc)
  | dq items =>
    simp only [Value.render, Value.eval, List.cons_append, List.append_assoc, List.nil_append]
    rw [dropWhile_head_neg (by decide)]
    rw [extractValue_quoted '"' (Or.inl rfl) items _ m lk hv]
    simp only [beq_self_eq_true, if_true]
    exact hstep _ _ (stmtL_tail_eof trail cmt ht hc)

theorem scanKey_ws_eof (ws : Str) (i : Nat) (h : nbAll ws = true) : scanKey ws i = .noDelim := by
  have := scanKey_ws ws [] i h
  simpa [scanKey] using this

theorem locateKey_bare_eof (exp : Option Str) (key trail : Str)
    (he : expOk exp = true) (hk : validKey key = true) (h1 : nbAll trail = true) :
    locateKey (renderExp exp ++ (key ++ trail)) = .ok (.ok (key, [], true)) := by
  unfold locateKey
  rw [dropExport_render exp key _ he hk (by
    intro c hc
    cases trail with
    | nil => simp at hc
    | cons a t =>
      simp at hc; subst hc
      simp only [nbAll, List.all_cons, Bool.and_eq_true] at h1
      exact isSpaceU_not_key (isSpaceNB_isSpaceU h1.1))]
  simp only
  rw [scanKey_key _ _ _ (validKey_all hk), scanKey_ws_eof _ _ h1]
  simp only
  rw [sliceFrom_le (Nat.le_refl _)]
  obtain ⟨c, r, rfl, _⟩ := validKey_ne hk
  simp only [List.cons_append, List.isEmpty_cons, Bool.false_eq_true, if_false, List.drop_length, List.dropWhile_nil]
  rw [← List.cons_append, trimRightU_append_ws _ _ (nbAll_spaceU h1), trimRightU_id _ (key_lastNotSpace (validKey_all hk))]

theorem parseLoop_bare_eof (f : Nat) (indent : Str) (exp : Option Str) (key trail : Str) (m : Map) (lk : Env)
    (hi : nbAll indent = true) (he : expOk exp = true) (hk : validKey key = true) (ht : nbAll trail = true) :
    parseLoop (f + 2) (indent ++ (renderExp exp ++ (key ++ trail))) m lk =
      match lk key with
      | some v => .ok (put m key v)
      | none => .ok m := by
  rw [parseLoop, stmtStart_eq _ _ (Nat.lt_succ_self _)]
  simp only
  rw [stmtL_line_start indent exp key _ hi hk, line_start_ne exp key _ hk]
  simp only [Bool.false_eq_true, if_false]
  rw [locateKey_bare_eof exp key trail he hk ht]
  simp only [key_no_space (validKey_all hk), Bool.false_eq_true, if_false, if_true]
  cases lk key with
  | none => exact parseLoop_nil f _ lk
  | some v => exact parseLoop_nil f _ lk

/-- the last line of a file that does not end in a line feed -/
theorem parseLoop_last_line (f : Nat) (l : Line) (m : Map) (lk : Env) (hwf : l.wf = true) :
    parseLoop (f + 2) l.render m lk = evalFrom lk [l] m := by
  cases l with
  | blank ws =>
    simp only [Line.wf] at hwf
    simp only [Line.render, evalFrom]
    exact parseLoop_of_stmtL_nil (f + 1) ws m lk (stmtL_ws_eof ws hwf)
  | comment ws t =>
    simp only [Line.wf, Bool.and_eq_true] at hwf
    simp only [Line.render, evalFrom]
    have := stmtL_tail_eof ws (some t) hwf.1 hwf.2
    simp only [renderCmt] at this
    exact parseLoop_of_stmtL_nil (f + 1) _ m lk this
  | bare indent exp key trail =>
    simp only [Line.wf, Bool.and_eq_true] at hwf
    obtain ⟨⟨⟨hi, he⟩, hk⟩, ht⟩ := hwf
    simp only [Line.render, evalFrom]
    rw [parseLoop_bare_eof f indent exp key trail m lk hi he hk ht]
    cases lk key <;> rfl
  | assign indent exp key ws1 sep ws2 v trail cmt =>
    rw [evalFrom_assign]
    simp only [Line.render, evalFrom]
    exact parseLoop_assign_eof f indent exp key ws1 sep ws2 v trail cmt m lk hwf

theorem evalFrom_append (lk : Env) : ∀ (a b : List Line) (m : Map),
    evalFrom lk (a ++ b) m = (evalFrom lk a m).andThen (fun m' => evalFrom lk b m')
  | [], b, m => rfl
  | .blank _ :: a, b, m => by simp only [List.cons_append, evalFrom]; exact evalFrom_append lk a b m
  | .comment _ _ :: a, b, m => by simp only [List.cons_append, evalFrom]; exact evalFrom_append lk a b m
  | .bare _ _ key _ :: a, b, m => by
    simp only [List.cons_append, evalFrom]
    cases lk key with
    | none => exact evalFrom_append lk a b m
    | some v => exact evalFrom_append lk a b _
  | .assign i e key w1 s w2 v t c :: a, b, m => by
    rw [List.cons_append, evalFrom_assign, evalFrom_assign, assignOut_andThen]
    congr 1
    funext x
    exact evalFrom_append lk a b _

theorem renderNoFinalNL_concat : ∀ (a : List Line) (l : Line), renderNoFinalNL (a ++ [l]) = render a ++ l.render
  | [], l => by simp [renderNoFinalNL, render]
  | x :: a, l => by
    have ih := renderNoFinalNL_concat a l
    cases a with
    | nil => simp [renderNoFinalNL, render]
    | cons y a =>
      simp only [List.cons_append, renderNoFinalNL, render, List.append_assoc] at ih ⊢
      rw [ih]

/-! ## C. escapes and the result map (proved here so that the equation lemmas of `expEsc`, `put`, `get` are not declared in the property module) -/



/-- text without a backslash is left alone -/
theorem expandEscapes_plain_lemma (s : Str) (h : ∀ c ∈ s, c ≠ '\\') : expandEscapes s = s := by
  unfold expandEscapes
  induction s with
  | nil => rfl
  | cons c s ih =>
    have hc : (c == '\\') = false := by simpa using h c (by simp)
    simp only [expEsc, hc, Bool.false_eq_true, if_false]
    rw [ih (fun x hx => h x (by simp [hx]))]

/-- the single-character escapes: the table of `escapeSeqRegex` (`\\$` becomes the template escape `$$`) -/
theorem expandEscapes_simple_lemma (c : Char) (x s : Str) (h : simpleEscape c = some x) :
    expandEscapes ('\\' :: c :: s) = x ++ expandEscapes s := by
  simp [expandEscapes, expEsc, h]

theorem simpleEscape_table_lemma :
    simpleEscape 'a' = some ['\x07'] ∧ simpleEscape 'b' = some ['\x08'] ∧ simpleEscape 'f' = some ['\x0c'] ∧
    simpleEscape 'n' = some ['\n'] ∧ simpleEscape 'r' = some ['\r'] ∧ simpleEscape 't' = some ['\t'] ∧
    simpleEscape 'v' = some ['\x0b'] ∧ simpleEscape '\\' = some ['\\'] ∧ simpleEscape '"' = some ['"'] ∧
    simpleEscape '$' = some ['$', '$'] ∧ simpleEscape 'x' = none ∧ simpleEscape 'u' = none ∧ simpleEscape '\'' = none := by
  decide

/-- any other backslash pair is kept as it is -/
theorem expandEscapes_other_lemma (c : Char) (s : Str) (h : simpleEscape c = none) (h0 : c ≠ '0') :
    expandEscapes ('\\' :: c :: s) = '\\' :: expandEscapes (c :: s) := by
  have : (c == '0') = false := by simpa using h0
  simp [expandEscapes, expEsc, h, this]

/-- XSI octal escapes `\\0ddd` (exactly three octal digits, value ≤ 255) -/
example : expandEscapes ['\\', '0', '1', '2', '3', 'Z'] = ['S', 'Z'] := by decide
example : expandEscapes ['\\', '0', '1', '2'] = ['\\', '1', '2'] := by decide
example : expandEscapes ['\\', '0', '7', '7', '7'] = ['\\', '7', '7', '7'] := by decide



theorem get_put_same_lemma (m : Map) (k v : Str) : get (put m k v) k = some v := by
  induction m with
  | nil => simp [put, get]
  | cons p m ih =>
    obtain ⟨k', v'⟩ := p
    by_cases h : k = k'
    · simp [put, get, h]
    · simp [put, get, h, ih]

theorem get_put_other_lemma (m : Map) (k k' v : Str) (h : k' ≠ k) : get (put m k v) k' = get m k' := by
  induction m with
  | nil => simp [put, get, h]
  | cons p m ih =>
    obtain ⟨k₀, v₀⟩ := p
    by_cases h0 : k = k₀
    · subst h0; simp [put, get, h]
    · by_cases h1 : k' = k₀
      · simp [put, get, h0, h1]
      · simp [put, get, h0, h1, ih]

/-- keys stay distinct: the association list is a faithful Go map -/
theorem put_keys_nodup_lemma (m : Map) (k v : Str) (h : (m.map Prod.fst).Nodup) : ((put m k v).map Prod.fst).Nodup := by
  induction m with
  | nil => simp [put]
  | cons p m ih =>
    obtain ⟨k₀, v₀⟩ := p
    simp only [List.map_cons, List.nodup_cons] at h
    by_cases h0 : k = k₀
    · subst h0; simpa [put] using h
    · simp only [put, h0, if_false, List.map_cons, List.nodup_cons]
      refine ⟨?_, ih h.2⟩
      intro hm
      have : ∀ (m : Map), k₀ ∈ (put m k v).map Prod.fst → k₀ ∈ m.map Prod.fst := by
        intro m
        induction m with
        | nil => intro hm; simp [put] at hm; exact absurd hm.symm h0
        | cons q m ihm =>
          obtain ⟨k₁, v₁⟩ := q
          by_cases h1 : k = k₁
          · subst h1; simp [put]
          · simp only [put, h1, if_false, List.map_cons, List.mem_cons]
            rintro (h | h)
            · exact Or.inl h
            · exact Or.inr (ihm h)
      exact h.1 (this m hm)


theorem isOct_isDigit {c : Char} (h : isOct c = true) : c.isDigit = true := by
  simp only [isOct, Bool.and_eq_true, decide_eq_true_eq] at h
  simp only [Char.isDigit, Bool.and_eq_true, decide_eq_true_eq]
  obtain ⟨h1, h2⟩ := h
  rw [Char.le_def] at h1 h2
  have a1 : (48 : Nat) ≤ c.val.toNat := by simpa [UInt32.le_iff_toNat_le] using h1
  have a2 : c.val.toNat ≤ 55 := by simpa [UInt32.le_iff_toNat_le] using h2
  constructor
  · rw [ge_iff_le, UInt32.le_iff_toNat_le]; simpa using a1
  · rw [UInt32.le_iff_toNat_le]; simp; have : c.toNat = c.val.toNat := rfl; omega

/-- XSI octal escapes: `\0ddd` with three octal digits of value ≤ 255 denotes that code point -/
theorem expandEscapes_octal_lemma (d1 d2 d3 : Char) (s : Str)
    (h1 : isOct d1 = true) (h2 : isOct d2 = true) (h3 : isOct d3 = true) (hv : octVal [d1, d2, d3] ≤ 255) :
    expandEscapes ('\\' :: '0' :: d1 :: d2 :: d3 :: s) = Char.ofNat (octVal [d1, d2, d3]) :: expandEscapes s := by
  have e0 : simpleEscape '0' = none := by decide
  have g1 := isOct_isDigit h1
  have g2 := isOct_isDigit h2
  have g3 := isOct_isDigit h3
  have hd : ((d1 :: d2 :: d3 :: s).take 3).takeWhile Char.isDigit = [d1, d2, d3] := by
    simp [List.takeWhile, g1, g2, g3]
  unfold expandEscapes
  rw [expEsc]
  simp only [beq_self_eq_true, if_true, e0]
  rw [hd]
  have ho : octalRepl [d1, d2, d3] = [Char.ofNat (octVal [d1, d2, d3])] := by
    simp [octalRepl, h1, h2, h3, hv]
  rw [ho]
  simp [expEsc]

end CV.Dotenv
