import ComposeVerif.Lemmas.ShortStr
import ComposeVerif.Model.ShortDecode
/-! Lemmas for the KEY=VALUE list vs mapping decoders (C03). -/
namespace CV.Short
open CV

theorem ofList_inj {a b : Str} (h : String.ofList a = String.ofList b) : a = b := by
  have := congrArg String.toList h
  simpa using this

theorem insert_absent (k : String) (v : Val) (acc : Val.KVs) (h : k ∉ acc.map Prod.fst) :
    Val.insert k v acc = acc ++ [(k, v)] := by
  induction acc with
  | nil => rfl
  | cons p r ih =>
    obtain ⟨k', v'⟩ := p
    simp only [List.map_cons, List.mem_cons, not_or] at h
    simp [Val.insert, h.1, ih h.2]

/-- one entry of a `KEY[=VALUE]` list; `.null` stands for the bare `KEY` -/
def listEntry (p : Str × Val) : Val :=
  match p.2 with
  | .null => .str (String.ofList p.1)
  | e => .str (String.ofList p.1 ++ "=" ++ sprint e)

/-- the same entry in the mapping form -/
def mapEntry (p : Str × Val) : String × Val := (String.ofList p.1, p.2)

/-- the decoded value of an entry -/
def entryValue (dflt : Val) (e : Val) : Val := match e with | .null => dflt | e => .str (sprint e)

theorem sprint_str (s : String) : sprint (.str s) = s := by simp [sprint]

theorem listEntry_nonnull (k : Str) (e : Val) (he : e ≠ .null) :
    listEntry (k, e) = .str (String.ofList k ++ "=" ++ sprint e) := by
  cases e <;> first | exact absurd rfl he | rfl

theorem entryValue_nonnull (dflt : Val) (e : Val) (he : e ≠ .null) : entryValue dflt e = .str (sprint e) := by
  cases e <;> first | exact absurd rfl he | rfl

theorem cutStr_entry (k : Str) (e : Val) (hk : ∀ x ∈ k, x ≠ '=') :
    cutStr '=' (String.ofList k ++ "=" ++ sprint e) = some (String.ofList k, sprint e) := by
  have : (String.ofList k ++ "=" ++ sprint e).toList = k ++ '=' :: (sprint e).toList := by
    simp [String.toList_append]
  simp [cutStr, this, cutAt_append _ _ _ hk]

theorem cutStr_bare (k : Str) (hk : ∀ x ∈ k, x ≠ '=') : cutStr '=' (String.ofList k) = none := by
  simp [cutStr, cutAt_clean _ _ hk]

theorem kvOfList_entries (dflt : Val) (m : List (Str × Val)) (acc : Val.KVs)
    (hk : ∀ p ∈ m, ∀ x ∈ p.1, x ≠ '=')
    (hnd : (m.map Prod.fst).Nodup)
    (hdis : ∀ p ∈ m, String.ofList p.1 ∉ acc.map Prod.fst) :
    kvOfList dflt (m.map listEntry) acc = acc ++ m.map (fun p => (String.ofList p.1, entryValue dflt p.2)) := by
  induction m generalizing acc with
  | nil => simp [kvOfList]
  | cons p r ih =>
    obtain ⟨k, e⟩ := p
    have hk0 := hk (k, e) (by simp)
    have hd0 := hdis (k, e) (by simp)
    simp only [List.map_cons, List.nodup_cons] at hnd
    have step : ∀ v, kvOfList dflt (List.map listEntry r) (acc ++ [(String.ofList k, v)])
        = (acc ++ [(String.ofList k, v)]) ++ r.map (fun p => (String.ofList p.1, entryValue dflt p.2)) := by
      intro v
      apply ih _ (fun q hq => hk q (by simp [hq])) hnd.2
      intro q hq
      simp only [List.map_append, List.map_cons, List.map_nil, List.mem_append, List.mem_singleton, not_or]
      refine ⟨hdis q (by simp [hq]), ?_⟩
      intro heq
      have := ofList_inj heq
      apply hnd.1
      rw [← this]
      exact List.mem_map_of_mem (f := Prod.fst) hq
    by_cases he : e = .null
    · subst he
      have h1 : listEntry (k, Val.null) = .str (String.ofList k) := rfl
      simp only [List.map_cons, h1, kvOfList, sprint_str, cutStr_bare k hk0, insert_absent _ _ _ hd0, step]
      simp [entryValue]
    · have h1 : listEntry (k, e) = .str (String.ofList k ++ "=" ++ sprint e) := listEntry_nonnull k e he
      have h2 : entryValue dflt e = .str (sprint e) := entryValue_nonnull dflt e he
      simp only [List.map_cons, h1, kvOfList, sprint_str, cutStr_entry k _ hk0, insert_absent _ _ _ hd0, step, h2]
      simp

theorem splitOn_joinWith (c : Char) (l : List Str) (hne : l ≠ []) (hc : ∀ x ∈ l, ∀ ch ∈ x, ch ≠ c) :
    splitOn c (joinWith c l) = l := by
  induction l with
  | nil => exact absurd rfl hne
  | cons a r ih =>
    cases r with
    | nil => simp [joinWith, splitOn_clean _ _ (hc a (by simp))]
    | cons b r' =>
      have := ih (by simp) (fun x hx => hc x (by simp [hx]))
      simp only [joinWith, splitOn_append _ _ _ (hc a (by simp)), this]

theorem hostsAppend_absent (h : String) (ips : List Str) (acc : List (String × List Str))
    (hab : h ∉ acc.map Prod.fst) : hostsAppend h ips acc = acc ++ [(h, ips)] := by
  induction acc with
  | nil => rfl
  | cons p r ih =>
    obtain ⟨h', l⟩ := p
    simp only [List.map_cons, List.mem_cons, not_or] at hab
    simp [hostsAppend, hab.1, ih hab.2]

/-- one `host=ip1,ip2` entry of the list form -/
def hostEntry (e : Str × List Str) : Val := .str (String.ofList (e.1 ++ '=' :: joinWith ',' e.2))
/-- the same host in the mapping form: `host: [ip1, ip2]` -/
def hostMapEntry (e : Str × List Str) : String × Val := (String.ofList e.1, .seq (e.2.map fun ip => .str (String.ofList ip)))

theorem hostsOfList_entries (es : List (Str × List Str)) (acc : List (String × List Str))
    (hk : ∀ e ∈ es, ∀ x ∈ e.1, x ≠ '=')
    (hips : ∀ e ∈ es, e.2 ≠ [] ∧ ∀ ip ∈ e.2, ∀ ch ∈ ip, ch ≠ ',')
    (hnd : (es.map Prod.fst).Nodup)
    (hdis : ∀ e ∈ es, String.ofList e.1 ∉ acc.map Prod.fst) :
    hostsOfList (es.map hostEntry) acc = some (acc ++ es.map fun e => (String.ofList e.1, e.2)) := by
  induction es generalizing acc with
  | nil => simp [hostsOfList]
  | cons e r ih =>
    obtain ⟨h, ips⟩ := e
    have hk0 := hk (h, ips) (by simp)
    have hi0 := hips (h, ips) (by simp)
    have hd0 := hdis (h, ips) (by simp)
    simp only [List.map_cons, List.nodup_cons] at hnd
    simp only [List.map_cons, hostEntry, hostsOfList, sprint_str, String.toList_ofList, cutAt_append _ _ _ hk0,
      splitOn_joinWith _ _ hi0.1 hi0.2, hostsAppend_absent _ _ _ hd0]
    rw [ih _ (fun q hq => hk q (by simp [hq])) (fun q hq => hips q (by simp [hq])) hnd.2]
    · simp
    · intro q hq
      simp only [List.map_append, List.map_cons, List.map_nil, List.mem_append, List.mem_singleton, not_or]
      refine ⟨hdis q (by simp [hq]), ?_⟩
      intro heq
      have := ofList_inj heq
      apply hnd.1
      rw [← this]
      exact List.mem_map_of_mem (f := Prod.fst) hq

theorem hostsOfMap_entries (es : List (Str × List Str)) :
    hostsOfMap (es.map hostMapEntry) = some (es.map fun e => (String.ofList e.1, e.2)) := by
  induction es with
  | nil => rfl
  | cons e r ih =>
    obtain ⟨h, ips⟩ := e
    simp only [List.map_cons, hostMapEntry, hostsOfMap, ih]
    simp [List.map_map, Function.comp_def, sprint_str]

theorem joinWith_clean (c d : Char) (hcd : c ≠ d) (l : List Str) (h : ∀ x ∈ l, ∀ ch ∈ x, ch ≠ d) :
    ∀ ch ∈ joinWith c l, ch ≠ d := by
  induction l with
  | nil => simp [joinWith]
  | cons a r ih =>
    cases r with
    | nil => simpa [joinWith] using h a (by simp)
    | cons b r' =>
      intro ch hch
      simp only [joinWith, List.mem_append, List.mem_cons] at hch
      rcases hch with hch | hch | hch
      · exact h a (by simp) ch hch
      · subst hch; exact hcd
      · exact ih (fun x hx => h x (by simp [hx])) ch hch

/-- one entry of the list form with either separator: `host=ip1,ip2` or the legacy `host:ip1,ip2` -/
def hostEntrySep (e : Bool × Str × List Str) : Val :=
  .str (String.ofList (e.2.1 ++ (if e.1 then ':' else '=') :: joinWith ',' e.2.2))

/-- what the grammar asks of an entry: `=`-free host; with the legacy separator also a `:`-free host and `=`-free addresses -/
def HostEntryOK (e : Bool × Str × List Str) : Prop :=
  (∀ x ∈ e.2.1, x ≠ '=') ∧ e.2.2 ≠ [] ∧ (∀ ip ∈ e.2.2, ∀ ch ∈ ip, ch ≠ ',') ∧
  (e.1 = true → (∀ x ∈ e.2.1, x ≠ ':') ∧ ∀ ip ∈ e.2.2, ∀ ch ∈ ip, ch ≠ '=')

theorem hostsOfList_entriesSep (es : List (Bool × Str × List Str)) (acc : List (String × List Str))
    (hok : ∀ e ∈ es, HostEntryOK e)
    (hnd : (es.map fun e => e.2.1).Nodup)
    (hdis : ∀ e ∈ es, String.ofList e.2.1 ∉ acc.map Prod.fst) :
    hostsOfList (es.map hostEntrySep) acc = some (acc ++ es.map fun e => (String.ofList e.2.1, e.2.2)) := by
  induction es generalizing acc with
  | nil => simp [hostsOfList]
  | cons e r ih =>
    obtain ⟨colon, h, ips⟩ := e
    obtain ⟨hk0, hne, hcomma, hleg⟩ := hok (colon, h, ips) (by simp)
    have hd0 := hdis (colon, h, ips) (by simp)
    simp only [List.map_cons, List.nodup_cons] at hnd
    have hrest : hostsOfList (List.map hostEntrySep r) (acc ++ [(String.ofList h, ips)])
        = some ((acc ++ [(String.ofList h, ips)]) ++ r.map fun e => (String.ofList e.2.1, e.2.2)) := by
      apply ih _ (fun q hq => hok q (by simp [hq])) hnd.2
      intro q hq
      simp only [List.map_append, List.map_cons, List.map_nil, List.mem_append, List.mem_singleton, not_or]
      refine ⟨hdis q (by simp [hq]), ?_⟩
      intro heq
      have := ofList_inj heq
      apply hnd.1
      rw [← this]
      exact List.mem_map_of_mem (f := fun e : Bool × Str × List Str => e.2.1) hq
    cases colon with
    | false =>
      simp only [List.map_cons, hostEntrySep, hostsOfList, sprint_str, String.toList_ofList, Bool.false_eq_true, if_false,
        cutAt_append _ _ _ hk0, splitOn_joinWith _ _ hne hcomma, hostsAppend_absent _ _ _ hd0, hrest]
      simp
    | true =>
      obtain ⟨hcol, hipeq⟩ := hleg rfl
      have hnoeq : ∀ x ∈ h ++ ':' :: joinWith ',' ips, x ≠ '=' := by
        intro x hx
        simp only [List.mem_append, List.mem_cons] at hx
        rcases hx with hx | hx | hx
        · exact hk0 x hx
        · subst hx; decide
        · exact joinWith_clean ',' '=' (by decide) ips hipeq x hx
      simp only [List.map_cons, hostEntrySep, hostsOfList, sprint_str, String.toList_ofList, if_true,
        cutAt_clean _ _ hnoeq, cutAt_append _ _ _ hcol, splitOn_joinWith _ _ hne hcomma, hostsAppend_absent _ _ _ hd0, hrest]
      simp

/-! ### bracketed addresses of `extra_hosts` (round 7) -/

/-- an address written in brackets: `[ip]` -/
def bracketed (ip : Str) : Str := '[' :: (ip ++ [']'])

/-- one address of an `extra_hosts` entry in one of its two spellings -/
def addrSpelling (br : Bool) (ip : Str) : Str := if br then bracketed ip else ip

theorem stripBrackets_bracketed (ip : Str) (hne : ip ≠ []) : stripBrackets (bracketed ip) = ip := by
  cases ip with
  | nil => exact absurd rfl hne
  | cons c r =>
    have hc := Char.utf8Size_pos c
    have h1 : Char.utf8Size '[' = 1 := by decide
    have h2 : Char.utf8Size ']' = 1 := by decide
    have hlen : 2 < byteLen ('[' :: c :: (r ++ [']'])) := by
      simp [byteLen, h1, h2]; omega
    have hl : (c :: (r ++ [']'])).getLast? = some ']' := by
      exact List.getLast?_concat (l := c :: r)
    have hd : (c :: (r ++ [']'])).dropLast = c :: r := by
      exact List.dropLast_concat (l₁ := c :: r)
    simp [stripBrackets, bracketed, hlen, hl, hd]

theorem stripBrackets_spelling (br : Bool) (ip : Str) (hne : ip ≠ []) (hbare : stripBrackets ip = ip) :
    stripBrackets (addrSpelling br ip) = ip := by
  cases br <;> simp [addrSpelling, hbare, stripBrackets_bracketed ip hne]

/-- what the theorem asks of a written address: non-empty, not itself of the form `[…]`, comma-free -/
def BareAddr (ip : Str) : Prop := ip ≠ [] ∧ stripBrackets ip = ip ∧ ∀ ch ∈ ip, ch ≠ ','

theorem bracketed_comma_free (br : Bool) (ip : Str) (h : ∀ ch ∈ ip, ch ≠ ',') : ∀ ch ∈ addrSpelling br ip, ch ≠ ',' := by
  cases br
  · simpa [addrSpelling] using h
  · intro ch hch
    simp only [addrSpelling, bracketed, if_true, List.mem_cons, List.mem_append, List.not_mem_nil, or_false] at hch
    rcases hch with rfl | hch | rfl
    · decide
    · exact h ch hch
    · decide

end CV.Short
