import ComposeVerif.Lemmas.ShortStr
import ComposeVerif.Model.ShortDecode
/-! Lemmas for the KEY=VALUE list vs mapping decoders (C03). -/
namespace CV.Short
open CV

theorem ofList_inj {a b : Str} (h : String.ofList a = String.ofList b) : a = b := by
  have := congrArg String.toList h
  simpa using this

theorem insert_absent (k : String) (v : Val) (acc : Val.KVs) (h : k ∉ acc.map Prod.fst) :
    Val.insert k v acc = acc ++ [(k, v)] := by
  induction acc with
  | nil => rfl
  | cons p r ih =>
    obtain ⟨k', v'⟩ := p
    simp only [List.map_cons, List.mem_cons, not_or] at h
    simp [Val.insert, h.1, ih h.2]

/-- one entry of a `KEY[=VALUE]` list; `.null` stands for the bare `KEY` -/
def listEntry (p : Str × Val) : Val :=
  match p.2 with
  | .null => .str (String.ofList p.1)
  | e => .str (String.ofList p.1 ++ "=" ++ sprint e)

/-- the same entry in the mapping form -/
def mapEntry (p : Str × Val) : String × Val := (String.ofList p.1, p.2)

/-- the decoded value of an entry -/
def entryValue (dflt : Val) (e : Val) : Val := match e with | .null => dflt | e => .str (sprint e)

theorem sprint_str (s : String) : sprint (.str s) = s := by simp [sprint]

theorem listEntry_nonnull (k : Str) (e : Val) (he : e ≠ .null) :
    listEntry (k, e) = .str (String.ofList k ++ "=" ++ sprint e) := by
  cases e <;> first | exact absurd rfl he | rfl

theorem entryValue_nonnull (dflt : Val) (e : Val) (he : e ≠ .null) : entryValue dflt e = .str (sprint e) := by
  cases e <;> first | exact absurd rfl he | rfl

theorem cutStr_entry (k : Str) (e : Val) (hk : ∀ x ∈ k, x ≠ '=') :
    cutStr '=' (String.ofList k ++ "=" ++ sprint e) = some (String.ofList k, sprint e) := by
  have : (String.ofList k ++ "=" ++ sprint e).toList = k ++ '=' :: (sprint e).toList := by
    simp [String.toList_append]
  simp [cutStr, this, cutAt_append _ _ _ hk]

theorem cutStr_bare (k : Str) (hk : ∀ x ∈ k, x ≠ '=') : cutStr '=' (String.ofList k) = none := by
  simp [cutStr, cutAt_clean _ _ hk]

theorem kvOfList_entries (dflt : Val) (m : List (Str × Val)) (acc : Val.KVs)
    (hk : ∀ p ∈ m, ∀ x ∈ p.1, x ≠ '=')
    (hnd : (m.map Prod.fst).Nodup)
    (hdis : ∀ p ∈ m, String.ofList p.1 ∉ acc.map Prod.fst) :
    kvOfList dflt (m.map listEntry) acc = acc ++ m.map (fun p => (String.ofList p.1, entryValue dflt p.2)) := by
  induction m generalizing acc with
  | nil => simp [kvOfList]
  | cons p r ih =>
    obtain ⟨k, e⟩ := p
    have hk0 := hk (k, e) (by simp)
    have hd0 := hdis (k, e) (by simp)
    simp only [List.map_cons, List.nodup_cons] at hnd
    have step : ∀ v, kvOfList dflt (List.map listEntry r) (acc ++ [(String.ofList k, v)])
        = (acc ++ [(String.ofList k, v)]) ++ r.map (fun p => (String.ofList p.1, entryValue dflt p.2)) := by
      intro v
      apply ih _ (fun q hq => hk q (by simp [hq])) hnd.2
      intro q hq
      simp only [List.map_append, List.map_cons, List.map_nil, List.mem_append, List.mem_singleton, not_or]
      refine ⟨hdis q (by simp [hq]), ?_⟩
      intro heq
      have := ofList_inj heq
      apply hnd.1
      rw [← this]
      exact List.mem_map_of_mem (f := Prod.fst) hq
    by_cases he : e = .null
    · subst he
      have h1 : listEntry (k, Val.null) = .str (String.ofList k) := rfl
      simp only [List.map_cons, h1, kvOfList, sprint_str, cutStr_bare k hk0, insert_absent _ _ _ hd0, step]
      simp [entryValue]
    · have h1 : listEntry (k, e) = .str (String.ofList k ++ "=" ++ sprint e) := listEntry_nonnull k e he
      have h2 : entryValue dflt e = .str (sprint e) := entryValue_nonnull dflt e he
      simp only [List.map_cons, h1, kvOfList, sprint_str, cutStr_entry k _ hk0, insert_absent _ _ _ hd0, step, h2]
      simp

end CV.Short
