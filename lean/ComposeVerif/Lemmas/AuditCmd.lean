import Lean
/-!
`#audit_module M` prints, for every theorem declared in module `M`, one line
`AUDIT <name> [<axioms>]`.  The check script counts these lines as the proof
obligations of a property and rejects any axiom outside
`propext`, `Classical.choice`, `Quot.sound`.
-/
open Lean Elab Command

elab "#audit_module " id:ident : command => do
  let env ← getEnv
  let some modIdx := env.getModuleIdx? id.getId
    | throwError "unknown module {id.getId}"
  let mut names : Array Name := #[]
  for (n, ci) in env.constants.map₁.toList do
    if env.getModuleIdxFor? n == some modIdx then
      if let .thmInfo _ := ci then
        if !n.isInternalDetail then
          names := names.push n
  for n in names.qsort (fun a b => a.toString < b.toString) do
    let axs ← Lean.collectAxioms n
    let axs := axs.qsort (fun a b => a.toString < b.toString)
    logInfo m!"AUDIT {n} {axs.toList}"
