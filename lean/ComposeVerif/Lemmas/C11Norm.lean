import ComposeVerif.Lemmas.C11KV
/-! Lemmas about the pieces of the `Normalize` model (C11). -/
namespace CV.C11
open CV CV.Val CV.C11.Spec

/-! ### `mapAt` / `mapVals` -/

theorem lookup_mapAt (f : String → Val → Val) (k : String) (m : KVs) :
    lookup k (mapAt f m) = (lookup k m).map (f k) := lookup_map_vals f k m

theorem lookup_mapVals (f : Val → Val) (k : String) (m : KVs) :
    lookup k (mapVals f m) = (lookup k m).map f := lookup_map_vals (fun _ => f) k m

theorem mapAt_mapAt (f g : String → Val → Val) (m : KVs) :
    mapAt f (mapAt g m) = mapAt (fun k v => f k (g k v)) m := by
  simp [mapAt, List.map_map, Function.comp_def]

theorem mapVals_mapVals (f g : Val → Val) (m : KVs) :
    mapVals f (mapVals g m) = mapVals (fun v => f (g v)) m := by
  simp [mapVals, List.map_map, Function.comp_def]

theorem mapAt_congr {f g : String → Val → Val} {m : KVs} (h : ∀ kv ∈ m, f kv.1 kv.2 = g kv.1 kv.2) :
    mapAt f m = mapAt g m := by
  unfold mapAt
  apply List.map_congr_left
  intro kv hkv
  rw [h kv hkv]

theorem mapAt_id {f : String → Val → Val} {m : KVs} (h : ∀ kv ∈ m, f kv.1 kv.2 = kv.2) : mapAt f m = m := by
  unfold mapAt
  conv => rhs; rw [← List.map_id m]
  apply List.map_congr_left
  intro kv hkv
  simp [h kv hkv]

theorem mapVals_id {f : Val → Val} {m : KVs} (h : ∀ kv ∈ m, f kv.2 = kv.2) : mapVals f m = m :=
  mapAt_id (f := fun _ => f) h

theorem mapVals_congr {f g : Val → Val} {m : KVs} (h : ∀ kv ∈ m, f kv.2 = g kv.2) : mapVals f m = mapVals g m :=
  mapAt_congr (f := fun _ => f) (g := fun _ => g) h

theorem mapAt_insert (f : String → Val → Val) (k : String) (v : Val) (m : KVs) :
    mapAt f (insert k v m) = insert k (f k v) (mapAt f m) := by
  induction m with
  | nil => simp [mapAt, Val.insert]
  | cons e r ih =>
    obtain ⟨k', v'⟩ := e
    by_cases hk : k = k'
    · subst hk; simp [mapAt, Val.insert]
    · simp only [mapAt] at ih
      simp [mapAt, Val.insert, hk, ih]

theorem mapAt_eq_nil {f : String → Val → Val} {m : KVs} : mapAt f m = [] ↔ m = [] := by
  simp [mapAt]

/-! ### `setIfNil` -/

theorem setIfNil_of_nonnull {k : String} {v x : Val} {m : KVs} (h : lookup k m = some x) (hx : x ≠ .null) :
    setIfNil k v m = m := by
  unfold setIfNil
  cases x <;> simp_all

theorem lookup_setIfNil_self_nonnull (k : String) (v : Val) (hv : v ≠ .null) (m : KVs) :
    ∃ x, lookup k (setIfNil k v m) = some x ∧ x ≠ .null := by
  unfold setIfNil
  cases h : lookup k m with
  | none => exact ⟨v, by simp [lookup_insert_self], hv⟩
  | some x =>
    cases x <;> simp [lookup_insert_self, h, hv]

theorem setIfNil_idem (k : String) (v : Val) (hv : v ≠ .null) (m : KVs) :
    setIfNil k v (setIfNil k v m) = setIfNil k v m := by
  obtain ⟨x, hx, hn⟩ := lookup_setIfNil_self_nonnull k v hv m
  exact setIfNil_of_nonnull hx hn

/-! ### implied dependencies -/

theorem lookup_addDep (k : String) (e : Val) (deps : KVs) (k' : String) :
    lookup k' (addDep k e deps) = (lookup k' deps).orElse fun _ => if k' = k then some e else none := by
  unfold addDep
  rw [lookup_setIfAbsent]
  unfold filled
  by_cases hk : k' = k
  · subst hk
    cases h : lookup k' deps <;> simp [h]
  · cases h : lookup k' deps <;> simp [hk, h]

/-- **characterisation of the implied `depends_on`**: an entry that is declared stays as declared;
an undeclared one gets the entry of the first implying attribute -/
theorem lookup_addDeps (ks : List (String × Val)) (deps : KVs) (k : String) :
    lookup k (addDeps ks deps) = (lookup k deps).orElse fun _ => lookup k ks := by
  induction ks generalizing deps with
  | nil => cases h : lookup k deps <;> simp [addDeps, lookup, h]
  | cons ke r ih =>
    obtain ⟨k0, e0⟩ := ke
    have : addDeps ((k0, e0) :: r) deps = addDeps r (addDep k0 e0 deps) := by simp [addDeps]
    rw [this, ih, lookup_addDep]
    by_cases hk : k = k0
    · subst hk
      cases h : lookup k deps <;> simp [lookup]
    · cases h : lookup k deps <;> simp [lookup, hk]

theorem addDep_of_present {k : String} {e : Val} {deps : KVs} (h : (lookup k deps).isSome) :
    addDep k e deps = deps := by
  unfold addDep setIfAbsent
  cases h' : lookup k deps with
  | none => simp [h'] at h
  | some x => rfl

theorem lookup_isSome_addDep {k k' : String} {e : Val} {deps : KVs} (h : (lookup k' deps).isSome) :
    (lookup k' (addDep k e deps)).isSome := by
  rw [lookup_addDep]
  cases h' : lookup k' deps with
  | none => simp [h'] at h
  | some x => simp

theorem addDeps_fixed {ks : List (String × Val)} {deps : KVs}
    (h : ∀ ke ∈ ks, (lookup ke.1 deps).isSome) : addDeps ks deps = deps := by
  induction ks generalizing deps with
  | nil => rfl
  | cons ke r ih =>
    have h0 := h ke (List.mem_cons_self ..)
    have : addDeps (ke :: r) deps = addDeps r (addDep ke.1 ke.2 deps) := by simp [addDeps]
    rw [this, addDep_of_present h0]
    exact ih fun ke' hm => h ke' (List.mem_cons_of_mem _ hm)

theorem lookup_mem_isSome {ks : List (String × Val)} {ke : String × Val} (h : ke ∈ ks) :
    (lookup ke.1 ks).isSome := by
  induction ks with
  | nil => cases h
  | cons e r ih =>
    obtain ⟨k', v'⟩ := e
    by_cases hk : ke.1 = k'
    · simp [lookup, hk]
    · rcases List.mem_cons.mp h with heq | hr
      · subst heq; simp at hk
      · simp [lookup, hk, ih hr]

theorem addDeps_covers (ks : List (String × Val)) (deps : KVs) :
    ∀ ke ∈ ks, (lookup ke.1 (addDeps ks deps)).isSome := by
  intro ke hm
  rw [lookup_addDeps]
  cases h : lookup ke.1 deps with
  | some x => simp
  | none => simpa using lookup_mem_isSome hm

/-- adding the implied entries twice adds nothing new -/
theorem addDeps_idem (ks : List (String × Val)) (deps : KVs) :
    addDeps ks (addDeps ks deps) = addDeps ks deps :=
  addDeps_fixed (addDeps_covers ks deps)

theorem addDeps_eq_nil {ks : List (String × Val)} {deps : KVs} (h : addDeps ks deps = []) : deps = [] := by
  cases deps with
  | nil => rfl
  | cons e r =>
    exfalso
    have : (lookup e.1 (addDeps ks (e :: r))).isSome := by
      rw [lookup_addDeps]; simp [lookup]
    rw [h] at this
    simp [lookup] at this

end CV.C11
