import ComposeVerif.Lemmas.ShortStr
import ComposeVerif.Spec.Short
/-! Lemmas for the port short syntax: cutting a rendered AST into its sections, parsing its numbers (C03). -/
namespace CV.Short
open CV.Short.Spec

/-- `Split(x ++ sep ++ y) = Split(x) ++ Split(y)` -/
theorem splitOn_append_sep (c : Char) (x y : Str) : splitOn c (x ++ c :: y) = splitOn c x ++ splitOn c y := by
  induction x with
  | nil => simp [splitOn]
  | cons a x' ih =>
    simp only [List.cons_append, splitOn]
    split
    · simp [ih]
    · rw [ih]
      cases hx : splitOn c x' with
      | nil => exact absurd hx (splitOn_ne_nil _ _)
      | cons h t => simp

/-- `Join(Split(x)) = x` -/
theorem joinWith_splitOn (c : Char) (x : Str) : joinWith c (splitOn c x) = x := by
  induction x with
  | nil => rfl
  | cons a x' ih =>
    simp only [splitOn]
    split
    · rename_i h
      subst h
      cases hx : splitOn a x' with
      | nil => exact absurd hx (splitOn_ne_nil _ _)
      | cons h t => rw [hx] at ih; simp [joinWith, ih]
    · cases hx : splitOn c x' with
      | nil => exact absurd hx (splitOn_ne_nil _ _)
      | cons h t =>
        rw [hx] at ih
        cases t with
        | nil => simp only [joinWith] at ih ⊢; rw [ih]
        | cons t1 t2 => simp only [joinWith] at ih ⊢; rw [← ih]; simp

/-! ### numbers and ranges -/

theorem Num.render_ne_nil (n : Num) : n.render ≠ [] := by
  simp [Num.render, natToDec_ne_nil]

theorem Num.render_digits (n : Num) : ∀ x ∈ n.render, x.isDigit = true := by
  intro x hx
  simp only [Num.render, List.mem_append, List.mem_replicate] at hx
  rcases hx with ⟨_, hx⟩ | hx
  · subst hx; decide
  · exact natToDec_digits _ x hx

theorem digit_ne {x : Char} (h : x.isDigit = true) : x ≠ '-' ∧ x ≠ ':' ∧ x ≠ '/' := by
  refine ⟨?_, ?_, ?_⟩ <;> (intro he; subst he; revert h; decide)

theorem parseUint16_num (n : Num) (h : n.val ≤ 65535) : parseUint16 n.render = some n.val := by
  simp only [parseUint16, Num.render_ne_nil, if_false]
  simp [Num.render, parseDecAux_zeros, parseDecAux_natToDec, h]

theorem parseUint16_num_big (n : Num) (h : 65535 < n.val) : parseUint16 n.render = none := by
  simp only [parseUint16, Num.render_ne_nil, if_false]
  have : ¬ n.val ≤ 65535 := by omega
  simp [Num.render, parseDecAux_zeros, parseDecAux_natToDec, this]

theorem Range.render_ne_nil (r : Range) : r.render ≠ [] := by
  cases h : r.hi with
  | none => simp [Range.render, h, Num.render_ne_nil]
  | some x => simp [Range.render, h]

theorem Range.render_clean (r : Range) : ∀ x ∈ r.render, x ≠ ':' ∧ x ≠ '/' := by
  intro x hx
  cases h : r.hi with
  | none =>
    simp only [Range.render, h] at hx
    exact (digit_ne (Num.render_digits _ x hx)).2
  | some y =>
    simp only [Range.render, h, List.mem_append, List.mem_cons] at hx
    rcases hx with hx | hx | hx
    · exact (digit_ne (Num.render_digits _ x hx)).2
    · subst hx; decide
    · exact (digit_ne (Num.render_digits _ x hx)).2

/-- `nat.ParsePortRange` on a rendered range -/
theorem parsePortRange_render (r : Range) :
    parsePortRange r.render =
      if r.lo.val ≤ 65535 ∧ r.last ≤ 65535 ∧ r.lo.val ≤ r.last then some (r.lo.val, r.last) else none := by
  obtain ⟨lo, hi⟩ := r
  cases hi with
  | none =>
    have hnd : lo.render.contains '-' = false :=
      (contains_false_iff _ _).2 (fun x hx => (digit_ne (Num.render_digits _ x hx)).1)
    simp only [parsePortRange, Range.render, Num.render_ne_nil, if_false, hnd, Range.last]
    by_cases h : lo.val ≤ 65535
    · simp [parseUint16_num lo h, h]
    · simp [parseUint16_num_big lo (by omega), h]
  | some hi =>
    have hc : (lo.render ++ '-' :: hi.render).contains '-' = true := by simp
    have hsplit : splitOn '-' (lo.render ++ '-' :: hi.render) = [lo.render, hi.render] := by
      rw [splitOn_append _ _ _ (fun x hx => (digit_ne (Num.render_digits _ x hx)).1),
        splitOn_clean _ _ (fun x hx => (digit_ne (Num.render_digits _ x hx)).1)]
    simp only [parsePortRange, Range.render, hc, hsplit, Range.last]
    have hne : lo.render ++ '-' :: hi.render ≠ [] := by simp
    simp only [hne, if_false, Bool.not_true, Bool.false_eq_true]
    by_cases h1 : lo.val ≤ 65535
    · by_cases h2 : hi.val ≤ 65535
      · simp only [parseUint16_num lo h1, parseUint16_num hi h2]
        by_cases h3 : lo.val ≤ hi.val
        · have : ¬ hi.val < lo.val := by omega
          simp [h1, h2, h3, this]
        · have : hi.val < lo.val := by omega
          simp [h3, this]
      · simp [parseUint16_num lo h1, parseUint16_num_big hi (by omega), h2]
    · simp [parseUint16_num_big lo (by omega), h1]

/-! ### cutting the rendered spec -/

/-- the last section: container range and optional protocol -/
def contSection (a : PortSpec) : Str := a.cont.render ++ (match a.proto with | none => [] | some p => '/' :: p)

def protoRaw (a : PortSpec) : Str := match a.proto with | none => ['t', 'c', 'p'] | some [] => ['t', 'c', 'p'] | some p => p

def protoSyn (a : PortSpec) : Bool := match a.proto with | none => true | some p => !p.contains ':' && !p.contains '/'

theorem contSection_clean (a : PortSpec) (h : protoSyn a = true) : ∀ x ∈ contSection a, x ≠ ':' := by
  intro x hx
  cases hp : a.proto with
  | none =>
    simp only [contSection, hp, List.append_nil] at hx
    exact (Range.render_clean _ x hx).1
  | some p =>
    simp only [contSection, hp, List.mem_append, List.mem_cons] at hx
    simp only [protoSyn, hp, Bool.and_eq_true, Bool.not_eq_true'] at h
    rcases hx with hx | hx | hx
    · exact (Range.render_clean _ x hx).1
    · subst hx; decide
    · exact (contains_false_iff _ _).1 h.1 x hx

theorem splitProtoPort_contSection (a : PortSpec) (h : protoSyn a = true) :
    splitProtoPort (contSection a) = (protoRaw a, a.cont.render) := by
  have hc : ∀ x ∈ a.cont.render, x ≠ '/' := fun x hx => (Range.render_clean _ x hx).2
  have hne := Range.render_ne_nil a.cont
  cases hp : a.proto with
  | none =>
    simp [contSection, protoRaw, hp, splitProtoPort, splitOn_clean _ _ hc, hne]
  | some p =>
    simp only [protoSyn, hp, Bool.and_eq_true, Bool.not_eq_true'] at h
    have hp' := (contains_false_iff _ _).1 h.2
    simp only [contSection, protoRaw, hp, splitProtoPort, splitOn_append _ _ _ hc, splitOn_clean _ _ hp', hne, if_false]
    cases p with
    | nil => simp
    | cons c r => simp

theorem splitHostColon_ip (i : IP) (h : i.wf = true) : splitHostColon i.render = some i.addr := by
  simp only [IP.wf, Bool.and_eq_true, Bool.not_eq_true', Bool.or_eq_true] at h
  obtain ⟨⟨⟨hv, h1⟩, h2⟩, h3⟩ := h
  have m1 : ¬ '[' ∈ i.addr := by simpa using h1
  have m2 : ¬ ']' ∈ i.addr := by simpa using h2
  by_cases hb : i.bracket = true
  · simp [IP.render, hb, splitHostColon, m1, m2]
  · have h3' : i.addr.contains ':' = false := by
      rcases h3 with h3 | h3
      · exact absurd h3 hb
      · exact h3
    simp only [IP.render, hb, Bool.false_eq_true, if_false]
    cases ha : i.addr with
    | nil => simp [splitHostColon]
    | cons c r =>
      have : c ≠ '[' := by
        have := (contains_false_iff _ _).1 h1 c (by simp [ha])
        exact this
      have m3 : ¬ ':' ∈ i.addr := by simpa using h3'
      rw [ha] at m1 m2 m3
      simp only [List.mem_cons, not_or] at m1 m2 m3
      unfold splitHostColon
      split
      · rename_i heq
        simp only [List.cons.injEq] at heq
        exact absurd heq.1 this
      · simp [m1, m2, m3]

theorem splitOn_ne_nil' (c : Char) (s : Str) : ∃ h t, splitOn c s = h :: t := by
  cases hx : splitOn c s with
  | nil => exact absurd hx (splitOn_ne_nil _ _)
  | cons h t => exact ⟨h, t, rfl⟩

theorem splitParts_prefix (x h c : Str) :
    splitParts (splitOn ':' x ++ [h, c]) = (x, h, c) := by
  obtain ⟨p, t, hp⟩ := splitOn_ne_nil' ':' x
  have hj := joinWith_splitOn ':' x
  simp only [splitParts, List.reverse_append, List.reverse_cons, List.reverse_nil, List.nil_append, List.cons_append,
    List.reverse_reverse, hj]

/-- the host section of the rendered spec -/
def hostSection (a : PortSpec) : Str := match a.host with | none => [] | some h => h.render

/-- cutting a rendered spec: (rawIP, host, container/proto) -/
theorem splitParts_render (a : PortSpec) (h : protoSyn a = true) :
    splitParts (splitOn ':' a.render) =
      ((match a.ip with | none => [] | some i => i.render), hostSection a, contSection a) := by
  have hc := contSection_clean a h
  have hrender : a.render = match a.ip, a.host with
      | none, none => contSection a
      | none, some h => h.render ++ ':' :: contSection a
      | some i, none => i.render ++ ':' :: ':' :: contSection a
      | some i, some h => i.render ++ ':' :: h.render ++ ':' :: contSection a := by
    simp only [PortSpec.render, contSection]
    cases a.ip <;> cases a.host <;> rfl
  rw [hrender]
  cases hi : a.ip with
  | none =>
    cases hh : a.host with
    | none => simp [hostSection, hh, splitOn_clean _ _ hc, splitParts]
    | some r =>
      have hr : ∀ x ∈ r.render, x ≠ ':' := fun x hx => (Range.render_clean _ x hx).1
      simp [hostSection, hh, splitOn_append _ _ _ hr, splitOn_clean _ _ hc, splitParts, joinWith]
  | some i =>
    cases hh : a.host with
    | none =>
      simp only [hostSection, hh]
      have h2 : splitOn ':' (':' :: contSection a) = [[], contSection a] := by
        simp [splitOn, splitOn_clean _ _ hc]
      rw [splitOn_append_sep, h2]
      exact splitParts_prefix _ _ _
    | some r =>
      have hr : ∀ x ∈ r.render, x ≠ ':' := fun x hx => (Range.render_clean _ x hx).1
      simp only [hostSection, hh, List.append_assoc, List.cons_append]
      rw [splitOn_append_sep, splitOn_append _ _ _ hr, splitOn_clean _ _ hc]
      exact splitParts_prefix _ _ _

def ipAddr (a : PortSpec) : Str := match a.ip with | none => [] | some i => i.addr

theorem parsePortSpec_render (a : PortSpec) (hsyn : protoSyn a = true) (hip : ∀ i, a.ip = some i → i.wf = true) :
    parsePortSpec a.render = portCore (ipAddr a) (hostSection a) a.cont.render (protoRaw a) := by
  unfold parsePortSpec
  rw [splitParts_render a hsyn]
  simp only [splitProtoPort_contSection a hsyn]
  cases hi : a.ip with
  | none => simp [splitHostColon, ipAddr, hi]
  | some i => simp [splitHostColon_ip i (hip i hi), ipAddr, hi]

theorem insertByKey_perm (m : Mapping) (l : List Mapping) : (insertByKey m l).Perm (m :: l) := by
  induction l with
  | nil => exact List.Perm.refl _
  | cons x xs ih =>
    simp only [insertByKey]
    split
    · exact List.Perm.refl _
    · exact (List.Perm.cons x ih).trans (List.Perm.swap m x xs)

theorem sortByKey_perm (l : List Mapping) : (sortByKey l).Perm l := by
  induction l with
  | nil => exact List.Perm.refl _
  | cons x xs ih =>
    simp only [sortByKey, List.foldr_cons]
    exact (insertByKey_perm x _).trans (List.Perm.cons x ih)

theorem protoSyn_of_wf (a : PortSpec) (h : a.wf = true) : protoSyn a = true := by
  simp only [PortSpec.wf, Bool.and_eq_true] at h
  obtain ⟨_, hp⟩ := h
  cases hpr : a.proto with
  | none => simp [protoSyn, hpr]
  | some p =>
    simp only [hpr, Bool.and_eq_true] at hp
    have h1 := hp.1.2
    have h2 := hp.2
    simp only [Bool.not_eq_true'] at h1 h2
    have m1 : ¬ ':' ∈ p := by simpa using h1
    have m2 : ¬ '/' ∈ p := by simpa using h2
    simp [protoSyn, hpr, m1, m2]

theorem lower_protoRaw (a : PortSpec) : lower (protoRaw a) = protoOf a.proto := by
  cases hp : a.proto with
  | none => simp [protoRaw, protoOf, hp]; decide
  | some p =>
    cases p with
    | nil => simp [protoRaw, protoOf, hp]; decide
    | cons c r => simp [protoRaw, protoOf, hp]

theorem validProto_of_wf (a : PortSpec) (h : a.wf = true) : validProto (protoOf a.proto) = true := by
  simp only [PortSpec.wf, Bool.and_eq_true] at h
  obtain ⟨_, hp⟩ := h
  cases hpr : a.proto with
  | none => decide
  | some p =>
    simp only [hpr, Bool.and_eq_true, Bool.or_eq_true, decide_eq_true_eq] at hp
    cases p with
    | nil => decide
    | cons c r =>
      rcases hp.1.1 with h | h
      · cases h
      · simpa [protoOf] using h

/-- the core on a well-formed AST -/
theorem portCore_wf (a : PortSpec) (h : a.wf = true) :
    portCore (ipAddr a) (hostSection a) a.cont.render (protoRaw a) =
      some ((List.range a.cont.size).map
        (mkMapping (ipAddr a) (protoOf a.proto) a.cont.lo.val
          (match a.host with | none => 0 | some r => r.lo.val) (match a.host with | none => 0 | some r => r.last)
          (a.host.isSome) (a.cont.lo.val = a.cont.last))) := by
  have hvp := validProto_of_wf a h
  simp only [PortSpec.wf, Bool.and_eq_true] at h
  obtain ⟨⟨⟨hc, hh⟩, hi⟩, _⟩ := h
  simp only [Range.wf, Bool.and_eq_true, decide_eq_true_eq] at hc
  have hipok : (ipAddr a ≠ [] && !validIP (ipAddr a)) = false := by
    cases hia : a.ip with
    | none => simp [ipAddr, hia]
    | some i =>
      simp only [hia, IP.wf, Bool.and_eq_true] at hi
      simp [ipAddr, hia, hi.1.1.1]
  unfold portCore
  rw [hipok]
  simp only [Bool.false_eq_true, if_false, Range.render_ne_nil, parsePortRange_render, lower_protoRaw, hvp]
  have hcc : a.cont.lo.val ≤ 65535 ∧ a.cont.last ≤ 65535 ∧ a.cont.lo.val ≤ a.cont.last := ⟨by omega, hc.2, hc.1⟩
  simp only [hcc, and_self, if_true]
  cases hho : a.host with
  | none =>
    simp [hostSection, hho, Range.size]
  | some r =>
    simp only [hho, Bool.and_eq_true, Range.wf, decide_eq_true_eq, Bool.or_eq_true] at hh
    obtain ⟨⟨hr1, hr2⟩, hsz⟩ := hh
    have hrr : r.lo.val ≤ 65535 ∧ r.last ≤ 65535 ∧ r.lo.val ≤ r.last := ⟨by omega, hr2, hr1⟩
    simp only [hostSection, hho, Range.render_ne_nil, if_false, parsePortRange_render, hrr, and_self, if_true]
    simp only [Range.size] at hsz
    simp only [Range.size, Range.render_ne_nil, ne_eq, not_false_eq_true, decide_true, Bool.true_and]
    simp
    intro hne
    omega


theorem cfg_mkMapping (a : PortSpec) (h : a.wf = true) (i : Nat) (hi : i < a.cont.size) :
    (mkMapping (ipAddr a) (protoOf a.proto) a.cont.lo.val
          (match a.host with | none => 0 | some r => r.lo.val) (match a.host with | none => 0 | some r => r.last)
          (a.host.isSome) (a.cont.lo.val = a.cont.last) i).cfg
      = { hostIP := (match a.ip with | none => [] | some i => i.addr), target := a.cont.lo.val + i,
          published := published a i, protocol := protoOf a.proto } := by
  simp only [PortSpec.wf, Bool.and_eq_true] at h
  obtain ⟨⟨⟨hc, hh⟩, _⟩, _⟩ := h
  simp only [Range.wf, Bool.and_eq_true, decide_eq_true_eq] at hc
  simp only [Range.size] at hi
  cases hho : a.host with
  | none => simp [mkMapping, published, hho, ipAddr]
  | some r =>
    simp only [hho, Bool.and_eq_true, Range.wf, decide_eq_true_eq, Bool.or_eq_true] at hh
    obtain ⟨⟨hr1, hr2⟩, _⟩ := hh
    simp only [mkMapping, published, hho, ipAddr, Range.size, Option.isSome_some, if_true]
    by_cases hs : a.cont.lo.val = a.cont.last
    · have hi0 : i = 0 := by omega
      subst hi0
      by_cases hr : r.lo.val = r.last
      · simp [hs, hr]
      · simp [hs, hr]
        omega
    · simp [hs]
      intro h0
      omega

/-! near misses -/

theorem portCore_bad_proto (ip host cont proto : Str) (h : validProto (lower proto) = false) :
    portCore ip host cont proto = none := by
  unfold portCore
  repeat' split
  all_goals first | rfl | simp_all

theorem portCore_bad_cont (ip host cont proto : Str) (h : parsePortRange cont = none) :
    portCore ip host cont proto = none := by
  unfold portCore
  repeat' split
  all_goals first | rfl | simp_all

theorem portCore_bad_host (ip host cont proto : Str) (hne : host ≠ []) (h : parsePortRange host = none) :
    portCore ip host cont proto = none := by
  unfold portCore
  repeat' split
  all_goals first | rfl | simp_all

theorem portCore_nil_cont (ip host proto : Str) : portCore ip host [] proto = none := by
  unfold portCore
  repeat' split
  all_goals first | rfl | simp_all

theorem splitParts_snoc_nil (P : List Str) (hP : P ≠ []) : (splitParts (P ++ [[]])).2.2 = [] := by
  cases hr : P.reverse with
  | nil => simp at hr; exact absurd hr hP
  | cons x t => simp [splitParts, hr]

end CV.Short
