import ComposeVerif.Model.C01Unicity
import ComposeVerif.Model.Unicity
/-!
Lemmas for `Props/C01Unicity.lean`: the index-keeping loop of `enforceUnicity` simulates C04's accumulator
(`foldl insert`): `seq` is the column of values, and `keys` answers, for every key, the position of that key in the
accumulator.  From the simulation: every index the loop looks up is inside `seq` (no panic) and the result is `dedup`.
-/
namespace CV.C01.Uniq
open CV CV.Val

/-- position of key `k` in an association list -/
def idx (k : String) : KVs → Option Nat
  | [] => none
  | (k', _) :: r => if k = k' then some 0 else (idx k r).map (· + 1)

theorem idx_lt {k : String} : ∀ {acc : KVs} {j : Nat}, idx k acc = some j → j < acc.length
  | [], _, h => by simp [idx] at h
  | (k', v') :: r, j, h => by
    unfold idx at h
    split at h
    · cases h; simp
    · cases hr : idx k r with
      | none => rw [hr] at h; cases h
      | some j' =>
        rw [hr] at h
        simp only [Option.map_some, Option.some.injEq] at h
        have := idx_lt hr
        simp only [List.length_cons]
        omega

/-- the key is there: `insert` overwrites the value at its position and moves nothing -/
theorem insert_present {k : String} (v : Val) : ∀ {acc : KVs} {j : Nat}, idx k acc = some j →
    (insert k v acc).map Prod.snd = (acc.map Prod.snd).set j v ∧ (∀ k', idx k' (insert k v acc) = idx k' acc)
  | [], _, h => by simp [idx] at h
  | (k', v') :: r, j, h => by
    unfold idx at h
    unfold Val.insert
    split at h
    · rename_i e
      cases h
      simp only [e, if_true, List.map_cons, List.set_cons_zero, true_and]
      intro k''
      simp [idx]
    · rename_i e
      cases hr : idx k r with
      | none => rw [hr] at h; cases h
      | some j' =>
        rw [hr] at h
        simp only [Option.map_some, Option.some.injEq] at h
        subst h
        obtain ⟨h1, h2⟩ := insert_present v hr
        simp only [e, if_false, List.map_cons, List.set_cons_succ, h1, true_and]
        intro k''
        simp only [idx, h2]

/-- the key is new: `insert` appends -/
theorem insert_absent {k : String} (v : Val) : ∀ {acc : KVs}, idx k acc = none → insert k v acc = acc ++ [(k, v)]
  | [], _ => rfl
  | (k', v') :: r, h => by
    unfold idx at h
    unfold Val.insert
    split at h
    · cases h
    · rename_i e
      have hr : idx k r = none := by
        cases hr : idx k r with
        | none => rfl
        | some j => rw [hr] at h; cases h
      simp only [e, if_false, List.cons_append, insert_absent v hr]

theorem idx_append (k' k : String) (v : Val) : ∀ (acc : KVs),
    idx k' (acc ++ [(k, v)]) = match idx k' acc with
      | some j => some j
      | none => if k' = k then some acc.length else none
  | [] => by
    simp only [List.nil_append, idx, List.length_nil]
    split <;> simp
  | (k0, v0) :: r => by
    simp only [List.cons_append, idx, List.length_cons]
    split
    · rfl
    · rw [idx_append k' k v r]
      cases idx k' r with
      | some j => rfl
      | none => simp only [Option.map_none]; split <;> simp

/-- the simulation relation -/
def Rel (st : St) (acc : KVs) : Prop :=
  st.seq = acc.map Prod.snd ∧ ∀ k, lookupIdx k st.keys = idx k acc

theorem rel_init : Rel ⟨[], []⟩ [] := ⟨rfl, fun _ => rfl⟩

theorem step_rel {st : St} {acc : KVs} (h : Rel st acc) (i : Nat) (k : String) (e : Val) :
    ∃ st', stepWith recordedIndex i st k e = some st' ∧ Rel st' (insert k e acc) := by
  obtain ⟨hs, hk⟩ := h
  unfold stepWith
  cases hl : lookupIdx k st.keys with
  | some j =>
    have hi : idx k acc = some j := by rw [← hk]; exact hl
    have hlt : j < st.seq.length := by rw [hs, List.length_map]; exact idx_lt hi
    obtain ⟨h1, h2⟩ := insert_present e hi
    simp only [hlt, if_true]
    exact ⟨_, rfl, by simp only [hs, h1], fun k' => by rw [h2]; exact hk k'⟩
  | none =>
    have hi : idx k acc = none := by rw [← hk]; exact hl
    rw [insert_absent e hi]
    refine ⟨_, rfl, by simp [hs], ?_⟩
    intro k'
    rw [idx_append]
    simp only [lookupIdx, recordedIndex, List.length_append, List.length_singleton, Nat.add_sub_cancel]
    have hlen : st.seq.length = acc.length := by rw [hs, List.length_map]
    by_cases ek : k' = k
    · subst ek
      simp only [if_true, hi, hlen]
    · simp only [ek, if_false]
      rw [hk k']
      cases idx k' acc <;> rfl

theorem loop_rel : ∀ (kes : List (String × Val)) (i : Nat) (st : St) (acc : KVs), Rel st acc →
    ∃ st', loopWith recordedIndex i st kes = some st' ∧
      Rel st' (kes.foldl (fun acc e => insert e.1 e.2 acc) acc)
  | [], _, st, acc, h => ⟨st, rfl, h⟩
  | (k, e) :: r, i, st, acc, h => by
    obtain ⟨st1, h1, hr1⟩ := step_rel h i k e
    obtain ⟨st2, h2, hr2⟩ := loop_rel r (i + 1) st1 _ hr1
    refine ⟨st2, ?_, hr2⟩
    simp only [loopWith, h1, h2]

end CV.C01.Uniq
