import ComposeVerif.Lemmas.TemplateOp
/-!
# The C07 refinement: `run_render`

`toOut`/`evalOut` bridging, `ArgOK` (what a rendered well-formed argument looks like to the matcher:
newline-free and brace-balanced), and the mutual induction over the AST (`seg_run` / `list_run`).
-/
namespace CV.Template

def toOut : Except Err Str → Out
  | .ok s => .ok s
  | .error e => .err e

theorem evalOut_eq (env : Env) (t : List Seg) : evalOut env t = toOut (evalL env t) := by
  unfold evalOut toOut; cases evalL env t <;> rfl

theorem toOut_ne_panic (x : Except Err Str) (p : PanicSite) : toOut x ≠ .panic p := by
  cases x <;> simp [toOut]

theorem applyOp_eq_opSpec (o : Op) (n : Str) (v : Option Str) (d : Str) :
    applyOp o n v d = toOut (opSpec o n v d) := by
  cases o <;> cases v <;> simp [applyOp, opSpec, toOut] <;> (rename_i x; cases x <;> simp)

theorem render_op_eq (n : Str) (o : Op) (arg : List Seg) :
    (Seg.op n o arg).render = '$' :: '{' :: (n ++ (o.str ++ (renderL arg ++ ['}']))) := by
  simp [Seg.render]

theorem render_braced_eq (n : Str) : (Seg.var n true).render = '$' :: '{' :: (n ++ ['}']) := by
  simp [Seg.render]

theorem opOut_eval (env : Env) (n : Str) (o : Op) (arg : List Seg) :
    opOut env n o (evalOut env arg) = toOut ((Seg.op n o arg).eval env) := by
  rw [evalOut_eq, Seg.eval]
  cases evalL env arg with
  | error e => simp [toOut, opOut]
  | ok d => simp [toOut, opOut, applyOp_eq_opSpec]

theorem evalOut_cons (env : Env) (s : Seg) (r : List Seg) :
    evalOut env (s :: r) = seq (toOut (s.eval env)) (evalOut env r) := by
  rw [evalOut_eq, evalOut_eq, evalL]
  cases s.eval env with
  | error e => cases evalL env r <;> simp [toOut, seq]
  | ok a => cases evalL env r <;> simp [toOut, seq]

theorem evalOut_nil (env : Env) : evalOut env [] = .ok [] := by simp [evalOut, evalL]

/-- what the rendering of a well-formed operator argument looks like to the matcher -/
def ArgOK (a : Str) : Prop := noNL a ∧ Neutral a

theorem argOK_noBrace {a : Str} (h1 : noNL a) (h2 : NoBrace a) : ArgOK a := ⟨h1, neutral_noBrace h2⟩

theorem argOK_append {a b : Str} (ha : ArgOK a) (hb : ArgOK b) : ArgOK (a ++ b) :=
  ⟨fun c hc => by rcases List.mem_append.1 hc with h | h; exact ha.1 c h; exact hb.1 c h, neutral_append ha.2 hb.2⟩

theorem noNL_name {n : Str} (hall : ∀ x ∈ n, isNameChar x = true) : noNL n :=
  fun c hc => (not_nameChar_special (hall c hc)).2.2.2.2.2.2.2

theorem noNL_op (o : Op) : noNL o.str := by
  cases o <;> (intro c hc; simp [Op.str] at hc) <;> (try rcases hc with rfl | rfl) <;> (try subst hc) <;> decide

theorem argOK_braces (n mid a : Str) (hn : validName n = true) (hm1 : noNL mid) (hm2 : NoBrace mid) (ha : ArgOK a) :
    ArgOK ('$' :: '{' :: (n ++ (mid ++ (a ++ ['}'])))) := by
  obtain ⟨c, cs, rfl, hc, hall⟩ := validName_cases hn
  have hcs : ∀ x ∈ cs, isNameChar x = true := fun x hx => hall x (List.mem_cons_of_mem _ hx)
  constructor
  · intro x hx
    simp only [List.mem_cons, List.mem_append, List.not_mem_nil, or_false] at hx
    rcases hx with rfl | rfl | (rfl | hx) | hx | hx | rfl
    · decide
    · decide
    · exact noNL_name hall _ (List.mem_cons_self ..)
    · exact noNL_name hcs x hx
    · exact hm1 x hx
    · exact ha.1 x hx
    · decide
  · have hmid : NoBrace (cs ++ mid) := by
      intro x hx
      rcases List.mem_append.1 hx with h | h
      · exact noBrace_name hcs x h
      · exact hm2 x h
    have := neutral_cons (c := '$') (by decide) (neutral_braces c (noBrace_name hall c (List.mem_cons_self ..)) hmid ha.2)
    simpa using this

end CV.Template
namespace CV.Template

/-- balanced literal braces leave the brace counter where it was, without reaching zero on the way -/
theorem braceBal_neutral (s : Str) : ∀ (d : Nat), braceBal s d = true →
    ∀ (rest : Str) (i : Nat) (o : Int), 1 ≤ o →
      firstCloseGo (s ++ rest) i (o + d) = firstCloseGo rest (i + s.length) o := by
  induction s with
  | nil =>
    intro d h rest i o _
    simp only [braceBal, beq_iff_eq] at h
    subst h; simp
  | cons c cs ih =>
    intro d h rest i o ho
    by_cases h1 : c = '{'
    · subst h1
      simp only [braceBal] at h
      rw [List.cons_append, firstCloseGo_open1]
      have := ih (d + 1) h rest (i + 1) o ho
      rw [show o + (d : Int) + 1 = o + ((d + 1 : Nat) : Int) by omega, this]
      congr 1; simp; omega
    · by_cases h2 : c = '}'
      · subst h2
        simp only [braceBal, Bool.and_eq_true, bne_iff_ne, ne_eq] at h
        obtain ⟨hd, hb⟩ := h
        rw [List.cons_append, firstCloseGo_close]
        have h0 : (o + (d : Int) - 1 == 0) = false := by
          rw [beq_eq_false_iff_ne]; omega
        rw [h0]
        simp only [Bool.false_eq_true, if_false]
        have := ih (d - 1) hb rest (i + 1) o ho
        rw [show o + (d : Int) - 1 = o + ((d - 1 : Nat) : Int) by omega, this]
        congr 1; simp; omega
      · have hb : braceBal cs d = true := by
          rw [braceBal] at h
          · exact h
          · intro heq; exact h1 heq
          · intro heq; exact h2 heq
        have hskip := firstCloseGo_skip [c] (cs ++ rest) i (o + d)
          (by intro x hx; simp at hx; subst hx; exact ⟨h1, h2⟩)
        rw [List.cons_append]
        simp only [List.singleton_append, List.length_singleton] at hskip
        rw [hskip, ih d hb rest (i + 1) o ho]
        congr 1; simp; omega

theorem litOkArg_spec {s : Str} (h : litOkArg s = true) :
    (∀ c ∈ s, c ≠ '$') ∧ noNL s ∧ Neutral s := by
  simp only [litOkArg, List.all_eq_true, Bool.and_eq_true, bne_iff_ne, ne_eq] at h
  refine ⟨fun c hc => (h.1 c hc).1, fun c hc => (h.1 c hc).2, ?_⟩
  intro rest i o ho
  have := braceBal_neutral s 0 h.2 rest i o ho
  simpa using this

theorem litOkTop_spec {s : Str} (h : litOkTop s = true) : ∀ c ∈ s, c ≠ '$' := by
  simp only [litOkTop, List.all_eq_true, bne_iff_ne, ne_eq] at h
  exact h

mutual
theorem seg_argOK : (s : Seg) → s.wf true = true → ArgOK s.render
  | .lit s, h => by
    simp only [Seg.wf, if_true] at h
    have := litOkArg_spec h
    exact ⟨this.2.1, this.2.2⟩
  | .esc, _ => argOK_noBrace (by intro c hc; simp [Seg.render] at hc; subst hc; decide)
      (by intro c hc; simp [Seg.render] at hc; subst hc; decide)
  | .var n false, h => by
    simp only [Seg.wf] at h
    obtain ⟨c, cs, rfl, hc, hall⟩ := validName_cases h
    refine argOK_noBrace ?_ ?_
    · intro x hx
      simp only [Seg.render, List.mem_cons] at hx
      rcases hx with rfl | hx
      · decide
      · exact noNL_name hall x (by simpa using hx)
    · intro x hx
      simp only [Seg.render, List.mem_cons] at hx
      rcases hx with rfl | hx
      · decide
      · exact noBrace_name hall x (by simpa using hx)
  | .var n true, h => by
    simp only [Seg.wf] at h
    have := argOK_braces n [] [] h (by intro c hc; cases hc) (by intro c hc; cases hc)
      ⟨(by intro c hc; cases hc), neutral_nil⟩
    rw [render_braced_eq]
    simpa using this
  | .op n o arg, h => by
    simp only [Seg.wf, Bool.and_eq_true] at h
    rw [render_op_eq]
    exact argOK_braces n o.str (renderL arg) h.1 (noNL_op o) (noBrace_op o) (list_argOK arg h.2)
theorem list_argOK : (l : List Seg) → wfL true l = true → ArgOK (renderL l)
  | [], _ => ⟨(by intro c hc; simp [renderL] at hc), (by rw [renderL]; exact neutral_nil)⟩
  | s :: r, h => by
    simp only [wfL, Bool.and_eq_true] at h
    rw [renderL]
    exact argOK_append (seg_argOK s h.1.1) (list_argOK r h.1.2)
end

end CV.Template
namespace CV.Template

theorem noNameHead_append {A X : Str} (hA : noNameHead A = true) (hX : noNameHead X = true) :
    noNameHead (A ++ X) = true := by
  cases A with
  | nil => simpa using hX
  | cons a A => simpa [noNameHead] using hA

mutual
theorem seg_run (env : Env) : (s : Seg) → (inArg : Bool) → s.wf inArg = true → ∀ X : Str,
    (∀ n, s = .var n false → noNameHead X = true) →
    run env (s.render ++ X) = seq (toOut (s.eval env)) (run env X)
  | .lit s, inArg, h, X, _ => by
    have hs : ∀ c ∈ s, c ≠ '$' := by
      cases inArg
      · simp only [Seg.wf] at h; exact litOkTop_spec (by simpa using h)
      · simp only [Seg.wf, if_true] at h; exact (litOkArg_spec h).1
    rw [Seg.render, Seg.eval, toOut, run_lit env s X hs]
  | .esc, _, _, X, _ => by
    rw [Seg.render, Seg.eval, toOut]
    exact run_esc env X
  | .var n false, _, h, X, hX => by
    simp only [Seg.wf] at h
    rw [Seg.render, Seg.eval, toOut]
    exact run_named env n X h (hX n rfl)
  | .var n true, _, h, X, _ => by
    simp only [Seg.wf] at h
    rw [render_braced_eq, Seg.eval, toOut]
    have := run_braced env n X h
    simpa using this
  | .op n o arg, _, h, X, _ => by
    simp only [Seg.wf, Bool.and_eq_true] at h
    have hok := list_argOK arg h.2
    have harg := list_run env arg true h.2 [] rfl
    rw [List.append_nil, run_nil, seq_nil_ok] at harg
    have := run_op env n o (renderL arg) X h.1 hok.1 hok.2
    rw [harg, opOut_eval] at this
    rw [render_op_eq]
    simpa using this
theorem list_run (env : Env) : (l : List Seg) → (inArg : Bool) → wfL inArg l = true → ∀ X : Str,
    noNameHead X = true → run env (renderL l ++ X) = seq (evalOut env l) (run env X)
  | [], _, _, X, _ => by rw [renderL, evalOut_nil, seq_ok_nil]; rfl
  | s :: r, inArg, h, X, hX => by
    simp only [wfL, Bool.and_eq_true] at h
    have hs := seg_run env s inArg h.1.1 (renderL r ++ X) (by
      intro n hn
      subst hn
      exact noNameHead_append (by simpa using h.2) hX)
    have hr := list_run env r inArg h.1.2 X hX
    rw [renderL, List.append_assoc, hs, hr, evalOut_cons, seq_assoc]
end

/-- **Refinement**: on the concrete syntax of a well-formed template the model computes what the grammar says. -/
theorem run_render (env : Env) (t : List Seg) (h : WF t = true) : run env (renderL t) = evalOut env t := by
  have := list_run env t false h [] rfl
  rwa [List.append_nil, run_nil, seq_nil_ok] at this

end CV.Template
