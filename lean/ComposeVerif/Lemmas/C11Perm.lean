import ComposeVerif.Lemmas.C11Top
/-! Go's map iteration order is a universally quantified permutation: the `Normalize` model gives permuted
inputs permuted outputs, at each of the mappings the Go code ranges over (C11). -/
namespace CV.C11
open CV CV.Val CV.C11.Spec

/-- distinct keys (every association list that represents a Go map) -/
def KeysNodup (m : KVs) : Prop := (m.map Prod.fst).Nodup

theorem KeysNodup.perm {m m' : KVs} (h : KeysNodup m) (hp : m'.Perm m) : KeysNodup m' :=
  (List.Perm.nodup_iff (hp.map Prod.fst)).mpr h

theorem lookup_none_of_not_mem {k : String} {m : KVs} (h : k ∉ m.map Prod.fst) : lookup k m = none := by
  induction m with
  | nil => rfl
  | cons e r ih =>
    obtain ⟨k', v'⟩ := e
    simp only [List.map_cons, List.mem_cons, not_or] at h
    simp [lookup, h.1, ih h.2]

theorem lookup_perm {m m' : KVs} (hn : KeysNodup m) (hp : m'.Perm m) (k : String) : lookup k m' = lookup k m := by
  induction hp with
  | nil => rfl
  | cons x _ ih =>
    obtain ⟨k', v'⟩ := x
    have hn' : KeysNodup _ := (List.nodup_cons.mp hn).2
    simp [lookup, ih hn']
  | swap x y l =>
    obtain ⟨kx, vx⟩ := x
    obtain ⟨ky, vy⟩ := y
    have hne : kx ≠ ky := by
      have := (List.nodup_cons.mp hn).1
      simp only [List.map_cons, List.mem_cons, not_or] at this
      exact this.1
    by_cases h1 : k = kx
    · subst h1; simp [lookup, hne]
    · by_cases h2 : k = ky
      · subst h2; simp [lookup, h1]
      · simp [lookup, h1, h2]
  | trans h₁ h₂ ih₁ ih₂ =>
    rw [ih₁ (hn.perm h₂), ih₂ hn]

theorem mapAt_perm (f : String → Val → Val) {m m' : KVs} (hp : m'.Perm m) : (mapAt f m').Perm (mapAt f m) :=
  hp.map _

theorem keys_mapAt (f : String → Val → Val) (m : KVs) : (mapAt f m).map Prod.fst = m.map Prod.fst := by
  simp [mapAt, List.map_map, Function.comp_def]

theorem KeysNodup.mapAt {m : KVs} (h : KeysNodup m) (f : String → Val → Val) : KeysNodup (mapAt f m) := by
  unfold KeysNodup; rw [keys_mapAt]; exact h

/-- with distinct keys, `m[k] = v` is "replace the entry" or "append" -/
theorem insert_eq_of_nodup (k : String) (v : Val) {m : KVs} (hn : KeysNodup m) :
    Val.insert k v m = if k ∈ m.map Prod.fst then m.map (fun e => if e.1 = k then (k, v) else e) else m ++ [(k, v)] := by
  induction m with
  | nil => simp [Val.insert]
  | cons e r ih =>
    obtain ⟨k', v'⟩ := e
    have hn' : KeysNodup r := (List.nodup_cons.mp hn).2
    have hk' : k' ∉ r.map Prod.fst := (List.nodup_cons.mp hn).1
    by_cases hk : k = k'
    · subst hk
      have hid : r.map (fun e => if e.1 = k then (k, v) else e) = r := by
        conv => rhs; rw [← List.map_id r]
        apply List.map_congr_left
        intro e he
        have : e.1 ≠ k := fun h => hk' (h ▸ List.mem_map_of_mem (f := Prod.fst) he)
        simp [this]
      simp [Val.insert, hid]
    · have hk2 : ¬ k' = k := fun h => hk h.symm
      rw [show Val.insert k v ((k', v') :: r) = (k', v') :: Val.insert k v r by simp [Val.insert, hk], ih hn']
      by_cases hm : k ∈ r.map Prod.fst
      · simp [hm, hk, hk2]
      · simp [hm, hk, hk2]

theorem insert_perm (k : String) (v : Val) {m m' : KVs} (hn : KeysNodup m) (hp : m'.Perm m) :
    (Val.insert k v m').Perm (Val.insert k v m) := by
  rw [insert_eq_of_nodup k v hn, insert_eq_of_nodup k v (hn.perm hp)]
  have hmem : (k ∈ m'.map Prod.fst) ↔ (k ∈ m.map Prod.fst) := (hp.map Prod.fst).mem_iff
  by_cases h : k ∈ m.map Prod.fst
  · rw [if_pos h, if_pos (hmem.mpr h)]; exact hp.map _
  · rw [if_neg h, if_neg (fun h' => h (hmem.mp h'))]; exact hp.append_right _

/-! ### one service: the order of its attributes -/

theorem impliedDeps_perm {s s' : KVs} (hn : KeysNodup s) (hp : s'.Perm s) : impliedDeps s' = impliedDeps s := by
  have hl := lookup_perm hn hp
  unfold impliedDeps impliedList
  rw [hl "links", hl "volumes_from", hl "depends_on", nsDeps_congr (fun ns _ => hl ns)]

theorem normService_perm (clean : String → String) (env : Env) {s s' : KVs} (hn : KeysNodup s) (hp : s'.Perm s) :
    (normService clean env s').Perm (normService clean env s) := by
  unfold normService
  rw [impliedDeps_perm hn hp]
  unfold setDeps
  split
  · exact mapAt_perm _ hp
  · exact insert_perm _ _ (hn.mapAt _) (mapAt_perm _ hp)

theorem nnService_perm {s s' : KVs} (hn : KeysNodup s) (hp : s'.Perm s) : (nnService s').Perm (nnService s) := by
  have hl := lookup_perm hn hp
  unfold nnService
  rw [hl "network_mode", hl "networks"]
  split
  · exact hp
  · split
    · exact insert_perm _ _ hn hp
    · exact insert_perm _ _ hn hp
    · exact hp

/-! ### the services mapping and the resource mappings: the order of their entries -/

theorem mapVals_perm (f : Val → Val) {m m' : KVs} (hp : m'.Perm m) : (mapVals f m').Perm (mapVals f m) :=
  hp.map _

theorem any_perm {α : Type} (p : α → Bool) {l l' : List α} (hp : l'.Perm l) : l'.any p = l.any p := by
  induction hp with
  | nil => rfl
  | cons x _ ih => simp [ih]
  | swap x y l => simp [Bool.or_left_comm]
  | trans _ _ ih₁ ih₂ => rw [ih₁, ih₂]

theorem all_perm {α : Type} (p : α → Bool) {l l' : List α} (hp : l'.Perm l) : l'.all p = l.all p := by
  induction hp with
  | nil => rfl
  | cons x _ ih => simp [ih]
  | swap x y l => simp [Bool.and_left_comm]
  | trans _ _ ih₁ ih₂ => rw [ih₁, ih₂]

/-! ### the top level of the document -/

theorem usesDefaultNetwork_perm {d d' : KVs} (hn : KeysNodup d) (hp : d'.Perm d) :
    usesDefaultNetwork d' = usesDefaultNetwork d := by
  unfold usesDefaultNetwork; rw [lookup_perm hn hp]

theorem nnNetworks_perm {d d' : KVs} (hn : KeysNodup d) (hp : d'.Perm d) : nnNetworks d' = nnNetworks d := by
  unfold nnNetworks declaredNetworks
  rw [usesDefaultNetwork_perm hn hp, lookup_perm hn hp]

theorem normalizePure_perm (clean : String → String) (env : Env) {d d' : KVs} (hn : KeysNodup d) (hp : d'.Perm d) :
    (normalizePure clean env d').Perm (normalizePure clean env d) := by
  rw [normalizePure_eq, normalizePure_eq, nnNetworks_perm hn hp, lookup_perm hn hp "name"]
  split
  · exact mapAt_perm _ hp
  · exact insert_perm _ _ (hn.mapAt _) (mapAt_perm _ hp)

theorem shapes_perm {d d' : KVs} (hn : KeysNodup d) (hp : d'.Perm d) :
    shapeNN d' = shapeNN d ∧ shapeServices d' = shapeServices d ∧ shapeNames d' = shapeNames d := by
  have hl := lookup_perm hn hp
  refine ⟨?_, ?_, ?_⟩
  · unfold shapeNN; rw [hl "networks", hl "services"]
  · unfold shapeServices; rw [hl "services"]
  · unfold shapeNames
    congr 1
    funext r
    unfold shapeSection
    rw [hl r]

end CV.C11
