import ComposeVerif.Model.Marshal
import ComposeVerif.Lemmas.Marshal
/-! `time.ParseDuration (d.String()) = d` for every int64 duration (C09): `fmtFrac`, one segment, the segment loop. -/
namespace CV.Marshal
open CV

/-! ### lists of digits followed by something else -/

theorem takeWhile_append_stop {α : Type} (p : α → Bool) : ∀ (l : List α) (x : α) (r : List α),
    l.all p = true → p x = false → (l ++ x :: r).takeWhile p = l := by
  intro l; induction l with
  | nil => intro x r _ hx; simp [hx]
  | cons y ys ih =>
    intro x r hl hx
    simp only [List.all_cons, Bool.and_eq_true] at hl
    simp [hl.1, ih x r hl.2 hx]

theorem dropWhile_append_stop {α : Type} (p : α → Bool) : ∀ (l : List α) (x : α) (r : List α),
    l.all p = true → p x = false → (l ++ x :: r).dropWhile p = x :: r := by
  intro l; induction l with
  | nil => intro x r _ hx; simp [hx]
  | cons y ys ih =>
    intro x r hl hx
    simp only [List.all_cons, Bool.and_eq_true] at hl
    simp [hl.1, ih x r hl.2 hx]

theorem takeWhile_all {α : Type} (p : α → Bool) : ∀ (l : List α), l.all p = true → l.takeWhile p = l := by
  intro l; induction l with
  | nil => intro _; rfl
  | cons y ys ih =>
    intro hl
    simp only [List.all_cons, Bool.and_eq_true] at hl
    simp [List.takeWhile, hl.1, ih hl.2]

theorem dropWhile_all {α : Type} (p : α → Bool) : ∀ (l : List α), l.all p = true → l.dropWhile p = [] := by
  intro l; induction l with
  | nil => intro _; rfl
  | cons y ys ih =>
    intro hl
    simp only [List.all_cons, Bool.and_eq_true] at hl
    simp [List.dropWhile, hl.1, ih hl.2]

theorem natDigits_all (n : Nat) : (natDigits n).all isDigit = true := natDigitsAux_all _ _ _ (by rfl)

theorem digitsVal_append_one (a : List Char) (c : Char) : digitsVal (a ++ [c]) = digitsVal a * 10 + (c.toNat - 48) := by
  simp [digitsVal, List.foldl_append]

/-! ### `fmtFrac` -/

/-- once a digit has been printed, all remaining digits are -/
theorem fracLoop_printing : ∀ (n v : Nat) (acc : List Char),
    ∃ ds : List Char, fracLoop n v true acc = ('.' :: ds ++ acc, v / 10 ^ n) ∧ ds.all isDigit = true ∧
      ds.length = n ∧ digitsVal ds = v % 10 ^ n := by
  intro n
  induction n with
  | zero => intro v acc; exact ⟨[], by simp [fracLoop], rfl, rfl, by simp [digitsVal, Nat.mod_one]⟩
  | succ n ih =>
    intro v acc
    obtain ⟨ds, h1, h2, h3, h4⟩ := ih (v / 10) (digitChar (v % 10) :: acc)
    refine ⟨ds ++ [digitChar (v % 10)], ?_, ?_, ?_, ?_⟩
    · simp only [fracLoop, Bool.true_or, if_true, h1]
      refine Prod.ext ?_ ?_
      · simp
      · simp only [Nat.div_div_eq_div_mul, Nat.pow_succ, Nat.mul_comm]
    · simp [h2, digitChar_isDigit _ (Nat.mod_lt v (by decide))]
    · simp [h3]
    · rw [digitsVal_append_one, h4, digitChar_val _ (Nat.mod_lt v (by decide))]
      rw [Nat.pow_succ, Nat.mul_comm (10 ^ n) 10, Nat.mod_mul]
      omega


/-- what `fmtFrac` prints for the low `n` digits of `v` -/
def FracOK (n v : Nat) (frac : List Char) : Prop :=
  (v % 10 ^ n = 0 ∧ frac = []) ∨
  ∃ ds : List Char, frac = '.' :: ds ∧ ds.all isDigit = true ∧ ds ≠ [] ∧ ds.length ≤ n ∧
    digitsVal ds * 10 ^ (n - ds.length) = v % 10 ^ n

theorem fracLoop_start : ∀ (n v : Nat), ∃ frac, fracLoop n v false [] = (frac, v / 10 ^ n) ∧ FracOK n v frac := by
  intro n
  induction n with
  | zero => intro v; exact ⟨[], by simp [fracLoop], Or.inl ⟨by simp [Nat.mod_one], rfl⟩⟩
  | succ n ih =>
    intro v
    have hmod : v % 10 ^ (n + 1) = v % 10 + 10 * (v / 10 % 10 ^ n) := by
      rw [Nat.pow_succ, Nat.mul_comm (10 ^ n) 10, Nat.mod_mul]
    have hdiv : v / 10 / 10 ^ n = v / 10 ^ (n + 1) := by
      simp only [Nat.div_div_eq_div_mul, Nat.pow_succ, Nat.mul_comm]
    by_cases hd : v % 10 = 0
    · obtain ⟨frac, h1, h2⟩ := ih (v / 10)
      refine ⟨frac, ?_, ?_⟩
      · simp only [fracLoop, hd, Bool.false_or, bne_self_eq_false, Bool.false_eq_true, if_false, h1, hdiv]
      · rcases h2 with ⟨hz, hf⟩ | ⟨ds, hf, hall, hne, hlen, hval⟩
        · exact Or.inl ⟨by rw [hmod, hd, hz], hf⟩
        · refine Or.inr ⟨ds, hf, hall, hne, by omega, ?_⟩
          have : n + 1 - ds.length = (n - ds.length) + 1 := by omega
          rw [this, Nat.pow_succ, hmod, hd, ← hval]
          rw [← Nat.mul_assoc, Nat.mul_comm _ 10]
          omega
    · obtain ⟨ds, h1, h2, h3, h4⟩ := fracLoop_printing n (v / 10) [digitChar (v % 10)]
      have hb : (false || v % 10 != 0) = true := by simp [hd]
      refine ⟨'.' :: (ds ++ [digitChar (v % 10)]), ?_, Or.inr ⟨ds ++ [digitChar (v % 10)], rfl, ?_, by simp, by simp [h3], ?_⟩⟩
      · simp only [fracLoop, hb, if_true, h1, hdiv]
        simp
      · simp [h2, digitChar_isDigit _ (Nat.mod_lt v (by decide))]
      · have hl : (ds ++ [digitChar (v % 10)]).length = n + 1 := by simp [h3]
        rw [hl, Nat.sub_self, Nat.pow_zero, Nat.mul_one, digitsVal_append_one, h4,
          digitChar_val _ (Nat.mod_lt v (by decide)), hmod]
        omega


/-- what follows a segment: nothing, or the first digit of the next one -/
def RestOK (rest : List Char) : Prop := rest = [] ∨ ∃ c r, rest = c :: r ∧ isDigit c = true

theorem takeWhile_unit (us rest : List Char) (hus : us.all unitChar = true) (hr : RestOK rest) :
    (us ++ rest).takeWhile unitChar = us ∧ (us ++ rest).dropWhile unitChar = rest := by
  rcases hr with h | ⟨c, r, h, hc⟩
  · subst h; simp [takeWhile_all _ us hus, dropWhile_all _ us hus]
  · subst h
    have : unitChar c = false := by simp [unitChar, hc]
    exact ⟨takeWhile_append_stop _ us c r hus this, dropWhile_append_stop _ us c r hus this⟩

/-- one segment without fraction: `<digits><unit>` -/
theorem parseSeg_plain (w unit : Nat) (us rest : List Char)
    (hu : durUnit us = some unit) (hus : us.all unitChar = true) (hune : us ≠ []) (hr : RestOK rest)
    (hw : w ≤ two63) (hwu : w ≤ two63 / unit) (hv : w * unit ≤ two63) :
    parseSeg (natDigits w ++ us ++ rest) = (.ok (w * unit), rest) := by
  obtain ⟨c0, us', hc0⟩ : ∃ c0 us', us = c0 :: us' := by
    cases us with
    | nil => exact absurd rfl hune
    | cons a b => exact ⟨a, b, rfl⟩
  have hc0u : unitChar c0 = true := by
    rw [hc0] at hus; simp only [List.all_cons, Bool.and_eq_true] at hus; exact hus.1
  have hc0d : isDigit c0 = false := by simp only [unitChar, Bool.and_eq_true, Bool.not_eq_true'] at hc0u; exact hc0u.1
  have hc0p : c0 ≠ '.' := by simp only [unitChar, Bool.and_eq_true, bne_iff_ne] at hc0u; exact hc0u.2
  have hcs : natDigits w ++ us ++ rest = natDigits w ++ c0 :: (us' ++ rest) := by rw [hc0]; simp
  have hip : (natDigits w ++ us ++ rest).takeWhile isDigit = natDigits w := by
    rw [hcs]; exact takeWhile_append_stop _ _ _ _ (natDigits_all w) hc0d
  have hr1 : (natDigits w ++ us ++ rest).dropWhile isDigit = us ++ rest := by
    rw [hcs, dropWhile_append_stop _ _ _ _ (natDigits_all w) hc0d, hc0]; simp
  obtain ⟨ht, hd⟩ := takeWhile_unit us rest hus hr
  have hne : natDigits w ≠ [] := natDigitsAux_ne_nil _ _ _ (Or.inr (by omega))
  have hm : splitFrac (us ++ rest) = (([] : List Char), us ++ rest) := by
    rw [hc0]
    simp only [List.cons_append]
    unfold splitFrac
    split
    · next r heq => injection heq with h1 _; exact absurd h1 hc0p
    · rfl
  have hemp : (natDigits w).isEmpty = false := by
    cases h : natDigits w with
    | nil => exact absurd h hne
    | cons _ _ => rfl
  have h1 : ¬ (w > two63) := by omega
  have h2 : ¬ (w > two63 / unit) := by omega
  have h3 : digitsVal [] = 0 := rfl
  have h4 : ¬ (0 ≥ two63 / 10) := by decide
  have h5 : ¬ (w * unit > two63) := by omega
  unfold parseSeg
  simp only [hip, hr1, hm, hemp, Bool.false_and, Bool.false_eq_true, if_false, ht, hd, hu, digitsVal_natDigits,
    List.length_nil, Nat.pow_zero, Nat.div_one, h1, h2, h3, h4, Nat.zero_mul, Nat.add_zero, ne_eq, not_true_eq_false,
    false_and, h5]


/-- one segment with a fraction: `<digits>.<digits><unit>` where the unit is `10^prec` and the fraction has at most `prec` digits -/
theorem parseSeg_frac (w prec : Nat) (ds us rest : List Char)
    (hu : durUnit us = some (10 ^ prec)) (hus : us.all unitChar = true) (hune : us ≠ []) (hr : RestOK rest)
    (hds : ds.all isDigit = true) (hlen : ds.length ≤ prec)
    (hw : w ≤ two63) (hwu : w ≤ two63 / 10 ^ prec) (hf : digitsVal ds < two63 / 10)
    (hv : w * 10 ^ prec + digitsVal ds * 10 ^ (prec - ds.length) ≤ two63) :
    parseSeg (natDigits w ++ '.' :: ds ++ us ++ rest) = (.ok (w * 10 ^ prec + digitsVal ds * 10 ^ (prec - ds.length)), rest) := by
  obtain ⟨c0, us', hc0⟩ : ∃ c0 us', us = c0 :: us' := by
    cases us with
    | nil => exact absurd rfl hune
    | cons a b => exact ⟨a, b, rfl⟩
  have hc0u : unitChar c0 = true := by
    rw [hc0] at hus; simp only [List.all_cons, Bool.and_eq_true] at hus; exact hus.1
  have hc0d : isDigit c0 = false := by simp only [unitChar, Bool.and_eq_true, Bool.not_eq_true'] at hc0u; exact hc0u.1
  have hdot : isDigit '.' = false := by decide
  have hcs : natDigits w ++ '.' :: ds ++ us ++ rest = natDigits w ++ '.' :: (ds ++ us ++ rest) := by simp
  have hip : (natDigits w ++ '.' :: ds ++ us ++ rest).takeWhile isDigit = natDigits w := by
    rw [hcs]; exact takeWhile_append_stop _ _ _ _ (natDigits_all w) hdot
  have hr1 : (natDigits w ++ '.' :: ds ++ us ++ rest).dropWhile isDigit = '.' :: (ds ++ us ++ rest) := by
    rw [hcs, dropWhile_append_stop _ _ _ _ (natDigits_all w) hdot]
  have hds2 : ds ++ us ++ rest = ds ++ c0 :: (us' ++ rest) := by rw [hc0]; simp
  have hfp : (ds ++ us ++ rest).takeWhile isDigit = ds := by
    rw [hds2]; exact takeWhile_append_stop _ _ _ _ hds hc0d
  have hr2 : (ds ++ us ++ rest).dropWhile isDigit = us ++ rest := by
    rw [hds2, dropWhile_append_stop _ _ _ _ hds hc0d, hc0]; simp
  have hm : splitFrac ('.' :: (ds ++ us ++ rest)) = (ds, us ++ rest) := by
    simp only [splitFrac, hfp, hr2]
  obtain ⟨ht, hd⟩ := takeWhile_unit us rest hus hr
  have hne : natDigits w ≠ [] := natDigitsAux_ne_nil _ _ _ (Or.inr (by omega))
  have hemp : (natDigits w).isEmpty = false := by
    cases h : natDigits w with
    | nil => exact absurd h hne
    | cons _ _ => rfl
  have h1 : ¬ (w > two63) := by omega
  have h2 : ¬ (w > two63 / 10 ^ prec) := by omega
  have h4 : ¬ (digitsVal ds ≥ two63 / 10) := by omega
  have hdvd : 10 ^ prec % 10 ^ ds.length = 0 := Nat.mod_eq_zero_of_dvd (Nat.pow_dvd_pow 10 hlen)
  have hdiv : 10 ^ prec / 10 ^ ds.length = 10 ^ (prec - ds.length) := Nat.pow_div hlen (by decide)
  have h5 : ¬ (w * 10 ^ prec + digitsVal ds * 10 ^ (prec - ds.length) > two63) := by omega
  unfold parseSeg
  simp only [hip, hr1, hm, hemp, Bool.false_and, Bool.false_eq_true, if_false, ht, hd, hu, digitsVal_natDigits,
    h1, h2, h4, hdvd, hdiv, ne_eq, not_true_eq_false, and_false, h5]


theorem two63_val : two63 = 9223372036854775808 := rfl

theorem fracLoop_snd (prec u : Nat) : (fracLoop prec u false []).2 = u / 10 ^ prec := by
  obtain ⟨frac, h1, _⟩ := fracLoop_start prec u
  rw [h1]

/-- an integer part, the fraction printed by `fmtFrac` for `u`, and the unit `10^prec` parse to `w·10^prec + u mod 10^prec` -/
theorem parseSeg_wfrac (w prec u : Nat) (us rest : List Char)
    (hu : durUnit us = some (10 ^ prec)) (hus : us.all unitChar = true) (hune : us ≠ []) (hr : RestOK rest)
    (hprec : prec ≤ 9) (hwle : w ≤ two63) (hwu : w ≤ two63 / 10 ^ prec) (hv : w * 10 ^ prec + u % 10 ^ prec ≤ two63) :
    parseSeg (natDigits w ++ (fracLoop prec u false []).1 ++ us ++ rest) = (.ok (w * 10 ^ prec + u % 10 ^ prec), rest) := by
  obtain ⟨frac, h1, hok⟩ := fracLoop_start prec u
  have hpos : 0 < 10 ^ prec := Nat.pow_pos (by decide)
  have hp9 : 10 ^ prec ≤ 10 ^ 9 := Nat.pow_le_pow_right (by decide) hprec
  simp only [h1]
  rcases hok with ⟨hz, hf⟩ | ⟨ds, hf, hall, hne, hlen, hval⟩
  · subst hf
    have := parseSeg_plain w (10 ^ prec) us rest hu hus hune hr hwle hwu (by omega)
    simp only [List.append_nil]
    rw [this, hz, Nat.add_zero]
  · subst hf
    have hmodlt : u % 10 ^ prec < 10 ^ prec := Nat.mod_lt _ hpos
    have hp1 : 1 ≤ 10 ^ (prec - ds.length) := Nat.pow_pos (by decide)
    have hdv : digitsVal ds ≤ u % 10 ^ prec := by
      rw [← hval]; exact Nat.le_mul_of_pos_right _ hp1
    have hfb : digitsVal ds < two63 / 10 := by
      have : (10 : Nat) ^ 9 < two63 / 10 := by decide
      omega
    have := parseSeg_frac w prec ds us rest hu hus hune hr hall hlen hwle hwu hfb (by rw [hval]; exact hv)
    have hcs : natDigits w ++ '.' :: ds ++ us ++ rest = natDigits w ++ ('.' :: ds) ++ us ++ rest := by simp
    rw [← hcs, this, hval]

/-! ### the segment loop -/

theorem parseDurSegs_step (f : Nat) (cs rest : List Char) (acc v : Nat) (hne : cs ≠ [])
    (hp : parseSeg cs = (.ok v, rest)) (hacc : acc + v ≤ two63) :
    parseDurSegs (f + 1) cs acc = parseDurSegs f rest (acc + v) := by
  cases cs with
  | nil => exact absurd rfl hne
  | cons c r =>
    have : ¬ (acc + v > two63) := by omega
    simp only [parseDurSegs, hp, this, if_false]

theorem parseDurSegs_nil (f acc : Nat) : parseDurSegs (f + 1) [] acc = .ok acc := by
  simp [parseDurSegs]

theorem parseDurSegs_mono : ∀ (f : Nat) (cs : List Char) (acc n : Nat),
    parseDurSegs f cs acc = .ok n → parseDurSegs (f + 1) cs acc = .ok n := by
  intro f
  induction f with
  | zero => intro cs acc n h; simp [parseDurSegs] at h
  | succ f ih =>
    intro cs acc n h
    cases cs with
    | nil => simpa [parseDurSegs] using h
    | cons c r =>
      simp only [parseDurSegs] at h ⊢
      cases hp : parseSeg (c :: r) with
      | mk res rest =>
        rw [hp] at h
        cases res with
        | ok v =>
          simp only at h ⊢
          by_cases hov : acc + v > two63
          · simp [hov] at h
          · simp only [hov, if_false] at h ⊢
            exact ih rest (acc + v) n h
        | err => simp at h
        | unmodelled => simp at h

theorem parseDurSegs_mono_le (f f' : Nat) (cs : List Char) (acc n : Nat) (hle : f ≤ f')
    (h : parseDurSegs f cs acc = .ok n) : parseDurSegs f' cs acc = .ok n := by
  induction hle with
  | refl => exact h
  | step _ ih => exact parseDurSegs_mono _ _ _ _ ih


/-! ### `Duration.String` parses back -/

theorem restOK_natDigits (n : Nat) (r : List Char) : RestOK (natDigits n ++ r) := by
  obtain ⟨c, cs, hc, hd⟩ := natDigits_head n
  exact Or.inr ⟨c, cs ++ r, by rw [hc]; rfl, hd⟩

/-- a sub-second magnitude: one segment `<int>[.<frac>]<unit>` with unit `10^prec` -/
theorem parse_subsecond (prec u : Nat) (us : List Char) (hu : durUnit us = some (10 ^ prec)) (hus : us.all unitChar = true)
    (hune : us ≠ []) (hprec : prec ≤ 9) (hub : u ≤ two63) :
    parseDurSegs 2 (natStr (fracLoop prec u false []).2 ++ (fracLoop prec u false []).1 ++ us) 0 = .ok u := by
  have hsplit : u / 10 ^ prec * 10 ^ prec + u % 10 ^ prec = u := by
    rw [Nat.mul_comm]; exact Nat.div_add_mod u (10 ^ prec)
  have hwle : u / 10 ^ prec ≤ two63 := Nat.le_trans (Nat.div_le_self _ _) hub
  have hwu : u / 10 ^ prec ≤ two63 / 10 ^ prec := Nat.div_le_div_right hub
  have hp := parseSeg_wfrac (u / 10 ^ prec) prec u us [] hu hus hune (Or.inl rfl) hprec hwle hwu (by omega)
  rw [hsplit] at hp
  simp only [List.append_nil] at hp
  have hne : natStr (fracLoop prec u false []).2 ++ (fracLoop prec u false []).1 ++ us ≠ [] := by
    intro h; exact hune (List.append_eq_nil_iff.mp h).2
  rw [parseDurSegs_step 1 _ [] 0 u hne (by simpa [natStr, fracLoop_snd] using hp) (by omega)]
  simp [parseDurSegs]

theorem natDigits_length_pos (n : Nat) : 0 < (natDigits n).length := by
  obtain ⟨c, cs, hc, _⟩ := natDigits_head n
  rw [hc]; simp

/-- **`time.ParseDuration` inverts `time.Duration.String`** on magnitudes: every `0 < u ≤ 2^63` -/
theorem parse_durBody (u : Nat) (h0 : u ≠ 0) (hub : u ≤ two63) :
    parseDurSegs ((durBody u).length + 1) (durBody u) 0 = .ok u := by
  have hlp := natDigits_length_pos
  unfold durBody
  simp only [h0, if_false]
  by_cases h1 : u < 1000
  · simp only [h1, if_true]
    refine parseDurSegs_mono_le 2 _ _ _ _ ?_ (parse_subsecond 0 u ['n', 's'] (by rfl) (by decide) (by simp) (by decide) hub)
    simp only [List.length_append, List.length_cons, List.length_nil]; omega
  · simp only [h1, if_false]
    by_cases h2 : u < 1000000
    · simp only [h2, if_true]
      refine parseDurSegs_mono_le 2 _ _ _ _ ?_ (parse_subsecond 3 u ['µ', 's'] (by rfl) (by decide) (by simp) (by decide) hub)
      simp only [List.length_append, List.length_cons, List.length_nil]; omega
    · simp only [h2, if_false]
      by_cases h3 : u < 1000000000
      · simp only [h3, if_true]
        refine parseDurSegs_mono_le 2 _ _ _ _ ?_ (parse_subsecond 6 u ['m', 's'] (by rfl) (by decide) (by simp) (by decide) hub)
        simp only [List.length_append, List.length_cons, List.length_nil]; omega
      · simp only [h3, if_false, fracLoop_snd, natStr]
        have h2v := two63_val
        have hsec : parseSeg (natDigits (u / 10 ^ 9 % 60) ++ (fracLoop 9 u false []).1 ++ ['s'] ++ []) =
            (.ok (u / 10 ^ 9 % 60 * 10 ^ 9 + u % 10 ^ 9), []) :=
          parseSeg_wfrac (u / 10 ^ 9 % 60) 9 u ['s'] [] (by rfl) (by decide) (by simp) (Or.inl rfl) (by decide)
            (by omega) (by rw [h2v]; omega) (by omega)
        simp only [List.append_nil] at hsec
        have hsne : natDigits (u / 10 ^ 9 % 60) ++ (fracLoop 9 u false []).1 ++ ['s'] ≠ [] := by simp
        have hl1 := hlp (u / 10 ^ 9 % 60)
        have hl2 := hlp (u / 10 ^ 9 / 60 % 60)
        have hl3 := hlp (u / 10 ^ 9 / 60 / 60)
        by_cases hm : u / 10 ^ 9 / 60 = 0
        · simp only [hm, if_true]
          refine parseDurSegs_mono_le 2 _ _ _ _ ?_ ?_
          · simp only [List.length_append, List.length_cons, List.length_nil]; omega
          · rw [parseDurSegs_step 1 _ [] 0 _ hsne hsec (by omega)]
            simp only [parseDurSegs]
            congr 1
            omega
        · simp only [hm, if_false]
          have hmin : ∀ rest, RestOK rest →
              parseSeg (natDigits (u / 10 ^ 9 / 60 % 60) ++ ['m'] ++ rest) = (.ok (u / 10 ^ 9 / 60 % 60 * 60000000000), rest) :=
            fun rest hr => parseSeg_plain (u / 10 ^ 9 / 60 % 60) 60000000000 ['m'] rest (by rfl) (by decide) (by simp) hr
              (by omega) (by rw [h2v]; omega) (by omega)
          have hmne : ∀ rest, natDigits (u / 10 ^ 9 / 60 % 60) ++ ['m'] ++ rest ≠ [] := by intro rest; simp
          have hrs : RestOK (natDigits (u / 10 ^ 9 % 60) ++ (fracLoop 9 u false []).1 ++ ['s']) := by
            have := restOK_natDigits (u / 10 ^ 9 % 60) ((fracLoop 9 u false []).1 ++ ['s'])
            simpa [List.append_assoc] using this
          by_cases hh : u / 10 ^ 9 / 60 / 60 = 0
          · simp only [hh, if_true]
            refine parseDurSegs_mono_le 3 _ _ _ _ ?_ ?_
            · simp only [List.length_append, List.length_cons, List.length_nil]; omega
            · rw [parseDurSegs_step 2 _ _ 0 _ (hmne _) (hmin _ hrs) (by omega)]
              rw [parseDurSegs_step 1 _ [] _ _ hsne hsec (by omega)]
              simp only [parseDurSegs]
              congr 1
              omega
          · simp only [hh, if_false]
            have hhour : ∀ rest, RestOK rest →
                parseSeg (natDigits (u / 10 ^ 9 / 60 / 60) ++ ['h'] ++ rest) = (.ok (u / 10 ^ 9 / 60 / 60 * 3600000000000), rest) :=
              fun rest hr => parseSeg_plain (u / 10 ^ 9 / 60 / 60) 3600000000000 ['h'] rest (by rfl) (by decide) (by simp) hr
                (by omega) (by rw [h2v]; omega) (by omega)
            have hrm : RestOK (natDigits (u / 10 ^ 9 / 60 % 60) ++ ['m'] ++ (natDigits (u / 10 ^ 9 % 60) ++ (fracLoop 9 u false []).1 ++ ['s'])) := by
              have := restOK_natDigits (u / 10 ^ 9 / 60 % 60) (['m'] ++ (natDigits (u / 10 ^ 9 % 60) ++ (fracLoop 9 u false []).1 ++ ['s']))
              simpa [List.append_assoc] using this
            refine parseDurSegs_mono_le 4 _ _ _ _ ?_ ?_
            · simp only [List.length_append, List.length_cons, List.length_nil]; omega
            · rw [parseDurSegs_step 3 _ _ 0 _ (by simp) (hhour _ hrm) (by omega)]
              rw [parseDurSegs_step 2 _ _ _ _ (hmne _) (hmin _ hrs) (by omega)]
              rw [parseDurSegs_step 1 _ [] _ _ hsne hsec (by omega)]
              simp only [parseDurSegs]
              congr 1
              omega

/-- the text starts with a digit (so it carries no sign of its own) and is longer than one character -/
theorem durBody_shape (u : Nat) : ∃ c r, durBody u = c :: r ∧ isDigit c = true ∧ r ≠ [] := by
  have hd := natDigits_head
  unfold durBody
  by_cases h0 : u = 0
  · simp only [h0, if_true]; exact ⟨'0', ['s'], rfl, by decide, by simp⟩
  · simp only [h0, if_false, natStr]
    split
    · obtain ⟨c, cs, hc, hdc⟩ := hd (fracLoop 0 u false []).2
      exact ⟨c, cs ++ (fracLoop 0 u false []).1 ++ ['n', 's'], by rw [hc]; simp, hdc, by simp⟩
    · split
      · obtain ⟨c, cs, hc, hdc⟩ := hd (fracLoop 3 u false []).2
        exact ⟨c, cs ++ (fracLoop 3 u false []).1 ++ ['µ', 's'], by rw [hc]; simp, hdc, by simp⟩
      · split
        · obtain ⟨c, cs, hc, hdc⟩ := hd (fracLoop 6 u false []).2
          exact ⟨c, cs ++ (fracLoop 6 u false []).1 ++ ['m', 's'], by rw [hc]; simp, hdc, by simp⟩
        · split
          · obtain ⟨c, cs, hc, hdc⟩ := hd ((fracLoop 9 u false []).2 % 60)
            exact ⟨c, cs ++ (fracLoop 9 u false []).1 ++ ['s'], by rw [hc]; simp, hdc, by simp⟩
          · split
            · obtain ⟨c, cs, hc, hdc⟩ := hd ((fracLoop 9 u false []).2 / 60 % 60)
              exact ⟨c, _, by rw [hc]; simp; rfl, hdc, by simp⟩
            · obtain ⟨c, cs, hc, hdc⟩ := hd ((fracLoop 9 u false []).2 / 60 / 60)
              exact ⟨c, _, by rw [hc]; simp; rfl, hdc, by simp⟩


theorem parseDuration_of_body (u : Nat) (neg : Bool) (h0 : u ≠ 0) (hub : u ≤ two63) (cs : List Char)
    (hcs : cs = if neg then '-' :: durBody u else durBody u) (hpos : neg = false → u ≤ two63 - 1) :
    parseDuration (String.ofList cs) = .ok (.int (if neg then -(u : Int) else (u : Int))) := by
  obtain ⟨c, r, hb, hd, hr⟩ := durBody_shape u
  have hm : c ≠ '-' := by intro e; subst e; revert hd; decide
  have hp : c ≠ '+' := by intro e; subst e; revert hd; decide
  have hpar := parse_durBody u h0 hub
  have hne0 : durBody u ≠ ['0'] := by
    rw [hb]; intro h; injection h with _ h2; exact hr h2
  have hnemp : (durBody u).isEmpty = false := by rw [hb]; rfl
  unfold parseDuration
  simp only [String.toList_ofList]
  cases neg with
  | true =>
    simp only [if_true] at hcs
    subst hcs
    simp only [splitSign, hne0, if_false, hnemp, Bool.false_eq_true, hpar, if_true]
  | false =>
    simp only [Bool.false_eq_true, if_false] at hcs
    subst hcs
    have hsplit : splitSign (durBody u) = (false, durBody u) := by
      rw [hb]
      unfold splitSign
      split
      · next r' heq => injection heq with h1 _; exact absurd h1 hm
      · next r' heq => injection heq with h1 _; exact absurd h1 hp
      · rfl
    have hle : ¬ (u > two63 - 1) := by have := hpos rfl; omega
    simp only [hsplit, hne0, if_false, hnemp, Bool.false_eq_true, hpar, hle]

theorem durString_nonneg (n : Nat) : durString (Int.ofNat n) = String.ofList (durBody n) := by
  unfold durString
  have hneg : ¬ ((Int.ofNat n) < 0 ∧ (Int.ofNat n).natAbs ≠ 0) := fun hc => absurd hc.1 (by simp)
  rw [if_neg hneg]
  rfl

theorem durString_neg (m : Nat) : durString (Int.negSucc m) = String.ofList ('-' :: durBody (m + 1)) := by
  unfold durString
  have hneg : (Int.negSucc m) < 0 ∧ (Int.negSucc m).natAbs ≠ 0 := ⟨Int.negSucc_lt_zero m, by simp [Int.natAbs]⟩
  rw [if_pos hneg]
  rfl

theorem parseDuration_zero : parseDuration (String.ofList (durBody 0)) = .ok (.int 0) := by
  have hb : durBody 0 = ['0', 's'] := by decide
  have h2 : natDigits 0 ++ ['s'] ++ [] = ['0', 's'] := by decide
  have hp := parseSeg_plain 0 1000000000 ['s'] [] (by rfl) (by decide) (by simp) (Or.inl rfl) (by decide) (by decide) (by decide)
  rw [h2] at hp
  have hs : parseDurSegs 3 ['0', 's'] 0 = .ok 0 := by
    rw [parseDurSegs_step 2 _ [] 0 _ (by simp) hp (by decide)]
    simp [parseDurSegs]
  have hss : splitSign ['0', 's'] = (false, ['0', 's']) := by decide
  have hne : (['0', 's'] : List Char) ≠ ['0'] := by decide
  unfold parseDuration
  rw [hb]
  simp only [String.toList_ofList, hss, hne, if_false, List.isEmpty_cons, Bool.false_eq_true, List.length_cons,
    List.length_nil]
  rw [show 0 + 1 + 1 + 1 = 3 from rfl, hs]
  simp

/-- **durations**: `time.ParseDuration (d.String()) = d` for every `time.Duration` (all of int64) -/
theorem parseDuration_durString (d : Int) (h : -(two63 : Int) ≤ d ∧ d < (two63 : Int)) :
    parseDuration (durString d) = .ok (.int d) := by
  cases d with
  | ofNat n =>
    rw [durString_nonneg]
    by_cases hn : n = 0
    · subst hn; exact parseDuration_zero
    · have hlt : n < two63 := by have := h.2; exact Int.ofNat_lt.mp this
      have := parseDuration_of_body n false hn (by omega) (durBody n) (by simp) (fun _ => by omega)
      simpa using this
  | negSucc m =>
    have hle : m + 1 ≤ two63 := by
      have := h.1
      have h2 : (Int.negSucc m) = -((m + 1 : Nat) : Int) := Int.negSucc_eq m
      omega
    have := parseDuration_of_body (m + 1) true (by omega) hle ('-' :: durBody (m + 1)) (by simp) (fun hc => by cases hc)
    rw [durString_neg, this]
    simp only [if_true]
    congr 2

end CV.Marshal
