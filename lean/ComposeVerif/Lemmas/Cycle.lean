import ComposeVerif.Spec.Consistency
/-! `searchCycle` / `checkCycle` find a cycle iff there is one (any digraph given as adjacency lists). -/
namespace CV.Consistency

/-- the edge relation of an adjacency-list graph -/
def Graph.E (g : Graph) (a b : String) : Prop := b ∈ g.children a

def Graph.keys (g : Graph) : List String := g.map Prod.fst

/-- every edge ends in a vertex of the graph -/
def Graph.Closed (g : Graph) : Prop := ∀ v c, c ∈ g.children v → c ∈ g.keys

theorem Walk.snoc {α : Type} {E : α → α → Prop} {a b c : α} (w : Walk E a b) (e : E b c) : Walk E a c := by
  induction w with
  | single h => exact .cons h (.single e)
  | cons h _ ih => exact .cons h (ih e)

theorem Walk.mono {α : Type} {E E' : α → α → Prop} (h : ∀ a b, E a b → E' a b) {a b : α} (w : Walk E a b) : Walk E' a b := by
  induction w with
  | single e => exact .single (h _ _ e)
  | cons e _ ih => exact .cons (h _ _ e) ih

/-- pigeonhole: a duplicate-free list inside `k` is not longer than `k` -/
theorem length_le_of_nodup_subset : ∀ (l k : List String), l.Nodup → (∀ x ∈ l, x ∈ k) → l.length ≤ k.length
  | [], _, _, _ => Nat.zero_le _
  | a :: l, k, hn, hs => by
    have ha : a ∈ k := hs a (List.mem_cons_self ..)
    rw [List.nodup_cons] at hn
    have ih := length_le_of_nodup_subset l (k.erase a) hn.2 (fun x hx => by
      have hne : x ≠ a := fun h => hn.1 (h ▸ hx)
      exact (List.mem_erase_of_ne hne).mpr (hs x (List.mem_cons_of_mem _ hx)))
    rw [List.length_erase_of_mem ha] at ih
    have : 0 < k.length := List.length_pos_of_mem ha
    simp only [List.length_cons]
    omega

theorem search_succ (g : Graph) (fuel : Nat) (path : List String) (v : String) :
    search g (fuel + 1) path v = (g.children v).any fun c => path.contains c || search g fuel (path ++ [c]) c := rfl

/-- a reported cycle is a cycle: the path handed down is a walk that ends in `v` -/
theorem search_sound (g : Graph) : ∀ (fuel : Nat) (path : List String) (v : String),
    (∀ u ∈ path, u = v ∨ Walk g.E u v) → search g fuel path v = true → ∃ w, Walk g.E w w
  | 0, _, _, _, h => by simp [search] at h
  | fuel + 1, path, v, inv, h => by
    rw [search_succ, List.any_eq_true] at h
    obtain ⟨c, hc, h⟩ := h
    have hE : g.E v c := hc
    rw [Bool.or_eq_true] at h
    rcases h with h | h
    · have hm : c ∈ path := List.contains_iff_mem.mp h
      rcases inv c hm with rfl | w
      · exact ⟨c, .single hE⟩
      · exact ⟨c, w.snoc hE⟩
    · refine search_sound g fuel (path ++ [c]) c ?_ h
      intro u hu
      rcases List.mem_append.mp hu with hu | hu
      · rcases inv u hu with rfl | w
        · exact .inr (.single hE)
        · exact .inr (w.snoc hE)
      · exact .inl (by simpa using hu)

/-- `u` reaches a vertex that lies on a cycle -/
def Graph.Bad (g : Graph) (u : String) : Prop := ∃ w, (u = w ∨ Walk g.E u w) ∧ Walk g.E w w

theorem Graph.Bad.step {g : Graph} {u : String} (h : g.Bad u) : ∃ c, g.E u c ∧ g.Bad c := by
  obtain ⟨w, hr, hw⟩ := h
  rcases hr with rfl | hr
  · cases hw with
    | single e => exact ⟨u, e, u, .inl rfl, .single e⟩
    | cons e rest => exact ⟨_, e, u, .inr rest, .cons e rest⟩
  · cases hr with
    | single e => exact ⟨w, e, w, .inl rfl, hw⟩
    | cons e rest => exact ⟨_, e, w, .inr rest, hw⟩

/-- with enough fuel, a vertex that reaches a cycle makes the search report one -/
theorem search_complete (g : Graph) (hcl : g.Closed) : ∀ (fuel : Nat) (path : List String) (v : String),
    g.Bad v → path.Nodup → (∀ u ∈ path, u ∈ g.keys) → g.keys.length < fuel + path.length →
    search g fuel path v = true
  | 0, path, _, _, hn, hs, hl => by
    have := length_le_of_nodup_subset path g.keys hn hs
    omega
  | fuel + 1, path, v, hb, hn, hs, hl => by
    obtain ⟨c, hE, hbc⟩ := hb.step
    rw [search_succ, List.any_eq_true]
    refine ⟨c, hE, ?_⟩
    rw [Bool.or_eq_true]
    by_cases hm : c ∈ path
    · exact .inl (List.contains_iff_mem.mpr hm)
    · right
      refine search_complete g hcl fuel (path ++ [c]) c hbc ?_ ?_ ?_
      · rw [List.nodup_append]
        refine ⟨hn, by simp, ?_⟩
        intro a ha b hb' hab
        have : b = c := by simpa using hb'
        exact hm (this ▸ hab ▸ ha)
      · intro u hu
        rcases List.mem_append.mp hu with hu | hu
        · exact hs u hu
        · have : u = c := by simpa using hu
          exact this ▸ hcl v c hE
      · simp only [List.length_append, List.length_cons, List.length_nil]
        omega

theorem Graph.mem_keys_of_E {g : Graph} {a b : String} (h : g.E a b) : a ∈ g.keys := by
  unfold Graph.E Graph.children at h
  cases hl : g.lookup a with
  | none => simp [hl] at h
  | some cs =>
    obtain ⟨l₁, l₂, rfl, -⟩ := List.lookup_eq_some_iff.mp hl
    simp [Graph.keys]

theorem Graph.keys_length (g : Graph) : g.keys.length = g.length := by simp [Graph.keys]

/-- **`checkCycle` reports an error iff the graph has a cycle** (every digraph whose edges end in vertices) -/
theorem hasCycle_iff (g : Graph) (hcl : g.Closed) : hasCycle g = true ↔ ∃ w, Walk g.E w w := by
  unfold hasCycle
  rw [List.any_eq_true]
  constructor
  · rintro ⟨e, -, h⟩
    exact search_sound g g.length [e.1] e.1 (by simp) h
  · rintro ⟨w, hw⟩
    have hk : w ∈ g.keys := by
      cases hw with
      | single e => exact Graph.mem_keys_of_E e
      | cons e _ => exact Graph.mem_keys_of_E e
    obtain ⟨e, he, rfl⟩ := List.mem_map.mp hk
    refine ⟨e, he, search_complete g hcl g.length [e.1] e.1 ⟨e.1, .inl rfl, hw⟩ (by simp) ?_ ?_⟩
    · intro u hu
      have : u = e.1 := by simpa using hu
      exact this ▸ hk
    · rw [Graph.keys_length]; simp

end CV.Consistency
