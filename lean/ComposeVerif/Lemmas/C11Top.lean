import ComposeVerif.Lemmas.C11Idem
/-! Top-level lemmas: `normalizeNetworks`, `setNameFromKey`, and idempotence of `Normalize` (C11). -/
namespace CV.C11
open CV CV.Val CV.C11.Spec

theorem lookup_mapAt_of_id {f : String → Val → Val} {k : String} (h : ∀ v, f k v = v) (m : KVs) :
    lookup k (mapAt f m) = lookup k m := by
  rw [lookup_mapAt]; cases lookup k m <;> simp [h]

/-! ### services and the `default` network -/

/-- the service says which networks it joins (or has a `network_mode`) -/
def NetSettled (s : KVs) : Prop :=
  (lookup "network_mode" s).isSome = true ∨ ∃ n, lookup "networks" s = some n ∧ n ≠ .map []

theorem nnService_of_settled {s : KVs} (h : NetSettled s) : nnService s = s := by
  unfold nnService
  rcases h with h | ⟨n, hn, hne⟩
  · simp [h]
  · split
    · rfl
    · rw [hn]
      cases n with
      | map m => cases m with
        | nil => exact absurd rfl hne
        | cons _ _ => rfl
      | _ => rfl

theorem netSettled_nnService (s : KVs) : NetSettled (nnService s) := by
  unfold nnService
  by_cases h : (lookup "network_mode" s).isSome = true
  · simp only [h, if_true]; exact .inl h
  · simp only [h]
    cases hn : lookup "networks" s with
    | none =>
      refine .inr ⟨defaultNet, by simp [lookup_insert_self], by simp [defaultNet]⟩
    | some n =>
      cases n with
      | map m => cases m with
        | nil => exact .inr ⟨defaultNet, by simp [lookup_insert_self], by simp [defaultNet]⟩
        | cons e r => exact .inr ⟨_, hn, by simp⟩
      | _ => exact .inr ⟨_, hn, by simp⟩

theorem nnService_idem (s : KVs) : nnService (nnService s) = nnService s :=
  nnService_of_settled (netSettled_nnService s)

theorem netSettled_normService (clean : String → String) (env : Env) {s : KVs} (h : NetSettled s) :
    NetSettled (normService clean env s) := by
  unfold NetSettled at *
  rw [lookup_normService_other clean env (by decide) (by decide) (by decide) (by decide) (by decide),
      lookup_normService_other clean env (by decide) (by decide) (by decide) (by decide) (by decide)]
  exact h

theorem nn_norm_nn (clean : String → String) (env : Env) (v : Val) :
    nnServiceV (normServiceV clean env (nnServiceV v)) = normServiceV clean env (nnServiceV v) := by
  cases v with
  | map s =>
    simp only [nnServiceV, normServiceV, Val.map.injEq]
    exact nnService_of_settled (netSettled_normService clean env (netSettled_nnService s))
  | _ => rfl

theorem svcUsesDefault_nnService {s : KVs} (h : (lookup "network_mode" s).isSome = false) :
    svcUsesDefault (nnService s) = svcUsesDefault s := by
  unfold nnService
  simp only [h, Bool.false_eq_true, if_false]
  cases hn : lookup "networks" s with
  | none => simp [svcUsesDefault, hn, lookup_insert_self, defaultNet, lookup]
  | some n =>
    cases n with
    | map m => cases m with
      | nil => simp [svcUsesDefault, hn, lookup_insert_self, defaultNet, lookup]
      | cons e r => rfl
    | _ => rfl

theorem lookup_nnService_ne {k : String} (hk : k ≠ "networks") (s : KVs) :
    lookup k (nnService s) = lookup k s := by
  unfold nnService
  split
  · rfl
  · split <;> simp [lookup_insert_ne hk]

theorem svcJoinsDefault_nnServiceV (v : Val) : svcJoinsDefault (nnServiceV v) = svcJoinsDefault v := by
  cases v with
  | map s =>
    simp only [nnServiceV, svcJoinsDefault]
    rw [lookup_nnService_ne (by decide)]
    cases h : (lookup "network_mode" s).isSome with
    | true => simp
    | false => simp [svcUsesDefault_nnService h]
  | _ => rfl

theorem svcJoinsDefault_normServiceV (clean : String → String) (env : Env) (v : Val) :
    svcJoinsDefault (normServiceV clean env v) = svcJoinsDefault v := by
  cases v with
  | map s =>
    simp only [normServiceV, svcJoinsDefault, svcUsesDefault]
    rw [lookup_normService_other clean env (by decide) (by decide) (by decide) (by decide) (by decide),
        lookup_normService_other clean env (by decide) (by decide) (by decide) (by decide) (by decide)]
  | _ => rfl

/-! ### resource names -/

theorem nameResource_idem (pj : Option Val) (key : String) (v : Val) :
    nameResource pj key (nameResource pj key v) = nameResource pj key v := by
  cases v with
  | map res =>
    simp only [nameResource, nameResourceKVs, Val.map.injEq]
    obtain ⟨x, hx, hn⟩ := lookup_setIfNil_self_nonnull "name" (.str (defaultName pj key res)) (by simp) res
    exact setIfNil_of_nonnull hx hn
  | null =>
    simp only [nameResource, nameResourceKVs, Val.map.injEq]
    obtain ⟨x, hx, hn⟩ := lookup_setIfNil_self_nonnull "name" (.str (defaultName pj key [])) (by simp) []
    exact setIfNil_of_nonnull hx hn
  | _ => rfl

theorem nameSectionV_idem (pj : Option Val) (v : Val) :
    nameSectionV pj (nameSectionV pj v) = nameSectionV pj v := by
  cases v with
  | map top =>
    simp only [nameSectionV, Val.map.injEq]
    rw [mapAt_mapAt]
    exact mapAt_congr fun kv _ => nameResource_idem pj kv.1 kv.2
  | _ => rfl

theorem namesTop_idem (pj : Option Val) (k : String) (v : Val) :
    namesTop pj k (namesTop pj k v) = namesTop pj k v := by
  unfold namesTop
  split
  · exact nameSectionV_idem pj v
  · rfl

theorem namesTop_of_not_resource (pj : Option Val) {k : String} (h : resourceNames.contains k = false) (v : Val) :
    namesTop pj k v = v := by
  unfold namesTop
  rw [h]
  rfl

theorem lookup_setNames_of_not_resource {k : String} (h : resourceNames.contains k = false) (d : KVs) :
    lookup k (setNames d) = lookup k d :=
  lookup_mapAt_of_id (namesTop_of_not_resource _ h) d

theorem setNames_idem (d : KVs) : setNames (setNames d) = setNames d := by
  have hn : lookup "name" (setNames d) = lookup "name" d := lookup_setNames_of_not_resource (by decide) d
  show mapAt (namesTop (lookup "name" (setNames d))) (setNames d) = setNames d
  rw [hn]
  unfold setNames
  rw [mapAt_mapAt]
  exact mapAt_congr fun kv _ => namesTop_idem _ kv.1 kv.2

/-! ### the whole of `Normalize` in one pass -/

/-- what `Normalize` does to the value stored under top-level key `k` (given the project name `pj`) -/
def topH (clean : String → String) (env : Env) (pj : Option Val) (k : String) (v : Val) : Val :=
  namesTop pj k (nsTop clean env k (nnTop k v))

theorem lookup_nnServices_ne {k : String} (hk : k ≠ "services") (d : KVs) : lookup k (nnServices d) = lookup k d :=
  lookup_mapAt_of_id (fun v => by simp [nnTop, hk]) d

theorem lookup_normNetworks_other {k : String} (h1 : k ≠ "networks") (h2 : k ≠ "services") (d : KVs) :
    lookup k (normNetworks d) = lookup k d := by
  unfold normNetworks
  simp only
  split
  · exact lookup_nnServices_ne h2 d
  · rw [lookup_insert_ne h1]; exact lookup_nnServices_ne h2 d

theorem lookup_normServices_ne (clean : String → String) (env : Env) {k : String} (hk : k ≠ "services") (d : KVs) :
    lookup k (normServices clean env d) = lookup k d :=
  lookup_mapAt_of_id (fun v => by simp [nsTop, hk]) d

/-- normal form of the pure part of `Normalize` -/
theorem normalizePure_eq (clean : String → String) (env : Env) (d : KVs) :
    normalizePure clean env d =
      match nnNetworks d with
      | [] => mapAt (topH clean env (lookup "name" d)) d
      | e :: t => Val.insert "networks" (.map (mapAt (nameResource (lookup "name" d)) (e :: t)))
                    (mapAt (topH clean env (lookup "name" d)) d) := by
  have hname : lookup "name" (normServices clean env (normNetworks d)) = lookup "name" d := by
    rw [lookup_normServices_ne clean env (by decide), lookup_normNetworks_other (by decide) (by decide)]
  unfold normalizePure setNames
  rw [hname]
  unfold normServices normNetworks nnServices
  simp only
  cases h : nnNetworks d with
  | nil =>
    simp only
    rw [mapAt_mapAt, mapAt_mapAt]
    rfl
  | cons e t =>
    simp only
    rw [mapAt_insert, mapAt_insert, mapAt_mapAt, mapAt_mapAt]
    have h1 : nsTop clean env "networks" (.map (e :: t)) = .map (e :: t) := by simp [nsTop]
    have h2 : namesTop (lookup "name" d) "networks" (.map (e :: t)) = .map (mapAt (nameResource (lookup "name" d)) (e :: t)) := by
      simp [namesTop, resourceNames, nameSectionV]
    rw [h1, h2]
    rfl

theorem topH_idem (clean : String → String) (hclean : ∀ s, clean (clean s) = clean s)
    (env : Env) (henv : envLookup env "" = none) (pj : Option Val) (k : String) (v : Val) :
    topH clean env pj k (topH clean env pj k v) = topH clean env pj k v := by
  unfold topH
  by_cases hk : k = "services"
  · subst hk
    have hn : ∀ w, namesTop pj "services" w = w := fun w => namesTop_of_not_resource pj (by decide) w
    simp only [hn]
    cases v with
    | map svcs =>
      simp only [nnTop, nsTop, if_true, mapVals_mapVals, Val.map.injEq]
      apply mapVals_congr
      intro kv _
      rw [nn_norm_nn, normServiceV_idem clean hclean env henv]
    | _ => first | rfl | simp [nnTop, nsTop]
  · have h1 : ∀ w, nnTop k w = w := fun w => by simp [nnTop, hk]
    have h2 : ∀ w, nsTop clean env k w = w := fun w => by simp [nsTop, hk]
    simp only [h1, h2, namesTop_idem]

theorem topH_of_plain (clean : String → String) (env : Env) (pj : Option Val) {k : String}
    (h1 : k ≠ "services") (h2 : resourceNames.contains k = false) (v : Val) : topH clean env pj k v = v := by
  simp [topH, nnTop, nsTop, h1, namesTop_of_not_resource pj h2]

theorem topH_services (clean : String → String) (env : Env) (pj : Option Val) (v : Val) :
    topH clean env pj "services" v = nsTop clean env "services" (nnTop "services" v) :=
  namesTop_of_not_resource pj (by decide) _

theorem topH_networks (clean : String → String) (env : Env) (pj : Option Val) (v : Val) :
    topH clean env pj "networks" v = nameSectionV pj v := by
  simp [topH, nnTop, nsTop, namesTop, resourceNames]

theorem usesDefault_mapAt_topH (clean : String → String) (env : Env) (pj : Option Val) (d : KVs) :
    usesDefaultNetwork (mapAt (topH clean env pj) d) = usesDefaultNetwork d := by
  unfold usesDefaultNetwork
  have hf : topH clean env pj "services" = fun v => nsTop clean env "services" (nnTop "services" v) :=
    funext (topH_services clean env pj)
  rw [lookup_mapAt, hf]
  cases h : lookup "services" d with
  | none => rfl
  | some v =>
    cases v with
    | map svcs =>
      simp only [Option.map_some, nnTop, nsTop, if_true, mapVals_mapVals]
      simp only [mapVals, List.any_map]
      congr 1
      funext kv
      simp [svcJoinsDefault_normServiceV, svcJoinsDefault_nnServiceV]
    | _ => simp [nnTop, nsTop]

theorem usesDefault_insert_networks (x : Val) (d : KVs) :
    usesDefaultNetwork (Val.insert "networks" x d) = usesDefaultNetwork d := by
  unfold usesDefaultNetwork
  rw [lookup_insert_ne (by decide)]

theorem declared_mapAt_topH (clean : String → String) (env : Env) (pj : Option Val) (d : KVs) :
    declaredNetworks (mapAt (topH clean env pj) d) = mapAt (nameResource pj) (declaredNetworks d) := by
  unfold declaredNetworks
  have hf : topH clean env pj "networks" = nameSectionV pj := funext (topH_networks clean env pj)
  rw [lookup_mapAt, hf]
  cases h : lookup "networks" d with
  | none => rfl
  | some v => cases v <;> simp [nameSectionV, mapAt]

/-- with `default` in use, `normalizeNetworks` leaves it declared -/
theorem nnNetworks_default_of_uses {d : KVs} (h : usesDefaultNetwork d = true) :
    (lookup "default" (nnNetworks d)).isSome = true := by
  unfold nnNetworks
  simp only [h, Bool.and_true]
  cases hd : (lookup "default" (declaredNetworks d)).isNone with
  | true => simp [lookup_insert_self]
  | false =>
    simp only [Bool.false_eq_true, if_false]
    cases h' : lookup "default" (declaredNetworks d) with
    | none => simp [h'] at hd
    | some x => rfl

theorem nnNetworks_eq_nil {d : KVs} (h : nnNetworks d = []) :
    declaredNetworks d = [] ∧ usesDefaultNetwork d = false := by
  unfold nnNetworks at h
  simp only at h
  split at h
  · exact absurd h (insert_ne_nil _ _ _)
  · rename_i hc
    refine ⟨h, ?_⟩
    rw [h] at hc
    simpa [lookup] using hc

theorem normalizePure_idem (clean : String → String) (hclean : ∀ s, clean (clean s) = clean s)
    (env : Env) (henv : envLookup env "" = none) (d : KVs) :
    normalizePure clean env (normalizePure clean env d) = normalizePure clean env d := by
  have hH := topH_idem clean hclean env henv (lookup "name" d)
  rw [normalizePure_eq clean env d]
  cases h : nnNetworks d with
  | nil =>
    simp only
    obtain ⟨hdn, hu⟩ := nnNetworks_eq_nil h
    have hname : lookup "name" (mapAt (topH clean env (lookup "name" d)) d) = lookup "name" d :=
      lookup_mapAt_of_id (topH_of_plain clean env _ (by decide) (by decide)) d
    have hnn : nnNetworks (mapAt (topH clean env (lookup "name" d)) d) = [] := by
      unfold nnNetworks
      simp only [usesDefault_mapAt_topH, declared_mapAt_topH, hdn, hu, Bool.and_false, Bool.false_eq_true, if_false]
      rfl
    rw [normalizePure_eq, hnn, hname]
    simp only
    rw [mapAt_mapAt]
    exact mapAt_congr fun kv _ => hH kv.1 kv.2
  | cons e t =>
    simp only
    obtain ⟨e', t', hc⟩ : ∃ e' t', mapAt (nameResource (lookup "name" d)) (e :: t) = e' :: t' := ⟨_, _, rfl⟩
    have hidem : mapAt (nameResource (lookup "name" d)) (e' :: t') = e' :: t' := by
      rw [← hc, mapAt_mapAt]
      exact mapAt_congr fun kv _ => nameResource_idem _ kv.1 kv.2
    rw [hc]
    generalize hR : Val.insert "networks" (.map (e' :: t')) (mapAt (topH clean env (lookup "name" d)) d) = R
    have hname : lookup "name" R = lookup "name" d := by
      rw [← hR, lookup_insert_ne (by decide)]
      exact lookup_mapAt_of_id (topH_of_plain clean env _ (by decide) (by decide)) d
    have hdecl : declaredNetworks R = e' :: t' := by
      unfold declaredNetworks
      rw [← hR, lookup_insert_self]
    have huses : usesDefaultNetwork R = usesDefaultNetwork d := by
      rw [← hR, usesDefault_insert_networks, usesDefault_mapAt_topH]
    have hnn : nnNetworks R = e' :: t' := by
      unfold nnNetworks
      simp only [hdecl, huses]
      cases hu : usesDefaultNetwork d with
      | false => simp
      | true =>
        have := nnNetworks_default_of_uses hu
        rw [h] at this
        have h2 : (lookup "default" (e' :: t')).isNone = false := by
          rw [← hc, lookup_mapAt]
          cases hl : lookup "default" (e :: t) with
          | none => simp [hl] at this
          | some x => simp
        simp [h2]
    rw [normalizePure_eq, hnn, hname]
    simp only
    rw [hidem, ← hR, mapAt_insert, mapAt_mapAt, insert_insert]
    congr 1
    exact mapAt_congr (fun kv _ => hH kv.1 kv.2)

end CV.C11
