import ComposeVerif.Spec.InterpTree
import ComposeVerif.Lemmas.Interp
/-! helper lemmas for the document-level statements of C08 (`Spec/InterpTree.lean`) -/
namespace CV.Interp
open CV CV.TPath

/-- per leaf: the escaped text with interpolation on denotes what the original denotes with nothing substituted -/
theorem leaf_escapeStr (c : Cfg) (p : TPath) (s : String) : leaf c p (escapeStr s) = castOnly c p s := by
  have h := CV.Template.subst_escape c.env s.toList
  have : (escapeStr s).toList = CV.Template.escapeDollars s.toList := by simp [escapeStr, String.toList_ofList]
  rw [leaf_of_subst (s' := s.toList) (by rw [this]; exact h), String.ofList_toList]

mutual
theorem interp_eq_walk (c : Cfg) : ∀ (v : Val) (p : TPath), interp c p v = walk (leaf c) p v
  | .str s, p => by simp only [interp, walk]
  | .map kvs, p => by
    simp only [interp, walk, interpKVs_eq_walk c kvs p]
    cases walkKVs (leaf c) p kvs <;> rfl
  | .seq xs, p => by
    simp only [interp, walk, interpList_eq_walk c xs p]
    cases walkList (leaf c) p xs <;> rfl
  | .null, p => by simp only [interp, walk]
  | .bool _, p => by simp only [interp, walk]
  | .int _, p => by simp only [interp, walk]
  | .float _, p => by simp only [interp, walk]
theorem interpKVs_eq_walk (c : Cfg) : ∀ (kvs : List (String × Val)) (p : TPath), interpKVs c p kvs = walkKVs (leaf c) p kvs
  | [], p => by simp only [interpKVs, walkKVs]
  | (k, v) :: r, p => by
    simp only [interpKVs, walkKVs, interp_eq_walk c v (next p k), interpKVs_eq_walk c r p]
    cases walk (leaf c) (next p k) v <;> cases walkKVs (leaf c) p r <;> rfl
theorem interpList_eq_walk (c : Cfg) : ∀ (xs : List Val) (p : TPath), interpList c p xs = walkList (leaf c) p xs
  | [], p => by simp only [interpList, walkList]
  | v :: r, p => by
    simp only [interpList, walkList, interp_eq_walk c v (next p "[]"), interpList_eq_walk c r p]
    cases walk (leaf c) (next p "[]") v <;> cases walkList (leaf c) p r <;> rfl
end

/-! two leaf functions that agree on related leaves give the same outcome — value, error or panic — on related trees -/
mutual
theorem walk_congr {R : TPath → String → String → Prop} {f g : TPath → String → Out Val}
    (hfg : ∀ q s s', R q s s' → f q s = g q s') : ∀ (v v' : Val) (p : TPath), LeafRel R p v v' → walk f p v = walk g p v'
  | .str s, v', p, h => by
    simp only [LeafRel] at h
    obtain ⟨s', rfl, hr⟩ := h
    simp only [walk]; exact hfg p s s' hr
  | .map kvs, v', p, h => by
    simp only [LeafRel] at h
    obtain ⟨kvs', rfl, hr⟩ := h
    simp only [walk, walkKVs_congr hfg kvs kvs' p hr]
  | .seq xs, v', p, h => by
    simp only [LeafRel] at h
    obtain ⟨xs', rfl, hr⟩ := h
    simp only [walk, walkList_congr hfg xs xs' p hr]
  | .null, v', p, h => by simp only [LeafRel] at h; subst h; simp only [walk]
  | .bool _, v', p, h => by simp only [LeafRel] at h; subst h; simp only [walk]
  | .int _, v', p, h => by simp only [LeafRel] at h; subst h; simp only [walk]
  | .float _, v', p, h => by simp only [LeafRel] at h; subst h; simp only [walk]
theorem walkKVs_congr {R : TPath → String → String → Prop} {f g : TPath → String → Out Val}
    (hfg : ∀ q s s', R q s s' → f q s = g q s') : ∀ (kvs kvs' : List (String × Val)) (p : TPath),
    LeafRelKVs R p kvs kvs' → walkKVs f p kvs = walkKVs g p kvs'
  | [], l', p, h => by simp only [LeafRelKVs] at h; subst h; simp only [walkKVs]
  | (k, v) :: r, l', p, h => by
    simp only [LeafRelKVs] at h
    obtain ⟨v', r', rfl, hv, hr⟩ := h
    simp only [walkKVs, walk_congr hfg v v' (next p k) hv, walkKVs_congr hfg r r' p hr]
theorem walkList_congr {R : TPath → String → String → Prop} {f g : TPath → String → Out Val}
    (hfg : ∀ q s s', R q s s' → f q s = g q s') : ∀ (xs xs' : List Val) (p : TPath),
    LeafRelList R p xs xs' → walkList f p xs = walkList g p xs'
  | [], l', p, h => by simp only [LeafRelList] at h; subst h; simp only [walkList]
  | v :: r, l', p, h => by
    simp only [LeafRelList] at h
    obtain ⟨v', r', rfl, hv, hr⟩ := h
    simp only [walkList, walk_congr hfg v v' (next p "[]") hv, walkList_congr hfg r r' p hr]
end

/-! a tree is related to itself by any relation that holds on the diagonal at its own string leaves -/
mutual
theorem leafRel_self {R : TPath → String → String → Prop} : ∀ (v : Val) (p : TPath),
    (∀ q s, (q, s) ∈ leaves p v → R q s s) → LeafRel R p v v
  | .str s, p, h => by simp only [LeafRel]; exact ⟨s, rfl, h p s (by simp [leaves])⟩
  | .map kvs, p, h => by
    simp only [LeafRel]; exact ⟨kvs, rfl, leafRelKVs_self kvs p (by simpa only [leaves] using h)⟩
  | .seq xs, p, h => by
    simp only [LeafRel]; exact ⟨xs, rfl, leafRelList_self xs p (by simpa only [leaves] using h)⟩
  | .null, p, _ => by simp only [LeafRel]
  | .bool _, p, _ => by simp only [LeafRel]
  | .int _, p, _ => by simp only [LeafRel]
  | .float _, p, _ => by simp only [LeafRel]
theorem leafRelKVs_self {R : TPath → String → String → Prop} : ∀ (kvs : List (String × Val)) (p : TPath),
    (∀ q s, (q, s) ∈ leavesKVs p kvs → R q s s) → LeafRelKVs R p kvs kvs
  | [], p, _ => by simp only [LeafRelKVs]
  | (k, v) :: r, p, h => by
    simp only [LeafRelKVs]
    exact ⟨v, r, rfl,
      leafRel_self v (next p k) (fun q s hm => h q s (by simp only [leavesKVs, List.mem_append]; exact .inl hm)),
      leafRelKVs_self r p (fun q s hm => h q s (by simp only [leavesKVs, List.mem_append]; exact .inr hm))⟩
theorem leafRelList_self {R : TPath → String → String → Prop} : ∀ (xs : List Val) (p : TPath),
    (∀ q s, (q, s) ∈ leavesList p xs → R q s s) → LeafRelList R p xs xs
  | [], p, _ => by simp only [LeafRelList]
  | v :: r, p, h => by
    simp only [LeafRelList]
    exact ⟨v, r, rfl,
      leafRel_self v (next p "[]") (fun q s hm => h q s (by simp only [leavesList, List.mem_append]; exact .inl hm)),
      leafRelList_self r p (fun q s hm => h q s (by simp only [leavesList, List.mem_append]; exact .inr hm))⟩
end

/-! the escaped tree is the original up to string leaves, each of which is the escaping of the original leaf -/
mutual
theorem leafRel_escapeAll : ∀ (v : Val) (p : TPath), LeafRel (fun _ s s' => s = escapeStr s') p (escapeAll v) v
  | .str s, p => by simp only [escapeAll, LeafRel]; exact ⟨s, rfl, rfl⟩
  | .map kvs, p => by simp only [escapeAll, LeafRel]; exact ⟨kvs, rfl, leafRelKVs_escapeAll kvs p⟩
  | .seq xs, p => by simp only [escapeAll, LeafRel]; exact ⟨xs, rfl, leafRelList_escapeAll xs p⟩
  | .null, p => by simp only [escapeAll, LeafRel]
  | .bool _, p => by simp only [escapeAll, LeafRel]
  | .int _, p => by simp only [escapeAll, LeafRel]
  | .float _, p => by simp only [escapeAll, LeafRel]
theorem leafRelKVs_escapeAll : ∀ (kvs : List (String × Val)) (p : TPath),
    LeafRelKVs (fun _ s s' => s = escapeStr s') p (escapeKVs kvs) kvs
  | [], p => by simp only [escapeKVs, LeafRelKVs]
  | (k, v) :: r, p => by
    simp only [escapeKVs, LeafRelKVs]
    exact ⟨v, r, rfl, leafRel_escapeAll v (next p k), leafRelKVs_escapeAll r p⟩
theorem leafRelList_escapeAll : ∀ (xs : List Val) (p : TPath),
    LeafRelList (fun _ s s' => s = escapeStr s') p (escapeList xs) xs
  | [], p => by simp only [escapeList, LeafRelList]
  | v :: r, p => by
    simp only [escapeList, LeafRelList]
    exact ⟨v, r, rfl, leafRel_escapeAll v (next p "[]"), leafRelList_escapeAll r p⟩
end

/-! related trees have the same shape: keys in order, lengths, non-string values (a string stays a string) -/
theorem leafRel_keys {R : TPath → String → String → Prop} : ∀ (kvs kvs' : List (String × Val)) (p : TPath),
    LeafRelKVs R p kvs kvs' → kvs'.map Prod.fst = kvs.map Prod.fst
  | [], l', p, h => by simp only [LeafRelKVs] at h; subst h; rfl
  | (k, v) :: r, l', p, h => by
    simp only [LeafRelKVs] at h
    obtain ⟨v', r', rfl, _, hr⟩ := h
    simp only [List.map_cons, leafRel_keys r r' p hr]

/-! an error of the generic walk is the error of the leaf function at one string leaf -/
mutual
theorem walk_err_leaf (f : TPath → String → Out Val) : ∀ (v : Val) (p : TPath) (e : Err), walk f p v = .err e →
    ∃ q s, (q, s) ∈ leaves p v ∧ f q s = .err e
  | .str s, p, e, h => by simp only [walk] at h; exact ⟨p, s, by simp [leaves], h⟩
  | .map kvs, p, e, h => by
    simp only [walk] at h
    split at h <;> cases h
    simpa only [leaves] using walkKVs_err_leaf f kvs p e ‹_›
  | .seq xs, p, e, h => by
    simp only [walk] at h
    split at h <;> cases h
    simpa only [leaves] using walkList_err_leaf f xs p e ‹_›
  | .null, p, e, h => by simp only [walk] at h; cases h
  | .bool b, p, e, h => by simp only [walk] at h; cases h
  | .int b, p, e, h => by simp only [walk] at h; cases h
  | .float b, p, e, h => by simp only [walk] at h; cases h
theorem walkKVs_err_leaf (f : TPath → String → Out Val) : ∀ (kvs : List (String × Val)) (p : TPath) (e : Err),
    walkKVs f p kvs = .err e → ∃ q s, (q, s) ∈ leavesKVs p kvs ∧ f q s = .err e
  | [], p, e, h => by simp only [walkKVs] at h; cases h
  | (k, v) :: r, p, e, h => by
    simp only [walkKVs] at h
    split at h
    · split at h <;> cases h
      obtain ⟨q, s, hm, hl⟩ := walkKVs_err_leaf f r p e ‹_›
      exact ⟨q, s, by simp only [leavesKVs, List.mem_append]; exact .inr hm, hl⟩
    · cases h
      obtain ⟨q, s, hm, hl⟩ := walk_err_leaf f v _ e ‹_›
      exact ⟨q, s, by simp only [leavesKVs, List.mem_append]; exact .inl hm, hl⟩
    · cases h
theorem walkList_err_leaf (f : TPath → String → Out Val) : ∀ (xs : List Val) (p : TPath) (e : Err),
    walkList f p xs = .err e → ∃ q s, (q, s) ∈ leavesList p xs ∧ f q s = .err e
  | [], p, e, h => by simp only [walkList] at h; cases h
  | v :: r, p, e, h => by
    simp only [walkList] at h
    split at h
    · split at h <;> cases h
      obtain ⟨q, s, hm, hl⟩ := walkList_err_leaf f r p e ‹_›
      exact ⟨q, s, by simp only [leavesList, List.mem_append]; exact .inr hm, hl⟩
    · cases h
      obtain ⟨q, s, hm, hl⟩ := walk_err_leaf f v _ e ‹_›
      exact ⟨q, s, by simp only [leavesList, List.mem_append]; exact .inl hm, hl⟩
    · cases h
end

/-- nothing substituted: the only possible error is a cast error, at a string leaf of the document, naming its path;
    a panic is impossible -/
theorem castTree_err (c : Cfg) (p : TPath) (v : Val) (e : Err) (h : castTree c p v = .err e) :
    ∃ q s, (q, s) ∈ leaves p v ∧ castOnly c q s = .err e ∧ e = .cast (pathString q) := by
  obtain ⟨q, s, hm, hl⟩ := walk_err_leaf (castOnly c) v p e h
  refine ⟨q, s, hm, hl, ?_⟩
  unfold castOnly at hl
  split at hl
  · cases hl
  · split at hl
    · cases hl
    · cases hl; rfl

end CV.Interp
