import ComposeVerif.Lemmas.PathsTree
/-! Lifting "two-stage = one-stage" from attributes to whole trees (C12). -/
namespace CV.Paths
open CV CV.TPath

mutual
/-- `RowsOK P t p v`: `P h node` holds at every node of `v` whose path matches a row `h` of `t`
(the walker does not descend below such a node) -/
def RowsOK (P : String → Val → Prop) (t : Table) : TPath → Val → Prop
  | p, .map kvs => match firstMatch t p with
    | some h => P h (.map kvs)
    | none => RowsOKKVs P t p kvs
  | p, .seq xs => match firstMatch t p with
    | some h => P h (.seq xs)
    | none => RowsOKSeq P t p xs
  | p, v => match firstMatch t p with
    | some h => P h v
    | none => True
def RowsOKKVs (P : String → Val → Prop) (t : Table) : TPath → List (String × Val) → Prop
  | _, [] => True
  | p, (k, v) :: r => RowsOK P t (TPath.next p k) v ∧ RowsOKKVs P t p r
def RowsOKSeq (P : String → Val → Prop) (t : Table) : TPath → List Val → Prop
  | _, [] => True
  | p, x :: r => RowsOK P t (TPath.next p "[]") x ∧ RowsOKSeq P t p r
end

theorem rowsOK_of_match (P : String → Val → Prop) (t : Table) (p : TPath) (v : Val) (h : String)
    (hm : firstMatch t p = some h) (hr : RowsOK P t p v) : P h v := by
  cases v <;> simpa [RowsOK, hm] using hr

/-- the second stage composes with the first at a node: stage 2 on the stage-1 result = one stage -/
def ComposeAt (c1 c2 c12 : Cfg) (h : String) (v : Val) : Prop :=
  ∀ v1, applyResolver c1 h v = .ok v1 → applyResolver c2 h v1 = applyResolver c12 h v

mutual
theorem walk_compose (t : Table) (c1 c2 c12 : Cfg) :
    ∀ (p : TPath) (v v1 : Val), RowsOK (ComposeAt c1 c2 c12) t p v → walk t c1 p v = .ok v1 →
      walk t c2 p v1 = walk t c12 p v
  | p, .map kvs, v1, hr, h => by
    cases hm : firstMatch t p with
    | some hn =>
      rw [walk_of_match t _ p _ hn hm] at h ⊢
      rw [walk_of_match t _ p _ hn hm]
      exact rowsOK_of_match _ t p _ hn hm hr v1 h
    | none =>
      simp only [walk, hm] at h
      obtain ⟨kvs1, hk, rfl⟩ := Out.map_ok _ _ _ h
      simp only [RowsOK, hm] at hr
      simp only [walk, hm, walkKVs_compose t c1 c2 c12 p kvs kvs1 hr hk]
  | p, .seq xs, v1, hr, h => by
    cases hm : firstMatch t p with
    | some hn =>
      rw [walk_of_match t _ p _ hn hm] at h ⊢
      rw [walk_of_match t _ p _ hn hm]
      exact rowsOK_of_match _ t p _ hn hm hr v1 h
    | none =>
      simp only [walk, hm] at h
      obtain ⟨xs1, hk, rfl⟩ := Out.map_ok _ _ _ h
      simp only [RowsOK, hm] at hr
      simp only [walk, hm, walkSeq_compose t c1 c2 c12 p xs xs1 hr hk]
  | p, .null, v1, hr, h => by
    cases hm : firstMatch t p with
    | some hn =>
      rw [walk_of_match t _ p _ hn hm] at h ⊢
      rw [walk_of_match t _ p _ hn hm]
      exact rowsOK_of_match _ t p _ hn hm hr v1 h
    | none => simp only [walk, hm, Out.ok.injEq] at h; subst h; simp [walk, hm]
  | p, .bool b, v1, hr, h => by
    cases hm : firstMatch t p with
    | some hn =>
      rw [walk_of_match t _ p _ hn hm] at h ⊢
      rw [walk_of_match t _ p _ hn hm]
      exact rowsOK_of_match _ t p _ hn hm hr v1 h
    | none => simp only [walk, hm, Out.ok.injEq] at h; subst h; simp [walk, hm]
  | p, .int b, v1, hr, h => by
    cases hm : firstMatch t p with
    | some hn =>
      rw [walk_of_match t _ p _ hn hm] at h ⊢
      rw [walk_of_match t _ p _ hn hm]
      exact rowsOK_of_match _ t p _ hn hm hr v1 h
    | none => simp only [walk, hm, Out.ok.injEq] at h; subst h; simp [walk, hm]
  | p, .float b, v1, hr, h => by
    cases hm : firstMatch t p with
    | some hn =>
      rw [walk_of_match t _ p _ hn hm] at h ⊢
      rw [walk_of_match t _ p _ hn hm]
      exact rowsOK_of_match _ t p _ hn hm hr v1 h
    | none => simp only [walk, hm, Out.ok.injEq] at h; subst h; simp [walk, hm]
  | p, .str b, v1, hr, h => by
    cases hm : firstMatch t p with
    | some hn =>
      rw [walk_of_match t _ p _ hn hm] at h ⊢
      rw [walk_of_match t _ p _ hn hm]
      exact rowsOK_of_match _ t p _ hn hm hr v1 h
    | none => simp only [walk, hm, Out.ok.injEq] at h; subst h; simp [walk, hm]
theorem walkKVs_compose (t : Table) (c1 c2 c12 : Cfg) :
    ∀ (p : TPath) (kvs kvs1 : List (String × Val)), RowsOKKVs (ComposeAt c1 c2 c12) t p kvs →
      walkKVs t c1 p kvs = .ok kvs1 → walkKVs t c2 p kvs1 = walkKVs t c12 p kvs
  | p, [], kvs1, _, h => by
    simp only [walkKVs, Out.ok.injEq] at h; subst h; rfl
  | p, (k, v) :: r, kvs1, hr, h => by
    simp only [walkKVs] at h
    simp only [RowsOKKVs] at hr
    cases hx : walk t c1 (TPath.next p k) v with
    | ok x1 =>
      rw [hx] at h
      simp only at h
      obtain ⟨r1, hr1, rfl⟩ := Out.map_ok _ _ _ h
      simp only [walkKVs, walk_compose t c1 c2 c12 _ v x1 hr.1 hx, walkKVs_compose t c1 c2 c12 p r r1 hr.2 hr1]
    | err e => rw [hx] at h; simp at h
    | panic s => rw [hx] at h; simp at h
theorem walkSeq_compose (t : Table) (c1 c2 c12 : Cfg) :
    ∀ (p : TPath) (xs xs1 : List Val), RowsOKSeq (ComposeAt c1 c2 c12) t p xs →
      walkSeq t c1 p xs = .ok xs1 → walkSeq t c2 p xs1 = walkSeq t c12 p xs
  | p, [], xs1, _, h => by
    simp only [walkSeq, Out.ok.injEq] at h; subst h; rfl
  | p, x :: r, xs1, hr, h => by
    simp only [walkSeq] at h
    simp only [RowsOKSeq] at hr
    cases hx : walk t c1 (TPath.next p "[]") x with
    | ok x1 =>
      rw [hx] at h
      simp only at h
      obtain ⟨r1, hr1, rfl⟩ := Out.map_ok _ _ _ h
      simp only [walkSeq, walk_compose t c1 c2 c12 _ x x1 hr.1 hx, walkSeq_compose t c1 c2 c12 p r r1 hr.2 hr1]
    | err e => rw [hx] at h; simp at h
    | panic s => rw [hx] at h; simp at h
end

/-! ### `ComposeAt` holds at every node, for every resolver -/

theorem insert_overwrite (k : String) (v v' : Val) (m : Val.KVs) :
    Val.insert k v (Val.insert k v' m) = Val.insert k v m := by
  induction m with
  | nil => simp [Val.insert]
  | cons e r ih =>
    obtain ⟨k', w⟩ := e
    by_cases h : k = k'
    · simp [Val.insert, h]
    · simp [Val.insert, h, ih]

/-- the string source of a bind mount, if that is what the mount is -/
def mountSrc (kvs : Val.KVs) : Option String :=
  match Val.lookup "type" kvs with
  | some (.str "bind") =>
    match Val.lookup "source" kvs with
    | some (.str s) => some s
    | _ => none
  | _ => none

theorem absVolumeMount_of_src (c : Cfg) (kvs : Val.KVs) (s : String) (h : mountSrc kvs = some s) :
    absVolumeMount c (.map kvs) =
      (maybeUnixStr c s.toList).map (fun r => .map (Val.insert "source" (.str (String.ofList r)) kvs)) := by
  unfold mountSrc at h
  split at h
  · rename_i hty
    split at h
    · rename_i s' hs
      simp only [Option.some.injEq] at h
      subst h
      simp [absVolumeMount, hty, hs]
    · cases h
  · cases h

theorem absVolumeMount_of_nosrc (c c' : Cfg) (kvs : Val.KVs) (h : mountSrc kvs = none) :
    absVolumeMount c (.map kvs) = absVolumeMount c' (.map kvs) := by
  unfold mountSrc at h
  simp only [absVolumeMount]
  split at h
  · rename_i hty
    split at h
    · cases h
    · rename_i hns
      simp only [hty]
      cases hs : Val.lookup "source" kvs with
      | none => rfl
      | some x =>
        cases x with
        | str s => exact absurd hs (hns s)
        | _ => rfl
  · rename_i hnt
    split
    · rename_i hty; exact absurd hty (hnt)
    · rfl

theorem mountSrc_insert (kvs : Val.KVs) (s r : String) (h : mountSrc kvs = some s) :
    mountSrc (Val.insert "source" (.str r) kvs) = some r := by
  unfold mountSrc at h
  split at h
  · rename_i hty
    have h1 : Val.lookup "type" (Val.insert "source" (.str r) kvs) = some (.str "bind") := by
      rw [lookup_insert_ne _ _ _ _ (by decide)]; exact hty
    simp [mountSrc, h1, lookup_insert_self]
  · cases h

/-- the options and device of a local bind volume, if that is what the volume is -/
def volDev (kvs : Val.KVs) : Option (Val.KVs × Val) :=
  match Val.lookup "driver" kvs with
  | some (.str "local") =>
    match Val.lookup "driver_opts" kvs with
    | some (.map opts) =>
      match Val.lookup "o" opts, Val.lookup "device" opts with
      | some (.str "bind"), some dev => some (opts, dev)
      | _, _ => none
    | _ => none
  | _ => none

theorem volumeDriverOpts_of_dev (c : Cfg) (kvs opts : Val.KVs) (dev : Val) (h : volDev kvs = some (opts, dev)) :
    volumeDriverOpts c (.map kvs) =
      (maybeUnixPath c dev).map (fun d => .map (Val.insert "driver_opts" (.map (Val.insert "device" d opts)) kvs)) := by
  unfold volDev at h
  split at h
  · rename_i hdr
    split at h
    · rename_i o hopts
      split at h
      · rename_i dv ho hdev
        simp only [Option.some.injEq, Prod.mk.injEq] at h
        obtain ⟨rfl, rfl⟩ := h
        simp [volumeDriverOpts, hdr, hopts, ho, hdev]
      · cases h
    · cases h
  · cases h

theorem volumeDriverOpts_of_nodev (c c' : Cfg) (kvs : Val.KVs) (h : volDev kvs = none) :
    volumeDriverOpts c (.map kvs) = volumeDriverOpts c' (.map kvs) := by
  unfold volDev at h
  simp only [volumeDriverOpts]
  split at h
  · rename_i hdr
    simp only [hdr]
    split at h
    · rename_i o hopts
      simp only [hopts]
      split at h
      · cases h
      · rename_i hno
        split
        · rename_i dv ho hdev; exact (hno dv ho hdev).elim
        · rfl
    · rename_i hnm
      cases hs : Val.lookup "driver_opts" kvs with
      | none => rfl
      | some x =>
        cases x with
        | map o => exact absurd hs (hnm o)
        | _ => rfl
  · rename_i hnt
    split
    · rename_i hdr; exact absurd hdr hnt
    · rfl

theorem volDev_insert (kvs opts : Val.KVs) (dev d : Val) (h : volDev kvs = some (opts, dev)) :
    volDev (Val.insert "driver_opts" (.map (Val.insert "device" d opts)) kvs) = some (Val.insert "device" d opts, d) := by
  unfold volDev at h
  split at h
  · rename_i hdr
    split at h
    · rename_i o hopts
      split at h
      · rename_i dv ho hdev
        simp only [Option.some.injEq, Prod.mk.injEq] at h
        obtain ⟨rfl, rfl⟩ := h
        have h1 : Val.lookup "driver" (Val.insert "driver_opts" (.map (Val.insert "device" d o)) kvs) = some (.str "local") := by
          rw [lookup_insert_ne _ _ _ _ (by decide)]; exact hdr
        have h2 : Val.lookup "o" (Val.insert "device" d o) = some (.str "bind") := by
          rw [lookup_insert_ne _ _ _ _ (by decide)]; exact ho
        simp [volDev, h1, lookup_insert_self, h2]
      · cases h
    · cases h
  · cases h

theorem absSymbolicLink_eq_absPath (c : Cfg) (hs : c.sym = some) (v : Val) : absSymbolicLink c v = absPath c v := by
  cases v with
  | str s => simp [absSymbolicLink, absPath, hs, okStr]
  | seq xs =>
    simp only [absSymbolicLink]
    cases h : absPath c (.seq xs) with
    | ok w =>
      simp only [absPath] at h
      obtain ⟨ys, _, rfl⟩ := Out.map_ok _ _ _ h
      rfl
    | err e => rfl
    | panic s => rfl
  | null => simp [absSymbolicLink, absPath]
  | bool _ => simp [absSymbolicLink, absPath]
  | int _ => simp [absSymbolicLink, absPath]
  | float _ => simp [absSymbolicLink, absPath]
  | map _ => simp [absSymbolicLink, absPath]

section
variable (home : Option Str) (remote : Str → Bool) (W R : Str)
  (hW : W ≠ []) (hR : R ≠ []) (hRr : isAbs R = false)
include hW hR hRr

mutual
theorem absPath_compose : ∀ (v v1 : Val), absPath (Cfg.mk R home remote some) v = .ok v1 → absPath (Cfg.mk W home remote some) v1 = absPath (Cfg.mk (join W R) home remote some) v
  | .str s, v1, h => by
    simp only [absPath, Out.ok.injEq] at h
    subst h
    simp only [absPath, String.toList_ofList, absPathStr_compose home remote some W R s.toList hW hR hRr]
  | .seq xs, v1, h => by
    simp only [absPath] at h
    obtain ⟨xs1, hx, rfl⟩ := Out.map_ok _ _ _ h
    simp only [absPath, absPathList_compose xs xs1 hx]
  | .null, _, h => by simp [absPath] at h
  | .bool _, _, h => by simp [absPath] at h
  | .int _, _, h => by simp [absPath] at h
  | .float _, _, h => by simp [absPath] at h
  | .map _, _, h => by simp [absPath] at h
theorem absPathList_compose : ∀ (xs xs1 : List Val), absPathList (Cfg.mk R home remote some) xs = .ok xs1 → absPathList (Cfg.mk W home remote some) xs1 = absPathList (Cfg.mk (join W R) home remote some) xs
  | [], xs1, h => by
    simp only [absPathList, Out.ok.injEq] at h
    subst h; rfl
  | x :: r, xs1, h => by
    simp only [absPathList] at h
    cases hx : absPath (Cfg.mk R home remote some) x with
    | ok x1 =>
      rw [hx] at h
      simp only at h
      obtain ⟨r1, hr, rfl⟩ := Out.map_ok _ _ _ h
      simp only [absPathList, absPath_compose x x1 hx, absPathList_compose r r1 hr]
    | err e => rw [hx] at h; simp at h
    | panic s => rw [hx] at h; simp at h
end

theorem maybeUnixPath_compose (v v1 : Val) (h : maybeUnixPath (Cfg.mk R home remote some) v = .ok v1) :
    maybeUnixPath (Cfg.mk W home remote some) v1 = maybeUnixPath (Cfg.mk (join W R) home remote some) v := by
  cases v with
  | str s =>
    simp only [maybeUnixPath] at h
    obtain ⟨m, hm, rfl⟩ := Out.map_ok _ _ _ h
    simp only [maybeUnixPath, String.toList_ofList, maybeUnixStr_compose home remote some W R s.toList m hW hR hRr hm]
  | _ => simp [maybeUnixPath] at h

theorem absContextPath_compose (hhome : ∀ h, home = some h → h ≠ []) (v v1 : Val) (h : absContextPath (Cfg.mk R home remote some) v = .ok v1) :
    absContextPath (Cfg.mk W home remote some) v1 = absContextPath (Cfg.mk (join W R) home remote some) v := by
  cases v with
  | str s =>
    simp only [absContextPath, okStr, Out.ok.injEq] at h
    subst h
    simp only [absContextPath, okStr, String.toList_ofList,
      absContextStr_compose home remote some W R s.toList hW hR hRr hhome]
  | _ => simp [absContextPath] at h

theorem absExtendsPath_compose (hrem : ∀ x, remote x = false) (v v1 : Val) (h : absExtendsPath (Cfg.mk R home remote some) v = .ok v1) :
    absExtendsPath (Cfg.mk W home remote some) v1 = absExtendsPath (Cfg.mk (join W R) home remote some) v := by
  cases v with
  | str s =>
    simp only [absExtendsPath, okStr, Out.ok.injEq] at h
    subst h
    simp only [absExtendsPath, okStr, String.toList_ofList, absExtendsStr, hrem, Bool.false_eq_true, if_false,
      absPathStr_compose home remote some W R s.toList hW hR hRr]
  | _ => simp [absExtendsPath] at h

theorem absVolumeMount_compose (v v1 : Val) (h : absVolumeMount (Cfg.mk R home remote some) v = .ok v1) :
    absVolumeMount (Cfg.mk W home remote some) v1 = absVolumeMount (Cfg.mk (join W R) home remote some) v := by
  cases v with
  | map kvs =>
    cases hm : mountSrc kvs with
    | none =>
      have hv1 : v1 = .map kvs := by
        rcases absVolumeMount_shape _ kvs v1 h with rfl | ⟨hty, s, r, hs, _, _⟩
        · rfl
        · simp [mountSrc, hty, hs] at hm
      subst hv1
      exact absVolumeMount_of_nosrc _ _ kvs hm
    | some s =>
      rw [absVolumeMount_of_src _ kvs s hm] at h
      obtain ⟨r, hr, rfl⟩ := Out.map_ok _ _ _ h
      rw [absVolumeMount_of_src _ kvs s hm,
        absVolumeMount_of_src _ _ _ (mountSrc_insert kvs s (String.ofList r) hm)]
      simp only [String.toList_ofList, maybeUnixStr_compose home remote some W R s.toList r hW hR hRr hr]
      cases maybeUnixStr (Cfg.mk (join W R) home remote some) s.toList <;> simp [Out.map, insert_overwrite]
  | null => simp only [absVolumeMount, Out.ok.injEq] at h; subst h; rfl
  | bool _ => simp only [absVolumeMount, Out.ok.injEq] at h; subst h; rfl
  | int _ => simp only [absVolumeMount, Out.ok.injEq] at h; subst h; rfl
  | float _ => simp only [absVolumeMount, Out.ok.injEq] at h; subst h; rfl
  | str _ => simp only [absVolumeMount, Out.ok.injEq] at h; subst h; rfl
  | seq _ => simp only [absVolumeMount, Out.ok.injEq] at h; subst h; rfl

theorem volumeDriverOpts_compose (v v1 : Val) (h : volumeDriverOpts (Cfg.mk R home remote some) v = .ok v1) :
    volumeDriverOpts (Cfg.mk W home remote some) v1 = volumeDriverOpts (Cfg.mk (join W R) home remote some) v := by
  cases v with
  | map kvs =>
    cases hm : volDev kvs with
    | none =>
      have hv1 : v1 = .map kvs := by
        rcases volumeDriverOpts_shape _ kvs v1 h with rfl | ⟨hdr, opts, dev, d, hopts, ho, hdev, _, _⟩
        · rfl
        · simp [volDev, hdr, hopts, ho, hdev] at hm
      subst hv1
      exact volumeDriverOpts_of_nodev _ _ kvs hm
    | some od =>
      obtain ⟨opts, dev⟩ := od
      rw [volumeDriverOpts_of_dev _ kvs opts dev hm] at h
      obtain ⟨d1, hd1, rfl⟩ := Out.map_ok _ _ _ h
      rw [volumeDriverOpts_of_dev _ kvs opts dev hm,
        volumeDriverOpts_of_dev _ _ _ _ (volDev_insert kvs opts dev d1 hm),
        maybeUnixPath_compose home remote W R hW hR hRr dev d1 hd1]
      cases maybeUnixPath (Cfg.mk (join W R) home remote some) dev <;> simp [Out.map, insert_overwrite]
  | null => simp only [volumeDriverOpts, Out.ok.injEq] at h; subst h; rfl
  | bool _ => simp [volumeDriverOpts] at h
  | int _ => simp [volumeDriverOpts] at h
  | float _ => simp [volumeDriverOpts] at h
  | str _ => simp [volumeDriverOpts] at h
  | seq _ => simp [volumeDriverOpts] at h

/-- **at every node, for every resolver**: the second stage composes with the first
(default loader: no remote resource loaders; no symbolic links) -/
theorem composeAt_all (hhome : ∀ h, home = some h → h ≠ []) (hrem : ∀ x, remote x = false) (hn : String) (v : Val) :
    ComposeAt (Cfg.mk R home remote some) (Cfg.mk W home remote some) (Cfg.mk (join W R) home remote some) hn v := by
  intro v1 h
  unfold applyResolver at h ⊢
  split
  · rename_i e; simp only [e, if_true] at h; exact absPath_compose home remote W R hW hR hRr v v1 h
  rename_i e1; simp only [e1, if_false] at h
  split
  · rename_i e; simp only [e, if_true] at h; exact absContextPath_compose home remote W R hW hR hRr hhome v v1 h
  rename_i e2; simp only [e2, if_false] at h
  split
  · rename_i e; simp only [e, if_true] at h; exact absExtendsPath_compose home remote W R hW hR hRr hrem v v1 h
  rename_i e3; simp only [e3, if_false] at h
  split
  · rename_i e; simp only [e, if_true] at h
    rw [absSymbolicLink_eq_absPath _ rfl] at h ⊢
    rw [absSymbolicLink_eq_absPath _ rfl]
    exact absPath_compose home remote W R hW hR hRr v v1 h
  rename_i e4; simp only [e4, if_false] at h
  split
  · rename_i e; simp only [e, if_true] at h; exact absVolumeMount_compose home remote W R hW hR hRr v v1 h
  rename_i e5; simp only [e5, if_false] at h
  split
  · rename_i e; simp only [e, if_true] at h; exact maybeUnixPath_compose home remote W R hW hR hRr v v1 h
  rename_i e6; simp only [e6, if_false] at h
  split
  · rename_i e; simp only [e, if_true] at h; exact volumeDriverOpts_compose home remote W R hW hR hRr v v1 h
  rename_i e7; simp only [e7, if_false] at h
  cases h
end

/-- `RowsOK P` holds for every tree when `P` holds everywhere -/
theorem rowsOK_of_forall (P : String → Val → Prop) (hP : ∀ h v, P h v) (t : Table) :
    (∀ p v, RowsOK P t p v) ∧ (∀ p kvs, RowsOKKVs P t p kvs) ∧ (∀ p xs, RowsOKSeq P t p xs) := by
  have key : ∀ n : Nat, (∀ p v, sizeOf v ≤ n → RowsOK P t p v) := by
    intro n
    induction n with
    | zero => intro p v hv; cases v <;> simp at hv <;> omega
    | succ n ih =>
      intro p v hv
      have hk : ∀ (kvs : List (String × Val)) p, sizeOf kvs ≤ n → RowsOKKVs P t p kvs := by
        intro kvs
        induction kvs with
        | nil => intro p _; simp [RowsOKKVs]
        | cons e r ihr =>
          intro p hs
          obtain ⟨k, w⟩ := e
          simp only [RowsOKKVs]
          simp only [List.cons.sizeOf_spec, Prod.mk.sizeOf_spec] at hs
          exact ⟨ih _ w (by omega), ihr p (by omega)⟩
      have hq : ∀ (xs : List Val) p, sizeOf xs ≤ n → RowsOKSeq P t p xs := by
        intro xs
        induction xs with
        | nil => intro p _; simp [RowsOKSeq]
        | cons w r ihr =>
          intro p hs
          simp only [RowsOKSeq]
          simp only [List.cons.sizeOf_spec] at hs
          exact ⟨ih _ w (by omega), ihr p (by omega)⟩
      cases v with
      | map kvs =>
        simp only [RowsOK]
        split
        · exact hP _ _
        · simp only [Val.map.sizeOf_spec] at hv; exact hk kvs p (by omega)
      | seq xs =>
        simp only [RowsOK]
        split
        · exact hP _ _
        · simp only [Val.seq.sizeOf_spec] at hv; exact hq xs p (by omega)
      | null => simp only [RowsOK]; split; exact hP _ _; trivial
      | bool _ => simp only [RowsOK]; split; exact hP _ _; trivial
      | int _ => simp only [RowsOK]; split; exact hP _ _; trivial
      | float _ => simp only [RowsOK]; split; exact hP _ _; trivial
      | str _ => simp only [RowsOK]; split; exact hP _ _; trivial
  refine ⟨fun p v => key (sizeOf v) p v (Nat.le_refl _), ?_, ?_⟩
  · intro p kvs
    induction kvs with
    | nil => simp [RowsOKKVs]
    | cons e r ihr =>
      obtain ⟨k, w⟩ := e
      simp only [RowsOKKVs]
      exact ⟨key (sizeOf w) _ w (Nat.le_refl _), ihr⟩
  · intro p xs
    induction xs with
    | nil => simp [RowsOKSeq]
    | cons w r ihr =>
      simp only [RowsOKSeq]
      exact ⟨key (sizeOf w) _ w (Nat.le_refl _), ihr⟩

end CV.Paths
