import ComposeVerif.Lemmas.PathsTree
/-! Lifting "two-stage = one-stage" from attributes to whole trees (C12). -/
namespace CV.Paths
open CV CV.TPath

mutual
/-- `RowsOK P t p v`: `P h node` holds at every node of `v` whose path matches a row `h` of `t`
(the walker does not descend below such a node) -/
def RowsOK (P : String → Val → Prop) (t : Table) : TPath → Val → Prop
  | p, .map kvs => match firstMatch t p with
    | some h => P h (.map kvs)
    | none => RowsOKKVs P t p kvs
  | p, .seq xs => match firstMatch t p with
    | some h => P h (.seq xs)
    | none => RowsOKSeq P t p xs
  | p, v => match firstMatch t p with
    | some h => P h v
    | none => True
def RowsOKKVs (P : String → Val → Prop) (t : Table) : TPath → List (String × Val) → Prop
  | _, [] => True
  | p, (k, v) :: r => RowsOK P t (TPath.next p k) v ∧ RowsOKKVs P t p r
def RowsOKSeq (P : String → Val → Prop) (t : Table) : TPath → List Val → Prop
  | _, [] => True
  | p, x :: r => RowsOK P t (TPath.next p "[]") x ∧ RowsOKSeq P t p r
end

theorem rowsOK_of_match (P : String → Val → Prop) (t : Table) (p : TPath) (v : Val) (h : String)
    (hm : firstMatch t p = some h) (hr : RowsOK P t p v) : P h v := by
  cases v <;> simpa [RowsOK, hm] using hr

/-- the second stage composes with the first at a node: stage 2 on the stage-1 result = one stage -/
def ComposeAt (c1 c2 c12 : Cfg) (h : String) (v : Val) : Prop :=
  ∀ v1, applyResolver c1 h v = .ok v1 → applyResolver c2 h v1 = applyResolver c12 h v

mutual
theorem walk_compose (t : Table) (c1 c2 c12 : Cfg) :
    ∀ (p : TPath) (v v1 : Val), RowsOK (ComposeAt c1 c2 c12) t p v → walk t c1 p v = .ok v1 →
      walk t c2 p v1 = walk t c12 p v
  | p, .map kvs, v1, hr, h => by
    cases hm : firstMatch t p with
    | some hn =>
      rw [walk_of_match t _ p _ hn hm] at h ⊢
      rw [walk_of_match t _ p _ hn hm]
      exact rowsOK_of_match _ t p _ hn hm hr v1 h
    | none =>
      simp only [walk, hm] at h
      obtain ⟨kvs1, hk, rfl⟩ := Out.map_ok _ _ _ h
      simp only [RowsOK, hm] at hr
      simp only [walk, hm, walkKVs_compose t c1 c2 c12 p kvs kvs1 hr hk]
  | p, .seq xs, v1, hr, h => by
    cases hm : firstMatch t p with
    | some hn =>
      rw [walk_of_match t _ p _ hn hm] at h ⊢
      rw [walk_of_match t _ p _ hn hm]
      exact rowsOK_of_match _ t p _ hn hm hr v1 h
    | none =>
      simp only [walk, hm] at h
      obtain ⟨xs1, hk, rfl⟩ := Out.map_ok _ _ _ h
      simp only [RowsOK, hm] at hr
      simp only [walk, hm, walkSeq_compose t c1 c2 c12 p xs xs1 hr hk]
  | p, .null, v1, hr, h => by
    cases hm : firstMatch t p with
    | some hn =>
      rw [walk_of_match t _ p _ hn hm] at h ⊢
      rw [walk_of_match t _ p _ hn hm]
      exact rowsOK_of_match _ t p _ hn hm hr v1 h
    | none => simp only [walk, hm, Out.ok.injEq] at h; subst h; simp [walk, hm]
  | p, .bool b, v1, hr, h => by
    cases hm : firstMatch t p with
    | some hn =>
      rw [walk_of_match t _ p _ hn hm] at h ⊢
      rw [walk_of_match t _ p _ hn hm]
      exact rowsOK_of_match _ t p _ hn hm hr v1 h
    | none => simp only [walk, hm, Out.ok.injEq] at h; subst h; simp [walk, hm]
  | p, .int b, v1, hr, h => by
    cases hm : firstMatch t p with
    | some hn =>
      rw [walk_of_match t _ p _ hn hm] at h ⊢
      rw [walk_of_match t _ p _ hn hm]
      exact rowsOK_of_match _ t p _ hn hm hr v1 h
    | none => simp only [walk, hm, Out.ok.injEq] at h; subst h; simp [walk, hm]
  | p, .float b, v1, hr, h => by
    cases hm : firstMatch t p with
    | some hn =>
      rw [walk_of_match t _ p _ hn hm] at h ⊢
      rw [walk_of_match t _ p _ hn hm]
      exact rowsOK_of_match _ t p _ hn hm hr v1 h
    | none => simp only [walk, hm, Out.ok.injEq] at h; subst h; simp [walk, hm]
  | p, .str b, v1, hr, h => by
    cases hm : firstMatch t p with
    | some hn =>
      rw [walk_of_match t _ p _ hn hm] at h ⊢
      rw [walk_of_match t _ p _ hn hm]
      exact rowsOK_of_match _ t p _ hn hm hr v1 h
    | none => simp only [walk, hm, Out.ok.injEq] at h; subst h; simp [walk, hm]
theorem walkKVs_compose (t : Table) (c1 c2 c12 : Cfg) :
    ∀ (p : TPath) (kvs kvs1 : List (String × Val)), RowsOKKVs (ComposeAt c1 c2 c12) t p kvs →
      walkKVs t c1 p kvs = .ok kvs1 → walkKVs t c2 p kvs1 = walkKVs t c12 p kvs
  | p, [], kvs1, _, h => by
    simp only [walkKVs, Out.ok.injEq] at h; subst h; rfl
  | p, (k, v) :: r, kvs1, hr, h => by
    simp only [walkKVs] at h
    simp only [RowsOKKVs] at hr
    cases hx : walk t c1 (TPath.next p k) v with
    | ok x1 =>
      rw [hx] at h
      simp only at h
      obtain ⟨r1, hr1, rfl⟩ := Out.map_ok _ _ _ h
      simp only [walkKVs, walk_compose t c1 c2 c12 _ v x1 hr.1 hx, walkKVs_compose t c1 c2 c12 p r r1 hr.2 hr1]
    | err e => rw [hx] at h; simp at h
    | panic s => rw [hx] at h; simp at h
theorem walkSeq_compose (t : Table) (c1 c2 c12 : Cfg) :
    ∀ (p : TPath) (xs xs1 : List Val), RowsOKSeq (ComposeAt c1 c2 c12) t p xs →
      walkSeq t c1 p xs = .ok xs1 → walkSeq t c2 p xs1 = walkSeq t c12 p xs
  | p, [], xs1, _, h => by
    simp only [walkSeq, Out.ok.injEq] at h; subst h; rfl
  | p, x :: r, xs1, hr, h => by
    simp only [walkSeq] at h
    simp only [RowsOKSeq] at hr
    cases hx : walk t c1 (TPath.next p "[]") x with
    | ok x1 =>
      rw [hx] at h
      simp only at h
      obtain ⟨r1, hr1, rfl⟩ := Out.map_ok _ _ _ h
      simp only [walkSeq, walk_compose t c1 c2 c12 _ x x1 hr.1 hx, walkSeq_compose t c1 c2 c12 p r r1 hr.2 hr1]
    | err e => rw [hx] at h; simp at h
    | panic s => rw [hx] at h; simp at h
end

/-! ### `ComposeAt` for the string-valued attributes, from the string-level laws -/

section
variable (home : Option Str) (remote : Str → Bool) (W R : Str)
  (hW : W ≠ []) (hR : R ≠ []) (hRr : isAbs R = false)
include hW hR hRr

theorem composeAt_absPath (s : String)
    (hplain : tilde (absPathStr ⟨R, home, remote, some⟩ s.toList) = false) :
    ComposeAt ⟨R, home, remote, some⟩ ⟨W, home, remote, some⟩ ⟨join W R, home, remote, some⟩ "absPath" (.str s) := by
  intro v1 h
  simp only [applyResolver, if_true, absPath, Out.ok.injEq] at h
  subst h
  simp only [applyResolver, if_true, absPath, String.toList_ofList,
    absPathStr_compose home remote some W R s.toList hW hR hRr hplain]

theorem composeAt_absSymbolicLink (s : String)
    (hplain : tilde (absPathStr ⟨R, home, remote, some⟩ s.toList) = false) :
    ComposeAt ⟨R, home, remote, some⟩ ⟨W, home, remote, some⟩ ⟨join W R, home, remote, some⟩ "absSymbolicLink" (.str s) := by
  intro v1 h
  have e : ∀ (c : Cfg) (x : String), c.sym = some → applyResolver c "absSymbolicLink" (.str x) =
      .ok (.str (String.ofList (absPathStr c x.toList))) := by
    intro c x hc
    simp [applyResolver, absSymbolicLink, absPath, hc, okStr]
  rw [e _ _ rfl] at h
  simp only [Out.ok.injEq] at h
  subst h
  rw [e _ _ rfl, e _ _ rfl]
  simp only [String.toList_ofList, absPathStr_compose home remote some W R s.toList hW hR hRr hplain]

theorem composeAt_absContextPath (s : String)
    (hplain : tilde (absContextStr ⟨R, home, remote, some⟩ s.toList) = false)
    (hlocal : urlLike s.toList = false → urlLike (absContextStr ⟨R, home, remote, some⟩ s.toList) = false) :
    ComposeAt ⟨R, home, remote, some⟩ ⟨W, home, remote, some⟩ ⟨join W R, home, remote, some⟩ "absContextPath" (.str s) := by
  intro v1 h
  have e : ∀ (c : Cfg) (x : String), applyResolver c "absContextPath" (.str x) =
      .ok (.str (String.ofList (absContextStr c x.toList))) := by
    intro c x
    simp [applyResolver, absContextPath, okStr]
  rw [e] at h
  simp only [Out.ok.injEq] at h
  subst h
  rw [e, e]
  simp only [String.toList_ofList]
  congr 3
  cases hu : urlLike s.toList with
  | true => rw [absContextStr_url _ _ hu, absContextStr_url _ _ hu, absContextStr_url _ _ hu]
  | false =>
    have h2 := hlocal hu
    rw [absContextStr_local _ _ hu] at hplain h2 ⊢
    rw [absContextStr_local _ _ h2, absContextStr_local _ _ hu]
    exact absPathStr_compose home remote some W R s.toList hW hR hRr hplain

theorem composeAt_maybeUnixPath (s : String) (m : Str)
    (h1 : maybeUnixStr ⟨R, home, remote, some⟩ s.toList = .ok m)
    (hplain : tilde m = false ∧ (isAbs (expandUser home s.toList) = false →
      isWindowsAbs? (expandUser home s.toList) = some false → isWindowsAbs? m = some false)) :
    ComposeAt ⟨R, home, remote, some⟩ ⟨W, home, remote, some⟩ ⟨join W R, home, remote, some⟩ "maybeUnixPath" (.str s) := by
  intro v1 h
  have e : ∀ (c : Cfg) (x : String), applyResolver c "maybeUnixPath" (.str x) =
      (maybeUnixStr c x.toList).map (fun r => .str (String.ofList r)) := by
    intro c x
    simp [applyResolver, maybeUnixPath]
  rw [e, h1] at h
  simp only [Out.map, Out.ok.injEq] at h
  subst h
  rw [e, e]
  simp only [String.toList_ofList]
  rw [maybeUnixStr_compose home remote some W R s.toList m hW hR hRr h1 hplain]
end

end CV.Paths
