import ComposeVerif.Lemmas.PathsOrigin
/-! `filepath.Dir` commutes with `Join`: `Dir(Join(W, f)) = Join(W, Dir(f))` when `f` ends in a real name (C12). -/
namespace CV.Paths

theorem splitSlash_flatten_slash (l : List Str) (hs : ∀ c ∈ l, '/' ∉ c) :
    splitSlash ((l.map (· ++ ['/'])).flatten) = l ++ [[]] := by
  induction l with
  | nil => simp [splitSlash]
  | cons a r ih =>
    simp only [List.map_cons, List.flatten_cons, List.append_assoc, List.singleton_append]
    rw [splitSlash_append, splitSlash_noSlash_self a (hs a (by simp)), ih (fun c hc => hs c (by simp [hc]))]
    simp

theorem dirPrefix_eq (p : Str) : dirPrefix p = (((splitSlash p).dropLast).map (· ++ ['/'])).flatten := by
  unfold dirPrefix
  have hne := splitSlash_ne_nil p
  cases hr : (splitSlash p).reverse with
  | nil => simp at hr; exact absurd hr hne
  | cons x rr =>
    have : splitSlash p = rr.reverse ++ [x] := by
      have := congrArg List.reverse hr
      simpa using this
    simp [this]

theorem splitSlash_dirPrefix (p : Str) : splitSlash (dirPrefix p) = (splitSlash p).dropLast ++ [[]] := by
  rw [dirPrefix_eq]
  apply splitSlash_flatten_slash
  intro c hc
  exact splitSlash_noSlash p c (List.dropLast_subset _ hc)

theorem isAbs_dirPrefix (p : Str) : isAbs (dirPrefix p) = isAbs p := by
  cases p with
  | nil => simp [dirPrefix, splitSlash, isAbs]
  | cons c q =>
    by_cases hc : c = '/'
    · subst hc; rw [dirPrefix_cons_slash]; simp [isAbs]
    · rw [dirPrefix_eq]
      have hp : isAbs (c :: q) = false := by simp [isAbs, hc]
      rw [hp]
      simp only [splitSlash, hc, if_false]
      cases hq : splitSlash q with
      | nil => exact absurd hq (splitSlash_ne_nil q)
      | cons s r =>
        simp only
        cases r with
        | nil => simp [isAbs]
        | cons b r' => simp [List.dropLast, isAbs, hc]

theorem cleanStack_dirPrefix (p : Str) :
    cleanStack (dirPrefix p) = (splitSlash p).dropLast.foldl (step (isAbs p)) [] := by
  unfold cleanStack
  rw [isAbs_dirPrefix, splitSlash_dirPrefix, List.foldl_append]
  simp [step_skip _ _ [] (.inl rfl)]

theorem dir_eq (p : Str) : dir p = render (isAbs p) ((splitSlash p).dropLast.foldl (step (isAbs p)) []).reverse := by
  unfold dir clean
  rw [isAbs_dirPrefix, cleanStack_dirPrefix]

/-- **`Dir(Join(W, f)) = Join(W, Dir(f))`** for a relative `f` whose last element is a real name (not empty, `.`, `..`) -/
theorem dir_join (W f : Str) (I : List Str) (last : Str) (hW : W ≠ []) (hf : isAbs f = false)
    (hsplit : splitSlash f = I ++ [last]) (hlast : Norm last) :
    dir (join W f) = join W (dir f) := by
  generalize hr0 : isAbs W = r
  have hS'def : ∃ S', S' = I.foldl (step r) ((splitSlash W).foldl (step r) []) := ⟨_, rfl⟩
  obtain ⟨S', hS'⟩ := hS'def
  have hS'v : Valid r S' := by rw [hS']; exact valid_foldl _ _ _ (valid_foldl _ _ _ (valid_nil _))
  have hIs : ∀ c ∈ I, '/' ∉ c := fun c hc => splitSlash_noSlash f c (by rw [hsplit]; simp [hc])
  have hls : '/' ∉ last := splitSlash_noSlash f last (by rw [hsplit]; simp)
  have hS's : ∀ c ∈ S', '/' ∉ c := by
    intro c hc
    rw [hS'] at hc
    rcases foldl_step_mem _ _ _ c hc with h | h
    · rcases foldl_step_mem _ _ _ c h with h | h
      · simp at h
      · exact splitSlash_noSlash W c h
    · exact hIs c h
  have hS'ne : ∀ c ∈ S', c ≠ [] := valid_ne_nil hS'v
  -- the right-hand side
  have hdp : isAbs (dirPrefix f) = false := by rw [isAbs_dirPrefix]; exact hf
  have hrhs : join W (dir f) = render r S'.reverse := by
    rw [join_of_ne W _ hW]
    unfold dir
    rw [clean_right W _ hW hdp]
    unfold clean cleanStack
    rw [isAbs_append _ _ hW, hr0, splitSlash_append, splitSlash_dirPrefix, hsplit]
    simp only [List.dropLast_concat, List.foldl_append, List.foldl_cons, List.foldl_nil,
      step_skip _ _ [] (.inl rfl)]
    rw [hS']
  -- the left-hand side
  have hX : join W f = render r (S'.reverse ++ [last]) := by
    rw [join_of_ne W _ hW]
    unfold clean cleanStack
    rw [isAbs_append _ _ hW, hr0, splitSlash_append, hsplit]
    simp only [List.foldl_append, List.foldl_cons, List.foldl_nil]
    rw [step_norm _ _ last hlast, ← hS']
    simp
  have hXabs : isAbs (join W f) = r := by
    rw [join_of_ne W _ hW, isAbs_clean, isAbs_append _ _ hW, hr0]
  have hLne : S'.reverse ++ [last] ≠ [] := by simp
  have hLs : ∀ c ∈ S'.reverse ++ [last], '/' ∉ c := by
    intro c hc
    simp only [List.mem_append, List.mem_reverse, List.mem_singleton] at hc
    rcases hc with h | h
    · exact hS's c h
    · rw [h]; exact hls
  rw [hrhs, dir_eq, hXabs, hX]
  congr 2
  clear hS'
  cases r with
  | true =>
    have : render true (S'.reverse ++ [last]) = '/' :: joinSlash (S'.reverse ++ [last]) := by simp [render]
    rw [this, splitSlash_cons_slash, splitSlash_joinSlash _ hLne hLs]
    have : ([] :: (S'.reverse ++ [last])).dropLast = [] :: S'.reverse := by
      rw [← List.cons_append, List.dropLast_concat]
    rw [this, List.foldl_cons, step_skip _ _ [] (.inl rfl)]
    exact foldl_step_valid true S' hS'v
  | false =>
    have : render false (S'.reverse ++ [last]) = joinSlash (S'.reverse ++ [last]) := by simp [render]
    rw [this, splitSlash_joinSlash _ hLne hLs, List.dropLast_concat]
    exact foldl_step_valid false S' hS'v

/-- joining a path that ends in a real name onto a relative directory gives a path that ends in that name
(also when the `./` guard is added) -/
theorem splitSlash_joinWd_last (R f : Str) (I : List Str) (last : Str) (hR : R ≠ []) (hRr : isAbs R = false)
    (hsplit : splitSlash f = I ++ [last]) (hlast : Norm last) :
    ∃ I', splitSlash (joinWd R f) = I' ++ [last] := by
  have hS'def : ∃ S', S' = I.foldl (step false) ((splitSlash R).foldl (step false) []) := ⟨_, rfl⟩
  obtain ⟨S', hS'⟩ := hS'def
  have hIs : ∀ c ∈ I, '/' ∉ c := fun c hc => splitSlash_noSlash f c (by rw [hsplit]; simp [hc])
  have hls : '/' ∉ last := splitSlash_noSlash f last (by rw [hsplit]; simp)
  have hS's : ∀ c ∈ S', '/' ∉ c := by
    intro c hc
    rw [hS'] at hc
    rcases foldl_step_mem _ _ _ c hc with h | h
    · rcases foldl_step_mem _ _ _ c h with h | h
      · simp at h
      · exact splitSlash_noSlash R c h
    · exact hIs c h
  have hX : join R f = joinSlash (S'.reverse ++ [last]) := by
    rw [join_of_ne R _ hR]
    unfold clean cleanStack
    rw [isAbs_append _ _ hR, hRr, splitSlash_append, hsplit]
    simp only [List.foldl_append, List.foldl_cons, List.foldl_nil]
    rw [step_norm _ _ last hlast, ← hS']
    simp [render]
  have hLs : ∀ c ∈ S'.reverse ++ [last], '/' ∉ c := by
    intro c hc
    simp only [List.mem_append, List.mem_reverse, List.mem_singleton] at hc
    rcases hc with h | h
    · exact hS's c h
    · rw [h]; exact hls
  have hsp : splitSlash (join R f) = S'.reverse ++ [last] := by
    rw [hX]; exact splitSlash_joinSlash _ (by simp) hLs
  rcases joinWd_cases R f with ⟨h, _⟩ | ⟨h, _, _⟩
  · rw [h, hsp]; exact ⟨_, rfl⟩
  · rw [h]
    have := splitSlash_append ['.'] (join R f)
    simp only [List.singleton_append] at this
    rw [this, hsp]
    exact ⟨splitSlash ['.'] ++ S'.reverse, by simp⟩

end CV.Paths
