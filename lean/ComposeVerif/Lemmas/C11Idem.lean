import ComposeVerif.Lemmas.C11Norm
/-! Idempotence of the pieces of the `Normalize` model (C11). -/
namespace CV.C11
open CV CV.Val CV.C11.Spec

/-! ### `resolve` -/

theorem containsChar_append_eq (s v : String) : containsChar '=' (s ++ "=" ++ v) = true := by
  simp [containsChar, String.toList_append]

theorem resolveKVs_idem (env : Env) (keep : Bool) (m : KVs) :
    resolveKVs env keep (resolveKVs env keep m) = resolveKVs env keep m := by
  induction m with
  | nil => rfl
  | cons e r ih =>
    obtain ⟨k, v⟩ := e
    cases v with
    | null =>
      simp only [resolveKVs]
      cases h : envLookup env k with
      | some s => simp [resolveKVs, ih]
      | none =>
        cases keep with
        | true => simp [resolveKVs, h, ih]
        | false => simpa using ih
    | _ => simp [resolveKVs, ih]

/-- a string kept by `resolve` resolves to itself -/
theorem resolveStr_stable {env : Env} {keep : Bool} {s : String} {y : Val}
    (h : resolveStr env keep s = (y, true)) : ∃ t, y = .str t ∧ resolveStr env keep t = (.str t, true) := by
  unfold resolveStr at h
  cases hc : containsChar '=' s with
  | true =>
    simp only [hc, if_true, Prod.mk.injEq] at h
    refine ⟨s, h.1.symm, ?_⟩
    simp [resolveStr, hc]
  | false =>
    simp only [hc, Bool.false_eq_true, if_false] at h
    cases he : envLookup env s with
    | some v =>
      simp only [he, Prod.mk.injEq] at h
      refine ⟨s ++ "=" ++ v, h.1.symm, ?_⟩
      simp [resolveStr, containsChar_append_eq]
    | none =>
      simp only [he] at h
      cases keep with
      | true =>
        simp only [if_true, Prod.mk.injEq] at h
        refine ⟨s, h.1.symm, ?_⟩
        simp [resolveStr, hc, he]
      | false => simp at h

mutual
theorem resolve_stable (env : Env) (keep : Bool) :
    ∀ (x y : Val), resolve env keep x = (y, true) → resolve env keep y = (y, true)
  | .seq xs, y, h => by
    simp only [resolve, Prod.mk.injEq, and_true] at h
    subst h
    simp only [resolve, resolveList_idem env keep xs]
  | .map kvs, y, h => by
    simp only [resolve, Prod.mk.injEq, and_true] at h
    subst h
    simp only [resolve, resolveKVs_idem]
  | .str s, y, h => by
    simp only [resolve] at h
    obtain ⟨t, rfl, ht⟩ := resolveStr_stable h
    simpa [resolve] using ht
  | .null, y, h => by simp [resolve] at h
  | .bool _, y, h => by simp [resolve] at h
  | .int _, y, h => by simp [resolve] at h
  | .float _, y, h => by simp [resolve] at h
theorem resolveList_idem (env : Env) (keep : Bool) :
    ∀ (xs : List Val), resolveList env keep (resolveList env keep xs) = resolveList env keep xs
  | [] => by simp [resolveList]
  | x :: r => by
    have ih := resolveList_idem env keep r
    cases hx : resolve env keep x with
    | mk y b =>
      cases b with
      | true =>
        have hy := resolve_stable env keep x y hx
        simp only [resolveList, hx, hy, ih]
      | false =>
        simp only [resolveList, hx, ih]
end

/-- `build.args` / `environment` are resolved once and for all -/
theorem resolve_fst_idem (env : Env) (keep : Bool) (henv : keep = false → envLookup env "" = none) (a : Val) :
    (resolve env keep (resolve env keep a).1).1 = (resolve env keep a).1 := by
  cases hx : resolve env keep a with
  | mk y b =>
    cases b with
    | true => simp [resolve_stable env keep a y hx]
    | false =>
      cases a with
      | seq xs => simp [resolve] at hx
      | map kvs => simp [resolve] at hx
      | str s =>
        simp only [resolve, resolveStr] at hx
        cases hc : containsChar '=' s with
        | true => simp [hc] at hx
        | false =>
          simp only [hc, Bool.false_eq_true, if_false] at hx
          cases he : envLookup env s with
          | some v => simp [he] at hx
          | none =>
            simp only [he] at hx
            cases keep with
            | true => simp at hx
            | false =>
              simp only [Bool.false_eq_true, if_false, Prod.mk.injEq, and_true] at hx
              subst hx
              have h0 := henv rfl
              have hc0 : containsChar '=' "" = false := by decide
              simp [resolve, resolveStr, hc0, h0]
      | null => simp only [resolve, Prod.mk.injEq] at hx; simp [← hx.1, resolve]
      | bool _ => simp only [resolve, Prod.mk.injEq] at hx; simp [← hx.1, resolve]
      | int _ => simp only [resolve, Prod.mk.injEq] at hx; simp [← hx.1, resolve]
      | float _ => simp only [resolve, Prod.mk.injEq] at hx; simp [← hx.1, resolve]

/-! ### build defaults -/

theorem lookup_normBuildArgs_ne (env : Env) {k : String} (hk : k ≠ "args") (b : KVs) :
    lookup k (normBuildArgs env b) = lookup k b := by
  unfold normBuildArgs
  cases h : lookup "args" b with
  | none => rfl
  | some a => simp [lookup_insert_ne hk]

theorem lookup_dockerfileDefault_ne {k : String} (hk : k ≠ "dockerfile") (b : KVs) :
    lookup k (dockerfileDefault b) = lookup k b := by
  unfold dockerfileDefault
  split <;> simp [lookup_insert_ne hk]

/-- `dockerfile` after the default: untouched when it or `dockerfile_inline` is set, else `Dockerfile` -/
theorem lookup_dockerfileDefault_self (b : KVs) :
    lookup "dockerfile" (dockerfileDefault b) =
      match lookup "dockerfile" b, lookup "dockerfile_inline" b with
      | none, none => some (.str "Dockerfile")
      | none, some .null => some (.str "Dockerfile")
      | some .null, none => some (.str "Dockerfile")
      | some .null, some .null => some (.str "Dockerfile")
      | d, _ => d := by
  unfold dockerfileDefault
  split <;> simp_all [lookup_insert_self]

/-- `dockerfile` or `dockerfile_inline` carries a value -/
def DockerfileSettled (b : KVs) : Prop :=
  (∃ x, lookup "dockerfile" b = some x ∧ x ≠ .null) ∨ (∃ x, lookup "dockerfile_inline" b = some x ∧ x ≠ .null)

theorem dockerfileDefault_of_settled {b : KVs} (h : DockerfileSettled b) : dockerfileDefault b = b := by
  unfold dockerfileDefault
  rcases h with ⟨x, hx, hn⟩ | ⟨x, hx, hn⟩
  · rw [hx]; cases x <;> simp_all
  · rw [hx]; cases x <;> simp_all <;> split <;> simp_all

theorem dockerfile_settled (b : KVs) : DockerfileSettled (dockerfileDefault b) := by
  unfold DockerfileSettled
  rw [lookup_dockerfileDefault_self, lookup_dockerfileDefault_ne (by decide)]
  cases h1 : lookup "dockerfile" b with
  | none =>
    cases h2 : lookup "dockerfile_inline" b with
    | none => simp
    | some y => cases y <;> simp
  | some x =>
    cases x <;> simp <;>
    (cases h2 : lookup "dockerfile_inline" b with
     | none => simp
     | some y => cases y <;> simp)

theorem dockerfileDefault_idem (b : KVs) : dockerfileDefault (dockerfileDefault b) = dockerfileDefault b :=
  dockerfileDefault_of_settled (dockerfile_settled b)

theorem normBuildArgs_idem (env : Env) (henv : envLookup env "" = none) (b : KVs) :
    normBuildArgs env (normBuildArgs env b) = normBuildArgs env b := by
  cases h : lookup "args" b with
  | none => simp [normBuildArgs, h]
  | some a =>
    have h1 : normBuildArgs env b = Val.insert "args" (resolve env false a).1 b := by simp [normBuildArgs, h]
    rw [h1]
    unfold normBuildArgs
    rw [lookup_insert_self]
    simp only
    rw [resolve_fst_idem env false (fun _ => henv) a, insert_insert]

theorem normBuild_idem (env : Env) (henv : envLookup env "" = none) (b : KVs) :
    normBuild env (normBuild env b) = normBuild env b := by
  unfold normBuild
  -- name the three stages
  generalize h1 : setIfNil "context" (.str ".") b = b1
  generalize h2 : dockerfileDefault b1 = b2
  generalize h3 : normBuildArgs env b2 = b3
  -- context is settled
  obtain ⟨x, hx, hxn⟩ := lookup_setIfNil_self_nonnull "context" (.str ".") (by simp) b
  rw [h1] at hx
  have hc3 : lookup "context" b3 = some x := by
    rw [← h3, lookup_normBuildArgs_ne env (by decide), ← h2, lookup_dockerfileDefault_ne (by decide), hx]
  rw [setIfNil_of_nonnull hc3 hxn]
  -- dockerfile is settled
  have hd : dockerfileDefault b3 = b3 := by
    apply dockerfileDefault_of_settled
    have hs : DockerfileSettled b2 := h2 ▸ dockerfile_settled b1
    unfold DockerfileSettled at hs ⊢
    rw [← h3, lookup_normBuildArgs_ne env (by decide), lookup_normBuildArgs_ne env (by decide)]
    exact hs
  rw [hd, ← h3, normBuildArgs_idem env henv]

/-! ### the per-service loop -/

theorem pullPolicyV_idem (v : Val) : pullPolicyV (pullPolicyV v) = pullPolicyV v := by
  cases v with
  | str p =>
    by_cases h : p = "if_not_present"
    · simp [pullPolicyV, h]
    · simp [pullPolicyV, h]
  | _ => rfl

theorem cleanVolume_idem (clean : String → String) (hclean : ∀ s, clean (clean s) = clean s) (v : Val) :
    cleanVolume clean (cleanVolume clean v) = cleanVolume clean v := by
  cases v with
  | map vol => simp [cleanVolume, lookup_insert_self, strOf, hclean, insert_insert]
  | _ => rfl

theorem normVolumesV_idem (clean : String → String) (hclean : ∀ s, clean (clean s) = clean s) (v : Val) :
    normVolumesV clean (normVolumesV clean v) = normVolumesV clean v := by
  cases v with
  | seq vols => simp [normVolumesV, List.map_map, Function.comp_def, cleanVolume_idem clean hclean]
  | _ => rfl

theorem normBuildV_idem (env : Env) (henv : envLookup env "" = none) (v : Val) :
    normBuildV env (normBuildV env v) = normBuildV env v := by
  cases v with
  | map b => simp [normBuildV, normBuild_idem env henv]
  | _ => rfl

theorem svcAttr_idem (clean : String → String) (hclean : ∀ s, clean (clean s) = clean s)
    (env : Env) (henv : envLookup env "" = none) (k : String) (v : Val) :
    svcAttr clean env k (svcAttr clean env k v) = svcAttr clean env k v := by
  unfold svcAttr
  by_cases h1 : k = "pull_policy"
  · simp [h1, pullPolicyV_idem]
  · by_cases h2 : k = "build"
    · simp [h2, normBuildV_idem env henv]
    · by_cases h3 : k = "environment"
      · simp [h3, resolve_fst_idem env true (by simp)]
      · by_cases h4 : k = "volumes"
        · simp [h4, normVolumesV_idem clean hclean]
        · simp [h1, h2, h3, h4]

theorem svcAttr_other (clean : String → String) (env : Env) {k : String}
    (h1 : k ≠ "pull_policy") (h2 : k ≠ "build") (h3 : k ≠ "environment") (h4 : k ≠ "volumes") (v : Val) :
    svcAttr clean env k v = v := by
  simp [svcAttr, h1, h2, h3, h4]

/-- attributes the loop does not rewrite read the same after it -/
theorem lookup_normService_other (clean : String → String) (env : Env) {k : String}
    (h1 : k ≠ "pull_policy") (h2 : k ≠ "build") (h3 : k ≠ "environment") (h4 : k ≠ "volumes")
    (h5 : k ≠ "depends_on") (s : KVs) :
    lookup k (normService clean env s) = lookup k s := by
  unfold normService setDeps
  split
  · rw [lookup_mapAt]; cases lookup k s <;> simp [svcAttr_other clean env h1 h2 h3 h4]
  · rw [lookup_insert_ne h5, lookup_mapAt]; cases lookup k s <;> simp [svcAttr_other clean env h1 h2 h3 h4]

theorem lookup_normService_depends_on (clean : String → String) (env : Env) (s : KVs) :
    lookup "depends_on" (normService clean env s) =
      match impliedDeps s with
      | [] => lookup "depends_on" s
      | d :: r => some (.map (d :: r)) := by
  unfold normService setDeps
  split
  · rename_i h; rw [h]
    rw [lookup_mapAt]; cases lookup "depends_on" s <;> simp [svcAttr]
  · rename_i d r h; rw [h]
    simp [lookup_insert_self]

theorem nsDeps_congr {s s' : KVs} (h : ∀ ns ∈ namespaces, lookup ns s' = lookup ns s) : nsDeps s' = nsDeps s := by
  unfold nsDeps
  have : ∀ l : List String, (∀ ns ∈ l, lookup ns s' = lookup ns s) → l.filterMap (nsDep s') = l.filterMap (nsDep s) := by
    intro l
    induction l with
    | nil => intro _; rfl
    | cons a r ih =>
      intro hl
      have ha : nsDep s' a = nsDep s a := by simp [nsDep, hl a (List.mem_cons_self ..)]
      simp only [List.filterMap_cons, ha, ih fun ns hns => hl ns (List.mem_cons_of_mem _ hns)]
  exact this _ h

theorem impliedList_normService (clean : String → String) (env : Env) (s : KVs) :
    impliedList (normService clean env s) = impliedList s := by
  unfold impliedList
  rw [lookup_normService_other clean env (by decide) (by decide) (by decide) (by decide) (by decide),
      lookup_normService_other clean env (by decide) (by decide) (by decide) (by decide) (by decide)]
  rw [nsDeps_congr]
  intro ns hns
  simp only [namespaces, List.mem_cons, List.not_mem_nil, or_false] at hns
  rcases hns with h | h | h | h | h <;> subst h <;>
    exact lookup_normService_other clean env (by decide) (by decide) (by decide) (by decide) (by decide) s

theorem impliedDeps_normService (clean : String → String) (env : Env) (s : KVs) :
    impliedDeps (normService clean env s) = impliedDeps s := by
  have hdep := lookup_normService_depends_on clean env s
  have hl := impliedList_normService clean env s
  show addDeps (impliedList (normService clean env s)) (mapOf (lookup "depends_on" (normService clean env s))) = impliedDeps s
  rw [hl, hdep]
  generalize hD : impliedDeps s = D
  cases D with
  | nil => exact hD
  | cons d r =>
    show addDeps (impliedList s) (d :: r) = d :: r
    rw [← hD]
    exact addDeps_idem _ _

theorem normService_idem (clean : String → String) (hclean : ∀ s, clean (clean s) = clean s)
    (env : Env) (henv : envLookup env "" = none) (s : KVs) :
    normService clean env (normService clean env s) = normService clean env s := by
  have hD := impliedDeps_normService clean env s
  show setDeps (impliedDeps (normService clean env s)) (mapAt (svcAttr clean env) (normService clean env s)) = _
  rw [hD]
  unfold normService setDeps
  cases h : impliedDeps s with
  | nil =>
    simp only
    rw [mapAt_mapAt]
    apply mapAt_congr
    intro kv _
    exact svcAttr_idem clean hclean env henv kv.1 kv.2
  | cons d r =>
    simp only
    rw [mapAt_insert, mapAt_mapAt, insert_insert]
    congr 1
    apply mapAt_congr
    intro kv _
    exact svcAttr_idem clean hclean env henv kv.1 kv.2

theorem normServiceV_idem (clean : String → String) (hclean : ∀ s, clean (clean s) = clean s)
    (env : Env) (henv : envLookup env "" = none) (v : Val) :
    normServiceV clean env (normServiceV clean env v) = normServiceV clean env v := by
  cases v with
  | map s => simp [normServiceV, normService_idem clean hclean env henv]
  | _ => rfl

end CV.C11
