import ComposeVerif.Lemmas.C11KV
import ComposeVerif.Model.ShortTransform
/-! Two independent models of the same Go functions agree: C03's model of `transformDependsOn` /
`transformEnvFile` (part of its model of the whole of `transform.Canonical`, `CV.Short.canonical`) and C11's. -/
namespace CV.C11
open CV CV.Val

theorem insert_of_absent {k : String} {v : Val} {m : KVs} (h : lookup k m = none) : Val.insert k v m = m ++ [(k, v)] := by
  induction m with
  | nil => rfl
  | cons e r ih =>
    obtain ⟨k', v'⟩ := e
    by_cases hk : k = k'
    · simp [lookup, hk] at h
    · simp only [lookup, hk, if_false] at h
      simp [Val.insert, hk, ih h]

theorem setIfAbsent_eq_append (k : String) (v : Val) (m : KVs) :
    setIfAbsent k v m = if CV.Short.hasKey k m then m else m ++ [(k, v)] := by
  unfold setIfAbsent CV.Short.hasKey
  cases h : lookup k m with
  | some x => simp
  | none => simp [insert_of_absent h]

theorem dependsDefaults_agrees (d : KVs) : CV.Short.dependsDefaults d = depDefaults d := by
  unfold CV.Short.dependsDefaults depDefaults
  simp only [setIfAbsent_eq_append]

theorem envFileValue_agrees (v : Val) : CV.Short.envFileValue v = envFileValue v := by
  cases v <;> simp [CV.Short.envFileValue, envFileValue, setIfAbsent_eq_append]

theorem transformEnvFile_agrees (v w : Val) :
    CV.Short.transformEnvFile v = .ok w ↔ transformEnvFile v = .ok w := by
  cases v <;> simp [CV.Short.transformEnvFile, transformEnvFile, envFileValue_agrees]
  · rename_i xs
    have : xs.map CV.Short.envFileValue = xs.map envFileValue := by
      apply List.map_congr_left; intro a _; exact envFileValue_agrees a
    rw [this]

theorem dependsMap_agrees : ∀ (m r : KVs),
    CV.Short.dependsMap m = .ok r ↔ ((m.all fun kv => isMap kv.2) = true ∧ r = m.map fun kv => (kv.1, depDefaultsV kv.2))
  | [], r => by simp [CV.Short.dependsMap, eq_comm]
  | (k, v) :: t, r => by
    cases v with
    | map d =>
      have hall : (((k, Val.map d) :: t).all fun kv => isMap kv.2) = (t.all fun kv => isMap kv.2) := by
        simp [isMap]
      have hmap : ((k, Val.map d) :: t).map (fun kv => (kv.1, depDefaultsV kv.2)) =
          (k, .map (depDefaults d)) :: t.map (fun kv => (kv.1, depDefaultsV kv.2)) := by simp [depDefaultsV]
      rw [hall, hmap]
      simp only [CV.Short.dependsMap]
      cases ht : CV.Short.dependsMap t with
      | ok r' =>
        obtain ⟨h1, h2⟩ := (dependsMap_agrees t r').mp ht
        rw [h1, ← h2, dependsDefaults_agrees]
        constructor
        · intro h; cases h; exact ⟨rfl, rfl⟩
        · rintro ⟨_, rfl⟩; rfl
      | err e =>
        simp only [reduceCtorEq, false_iff, not_and]
        intro hall'
        have := (dependsMap_agrees t _).mpr ⟨hall', rfl⟩
        rw [ht] at this; cases this
      | panic e =>
        simp only [reduceCtorEq, false_iff, not_and]
        intro hall'
        have := (dependsMap_agrees t _).mpr ⟨hall', rfl⟩
        rw [ht] at this; cases this
    | _ => simp [CV.Short.dependsMap, isMap]

theorem dependsList_agrees : ∀ (l : List Val) (acc r : KVs),
    CV.Short.dependsList l acc = .ok r ↔
      ((l.all isStr) = true ∧ r = l.foldl (fun acc x => Val.insert (strOf x) shortDep acc) acc)
  | [], acc, r => by simp [CV.Short.dependsList, eq_comm]
  | x :: t, acc, r => by
    cases x with
    | str k =>
      simp only [CV.Short.dependsList, List.all_cons, isStr, Bool.true_and, List.foldl_cons, strOf]
      exact dependsList_agrees t _ r
    | _ => simp [CV.Short.dependsList, isStr]

/-- C03's and C11's models of `transformDependsOn` accept the same inputs with the same results -/
theorem transformDependsOn_agrees (v w : Val) :
    CV.Short.transformDependsOn v = .ok w ↔ transformDependsOn v = .ok w := by
  cases v with
  | map m =>
    simp only [CV.Short.transformDependsOn, transformDependsOn]
    cases hm : CV.Short.dependsMap m with
    | ok r =>
      have := (dependsMap_agrees m r).mp hm
      simp [this.1, this.2]
    | err e =>
      have hn : ¬ (m.all fun kv => isMap kv.2) = true := fun hall => by
        have := (dependsMap_agrees m _).mpr ⟨hall, rfl⟩
        rw [hm] at this; cases this
      simp [hn]
    | panic e =>
      have hn : ¬ (m.all fun kv => isMap kv.2) = true := fun hall => by
        have := (dependsMap_agrees m _).mpr ⟨hall, rfl⟩
        rw [hm] at this; cases this
      simp [hn]
  | seq l =>
    simp only [CV.Short.transformDependsOn, transformDependsOn]
    cases hl : CV.Short.dependsList l [] with
    | ok r =>
      have := (dependsList_agrees l [] r).mp hl
      simp [this.1, this.2]
    | err e =>
      have hn : ¬ (l.all isStr) = true := fun hall => by
        have := (dependsList_agrees l [] _).mpr ⟨hall, rfl⟩
        rw [hl] at this; cases this
      simp [hn]
    | panic e =>
      have hn : ¬ (l.all isStr) = true := fun hall => by
        have := (dependsList_agrees l [] _).mpr ⟨hall, rfl⟩
        rw [hl] at this; cases this
      simp [hn]
  | _ => simp [CV.Short.transformDependsOn, transformDependsOn]

end CV.C11
