import ComposeVerif.Lemmas.C01Dep
/-!
Soundness of the cycle that `graph.checkCycle` reports (round 5): the list in `dependency cycle detected: a -> b -> a`
is a walk along edges of the graph that starts and ends at the same vertex — so an error of this class is never a
false alarm — and a vertex on such a walk can be followed forever (`CanLoop`), which closes the equivalence with
`dependsOn_cycle_err`.

Invariant of `searchCycle(path, v)`: `path` is a walk of the graph and its last element is `v`.
-/
namespace CV.C01.Dep

variable {α : Type} [DecidableEq α]

/-- consecutive elements are joined by edges -/
def Walk (g : G α) : List α → Prop
  | [] => True
  | [_] => True
  | a :: b :: r => b ∈ children g a ∧ Walk g (b :: r)

/-- what the error message must denote: a walk of at least one edge from a vertex back to itself -/
def IsCycle (g : G α) (p : List α) : Prop :=
  Walk g p ∧ 2 ≤ p.length ∧ p.head? = p.getLast?

theorem Walk.tail {g : G α} {a : α} {l : List α} (h : Walk g (a :: l)) : Walk g l := by
  cases l with
  | nil => trivial
  | cons b r => exact h.2

theorem Walk.append_singleton {g : G α} : ∀ {p : List α} {v c : α},
    Walk g p → p.getLast? = some v → c ∈ children g v → Walk g (p ++ [c])
  | [], _, _, _, hl, _ => by simp at hl
  | [a], v, c, _, hl, hc => by
    simp only [List.getLast?_singleton, Option.some.injEq] at hl
    subst hl
    exact ⟨hc, trivial⟩
  | a :: b :: r, v, c, hw, hl, hc => by
    have hl' : (b :: r).getLast? = some v := by rw [List.getLast?_cons_cons] at hl; exact hl
    exact ⟨hw.1, Walk.append_singleton (p := b :: r) hw.2 hl' hc⟩

theorem Walk.dropWhile {g : G α} (f : α → Bool) : ∀ {p : List α}, Walk g p → Walk g (p.dropWhile f)
  | [], _ => trivial
  | a :: l, h => by
    rw [List.dropWhile_cons]
    split
    · exact Walk.dropWhile f h.tail
    · exact h

/-- dropping the prefix before the first occurrence of `name` keeps the last element and puts `name` first -/
theorem dropWhile_ne_spec (name : α) : ∀ (p : List α), name ∈ p →
    (p.dropWhile (· ≠ name)).head? = some name ∧ (p.dropWhile (· ≠ name)).getLast? = p.getLast? ∧
      1 ≤ (p.dropWhile (· ≠ name)).length
  | [], h => by cases h
  | a :: l, h => by
    rw [List.dropWhile_cons]
    by_cases e : a = name
    · subst e
      simp
    · have hin : name ∈ l := by
        cases h with
        | head => exact absurd rfl e
        | tail _ h => exact h
      have ih := dropWhile_ne_spec name l hin
      simp only [ne_eq, e, not_false_eq_true, decide_true, if_true]
      refine ⟨ih.1, ?_, ih.2.2⟩
      rw [ih.2.1]
      cases l with
      | nil => cases hin
      | cons b r => rw [List.getLast?_cons_cons]

/-- the list built at the report site is a cycle of the graph -/
theorem report_isCycle {g : G α} {path : List α} {v name : α}
    (hw : Walk g path) (hl : path.getLast? = some v) (hc : name ∈ children g v) (hin : name ∈ path) :
    IsCycle g (path.dropWhile (· ≠ name) ++ [name]) := by
  obtain ⟨hh, hlast, hlen⟩ := dropWhile_ne_spec name path hin
  refine ⟨Walk.append_singleton (Walk.dropWhile _ hw) (hlast.trans hl) hc, ?_, ?_⟩
  · simp only [List.length_append, List.length_singleton]; omega
  · rw [List.getLast?_append]
    cases hd : List.dropWhile (fun x => decide (x ≠ name)) path with
    | nil => rw [hd] at hlen; simp at hlen
    | cons x r =>
      rw [hd] at hh
      simp only [List.head?_cons, Option.some.injEq] at hh
      subst hh
      simp

theorem searchChildren_sound (g : G α) (search : List α → α → R α) (path : List α) (v : α)
    (hw : Walk g path) (hl : path.getLast? = some v) :
    ∀ (cs : List α), (∀ c ∈ cs, c ∈ children g v) →
      (∀ c ∈ cs, ∀ p, search (path ++ [c]) c = .cycle p → IsCycle g p) →
      ∀ p, searchChildren search path cs = .cycle p → IsCycle g p
  | [], _, _, p, h => by unfold searchChildren at h; cases h
  | name :: rest, hcs, hs, p, h => by
    unfold searchChildren at h
    split at h
    · rename_i hin
      cases h
      exact report_isCycle hw hl (hcs name (List.mem_cons_self ..)) hin
    · split at h
      · exact searchChildren_sound g search path v hw hl rest
          (fun c hc => hcs c (List.mem_cons_of_mem _ hc)) (fun c hc => hs c (List.mem_cons_of_mem _ hc)) p h
      · exact hs name (List.mem_cons_self ..) p h

theorem searchCycle_sound (g : G α) : ∀ (fuel : Nat) (path : List α) (v : α),
    Walk g path → path.getLast? = some v → ∀ p, searchCycle g fuel path v = .cycle p → IsCycle g p
  | 0, _, _, _, _, p, h => by unfold searchCycle at h; cases h
  | fuel + 1, path, v, hw, hl, p, h => by
    unfold searchCycle at h
    refine searchChildren_sound g (searchCycle g fuel) path v hw hl (children g v) (fun _ hc => hc) ?_ p h
    intro c hc q hq
    exact searchCycle_sound g fuel (path ++ [c]) c (Walk.append_singleton hw hl hc) (by simp) q hq

theorem checkFrom_sound (g : G α) (fuel : Nat) : ∀ (vs : List α) (p : List α),
    checkFrom g fuel vs = .cycle p → IsCycle g p
  | [], p, h => by unfold checkFrom at h; cases h
  | v :: rest, p, h => by
    unfold checkFrom at h
    split at h
    · exact checkFrom_sound g fuel rest p h
    · exact searchCycle_sound g fuel [v] v trivial rfl p h

/-! a reported cycle can be followed forever -/

theorem Walk.reach {g : G α} : ∀ {p : List α} {a z : α}, Walk g (a :: p) → (a :: p).getLast? = some z → Reach g a z
  | [], a, z, _, hl => by
    simp only [List.getLast?_singleton, Option.some.injEq] at hl
    subst hl
    exact .refl _
  | b :: r, a, z, hw, hl => by
    rw [List.getLast?_cons_cons] at hl
    exact .step hw.1 (Walk.reach hw.2 hl)

theorem IsCycle.canLoop {g : G α} {p : List α} (h : IsCycle g p) : ∃ v, p.head? = some v ∧ CanLoop g v := by
  obtain ⟨hw, hlen, hhl⟩ := h
  match p, hw, hlen, hhl with
  | a :: b :: r, hw, _, hhl =>
    refine ⟨a, rfl, a, .refl _, b, hw.1, ?_⟩
    have hl : (b :: r).getLast? = some a := by
      rw [List.getLast?_cons_cons] at hhl
      simpa using hhl.symm
    exact Walk.reach hw.2 hl

/-- every vertex of a walk that starts at a vertex of a closed graph is a vertex -/
theorem Walk.verts {g : G α} (hg : Closed g) : ∀ {p : List α} {a : α}, Walk g (a :: p) → a ∈ verts g → ∀ x ∈ a :: p, x ∈ verts g
  | [], a, _, ha, x, hx => by simp only [List.mem_singleton] at hx; subst hx; exact ha
  | b :: r, a, hw, ha, x, hx => by
    cases hx with
    | head => exact ha
    | tail _ hx => exact Walk.verts hg hw.2 (hg a b hw.1) x hx

/-- the end of a walk of at least one edge in a closed graph is a vertex -/
theorem Walk.last_mem_verts {g : G α} (hg : Closed g) : ∀ {p : List α} {a z : α},
    Walk g (a :: p) → p ≠ [] → (a :: p).getLast? = some z → z ∈ Dep.verts g
  | [], _, _, _, hne, _ => absurd rfl hne
  | [b], a, z, hw, _, hl => by
    rw [List.getLast?_cons_cons, List.getLast?_singleton] at hl
    cases hl
    exact hg a _ hw.1
  | b :: c :: r, a, z, hw, _, hl => by
    rw [List.getLast?_cons_cons] at hl
    exact Walk.last_mem_verts hg (p := c :: r) hw.2 (by simp) hl

theorem IsCycle.canLoop_vertex {g : G α} (hg : Closed g) {p : List α} (h : IsCycle g p) :
    ∃ v, v ∈ Dep.verts g ∧ CanLoop g v := by
  obtain ⟨v, hv, hc⟩ := h.canLoop
  refine ⟨v, ?_, hc⟩
  obtain ⟨hw, hlen, hhl⟩ := h
  match p, hw, hlen, hhl, hv with
  | a :: b :: r, hw, _, hhl, hv =>
    simp only [List.head?_cons, Option.some.injEq] at hv
    subst hv
    exact Walk.last_mem_verts hg hw (by simp) (by simpa using hhl.symm)

end CV.C01.Dep
