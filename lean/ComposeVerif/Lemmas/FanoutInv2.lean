import ComposeVerif.Lemmas.FanoutInv
/-! Preservation of the counting and outcome fields of `CV.Fanout.Inv`. -/
namespace CV.Fanout

variable {cfg : Cfg} {s s' : St} {l : Label}

theorem expectCount_step (hN : cfg.svcs.Nodup) (hI : Inv cfg s) (h : step? cfg s l = some s') :
    s'.expect + (cfg.svcs.filter (fun v => s'.item v == .stored)).length = cfg.svcs.length := by
  have h0 := hI.expectCount
  cases l with
  | wSend v =>
    unfold_step h
    have hv : (s.item v == .stored) = false := by
      cases hs : s.item v <;> simp
      rcases hI.itemW v (by simp [hs]) with h | h <;> simp_all
    rw [filter_set_same cfg.svcs s.item v .inCh (fun i => i == .stored) (by simp [hv])]
    exact h0
  | cRecv =>
    unfold_step h
    rename_i v r rest hc hch
    have hv : (s.item v == .stored) = false := by
      rw [(hI.chItem v r (by simp [hch])).1]; rfl
    rw [filter_set_same cfg.svcs s.item v .got (fun i => i == .stored) (by simp [hv])]
    exact h0
  | cStore =>
    unfold_step h
    all_goals (
      rename_i v r hc _
      have hi := (hI.gotItem v r hc).1
      have hv : v ∈ cfg.svcs := hI.wSvcs v (by rcases hI.itemW v (by simp [hi]) with h | h <;> simp [h])
      have hp := hI.cPos (.inr ⟨v, r, hc⟩)
      rw [filter_set_gain cfg.svcs hN v hv s.item .stored (fun i => i == .stored) (by simp [hi]) (by simp)]
      omega)
  | _ => unfold_step h <;> exact h0

theorem chCount_step (hN : cfg.svcs.Nodup) (hI : Inv cfg s) (h : step? cfg s l = some s') :
    s'.ch.length + gotBit s'.c + cfg.svcs.length
      = (cfg.svcs.filter (fun v => sentOrExited (s'.w v))).length + s'.expect := by
  have h0 := hI.chCount
  cases l with
  | mSpawnC => unfold_step h <;> simp_all [gotBit]
  | mSpawn v =>
    unfold_step h
    rename_i todo hm hv
    have hi := ((hI.todo todo hm).2 v hv).2
    rw [filter_set_same cfg.svcs s.w v .start sentOrExited (by simp [hi, sentOrExited])]
    exact h0
  | wBegin v =>
    unfold_step h
    rw [filter_set_same cfg.svcs s.w v .running sentOrExited (by simp [*, sentOrExited])]
    exact h0
  | wReturn v =>
    unfold_step h
    rw [filter_set_same cfg.svcs s.w v .returned sentOrExited (by simp [*, sentOrExited])]
    exact h0
  | wFail v =>
    unfold_step h
    all_goals (
      rw [filter_set_same cfg.svcs s.w v .failed sentOrExited (by simp [*, sentOrExited])]
      exact h0)
  | wExit v =>
    unfold_step h
    rw [filter_set_same cfg.svcs s.w v .exited sentOrExited (by simp [*, sentOrExited])]
    exact h0
  | wSend v =>
    unfold_step h
    have hv : v ∈ cfg.svcs := hI.wSvcs v (by simp [*])
    rw [filter_set_gain cfg.svcs hN v hv s.w .sent sentOrExited (by simp [*, sentOrExited]) (by simp [sentOrExited])]
    simp only [List.length_append, List.length_cons, List.length_nil]
    omega
  | cRecv =>
    unfold_step h
    rename_i v r rest hc hch
    simp only [hc, hch, gotBit, List.length_cons] at h0 ⊢
    omega
  | cStore =>
    unfold_step h
    all_goals (
      rename_i v r hc _
      have hp := hI.cPos (.inr ⟨v, r, hc⟩)
      simp only [hc, gotBit] at h0 ⊢
      omega)
  | cCtxDone | cReturn | cExit => unfold_step h <;> simp_all [gotBit]
  | _ => unfold_step h <;> exact h0

theorem cancelIff_step (hI : Inv cfg s) (h : step? cfg s l = some s') :
    s'.cancelled = true ↔ s'.firstErr ≠ none := by
  have h0 := hI.cancelIff
  cases l with
  | wFail v => unfold_step h <;> simp_all
  | _ => unfold_step h <;> exact h0

theorem errFails_step (hI : Inv cfg s) (h : step? cfg s l = some s') : s'.firstErr = s'.fails.head? := by
  have h0 := hI.errFails
  cases l with
  | wFail v =>
    unfold_step h
    · rename_i e he
      rw [he] at h0
      cases hf : s.fails with
      | nil => rw [hf] at h0; cases h0
      | cons a t => rw [hf] at h0; simpa using h0
    · rename_i he
      rw [he] at h0
      cases hf : s.fails with
      | nil => simp
      | cons a t => rw [hf] at h0; cases h0
  | _ => unfold_step h <;> exact h0

theorem failsW_step (hI : Inv cfg s) (h : step? cfg s l = some s') : ∀ v, v ∈ s'.fails ↔ s'.w v = .failed := by
  intro u
  have h0 := hI.failsW u
  cases l with
  | mSpawn v =>
    unfold_step h
    rename_i todo hm hv
    by_cases e : u = v
    · subst e
      have := ((hI.todo todo hm).2 u hv).2
      simp_all
    · rw [set_other _ _ e]; exact h0
  | wFail v =>
    unfold_step h
    all_goals (
      by_cases e : u = v
      · subst e; simp
      · rw [set_other _ _ e]; simp [e, h0])
  | wBegin v | wReturn v | wSend v | wExit v =>
    unfold_step h
    all_goals (
      by_cases e : u = v
      · subst e; simp_all
      · rw [set_other _ _ e]; exact h0)
  | _ => unfold_step h <;> exact h0

theorem failedFn_step (hI : Inv cfg s) (h : step? cfg s l = some s') : ∀ v, s'.w v = .failed → cfg.fn v = none := by
  intro u hu
  have h0 := hI.failedFn u
  cases l with
  | mSpawn v | wBegin v | wReturn v | wSend v | wExit v | wFail v =>
    unfold_step h
    all_goals (
      by_cases e : u = v
      · subst e; simp_all
      · rw [set_other _ _ e] at hu; exact h0 hu)
  | _ => unfold_step h <;> exact h0 hu

theorem cDone_step (hI : Inv cfg s) (h : step? cfg s l = some s') : s'.c = .done → s'.cancelled = true := by
  intro hu
  have h0 := hI.cDone
  cases l with
  | _ => unfold_step h <;> simp_all

theorem svcNone_step (hI : Inv cfg s) (h : step? cfg s l = some s') : s'.c ≠ .gone → s'.services = none := by
  intro hu
  have h0 := hI.svcNone
  cases l with
  | _ => unfold_step h <;> simp_all

theorem gone_step (hI : Inv cfg s) (h : step? cfg s l = some s') :
    s'.c = .gone → (s'.services = some s'.acc ∧ s'.expect = 0) ∨ (s'.services = none ∧ s'.cancelled = true) := by
  intro hu
  have h0 := hI.gone
  have h1 := hI.svcNone
  have h2 := hI.cFin
  cases l with
  | wFail v =>
    unfold_step h
    all_goals (
      rcases h0 hu with h | h
      · exact .inl h
      · exact .inr ⟨h.1, rfl⟩)
  | cReturn => unfold_step h; exact .inr ⟨h1 (by simp [*]), hI.cDone ‹_›⟩
  | cExit => unfold_step h; exact .inl ⟨rfl, h2 ‹_›⟩
  | _ => unfold_step h <;> simp_all

theorem ret_step (hI : Inv cfg s) (h : step? cfg s l = some s') :
    s'.m = .returned → s'.c = .gone ∧ ∀ v ∈ cfg.svcs, live (s'.w v) = false := by
  intro hu
  have h0 := hI.ret
  cases l with
  | mReturn =>
    unfold_step h
    rename_i hall
    refine ⟨‹_›, fun v hv => ?_⟩
    have := List.all_eq_true.mp hall v hv
    simpa using this
  | mSpawn v | wBegin v | wReturn v | wSend v | wExit v | wFail v =>
    unfold_step h
    all_goals (
      first
      | (cases hu; done)
      | (obtain ⟨hc, hl⟩ := h0 hu
         refine ⟨hc, fun u hm => ?_⟩
         by_cases e : u = v
         · subst e
           have := hl u hm
           simp_all [live]
         · rw [set_other _ _ e]; exact hl u hm))
  | _ => unfold_step h <;> simp_all

theorem callsW_step (hI : Inv cfg s) (h : step? cfg s l = some s') :
    ∀ v, v ∈ s'.calls ↔ (s'.w v ≠ .idle ∧ s'.w v ≠ .start) := by
  intro u
  have h0 := hI.callsW u
  cases l with
  | mSpawn v =>
    unfold_step h
    rename_i todo hm hv
    by_cases e : u = v
    · subst e
      have := ((hI.todo todo hm).2 u hv).2
      simp_all
    · rw [set_other _ _ e]; exact h0
  | wBegin v =>
    unfold_step h
    by_cases e : u = v
    · subst e; simp
    · rw [set_other _ _ e]; simp [e, h0]
  | wReturn v | wSend v | wExit v | wFail v =>
    unfold_step h
    all_goals (
      by_cases e : u = v
      · subst e; simp_all
      · rw [set_other _ _ e]; exact h0)
  | _ => unfold_step h <;> exact h0

theorem callsNodup_step (hI : Inv cfg s) (h : step? cfg s l = some s') : s'.calls.Nodup := by
  have h0 := hI.callsNodup
  cases l with
  | wBegin v =>
    unfold_step h
    rw [List.nodup_append]
    refine ⟨h0, by simp, ?_⟩
    intro a ha b hb
    simp at hb; subst hb
    intro e; subst e
    have := (hI.callsW a).mp ha
    simp_all
  | _ => unfold_step h <;> exact h0

theorem inv_step (hN : cfg.svcs.Nodup) (hI : Inv cfg s) (h : step? cfg s l = some s') : Inv cfg s' where
  wSvcs := wSvcs_step hI h
  cStart := cStart_step hI h
  pre := pre_step hI h
  todo := todo_step hN hI h
  todoAll := todoAll_step hI h
  waitAll := waitAll_step hI h
  itemW := itemW_step hI h
  chItem := chItem_step hI h
  chNodup := chNodup_step hI h
  gotItem := gotItem_step hI h
  accItem := accItem_step hI h
  accFn := accFn_step hI h
  expectCount := expectCount_step hN hI h
  chCount := chCount_step hN hI h
  cPos := cPos_step hI h
  cFin := cFin_step hI h
  cDone := cDone_step hI h
  cancelIff := cancelIff_step hI h
  errFails := errFails_step hI h
  failsW := failsW_step hI h
  failedFn := failedFn_step hI h
  gone := gone_step hI h
  svcNone := svcNone_step hI h
  ret := ret_step hI h
  callsNodup := callsNodup_step hI h
  callsW := callsW_step hI h

theorem inv_reach (hN : cfg.svcs.Nodup) (hR : Reach cfg s) : Inv cfg s := by
  induction hR with
  | init => exact inv_init cfg
  | step _ h ih => exact inv_step hN ih h

end CV.Fanout
