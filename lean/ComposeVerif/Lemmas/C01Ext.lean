import ComposeVerif.Lemmas.C01Dep
/-!
Helper lemmas for C01: the `extends` recursion (`applyServiceExtends`) terminates because the tracker is a
duplicate-free list over a finite refUniverse of `(file, service)` references.
-/
namespace CV.C01.Ext

def names (s : Services) : List String := s.map Prod.fst

def svcFiles : Svc → List String
  | .ext (.map _ (.str f)) => [f]
  | _ => []

def files (s : Services) : List String := s.flatMap (fun p => svcFiles p.2)

def fsNames (fs : FS) : List String :=
  fs.flatMap (fun p => match p.2 with | .services s => names s | _ => [])

def fsFiles (fs : FS) : List String :=
  fs.flatMap (fun p => match p.2 with | .services s => files s | _ => [])

def allNames (fs : FS) (svcs0 : Services) : List String := names svcs0 ++ fsNames fs

def allFiles (fs : FS) (main : String) (svcs0 : Services) : List String := main :: (files svcs0 ++ fsFiles fs)

/-- every `(file, service)` reference the tracker can ever be handed -/
def refUniverse (fs : FS) (main : String) (svcs0 : Services) : List Ref :=
  (allFiles fs main svcs0).flatMap (fun f => (allNames fs svcs0).map (fun n => (⟨f, n⟩ : Ref)))

theorem mem_universe {fs : FS} {main : String} {svcs0 : Services} {f n : String}
    (hf : f ∈ allFiles fs main svcs0) (hn : n ∈ allNames fs svcs0) : (⟨f, n⟩ : Ref) ∈ refUniverse fs main svcs0 := by
  simp only [refUniverse, List.mem_flatMap, List.mem_map]
  exact ⟨f, hf, n, hn, rfl⟩

/-- a services map whose names and `extends.file` strings all belong to the refUniverse -/
def Inv (fs : FS) (main : String) (svcs0 : Services) (s : Services) : Prop :=
  (∀ n ∈ names s, n ∈ allNames fs svcs0) ∧ (∀ f ∈ files s, f ∈ allFiles fs main svcs0)

theorem lookup_mem_names {α : Type} : ∀ (s : List (String × α)) (k : String) (v : α), lookup k s = some v → k ∈ s.map Prod.fst
  | [], _, _, h => by simp [lookup] at h
  | (k', v') :: r, k, v, h => by
    unfold lookup at h
    split at h
    · rename_i hk; subst hk; simp
    · have := lookup_mem_names r k v h
      simp only [List.map_cons, List.mem_cons]
      exact Or.inr this

theorem lookup_mem {α : Type} : ∀ (s : List (String × α)) (k : String) (v : α), lookup k s = some v → (k, v) ∈ s
  | [], _, _, h => by simp [lookup] at h
  | (k', v') :: r, k, v, h => by
    unfold lookup at h
    split at h
    · rename_i hk; subst hk; cases h; simp
    · exact List.mem_cons_of_mem _ (lookup_mem r k v h)

theorem lookup_file_mem (s : Services) (k : String) (sf : Fld) (f : String)
    (h : lookup k s = some (.ext (.map sf (.str f)))) : f ∈ files s := by
  have := lookup_mem s k _ h
  simp only [files, List.mem_flatMap]
  exact ⟨_, this, by simp [svcFiles]⟩

theorem names_setKey : ∀ (s : Services) (k : String) (v : Svc), ∀ n ∈ names (setKey k v s), n = k ∨ n ∈ names s
  | [], k, v, n, h => by
    simp only [setKey, names, List.map_cons, List.map_nil, List.mem_singleton] at h
    exact Or.inl h
  | (k', v') :: r, k, v, n, h => by
    unfold setKey at h
    split at h
    · simp only [names, List.map_cons, List.mem_cons] at h ⊢
      rcases h with h | h
      · exact Or.inl h
      · exact Or.inr (Or.inr h)
    · simp only [names, List.map_cons, List.mem_cons] at h ⊢
      rcases h with h | h
      · exact Or.inr (Or.inl h)
      · rcases names_setKey r k v n h with h' | h'
        · exact Or.inl h'
        · exact Or.inr (Or.inr h')

theorem files_setKey_plain : ∀ (s : Services) (k : String), ∀ f ∈ files (setKey k .plain s), f ∈ files s
  | [], k, f, h => by
    simp [setKey, files, svcFiles] at h
  | (k', v') :: r, k, f, h => by
    unfold setKey at h
    split at h
    · simp only [files, List.flatMap_cons, List.mem_append, svcFiles] at h ⊢
      rcases h with h | h
      · simp at h
      · exact Or.inr h
    · simp only [files, List.flatMap_cons, List.mem_append] at h ⊢
      rcases h with h | h
      · exact Or.inl h
      · exact Or.inr (files_setKey_plain r k f h)

theorem Inv.setKey_plain {fs : FS} {main : String} {svcs0 s : Services} {k : String}
    (h : Inv fs main svcs0 s) (hk : k ∈ allNames fs svcs0) : Inv fs main svcs0 (setKey k .plain s) := by
  refine ⟨?_, ?_⟩
  · intro n hn
    rcases names_setKey s k .plain n hn with h' | h'
    · exact h' ▸ hk
    · exact h.1 n h'
  · intro f hf
    exact h.2 f (files_setKey_plain s k f hf)

theorem canon_names_files : ∀ (raw other : Services), canonServices raw = .ok other →
    names other = names raw ∧ files other = files raw
  | [], other, h => by
    simp only [canonServices] at h
    cases h
    exact ⟨rfl, rfl⟩
  | (n, s) :: r, other, h => by
    unfold canonServices at h
    split at h
    · cases h
    · cases h
    · rename_i ref r' hr
      cases h
      obtain ⟨h1, h2⟩ := canon_names_files r r' hr
      simp only [names, files, List.map_cons, List.flatMap_cons, svcFiles] at h1 h2 ⊢
      exact ⟨by rw [h1], by rw [h2]⟩
    · rename_i r' _ _ hr
      cases h
      obtain ⟨h1, h2⟩ := canon_names_files r r' hr
      simp only [names, files, List.map_cons, List.flatMap_cons] at h1 h2 ⊢
      exact ⟨by rw [h1], by rw [h2]⟩

theorem fs_names_files (fs : FS) (f : String) (raw : Services) (h : lookup f fs = some (.services raw)) :
    (∀ n ∈ names raw, n ∈ fsNames fs) ∧ (∀ x ∈ files raw, x ∈ fsFiles fs) := by
  have hm := lookup_mem fs f _ h
  refine ⟨?_, ?_⟩
  · intro n hn
    simp only [fsNames, List.mem_flatMap]
    exact ⟨_, hm, hn⟩
  · intro x hx
    simp only [fsFiles, List.mem_flatMap]
    exact ⟨_, hm, hx⟩

theorem parse_file {e : ExtVal} {ref f : String} (h : parse e = .ok (ref, some f)) : e = .map (.str ref) (.str f) := by
  unfold parse at h
  split at h <;> simp_all

/-- what `locate` returns stays inside the refUniverse -/
theorem locate_ok {fs : FS} {main cur : String} {svcs0 svcs : Services} {name : String} {e : ExtVal}
    {ref file : String} {target : Option Services}
    (hinv : Inv fs main svcs0 svcs) (hcur : cur ∈ allFiles fs main svcs0) (hl : lookup name svcs = some (.ext e))
    (h : locate fs cur svcs e = .ok (ref, file, target)) :
    file ∈ allFiles fs main svcs0 ∧ Inv fs main svcs0 (target.getD svcs) := by
  unfold locate at h
  split at h
  · cases h
  · -- no file
    split at h
    · cases h
    · cases h
      exact ⟨hcur, hinv⟩
  · rename_i ref' f hp
    have he := parse_file hp
    subst he
    have hf : f ∈ allFiles fs main svcs0 := hinv.2 f (lookup_file_mem svcs name _ f hl)
    split at h
    · cases h
    · cases h
    · cases h
    · rename_i raw hraw
      split at h
      · cases h
      · rename_i other hcan
        split at h
        · cases h
        · split at h
          · cases h
          · cases h
            obtain ⟨hn, hfl⟩ := canon_names_files raw other hcan
            obtain ⟨h1, h2⟩ := fs_names_files fs _ raw hraw
            refine ⟨hf, ?_, ?_⟩
            · intro n hnm
              simp only [Option.getD_some] at hnm
              rw [hn] at hnm
              exact List.mem_append.mpr (Or.inr (h1 n hnm))
            · intro x hx
              simp only [Option.getD_some] at hx
              rw [hfl] at hx
              exact List.mem_cons_of_mem _ (List.mem_append.mpr (Or.inr (h2 x hx)))

/-- the recursion never runs out of fuel once the fuel exceeds the room left in the refUniverse,
and the services map it hands back stays inside the refUniverse -/
theorem resolve_ne_fuel (fs : FS) (main : String) (svcs0 : Services) :
    ∀ (fuel : Nat) (cur : String) (svcs : Services) (name : String) (tr : Tracker),
      cur ∈ allFiles fs main svcs0 →
      Inv fs main svcs0 svcs → tr.Nodup → (∀ r ∈ tr, r ∈ refUniverse fs main svcs0) →
      (refUniverse fs main svcs0).length - tr.length < fuel →
      (resolve fs cur fuel svcs name tr).1 ≠ .outOfFuel ∧ Inv fs main svcs0 (resolve fs cur fuel svcs name tr).2.2
  | 0, _, _, _, _, _, _, _, _, hf => by omega
  | fuel + 1, cur, svcs, name, tr, hcur, hinv, hn, hsub, hf => by
    unfold resolve
    split
    · exact ⟨by simp, hinv⟩
    · exact ⟨by simp, hinv⟩
    · exact ⟨by simp, hinv⟩
    · exact ⟨by simp, hinv⟩
    · rename_i e hl
      have hname : name ∈ allNames fs svcs0 := hinv.1 name (lookup_mem_names svcs name _ hl)
      split
      · rename_i r hloc
        refine ⟨?_, hinv⟩
        -- `locate` only fails with an error or a panic
        unfold locate at hloc
        intro hr
        simp only at hr
        subst hr
        repeat' split at hloc
        all_goals simp_all
      · rename_i ref file target hloc
        obtain ⟨hfile, hinv'⟩ := locate_ok hinv hcur hl hloc
        split
        · exact ⟨by simp, hinv⟩
        · rename_i tr' hadd
          obtain ⟨htr', hnot⟩ := Tracker.add_some hadd
          have hn' : tr'.Nodup := Tracker.add_nodup hn hadd
          have hsub' : ∀ r ∈ tr', r ∈ refUniverse fs main svcs0 := by
            intro r hr
            rw [htr'] at hr
            rcases List.mem_append.mp hr with h | h
            · exact hsub r h
            · simp only [List.mem_singleton] at h; subst h; exact mem_universe hcur hname
          have hlen := nodup_subset_length _ _ hn' hsub'
          have hlen' : tr'.length = tr.length + 1 := by rw [htr']; simp
          have ih := resolve_ne_fuel fs main svcs0 fuel file (target.getD svcs) ref tr' hfile hinv' hn' hsub' (by omega)
          generalize hres : resolve fs file fuel (target.getD svcs) ref tr' = res at ih
          obtain ⟨r1, b, s'⟩ := res
          simp only at ih
          have hinvr : Inv fs main svcs0 (if target.isSome = true then svcs else s') := by
            split
            · exact hinv
            · exact ih.2
          cases r1 with
          | ok =>
            cases b with
            | true => exact ⟨by simp, hinvr⟩
            | false => exact ⟨by simp, hinvr.setKey_plain hname⟩
          | err c => exact ⟨by simp, hinvr⟩
          | panic s => exact ⟨by simp, hinvr⟩
          | outOfFuel => exact absurd rfl ih.1

end CV.C01.Ext

namespace CV.C01.Ext

/-- `ApplyExtends` over any order of the services: enough fuel for one service is enough for all -/
theorem applyExtends_ne_fuel (fs : FS) (main : String) (svcs0 : Services) (fuel : Nat)
    (hf : (refUniverse fs main svcs0).length < fuel) :
    ∀ (order : List String) (svcs : Services), Inv fs main svcs0 svcs → applyExtends fs main fuel order svcs ≠ .outOfFuel
  | [], _, _ => by unfold applyExtends; intro h; cases h
  | n :: rest, svcs, hinv => by
    unfold applyExtends
    have h := resolve_ne_fuel fs main svcs0 fuel main svcs n [] (List.mem_cons_self ..) hinv List.nodup_nil (by intro r hr; cases hr) (by simpa using hf)
    generalize resolve fs main fuel svcs n [] = res at h
    obtain ⟨r1, b, s'⟩ := res
    simp only at h
    cases r1 with
    | ok => exact applyExtends_ne_fuel fs main svcs0 fuel hf rest s' h.2
    | err c => intro e; cases e
    | panic s => intro e; cases e
    | outOfFuel => exact absurd rfl h.1

theorem inv_self (fs : FS) (main : String) (svcs0 : Services) : Inv fs main svcs0 svcs0 :=
  ⟨fun _ hn => List.mem_append.mpr (Or.inl hn), fun _ hf => List.mem_cons_of_mem _ (List.mem_append.mpr (Or.inl hf))⟩

/-! ### a chain of `extends` that never ends is never accepted -/

/-- one step of the chain: the service has an `extends` that can be located -/
def next (fs : FS) (main : String) (st : Services × String) : Option (Services × String) :=
  match lookup st.2 st.1 with
  | some (.ext e) =>
    match locate fs main st.1 e with
    | .ok (ref, _, target) => some (target.getD st.1, ref)
    | .error _ => none
  | _ => none

def iter (fs : FS) (main : String) : Nat → Services × String → Option (Services × String)
  | 0, st => some st
  | k + 1, st => (next fs main st).bind (iter fs main k)

/-- the chain starting at `st` can be followed forever (on finite files: it runs into a cycle) -/
def Forever (fs : FS) (main : String) (st : Services × String) : Prop :=
  ∀ k, (iter fs main k st).isSome

theorem Forever.step {fs : FS} {main : String} {st : Services × String} (h : Forever fs main st) :
    ∃ st', next fs main st = some st' ∧ Forever fs main st' := by
  have h1 := h 1
  simp only [iter] at h1
  cases hn : next fs main st with
  | none => simp [hn] at h1
  | some st' =>
    refine ⟨st', rfl, ?_⟩
    intro k
    have := h (k + 1)
    simpa [iter, hn] using this

theorem forever_of_fixpoint {fs : FS} {main : String} {st : Services × String} (h : next fs main st = some st) :
    Forever fs main st := by
  intro k
  induction k with
  | zero => simp [iter]
  | succ k ih => simpa [iter, h] using ih

/-- where a reference points does not depend on the current file's name (only the tracker key does) -/
theorem locate_irrel (fs : FS) (m1 m2 : String) (svcs : Services) (e : ExtVal) :
    (match locate fs m1 svcs e with | .ok (ref, _, target) => some (ref, target) | .error _ => none) =
    (match locate fs m2 svcs e with | .ok (ref, _, target) => some (ref, target) | .error _ => none) := by
  unfold locate
  cases parse e with
  | error c => rfl
  | ok v =>
    obtain ⟨ref, fo⟩ := v
    cases fo with
    | none => simp only; cases lookup ref svcs <;> rfl
    | some f => rfl

theorem next_irrel (fs : FS) (m1 m2 : String) (st : Services × String) : next fs m1 st = next fs m2 st := by
  unfold next
  split
  · rename_i e _
    have h := locate_irrel fs m1 m2 st.1 e
    cases h1 : locate fs m1 st.1 e with
    | error r1 =>
      cases h2 : locate fs m2 st.1 e with
      | error r2 => rfl
      | ok v2 => obtain ⟨a, b, c⟩ := v2; simp [h1, h2] at h
    | ok v1 =>
      obtain ⟨a1, b1, c1⟩ := v1
      cases h2 : locate fs m2 st.1 e with
      | error r2 => simp [h1, h2] at h
      | ok v2 =>
        obtain ⟨a2, b2, c2⟩ := v2
        simp only [h1, h2, Option.some.injEq, Prod.mk.injEq] at h
        obtain ⟨ha, hc⟩ := h
        subst ha; subst hc; rfl
  · rfl

theorem iter_irrel (fs : FS) (m1 m2 : String) : ∀ (k : Nat) (st : Services × String), iter fs m1 k st = iter fs m2 k st
  | 0, _ => rfl
  | k + 1, st => by
    simp only [iter, next_irrel fs m1 m2 st]
    cases next fs m2 st with
    | none => rfl
    | some st' => simp [iter_irrel fs m1 m2 k st']

theorem Forever.irrel {fs : FS} {m1 : String} (m2 : String) {st : Services × String} (h : Forever fs m1 st) :
    Forever fs m2 st := fun k => iter_irrel fs m1 m2 k st ▸ h k

theorem resolve_forever (fs : FS) : ∀ (fuel : Nat) (main : String) (svcs : Services) (name : String) (tr : Tracker),
    Forever fs main (svcs, name) →
    (resolve fs main fuel svcs name tr).1 = .outOfFuel ∨ (resolve fs main fuel svcs name tr).1 = .err "circular"
  | 0, _, _, _, _, _ => by unfold resolve; exact Or.inl rfl
  | fuel + 1, main, svcs, name, tr, h => by
    obtain ⟨st', hnext, hfor⟩ := h.step
    unfold next at hnext
    simp only at hnext
    split at hnext
    · rename_i e hl
      split at hnext
      · rename_i ref file target hloc
        cases hnext
        unfold resolve
        rw [hl]
        simp only [hloc]
        split
        · exact Or.inr rfl
        · rename_i tr' _
          have ih := resolve_forever fs fuel file (target.getD svcs) ref tr' (hfor.irrel file)
          generalize resolve fs file fuel (target.getD svcs) ref tr' = res at ih
          obtain ⟨r1, b, s'⟩ := res
          simp only at ih
          rcases ih with ih | ih <;> subst ih <;> simp
      · cases hnext
    · cases hnext

end CV.C01.Ext

namespace CV.C01.Ext

theorem iter_add (fs : FS) (main : String) : ∀ (a b : Nat) (st : Services × String),
    iter fs main (a + b) st = (iter fs main a st).bind (iter fs main b)
  | 0, b, st => by simp [iter]
  | a + 1, b, st => by
    rw [show a + 1 + b = (a + b) + 1 by omega]
    simp only [iter]
    cases hn : next fs main st with
    | none => simp
    | some st' => simp [iter_add fs main a b st']

/-- a chain that comes back to its starting state after `k > 0` steps can be followed forever -/
theorem forever_of_period {fs : FS} {main : String} {st : Services × String} (k : Nat) (hk : 0 < k)
    (h : iter fs main k st = some st) : Forever fs main st := by
  have prefix_some : ∀ j, j ≤ k → (iter fs main j st).isSome := by
    intro j hj
    have e := iter_add fs main j (k - j) st
    rw [show j + (k - j) = k by omega, h] at e
    cases hi : iter fs main j st with
    | none => rw [hi] at e; simp at e
    | some _ => simp
  intro n
  induction n using Nat.strongRecOn with
  | _ n ih =>
    by_cases hlt : n < k
    · exact prefix_some n (Nat.le_of_lt hlt)
    · have e := iter_add fs main k (n - k) st
      rw [show k + (n - k) = n by omega, h] at e
      rw [e]
      simp only [Option.bind_some]
      exact ih (n - k) (by omega)

end CV.C01.Ext
