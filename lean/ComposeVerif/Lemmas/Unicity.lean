import ComposeVerif.Model.Unicity
import ComposeVerif.Lemmas.Merge
/-! The `seq` / `keys` loop of `enforceUnicity` = `foldl insert []`: one entry per key, later wins, first position kept. -/
namespace CV.Unicity
open CV CV.Val CV.Merge

/-- the last entry carrying key `k` -/
def lastVal (k : String) : List (String × Val) → Option Val
  | [] => none
  | (k', v) :: r =>
    match lastVal k r with
    | some w => some w
    | none => if k = k' then some v else none

/-- scanning keys left to right, a key is appended the first time it is seen -/
def addKey (ks : List String) (k : String) : List String := if k ∈ ks then ks else ks ++ [k]

def step (acc : KVs) (e : String × Val) : KVs := insert e.1 e.2 acc

theorem dedupKVs_eq (l : List (String × Val)) : dedupKVs l = l.foldl step [] := rfl

theorem lookup_foldl_step (k : String) : ∀ (l : List (String × Val)) (acc : KVs),
    lookup k (l.foldl step acc) = match lastVal k l with | some w => some w | none => lookup k acc := by
  intro l
  induction l with
  | nil => intro acc; simp [lastVal]
  | cons hd tl ih =>
    obtain ⟨k', v⟩ := hd
    intro acc
    simp only [List.foldl_cons, ih, lastVal, step]
    cases h : lastVal k tl with
    | some w => simp
    | none =>
      by_cases hk : k = k'
      · subst hk; simp [lookup_insert_self]
      · simp [hk, lookup_insert_ne hk]

theorem nodup_foldl_step : ∀ (l : List (String × Val)) (acc : KVs), (keys acc).Nodup → (keys (l.foldl step acc)).Nodup := by
  intro l
  induction l with
  | nil => intro acc h; exact h
  | cons hd tl ih => intro acc h; exact ih _ (nodup_keys_insert h)

theorem keys_foldl_step : ∀ (l : List (String × Val)) (acc : KVs),
    keys (l.foldl step acc) = (l.map Prod.fst).foldl addKey (keys acc) := by
  intro l
  induction l with
  | nil => intro acc; rfl
  | cons hd tl ih =>
    intro acc
    simp only [List.foldl_cons, List.map_cons, ih, step, keys_insert, addKey]

theorem foldl_step_of_nodup : ∀ (m acc : KVs), (keys (acc ++ m)).Nodup → m.foldl step acc = acc ++ m := by
  intro m
  induction m with
  | nil => intro acc _; simp
  | cons hd tl ih =>
    obtain ⟨k, v⟩ := hd
    intro acc h
    have hk : k ∉ keys acc := by
      simp only [keys, List.map_append, List.map_cons] at h
      rw [List.nodup_append] at h
      intro hmem
      exact h.2.2 k hmem k (by simp) rfl
    simp only [List.foldl_cons, step, insert_of_not_mem hk]
    rw [ih]
    · simp
    · simpa using h

theorem lastVal_append (k : String) (a b : List (String × Val)) :
    lastVal k (a ++ b) = match lastVal k b with | some w => some w | none => lastVal k a := by
  induction a with
  | nil => simp [lastVal]; cases lastVal k b <;> rfl
  | cons hd tl ih =>
    obtain ⟨k', v⟩ := hd
    simp only [List.cons_append, lastVal, ih]
    cases lastVal k b <;> simp

theorem lastVal_eq_none_iff {k : String} {l : List (String × Val)} : lastVal k l = none ↔ k ∉ l.map Prod.fst := by
  induction l with
  | nil => simp [lastVal]
  | cons hd tl ih =>
    obtain ⟨k', v⟩ := hd
    simp only [lastVal, List.map_cons, List.mem_cons, not_or]
    cases h : lastVal k tl with
    | some w =>
      have : k ∈ tl.map Prod.fst := by
        apply Classical.byContradiction
        intro hn; rw [ih.mpr hn] at h; cases h
      simp only [reduceCtorEq, false_iff, not_and, Classical.not_not]
      intro _; exact this
    | none =>
      have := ih.mp h
      by_cases hk : k = k'
      · simp [hk]
      · simp only [hk, if_false, not_false_eq_true, true_and, true_iff]; exact this

/-! ### the key of a `KEY=VALUE` string -/

theorem takeWhile_append_stop (a b : List Char) (h : ∀ c ∈ a, c ≠ '=') : (a ++ '=' :: b).takeWhile (· ≠ '=') = a := by
  induction a with
  | nil => simp
  | cons x r ih =>
    have hx : x ≠ '=' := h x (by simp)
    simp only [List.cons_append, List.takeWhile_cons, ne_eq, hx, not_false_eq_true, decide_true, if_true]
    rw [ih (fun c hc => h c (by simp [hc]))]
theorem kvKey_entry (k v : String) (h : ∀ c ∈ k.toList, c ≠ '=') : kvKey (k ++ "=" ++ v) = k := by
  unfold kvKey
  have : (k ++ "=" ++ v).toList = k.toList ++ '=' :: v.toList := by
    simp [String.toList_append]
  rw [this, takeWhile_append_stop _ _ h]
  simp
theorem kvKey_bare (k : String) (h : ∀ c ∈ k.toList, c ≠ '=') : kvKey k = k := by
  unfold kvKey
  have : ∀ l : List Char, (∀ c ∈ l, c ≠ '=') → l.takeWhile (· ≠ '=') = l := by
    intro l
    induction l with
    | nil => intro _; rfl
    | cons x r ih =>
      intro hl
      have hx : x ≠ '=' := hl x (by simp)
      simp only [List.takeWhile_cons, ne_eq, hx, not_false_eq_true, decide_true, if_true]
      rw [ih (fun c hc => hl c (by simp [hc]))]
  rw [this _ h]
  simp

end CV.Unicity
