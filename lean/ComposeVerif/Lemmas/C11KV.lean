import ComposeVerif.Model.C11Normalize
import ComposeVerif.Spec.C11
/-! Association-list lemmas used by the C11 proofs. -/
namespace CV.Val

theorem lookup_insert_self (k : String) (v : Val) (m : KVs) : lookup k (insert k v m) = some v := by
  induction m with
  | nil => simp [insert, lookup]
  | cons e r ih =>
    obtain ⟨k', v'⟩ := e
    by_cases h : k = k'
    · simp [insert, lookup, h]
    · simp [insert, lookup, h, ih]

theorem lookup_insert_ne {k k' : String} (h : k' ≠ k) (v : Val) (m : KVs) :
    lookup k' (insert k v m) = lookup k' m := by
  induction m with
  | nil => simp [insert, lookup, h]
  | cons e r ih =>
    obtain ⟨k2, v2⟩ := e
    by_cases h2 : k = k2
    · subst h2; simp [insert, lookup, h]
    · by_cases h3 : k' = k2
      · simp [insert, lookup, h2, h3]
      · simp [insert, lookup, h2, h3, ih]

theorem lookup_insert (k k' : String) (v : Val) (m : KVs) :
    lookup k' (insert k v m) = if k' = k then some v else lookup k' m := by
  by_cases h : k' = k
  · subst h; simp [lookup_insert_self]
  · simp [h, lookup_insert_ne h]

/-- storing the value that is already there changes nothing -/
theorem insert_of_lookup {k : String} {v : Val} {m : KVs} (h : lookup k m = some v) : insert k v m = m := by
  induction m with
  | nil => simp [lookup] at h
  | cons e r ih =>
    obtain ⟨k', v'⟩ := e
    by_cases hk : k = k'
    · subst hk
      simp only [lookup, if_true, Option.some.injEq] at h
      simp [insert, h]
    · simp only [lookup, hk, if_false] at h
      simp [insert, hk, ih h]

theorem insert_insert (k : String) (v w : Val) (m : KVs) : insert k v (insert k w m) = insert k v m := by
  induction m with
  | nil => simp [insert]
  | cons e r ih =>
    obtain ⟨k', v'⟩ := e
    by_cases hk : k = k'
    · simp [insert, hk]
    · simp [insert, hk, ih]

theorem insert_ne_nil (k : String) (v : Val) (m : KVs) : insert k v m ≠ [] := by
  cases m with
  | nil => simp [insert]
  | cons e r =>
    obtain ⟨k', v'⟩ := e
    by_cases hk : k = k' <;> simp [insert, hk]

theorem lookup_map_vals (f : String → Val → Val) (k : String) (m : KVs) :
    lookup k (m.map fun kv => (kv.1, f kv.1 kv.2)) = (lookup k m).map (f k) := by
  induction m with
  | nil => simp [lookup]
  | cons e r ih =>
    obtain ⟨k', v'⟩ := e
    by_cases hk : k = k'
    · subst hk; simp [lookup]
    · simp [lookup, hk, ih]

end CV.Val

namespace CV.C11
open CV CV.Val CV.C11.Spec

theorem lookup_setIfAbsent (k : String) (v : Val) (m : KVs) (k' : String) :
    lookup k' (setIfAbsent k v m) = filled k v (fun x => lookup x m) k' := by
  unfold setIfAbsent filled
  cases h : lookup k m with
  | some x =>
    by_cases hk : k' = k
    · subst hk; simp [h]
    · simp [hk]
  | none =>
    by_cases hk : k' = k
    · subst hk; simp [h, lookup_insert_self]
    · simp [hk, lookup_insert_ne hk]

theorem lookup_setIfNil (k : String) (v : Val) (m : KVs) (k' : String) :
    lookup k' (setIfNil k v m) = filledNil k v (fun x => lookup x m) k' := by
  unfold setIfNil filledNil
  by_cases hk : k' = k
  · subst hk
    cases h : lookup k' m with
    | none => simp [h, lookup_insert_self]
    | some x => cases x <;> simp [h, lookup_insert_self]
  · cases h : lookup k m with
    | none => simp [hk, lookup_insert_ne hk]
    | some x => cases x <;> simp [hk, lookup_insert_ne hk]

theorem setIfAbsent_of_some {k : String} {v x : Val} {m : KVs} (h : lookup k m = some x) :
    setIfAbsent k v m = m := by
  simp [setIfAbsent, h]

theorem setIfAbsent_idem (k : String) (v : Val) (m : KVs) :
    setIfAbsent k v (setIfAbsent k v m) = setIfAbsent k v m := by
  cases h : lookup k m with
  | some x => simp [setIfAbsent, h]
  | none =>
    have : setIfAbsent k v m = insert k v m := by simp [setIfAbsent, h]
    rw [this]
    exact setIfAbsent_of_some (lookup_insert_self k v m)

end CV.C11
