import ComposeVerif.Lemmas.TravInvB
/-!
# Log invariant (`InvL`): what the visitor entry / return log can contain
-/
set_option linter.unusedSimpArgs false
set_option linter.unusedVariables false
set_option linter.unnecessarySimpa false
namespace CV.Trav

def starts (log : List Ev) : List V := log.filterMap (fun e => match e with | .start v => some v | _ => none)
def finishes (log : List Ev) : List V := log.filterMap (fun e => match e with | .finish v _ => some v | _ => none)

@[simp] theorem starts_start (v : V) (l : List Ev) : starts (.start v :: l) = v :: starts l := rfl
@[simp] theorem starts_finish (v : V) (e : Bool) (l : List Ev) : starts (.finish v e :: l) = starts l := rfl
@[simp] theorem finishes_start (v : V) (l : List Ev) : finishes (.start v :: l) = finishes l := rfl
@[simp] theorem finishes_finish (v : V) (e : Bool) (l : List Ev) : finishes (.finish v e :: l) = v :: finishes l := rfl

theorem mem_finishes_of {v : V} {e : Bool} {l : List Ev} (h : Ev.finish v e ∈ l) : v ∈ finishes l := by
  unfold finishes; rw [List.mem_filterMap]; exact ⟨_, h, rfl⟩

/-- every visitor entry in the log (newest first) has, further down, the return of every prerequisite
that is visited at all -/
def LogOK (g : Graph) : List Ev → Prop
  | [] => True
  | .start v :: l => (∀ d ∈ g.pre v, g.skip d = false → d ∈ finishes l) ∧ LogOK g l
  | .finish _ _ :: l => LogOK g l

def pendEnter (s : St) (v : V) : Prop := ∃ w t, getSched s w = some ⟨t, .enter v⟩

def Fresh (s : St) (v : V) : Prop := s.status v = .absent ∨ pendSpawn s v ∨ (v, WPc.start) ∈ s.workers

structure InvL (g : Graph) (s : St) : Prop where
  startsNodup : (starts s.log).Nodup
  finishesNodup : (finishes s.log).Nodup
  freshNotStarted : ∀ v, Fresh s v → v ∉ starts s.log
  runningStarted : ∀ v, (v, WPc.running) ∈ s.workers → v ∈ starts s.log ∧ v ∉ finishes s.log
  finSubStarts : ∀ v, v ∈ finishes s.log → v ∈ starts s.log
  startedWhere : ∀ v, v ∈ starts s.log → g.skip v = false ∧ (v ∈ finishes s.log ∨ (v, WPc.running) ∈ s.workers)
  returnedFin : ∀ v e, (v, WPc.returned e) ∈ s.workers → g.skip v = true ∨ Ev.finish v e ∈ s.log
  visitedFin : ∀ v, s.status v = .visited → g.skip v = true ∨ v ∈ finishes s.log
  depsVisited : ∀ v, (pendEnter s v ∨ s.status v ≠ .absent) → ∀ d ∈ g.pre v, s.status d = .visited
  logOK : LogOK g s.log
  startedVerts : ∀ v, v ∈ starts s.log → v ∈ g.verts

theorem init_invL (g : Graph) : InvL g (init g) := by
  refine ⟨by simp [init, starts], by simp [init, finishes], ?_, ?_, ?_, ?_, ?_, ?_, ?_, by simp [init, LogOK], by simp [init, starts]⟩
  · intro v _; simp [init, starts]
  · intro v h; simp [init] at h
  · intro v h; simp [init, finishes] at h
  · intro v h; simp [init, starts] at h
  · intro v e h; simp [init] at h
  · intro v h; simp [init] at h
  · rintro v (⟨w, t, h⟩ | h)
    · cases w <;> simp [init, getSched] at h
    · simp [init] at h

/-! ### how a step changes workers, log, status -/

inductive WNew (g : Graph) (s : St) : Label → V → WPc → Prop
  | spawn {w : Who} {t : List V} {v : V} : getSched s w = some ⟨t, .spawn v⟩ → WNew g s (.spawn w) v .start
  | beginSkip {v : V} : (v, WPc.start) ∈ s.workers → g.skip v = true → WNew g s (.wBegin v) v (.returned false)
  | begin {v : V} : (v, WPc.start) ∈ s.workers → g.skip v = false → WNew g s (.wBegin v) v .running
  | ret {v : V} {e : Bool} : (v, WPc.running) ∈ s.workers → WNew g s (.wReturn v e) v (.returned e)
  | done {v : V} {e : Bool} : (v, WPc.returned e) ∈ s.workers → WNew g s (.wDone v) v (.marked e)
  | send {v : V} {e : Bool} : (v, WPc.marked e) ∈ s.workers → WNew g s (.wSend v) v (.sent e)

theorem step_worker_new {g : Graph} {lim : Option Nat} {s s' : St} {l : Label} (h : Step g lim s l s') (u : V) (pc : WPc)
    (hu : (u, pc) ∈ s'.workers) : (u, pc) ∈ s.workers ∨ WNew g s l u pc := by
  cases h with
  | @spawn w todo v hs _ =>
    simp only [putSched_workers, List.mem_cons] at hu
    rcases hu with hu | hu
    · cases hu; exact .inr (.spawn hs)
    · exact .inl hu
  | wBeginSkip hw hk =>
    rcases mem_setW hu with ⟨rfl, rfl, _⟩ | ⟨_, hq⟩
    · exact .inr (.beginSkip (mem_of_wpc hw) hk)
    · exact .inl hq
  | wBegin hw hk =>
    rcases mem_setW hu with ⟨rfl, rfl, _⟩ | ⟨_, hq⟩
    · exact .inr (.begin (mem_of_wpc hw) hk)
    · exact .inl hq
  | wReturn hw =>
    rcases mem_setW hu with ⟨rfl, rfl, _⟩ | ⟨_, hq⟩
    · exact .inr (.ret (mem_of_wpc hw))
    · exact .inl hq
  | wDone hw =>
    rcases mem_setW hu with ⟨rfl, rfl, _⟩ | ⟨_, hq⟩
    · exact .inr (.done (mem_of_wpc hw))
    · exact .inl hq
  | wSend hw =>
    rcases mem_setW hu with ⟨rfl, rfl, _⟩ | ⟨_, hq⟩
    · exact .inr (.send (mem_of_wpc hw))
    · exact .inl hq
  | wExit _ => exact .inl (mem_filter_ne.mp hu).1
  | _ => exact .inl (by simpa using hu)

/-- the log grows by at most one event, and only in `wBegin` (not skipped) / `wReturn` -/
theorem step_log {g : Graph} {lim : Option Nat} {s s' : St} {l : Label} (h : Step g lim s l s') :
    s'.log = s.log ∨
    (∃ v, l = .wBegin v ∧ g.skip v = false ∧ (v, WPc.start) ∈ s.workers ∧ s'.log = .start v :: s.log) ∨
    (∃ v e, l = .wReturn v e ∧ (v, WPc.running) ∈ s.workers ∧ s'.log = .finish v e :: s.log) := by
  cases h with
  | wBegin hw hk => exact .inr (.inl ⟨_, rfl, hk, mem_of_wpc hw, rfl⟩)
  | wReturn hw => exact .inr (.inr ⟨_, _, rfl, mem_of_wpc hw, rfl⟩)
  | _ => exact .inl (by simp)

theorem step_visited_new {g : Graph} {lim : Option Nat} {s s' : St} {l : Label} (h : Step g lim s l s') (u : V)
    (hu : s'.status u = .visited) : s.status u = .visited ∨ ∃ e, (u, WPc.returned e) ∈ s.workers := by
  cases h with
  | @enterT w todo v hs habs =>
    simp only [putSched_status, setStatus] at hu
    split at hu
    · cases hu
    · exact .inl hu
  | @wDone v e hw =>
    simp only [setStatus] at hu
    split at hu
    · next heq => subst heq; exact .inr ⟨e, mem_of_wpc hw⟩
    · exact .inl hu
  | _ => exact .inl (by simpa using hu)

theorem step_visited_mono {g : Graph} {lim : Option Nat} {s s' : St} {l : Label} (h : Step g lim s l s') (u : V)
    (hu : s.status u = .visited) : s'.status u = .visited := by
  cases h with
  | @enterT w todo v hs habs =>
    simp only [putSched_status, setStatus]
    split
    · next heq => subst heq; rw [habs] at hu; cases hu
    · exact hu
  | @wDone v e hw =>
    simp only [setStatus]
    split
    · rfl
    · exact hu
  | _ => simpa using hu

/-- a vertex is claimed (or about to be) only after its readiness test succeeded -/
theorem step_claim {g : Graph} {lim : Option Nat} {s s' : St} {l : Label} (h : Step g lim s l s') (hA : InvA s) (u : V)
    (hu : pendEnter s' u ∨ s'.status u ≠ .absent) :
    (pendEnter s u ∨ s.status u ≠ .absent) ∨ (∀ d ∈ g.pre u, s.status d = .visited) := by
  -- a scheduler step that does not enter the `enter` sub-state and leaves the status alone
  have plain : ∀ {w0 : Who} {y : Sched} (x : Option Sched), getSched s w0 = some y →
      (∀ t, x ≠ some ⟨t, .enter u⟩) → (pendEnter (putSched s w0 x) u ∨ (putSched s w0 x).status u ≠ .absent) →
      (pendEnter s u ∨ s.status u ≠ .absent) := by
    intro w0 y x hs hx hu
    rcases hu with ⟨w', t, hw'⟩ | hu
    · by_cases e : w' = w0
      · subst e; rw [getSched_put_same x hs] at hw'; exact absurd hw' (hx t)
      · rw [getSched_put_ne x e] at hw'; exact .inl ⟨w', t, hw'⟩
    · exact .inr (by simpa using hu)
  cases h with
  | @schedNext w0 todo v hs hv => exact .inl (plain _ hs (by intro t h; cases h) hu)
  | @schedEnd w0 hs => exact .inl (plain _ hs (by intro t h; cases h) hu)
  | @readyF w0 todo v hs _ => exact .inl (plain _ hs (by intro t h; cases h) hu)
  | @enterF w0 todo v hs _ => exact .inl (plain _ hs (by intro t h; cases h) hu)
  | @readyT w0 todo v hs hall =>
    by_cases e : u = v
    · subst e; exact .inr hall
    · exact .inl (plain _ hs (by intro t h; cases h; exact e rfl) hu)
  | @enterT w0 todo v hs habs =>
    have hs1 : getSched ({ s with status := setStatus s.status v .entered } : St) w0 = some ⟨todo, .enter v⟩ :=
      (getSched_congr rfl rfl rfl w0).trans hs
    rcases hu with ⟨w', t, hw'⟩ | hu
    · by_cases e : w' = w0
      · subst e; rw [getSched_put_same _ hs1] at hw'; cases hw'
      · rw [getSched_put_ne _ e, getSched_congr rfl rfl rfl] at hw'; exact .inl (.inl ⟨w', t, hw'⟩)
    · simp only [putSched_status, setStatus] at hu
      split at hu
      · next heq => subst heq; exact .inl (.inl ⟨w0, todo, hs⟩)
      · exact .inl (.inr hu)
  | @spawn w0 todo v hs _ =>
    have hs1 : getSched ({ s with workers := (v, .start) :: s.workers } : St) w0 = some ⟨todo, .spawn v⟩ :=
      (getSched_congr rfl rfl rfl w0).trans hs
    rcases hu with ⟨w', t, hw'⟩ | hu
    · by_cases e : w' = w0
      · subst e; rw [getSched_put_same _ hs1] at hw'; cases hw'
      · rw [getSched_put_ne _ e, getSched_congr rfl rfl rfl] at hw'; exact .inl (.inl ⟨w', t, hw'⟩)
    · exact .inl (.inr (by simpa using hu))
  | @wDone v e hw =>
    rcases hu with ⟨w', t, hw'⟩ | hu
    · exact .inl (.inl ⟨w', t, by rw [← hw']; exact (getSched_congr rfl rfl rfl w').symm⟩)
    · by_cases e : u = v
      · subst e; exact .inl (.inr (hA.worker_status (mem_of_wpc hw)))
      · simp only [setStatus, if_neg e] at hu; exact .inl (.inr hu)
  | cRecvLast ha hc _ _ =>
    rcases hu with ⟨w', t, hw'⟩ | hu
    · cases w' with
      | M => exact .inl (.inl ⟨.M, t, hw'⟩)
      | C => simp [getSched] at hw'
    · exact .inl (.inr hu)
  | cRecvMore ha hc _ _ =>
    rcases hu with ⟨w', t, hw'⟩ | hu
    · cases w' with
      | M => exact .inl (.inl ⟨.M, t, hw'⟩)
      | C => simp [getSched, ha] at hw'
    · exact .inl (.inr hu)
  | cCtxDone ha hc _ _ =>
    rcases hu with ⟨w', t, hw'⟩ | hu
    · cases w' with
      | M => exact .inl (.inl ⟨.M, t, hw'⟩)
      | C => simp [getSched] at hw'
    · exact .inl (.inr hu)
  | _ =>
    rcases hu with ⟨w', t, hw'⟩ | hu
    · exact .inl (.inl ⟨w', t, by rw [← hw']; exact (getSched_congr rfl rfl rfl w').symm⟩)
    · exact .inl (.inr hu)

theorem step_pendSpawn {g : Graph} {lim : Option Nat} {s s' : St} {l : Label} (h : Step g lim s l s') (u : V)
    (hu : pendSpawn s' u) : pendSpawn s u ∨ s.status u = .absent := by
  cases h with
  | schedNext hs _ => exact .inl ((pendSpawn_put_plain _ hs rfl rfl u).mp hu)
  | schedEnd hs => exact .inl ((pendSpawn_put_plain _ hs rfl rfl u).mp hu)
  | readyT hs _ => exact .inl ((pendSpawn_put_plain _ hs rfl rfl u).mp hu)
  | readyF hs _ => exact .inl ((pendSpawn_put_plain _ hs rfl rfl u).mp hu)
  | enterF hs _ => exact .inl ((pendSpawn_put_plain _ hs rfl rfl u).mp hu)
  | @enterT w0 todo v hs habs =>
    have hs1 : getSched ({ s with status := setStatus s.status v .entered } : St) w0 = some ⟨todo, .enter v⟩ :=
      (getSched_congr rfl rfl rfl w0).trans hs
    rcases (pendSpawn_put _ hs1 u).mp hu with hx | ⟨w', _, hw'⟩
    · simp [spawnOf] at hx; subst hx; exact .inr habs
    · rw [getSched_congr rfl rfl rfl] at hw'; exact .inl ⟨w', hw'⟩
  | @spawn w0 todo v hs _ =>
    have hs1 : getSched ({ s with workers := (v, .start) :: s.workers } : St) w0 = some ⟨todo, .spawn v⟩ :=
      (getSched_congr rfl rfl rfl w0).trans hs
    rcases (pendSpawn_put _ hs1 u).mp hu with hx | ⟨w', _, hw'⟩
    · simp [spawnOf] at hx
    · rw [getSched_congr rfl rfl rfl] at hw'; exact .inl ⟨w', hw'⟩
  | cRecvLast ha hc _ _ =>
    obtain ⟨w', hw'⟩ := hu
    cases w' with
    | M => exact .inl ⟨.M, hw'⟩
    | C => simp [getSched, spawnOf] at hw'
  | cRecvMore ha hc _ _ =>
    obtain ⟨w', hw'⟩ := hu
    cases w' with
    | M => exact .inl ⟨.M, hw'⟩
    | C => simp [getSched, ha, spawnOf] at hw'
  | cCtxDone ha hc _ _ =>
    obtain ⟨w', hw'⟩ := hu
    cases w' with
    | M => exact .inl ⟨.M, hw'⟩
    | C => simp [getSched, spawnOf] at hw'
  | _ => exact .inl ((pendSpawn_congr rfl rfl rfl u).mp hu)

theorem step_fresh {g : Graph} {lim : Option Nat} {s s' : St} {l : Label} (h : Step g lim s l s') (u : V)
    (hu : Fresh s' u) : Fresh s u := by
  rcases hu with hu | hu | hu
  · left
    cases hst : s.status u with
    | absent => rfl
    | entered => exact absurd hu (step_status_mono h u (by rw [hst]; decide))
    | visited => exact absurd hu (step_status_mono h u (by rw [hst]; decide))
  · rcases step_pendSpawn h u hu with h1 | h1
    · exact .inr (.inl h1)
    · exact .inl h1
  · rcases step_worker_new h u _ hu with h1 | h1
    · exact .inr (.inr h1)
    · cases h1 with
      | spawn hs => exact .inr (.inl ⟨_, by rw [hs]; rfl⟩)

theorem step_running_keep {g : Graph} {lim : Option Nat} {s s' : St} {l : Label} (h : Step g lim s l s') (hA : InvA s)
    (u : V) (hu : (u, WPc.running) ∈ s.workers) : (u, WPc.running) ∈ s'.workers ∨ ∃ e, l = .wReturn u e := by
  have setw : ∀ {v : V} {pc pc' : WPc}, wpc s.workers v = some pc → pc ≠ .running →
      (u, WPc.running) ∈ setW s.workers v pc' := by
    intro v pc pc' hw hne
    refine mem_setW_of_ne ?_ hu
    rintro rfl
    exact hne (pc_unique hA.wkNodup (mem_of_wpc hw) hu)
  cases h with
  | spawn _ _ => left; simp only [putSched_workers]; exact List.mem_cons_of_mem _ hu
  | wBeginSkip hw _ => exact .inl (setw hw (by simp))
  | wBegin hw _ => exact .inl (setw hw (by simp))
  | @wReturn v e hw =>
    by_cases e' : u = v
    · subst e'; exact .inr ⟨e, rfl⟩
    · exact .inl (mem_setW_of_ne e' hu)
  | wDone hw => exact .inl (setw hw (by simp))
  | wSend hw => exact .inl (setw hw (by simp))
  | @wExit v e hw =>
    left; refine mem_filter_ne.mpr ⟨hu, ?_⟩
    rintro rfl
    have := pc_unique hA.wkNodup (mem_of_wpc hw) hu
    cases this
  | _ => exact .inl (by simpa using hu)

theorem mem_starts_of {v : V} {l : List Ev} (h : Ev.start v ∈ l) : v ∈ starts l := by
  unfold starts; rw [List.mem_filterMap]; exact ⟨_, h, rfl⟩

theorem invL_step {g : Graph} {lim : Option Nat} {s s' : St} {l : Label}
    (h : Step g lim s l s') (hA : InvA s) (hB : InvB g s) (hL : InvL g s) : InvL g s' := by
  have hA' := invA_step h hA
  have hlog := step_log h
  -- the two lists only grow
  have hst_sub : ∀ u, u ∈ starts s.log → u ∈ starts s'.log := by
    intro u hu
    rcases hlog with e | ⟨v, _, _, _, e⟩ | ⟨v, b, _, _, e⟩ <;> rw [e] <;> simp [hu]
  have hfin_sub : ∀ u, u ∈ finishes s.log → u ∈ finishes s'.log := by
    intro u hu
    rcases hlog with e | ⟨v, _, _, _, e⟩ | ⟨v, b, _, _, e⟩ <;> rw [e] <;> simp [hu]
  have hmem_sub : ∀ x, x ∈ s.log → x ∈ s'.log := by
    intro x hx
    rcases hlog with e | ⟨v, _, _, _, e⟩ | ⟨v, b, _, _, e⟩ <;> rw [e] <;> simp [hx]
  refine ⟨?_, ?_, ?_, ?_, ?_, ?_, ?_, ?_, ?_, ?_, ?_⟩
  · -- startsNodup
    rcases hlog with e | ⟨v, _, _, hw, e⟩ | ⟨v, b, _, _, e⟩
    · rw [e]; exact hL.startsNodup
    · rw [e, starts_start, List.nodup_cons]
      exact ⟨hL.freshNotStarted v (.inr (.inr hw)), hL.startsNodup⟩
    · rw [e, starts_finish]; exact hL.startsNodup
  · -- finishesNodup
    rcases hlog with e | ⟨v, _, _, _, e⟩ | ⟨v, b, _, hw, e⟩
    · rw [e]; exact hL.finishesNodup
    · rw [e, finishes_start]; exact hL.finishesNodup
    · rw [e, finishes_finish, List.nodup_cons]
      exact ⟨(hL.runningStarted v hw).2, hL.finishesNodup⟩
  · -- freshNotStarted
    intro u hu
    have h0 := hL.freshNotStarted u (step_fresh h u hu)
    rcases hlog with e | ⟨v, hl, _, hw, e⟩ | ⟨v, b, _, _, e⟩
    · rw [e]; exact h0
    · rw [e, starts_start, List.mem_cons]
      rintro (rfl | h1)
      · -- after `wBegin u` the vertex is no longer fresh
        subst hl
        cases h with
        | wBeginSkip _ hk => simp_all
        | wBegin hw2 _ =>
          have hrun : (u, WPc.running) ∈ (setW s.workers u .running) := mem_setW_self hw
          rcases hu with hu | hu | hu
          · exact hA'.worker_status hrun hu
          · exact hA'.pendNoWorker u _ hu hrun
          · have := pc_unique hA'.wkNodup hrun hu; cases this
      · exact h0 h1
    · rw [e, starts_finish]; exact h0
  · -- runningStarted
    intro u hu
    have key : u ∈ starts s'.log ∧ u ∉ finishes s.log := by
      rcases step_worker_new h u _ hu with h1 | h1
      · exact ⟨hst_sub u (hL.runningStarted u h1).1, (hL.runningStarted u h1).2⟩
      · cases h1 with
        | begin hw hk =>
          rcases hlog with e | ⟨v, hl, _, _, e⟩ | ⟨v, b, hl, _, e⟩
          · cases h with
            | wBeginSkip _ hk' => rw [hk] at hk'; cases hk'
            | wBegin _ _ => simp at e
          · cases hl
            refine ⟨by rw [e]; simp, ?_⟩
            intro hf
            exact hL.freshNotStarted u (.inr (.inr hw)) (hL.finSubStarts u hf)
          · cases hl
    refine ⟨key.1, ?_⟩
    rcases hlog with e | ⟨v, _, _, _, e⟩ | ⟨v, b, hl, hw, e⟩
    · rw [e]; exact key.2
    · rw [e, finishes_start]; exact key.2
    · rw [e, finishes_finish, List.mem_cons]
      rintro (rfl | h1)
      · -- `wReturn u` leaves u in `returned`, not `running`
        subst hl
        cases h with
        | wReturn hw2 =>
          have hret : (u, WPc.returned b) ∈ setW s.workers u (.returned b) := mem_setW_self hw
          have := pc_unique hA'.wkNodup hret hu; cases this
      · exact key.2 h1
  · -- finSubStarts
    intro u hu
    rcases hlog with e | ⟨v, _, _, _, e⟩ | ⟨v, b, _, hw, e⟩
    · rw [e] at hu ⊢; exact hL.finSubStarts u hu
    · rw [e] at hu ⊢; simp only [finishes_start] at hu; simp [hL.finSubStarts u hu]
    · rw [e] at hu ⊢
      simp only [finishes_finish, List.mem_cons] at hu
      simp only [starts_finish]
      rcases hu with rfl | hu
      · exact (hL.runningStarted _ hw).1
      · exact hL.finSubStarts u hu
  · -- startedWhere
    intro u hu
    have old : u ∈ starts s.log → g.skip u = false ∧ (u ∈ finishes s'.log ∨ (u, WPc.running) ∈ s'.workers) := by
      intro h0
      have ⟨hk, hw⟩ := hL.startedWhere u h0
      refine ⟨hk, ?_⟩
      rcases hw with hw | hw
      · exact .inl (hfin_sub u hw)
      · rcases step_running_keep h hA u hw with h1 | ⟨b, hl⟩
        · exact .inr h1
        · left
          rcases hlog with e | ⟨v, hl2, _, _, e⟩ | ⟨v, b', hl2, _, e⟩
          · subst hl; cases h with
            | wReturn _ => simp at e
          · rw [hl] at hl2; cases hl2
          · rw [hl] at hl2; cases hl2; rw [e]; simp
    rcases hlog with e | ⟨v, hl, hk, hw, e⟩ | ⟨v, b, _, _, e⟩
    · rw [e] at hu; exact old hu
    · rw [e, starts_start, List.mem_cons] at hu
      rcases hu with rfl | hu
      · refine ⟨hk, .inr ?_⟩
        subst hl
        cases h with
        | wBeginSkip _ hk' => rw [hk] at hk'; cases hk'
        | wBegin _ _ => exact mem_setW_self hw
      · exact old hu
    · rw [e, starts_finish] at hu; exact old hu
  · -- returnedFin
    intro u b hu
    rcases step_worker_new h u _ hu with h1 | h1
    · rcases hL.returnedFin u b h1 with hk | hf
      · exact .inl hk
      · exact .inr (hmem_sub _ hf)
    · cases h1 with
      | beginSkip _ hk => exact .inl hk
      | ret hw =>
        right
        rcases hlog with e | ⟨v, hl, _, _, e⟩ | ⟨v, b', hl, _, e⟩
        · cases h with
          | wReturn _ => simp at e
        · cases hl
        · cases hl; rw [e]; simp
  · -- visitedFin
    intro u hu
    rcases step_visited_new h u hu with h1 | ⟨b, h1⟩
    · rcases hL.visitedFin u h1 with hk | hf
      · exact .inl hk
      · exact .inr (hfin_sub u hf)
    · rcases hL.returnedFin u b h1 with hk | hf
      · exact .inl hk
      · exact .inr (hfin_sub u (mem_finishes_of hf))
  · -- depsVisited
    intro u hu d hd
    rcases step_claim h hA u hu with h1 | h1
    · exact step_visited_mono h d (hL.depsVisited u h1 d hd)
    · exact step_visited_mono h d (h1 d hd)
  · -- logOK
    rcases hlog with e | ⟨v, _, _, hw, e⟩ | ⟨v, b, _, _, e⟩
    · rw [e]; exact hL.logOK
    · rw [e]
      refine ⟨?_, hL.logOK⟩
      intro d hd hk
      have hent : s.status v ≠ .absent := hA.worker_status hw
      have hvis := hL.depsVisited v (.inr hent) d hd
      rcases hL.visitedFin d hvis with hk' | hf
      · rw [hk] at hk'; cases hk'
      · exact hf
    · rw [e]; exact hL.logOK
  · -- startedVerts
    intro u hu
    rcases hlog with e | ⟨v, _, _, hw, e⟩ | ⟨v, b, _, _, e⟩
    · rw [e] at hu; exact hL.startedVerts u hu
    · rw [e, starts_start, List.mem_cons] at hu
      rcases hu with rfl | hu
      · exact hB.wkVerts _ _ hw
      · exact hL.startedVerts u hu
    · rw [e, starts_finish] at hu; exact hL.startedVerts u hu

end CV.Trav
