import ComposeVerif.Lemmas.EnvLayers
import ComposeVerif.Props.C18
/-!
# C16 ↔ C18: the tokenised lines of `Model/EnvLayers` are files of the dotenv grammar

`toDotenv` maps a tokenised line to the line of C18's grammar it is rendered as by the harness
(`KEY=<rendering of the template>` / `KEY`, no indentation, no `export`, no quotes, no comment).
`parseLines_eq_evalFrom` shows that C18's *specification* of the parser (`Dotenv.evalFrom`) on those lines is
`parseLines`; with C18's refinement theorem `parse_render` this gives `parseLines_is_dotenv_parse` (Props/C16.lean):
C18's model of `dotenv.UnmarshalWithLookup` run on the rendered **text** is the tokenised model.
-/
namespace CV.EnvLayers
open CV.EnvLayers.Spec

def toDotenv : Line → Option CV.Dotenv.Line
  | .assign k v => some (.assign [] none k [] .eq [] (.unq (CV.Template.renderL v)) [] none)
  | .bare k => some (.bare [] none k [])
  | .bad => none

/-- the lines of C18's grammar for a file without rejected line -/
def toDotenvLines (ls : List Line) : List CV.Dotenv.Line := ls.filterMap toDotenv

/-- outcome classes of this model for the outcomes of C18's -/
def ofPOut : CV.Dotenv.POut → Except Err (List (Key × Str))
  | .ok m => .ok m
  | .err (.tmpl _) _ => .error .template
  | .err _ _ => .error .parse
  | .panic _ => .error .panic

theorem put_eq_insert (m : List (Key × Str)) (k v : Str) : CV.Dotenv.put m k v = insert k v m := by
  induction m with
  | nil => rfl
  | cons p r ih =>
    obtain ⟨a, b⟩ := p
    by_cases h : k = a
    · subst h; simp [CV.Dotenv.put, insert]
    · have : ¬ a = k := fun e => h e.symm
      simp [CV.Dotenv.put, insert, h, this, ih]

theorem get_eq_lookup (m : List (Key × Str)) (k : Str) : CV.Dotenv.get m k = lookup k m := by
  induction m with
  | nil => rfl
  | cons p r ih =>
    obtain ⟨a, b⟩ := p
    by_cases h : k = a
    · subst h; simp [CV.Dotenv.get, lookup]
    · have : ¬ a = k := fun e => h e.symm
      simp [CV.Dotenv.get, lookup, h, this, ih]

theorem envOf_eq_withFile (look : Look) (m : List (Key × Str)) : CV.Dotenv.envOf look m = withFile look m := by
  funext k
  simp only [CV.Dotenv.envOf, withFile, get_eq_lookup]
  cases look k <;> rfl

theorem parseLines_eq_evalFrom (look : Look) (ls : List Line) (out : List (Key × Str)) (hb : Line.bad ∉ ls) :
    ofPOut (CV.Dotenv.evalFrom look (toDotenvLines ls) out) = parseLines look ls out := by
  induction ls generalizing out with
  | nil => rfl
  | cons x r ih =>
    have hr : Line.bad ∉ r := fun h => hb (List.mem_cons_of_mem _ h)
    cases x with
    | bad => exact absurd List.mem_cons_self hb
    | bare k =>
      simp only [toDotenvLines, List.filterMap_cons, toDotenv, CV.Dotenv.evalFrom, parseLines]
      cases look k with
      | none => exact ih out hr
      | some v => simp only; rw [put_eq_insert]; exact ih _ hr
    | assign k v =>
      simp only [toDotenvLines, List.filterMap_cons, toDotenv, CV.Dotenv.evalFrom, parseLines,
        CV.Dotenv.Value.eval, evalValue, envOf_eq_withFile]
      cases CV.Template.subst (withFile look out) (CV.Template.renderL v) with
      | ok s => simp only; rw [put_eq_insert]; exact ih _ hr
      | err e => rfl
      | panic p => rfl

/-! ### the text the harness writes, rejected line included -/

/-- the rejected line as written by the harness: `A B=1` (a key of two words) -/
def badText : Str := ['A', ' ', 'B', '=', '1']

/-- the file text for tokenised lines (`c16RenderLines` of the harness) -/
def renderText : List Line → Str
  | [] => []
  | .assign k v :: r => k ++ '=' :: (CV.Template.renderL v ++ '\n' :: renderText r)
  | .bare k :: r => k ++ '\n' :: renderText r
  | .bad :: r => badText ++ '\n' :: renderText r

theorem renderText_good (ls : List Line) (hb : Line.bad ∉ ls) :
    renderText ls = CV.Dotenv.render (toDotenvLines ls) := by
  induction ls with
  | nil => rfl
  | cons x r ih =>
    have hr : Line.bad ∉ r := fun h => hb (List.mem_cons_of_mem _ h)
    cases x with
    | bad => exact absurd List.mem_cons_self hb
    | bare k =>
      simp [renderText, toDotenvLines, toDotenv, CV.Dotenv.render, CV.Dotenv.Line.render, CV.Dotenv.renderExp] at ih ⊢
      rw [ih hr]
    | assign k v =>
      simp [renderText, toDotenvLines, toDotenv, CV.Dotenv.render, CV.Dotenv.Line.render, CV.Dotenv.renderExp,
        CV.Dotenv.Value.render, CV.Dotenv.renderCmt, CV.Dotenv.Sep.char] at ih ⊢
      rw [ih hr]

theorem renderText_append (a b : List Line) : renderText (a ++ b) = renderText a ++ renderText b := by
  induction a with
  | nil => rfl
  | cons x r ih => cases x <;> simp [renderText, ih]

theorem parseLines_append (look : Look) (a b : List Line) (out : List (Key × Str)) :
    parseLines look (a ++ b) out =
      match parseLines look a out with
      | .ok m => parseLines look b m
      | .error e => .error e := by
  induction a generalizing out with
  | nil => rfl
  | cons x r ih =>
    cases x with
    | bad => rfl
    | bare k =>
      simp only [List.cons_append, parseLines]
      cases look k <;> exact ih _
    | assign k v =>
      simp only [List.cons_append, parseLines]
      cases evalValue (withFile look out) v with
      | ok val => exact ih _
      | error e => rfl

/-- a file with a rejected line splits at the first one -/
theorem split_first_bad (ls : List Line) (h : Line.bad ∈ ls) :
    ∃ pre post, ls = pre ++ Line.bad :: post ∧ Line.bad ∉ pre := by
  induction ls with
  | nil => cases h
  | cons x r ih =>
    cases x with
    | bad => exact ⟨[], r, rfl, fun h => by cases h⟩
    | bare k =>
      have hr : Line.bad ∈ r := by
        rcases List.mem_cons.1 h with e | e
        · cases e
        · exact e
      obtain ⟨pre, post, e, hp⟩ := ih hr
      refine ⟨Line.bare k :: pre, post, by rw [e]; rfl, fun hm => ?_⟩
      rcases List.mem_cons.1 hm with e' | e'
      · cases e'
      · exact hp e'
    | assign k v =>
      have hr : Line.bad ∈ r := by
        rcases List.mem_cons.1 h with e | e
        · cases e
        · exact e
      obtain ⟨pre, post, e, hp⟩ := ih hr
      refine ⟨Line.assign k v :: pre, post, by rw [e]; rfl, fun hm => ?_⟩
      rcases List.mem_cons.1 hm with e' | e'
      · cases e'
      · exact hp e'

theorem toDotenvLines_append (a b : List Line) : toDotenvLines (a ++ b) = toDotenvLines a ++ toDotenvLines b := by
  simp [toDotenvLines]

theorem ofPOut_andThen_keySpace (o : CV.Dotenv.POut) :
    ofPOut (o.andThen fun m => .err .keySpace m) =
      match ofPOut o with
      | .ok _ => .error .parse
      | .error e => .error e := by
  cases o with
  | ok m => rfl
  | err e m => cases e <;> rfl
  | panic s => rfl

/-- C18's model on the text of a file whose first rejected line follows the well-formed lines `pre` -/
theorem parse_text_with_bad (look : Look) (pre post : List Line) (hb : Line.bad ∉ pre)
    (hwf : CV.Dotenv.WF (toDotenvLines pre) = true) :
    ofPOut (CV.Dotenv.parse (renderText (pre ++ Line.bad :: post)) look) =
      parseLines look (pre ++ Line.bad :: post) [] := by
  have ht : renderText (pre ++ Line.bad :: post) =
      CV.Dotenv.render (toDotenvLines pre) ++
        ([] ++ (CV.Dotenv.renderExp none ++ (['A'] ++ ([' '] ++ (['B'] ++ ([] ++ CV.Dotenv.Sep.eq.char ::
          ('1' :: '\n' :: renderText post))))))) := by
    rw [renderText_append, renderText_good pre hb]
    simp [renderText, badText, CV.Dotenv.renderExp, CV.Dotenv.Sep.char]
  rw [ht, CV.Dotenv.key_with_space_err look (toDotenvLines pre) hwf [] none ['A'] [' '] ['B'] [] .eq _
    (by decide) (by decide) (by decide) (by decide) (by decide) (by decide) (by decide) (by decide),
    ofPOut_andThen_keySpace, parseLines_append]
  unfold CV.Dotenv.evalLines
  rw [parseLines_eq_evalFrom look pre [] hb]
  cases parseLines look pre [] <;> rfl

end CV.EnvLayers
