import ComposeVerif.Lemmas.EnvLayers
import ComposeVerif.Props.C18
/-!
# C16 ↔ C18: the tokenised lines of `Model/EnvLayers` are files of the dotenv grammar

`toDotenv` maps a tokenised line to the line of C18's grammar it is rendered as by the harness
(`KEY=<rendering of the template>` / `KEY`, no indentation, no `export`, no quotes, no comment).
`parseLines_eq_evalFrom` shows that C18's *specification* of the parser (`Dotenv.evalFrom`) on those lines is
`parseLines`; with C18's refinement theorem `parse_render` this gives `parseLines_is_dotenv_parse` (Props/C16.lean):
C18's model of `dotenv.UnmarshalWithLookup` run on the rendered **text** is the tokenised model.
-/
namespace CV.EnvLayers
open CV.EnvLayers.Spec

def toDotenv : Line → Option CV.Dotenv.Line
  | .assign k v => some (.assign [] none k [] .eq [] (.unq (CV.Template.renderL v)) [] none)
  | .bare k => some (.bare [] none k [])
  | .bad => none

/-- the lines of C18's grammar for a file without rejected line -/
def toDotenvLines (ls : List Line) : List CV.Dotenv.Line := ls.filterMap toDotenv

/-- outcome classes of this model for the outcomes of C18's -/
def ofPOut : CV.Dotenv.POut → Except Err (List (Key × Str))
  | .ok m => .ok m
  | .err (.tmpl _) _ => .error .template
  | .err _ _ => .error .parse
  | .panic _ => .error .panic

theorem put_eq_insert (m : List (Key × Str)) (k v : Str) : CV.Dotenv.put m k v = insert k v m := by
  induction m with
  | nil => rfl
  | cons p r ih =>
    obtain ⟨a, b⟩ := p
    by_cases h : k = a
    · subst h; simp [CV.Dotenv.put, insert]
    · have : ¬ a = k := fun e => h e.symm
      simp [CV.Dotenv.put, insert, h, this, ih]

theorem get_eq_lookup (m : List (Key × Str)) (k : Str) : CV.Dotenv.get m k = lookup k m := by
  induction m with
  | nil => rfl
  | cons p r ih =>
    obtain ⟨a, b⟩ := p
    by_cases h : k = a
    · subst h; simp [CV.Dotenv.get, lookup]
    · have : ¬ a = k := fun e => h e.symm
      simp [CV.Dotenv.get, lookup, h, this, ih]

theorem envOf_eq_withFile (look : Look) (m : List (Key × Str)) : CV.Dotenv.envOf look m = withFile look m := by
  funext k
  simp only [CV.Dotenv.envOf, withFile, get_eq_lookup]
  cases look k <;> rfl

theorem parseLines_eq_evalFrom (look : Look) (ls : List Line) (out : List (Key × Str)) (hb : Line.bad ∉ ls) :
    ofPOut (CV.Dotenv.evalFrom look (toDotenvLines ls) out) = parseLines look ls out := by
  induction ls generalizing out with
  | nil => rfl
  | cons x r ih =>
    have hr : Line.bad ∉ r := fun h => hb (List.mem_cons_of_mem _ h)
    cases x with
    | bad => exact absurd List.mem_cons_self hb
    | bare k =>
      simp only [toDotenvLines, List.filterMap_cons, toDotenv, CV.Dotenv.evalFrom, parseLines]
      cases look k with
      | none => exact ih out hr
      | some v => simp only; rw [put_eq_insert]; exact ih _ hr
    | assign k v =>
      simp only [toDotenvLines, List.filterMap_cons, toDotenv, CV.Dotenv.evalFrom, parseLines,
        CV.Dotenv.Value.eval, evalValue, envOf_eq_withFile]
      cases CV.Template.subst (withFile look out) (CV.Template.renderL v) with
      | ok s => simp only; rw [put_eq_insert]; exact ih _ hr
      | err e => rfl
      | panic p => rfl

end CV.EnvLayers
