import ComposeVerif.Model.Include
/-! Helper lemmas for the C06 theorems: `veq` decides equality, association-list lookups, `Out.bind`. -/
namespace CV.Include
open CV CV.Val

/-! ### `veq` is equality -/

mutual
theorem veq_eq : ∀ (a b : Val), veq a b = true → a = b
  | .null, .null, _ => rfl
  | .bool a, .bool b, h => by simp only [veq, beq_iff_eq] at h; rw [h]
  | .int a, .int b, h => by simp only [veq, beq_iff_eq] at h; rw [h]
  | .float a, .float b, h => by simp only [veq, beq_iff_eq] at h; rw [h]
  | .str a, .str b, h => by simp only [veq, beq_iff_eq] at h; rw [h]
  | .seq a, .seq b, h => by simp only [veq] at h; rw [veqL_eq a b h]
  | .map a, .map b, h => by simp only [veq] at h; rw [veqM_eq a b h]
  | .null, .bool _, h | .null, .int _, h | .null, .float _, h | .null, .str _, h | .null, .seq _, h | .null, .map _, h
  | .bool _, .null, h | .bool _, .int _, h | .bool _, .float _, h | .bool _, .str _, h | .bool _, .seq _, h | .bool _, .map _, h
  | .int _, .null, h | .int _, .bool _, h | .int _, .float _, h | .int _, .str _, h | .int _, .seq _, h | .int _, .map _, h
  | .float _, .null, h | .float _, .bool _, h | .float _, .int _, h | .float _, .str _, h | .float _, .seq _, h | .float _, .map _, h
  | .str _, .null, h | .str _, .bool _, h | .str _, .int _, h | .str _, .float _, h | .str _, .seq _, h | .str _, .map _, h
  | .seq _, .null, h | .seq _, .bool _, h | .seq _, .int _, h | .seq _, .float _, h | .seq _, .str _, h | .seq _, .map _, h
  | .map _, .null, h | .map _, .bool _, h | .map _, .int _, h | .map _, .float _, h | .map _, .str _, h | .map _, .seq _, h => by
    simp [veq] at h
theorem veqL_eq : ∀ (a b : List Val), veqL a b = true → a = b
  | [], [], _ => rfl
  | x :: xs, y :: ys, h => by
    simp only [veqL, Bool.and_eq_true] at h
    rw [veq_eq x y h.1, veqL_eq xs ys h.2]
  | [], _ :: _, h | _ :: _, [], h => by simp [veqL] at h
theorem veqM_eq : ∀ (a b : List (String × Val)), veqM a b = true → a = b
  | [], [], _ => rfl
  | (k, x) :: xs, (k', y) :: ys, h => by
    simp only [veqM, Bool.and_eq_true, beq_iff_eq] at h
    rw [h.1.1, veq_eq x y h.1.2, veqM_eq xs ys h.2]
  | [], _ :: _, h | _ :: _, [], h => by simp [veqM] at h
end

mutual
theorem veq_refl : ∀ (a : Val), veq a a = true
  | .null => rfl
  | .bool _ | .int _ | .float _ | .str _ => by simp [veq]
  | .seq a => by simp only [veq]; exact veqL_refl a
  | .map a => by simp only [veq]; exact veqM_refl a
theorem veqL_refl : ∀ (a : List Val), veqL a a = true
  | [] => rfl
  | x :: xs => by simp only [veqL, Bool.and_eq_true]; exact ⟨veq_refl x, veqL_refl xs⟩
theorem veqM_refl : ∀ (a : List (String × Val)), veqM a a = true
  | [] => rfl
  | (k, x) :: xs => by
    simp only [veqM, Bool.and_eq_true, beq_self_eq_true, true_and]; exact ⟨veq_refl x, veqM_refl xs⟩
end

theorem veq_iff (a b : Val) : veq a b = true ↔ a = b :=
  ⟨veq_eq a b, fun h => h ▸ veq_refl a⟩

theorem veq_false_iff (a b : Val) : veq a b = false ↔ a ≠ b := by
  rw [← Bool.not_eq_true, veq_iff]

end CV.Include

namespace CV.Include
open CV CV.Val

/-! ### association lists -/

theorem lookup_append_single_ne {n k : String} {v : Val} (m : KVs) (h : n ≠ k) :
    lookup n (m ++ [(k, v)]) = lookup n m := by
  induction m with
  | nil => simp [lookup, h]
  | cons p r ih =>
    obtain ⟨k', v'⟩ := p
    simp only [List.cons_append, lookup]
    split
    · rfl
    · exact ih

theorem lookup_append_single_some {n k : String} {v c : Val} (m : KVs) (h : lookup n m = some c) :
    lookup n (m ++ [(k, v)]) = some c := by
  induction m with
  | nil => simp [lookup] at h
  | cons p r ih =>
    obtain ⟨k', v'⟩ := p
    simp only [List.cons_append, lookup] at h ⊢
    split
    · rename_i hk; simp only [hk, if_true] at h; exact h
    · rename_i hk; simp only [hk, if_false] at h; exact ih h

theorem lookup_append_single_self {k : String} {v : Val} (m : KVs) (h : lookup k m = none) :
    lookup k (m ++ [(k, v)]) = some v := by
  induction m with
  | nil => simp [lookup]
  | cons p r ih =>
    obtain ⟨k', v'⟩ := p
    simp only [List.cons_append, lookup] at h ⊢
    split
    · rename_i hk; simp only [hk, if_true] at h; cases h
    · rename_i hk; simp only [hk, if_false] at h; exact ih h

theorem lookup_of_mem_nodup {n : String} {a : Val} : ∀ (m : KVs), (m.map Prod.fst).Nodup → (n, a) ∈ m → lookup n m = some a
  | [], _, h => by cases h
  | (k, v) :: r, hnd, h => by
    simp only [List.map_cons, List.nodup_cons] at hnd
    simp only [lookup]
    rcases List.mem_cons.mp h with h1 | h2
    · cases h1; simp
    · have : n ≠ k := by
        intro e; subst e
        exact hnd.1 (List.mem_map.mpr ⟨(n, a), h2, rfl⟩)
      simp only [this, if_false]
      exact lookup_of_mem_nodup r hnd.2 h2

theorem mem_of_lookup {n : String} {a : Val} : ∀ (m : KVs), lookup n m = some a → (n, a) ∈ m
  | [], h => by simp [lookup] at h
  | (k, v) :: r, h => by
    simp only [lookup] at h
    split at h
    · rename_i hk; cases h; subst hk; exact List.mem_cons_self
    · exact List.mem_cons_of_mem _ (mem_of_lookup r h)

theorem lookup_insert_self (k : String) (v : Val) : ∀ (m : KVs), lookup k (Val.insert k v m) = some v
  | [] => by simp [Val.insert, lookup]
  | (k', v') :: r => by
    simp only [Val.insert]
    split
    · simp [lookup]
    · rename_i hk; simp only [lookup, hk, if_false]; exact lookup_insert_self k v r

theorem lookup_insert_ne {k k' : String} (v : Val) (h : k' ≠ k) : ∀ (m : KVs), lookup k' (Val.insert k v m) = lookup k' m
  | [] => by simp [Val.insert, lookup, h]
  | (k₁, v₁) :: r => by
    simp only [Val.insert]
    split
    · rename_i hk; subst hk; simp [lookup, h]
    · simp only [lookup]
      split
      · rfl
      · exact lookup_insert_ne v h r

theorem lookup_erase_ne {k k' : String} (h : k' ≠ k) : ∀ (m : KVs), lookup k' (Val.erase k m) = lookup k' m
  | [] => rfl
  | (k₁, v₁) :: r => by
    simp only [Val.erase]
    split
    · rename_i hk; subst hk; simp only [lookup, h, if_false]; exact lookup_erase_ne h r
    · simp only [lookup]
      split
      · rfl
      · exact lookup_erase_ne h r

theorem lookup_erase_self (k : String) : ∀ (m : KVs), lookup k (Val.erase k m) = none
  | [] => rfl
  | (k₁, v₁) :: r => by
    simp only [Val.erase]
    split
    · exact lookup_erase_self k r
    · rename_i hk; simp only [lookup, hk, if_false]; exact lookup_erase_self k r

/-! ### `Out.bind` -/

@[simp] theorem bind_ok {α β} (a : α) (f : α → Out β) : (Out.ok a).bind f = f a := rfl
@[simp] theorem bind_err {α β} (e : String) (f : α → Out β) : (Out.err e : Out α).bind f = .err e := rfl
@[simp] theorem bind_panic {α β} (s : String) (f : α → Out β) : (Out.panic s : Out α).bind f = .panic s := rfl

theorem bind_eq_ok {α β} {x : Out α} {f : α → Out β} {b : β} (h : x.bind f = .ok b) :
    ∃ a, x = .ok a ∧ f a = .ok b := by
  cases x with
  | ok a => exact ⟨a, rfl, h⟩
  | err e => cases h
  | panic s => cases h

end CV.Include
