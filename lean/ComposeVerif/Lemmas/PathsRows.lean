import ComposeVerif.Lemmas.PathsTree
/-!
# Every resolver row of a resolved tree is an output of its resolver  (C12, round 6)

`Frame` (Lemmas/PathsTree.lean) says what resolution does NOT touch.  `RowsAre t Q p v` is the complement: every node
of `v` the walker treats as a row `hn` satisfies `Q hn node`.  `walk_rows`: after a successful walk every row node is in
the image of its resolver (`ImageOf`); `image_pathOK`: a string in the image of `absPath` / `absContextPath` /
`maybeUnixPath` under an absolute base is absolute, empty, or one of the exemptions (`PathOK`).
-/
namespace CV.Paths
open CV CV.TPath

mutual
/-- `RowsAre t Q p v`: every node of `v` that the walker treats as a resolver row `hn` (first matching row, no descent
below it) satisfies `Q hn node` -/
def RowsAre (t : Table) (Q : String → Val → Prop) : TPath → Val → Prop
  | p, .map kvs => match firstMatch t p with
    | some hn => Q hn (.map kvs)
    | none => RowsAreKVs t Q p kvs
  | p, .seq xs => match firstMatch t p with
    | some hn => Q hn (.seq xs)
    | none => RowsAreSeq t Q p xs
  | p, v => match firstMatch t p with
    | some hn => Q hn v
    | none => True
def RowsAreKVs (t : Table) (Q : String → Val → Prop) : TPath → List (String × Val) → Prop
  | _, [] => True
  | p, (k, v) :: r => RowsAre t Q (TPath.next p k) v ∧ RowsAreKVs t Q p r
def RowsAreSeq (t : Table) (Q : String → Val → Prop) : TPath → List Val → Prop
  | _, [] => True
  | p, x :: r => RowsAre t Q (TPath.next p "[]") x ∧ RowsAreSeq t Q p r
end

theorem rowsAre_of_match (t : Table) (Q : String → Val → Prop) (p : TPath) (v : Val) (hn : String)
    (hm : firstMatch t p = some hn) (h : Q hn v) : RowsAre t Q p v := by
  cases v <;> simp only [RowsAre, hm] <;> exact h

theorem rowsAre_scalar (t : Table) (Q : String → Val → Prop) (p : TPath) (v : Val)
    (hm : firstMatch t p = none) (hs : (∀ kvs, v ≠ .map kvs) ∧ (∀ xs, v ≠ .seq xs)) : RowsAre t Q p v := by
  cases v with
  | map kvs => exact absurd rfl (hs.1 kvs)
  | seq xs => exact absurd rfl (hs.2 xs)
  | _ => simp [RowsAre, hm]

/-- the image of a row's resolver -/
def ImageOf (cfg : Cfg) (hn : String) (out : Val) : Prop := ∃ inp, applyResolver cfg hn inp = .ok out

mutual
theorem walk_rows (t : Table) (cfg : Cfg) :
    ∀ (p : TPath) (v v' : Val), walk t cfg p v = .ok v' → RowsAre t (ImageOf cfg) p v'
  | p, .map kvs, v', h => by
    cases hm : firstMatch t p with
    | some hn =>
      simp only [walk, hm] at h
      exact rowsAre_of_match t _ p v' hn hm ⟨_, h⟩
    | none =>
      simp only [walk, hm] at h
      obtain ⟨kvs', hk, rfl⟩ := Out.map_ok _ _ _ h
      simp only [RowsAre, hm]
      exact walkKVs_rows t cfg p kvs kvs' hk
  | p, .seq xs, v', h => by
    cases hm : firstMatch t p with
    | some hn =>
      simp only [walk, hm] at h
      exact rowsAre_of_match t _ p v' hn hm ⟨_, h⟩
    | none =>
      simp only [walk, hm] at h
      obtain ⟨xs', hk, rfl⟩ := Out.map_ok _ _ _ h
      simp only [RowsAre, hm]
      exact walkSeq_rows t cfg p xs xs' hk
  | p, .null, v', h => by
    cases hm : firstMatch t p with
    | some hn => simp only [walk, hm] at h; exact rowsAre_of_match t _ p v' hn hm ⟨_, h⟩
    | none => simp only [walk, hm, Out.ok.injEq] at h; subst h; simp [RowsAre, hm]
  | p, .bool b, v', h => by
    cases hm : firstMatch t p with
    | some hn => simp only [walk, hm] at h; exact rowsAre_of_match t _ p v' hn hm ⟨_, h⟩
    | none => simp only [walk, hm, Out.ok.injEq] at h; subst h; simp [RowsAre, hm]
  | p, .int b, v', h => by
    cases hm : firstMatch t p with
    | some hn => simp only [walk, hm] at h; exact rowsAre_of_match t _ p v' hn hm ⟨_, h⟩
    | none => simp only [walk, hm, Out.ok.injEq] at h; subst h; simp [RowsAre, hm]
  | p, .float b, v', h => by
    cases hm : firstMatch t p with
    | some hn => simp only [walk, hm] at h; exact rowsAre_of_match t _ p v' hn hm ⟨_, h⟩
    | none => simp only [walk, hm, Out.ok.injEq] at h; subst h; simp [RowsAre, hm]
  | p, .str b, v', h => by
    cases hm : firstMatch t p with
    | some hn => simp only [walk, hm] at h; exact rowsAre_of_match t _ p v' hn hm ⟨_, h⟩
    | none => simp only [walk, hm, Out.ok.injEq] at h; subst h; simp [RowsAre, hm]
theorem walkKVs_rows (t : Table) (cfg : Cfg) :
    ∀ (p : TPath) (kvs kvs' : List (String × Val)), walkKVs t cfg p kvs = .ok kvs' → RowsAreKVs t (ImageOf cfg) p kvs'
  | p, [], kvs', h => by
    simp only [walkKVs, Out.ok.injEq] at h; subst h; simp [RowsAreKVs]
  | p, (k, v) :: r, kvs', h => by
    simp only [walkKVs] at h
    cases hx : walk t cfg (TPath.next p k) v with
    | ok x' =>
      rw [hx] at h
      simp only at h
      obtain ⟨r', hr, rfl⟩ := Out.map_ok _ _ _ h
      simp only [RowsAreKVs]
      exact ⟨walk_rows t cfg _ v x' hx, walkKVs_rows t cfg p r r' hr⟩
    | err e => rw [hx] at h; simp at h
    | panic s => rw [hx] at h; simp at h
theorem walkSeq_rows (t : Table) (cfg : Cfg) :
    ∀ (p : TPath) (xs xs' : List Val), walkSeq t cfg p xs = .ok xs' → RowsAreSeq t (ImageOf cfg) p xs'
  | p, [], xs', h => by
    simp only [walkSeq, Out.ok.injEq] at h; subst h; simp [RowsAreSeq]
  | p, x :: r, xs', h => by
    simp only [walkSeq] at h
    cases hx : walk t cfg (TPath.next p "[]") x with
    | ok x' =>
      rw [hx] at h
      simp only at h
      obtain ⟨r', hr, rfl⟩ := Out.map_ok _ _ _ h
      simp only [RowsAreSeq]
      exact ⟨walk_rows t cfg _ x x' hx, walkSeq_rows t cfg p r r' hr⟩
    | err e => rw [hx] at h; simp at h
    | panic s => rw [hx] at h; simp at h
end

/-- what the images of the three string resolvers look like -/
theorem image_context (cfg : Cfg) (out : Val) (h : ImageOf cfg "absContextPath" out) :
    ∃ s : String, out = .str (String.ofList (absContextStr cfg s.toList)) := by
  obtain ⟨inp, h⟩ := h
  simp only [applyResolver] at h
  cases inp <;> simp [absContextPath, okStr] at h
  exact ⟨_, h.symm⟩

theorem image_mount (cfg : Cfg) (out : Val) (h : ImageOf cfg "maybeUnixPath" out) :
    ∃ (s : String) (r : Str), maybeUnixStr cfg s.toList = .ok r ∧ out = .str (String.ofList r) := by
  obtain ⟨inp, h⟩ := h
  simp only [applyResolver] at h
  cases inp <;> simp [maybeUnixPath] at h
  obtain ⟨r, hr, rfl⟩ := Out.map_ok _ _ _ h
  exact ⟨_, r, hr, rfl⟩



mutual
theorem rowsAre_mono (t : Table) (Q Q' : String → Val → Prop) (hq : ∀ hn v, Q hn v → Q' hn v) :
    ∀ (p : TPath) (v : Val), RowsAre t Q p v → RowsAre t Q' p v
  | p, .map kvs, h => by
    cases hm : firstMatch t p with
    | some hn => simp only [RowsAre, hm] at h ⊢; exact hq _ _ h
    | none => simp only [RowsAre, hm] at h ⊢; exact rowsAreKVs_mono t Q Q' hq p kvs h
  | p, .seq xs, h => by
    cases hm : firstMatch t p with
    | some hn => simp only [RowsAre, hm] at h ⊢; exact hq _ _ h
    | none => simp only [RowsAre, hm] at h ⊢; exact rowsAreSeq_mono t Q Q' hq p xs h
  | p, .null, h => by
    cases hm : firstMatch t p with
    | some hn => simp only [RowsAre, hm] at h ⊢; exact hq _ _ h
    | none => simp [RowsAre, hm]
  | p, .bool b, h => by
    cases hm : firstMatch t p with
    | some hn => simp only [RowsAre, hm] at h ⊢; exact hq _ _ h
    | none => simp [RowsAre, hm]
  | p, .int b, h => by
    cases hm : firstMatch t p with
    | some hn => simp only [RowsAre, hm] at h ⊢; exact hq _ _ h
    | none => simp [RowsAre, hm]
  | p, .float b, h => by
    cases hm : firstMatch t p with
    | some hn => simp only [RowsAre, hm] at h ⊢; exact hq _ _ h
    | none => simp [RowsAre, hm]
  | p, .str b, h => by
    cases hm : firstMatch t p with
    | some hn => simp only [RowsAre, hm] at h ⊢; exact hq _ _ h
    | none => simp [RowsAre, hm]
theorem rowsAreKVs_mono (t : Table) (Q Q' : String → Val → Prop) (hq : ∀ hn v, Q hn v → Q' hn v) :
    ∀ (p : TPath) (kvs : List (String × Val)), RowsAreKVs t Q p kvs → RowsAreKVs t Q' p kvs
  | _, [], _ => by simp [RowsAreKVs]
  | p, (k, v) :: r, h => by
    simp only [RowsAreKVs] at h ⊢
    exact ⟨rowsAre_mono t Q Q' hq _ v h.1, rowsAreKVs_mono t Q Q' hq p r h.2⟩
theorem rowsAreSeq_mono (t : Table) (Q Q' : String → Val → Prop) (hq : ∀ hn v, Q hn v → Q' hn v) :
    ∀ (p : TPath) (xs : List Val), RowsAreSeq t Q p xs → RowsAreSeq t Q' p xs
  | _, [], _ => by simp [RowsAreSeq]
  | p, x :: r, h => by
    simp only [RowsAreSeq] at h ⊢
    exact ⟨rowsAre_mono t Q Q' hq _ x h.1, rowsAreSeq_mono t Q Q' hq p r h.2⟩
end

theorem image_absPath_str (cfg : Cfg) (x : String) (h : ImageOf cfg "absPath" (.str x)) :
    ∃ s : String, x = String.ofList (absPathStr cfg s.toList) := by
  obtain ⟨inp, h⟩ := h
  simp only [applyResolver] at h
  cases inp with
  | str s => simp [absPath] at h; exact ⟨s, h.symm⟩
  | seq xs =>
    simp only [absPath, if_true] at h
    obtain ⟨_, _, h2⟩ := Out.map_ok _ _ _ h
    cases h2
  | _ => simp [absPath] at h

/-- a string node at a resolver row of a resolved tree: absolute, or one of the exemptions the property names (empty
values stay empty) -/
def PathOK (hn : String) (out : Val) : Prop :=
  ∀ x, out = .str x →
    (hn = "absPath" → isAbs x.toList = true ∨ x.toList = []) ∧
    (hn = "absContextPath" → isAbs x.toList = true ∨ x.toList = [] ∨ urlLike x.toList = true) ∧
    (hn = "maybeUnixPath" → isAbs x.toList = true ∨ isWindowsAbs? x.toList = some true)

theorem image_pathOK (cfg : Cfg) (hwd : isAbs cfg.wd = true) (hn : String) (out : Val) (h : ImageOf cfg hn out) :
    PathOK hn out := by
  intro x hx
  subst hx
  refine ⟨?_, ?_, ?_⟩
  · intro e; subst e
    obtain ⟨s, rfl⟩ := image_absPath_str cfg x h
    simpa using absPathStr_abs_or_nil cfg s.toList hwd
  · intro e; subst e
    obtain ⟨s, hs⟩ := image_context cfg _ h
    simp only [Val.str.injEq] at hs
    subst hs
    cases hu : urlLike s.toList with
    | true => rw [absContextStr_url cfg _ hu]; simp [hu]
    | false =>
      rw [absContextStr_local cfg _ hu]
      rcases absPathStr_abs_or_nil cfg s.toList hwd with h1 | h1
      · simp [h1]
      · simp [h1]
  · intro e; subst e
    obtain ⟨s, r, hr, hs⟩ := image_mount cfg _ h
    simp only [Val.str.injEq] at hs
    subst hs
    simpa using maybeUnixStr_result cfg s.toList r hwd hr

end CV.Paths
