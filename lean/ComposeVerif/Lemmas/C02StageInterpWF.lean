import ComposeVerif.Lemmas.C02StageInterp
namespace CV.Det.Stage
open CV CV.Deep CV.Interp
open CV.Val (lookup insert keys KVs)

/-- a successful walker loop keeps the keys and puts `g k v` under each -/
theorem travOpt_mwf (g : String → Val → Option Val) {m r : KVs} (wm : MWF m) (h : travOpt g m = some r)
    (hg : ∀ k x z, lookup k m = some x → g k x = some z → WF z) : MWF r := by
  have e := travOpt_eq_map g m r h
  have hall : ∀ k x, lookup k m = some x → (g k x).isSome = true := by
    have : (travOpt g m).isSome = true := by rw [h]; rfl
    rw [travOpt_isSome] at this
    exact (lookup_all_of_nodup wm.1 (fun k v => (g k v).isSome)).mp this
  subst e
  refine ⟨?_, ?_⟩
  · have : keys (m.map (fun kv => (kv.1, (g kv.1 kv.2).getD Val.null))) = keys m := by
      simp only [keys, List.map_map]; rfl
    rw [this]; exact wm.1
  · intro k z hz
    rw [lookup_mapG (fun k v => (g k v).getD Val.null)] at hz
    cases hx : lookup k m with
    | none => rw [hx] at hz; cases hz
    | some x =>
      rw [hx] at hz
      simp only [Option.map_some, Option.some.injEq] at hz
      have hs := hall k x hx
      cases hgx : g k x with
      | none => rw [hgx] at hs; cases hs
      | some z' => rw [hgx] at hz; simp only [Option.getD_some] at hz; subst hz; exact hg k x z' hx hgx

theorem interp_wf_aux (c : Cfg) {v : Val} (wv : WF v) :
    (∀ p r, interp c p v = .ok r → WF r) ∧
    (∀ xs, v = .seq xs → ∀ p rs, interpList c p xs = .ok rs → WF (.seq rs)) := by
  induction wv with
  | null => exact ⟨fun p r h => by simp only [interp] at h; cases h; exact .null, fun _ h => by cases h⟩
  | bool b => exact ⟨fun p r h => by simp only [interp] at h; cases h; exact .bool b, fun _ h => by cases h⟩
  | int i => exact ⟨fun p r h => by simp only [interp] at h; cases h; exact .int i, fun _ h => by cases h⟩
  | float s => exact ⟨fun p r h => by simp only [interp] at h; cases h; exact .float s, fun _ h => by cases h⟩
  | str s => exact ⟨fun p r h => by simp only [interp] at h; exact leaf_wf c p s r h, fun _ h => by cases h⟩
  | seqNil =>
    refine ⟨fun p r h => ?_, fun xs e p rs h => ?_⟩
    · simp only [interp, interpList] at h; cases h; exact .seqNil
    · cases e; simp only [interpList] at h; cases h; exact .seqNil
  | @seqCons x xs wx wxs ih1 ih2 =>
    have key : ∀ p rs, interpList c p (x :: xs) = .ok rs → WF (.seq rs) := by
      intro p rs h
      rw [interpList] at h
      cases hx : interp c (TPath.next p "[]") x with
      | ok z =>
        rw [hx] at h
        cases hxs : interpList c p xs with
        | ok zs =>
          rw [hxs] at h
          simp only [] at h
          cases h
          exact .seqCons (ih1.1 _ _ hx) (ih2.2 xs rfl p zs hxs)
        | err e => rw [hxs] at h; cases h
        | panic e => rw [hxs] at h; cases h
      | err e => rw [hx] at h; cases h
      | panic e => rw [hx] at h; cases h
    refine ⟨fun p r h => ?_, fun xs' e p rs h => by cases e; exact key p rs h⟩
    simp only [interp] at h
    cases hl : interpList c p (x :: xs) with
    | ok rs => rw [hl] at h; cases h; exact key p rs hl
    | err e => rw [hl] at h; cases h
    | panic e => rw [hl] at h; cases h
  | @map a hn hall ih =>
    refine ⟨fun p r h => ?_, fun _ e => by cases e⟩
    simp only [interp] at h
    cases hk : interpKVs c p a with
    | ok m =>
      rw [hk] at h; cases h
      have ht : travOpt (fun k v => optI (interp c (TPath.next p k) v)) a = some m := by
        rw [← interpKVs_trav, hk]; rfl
      refine WF.map_iff.mpr (travOpt_mwf _ ⟨hn, hall⟩ ht ?_)
      intro k x z hx hz
      cases hi : interp c (TPath.next p k) x with
      | ok z' => rw [hi] at hz; simp only [optI, Option.some.injEq] at hz; subst hz; exact (ih k x hx).1 _ _ hi
      | err e => rw [hi] at hz; cases hz
      | panic e => rw [hi] at hz; cases hz
    | err e => rw [hk] at h; cases h
    | panic e => rw [hk] at h; cases h

/-- **`Interpolate` keeps the keys of every mapping distinct** -/
theorem interp_wf (c : Cfg) (p : TPath) {v r : Val} (wv : WF v) (h : interp c p v = .ok r) : WF r :=
  (interp_wf_aux c wv).1 p r h

end CV.Det.Stage
